import RbV.Spec.RankSelect
/-
C17 [A]/[B] — mirror model of `bio::data_structures::rank_select` (src/data_structures/rank_select.rs).

The bit vector is a `List Bool`.  A *block* is what `bits.get_block(b)` returns for `BitVec<u8>`: the (at most 8)
bits `8b .. 8b+7`; `bv` masks the padding of the last block, so a short last block is the list of its valid
bits and `count_zeros` (which counts the zero padding too) is `8 - count_ones`.  Blocks are read through an accessor
`gb : Nat → List Bool` (`getBlock bits` in the theorems, an array look-up in the driver).
`s = 32·k` is the superblock size in bits.  Loops are folds over index ranges; the early `return` of `select_x`
is a recursion over the list of block indices.  Core Lean only.
-/
namespace RbV.Model.RankSelect

/-- `bits.get_block(b)` -/
def getBlock (bits : List Bool) (b : Nat) : List Bool := (bits.drop (8 * b)).take 8

/-- all blocks, in order (what the driver indexes): `(chunks bits)[b] = getBlock bits b` -/
def chunks (bits : List Bool) : List (List Bool) :=
  (List.range ((bits.length + 7) / 8)).map (getBlock bits)

def countOnes (blk : List Bool) : Nat := blk.count true
/-- `u8::count_zeros` of the (zero-padded) byte -/
def countZeros (blk : List Bool) : Nat := 8 - blk.count true

/-- `enum SuperblockRank { First(u64), Some(u64) }` -/
inductive SbRank where
  | first (r : Nat)
  | some (r : Nat)
  deriving Repr, DecidableEq

/-- `Deref` -/
def SbRank.val : SbRank → Nat
  | .first r => r
  | .some r => r

/-- `impl Ord for SuperblockRank`: by rank, `First(r) < Some(r)` -/
def SbRank.lt (a b : SbRank) : Bool :=
  a.val < b.val || (a.val == b.val && (match a, b with | .first _, .some _ => true | _, _ => false))

structure SbState where
  out : List SbRank := []
  rank : Nat := 0
  last : Option Nat := none
  i : Nat := 0

/-- body of `for block in 0..nblocks` in `fn superblocks(t, n, s, bits)` -/
def sbStep (t : Bool) (s : Nat) (gb : Nat → List Bool) (st : SbState) (block : Nat) : SbState :=
  let b := gb block
  let st := if st.i % s = 0 then
      { st with out := st.out ++ [if some st.rank ≠ st.last then SbRank.first st.rank else SbRank.some st.rank],
                last := some st.rank }
    else st
  { st with rank := st.rank + (if t then countOnes b else countZeros b), i := st.i + 8 }

/-- `fn superblocks(t, n, s, bits) -> Vec<SuperblockRank>`; `nblocks = ⌈n / 8⌉` -/
def superblocks (t : Bool) (n s : Nat) (gb : Nat → List Bool) : List SbRank :=
  ((List.range ((n + 7) / 8)).foldl (sbStep t s gb) {}).out

/-- `pub fn rank_1(&self, i) -> Option<u64>` -/
def rank1 (n s : Nat) (gb : Nat → List Bool) (sbs1 : List SbRank) (i : Nat) : Option Nat :=
  if i ≥ n then none
  else
    let sb := i / s
    let b := i / 8
    let j := i % 8
    let rank := (sbs1.getD sb (.first 0)).val
    -- `(get_block(b) & ((2 << j) - 1)).count_ones()`: the low j+1 bits of the block
    let rank := rank + countOnes ((gb b).take (j + 1))
    -- `for block in (s * self.s / 8)..b { rank += get_block(block).count_ones() }`
    let lo := sb * s / 8
    some ((List.range' lo (b - lo)).foldl (fun r blk => r + countOnes (gb blk)) rank)

/-- `pub fn rank_0(&self, i)`: `self.rank_1(i).map(|r| (i + 1) - r)` -/
def rank0 (n s : Nat) (gb : Nat → List Bool) (sbs1 : List SbRank) (i : Nat) : Option Nat :=
  (rank1 n s gb sbs1 i).map (fun r => (i + 1) - r)

/-- `superblocks.binary_search(&First(j))` followed by `Ok(i) | Err(i) => i`: the slice is sorted and holds at most
one element equal to the key, so both outcomes are the number of elements strictly below the key -/
def searchIdx (sbs : List SbRank) (key : SbRank) : Nat := (sbs.takeWhile (fun e => e.lt key)).length

inductive Scan where
  | found (pos : Nat)
  | notFound (rank : Nat)

/-- `for i in 0..max_bit { rank += is_match(b & bit) as u64; if rank == j { return Some(..i) } bit <<= 1 }` -/
def scanBits (blk : List Bool) (isOne : Bool) (j : Nat) : Nat → Nat → Nat → Scan
  | 0, _, rank => .notFound rank
  | fuel + 1, i, rank =>
    let rank := rank + (if blk.getD i false = isOne then 1 else 0)
    if rank = j then .found i else scanBits blk isOne j fuel (i + 1) rank

/-- the block loop of `select_x` over the block indices still to visit -/
def selectBlocks (n : Nat) (gb : Nat → List Bool) (isOne : Bool) (j : Nat) : List Nat → Nat → Option Nat
  | [], _ => none
  | block :: rest, rank =>
    let b := gb block
    let p := if isOne then countOnes b else countZeros b
    if rank + p ≥ j then
      -- `max_bit = min(8, len - block * 8)`: do not look at the unused bits of the last block
      match scanBits b isOne j (min 8 (n - block * 8)) 0 rank with
      | .found pos => some (block * 8 + pos)
      | .notFound rank' => selectBlocks n gb isOne j rest (rank' + p)   -- `rank += p` after the scan, as in the code
    else selectBlocks n gb isOne j rest (rank + p)

/-- `fn select_x(&self, j, superblocks, is_match, count_all)`; `isOne = true` for `select_1` -/
def selectX (n s : Nat) (gb : Nat → List Bool) (sbs : List SbRank) (isOne : Bool) (j : Nat) : Option Nat :=
  if j = 0 then none
  else
    let sb := searchIdx sbs (.first j) - 1            -- `saturating_sub(1)`
    let rank := (sbs.getD sb (.first 0)).val
    let firstBlock := sb * s / 8
    let hi := min (firstBlock + s / 8) ((n + 7) / 8)   -- `cmp::min(first_block + self.s / 8, self.bits.block_len())`
    selectBlocks n gb isOne j (List.range' firstBlock (hi - firstBlock)) rank

/-- the whole structure as built by `RankSelect::new(bits, k)` -/
structure RS where
  n : Nat
  s : Nat
  sbs1 : List SbRank
  sbs0 : List SbRank

def build (bits : List Bool) (k : Nat) (gb : Nat → List Bool) : RS :=
  let n := bits.length
  let s := k * 32
  { n := n, s := s, sbs1 := superblocks true n s gb, sbs0 := superblocks false n s gb }

end RbV.Model.RankSelect
