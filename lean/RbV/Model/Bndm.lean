import RbV.Model.ShiftAnd
import RbV.Basic.Slices
/-!
Mirror model of `pattern_matching::bndm` (after the m = 64 repair).

Rust:
```
new:  (masks, accept) = shift_and::masks(pattern.rev())
next: while window <= n {
        occ = None; active = if m >= 64 { u64::MAX } else { (1 << m) - 1 }; (j, lastsuffix) = (1, 0);
        while active != 0 {
          active &= masks[text[window - j]];
          if active & accept != 0 { if j == m { occ = Some(window - m); break } else { lastsuffix = j } }
          j += 1; active <<= 1;
        }
        window += m - lastsuffix;
        if occ.is_some() { return occ }
      }
```
`window - j` underflow (a panic in Rust) is `none` in the model; the theorem shows it never happens.
-/
namespace RbV.Bndm
open RbV.ShiftAnd (MState masksLoop W)

/-- inner `while active != 0` loop; result `(occ found, lastsuffix)` -/
def inner (ms : MState) (m : Nat) (t : List Nat) (window : Nat) : Nat → Nat → Nat → Nat → Option (Bool × Nat)
  | 0, _, active, ls => if active = 0 then some (false, ls) else none       -- fuel exhausted: never (theorem)
  | fuel + 1, j, active, ls =>
    if active = 0 then some (false, ls) else
    if window < j then none else                                            -- usize underflow
    match t[window - j]? with
    | none => none                                                          -- index out of bounds
    | some c =>
      let a := active &&& ms.masks c
      if a &&& ms.accept ≠ 0 then
        if j = m then some (true, ls)
        else inner ms m t window fuel (j + 1) ((a <<< 1) % W) j
      else inner ms m t window fuel (j + 1) ((a <<< 1) % W) ls

def initActive (m : Nat) : Nat := if m ≥ 64 then W - 1 else (1 <<< m) - 1

def outer (ms : MState) (m : Nat) (t : List Nat) : Nat → Nat → Option (List Nat)
  | 0, window => if window ≤ t.length then none else some []                -- fuel exhausted: never (theorem)
  | fuel + 1, window =>
    if window ≤ t.length then
      match inner ms m t window (m + 1) 1 (initActive m) 0 with
      | none => none
      | some (occ, ls) =>
        match outer ms m t fuel (window + (m - ls)) with
        | none => none
        | some rest => some (if occ then (window - m) :: rest else rest)
    else some []

def findAll (p t : List Nat) : Option (List Nat) :=
  outer (masksLoop p.reverse) p.length t (t.length + 1) p.length

/-! ### factors of the pattern ending at the window -/

section
variable (p t : List Nat) (window : Nat)

/-- the `l` text symbols before `window` equal `p[o .. o+l)` -/
def Fac (l o : Nat) : Prop := ∀ k, k < l → t[window - l + k]? = p[o + k]?

theorem fac_succ (l o : Nat) (hl : l + 1 ≤ window) :
    Fac p t window (l + 1) o ↔ t[window - (l + 1)]? = p[o]? ∧ Fac p t window l (o + 1) := by
  unfold Fac
  constructor
  · intro h
    refine ⟨by simpa using h 0 (by omega), ?_⟩
    intro k hk
    have := h (k + 1) (by omega)
    have e1 : window - (l + 1) + (k + 1) = window - l + k := by omega
    have e2 : o + (k + 1) = o + 1 + k := by omega
    rw [e1, e2] at this; exact this
  · rintro ⟨h0, h⟩ k hk
    cases k with
    | zero => simpa using h0
    | succ k =>
      have := h k (by omega)
      have e1 : window - (l + 1) + (k + 1) = window - l + k := by omega
      have e2 : o + (k + 1) = o + 1 + k := by omega
      rw [e1, e2]; exact this

/-- a factor cannot run past the end of the pattern -/
theorem fac_bound (l o : Nat) (hl : 1 ≤ l) (hw : l ≤ window) (hn : window ≤ t.length)
    (h : Fac p t window l o) : o + l ≤ p.length := by
  have := h (l - 1) (by omega)
  have hlt : window - l + (l - 1) < t.length := by omega
  rw [List.getElem?_eq_getElem hlt] at this
  rcases Nat.lt_or_ge (o + (l - 1)) p.length with h1 | h1
  · omega
  · rw [List.getElem?_eq_none h1] at this; simp at this

/-- a suffix of a factor is a factor -/
theorem fac_suffix (l l' o : Nat) (hl : l' ≤ l) (hw : l ≤ window) (h : Fac p t window l o) :
    Fac p t window l' (o + (l - l')) := by
  intro k hk
  have := h (l - l' + k) (by omega)
  have e1 : window - l + (l - l' + k) = window - l' + k := by omega
  have e2 : o + (l - l' + k) = o + (l - l') + k := by omega
  rw [e1, e2] at this; exact this

end

/-! ### the inner loop -/

theorem initActive_testBit (m i : Nat) (hm : m ≤ 64) : (initActive m).testBit i = decide (i < m) := by
  unfold initActive
  split
  · have : m = 64 := by omega
    subst this
    show (2 ^ 64 - 1).testBit i = _
    rw [Nat.testBit_two_pow_sub_one]
  · rw [Nat.shiftLeft_eq, Nat.one_mul, Nat.testBit_two_pow_sub_one]

theorem rmask_testBit (p : List Nat) (hm : p.length ≤ 64) (c i : Nat) (hi : i < p.length) :
    ((masksLoop p.reverse).masks c).testBit i = (p[p.length - 1 - i]? == some c) := by
  rw [ShiftAnd.masks_testBit p.reverse (by simpa using hm), List.getElem?_reverse hi]

theorem rmask_testBit_high (p : List Nat) (hm : p.length ≤ 64) (c i : Nat) (hi : p.length ≤ i) :
    ((masksLoop p.reverse).masks c).testBit i = false := by
  rw [ShiftAnd.masks_testBit p.reverse (by simpa using hm), List.getElem?_eq_none (by simpa using hi)]
  simp

structure IInv (p t : List Nat) (window j active ls : Nat) : Prop where
  j1 : 1 ≤ j
  jle : j ≤ p.length + 1
  bits : ∀ i, i < p.length → (active.testBit i = true ↔ Fac p t window (j - 1) (p.length - i))
  jm : active ≠ 0 → j ≤ p.length
  ls_lt : ls < p.length ∧ ls < j
  ls_max : ∀ l, ls < l → l < j → ¬ Fac p t window l 0

theorem and_pow_ne_zero_iff (a k : Nat) : a &&& 2 ^ k ≠ 0 ↔ a.testBit k = true := by
  constructor
  · intro hne
    obtain ⟨i, hi⟩ := Nat.exists_testBit_of_ne_zero hne
    rw [Nat.testBit_and, Nat.testBit_two_pow] at hi
    simp at hi
    obtain ⟨h1, h2⟩ := hi
    subst h2; exact h1
  · intro hb h0
    have : (a &&& 2 ^ k).testBit k = true := by
      rw [Nat.testBit_and, Nat.testBit_two_pow]; simp [hb]
    rw [h0] at this; simp at this

/-- result of the inner loop: a match is flagged exactly when the window is an occurrence, and no prefix of the
pattern longer than `lastsuffix` (and shorter than `m`) ends at the window -/
theorem inner_spec (p t : List Nat) (window : Nat) (hp : 0 < p.length) (hm : p.length ≤ 64)
    (hw : p.length ≤ window) (hn : window ≤ t.length) :
    ∀ (fuel j active ls : Nat), p.length + 2 ≤ fuel + j → IInv p t window j active ls →
      ∃ occ ls', inner (masksLoop p.reverse) p.length t window fuel j active ls = some (occ, ls') ∧
        (occ = true ↔ Fac p t window p.length 0) ∧ ls' < p.length ∧
        ∀ l, ls' < l → l < p.length → ¬ Fac p t window l 0 := by
  -- what holds when the loop is left because `active = 0`
  have hexit : ∀ j ls, IInv p t window j 0 ls →
      (false = true ↔ Fac p t window p.length 0) ∧ ls < p.length ∧
        ∀ l, ls < l → l < p.length → ¬ Fac p t window l 0 := by
    intro j ls inv
    have hb : ∀ i, i < p.length → ¬ Fac p t window (j - 1) (p.length - i) := by
      intro i hi h
      have := (inv.bits i hi).mpr h
      simp at this
    refine ⟨?_, inv.ls_lt.1, ?_⟩
    · simp only [Bool.false_eq_true, false_iff]
      intro hf
      rcases Nat.lt_or_ge (j - 1) p.length with h | h
      · have := fac_suffix p t window p.length (j - 1) 0 (by omega) hw hf
        apply hb (j - 1) h
        have e : 0 + (p.length - (j - 1)) = p.length - (j - 1) := by omega
        rw [e] at this; exact this
      · exact inv.ls_max p.length inv.ls_lt.1 (by have := inv.jle; omega) hf
    · intro l hl1 hl2 hf
      rcases Nat.lt_or_ge l j with h | h
      · exact inv.ls_max l hl1 h hf
      · have := fac_suffix p t window l (j - 1) 0 (by omega) (by omega) hf
        apply hb (p.length - l + (j - 1)) (by omega)
        have e : 0 + (l - (j - 1)) = p.length - (p.length - l + (j - 1)) := by omega
        rw [e] at this; exact this
  intro fuel
  induction fuel with
  | zero =>
    intro j active ls hf inv
    have := inv.jle; omega
  | succ fuel ih =>
    intro j active ls hf inv
    simp only [inner]
    by_cases ha : active = 0
    · subst ha
      simp only [if_true]
      exact ⟨false, ls, rfl, hexit j ls inv⟩
    · simp only [ha, if_false]
      have hjm := inv.jm ha
      have hj1 := inv.j1
      have hwj : ¬ window < j := by omega
      simp only [hwj, if_false]
      have hidx : window - j < t.length := by omega
      rw [List.getElem?_eq_getElem hidx]
      simp only []
      generalize hc : t[window - j] = c
      have htc : t[window - j]? = some c := by rw [List.getElem?_eq_getElem hidx, hc]
      -- bits of `a`
      have habits : ∀ i, (active &&& (masksLoop p.reverse).masks c).testBit i = true ↔
          (i < p.length ∧ Fac p t window j (p.length - 1 - i)) := by
        intro i
        rw [Nat.testBit_and]
        rcases Nat.lt_or_ge i p.length with hi | hi
        · rw [rmask_testBit p hm c i hi]
          have hs := fac_succ p t window (j - 1) (p.length - 1 - i) (by omega)
          have e1 : j - 1 + 1 = j := by omega
          have e2 : p.length - 1 - i + 1 = p.length - i := by omega
          rw [e1, e2, htc] at hs
          rw [hs]
          simp only [Bool.and_eq_true, beq_iff_eq]
          rw [inv.bits i hi]
          constructor
          · rintro ⟨h1, h2⟩; exact ⟨hi, h2.symm, h1⟩
          · rintro ⟨_, h2, h1⟩; exact ⟨h1, h2.symm⟩
        · rw [rmask_testBit_high p hm c i hi]
          simp; omega
      have hacc : (active &&& (masksLoop p.reverse).masks c) &&& (masksLoop p.reverse).accept ≠ 0 ↔
          Fac p t window j 0 := by
        rw [ShiftAnd.accept_eq p.reverse (by simpa using hm) (by simpa using hp)]
        simp only [List.length_reverse]
        rw [and_pow_ne_zero_iff, habits]
        have e : p.length - 1 - (p.length - 1) = 0 := by omega
        rw [e]
        constructor
        · exact fun h => h.2
        · exact fun h => ⟨by omega, h⟩
      -- bits of the shifted state
      have hnbits : ∀ i, i < p.length →
          ((((active &&& (masksLoop p.reverse).masks c) <<< 1) % W).testBit i = true ↔
            Fac p t window (j + 1 - 1) (p.length - i)) := by
        intro i hi
        have e : j + 1 - 1 = j := by omega
        rw [e]
        unfold W
        rw [Nat.testBit_mod_two_pow, Nat.testBit_shiftLeft]
        cases i with
        | zero =>
          simp only [Nat.sub_zero]
          constructor
          · intro h; simp at h
          · intro hf
            have := fac_bound p t window j p.length hj1 (by omega) hn hf
            omega
        | succ i =>
          have e2 : i + 1 - 1 = i := by omega
          have e3 : p.length - (i + 1) = p.length - 1 - i := by omega
          rw [e3]
          have := habits i
          simp only [Bool.and_eq_true, decide_eq_true_eq, ge_iff_le, e2]
          rw [this]
          constructor
          · rintro ⟨_, _, _, h⟩; exact h
          · intro h; exact ⟨by omega, by omega, by omega, h⟩
      split
      · rename_i hA
        have hfj := hacc.mp hA
        split
        · rename_i hjeq
          subst hjeq
          refine ⟨true, ls, rfl, ?_, inv.ls_lt.1, ?_⟩
          · simp [hfj]
          · intro l h1 h2 hf
            exact inv.ls_max l h1 h2 hf
        · rename_i hjne
          apply ih (j + 1) _ j (by omega)
          refine ⟨by omega, by omega, hnbits, fun _ => by omega, ⟨by omega, by omega⟩, ?_⟩
          intro l h1 h2; omega
      · rename_i hA
        have hnf : ¬ Fac p t window j 0 := fun h => hA (hacc.mpr h)
        apply ih (j + 1) _ ls (by omega)
        refine ⟨by omega, by omega, hnbits, ?_, ⟨inv.ls_lt.1, by have := inv.ls_lt.2; omega⟩, ?_⟩
        · intro hne
          rcases Nat.lt_or_ge j p.length with h | h
          · omega
          · exfalso
            apply hne
            have hj : j = p.length := by omega
            have hz : active &&& (masksLoop p.reverse).masks c = 0 := by
              apply Nat.eq_of_testBit_eq
              intro i
              simp only [Nat.zero_testBit]
              cases hb : (active &&& (masksLoop p.reverse).masks c).testBit i with
              | false => rfl
              | true =>
                exfalso
                have := (habits i).mp hb
                have hbnd := fac_bound p t window j (p.length - 1 - i) hj1 (by omega) hn this.2
                have hi : i = p.length - 1 := by omega
                subst hi
                have e : p.length - 1 - (p.length - 1) = 0 := by omega
                rw [e] at this
                exact hnf this.2
            rw [hz]; simp
        · intro l h1 h2 hfl
          rcases Nat.lt_or_ge l j with h | h
          · exact inv.ls_max l h1 h hfl
          · have : l = j := by omega
            rw [this] at hfl; exact hnf hfl

/-! ### the window loop -/

theorem fac_full_iff (p t : List Nat) (window : Nat) (hw : p.length ≤ window) (hn : window ≤ t.length) :
    Fac p t window p.length 0 ↔ OccursAt p t (window - p.length) := by
  rw [occursAt_iff_idx]
  unfold Fac
  constructor
  · intro h
    refine ⟨by omega, fun k hk => ?_⟩
    have := h k hk
    simpa using this
  · rintro ⟨_, h⟩ k hk
    have := h k hk
    simpa using this

theorem no_occ_skipped (p t : List Nat) (window ls s : Nat) (hw : p.length ≤ window) (hls : ls < p.length)
    (hmax : ∀ l, ls < l → l < p.length → ¬ Fac p t window l 0)
    (h1 : window - p.length < s) (h2 : s < window - p.length + (p.length - ls)) : ¬ OccursAt p t s := by
  intro hocc
  rw [occursAt_iff_idx] at hocc
  apply hmax (p.length - (s - (window - p.length))) (by omega) (by omega)
  intro k hk
  have := hocc.2 k (by omega)
  have e : window - (p.length - (s - (window - p.length))) + k = s + k := by omega
  rw [e]; simpa using this

theorem outer_spec (p t : List Nat) (hp : 0 < p.length) (hm : p.length ≤ 64) :
    ∀ (fuel window : Nat), p.length ≤ window → t.length + 1 ≤ window + fuel →
      ∃ L, outer (masksLoop p.reverse) p.length t fuel window = some L ∧
        (∀ s, s ∈ L ↔ (window - p.length ≤ s ∧ OccursAt p t s)) ∧ L.Pairwise (· < ·) := by
  intro fuel
  induction fuel with
  | zero =>
    intro window hw hf
    refine ⟨[], ?_, ?_, by simp⟩
    · simp only [outer]
      have : ¬ window ≤ t.length := by omega
      simp [this]
    · intro s
      simp only [List.not_mem_nil, false_iff]
      rintro ⟨h1, h2, _⟩; omega
  | succ fuel ih =>
    intro window hw hf
    simp only [outer]
    by_cases hn : window ≤ t.length
    · simp only [hn, if_true]
      have inv0 : IInv p t window 1 (initActive p.length) 0 := by
        refine ⟨Nat.le_refl _, by omega, ?_, fun _ => by omega, ⟨hp, by omega⟩, fun l h1 h2 => by omega⟩
        intro i hi
        rw [initActive_testBit p.length i hm]
        simp only [hi, decide_true, Nat.sub_self, true_iff]
        intro k hk; omega
      obtain ⟨occ, ls, hin, hocc, hls, hmax⟩ :=
        inner_spec p t window hp hm hw hn (p.length + 1) 1 (initActive p.length) 0 (by omega) inv0
      rw [hin]
      simp only []
      obtain ⟨L, hL, hmem, hsorted⟩ := ih (window + (p.length - ls)) (by omega) (by omega)
      rw [hL]
      simp only []
      rw [fac_full_iff p t window hw hn] at hocc
      have hskip := fun s => no_occ_skipped p t window ls s hw hls hmax
      cases occ with
      | true =>
        have hoc := hocc.mp rfl
        refine ⟨(window - p.length) :: L, rfl, ?_, ?_⟩
        · intro s
          simp only [List.mem_cons, hmem]
          constructor
          · rintro (rfl | ⟨h1, h2⟩)
            · exact ⟨Nat.le_refl _, hoc⟩
            · exact ⟨by omega, h2⟩
          · rintro ⟨h1, h2⟩
            by_cases hs : s = window - p.length
            · left; exact hs
            · right
              refine ⟨?_, h2⟩
              rcases Nat.lt_or_ge s (window - p.length + (p.length - ls)) with h | h
              · exact absurd h2 (hskip s (by omega) h)
              · omega
        · rw [List.pairwise_cons]
          refine ⟨?_, hsorted⟩
          intro s hs
          have := ((hmem s).mp hs).1
          omega
      | false =>
        have hnoc : ¬ OccursAt p t (window - p.length) := fun h => by simpa using hocc.mpr h
        refine ⟨L, rfl, ?_, hsorted⟩
        intro s
        rw [hmem]
        constructor
        · rintro ⟨h1, h2⟩; exact ⟨by omega, h2⟩
        · rintro ⟨h1, h2⟩
          refine ⟨?_, h2⟩
          by_cases hs : s = window - p.length
          · subst hs; exact absurd h2 hnoc
          · rcases Nat.lt_or_ge s (window - p.length + (p.length - ls)) with h | h
            · exact absurd h2 (hskip s (by omega) h)
            · omega
    · simp only [hn, if_false]
      refine ⟨[], rfl, ?_, by simp⟩
      intro s
      simp only [List.not_mem_nil, false_iff]
      rintro ⟨h1, h2, _⟩; omega

/-- **BNDM is exact** for every pattern of 1..64 symbols and every text: it never underflows, never reads out of
bounds, never runs out of fuel, and yields exactly the ascending list of all occurrences. -/
theorem findAll_eq_occurrences (p t : List Nat) (hp : 0 < p.length) (hm : p.length ≤ 64) :
    findAll p t = some (occurrences p t) := by
  obtain ⟨L, hL, hmem, hsorted⟩ := outer_spec p t hp hm (t.length + 1) p.length (Nat.le_refl _) (by omega)
  unfold findAll
  rw [hL]
  congr 1
  apply sorted_eq_of_mem_iff _ _ hsorted (occurrences_sorted p t)
  intro s
  rw [hmem, mem_occurrences]
  constructor
  · exact fun h => h.2
  · exact fun h => ⟨by omega, h⟩

end RbV.Bndm
