import RbV.Spec.Align
import RbV.Gen.Limits
/-!
Mirror of `struct Band` of `bio::alignment::pairwise::banded` (src/alignment/pairwise/banded.rs): `Band::new`,
`add_kmer`, `add_entry`, `add_gap`, `set_boundaries`, `create_from_match_path`, `full_matrix`, `num_cells`.
Core Lean only.  `usize`/`u32` are `Nat`; `saturating_sub` is the truncated subtraction of `Nat`; `ranges[j]` is the
pair `(start, end)` at position `j` of a list (`Band::new` fills it with the empty, reversed range `m+1..0`).

Loops.  Every `for j in a..b { … ranges[j] … }` of the Rust text touches only `ranges[j]`, so it is modelled as the
pointwise update `forCols a b f` (`ranges[j] := f j ranges[j]` for `a ≤ j < b`, all other columns unchanged).  Counters
that run along with `j` are written as their closed form in `j`:

* `add_kmer`, second loop (`let mut i = r.saturating_sub(w); for j in lo..hi { …; i += 1 }`): `i = (r - w) + (j - lo)`;
* `add_kmer`, third loop (`let mut i = r + w + k; let mut j = J; loop { if j <= L { break } j -= 1; i -= 1; … }`): it
  updates the columns `J - 1, J - 2, …, L` (none if `J ≤ L`) and in column `j` the counter is `i = r + w + k - (J - j)`.

`add_gap` is a real loop (a fold over `start.0..end.0` resp. `start.1..end.1` calling `add_entry`).

Partiality of the Rust text that the total model does not show (preconditions of the theorems, `debug_assert!`s of the
code): `add_kmer` needs `r + k ≤ rows`, `c + k ≤ cols` (otherwise its third loop indexes beyond `ranges`); `add_gap`
needs `start ≤ end` componentwise (`u32` subtraction); `create_from_match_path` needs a non-empty `path` with indices
inside `matches` when `matches` is non-empty.

The driver runs `createFromMatchPath` on every call next to the implementation and compares with the band the aligner
holds after the call (read through its `Debug` output): tag `band=impl`, a difference is `drift-band`.
-/
namespace RbV.Model.Band
open RbV.Align

abbrev Ranges := List (Nat × Nat)

structure Band where
  rows : Nat
  cols : Nat
  /-- `ranges[j] = start..end` -/
  ranges : Ranges
deriving Repr, DecidableEq

/-- `Band::new(m, n)`: `ranges: vec![m + 1..0; n + 1]` -/
def new (m n : Nat) : Band := ⟨m + 1, n + 1, List.replicate (n + 1) (m + 1, 0)⟩

/-- `for j in a..b { ranges[j] = f(j, ranges[j]) }` -/
def forCols (a b : Nat) (f : Nat → Nat × Nat → Nat × Nat) (rs : Ranges) : Ranges :=
  rs.mapIdx fun j r => if a ≤ j ∧ j < b then f j r else r

/-- `Band::add_kmer(start = (r, c), k, w)` -/
def addKmer (b : Band) (r c k w : Nat) : Band :=
  if k = 0 then b else
  -- `let i = r.saturating_sub(w); for j in c.saturating_sub(w)..min(c + w + 1, cols) { start = min(start, i) }`
  let rs1 := forCols (c - w) (min (c + w + 1) b.cols) (fun _ p => (min p.1 (r - w), p.2)) b.ranges
  -- `let mut i = r.saturating_sub(w); for j in min(c + w, cols)..min(c + k + w, cols) { start = min(start, i); i += 1 }`
  let lo := min (c + w) b.cols
  let rs2 := forCols lo (min (c + k + w) b.cols) (fun j p => (min p.1 ((r - w) + (j - lo)), p.2)) rs1
  -- `let mut i = r + w + k; let mut j = (c + k - 1).saturating_sub(w);`
  -- `loop { if j <= c.saturating_sub(w) { break } j -= 1; i -= 1; end = max(end, min(i, rows)) }`
  let j0 := (c + k - 1) - w
  let rs3 := forCols (c - w) j0 (fun j p => (p.1, max p.2 (min (r + w + k - (j0 - j)) b.rows))) rs2
  -- `let i = min(r + w + k, rows); for j in (c + k - 1).saturating_sub(w)..min(c + k + w, cols) { end = max(end, i) }`
  let rs4 := forCols j0 (min (c + k + w) b.cols) (fun _ p => (p.1, max p.2 (min (r + w + k) b.rows))) rs3
  { b with ranges := rs4 }

/-- `Band::add_entry(pos = (r, c), w)` -/
def addEntry (b : Band) (r c w : Nat) : Band :=
  let istart := r - w
  let iend := min (r + w + 1) b.rows
  { b with ranges := forCols (c - w) (min (c + w + 1) b.cols) (fun _ p => (min p.1 istart, max p.2 iend)) b.ranges }

/-- `Band::add_gap(start, end, w)` (`u32` subtractions: the Rust text needs `start ≤ end`) -/
def addGap (b : Band) (s e : Nat × Nat) (w : Nat) : Band :=
  let nrows := e.1 - s.1
  let ncols := e.2 - s.2
  if nrows > ncols then
    (List.range' s.1 (e.1 - s.1)).foldl
      (fun b r => addEntry b r (s.2 + (e.2 - s.2) * (r - s.1) / (e.1 - s.1)) w) b
  else
    (List.range' s.2 (e.2 - s.2)).foldl
      (fun b c => addEntry b (s.1 + (e.1 - s.1) * (c - s.2) / (e.2 - s.2)) c w) b

/-- the block `// ---- START ----` of `Band::set_boundaries` -/
def boundStart (b : Band) (start : Nat × Nat) (k w : Nat) (cl : Clip) : Band :=
  let lazy_extend := 2 * k
  let r := start.1
  let c := start.2
  if r = 0 ∧ c = 0 then b else
  let score_to_start : Int := (if r > 0 then cl.xp else 0) + (if c > 0 then cl.yp else 0)
  if score_to_start = 0 then
    let d := min lazy_extend (min r c)
    addGap (addKmer b (r - d) (c - d) d w) (r - lazy_extend, c - lazy_extend) (r - d, c - d) w
  else
    let diagonal_score : Int := if r > c then cl.xp else if r < c then cl.yp else 0
    if diagonal_score = 0 then
      let d := min r c
      let b := addKmer b (r - d) (c - d) d w
      let st := (r - lazy_extend, c - lazy_extend)
      let en := (r - d, c - d)
      if st.1 ≤ en.1 ∧ st.2 ≤ en.2 then addGap b st en w else b
    else addGap b (0, 0) start w

/-- the block `// ---- END ----` of `Band::set_boundaries` (note `r == self.rows`: the code compares the end of the last
k-mer with `m + 1`, which a k-mer inside `x` never reaches, so the block is always entered) -/
def boundEnd (b : Band) (end_ : Nat × Nat) (k w : Nat) (cl : Clip) : Band :=
  let lazy_extend := 2 * k
  let r := end_.1 + k
  let c := end_.2 + k
  if r = b.rows ∧ c = b.cols then b else
  let score_from_end : Int := (if r = b.rows then 0 else cl.xs) + (if c = b.cols then 0 else cl.ys)
  let r1 (d : Nat) := min b.rows (r + d) - 1
  let c1 (d : Nat) := min b.cols (c + d) - 1
  let r2 := min b.rows (r + lazy_extend)
  let c2 := min b.cols (c + lazy_extend)
  if score_from_end = 0 then
    let d := min lazy_extend (min (b.rows - r) (b.cols - c))
    let b' := addKmer b r c d w
    if r1 d ≤ r2 ∧ c1 d ≤ c2 then addGap b' (r1 d, c1 d) (r2, c2) w else b'
  else
    let dr := b.rows - r
    let dc := b.cols - c
    let diagonal_score : Int := if dr > dc then cl.xs else if dr < dc then cl.ys else 0
    if diagonal_score = 0 then
      let d := min dr dc
      let b' := addKmer b r c d w
      if r1 d ≤ r2 ∧ c1 d ≤ c2 then addGap b' (r1 d, c1 d) (r2, c2) w else b'
    else addGap b (r, c) (b.rows, b.cols) w

/-- `Band::set_boundaries(start, end, k, w, scoring)`; only the four clip penalties of `scoring` are read -/
def setBoundaries (b : Band) (start end_ : Nat × Nat) (k w : Nat) (cl : Clip) : Band :=
  boundEnd (boundStart b start k w cl) end_ k w cl

/-- `Band::full_matrix`: `ranges.clear(); ranges.resize(cols, 0..rows)` -/
def fullMatrix (b : Band) : Band := { b with ranges := List.replicate b.cols (0, b.rows) }

/-- `Band::num_cells`: `Σ_j end.saturating_sub(start)` -/
def numCells (b : Band) : Nat := b.ranges.foldl (fun acc p => acc + (p.2 - p.1)) 0

/-- one iteration of `for &idx in path` of `create_from_match_path` (`prev`, band) -/
def pathStep (k w : Nat) (ms : List (Nat × Nat)) (st : Band × Option (Nat × Nat)) (idx : Nat) :
    Band × Option (Nat × Nat) :=
  let curr := ms.getD idx (0, 0)
  match st.2 with
  | some p =>
    -- `curr.continues(prev)`
    if curr.1 = p.1 + 1 ∧ curr.2 = p.2 + 1 then (addEntry st.1 (p.1 + k) (p.2 + k) w, some curr)
    else (addKmer (addGap st.1 (p.1 + (k - 1), p.2 + (k - 1)) curr w) curr.1 curr.2 k w, some curr)
  | none => (addKmer st.1 curr.1 curr.2 k w, some curr)

/-- `Band::create_from_match_path(x, y, k, w, scoring, path, matches)` with `m = x.len()`, `n = y.len()`; this is also
what `create`, `create_with_prehash`, `create_with_matches` end in (their `matches.is_empty()` test is the same one) -/
def createFromMatchPath (m n k w : Nat) (cl : Clip) (path : List Nat) (ms : List (Nat × Nat)) : Band :=
  let b := new m n
  if ms.isEmpty then fullMatrix b else
  let ps := path.headD 0
  let pe := path.getLastD 0
  let b := setBoundaries b (ms.getD ps (0, 0)) (ms.getD pe (0, 0)) k w cl
  (path.foldl (pathStep k w ms) (b, none)).1

/-- the guard at the top of `compute_alignment`: `self.band.num_cells() > MAX_CELLS` -/
def overBudget (b : Band) : Bool := decide (numCells b > RbV.Gen.Limits.maxCells)

/-- cell `(i, j)` of the DP matrix lies in the band -/
def Mem (b : Band) (i j : Nat) : Prop := (b.ranges.getD j (0, 0)).1 ≤ i ∧ i < (b.ranges.getD j (0, 0)).2

/-! ### Connectedness — the shape invariant the bands of the constructions satisfy beyond `WF`

`band_ranges_in_bounds` keeps the *indices* of `compute_alignment` in range but says nothing about the shape.  What the
recurrences need in order to carry a real score from the first to the last column is that the band is one staircase:
the non-empty columns are consecutive, and from one non-empty column to the next the range moves down monotonically
(start and end never decrease) without a hole (`start_{j+1} ≤ end_j`: the last cell of column `j` has its right or its
diagonal neighbour in column `j + 1`).  Observed on every band of every run (driver tag `band-connected`); the
off-by-one mutants b1/b4/b6 of docs/notes/C02.md produce bands that violate it. -/

/-- column `j` is non-empty (`start < end`; columns beyond the list count as empty) -/
def NE (rs : Ranges) (j : Nat) : Prop := (rs.getD j (0, 0)).1 < (rs.getD j (0, 0)).2

instance (rs : Ranges) (j : Nat) : Decidable (NE rs j) := by unfold NE; infer_instance

/-- **Band connectedness**: (1) two consecutive non-empty columns `j`, `j + 1` satisfy `start_{j+1} ≤ end_j`,
`start_j ≤ start_{j+1}`, `end_j ≤ end_{j+1}`; (2) the non-empty columns are consecutive (after a non-empty column followed by
an empty one, every later column is empty). -/
def Connected (rs : Ranges) : Prop :=
  (∀ j ∈ List.range rs.length, NE rs j → NE rs (j + 1) →
    (rs.getD (j + 1) (0, 0)).1 ≤ (rs.getD j (0, 0)).2 ∧ (rs.getD j (0, 0)).1 ≤ (rs.getD (j + 1) (0, 0)).1 ∧
      (rs.getD j (0, 0)).2 ≤ (rs.getD (j + 1) (0, 0)).2) ∧
  (∀ j ∈ List.range rs.length, NE rs j → ¬ NE rs (j + 1) → ∀ j' ∈ List.range rs.length, j + 1 < j' → ¬ NE rs j')

instance (rs : Ranges) : Decidable (Connected rs) := by unfold Connected; infer_instance

end RbV.Model.Band
