import RbV.Ref.NW
import RbV.Ref.PoaAccept
/-!
# Mirror model of `bio::alignment::poa` (global mode)

Follows `src/alignment/poa.rs` statement by statement, with petgraph's iteration orders made explicit:

* graph = labels + weighted edge list in insertion order; `neighbors_directed(v, Incoming)` and
  `neighbors(v)` enumerate edges most-recent-first (`inN`, `outN`);
* `topo` = `petgraph::visit::Topo` (stack of ready nodes, initial nodes in index order, popped from the end);
* `dpRows` = `Poa::custom` with all clip penalties at `MIN_SCORE` (what `Aligner::global` runs): row 0,
  first column `(node index + 1)·gap`, per-row maximisation over the predecessors with Rust's `max`
  tie-breaking (the later candidate wins a tie), then the insertion scan;
* `traceback` = `Traceback::alignment`; `addAlignment` = `Poa::add_alignment` (wildcard `X` included);
* `consensus` = `Aligner::consensus` (as repaired by 8b80f4b: one table entry per node, `usize::MAX` as the
  initial successor; returns `none` where the Rust code would index out of bounds — never for a non-empty graph,
  see `consensus_is_path`).

The driver runs these against the observed operations / graph dumps / consensus and reports differences as
`drift-*` tags (never as violations: tie-breaks are not part of the property).  The row functions
`predCands`, `firstCands`, `insScan` are shared with `chainScore`, the specialisation to a graph built
from one sequence, which `RbV/Lemmas/PoaChain.lean` proves equal to the Needleman–Wunsch optimum.
-/
namespace RbV.Poa.Model
open RbV.NW RbV.Poa

structure Cell where
  score : Int
  op : POp
deriving Repr

/-- Rust's `std::cmp::max` on `TracebackCell` (ordered by score): the second argument wins a tie -/
def cmax (a b : Cell) : Cell := if a.score > b.score then a else b

/-! ## Row functions (shared by the general DP and the chain specialisation) -/

/-- row 0, columns `k+1 ..`: `Ins(None)` with `(column)·gap` -/
def row0From (gap : Int) : Nat → Nat → List Cell
  | _, 0 => []
  | k, n + 1 => ⟨((k : Int) + 1) * gap, .i none⟩ :: row0From gap (k + 1) n

/-- row 0 of the table for a query of length `n`: `(0,0)` is `Match(None)` with score 0, `(0,j)` is
`Ins(None)` with `j·gap` -/
def row0 (gap : Int) (n : Nat) : List Cell := ⟨0, .m none⟩ :: row0From gap 0 n

/-- per-predecessor candidates for columns `j+1..`: `diag` = predecessor cell at column `j`, `ups` = its
cells at columns `j+1..`; `max(Match, Del)` with ties going to `Del` -/
def predCands (sc : Sc) (r : Nat) (mOp dOp : POp) : Cell → List Cell → List Nat → List Cell
  | diag, up :: ups, b :: q =>
    cmax ⟨diag.score + sc.w r b, mOp⟩ ⟨up.score + sc.gap, dOp⟩ :: predCands sc r mOp dOp up ups q
  | _, _, _ => []

/-- a node without predecessor: only `Match(None)` from row 0 -/
def firstCands (sc : Sc) (r : Nat) : List Cell → List Nat → List Cell
  | diag :: rest, b :: q => ⟨diag.score + sc.w r b, .m none⟩ :: firstCands sc r rest q
  | _, _ => []

/-- `max(max_cell, Ins)` left to right; `left` = this row's cell in the previous column -/
def insScan (gap : Int) (iOp : POp) : Cell → List Cell → List Cell
  | _, [] => []
  | left, c :: cs =>
    let cell := cmax c ⟨left.score + gap, iOp⟩
    cell :: insScan gap iOp cell cs

/-- pointwise `max(acc, new)` (ties → new) -/
def zipMax : List Cell → List Cell → List Cell
  | a :: as, b :: bs => cmax a b :: zipMax as bs
  | _, _ => []

/-- first column of the row of node `v`: `Del(None)` with `(v+1)·gap` -/
def col0 (gap : Int) (v : Nat) : Cell := ⟨((v : Int) + 1) * gap, .d none⟩

/-- the row of node `v` (label `r`) from the rows of its predecessors, listed in `neighbors_directed` order -/
def nodeRow (sc : Sc) (query : List Nat) (r0 : List Cell) (v r : Nat) (preds : List (Nat × List Cell)) : List Cell :=
  let c0 := col0 sc.gap v
  let cands :=
    match preds with
    | [] => firstCands sc r r0 query
    | (p, pr) :: rest =>
      let one := fun (p : Nat) (pr : List Cell) =>
        match pr with
        | [] => []
        | d :: ups => predCands sc r (.m (some (p, v))) (.d (some (p, v + 1))) d ups query
      rest.foldl (fun acc (p', pr') => zipMax acc (one p' pr')) (one p pr)
  c0 :: insScan sc.gap (.i (some v)) c0 cands

/-! ## petgraph iteration orders -/

abbrev WEdges := List (Nat × Nat × Int)

def inN (es : WEdges) (v : Nat) : List Nat := ((es.filter fun e => e.2.1 == v).map (·.1)).reverse
def outN (es : WEdges) (u : Nat) : List Nat := ((es.filter fun e => e.1 == u).map (·.2.1)).reverse

/-- `Topo::next` iterated to exhaustion; `stack` has its top at the head -/
def topoLoop (es : WEdges) : Nat → List Nat → List Nat → List Nat → List Nat
  | 0, _, _, acc => acc.reverse
  | _, [], _, acc => acc.reverse
  | f + 1, v :: stack, visited, acc =>
    if visited.contains v then topoLoop es f stack visited acc else
    let visited := v :: visited
    let stack := (outN es v).foldl (fun st nb => if (inN es nb).all visited.contains then nb :: st else st) stack
    topoLoop es f stack visited (v :: acc)

def topo (n : Nat) (es : WEdges) : List Nat :=
  let initials := (List.range n).filter fun v => (inN es v).isEmpty
  topoLoop es (n + es.length + 1) initials.reverse [] []

/-! ## `Poa::custom` in global mode, `Traceback::alignment` -/

structure Table where
  r0 : List Cell
  rows : Array (List Cell)     -- indexed by node; `[]` = not computed
  last : Nat

def dpRows (sc : Sc) (labels : List Nat) (es : WEdges) (query : List Nat) : Table :=
  let n := labels.length
  let r0 := row0 sc.gap query.length
  let order := topo n es
  let rows := order.foldl (init := Array.replicate n ([] : List Cell)) fun rows v =>
    let preds := (inN es v).map fun p => (p, rows.getD p [])
    rows.setIfInBounds v (nodeRow sc query r0 v (labels.getD v 0) preds)
  { r0 := r0, rows := rows, last := order.getLastD 0 }

def Table.cell (t : Table) (i j : Nat) : Cell :=
  if i = 0 then t.r0.getD j ⟨0, .m none⟩ else (t.rows.getD (i - 1) []).getD j ⟨0, .m none⟩

/-- `Traceback::alignment`: operations in forward order -/
def traceLoop (t : Table) : Nat → Nat → Nat → List POp → List POp
  | 0, _, _, acc => acc
  | f + 1, i, j, acc =>
    if i = 0 && j = 0 then acc else
    let op := (t.cell i j).op
    match op with
    | .m (some (p, _)) => traceLoop t f (p + 1) (j - 1) (op :: acc)
    | .d (some (p, _)) => traceLoop t f (p + 1) j (op :: acc)
    | .i (some p) => traceLoop t f (p + 1) (j - 1) (op :: acc)
    | .m none => traceLoop t f 0 (j - 1) (op :: acc)
    | .d none => traceLoop t f (i - 1) j (op :: acc)
    | .i none => traceLoop t f i (j - 1) (op :: acc)
    | .x r => traceLoop t f r j (op :: acc)
    | .y r _ => traceLoop t f i r (op :: acc)

/-- score and operations `Aligner::global(query).alignment()` reports -/
def globalAlign (sc : Sc) (labels : List Nat) (es : WEdges) (query : List Nat) : Int × List POp :=
  let t := dpRows sc labels es query
  ((t.cell (t.last + 1) query.length).score, traceLoop t ((labels.length + 2) * (query.length + 2)) (t.last + 1) query.length [])

/-! ## The chain specialisation: the graph built from one sequence -/

/-- rows of the nodes `v, v+1, …` of a chain, given the row of node `v-1` (or `none` for the first node) -/
def chainRows (sc : Sc) (query : List Nat) (r0 : List Cell) : Nat → Option (List Cell) → List Nat → List Cell
  | _, prev, [] => prev.getD r0
  | v, prev, a :: x =>
    let preds := match prev with | none => [] | some pr => [(v - 1, pr)]
    chainRows sc query r0 (v + 1) (some (nodeRow sc query r0 v a preds)) x

/-- the score `global` reports on the graph built from `x` alone (non-empty `x`): last cell of the last row -/
def chainScore (sc : Sc) (x query : List Nat) : Int :=
  ((chainRows sc query (row0 sc.gap query.length) 0 none x).getLast?.map (·.score)).getD 0

/-! ## `Poa::add_alignment` -/

structure G where
  labels : List Nat
  es : WEdges

def G.addNode (g : G) (c : Nat) : G × Nat := ({ g with labels := g.labels ++ [c] }, g.labels.length)
def G.addEdge (g : G) (u v : Nat) : G := { g with es := g.es ++ [(u, v, 1)] }

/-- index of the edge `find_edge(u, v)` returns (the most recent one) -/
def findEdge (es : WEdges) (u v : Nat) : Option Nat :=
  let idxs := (es.zipIdx.filter fun (e, _) => e.1 == u && e.2.1 == v).map (·.2)
  idxs.getLast?

/-- `*edge_weight_mut(k) += 1` -/
def bumpEdge : WEdges → Nat → WEdges
  | [], _ => []
  | e :: r, 0 => (e.1, e.2.1, e.2.2 + 1) :: r
  | e :: r, k + 1 => e :: bumpEdge r k

structure AddSt where
  g : G
  prev : Nat
  i : Nat := 0
  notConnected : Bool := false

def wildcard : Nat := 88   -- b'X'

def addStep (head : Nat) (seq : List Nat) (st : AddSt) (op : POp) : AddSt :=
  let c := seq.getD st.i 0
  match op with
  | .m none =>
    let st :=
      if c ≠ st.g.labels.getD head 0 && c ≠ wildcard then
        let (g, nn) := st.g.addNode c
        let g := if st.notConnected then g.addEdge st.prev nn else g
        { st with g := g, notConnected := false, prev := nn }
      else st
    let st := if st.notConnected then { st with g := st.g.addEdge st.prev head, prev := head, notConnected := false } else st
    { st with i := st.i + 1 }
  | .m (some (_, p)) =>
    if c ≠ st.g.labels.getD p 0 && c ≠ wildcard then
      let (g, nn) := st.g.addNode c
      { st with g := g.addEdge st.prev nn, prev := nn, i := st.i + 1 }
    else
      let g :=
        match findEdge st.g.es st.prev p with
        | some k => { st.g with es := bumpEdge st.g.es k }
        | none => if st.prev ≠ head && st.prev ≠ p then st.g.addEdge st.prev p else st.g
      { st with g := g, prev := p, i := st.i + 1 }
  | .i none =>
    let (g, nn) := st.g.addNode c
    let g := if st.notConnected then g.addEdge st.prev nn else g
    { st with g := g, prev := nn, notConnected := true, i := st.i + 1 }
  | .i (some _) =>
    let (g, nn) := st.g.addNode c
    { st with g := g.addEdge st.prev nn, prev := nn, i := st.i + 1 }
  | .d _ => st
  | .x _ => st
  | .y _ r => { st with i := r }

def addAlignment (g : G) (ops : List POp) (seq : List Nat) : G :=
  let head := (topo g.labels.length g.es).headD 0
  (ops.foldl (addStep head seq) { g := g, prev := head }).g

/-! ## `Aligner::consensus` -/

/-- weight of all edges `u → v` (`edges_connecting(..).sum()`) -/
def wsum (es : WEdges) (u v : Nat) : Int :=
  (es.filter fun e => e.1 == u && e.2.1 == v).foldl (fun a e => a + e.2.2) 0

/-- lexicographic `>` on `(weight, score, index)` -/
def tgt (a b : Int × Int × Nat) : Bool :=
  a.1 > b.1 || (a.1 == b.1 && (a.2.1 > b.2.1 || (a.2.1 == b.2.1 && a.2.2 > b.2.2)))

/-- `none` as predecessor = `usize::MAX`; entry = (weight, score, next) -/
abbrev CEntry := Int × Int × Option Nat

def consTable (n : Nat) (es : WEdges) : Array CEntry :=
  (topo n es).foldl (init := Array.replicate n ((0, 0, none) : CEntry)) fun tab v =>
    let best : Int × Int × Option Nat :=
      (inN es v).foldl (init := ((0, 0, none) : CEntry)) fun best u =>
        let w := wsum es u v
        let s := w + (tab.getD u (0, 0, none)).2.1
        -- `usize::MAX` compares greater than every index
        let gt := match best.2.2 with
          | none => w > best.1 || (w == best.1 && s > best.2.1)
          | some bi => tgt (w, s, u) (best.1, best.2.1, bi)
        if gt then (w, s, some u) else best
    tab.setIfInBounds v best

/-- index of the last maximum of the scores (`max_by_key` returns the last one) -/
def argmaxLast (tab : Array CEntry) : Nat :=
  (tab.toList.zipIdx.foldl (init := ((0 : Nat), (none : Option Int))) fun (bi, bs) (e, i) =>
    match bs with
    | none => (i, some e.2.1)
    | some s => if e.2.1 ≥ s then (i, some e.2.1) else (bi, bs)).1

def consWalk (labels : List Nat) (tab : Array CEntry) : Nat → Option Nat → List Nat → Option (List Nat)
  | 0, _, _ => none                 -- would loop
  | _, none, acc => some acc
  | f + 1, some pos, acc =>
    if pos < labels.length then consWalk labels tab f (tab.getD pos (0, 0, none)).2.2 (labels.getD pos 0 :: acc)
    else none                        -- index out of bounds in the Rust code

def consensus (labels : List Nat) (es : WEdges) : Option (List Nat) :=
  let tab := consTable labels.length es
  consWalk labels tab (labels.length + 2) (some (argmaxLast tab)) []

/-! ## Certificate for "the operation list walks the graph in topological order"

`bodyB rk n0 head (rk head) false ops` is the hypothesis of `addAlignment_acyclic_partial`
(`RbV/Lemmas/PoaAcyclic.lean`); `topoRank` is the rank function the driver evaluates it with. -/

/-- `b` bounds the rank of `prev`, `nc` is the value of `edge_not_connected`; every named node (and the head,
when an edge into it is due) must lie above `b` -/
def bodyB (rk : Nat → Nat) (n0 head : Nat) : Nat → Bool → List POp → Bool
  | _, _, [] => true
  | b, false, .m none :: r => bodyB rk n0 head b false r
  | b, true, .m none :: r => decide (b < rk head) && bodyB rk n0 head (rk head) false r
  | b, nc, .m (some (_, p)) :: r => decide (p < n0) && decide (b < rk p) && bodyB rk n0 head (rk p) nc r
  | b, nc, .i (some _) :: r => bodyB rk n0 head (b + 1) nc r
  | _, false, .i none :: r => bodyB rk n0 head 0 true r
  | b, true, .i none :: r => bodyB rk n0 head (b + 1) true r
  | b, nc, .d _ :: r => bodyB rk n0 head b nc r
  | b, nc, .x _ :: r => bodyB rk n0 head b nc r
  | b, nc, .y _ _ :: r => bodyB rk n0 head b nc r

/-- `K · (1 + position in topo)`; nodes `topo` does not reach get rank 0 -/
def topoRank (n : Nat) (es : WEdges) (K : Nat) : Nat → Nat :=
  let order := topo n es
  let ranks := order.zipIdx.foldl (init := Array.replicate n 0) fun a (v, i) => a.setIfInBounds v (K * (i + 1))
  fun v => ranks.getD v 0

/-- do the observed operations carry the certificate for this graph? -/
def acyclicCert (g : G) (ops : List POp) : Bool :=
  let n := g.labels.length
  let head := (topo n g.es).headD 0
  let rk := topoRank n g.es (ops.length + 1)
  decide (head < n) &&
  g.es.all (fun e => decide (e.1 < n) && decide (e.2.1 < n) && decide (rk e.1 < rk e.2.1)) &&
  bodyB rk n head (rk head) false ops

end RbV.Poa.Model
