import RbV.Ref.MyersHit
import RbV.Model.Ukkonen
import RbV.Model.MyersSimple
/-!
Matrix-level model of the decision rule of the Myers traceback (`traceback.rs: Traceback::_traceback_at`) (C10 [B]).
Core Lean only.

The Rust code walks from the cell (m, end) of the Sellers matrix to row 0.  It reconstructs the three neighbouring
values from the stored `Pv/Mv` columns (`adjust_dist`, `adjust_by_mask`, `move_left_down_if_better`); the first model
below (`walkF`, `traceback`) reads them from the matrix `D i j` = (row `i`, after `j` text symbols) directly and keeps
the *order of the tests*; the second half of the file is the stored-state model (handler, states vector, ring buffer):
  1. `left_block.dist + 1 == block.dist`             diagonal value + 1 = current value   → `Subst`
  2. `block.pv & pos != 0`                          upper value + 1 = current value      → `Ins`
  3. `left_block.mv & pos != 0`                     left value = diagonal value − 1      → `Del`
  4. otherwise                                                                           → `Match`
-/
namespace RbV.Model.MyersTraceback
open RbV.EditDist

/-- next column of the Sellers matrix in natural orientation (row 0 first): the full inner loop of the column
recurrence, as in the Ukkonen model but over all rows -/
def natNext (w : Nat → Nat → Nat) (p : List Nat) (c : Nat) (prev : List Nat) : List Nat :=
  RbV.Model.Ukkonen.newCol w p c ⟨prev, prev, 0⟩ p.length

def allCols (w : Nat → Nat → Nat) (p : List Nat) : List Nat → List Nat → List (List Nat)
  | col, [] => [col]
  | col, c :: t => col :: allCols w p (natNext w p c col) t

/-- `matrix[j][i]` = row `i` after `j` text symbols -/
def matrix (w : Nat → Nat → Nat) (p t : List Nat) : List (List Nat) :=
  allCols w p (List.range (p.length + 1)) t

def Dm (mat : List (List Nat)) (i j : Nat) : Nat := (mat.getD j []).getD i 0

/-- the walk over a matrix given as a function; ops are produced last-first (as the Rust code pushes them);
returns (start column, ops) -/
def walkF (D : Nat → Nat → Nat) : Nat → Nat → Nat → Nat × List Op
  | 0, _, j => (j, [])
  | _, 0, j => (j, [])
  | fuel + 1, i + 1, j =>
    if j ≥ 1 ∧ D i (j - 1) + 1 = D (i + 1) j then
      ((walkF D fuel i (j - 1)).1, Op.sub :: (walkF D fuel i (j - 1)).2)
    else if D i j + 1 = D (i + 1) j then
      ((walkF D fuel i j).1, Op.ins :: (walkF D fuel i j).2)
    else if j ≥ 1 ∧ D (i + 1) (j - 1) + 1 = D i (j - 1) then
      ((walkF D fuel (i + 1) (j - 1)).1, Op.del :: (walkF D fuel (i + 1) (j - 1)).2)
    else
      ((walkF D fuel i (j - 1)).1, Op.mat :: (walkF D fuel i (j - 1)).2)

/-- predicted `(start, ops)` (ops in forward order) for the hit ending after `stop` text symbols -/
def traceback (w : Nat → Nat → Nat) (p t : List Nat) (stop : Nat) : Nat × List Op :=
  let r := walkF (Dm (matrix w p t)) (p.length + stop) p.length stop
  (r.1, r.2.reverse)


/-! ## Stored-state model (single-word version): `simple.rs: ShortStatesHandler / ShortTracebackHandler`,
`myers_impl.rs: State::{adjust_dist, adjust_by_mask, max}`, `traceback.rs: Traceback::{new, add_state, traceback_at,
_traceback_at}`

The search stores one `State` (`pv`, `mv`, `dist` = value in the last row) per text position in a vector of `N` slots
(`N = m + min(k,m) + 2` for `find_all`, `N = n + 2` for `find_all_lazy`) which it fills cyclically: slot 0 first gets the
sentinel `State::max()`, slot 1 the initial column, then one slot per text symbol (`positions = (0..N).cycle()`).  We call
the running number of a write its *sequence number* `s` (sentinel 0, initial column 1, column after `c` symbols `c + 1`);
it goes to slot `s % N`.  The traceback handler holds a copy of the current and of the left column's state and
re-derives the distances of the neighbouring cells from single bits of `pv`/`mv` (`adjust_dist`) resp. from bit counts
under a range mask (`adjust_by_mask`).

`St w` (from the C09 model) = `State<T, D>`; distances are unbounded `Nat` here, the only place where the width of the
distance type `D` is used by the code (`wrapping_add` in the Subst test, `D::max_value()` in the sentinel) is modelled
with the parameter `dmax` (= 255: `DistType = u8` for every word type).  `-= 1` is truncated subtraction: the theorems
show the minuend is ≥ 1 whenever it is executed. -/

open RbV.Model.MyersSimple (St)

/-- `count_ones()` -/
def popc {w : Nat} (x : BitVec w) : Nat := go x w
where
  go {w : Nat} (x : BitVec w) : Nat → Nat
    | 0 => 0
    | i + 1 => go x i + (x.getLsbD i).toNat

/-- `State::max()` = `State::init(D::max_value())` -/
def maxSt (w dmax : Nat) : St w := ⟨BitVec.allOnes w, 0#w, dmax⟩

/-- `State::adjust_dist(pos_mask)` -/
def adjustDist {w : Nat} (s : St w) (posMask : BitVec w) : St w :=
  if (s.pv &&& posMask) != 0#w then { s with dist := s.dist - 1 }
  else if (s.mv &&& posMask) != 0#w then { s with dist := s.dist + 1 }
  else s

/-- `State::adjust_by_mask(mask)`: `dist + popcount(mv & mask) − popcount(pv & mask)` -/
def adjustByMask {w : Nat} (s : St w) (mask : BitVec w) : St w :=
  { s with dist := s.dist + popc (s.mv &&& mask) - popc (s.pv &&& mask) }

/-- `ShortTracebackHandler`; `taken` = number of items already drawn from `states_iter` -/
structure Handler (w : Nat) where
  state : St w
  left : St w
  maxMask : BitVec w
  pos : BitVec w
  leftMask : BitVec w
  taken : Nat

/-- `ShortTracebackHandler::new(m, pos, states)`; `rd k` = the `k`-th item of the reversed, cyclic iterator over the
states that starts at slot `pos` -/
def Handler.new {w : Nat} (m : Nat) (rd : Nat → St w) : Handler w :=
  let mask0 := 1#w <<< (m - 1)
  ⟨rd 0, rd 1, mask0, mask0, 0#w, 2⟩

def Handler.moveUp {w : Nat} (h : Handler w) (adjust : Bool) : Handler w :=
  { h with state := if adjust then adjustDist h.state h.pos else h.state, pos := h.pos >>> 1 }

def Handler.moveUpLeft {w : Nat} (h : Handler w) (adjust : Bool) : Handler w :=
  { h with leftMask := (h.leftMask >>> 1) ||| h.maxMask,
           left := if adjust then adjustDist h.left h.pos else h.left }

def Handler.moveToLeft {w : Nat} (rd : Nat → St w) (h : Handler w) : Handler w :=
  { h with state := h.left, left := adjustByMask (rd h.taken) h.leftMask, taken := h.taken + 1 }

def Handler.moveLeftDownIfBetter {w : Nat} (h : Handler w) : Bool × Handler w :=
  if (h.left.mv &&& h.pos) != 0#w then (true, { h with left := { h.left with dist := h.left.dist - 1 } })
  else (false, h)

def Handler.finished {w : Nat} (h : Handler w) : Bool := h.pos == 0#w

/-- one pass through the body of `while !h.finished()` in `_traceback_at`: (operation pushed, whether `h_offset` was
incremented and `move_to_left` called, handler afterwards) -/
def Handler.iter {w : Nat} (dmax : Nat) (rd : Nat → St w) (h : Handler w) : Op × Bool × Handler w :=
  if (h.left.dist + 1) % (dmax + 1) = h.state.dist then       -- `left.dist.wrapping_add(1) == block.dist`
    (Op.sub, true, ((h.moveUp false).moveUpLeft false).moveToLeft rd)
  else if (h.state.pv &&& h.pos) != 0#w then
    (Op.ins, false, (h.moveUp true).moveUpLeft true)
  else
    match h.moveLeftDownIfBetter with
    | (true, h') => (Op.del, true, h'.moveToLeft rd)
    | (false, h') => (Op.mat, true, ((h'.moveUp false).moveUpLeft false).moveToLeft rd)

/-- the `while` loop; returns (`h_offset`, operations in the order in which they are pushed) -/
def Handler.loop {w : Nat} (dmax : Nat) (rd : Nat → St w) : Nat → Handler w → Nat × List Op
  | 0, _ => (0, [])
  | fuel + 1, h =>
    if h.finished then (0, []) else
      let r := Handler.loop dmax rd fuel (h.iter dmax rd).2.2
      (r.1 + (if (h.iter dmax rd).2.1 then 1 else 0), (h.iter dmax rd).1 :: r.2)

/-- the handler when the loop is entered: `init_traceback` then `move_up_left(true)` -/
def Handler.start {w : Nat} (m : Nat) (rd : Nat → St w) : Handler w := (Handler.new m rd).moveUpLeft true

/-- the handler after `n` passes through the loop body -/
def Handler.after {w : Nat} (dmax m : Nat) (rd : Nat → St w) : Nat → Handler w
  | 0 => Handler.start m rd
  | n + 1 =>
    let h := Handler.after dmax m rd n
    if h.finished then h else (h.iter dmax rd).2.2

/-- `_traceback_at` on a given reverse iterator: (`h_offset`, `dist`, ops as pushed) -/
def tracebackRd {w : Nat} (dmax m : Nat) (rd : Nat → St w) (fuel : Nat) : Nat × Nat × List Op :=
  let r := Handler.loop dmax rd fuel (Handler.start m rd)
  (r.1, (rd 0).dist, r.2)

/-! ### the states vector -/

/-- the items in the order in which `Traceback::new` / `add_state` store them: sentinel, initial column, then the
state after every text symbol -/
def seqStates (w : Nat) (eqv : Nat → Nat → Bool) (p : List Nat) (dmax : Nat) (t : List Nat) : List (St w) :=
  maxSt w dmax :: go (RbV.Model.MyersSimple.init w p.length) t
where
  go (s : St w) : List Nat → List (St w)
    | [] => [s]
    | a :: t => s :: go (RbV.Model.MyersSimple.step p.length (RbV.Model.MyersSimple.peq w eqv p a) s) t

/-- the vector after the items `items` have been stored cyclically (`positions = (0..N).cycle()`), starting with
sequence number `s`, on top of whatever the vector held before (`Traceback::new` keeps the old contents of
`states_store` or fills up with `State::default()`) -/
def storeAll {w : Nat} (N : Nat) : List (St w) → Nat → List (St w) → List (St w)
  | store, _, [] => store
  | store, s, x :: items => storeAll N (store.set (s % N) x) (s + 1) items

/-- slot visited by the `k`-th `next()` of `states[..=pos].iter().rev().chain(states.iter().rev().cycle())` -/
def readSlot (N pos k : Nat) : Nat := if k ≤ pos then pos - k else N - 1 - ((k - pos - 1) % N)

def readStore {w : Nat} (store : List (St w)) (pos k : Nat) : St w :=
  store.getD (readSlot store.length pos k) ⟨0#w, 0#w, 0⟩

/-- `Traceback::traceback_at(end_pos)` of the lazy API after `c` text symbols have been consumed: `self.pos` is the slot
of the last write (sequence number `c + 1`); `None` unless `end_pos + 2 ≤ self.pos` -/
def availableAt (N c endPos : Nat) : Bool := decide (endPos + 2 ≤ (c + 1) % N)

/-- the whole stored-state traceback: search the first `c` symbols of `t` storing the states in a vector of `N` slots
with previous contents `old`, then `_traceback_at(slot of sequence number stop + 1)`; result (start, dist, ops forward)
as the public API reports it (`start = end_pos + 1 − h_offset`, path reversed) -/
def tracebackStore (w : Nat) (eqv : Nat → Nat → Bool) (p : List Nat) (dmax N : Nat) (old : List (St w)) (t : List Nat)
    (c stop : Nat) : Nat × Nat × List Op :=
  let store := storeAll N old 0 (seqStates w eqv p dmax (t.take c))
  let r := tracebackRd dmax p.length (readStore store ((stop + 1) % N)) (p.length + stop)
  (stop - r.1, r.2.1, r.2.2.reverse)


/-! ### single pass over the text for the driver

`tracebackStore` rebuilds the vector for every end position.  The driver needs the tracebacks at many ends of one search:
`scanStore` keeps the vector (an `Array`) and the search state while it walks over the text once, exactly as
`FullMatches` / `LazyMatches` do, and runs `_traceback_at` at the wanted ends (`Lemmas/TracebackScan.lean`:
`scanStore_eq`, each reported triple is `tracebackStore … c c`). -/

def readArr {w : Nat} (store : Array (St w)) (pos k : Nat) : St w :=
  store.getD (readSlot store.size pos k) ⟨0#w, 0#w, 0⟩

/-- `_traceback_at(self.pos)` after `c` symbols -/
def tracebackNow {w : Nat} (m dmax N : Nat) (store : Array (St w)) (c : Nat) : Nat × Nat × List Op :=
  let r := tracebackRd dmax m (readArr store ((c + 1) % N)) (m + c)
  (c - r.1, r.2.1, r.2.2.reverse)

def scanGo (w : Nat) (eqv : Nat → Nat → Bool) (p : List Nat) (dmax N : Nat) (want : Nat → Bool) :
    Array (St w) → St w → Nat → List Nat → List (Nat × Nat × Nat × List Op)
  | store, _, c, [] => if want c then [(c, tracebackNow p.length dmax N store c)] else []
  | store, s, c, a :: rest =>
    let s' := RbV.Model.MyersSimple.step p.length (RbV.Model.MyersSimple.peq w eqv p a) s
    (if want c then [(c, tracebackNow p.length dmax N store c)] else []) ++
      scanGo w eqv p dmax N want (store.setIfInBounds ((c + 2) % N) s') s' (c + 1) rest

/-- all `(stop, start, dist, ops)` with `want stop`, `stop = 0 … |t|`, each computed when exactly `stop` symbols have been
consumed -/
def scanStore (w : Nat) (eqv : Nat → Nat → Bool) (p : List Nat) (dmax N : Nat) (old : List (St w)) (t : List Nat)
    (want : Nat → Bool) : List (Nat × Nat × Nat × List Op) :=
  let s0 := RbV.Model.MyersSimple.init w p.length
  scanGo w eqv p dmax N want (((old.toArray).setIfInBounds (0 % N) (maxSt w dmax)).setIfInBounds (1 % N) s0) s0 0 t

end RbV.Model.MyersTraceback
