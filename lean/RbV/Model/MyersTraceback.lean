import RbV.Ref.MyersHit
import RbV.Model.Ukkonen
/-!
Matrix-level model of the decision rule of the Myers traceback (`traceback.rs: Traceback::_traceback_at`) (C10 [B]).
Core Lean only.

The Rust code walks from the cell (m, end) of the Sellers matrix to row 0.  It reconstructs the three neighbouring
values from the stored `Pv/Mv` columns (`adjust_dist`, `adjust_by_mask`, `move_left_down_if_better`); this model reads
them from the matrix `D i j` = (row `i`, after `j` text symbols) directly and keeps the *order of the tests*:
  1. `left_block.dist + 1 == block.dist`             diagonal value + 1 = current value   → `Subst`
  2. `block.pv & pos != 0`                          upper value + 1 = current value      → `Ins`
  3. `left_block.mv & pos != 0`                     left value = diagonal value − 1      → `Del`
  4. otherwise                                                                           → `Match`
-/
namespace RbV.Model.MyersTraceback
open RbV.EditDist

/-- next column of the Sellers matrix in natural orientation (row 0 first): the full inner loop of the column
recurrence, as in the Ukkonen model but over all rows -/
def natNext (w : Nat → Nat → Nat) (p : List Nat) (c : Nat) (prev : List Nat) : List Nat :=
  RbV.Model.Ukkonen.newCol w p c ⟨prev, prev, 0⟩ p.length

def allCols (w : Nat → Nat → Nat) (p : List Nat) : List Nat → List Nat → List (List Nat)
  | col, [] => [col]
  | col, c :: t => col :: allCols w p (natNext w p c col) t

/-- `matrix[j][i]` = row `i` after `j` text symbols -/
def matrix (w : Nat → Nat → Nat) (p t : List Nat) : List (List Nat) :=
  allCols w p (List.range (p.length + 1)) t

def Dm (mat : List (List Nat)) (i j : Nat) : Nat := (mat.getD j []).getD i 0

/-- the walk over a matrix given as a function; ops are produced last-first (as the Rust code pushes them);
returns (start column, ops) -/
def walkF (D : Nat → Nat → Nat) : Nat → Nat → Nat → Nat × List Op
  | 0, _, j => (j, [])
  | _, 0, j => (j, [])
  | fuel + 1, i + 1, j =>
    if j ≥ 1 ∧ D i (j - 1) + 1 = D (i + 1) j then
      ((walkF D fuel i (j - 1)).1, Op.sub :: (walkF D fuel i (j - 1)).2)
    else if D i j + 1 = D (i + 1) j then
      ((walkF D fuel i j).1, Op.ins :: (walkF D fuel i j).2)
    else if j ≥ 1 ∧ D (i + 1) (j - 1) + 1 = D i (j - 1) then
      ((walkF D fuel (i + 1) (j - 1)).1, Op.del :: (walkF D fuel (i + 1) (j - 1)).2)
    else
      ((walkF D fuel i (j - 1)).1, Op.mat :: (walkF D fuel i (j - 1)).2)

/-- predicted `(start, ops)` (ops in forward order) for the hit ending after `stop` text symbols -/
def traceback (w : Nat → Nat → Nat) (p t : List Nat) (stop : Nat) : Nat × List Op :=
  let r := walkF (Dm (matrix w p t)) (p.length + stop) p.length stop
  (r.1, r.2.reverse)

end RbV.Model.MyersTraceback
