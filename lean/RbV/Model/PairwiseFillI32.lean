import RbV.Model.PairwiseFill
import RbV.Basic.I32
/-!
Checked-`i32` version of the functional mirror `Model/PairwiseFill.lean` of `bio::alignment::pairwise::Aligner::custom`.

Every `+` and `*` that the Rust text performs on `i32` values is `I32.add` / `I32.mul` here (a result outside
`[−2³¹, 2³¹)` is `none`: the panic of a build with `overflow-checks`), in the order and association of the Rust
text (`a + b + c` is `(a + b) + c`; a sum behind `&&` is evaluated only when the left operand holds; a sum that the text
evaluates twice — once in the `if`, once in the assignment — is written once, the two evaluations being the same
operation on the same operands); `i as i32`, `j as i32` are `I32.ofUsize` (truncating cast).  Comparisons, `max` and
moves between cells are exact on `i32`.  Everything else — the order of the candidates, the strict `>`, the registers,
the traceback codes — is literally `Model/PairwiseFill.lean`; the traceback `loop` does no score arithmetic and is
shared (`customOf`).

`Thm/C01.lean` `custom_i32_no_overflow`: inside the envelope `I32Env` no checked operation fails and this mirror
returns exactly what the unbounded mirror returns.  Core Lean only.
-/
namespace RbV.Model.PairwiseFill
open RbV.Align RbV.I32

/-- `iter` for a loop body that can panic -/
def iterC {α : Type} (step : Nat → α → Option α) : Nat → Nat → α → Option (List α)
  | 0, _, r => some [r]
  | k + 1, i, r =>
    match step (i + 1) r with
    | none => none
    | some r' =>
      match iterC step k (i + 1) r' with
      | none => none
      | some l => some (r :: l)

section
variable (sc : Sc) (cl : Clip) (x y : List Nat)

/-- `I[k][i]` of the initialisation, `D[curr][0]` of the `i = 0` block (`clipPen` = `xclip_prefix` / `yclip_prefix`,
`k` = `i` / `j`): `gap_open + gap_extend` for `k = 1`, else the larger of `gap_open + gap_extend * (k as i32)` and
`clip + gap_open + gap_extend`, with the code to write (`gapCode` = `TB_INS` / `TB_DEL`, `clipCode`) -/
def edgeC (clipPen : Int) (gapCode clipCode : Tb) (k : Nat) : Option (Int × Tb) :=
  if k = 1 then
    match add sc.go sc.ge with
    | none => none
    | some v => some (v, .start)
  else
    match mul sc.ge (ofUsize k) with
    | none => none
    | some t =>
      match add sc.go t with
      | none => none
      | some g_score =>
        match add clipPen sc.go with
        | none => none
        | some c0 =>
          match add c0 sc.ge with
          | none => none
          | some c_score => some (if g_score > c_score then (g_score, gapCode) else (c_score, clipCode))

/-- body of `for i in 1..=m` of the initialisation (`step0`) -/
def step0C (i : Nat) (r : Row) : Option Row :=
  let m := x.length
  match edgeC sc cl.xp .ins .xpre i with
  | none => none
  | some (iv, ti) =>
    let base := if i = m then r.xm else minScore
    let ts0 : Tb := if i = m then .xsuf else .start
    let s1 := upd iv base
    let ts1 : Tb := if iv > base then .ins else ts0
    let s2 := upd cl.xp s1
    let ts2 : Tb := if cl.xp > s1 then .xpre else ts1
    -- `if i != m && S[k][i] + xclip_suffix > S[k][m]`: the sum is evaluated only for `i != m`
    match (if i = m then some (s2, r.t.lx) else
        match add s2 cl.xs with
        | none => none
        | some c => some (upd c r.xm, if c > r.xm then m - i else r.t.lx)) with
    | none => none
    | some (xm, lx) =>
      -- `if S[k][i] + yclip_suffix > Sn[i]`
      match add s2 cl.ys with
      | none => none
      | some c =>
        let ly := if c > minScore then y.length else 0
        some ⟨s2, iv, minScore, upd c minScore, xm, ⟨ts2, ti, .start, ly, lx⟩⟩

def col0C : Option (List Row) := iterC (step0C sc cl x y) x.length 0 (row00 cl x y)

/-- the block "Handle i = 0 case" and the reset loop (`rowJ0`) -/
def rowJ0C (j : Nat) (prev0 : Row) : Option Row :=
  let n := y.length
  match edgeC sc cl.yp .del .ypre j with
  | none => none
  | some (d0, td) =>
    let s0 := if d0 > cl.yp then d0 else cl.yp
    let ts0 : Tb := if d0 > cl.yp then .del else .ypre
    let sn0 := prev0.sn
    -- `if j == n && Sn[0] > S[curr][0] { … } else if S[curr][0] + yclip_suffix > Sn[0] { … }`
    if j = n ∧ sn0 > s0 then
      some ⟨sn0, minScore, d0, sn0, if x.length = 0 then sn0 else minScore, ⟨.ysuf, .start, td, prev0.t.ly, 0⟩⟩
    else
      match add s0 cl.ys with
      | none => none
      | some c =>
        some ⟨s0, minScore, d0, upd c sn0, if x.length = 0 then s0 else minScore,
          ⟨ts0, .start, td, if c > sn0 then n - j else prev0.t.ly, 0⟩⟩

/-- `let xclip_score = xclip_prefix + max(yclip_prefix, gap_open + gap_extend * (j as i32))`: evaluated once per column,
before the inner loop (also when `m = 0`) -/
def xclipC (j : Nat) : Option Int :=
  match mul sc.ge (ofUsize j) with
  | none => none
  | some t =>
    match add sc.go t with
    | none => none
    | some g => add cl.xp (max cl.yp g)

/-- `a + gap_open + gap_extend` -/
def openC (a : Int) : Option Int :=
  match add a sc.go with
  | none => none
  | some b => add b sc.ge

/-- body of `for i in 1..m + 1` (`stepJ`); `xclip_score` is the value computed before the loop -/
def stepJC (j : Nat) (prev : List Row) (xclip_score : Int) (i : Nat) (r : Row) : Option Row :=
  let m := x.length
  let q := y.getD (j - 1) 0
  let p := x.getD (i - 1) 0
  let pr1 := prev.getD (i - 1) default
  let pr := prev.getD i default
  match add pr1.s (sc.w p q) with
  | none => none
  | some m_score =>
  match add r.i sc.ge with
  | none => none
  | some i_score =>
  match openC sc r.s with
  | none => none
  | some s_score =>
  let best_i_score := if i_score > s_score then i_score else s_score
  let ti : Tb := if i_score > s_score then .ins else r.t.ts
  match add pr.d sc.ge with
  | none => none
  | some d_score =>
  match openC sc pr.s with
  | none => none
  | some s_score2 =>
  let best_d_score := if d_score > s_score2 then d_score else s_score2
  let td : Tb := if d_score > s_score2 then .del else pr.t.ts
  let b0 := if i = m then r.xm else minScore
  let b1 := upd m_score b0
  let c1 : Tb := if m_score > b0 then (if p = q then .mat else .subst) else .xsuf
  let b2 := upd best_i_score b1
  let c2 : Tb := if best_i_score > b1 then .ins else c1
  let b3 := upd best_d_score b2
  let c3 : Tb := if best_d_score > b2 then .del else c2
  let b4 := upd xclip_score b3
  let c4 : Tb := if xclip_score > b3 then .xpre else c3
  -- `yclip_prefix + gap_open + gap_extend * (i as i32)`
  match add cl.yp sc.go with
  | none => none
  | some y0 =>
  match mul sc.ge (ofUsize i) with
  | none => none
  | some t =>
  match add y0 t with
  | none => none
  | some yclip_score =>
  let b5 := upd yclip_score b4
  let c5 : Tb := if yclip_score > b4 then .ypre else c4
  -- `if S[curr][i] + xclip_suffix > S[curr][m]`
  match add b5 cl.xs with
  | none => none
  | some cx =>
  let xm1 := if i = m then b5 else r.xm
  let xm2 := upd cx xm1
  let lx := if cx > xm1 then m - i else r.t.lx
  let s := if i = m then xm2 else b5
  -- `if S[curr][i] + yclip_suffix > Sn[i]`
  match add s cl.ys with
  | none => none
  | some cy =>
  let ly := if cy > pr.sn then y.length - j else pr.t.ly
  some ⟨s, best_i_score, best_d_score, upd cy pr.sn, xm2, ⟨c5, ti, td, ly, lx⟩⟩

def colStepC (j : Nat) (prev : List Row) : Option (List Row) :=
  match rowJ0C sc cl x y j (prev.getD 0 default) with
  | none => none
  | some r0 =>
    match xclipC sc cl j with
    | none => none
    | some xclip_score => iterC (stepJC sc cl x y j prev xclip_score) x.length 0 r0

/-- the outer loop `for j in 1..=n`, keeping every column (`allCols`): `k` more columns after column `j` -/
def colsC : Nat → Nat → List Row → Option (List (List Row))
  | 0, _, c => some [c]
  | k + 1, j, c =>
    match colStepC sc cl x y (j + 1) c with
    | none => none
    | some c' =>
      match colsC k (j + 1) c' with
      | none => none
      | some l => some (c :: l)

def allColsC : Option (List (List Row)) :=
  match col0C sc cl x y with
  | none => none
  | some c0 => colsC sc cl x y y.length 0 c0

/-- body of "Handle suffix clipping in the j=n case" (`post1Step`) -/
def post1StepC (col : List Row) (i : Nat) (p : PSt) : Option PSt :=
  let m := x.length
  let r := col.getD i default
  let cur := if i = m then p.xm else r.s
  let curT : Tb := if i = m then p.sm else r.t.ts
  let s1 := upd r.sn cur
  let t1 : Tb := if r.sn > cur then .ysuf else curT
  let xm1 := if i = m then s1 else p.xm
  let sm1 : Tb := if i = m then t1 else p.sm
  match add s1 cl.xs with
  | none => none
  | some c =>
    let xm2 := upd c xm1
    let sm2 : Tb := if c > xm1 then .xsuf else sm1
    let lx := if c > xm1 then m - i else p.lx
    some ⟨if i = m then xm2 else s1, xm2, r.i, if i = m then sm2 else t1, r.t.ti, sm2, lx⟩

def post1C (col : List Row) : Option (List PSt) :=
  match post1StepC cl x col 0 (p1init x col) with
  | none => none
  | some p0 => iterC (post1StepC cl x col) x.length 0 p0

/-- body of "recompute the last column of I" (`post2Step`) -/
def post2StepC (s1 : List PSt) (i : Nat) (p : PSt) : Option PSt :=
  let m := x.length
  let q := s1.getD i default
  match openC sc p.s with
  | none => none
  | some s_score =>
    let iv := if s_score > q.iv then s_score else q.iv
    let ti : Tb := if s_score > q.iv then p.ts else q.ti
    let cur := if i = m then p.xm else q.s
    let curT : Tb := if i = m then p.sm else q.ts
    if s_score > cur then
      let xm1 := if i = m then s_score else p.xm
      let sm1 : Tb := if i = m then .ins else p.sm
      match add s_score cl.xs with
      | none => none
      | some c =>
        let xm2 := upd c xm1
        let sm2 : Tb := if c > xm1 then .xsuf else sm1
        let lx := if c > xm1 then m - i else p.lx
        some ⟨if i = m then xm2 else s_score, xm2, iv, if i = m then sm2 else .ins, ti, sm2, lx⟩
    else some ⟨cur, p.xm, iv, curT, ti, p.sm, p.lx⟩

def post2C (s1 : List PSt) : Option (List PSt) :=
  iterC (post2StepC sc cl x s1) x.length 0 (p2init x s1)

/-- the fill with `i32` arithmetic: `none` = an overflow panic somewhere in the fill -/
def fillC : Option Filled :=
  match allColsC sc cl x y with
  | none => none
  | some cols =>
    match post1C cl x (cols.getD y.length []) with
    | none => none
    | some p1 =>
      match post2C sc cl x p1 with
      | none => none
      | some p2 => some ⟨cols, p1, p2, (p2.getD x.length default).xm⟩

end

/-- the traceback `loop` and the construction of the `Alignment` from what the fill left behind (no score arithmetic) -/
def customOf (f : Filled) (m n : Nat) : Option Out :=
  let T := f.table m n
  match tbLoop T (2 * (m + n) + 16) ⟨m, n, T.tS m n, [], 0, 0, m, n⟩ with
  | none => none
  | some st => some ⟨f.score, st.xstart, st.xend, st.ystart, st.yend, m, n, st.ops⟩

theorem custom_eq_customOf (sc : Sc) (cl : Clip) (x y : List Nat) :
    custom sc cl x y = customOf (fill sc cl x y) x.length y.length := rfl

/-- outcome of a call with `i32` scores -/
inductive Outcome where
  /-- an `i32` operation of the fill overflowed (panic in a build with overflow checks) -/
  | overflow
  /-- the traceback loop did not stop within its fuel -/
  | noTermination
  | done (o : Out)
deriving DecidableEq

/-- the whole of `Aligner::custom` with `i32` scores -/
def customC (sc : Sc) (cl : Clip) (x y : List Nat) : Outcome :=
  match fillC sc cl x y with
  | none => .overflow
  | some f =>
    match customOf f x.length y.length with
    | none => .noTermination
    | some o => .done o

/-! ### The envelope in which no `i32` operation overflows -/

/-- `I32Env sc cl x y B`: `B ≥ 1` bounds the absolute value of the substitution scores that occur and of both gap
penalties; gap and clip penalties are `≤ 0`, the clip penalties are `≥ MIN_SCORE` (any value in between, not only
`MIN_SCORE` or small); and `(max(m, n) + 1) · B ≤ 2³¹ + MIN_SCORE` (= 1 288 490 189 in the pinned tree).  The bound is
exact: with `yclip_prefix = MIN_SCORE`, `gap_open = gap_extend = −B` the sum `yclip_prefix + gap_open + gap_extend * m` of
row `m` is `MIN_SCORE − (m + 1)·B` (the real code panics there for the first `B` beyond the bound: docs/notes/C01.md), and
with `xclip_prefix = yclip_prefix = MIN_SCORE` the `xclip_score` of column `n` is `MIN_SCORE − (n + 1)·B`.  Decidable. -/
structure I32Env (sc : Sc) (cl : Clip) (x y : List Nat) (B : Int) : Prop where
  B1 : 1 ≤ B
  wlo : ∀ a ∈ x, ∀ b ∈ y, -B ≤ sc.w a b
  whi : ∀ a ∈ x, ∀ b ∈ y, sc.w a b ≤ B
  go : -B ≤ sc.go ∧ sc.go ≤ 0
  ge : -B ≤ sc.ge ∧ sc.ge ≤ 0
  xp : minScore ≤ cl.xp ∧ cl.xp ≤ 0
  xs : minScore ≤ cl.xs ∧ cl.xs ≤ 0
  yp : minScore ≤ cl.yp ∧ cl.yp ≤ 0
  ys : minScore ≤ cl.ys ∧ cl.ys ≤ 0
  room : ((max x.length y.length : Nat) + 1) * B ≤ 2147483648 + minScore

theorem i32Env_iff (sc : Sc) (cl : Clip) (x y : List Nat) (B : Int) : I32Env sc cl x y B ↔
    (1 ≤ B ∧ (∀ a ∈ x, ∀ b ∈ y, -B ≤ sc.w a b) ∧ (∀ a ∈ x, ∀ b ∈ y, sc.w a b ≤ B) ∧ (-B ≤ sc.go ∧ sc.go ≤ 0) ∧
      (-B ≤ sc.ge ∧ sc.ge ≤ 0) ∧ (minScore ≤ cl.xp ∧ cl.xp ≤ 0) ∧ (minScore ≤ cl.xs ∧ cl.xs ≤ 0) ∧
      (minScore ≤ cl.yp ∧ cl.yp ≤ 0) ∧ (minScore ≤ cl.ys ∧ cl.ys ≤ 0) ∧
      ((max x.length y.length : Nat) + 1) * B ≤ 2147483648 + minScore) :=
  ⟨fun ⟨a, b, c, d, e, f, g, h, i, j⟩ => ⟨a, b, c, d, e, f, g, h, i, j⟩,
   fun ⟨a, b, c, d, e, f, g, h, i, j⟩ => ⟨a, b, c, d, e, f, g, h, i, j⟩⟩

instance (sc : Sc) (cl : Clip) (x y : List Nat) (B : Int) : Decidable (I32Env sc cl x y B) :=
  decidable_of_iff _ (i32Env_iff sc cl x y B).symm

/-- **The parametric envelope of C01's tie to the `i32` code**: `B ≥ 1` bounds the absolute value of the substitution
scores that occur and of both gap penalties, gap and clip penalties are `≤ 0`, clip penalties `≥ MIN_SCORE`, and
`2·(m + n + 1)·B < −MIN_SCORE` (= 858 993 459 in the pinned tree).  It implies both `I32Env` (no overflow) and
`Sane sc x y B` (`MIN_SCORE` acts as minus infinity): `Thm/C01.lean` `alignEnv_i32Env`, `alignEnv_sane`.  The harness
refuses calls outside it (`align_util::in_envelope`), the driver evaluates it on every call (tag `align-env`). -/
def AlignEnv (sc : Sc) (cl : Clip) (x y : List Nat) (B : Int) : Prop :=
  1 ≤ B ∧ (∀ a ∈ x, ∀ b ∈ y, -B ≤ sc.w a b) ∧ (∀ a ∈ x, ∀ b ∈ y, sc.w a b ≤ B) ∧ (-B ≤ sc.go ∧ sc.go ≤ 0) ∧
    (-B ≤ sc.ge ∧ sc.ge ≤ 0) ∧ (minScore ≤ cl.xp ∧ cl.xp ≤ 0) ∧ (minScore ≤ cl.xs ∧ cl.xs ≤ 0) ∧
    (minScore ≤ cl.yp ∧ cl.yp ≤ 0) ∧ (minScore ≤ cl.ys ∧ cl.ys ≤ 0) ∧
    2 * (((x.length : Int) + y.length + 1) * B) < -minScore

instance (sc : Sc) (cl : Clip) (x y : List Nat) (B : Int) : Decidable (AlignEnv sc cl x y B) := by
  unfold AlignEnv; infer_instance

/-- largest absolute value of a substitution score of a symbol pair that occurs, of `gap_open` and `gap_extend`
(at least 1): the least `B` for `I32Env` -/
def bMax (sc : Sc) (x y : List Nat) : Int :=
  x.foldl (fun acc a => y.foldl (fun acc b => max acc (max (sc.w a b) (-(sc.w a b)))) acc)
    (max 1 (max (-sc.go) (-sc.ge)))

/-- `I32Env`, as the driver evaluates it (with `B = bMax`) -/
def i32Env (sc : Sc) (cl : Clip) (x y : List Nat) : Bool :=
  let B := bMax sc x y
  decide (sc.go ≤ 0) && decide (sc.ge ≤ 0) &&
    decide (minScore ≤ cl.xp ∧ cl.xp ≤ 0) && decide (minScore ≤ cl.xs ∧ cl.xs ≤ 0) &&
    decide (minScore ≤ cl.yp ∧ cl.yp ≤ 0) && decide (minScore ≤ cl.ys ∧ cl.ys ≤ 0) &&
    decide (((max x.length y.length : Nat) + 1) * B ≤ 2147483648 + minScore)

/-- `AlignEnv`, as the driver evaluates it (with `B = bMax`) -/
def alignEnv (sc : Sc) (cl : Clip) (x y : List Nat) : Bool :=
  let B := bMax sc x y
  decide (sc.go ≤ 0) && decide (sc.ge ≤ 0) &&
    decide (minScore ≤ cl.xp ∧ cl.xp ≤ 0) && decide (minScore ≤ cl.xs ∧ cl.xs ≤ 0) &&
    decide (minScore ≤ cl.yp ∧ cl.yp ≤ 0) && decide (minScore ≤ cl.ys ∧ cl.ys ≤ 0) &&
    decide (2 * (((x.length : Int) + y.length + 1) * B) < -minScore)

end RbV.Model.PairwiseFill
