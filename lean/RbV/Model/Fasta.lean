/-!
# Byte-level model of `bio::io::fasta::{Writer, Reader, Records}`  (property C11; also used by C12)

Core Lean only.  Bytes are `Nat`s; a file is a `List Nat`.

Reading follows `Reader::read` / `Records::next` of `/repo/src/io/fasta.rs` line by line:

* `BufRead::read_line` hands out the stream in pieces that end with (and include) the next `0x0A`, the last piece
  possibly without one; at end of stream it hands out the empty string for ever.  `splitLines` is the list of those
  pieces; *popping the head* of that list is one `read_line` call, the empty list is end of stream.
* `self.line` (the look-ahead line that `read` has already fetched when it meets the next header) is modelled by
  *not popping* that line: `faSeq` returns the remaining lines *starting with* the header it stopped at.
* `str::trim_end`, `char::is_whitespace` are modelled on ASCII (`isWs`): the model coincides with the Rust code on
  every input that is valid UTF-8 and has no non-ASCII Unicode white space (U+0085, U+00A0, …); bytes ≥ 0x80 are
  ordinary symbols for the model.
-/
namespace RbV.Fastx

abbrev Bytes := List Nat

/-- ASCII part of `char::is_whitespace`: TAB, LF, VT, FF, CR, SPACE -/
def isWs (b : Nat) : Bool := b == 9 || b == 10 || b == 11 || b == 12 || b == 13 || b == 32

/-- the pieces `read_line` hands out, in order -/
def splitLines : Bytes → List Bytes
  | [] => []
  | b :: r =>
    if b = 10 then [10] :: splitLines r
    else match splitLines r with
      | [] => [[b]]
      | l :: ls => (b :: l) :: ls

/-- `str::trim_end` -/
def trimEnd : Bytes → Bytes
  | [] => []
  | b :: r => let t := trimEnd r; if t.isEmpty && isWs b then [] else b :: t

/-- `s.splitn(2, pred)`: the part before the first separator and, if there is a separator, the part after it -/
def splitn2 (sep : Nat → Bool) (s : Bytes) : Bytes × Option Bytes :=
  (s.takeWhile (fun b => !sep b),
   match s.dropWhile (fun b => !sep b) with
   | [] => none
   | _ :: d => some d)

structure FaRec where
  id : Bytes
  desc : Option Bytes
  seq : Bytes
deriving DecidableEq, Repr, Inhabited

/-- what `Records::next` yields -/
inductive FaItem where
  | ok (r : FaRec)
  | err            -- "Expected > at record start."
deriving DecidableEq, Repr, Inhabited

def FaRec.isEmpty (r : FaRec) : Bool := r.id.isEmpty && r.desc.isNone && r.seq.isEmpty

/-- `Record::check` -/
def FaRec.check (r : FaRec) : Bool := !r.id.isEmpty && r.seq.all (· < 128)

def startsWith (l : Bytes) (c : Nat) : Bool := l.head? == some c

/-- the `loop` of `Reader::read`: sequence lines (trimmed at the end, concatenated) up to end of stream or the next
line starting with `>`; returns the lines from that header on (the look-ahead) -/
def faSeq : List Bytes → Bytes × List Bytes
  | [] => ([], [])
  | l :: ls =>
    if startsWith l 62 then ([], l :: ls)
    else let (s, r) := faSeq ls; (trimEnd l ++ s, r)

theorem faSeq_length_le (ls : List Bytes) : (faSeq ls).2.length ≤ ls.length := by
  induction ls with
  | nil => simp [faSeq]
  | cons l ls ih =>
    unfold faSeq
    split
    · simp
    · simp only [List.length_cons]; omega

/-- header line (starting with `>`) → id and description -/
def faHeader (l : Bytes) : Bytes × Option Bytes := splitn2 isWs (trimEnd l.tail)

/-- `Records`: repeated `Reader::read` until an error (reported once, then the iterator ends) or the empty record -/
def faRecords (lines : List Bytes) : List FaItem :=
  match lines with
  | [] => []
  | l :: ls =>
    if !startsWith l 62 then [.err]
    else
      let h := faHeader l
      let sr := faSeq ls
      let r : FaRec := { id := h.1, desc := h.2, seq := sr.1 }
      if r.isEmpty then [] else .ok r :: faRecords sr.2
termination_by lines.length
decreasing_by
  have := faSeq_length_le ls
  simp only [List.length_cons]; omega

/-- the reader applied to a byte stream -/
def parseFasta (file : Bytes) : List FaItem := faRecords (splitLines file)

/-! ## Writer -/

/-- `slice::chunks(w)`; `w = 0` panics in Rust (the theorems assume `1 ≤ w`) -/
def chunks (w : Nat) (l : Bytes) : List Bytes :=
  if h : w = 0 ∨ l = [] then [] else l.take w :: chunks w (l.drop w)
termination_by l.length
decreasing_by
  have : l ≠ [] := fun e => h (Or.inr e)
  have : 0 < l.length := List.length_pos_iff.mpr this
  simp only [List.length_drop]; omega

/-- `Writer::write_record_header` -/
def faHeaderBytes (id : Bytes) (desc : Option Bytes) : Bytes :=
  62 :: id ++ (match desc with | some d => 32 :: d | none => []) ++ [10]

/-- `Writer::write` with `linewrap = wrap` -/
def writeFastaRec (wrap : Option Nat) (r : FaRec) : Bytes :=
  faHeaderBytes r.id r.desc ++
  match wrap with
  | none => r.seq ++ [10]
  | some w => (chunks w r.seq).flatMap (· ++ [10])

def writeFasta (wrap : Option Nat) (recs : List FaRec) : Bytes := recs.flatMap (writeFastaRec wrap)

/-! ## Arbitrary line layouts (re-wrapping, CRLF) -/

/-- one record laid out with the sequence cut into the given pieces (empty pieces = blank lines) and the given
line terminator -/
def layoutFastaRec (r : FaRec) (pieces : List Bytes) (eol : Bytes) : Bytes :=
  62 :: r.id ++ (match r.desc with | some d => 32 :: d | none => []) ++ eol ++ pieces.flatMap (· ++ eol)

def layoutFasta (l : List (FaRec × List Bytes × Bytes)) : Bytes :=
  l.flatMap (fun x => layoutFastaRec x.1 x.2.1 x.2.2)

/-- a line terminator: LF or CRLF -/
def IsEol (e : Bytes) : Prop := e = [10] ∨ e = [13, 10]

/-- the records the property speaks of: id without white space; description (if any) non-empty, without line feed
and not ending in white space (the reader trims the end of the header line); sequence non-empty, without white space
and without `>` (a sequence line starting with `>` *is* a header) -/
structure ValidFa (r : FaRec) : Prop where
  id_nows : ∀ b ∈ r.id, isWs b = false
  desc_ok : ∀ d, r.desc = some d → d ≠ [] ∧ 10 ∉ d ∧ (∀ x, d.getLast? = some x → isWs x = false)
  seq_ne : r.seq ≠ []
  seq_ok : ∀ b ∈ r.seq, isWs b = false ∧ b ≠ 62

instance (r : FaRec) : Decidable (ValidFa r) :=
  decidable_of_iff
    ((∀ b ∈ r.id, isWs b = false) ∧
     (∀ d, r.desc = some d → d ≠ [] ∧ 10 ∉ d ∧ (∀ x, d.getLast? = some x → isWs x = false)) ∧
     r.seq ≠ [] ∧ (∀ b ∈ r.seq, isWs b = false ∧ b ≠ 62))
    ⟨fun ⟨a, b, c, d⟩ => ⟨a, b, c, d⟩, fun ⟨a, b, c, d⟩ => ⟨a, b, c, d⟩⟩

end RbV.Fastx
