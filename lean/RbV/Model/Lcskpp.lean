import RbV.Spec.KChain
import RbV.Model.Fenwick
/-!
# C19 — mirror model of `bio::alignment::sparse::lcskpp` (core Lean only)

Follows `/repo/src/alignment/sparse.rs` line by line:

* the assertion "incoming matches must be sorted" (strictly, lexicographically),
* the event list: for the match `idx = (x, y)` a *start* event `(x, y, idx + len)` and an *end* event `(x + k, y + k, idx)`,
  `n = max (x + k, y + k)`, `events.sort_unstable()` — all events are different (third component), so the sorted vector is
  unique and a stable merge sort gives the same vector; the order of triples is the derived lexicographic one, hence at
  equal coordinates the *end* event (`idx < len`) comes before the *start* event (`idx + len`),
* `MaxBitTree<(u32, u32)>::new(n)`, `dp.resize(events.len(), (0, 0))`, `best_dp = (k, 0)`,
* the sweep: a start event queries the tree (`get(j)`), an end event looks up the diagonal predecessor by
  `matches.binary_search` and publishes `(dp[p].0, p)` with `set(ev.1, …)`,
* the traceback `while prev_match >= 0 { push; prev_match = dp[prev_match].1 }`, `reverse`.

The Fenwick tree is the proved mirror model `RbV.Model.Fenwick` (C18) with `max` on pairs.  `u32`/`i32`/`usize` are
unbounded `Nat`/`Int` (no overflow: positions below 2³¹).  `slice::binary_search` (std, not rust-bio) is modelled by its
contract on a strictly sorted slice: `Ok(i)` with `matches[i] == key` if the key occurs, `Err` otherwise — here the first
index found by a linear scan (`findFrom`).  The `while` loop of the traceback gets fuel `len + 1`; running out of fuel is
reported as an error of its own (proved not to happen on the domain of the property).
-/
namespace RbV.Model.Lcskpp
open RbV.KChain

abbrev Ev := Nat × Nat × Nat

/-- derived `Ord` on `(u32, u32, u32)`: `a ≤ b` -/
def evLe (a b : Ev) : Bool :=
  a.1 < b.1 || (a.1 == b.1 && (a.2.1 < b.2.1 || (a.2.1 == b.2.1 && a.2.2 ≤ b.2.2)))

/-- derived `Ord` on `(u32, u32)`: `a < b` -/
def mLt (a b : M) : Bool := a.1 < b.1 || (a.1 == b.1 && a.2 < b.2)

/-- `for i in 1..matches.len() { assert!(matches[i - 1] < matches[i]) }` -/
def sortedStrict : List M → Bool
  | [] => true
  | [_] => true
  | a :: b :: r => mLt a b && sortedStrict (b :: r)

/-- `std::cmp::max` on `(u32, u32)` (the Fenwick operation `MaxOp`) -/
def maxNN (a b : Nat × Nat) : Nat × Nat :=
  if a.1 < b.1 || (a.1 == b.1 && a.2 ≤ b.2) then b else a

/-- `std::cmp::max` on `(u32, i32)` (cells of `dp`, `best_dp`) -/
def maxNI (a b : Nat × Int) : Nat × Int :=
  if a.1 < b.1 || (a.1 == b.1 && a.2 ≤ b.2) then b else a

/-- the `for (idx, &(x, y)) in matches.iter().enumerate()` loop: the pushed events -/
def eventsFrom (len k : Nat) : Nat → List M → List Ev
  | _, [] => []
  | idx, m :: r => (m.1, m.2, idx + len) :: (m.1 + k, m.2 + k, idx) :: eventsFrom len k (idx + 1) r

/-- … and `n` -/
def nFrom (k : Nat) : Nat → List M → Nat
  | n, [] => n
  | n, m :: r => nFrom k (max (max n (m.1 + k)) (m.2 + k)) r

/-- `events.sort_unstable()` (the events are pairwise different, so the result does not depend on stability) -/
def sortedEvents (ms : List M) (k : Nat) : List Ev := (eventsFrom ms.length k 0 ms).mergeSort evLe

/-- contract of `matches.binary_search(&key)` on a strictly sorted slice (first index holding the key) -/
def findFrom (key : M) : Nat → List M → Option Nat
  | _, [] => none
  | i, a :: r => if a = key then some i else findFrom key (i + 1) r

structure St where
  tree : List (Nat × Nat)
  dp : List (Nat × Int)
  best : Nat × Int

/-- body of `for ev in events` -/
def stepEv (ms : List M) (k : Nat) (s : St) (ev : Ev) : St :=
  let len := ms.length
  let p := ev.2.2 % len
  let j := ev.2.1
  if ev.2.2 ≥ len then
    -- is_start
    let dp1 := s.dp.set p (k, -1)
    let b := Fenwick.get maxNN (0, 0) s.tree j
    if b.1 > 0 then
      let dp2 := dp1.set p (k + b.1, (b.2 : Int))
      { s with dp := dp2, best := maxNI s.best ((dp2.getD p (0, 0)).1, (p : Int)) }
    else { s with dp := dp1 }
  else
    -- "See if this kmer continues a different kmer"
    let s1 : St :=
      if ev.1 > k && ev.2.1 > k then
        match findFrom (ev.1 - k - 1, ev.2.1 - k - 1) 0 ms with
        | some c =>
          let cand : Nat × Int := ((s.dp.getD c (0, 0)).1 + 1, (c : Int))
          let dp1 := s.dp.set p (maxNI (s.dp.getD p (0, 0)) cand)
          { s with dp := dp1, best := maxNI s.best ((dp1.getD p (0, 0)).1, (p : Int)) }
        | none => s
      else s
    { s1 with tree := Fenwick.set maxNN (0, 0) s1.tree ev.2.1 ((s1.dp.getD p (0, 0)).1, p) }

/-- state before the sweep -/
def initSt (ms : List M) (k : Nat) : St :=
  { tree := Fenwick.new (0, 0) (nFrom k 0 ms)
    dp := List.replicate (2 * ms.length) (0, 0)
    best := (k, 0) }

def sweep (ms : List M) (k : Nat) : St := (sortedEvents ms k).foldl (stepEv ms k) (initSt ms k)

/-- `while prev_match >= 0 { traceback.push(prev_match as usize); prev_match = dp[prev_match as usize].1; }`;
the indices in the order they are pushed; `none` = out of fuel -/
def traceLoop (dp : List (Nat × Int)) : Nat → Int → Option (List Nat)
  | 0, _ => none
  | fuel + 1, prev =>
    if prev ≥ 0 then (traceLoop dp fuel (dp.getD prev.toNat (0, 0)).2).map (prev.toNat :: ·) else some []

structure Res where
  path : List Nat
  score : Nat
  dp : List (Nat × Int)
deriving DecidableEq, Repr

/-- `lcskpp(matches, k)` -/
def lcskpp (ms : List M) (k : Nat) : Except String Res :=
  if ms.isEmpty then .ok { path := [], score := 0, dp := [] }
  else if !sortedStrict ms then .error "incoming matches must be sorted."
  else
    let s := sweep ms k
    match traceLoop s.dp (ms.length + 1) s.best.2 with
    | none => .error "traceback out of fuel"
    | some tb => .ok { path := tb.reverse, score := s.best.1, dp := s.dp }

end RbV.Model.Lcskpp
