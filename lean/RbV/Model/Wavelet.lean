import RbV.Spec.RankSelect
/-
C17 [C] — mirror model of `bio::data_structures::wavelet_matrix::WaveletMatrix` (three bit-sliced levels).

`code : Nat → Nat` is the `DNA2INT` look-up.  `WaveletMatrix::new` keeps two vectors `curr_zeros`, `curr_ones`
and writes the level's bits for `curr_zeros` followed by `curr_ones`; the model keeps their concatenation `cur`
(the next `curr_zeros` is the stable sub-sequence of `cur` with bit 0, the next `curr_ones` the one with bit 1).
Each level is a `RankSelect`; its `rank_0` / `rank_1` are read through an accessor `rk level b i`
(`rankRef b (level bits) i` in the theorems — justified by C17 `rank1_correct` — an array look-up in the driver).
Core Lean only.
-/
namespace RbV.Model.Wavelet
open RbV.Spec.RankSelect

/-- `((DNA2INT[val] >> shift) & 1) == 1` -/
def bitOf (code : Nat → Nat) (shift v : Nat) : Bool := ((code v >>> shift) &&& 1) == 1

structure Level where
  bits : List Bool
  zeros : Nat
  deriving Repr

/-- the `for level in 0..height` loop of `WaveletMatrix::new`; `todo` = number of levels still to build
(`shift = todo - 1 = height - level - 1`) -/
def buildLevels (code : Nat → Nat) : Nat → List Nat → List Level
  | 0, _ => []
  | todo + 1, cur =>
    let shift := todo
    let bits := cur.map (bitOf code shift)
    let nextZeros := cur.filter (fun v => !bitOf code shift v)
    let nextOnes := cur.filter (fun v => bitOf code shift v)
    { bits := bits, zeros := nextZeros.length } :: buildLevels code todo (nextZeros ++ nextOnes)

/-- `WaveletMatrix::new(text)` with `height = 3` -/
def build (code : Nat → Nat) (text : List Nat) : List Level := buildLevels code 3 text

/-- `fn prank(&self, level, p, val)`; `rk b i` is `levels[level].rank_b(i)` -/
def prank (rk : Bool → Nat → Option Nat) (p : Nat) (val : Bool) : Nat :=
  if p = 0 then 0 else (rk val (p - 1)).getD 0

/-- the `for level in 0..height` loop of `rank` over the remaining levels (`shift = remaining - 1`) -/
def rankLoop (code : Nat → Nat) (rk : Nat → Bool → Nat → Option Nat) (c : Nat) :
    List Level → Nat → Nat → Nat → Nat
  | [], _, spos, epos => epos - spos
  | lv :: rest, level, spos, epos =>
    let shift := rest.length
    if bitOf code shift c then
      rankLoop code rk c rest (level + 1) (prank (rk level) spos true + lv.zeros) (prank (rk level) epos true + lv.zeros)
    else
      rankLoop code rk c rest (level + 1) (prank (rk level) spos false) (prank (rk level) epos false)

/-- `pub fn rank(&self, val, p)` (`p < width` is asserted by the code) -/
def rank (code : Nat → Nat) (rk : Nat → Bool → Nat → Option Nat) (levels : List Level) (c p : Nat) : Nat :=
  rankLoop code rk c levels 0 0 (p + 1)

/-- the accessor the theorems use: the declarative rank of the level's bit vector -/
def rkSpec (levels : List Level) (level : Nat) (b : Bool) (i : Nat) : Option Nat :=
  match levels[level]? with
  | some lv => rankRef b lv.bits i
  | none => none

end RbV.Model.Wavelet
