import RbV.Model.Fasta
import RbV.Model.Fastq
import RbV.Model.BufLines
import RbV.Model.UniWs
/-!
# Stateful mirror of `fasta::Reader::read` / `fastq::Reader::read` / `Records` over the `BufReader` model  (C11)

Core Lean only.  `RbV/Model/Fasta.lean` and `Fastq.lean` work on the list of lines; here the readers are written the
way the Rust code is: a reader object that owns a `BufReader` (`BufLines.St`, capacity `c`, read schedule `sched`),
calls `read_line` when the code does, keeps the look-ahead `self.line` (FASTA), and fails with `InvalidData` when a
line is not valid UTF-8 (`read_line` into a `String` validates **the whole appended line**, after `read_until`
returned — so a multi-byte character that is split over several `read`s / buffer refills is validated in one piece;
the line has been consumed and the string is left empty).

Every function takes the text functions `T : Txt` (`trim_end`, header-line split): `Txt.unicode` for the Rust code
(`char::is_whitespace`), `Txt.ascii` for the list models (`RbV/Model/UniWs.lean`).

Second part: the list models *with* the UTF-8 check (`faRecordsU`, `fqRecordsU`) — what the stateful readers compute,
as a function of `splitLines file` alone (`RbV/Lemmas/FastxStream.lean`), for **every** byte string.
-/
namespace RbV.Fastx
open RbV.BufLines

/-! ## `core::str::from_utf8` (validity only) -/

def isCont (b : Nat) : Bool := 128 ≤ b && b ≤ 191

/-- well-formed UTF-8 (Unicode table 3-7: no overlong forms, no surrogates, nothing above U+10FFFF) -/
def validUtf8 : Bytes → Bool
  | [] => true
  | b0 :: r =>
    if b0 < 128 then validUtf8 r
    else match r with
      | [] => false
      | b1 :: r1 =>
        if 194 ≤ b0 && b0 ≤ 223 then isCont b1 && validUtf8 r1
        else match r1 with
          | [] => false
          | b2 :: r2 =>
            if b0 = 224 then 160 ≤ b1 && b1 ≤ 191 && isCont b2 && validUtf8 r2
            else if (225 ≤ b0 && b0 ≤ 236) || b0 = 238 || b0 = 239 then isCont b1 && isCont b2 && validUtf8 r2
            else if b0 = 237 then 128 ≤ b1 && b1 ≤ 159 && isCont b2 && validUtf8 r2
            else match r2 with
              | [] => false
              | b3 :: r3 =>
                if b0 = 240 then 144 ≤ b1 && b1 ≤ 191 && isCont b2 && isCont b3 && validUtf8 r3
                else if 241 ≤ b0 && b0 ≤ 243 then isCont b1 && isCont b2 && isCont b3 && validUtf8 r3
                else if b0 = 244 then 128 ≤ b1 && b1 ≤ 143 && isCont b2 && isCont b3 && validUtf8 r3
                else false

/-- text the readers treat like the list models do: valid UTF-8 without the lead bytes of non-ASCII white space -/
def PlainText (f : Bytes) : Prop := validUtf8 f = true ∧ NoUws f

instance (f : Bytes) : Decidable (PlainText f) := by unfold PlainText; infer_instance

/-- what the writer's argument types give (`&str` id and description, byte-slice sequence) for the records the
property speaks of: id and description valid UTF-8 (here: without non-ASCII white space), ASCII sequence -/
structure TextFa (r : FaRec) : Prop where
  id_ok : PlainText r.id
  desc_ok : ∀ d, r.desc = some d → PlainText d
  seq_ascii : ∀ b ∈ r.seq, b < 128

structure TextFq (r : FqRec) : Prop where
  id_ok : PlainText r.id
  desc_ok : ∀ d, r.desc = some d → PlainText d
  seq_ascii : ∀ b ∈ r.seq, b < 128
  qual_ascii : ∀ b ∈ r.qual, b < 128

instance (r : FaRec) : Decidable (TextFa r) :=
  decidable_of_iff (PlainText r.id ∧ (∀ d, r.desc = some d → PlainText d) ∧ (∀ b ∈ r.seq, b < 128))
    ⟨fun ⟨a, b, c⟩ => ⟨a, b, c⟩, fun ⟨a, b, c⟩ => ⟨a, b, c⟩⟩

instance (r : FqRec) : Decidable (TextFq r) :=
  decidable_of_iff (PlainText r.id ∧ (∀ d, r.desc = some d → PlainText d) ∧ (∀ b ∈ r.seq, b < 128) ∧
      (∀ b ∈ r.qual, b < 128))
    ⟨fun ⟨a, b, c, d⟩ => ⟨a, b, c, d⟩, fun ⟨a, b, c, d⟩ => ⟨a, b, c, d⟩⟩

/-- `BufRead::read_line(&mut s)` with `s` empty: `none` = `Err(InvalidData)` (the bytes are consumed, `s` stays
empty); `some []` = end of input -/
def readLineStr (c : Nat) (sched : Nat → Nat) (s : St) : Option Bytes × St :=
  (if validUtf8 (readLine c sched s).1 then some (readLine c sched s).1 else none, (readLine c sched s).2)

/-- a line was handed out (or refused): fewer bytes are pending -/
theorem readLineStr_progress (c : Nat) (sched : Nat → Nat) (s : St) :
    (readLineStr c sched s).1 = some [] ∨ (readLineStr c sched s).2.pending.length < s.pending.length := by
  have h := readUntil_length c sched s []
  unfold readLineStr
  cases hl : (readLine c sched s).1 with
  | nil => left; simp [validUtf8]
  | cons b t =>
    right
    simp only [readLine] at hl
    simp only [readLine, hl, List.length_cons, List.length_nil] at h ⊢
    omega

/-! ## FASTA -/

/-- `fasta::Reader`: the `BufReader` and the look-ahead `self.line` -/
structure FaReader where
  rd : St
  line : Bytes
deriving Repr, Inhabited

/-- what `Reader::read` returns: `Ok(())` with the record filled, `Err("Expected > …")`, `Err(InvalidData)` -/
inductive FaOut where
  | record (r : FaRec)
  | err
  | utf8
deriving DecidableEq, Repr, Inhabited

/-- the `loop` of `Reader::read`: `line.clear(); read_line(&mut line)?; if line.is_empty() || line.starts_with('>')
{ break } seq.push_str(line.trim_end())`.  `none` = the `?` fired. -/
def faLoop (T : Txt) (c : Nat) (sched : Nat → Nat) (rd : St) (seq : Bytes) : Option (Bytes × Bytes) × St :=
  match h : readLineStr c sched rd with
  | (none, rd') => (none, rd')
  | (some l, rd') =>
    if l.isEmpty || startsWith l 62 then (some (seq, l), rd')
    else faLoop T c sched rd' (seq ++ T.trim l)
termination_by rd.pending.length
decreasing_by
  rename_i hne
  have hp := readLineStr_progress c sched rd
  rw [h] at hp
  rcases hp with hp | hp
  · simp only [Option.some.injEq] at hp
    simp [hp] at hne
  · exact hp

/-- `Reader::read` from the point where `self.line` holds a non-empty line -/
def faFromHeader (T : Txt) (c : Nat) (sched : Nat → Nat) (r : FaReader) : FaOut × FaReader :=
  if !startsWith r.line 62 then (.err, r)
  else
    match faLoop T c sched r.rd [] with
    | (none, rd') => (.utf8, { rd := rd', line := [] })
    | (some (seq, l), rd') =>
      (.record { id := (T.faHdr r.line).1, desc := (T.faHdr r.line).2, seq := seq }, { rd := rd', line := l })

/-- `Reader::read` -/
def faReadS (T : Txt) (c : Nat) (sched : Nat → Nat) (r : FaReader) : FaOut × FaReader :=
  if r.line.isEmpty then
    match readLineStr c sched r.rd with
    | (none, rd') => (.utf8, { rd := rd', line := [] })
    | (some l, rd') =>
      if l.isEmpty then (.record { id := [], desc := none, seq := [] }, { rd := rd', line := [] })
      else faFromHeader T c sched { rd := rd', line := l }
  else faFromHeader T c sched r

/-- an item of the `Records` iterators with the I/O error `InvalidData` -/
inductive SItem (α : Type) where
  | item (i : α)
  | utf8
deriving DecidableEq, Repr, Inhabited

/-- `Records` drained (`next` until `None`; after an error the iterator ends); the same sequence of `read` calls is
made by the loop `read(&mut record)` until `record.is_empty()` or an error.  `fuel` bounds the number of `next`
calls; `parseFastaVia` supplies more than there are lines. -/
def faDrain (T : Txt) (c : Nat) (sched : Nat → Nat) : Nat → FaReader → List (SItem FaItem) × FaReader
  | 0, r => ([], r)
  | fuel + 1, r =>
    match faReadS T c sched r with
    | (.utf8, r') => ([.utf8], r')
    | (.err, r') => ([.item .err], r')
    | (.record x, r') =>
      if x.isEmpty then ([], r')
      else (.item (.ok x) :: (faDrain T c sched fuel r').1, (faDrain T c sched fuel r').2)

/-- `fasta::Reader::from_bufread(BufReader::with_capacity(c, source))`, `.records()` drained -/
def parseFastaVia (T : Txt) (c : Nat) (sched : Nat → Nat) (file : Bytes) : List (SItem FaItem) :=
  (faDrain T c sched (file.length + 1) { rd := init file, line := [] }).1

/-- the number of `Records::next` calls up to and including the one that returns `None` (`none`: more than `fuel`).
After an item `Some(Err(_))` the next call returns `None` (`error_has_occured`). -/
def faNextCalls (T : Txt) (c : Nat) (sched : Nat → Nat) : Nat → FaReader → Option Nat
  | 0, _ => none
  | fuel + 1, r =>
    match faReadS T c sched r with
    | (.utf8, _) => some 2
    | (.err, _) => some 2
    | (.record x, r') => if x.isEmpty then some 1 else (faNextCalls T c sched fuel r').map (· + 1)

/-! ## FASTQ -/

/-- `read_line` + `while !line.is_empty() && !line.starts_with('+') { seq.push_str(line.trim_end()); line.clear();
read_line(&mut line)?; lines_read += 1 }`, written with the `read_line` at the head of the loop; the line that ends
the loop is dropped (the code clears the buffer before the next `read_line`) -/
def fqSeqLoop (T : Txt) (c : Nat) (sched : Nat → Nat) (rd : St) (seq : Bytes) (n : Nat) : Option (Bytes × Nat) × St :=
  match h : readLineStr c sched rd with
  | (none, rd') => (none, rd')
  | (some l, rd') =>
    if l.isEmpty || startsWith l 43 then (some (seq, n), rd')
    else fqSeqLoop T c sched rd' (seq ++ T.trim l) (n + 1)
termination_by rd.pending.length
decreasing_by
  rename_i hne
  have hp := readLineStr_progress c sched rd
  rw [h] at hp
  rcases hp with hp | hp
  · simp only [Option.some.injEq] at hp
    simp [hp] at hne
  · exact hp

/-- `for _ in 0..lines_read { line.clear(); read_line(&mut line)?; qual.push_str(line.trim_end()) }` -/
def fqQualLoop (T : Txt) (c : Nat) (sched : Nat → Nat) : Nat → St → Bytes → Option Bytes × St
  | 0, rd, q => (some q, rd)
  | n + 1, rd, q =>
    match readLineStr c sched rd with
    | (none, rd') => (none, rd')
    | (some l, rd') => fqQualLoop T c sched n rd' (q ++ T.trim l)

/-- what `fastq::Reader::read` returns: `Ok(())` with an empty record (end of input), a record or a format error,
`Err(ReadError(InvalidData))` -/
inductive FqOut where
  | eof
  | item (i : FqItem)
  | utf8
deriving DecidableEq, Repr, Inhabited

/-- `fastq::Reader::read` (the reader's only state is the `BufReader`: `line_buffer` is cleared before every use) -/
def fqReadS (T : Txt) (c : Nat) (sched : Nat → Nat) (rd : St) : FqOut × St :=
  match readLineStr c sched rd with
  | (none, rd1) => (.utf8, rd1)
  | (some l, rd1) =>
    if l.isEmpty then (.eof, rd1)
    else if !startsWith l 64 then (.item .missingAt, rd1)
    else
      match fqSeqLoop T c sched rd1 [] 0 with
      | (none, rd2) => (.utf8, rd2)
      | (some (seq, n), rd2) =>
        match fqQualLoop T c sched n rd2 [] with
        | (none, rd3) => (.utf8, rd3)
        | (some q, rd3) =>
          if q.isEmpty then (.item .incomplete, rd3)
          else (.item (.ok { id := (T.fqHdr l).1, desc := (T.fqHdr l).2, seq := seq, qual := q }), rd3)

/-- `fastq::Records` drained: errors are items, the iteration goes on until `read` leaves the record empty -/
def fqDrain (T : Txt) (c : Nat) (sched : Nat → Nat) : Nat → St → List (SItem FqItem) × St
  | 0, rd => ([], rd)
  | fuel + 1, rd =>
    match fqReadS T c sched rd with
    | (.eof, rd') => ([], rd')
    | (.item i, rd') => (.item i :: (fqDrain T c sched fuel rd').1, (fqDrain T c sched fuel rd').2)
    | (.utf8, rd') => (.utf8 :: (fqDrain T c sched fuel rd').1, (fqDrain T c sched fuel rd').2)

/-- the number of `fastq::Records::next` calls up to and including the one that returns `None` -/
def fqNextCalls (T : Txt) (c : Nat) (sched : Nat → Nat) : Nat → St → Option Nat
  | 0, _ => none
  | fuel + 1, rd =>
    match fqReadS T c sched rd with
    | (.eof, _) => some 1
    | (.item _, rd') => (fqNextCalls T c sched fuel rd').map (· + 1)
    | (.utf8, rd') => (fqNextCalls T c sched fuel rd').map (· + 1)

def parseFastqVia (T : Txt) (c : Nat) (sched : Nat → Nat) (file : Bytes) : List (SItem FqItem) :=
  (fqDrain T c sched (file.length + 1) (init file)).1

/-! ## The list models with the UTF-8 check -/

/-- `faSeq` with validation (`none`: a line that is not valid UTF-8 was met) -/
def faSeqU (T : Txt) : List Bytes → Option (Bytes × List Bytes)
  | [] => some ([], [])
  | l :: ls =>
    if !validUtf8 l then none
    else if startsWith l 62 then some ([], l :: ls)
    else (faSeqU T ls).map fun p => (T.trim l ++ p.1, p.2)

theorem faSeqU_length_le (T : Txt) (ls : List Bytes) : ∀ p, faSeqU T ls = some p → p.2.length ≤ ls.length := by
  induction ls with
  | nil => intro p h; simp [faSeqU] at h; subst h; simp
  | cons l ls ih =>
    intro p h
    unfold faSeqU at h
    split at h
    · cases h
    · split at h
      · cases h; simp
      · simp only [Option.map_eq_some_iff] at h
        obtain ⟨q, hq, rfl⟩ := h
        have := ih q hq
        simp only [List.length_cons]; omega

def faRecordsU (T : Txt) (lines : List Bytes) : List (SItem FaItem) :=
  match lines with
  | [] => []
  | l :: ls =>
    if !validUtf8 l then [.utf8]
    else if !startsWith l 62 then [.item .err]
    else
      match h : faSeqU T ls with
      | none => [.utf8]
      | some p =>
        let r : FaRec := { id := (T.faHdr l).1, desc := (T.faHdr l).2, seq := p.1 }
        if r.isEmpty then [] else .item (.ok r) :: faRecordsU T p.2
termination_by lines.length
decreasing_by
  have := faSeqU_length_le T ls p h
  simp only [List.length_cons]; omega

/-- what the FASTA reader yields on a byte stream, UTF-8 errors included -/
def parseFastaU (T : Txt) (file : Bytes) : List (SItem FaItem) := faRecordsU T (splitLines file)

/-- `fqSeq` with validation; `error ls` = a bad line was met, `ls` are the lines after it -/
def fqSeqU (T : Txt) : List Bytes → Except (List Bytes) (Bytes × Nat × List Bytes)
  | [] => .ok ([], 0, [])
  | l :: ls =>
    if !validUtf8 l then .error ls
    else if startsWith l 43 then .ok ([], 0, l :: ls)
    else match fqSeqU T ls with
      | .error r => .error r
      | .ok p => .ok (T.trim l ++ p.1, p.2.1 + 1, p.2.2)

def fqQualU (T : Txt) : Nat → List Bytes → Except (List Bytes) (Bytes × List Bytes)
  | 0, ls => .ok ([], ls)
  | n + 1, [] => fqQualU T n []
  | n + 1, l :: ls =>
    if !validUtf8 l then .error ls
    else match fqQualU T n ls with
      | .error r => .error r
      | .ok p => .ok (T.trim l ++ p.1, p.2)

def fqReadU (T : Txt) (l : Bytes) (ls : List Bytes) : SItem FqItem × List Bytes :=
  if !validUtf8 l then (.utf8, ls)
  else if !startsWith l 64 then (.item .missingAt, ls)
  else
    match fqSeqU T ls with
    | .error r => (.utf8, r)
    | .ok s =>
      match fqQualU T s.2.1 s.2.2.tail with
      | .error r => (.utf8, r)
      | .ok q =>
        if q.1.isEmpty then (.item .incomplete, q.2)
        else (.item (.ok { id := (T.fqHdr l).1, desc := (T.fqHdr l).2, seq := s.1, qual := q.1 }), q.2)

theorem fqSeqU_length_le (T : Txt) (ls : List Bytes) :
    (∀ r, fqSeqU T ls = .error r → r.length ≤ ls.length) ∧ (∀ p, fqSeqU T ls = .ok p → p.2.2.length ≤ ls.length) := by
  induction ls with
  | nil => simp [fqSeqU]
  | cons l ls ih =>
    by_cases hv : validUtf8 l = true
    · by_cases hp : startsWith l 43 = true
      · simp [fqSeqU, hv, hp]
      · cases hq : fqSeqU T ls with
        | error r =>
          have := ih.1 r hq
          simp only [fqSeqU, hv, hp, hq]
          simp; omega
        | ok p =>
          have := ih.2 p hq
          simp only [fqSeqU, hv, hp, hq]
          simp; omega
    · simp [fqSeqU, hv]

theorem fqQualU_length_le (T : Txt) (n : Nat) (ls : List Bytes) :
    (∀ r, fqQualU T n ls = .error r → r.length ≤ ls.length) ∧ (∀ p, fqQualU T n ls = .ok p → p.2.length ≤ ls.length) := by
  induction n generalizing ls with
  | zero => simp [fqQualU]
  | succ n ih =>
    cases ls with
    | nil => simpa [fqQualU] using ih []
    | cons l ls =>
      by_cases hv : validUtf8 l = true
      · cases hq : fqQualU T n ls with
        | error r =>
          have := (ih ls).1 r hq
          simp only [fqQualU, hv, hq]
          simp; omega
        | ok p =>
          have := (ih ls).2 p hq
          simp only [fqQualU, hv, hq]
          simp; omega
      · simp [fqQualU, hv]

theorem fqReadU_length_le (T : Txt) (l : Bytes) (ls : List Bytes) : (fqReadU T l ls).2.length ≤ ls.length := by
  unfold fqReadU
  split
  · simp
  · split
    · simp
    · have h1 := fqSeqU_length_le T ls
      split
      · rename_i r heq
        exact h1.1 r heq
      · rename_i s heq
        have h1' := h1.2 s heq
        have h2 := fqQualU_length_le T s.2.1 s.2.2.tail
        have h3 : s.2.2.tail.length ≤ s.2.2.length := by simp
        split
        · rename_i r heq2
          have := h2.1 r heq2
          simp only; omega
        · rename_i q heq2
          have := h2.2 q heq2
          split <;> simp only <;> omega

def fqRecordsU (T : Txt) (lines : List Bytes) : List (SItem FqItem) :=
  match lines with
  | [] => []
  | l :: ls => (fqReadU T l ls).1 :: fqRecordsU T (fqReadU T l ls).2
termination_by lines.length
decreasing_by
  have := fqReadU_length_le T l ls
  simp only [List.length_cons]; omega

/-- what the FASTQ reader yields on a byte stream, UTF-8 errors included -/
def parseFastqU (T : Txt) (file : Bytes) : List (SItem FqItem) := fqRecordsU T (splitLines file)

end RbV.Fastx
