import RbV.Spec.QGram
/-!
# C19 — mirror model of `QGramIndex::matches` (core Lean only)

The Rust loop visits the hits (pattern position i ascending, text positions ascending within one i) and keeps one record per
diagonal in a hash map: a vacant entry is created from the hit, an occupied one gets new `stop`s and `count + 1`.  The hash
map is modelled as an association list in insertion order (the driver compares as sets).
-/
namespace RbV.QGram

def lookupD (d : Int) : List (Int × MatchRec) → Option MatchRec
  | [] => none
  | e :: T => if e.1 = d then some e.2 else lookupD d T

/-- `Entry::Occupied` branch -/
def bump (q : Nat) (h : Nat × Nat) (r : MatchRec) : MatchRec :=
  (r.1, h.1 + q, r.2.2.1, h.2 + q, r.2.2.2.2 + 1)

/-- `Entry::Vacant` branch -/
def fresh (q : Nat) (h : Nat × Nat) : MatchRec := (h.1, h.1 + q, h.2, h.2 + q, 1)

def matchesStep (q : Nat) (T : List (Int × MatchRec)) (h : Nat × Nat) : List (Int × MatchRec) :=
  match lookupD (diag h) T with
  | none => T ++ [(diag h, fresh q h)]
  | some _ => T.map fun e => if e.1 = diag h then (e.1, bump q h e.2) else e

/-- `matches(pattern, min_count)` -/
def matchesModel (mc q minc : Nat) (pat text : List Nat) : List MatchRec :=
  (((hits mc q pat text).foldl (matchesStep q) []).map (·.2)).filter (fun r => r.2.2.2.2 ≥ minc)

end RbV.QGram
