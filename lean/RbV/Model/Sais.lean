import RbV.Model.PosTypes
import RbV.Model.Transform
/-
Mirror model of SA-IS as implemented in `src/data_structures/suffix_array.rs`:

  `suffix_array` → `transform_text` → `Sais::construct` → `PosTypes::new`, `calc_lms_pos` (collect LMS positions,
  `calc_pos` on the unsorted LMS positions, `sort_lms_suffixes`: naming with `lms_substring_eq`, recursion on the
  reduced text) → `calc_pos` (induced sorting: `init_bucket_start`, `init_bucket_end`, LMS placement, L pass, S pass)

and of `suffix_array_int` (= `Sais::construct` on the integer text itself).

Conventions of the mirror
* texts of every width (`u8`/`u16`/`u32`/`u64` transformed texts and reduced texts, `usize` integer texts) are one
  `List Nat` model.  The width matters in the Rust code only through `cast(..).unwrap()`, which panics on overflow;
  the widths are chosen by `suffix_array` / `calc_lms_pos` so that every value fits (`alphabet.len() +
  sentinel_count ≤ MAX`, `label < lms_substring_count ≤ MAX`), so no truncation is modelled.
* `usize` arithmetic: unbounded `Nat`, except `wrapping_sub(1)` which is modelled as written (`0 ↦ 2^64 − 1`).
* `&mut self` fields → a record `St` threaded through the functions; a `for` loop → `forUp`/`forDown`/`foldl`.
* an out-of-range index (a panic in Rust) is totalised: reads give a default (`getD`), writes are dropped
  (`List.set`).  The theorems are stated under the guard of the real code (text ends in its unique minimum, dense
  alphabet), under which no such index occurs.
* `lms_substring_eq`'s `for k in 0..` gets fuel `n + 1`.
* the recursion `construct → calc_lms_pos → sort_lms_suffixes → construct` gets fuel = text length (the reduced text
  has at most half the length).
-/
namespace RbV.Sais
open RbV

/-! ### loops -/

/-- `for r in 0..n { s = f r s }` -/
def forUp (n : Nat) (f : Nat → σ → σ) (s : σ) : σ :=
  match n with
  | 0 => s
  | k + 1 => f k (forUp k f s)

/-- `for r in (0..n).rev() { s = f r s }` -/
def forDown (n : Nat) (f : Nat → σ → σ) (s : σ) : σ :=
  match n with
  | 0 => s
  | k + 1 => forDown k f (f k s)

/-! ### `PosTypes` -/

/-- `is_s_pos` (`get_bit`; out of range is a panic in Rust, `false` here) -/
def isS (ty : List Bool) (p : Nat) : Bool := ty.getD p false
/-- `is_l_pos` -/
def isL (ty : List Bool) (p : Nat) : Bool := !ty.getD p false
/-- `is_lms_pos`: `p != 0 && is_s_pos(p) && is_l_pos(p - 1)` -/
def isLms (ty : List Bool) (p : Nat) : Bool := p != 0 && isS ty p && isL ty (p - 1)

/-! ### buckets -/

/-- `VecMap<usize>` as `Vec<Option<usize>>`: `if !contains_key(c) { insert(c, 0) }; *get_mut(c) += 1` -/
def vmIncr (m : List (Option Nat)) (c : Nat) : List (Option Nat) :=
  let m' := if c < m.length then m else m ++ List.replicate (c + 1 - m.length) none
  match m'.getD c none with
  | none => m'.set c (some 1)
  | some k => m'.set c (some (k + 1))

/-- first loop of `init_bucket_start`: the `VecMap` of symbol counts -/
def bucketSizes (t : List Nat) : List (Option Nat) := t.foldl vmIncr []

/-- `for &size in values() { bucket_start.push(sum); sum += size }` -/
def prefixSums : List Nat → Nat → List Nat
  | [], _ => []
  | s :: ss, sum => sum :: prefixSums ss (sum + s)

/-- `init_bucket_start`: `values()` iterates over the present keys in ascending order -/
def initBucketStart (t : List Nat) : List Nat := prefixSums ((bucketSizes t).filterMap id) 0

/-- `init_bucket_end`: `for &r in &bucket_start[1..] { push(r - 1) }; push(n - 1)` -/
def initBucketEnd (bs : List Nat) (n : Nat) : List Nat := (bs.drop 1).map (· - 1) ++ [n - 1]

def usizeMax : Nat := 18446744073709551615

/-- `x.wrapping_sub(1)` on `usize` (64 bit) -/
def wrapSub1 (x : Nat) : Nat := if x = 0 then usizeMax else x - 1

/-! ### `calc_pos` (induced sorting) -/

/-- one iteration of `for &p in self.lms_pos.iter().rev()` -/
def placeStep (t : List Nat) (st : List Nat × List Nat) (p : Nat) : List Nat × List Nat :=
  let c := t.getD p 0
  let e := st.2.getD c 0
  (st.1.set e p, st.2.set c (wrapSub1 e))

/-- insert LMS positions to the end of their buckets -/
def placeLms (t lms pos be : List Nat) : List Nat × List Nat :=
  lms.reverse.foldl (placeStep t) (pos, be)

/-- one iteration of `for r in 0..n` (insert L-positions) -/
def lStep (t : List Nat) (ty : List Bool) (n r : Nat) (st : List Nat × List Nat) : List Nat × List Nat :=
  let p := st.1.getD r 0
  if p = n || p = 0 then st
  else
    let pred := p - 1
    if isL ty pred then
      let c := t.getD pred 0
      let b := st.2.getD c 0
      (st.1.set b pred, st.2.set c (b + 1))
    else st

/-- one iteration of `for r in (0..n).rev()` (insert S-positions); note: no test for the "unknown" value `n` -/
def sStep (t : List Nat) (ty : List Bool) (r : Nat) (st : List Nat × List Nat) : List Nat × List Nat :=
  let p := st.1.getD r 0
  if p = 0 then st
  else
    let pred := p - 1
    if isS ty pred then
      let c := t.getD pred 0
      let e := st.2.getD c 0
      (st.1.set e pred, st.2.set c (wrapSub1 e))
    else st

/-- result of `calc_pos`: the three fields it (re)computes -/
structure CP where
  pos : List Nat
  bStart : List Nat
  bEnd : List Nat

/-- `calc_pos(text, pos_types)` run on `self.lms_pos = lms` (it clears `pos`, `bucket_start`, `bucket_end` first) -/
def calcPosRun (t : List Nat) (ty : List Bool) (lms : List Nat) : CP :=
  let n := t.length
  let bs := initBucketStart t
  let be := initBucketEnd bs n
  let pos := List.replicate n n
  let (pos, _) := placeLms t lms pos be
  let be := initBucketEnd bs n
  let (pos, bs) := forUp n (lStep t ty n) (pos, bs)
  let (pos, be) := forDown n (sStep t ty) (pos, be)
  { pos := pos, bStart := bs, bEnd := be }

/-! ### the object `Sais` -/

structure St where
  pos : List Nat
  lmsPos : List Nat
  redPos : List Nat      -- `reduced_text_pos`, allocated once in `Sais::new` and shared by all recursion levels
  bStart : List Nat
  bEnd : List Nat

/-- `Sais::new(n)` -/
def St.new (n : Nat) : St :=
  { pos := [], lmsPos := [], redPos := List.replicate n 0, bStart := [], bEnd := [] }

def calcPos (t : List Nat) (ty : List Bool) (s : St) : St :=
  let r := calcPosRun t ty s.lmsPos
  { s with pos := r.pos, bStart := r.bStart, bEnd := r.bEnd }

/-- `lms_substring_eq`, iteration `k` (fuel `f`) -/
def lmsSubEqGo (t : List Nat) (ty : List Bool) (i j : Nat) : Nat → Nat → Bool
  | 0, _ => false
  | f + 1, k =>
    let lmsi := isLms ty (i + k)
    let lmsj := isLms ty (j + k)
    if t.getD (i + k) 0 ≠ t.getD (j + k) 0 then false
    else if lmsi ≠ lmsj then false
    else if k > 0 && lmsi && lmsj then true
    else lmsSubEqGo t ty i j f (k + 1)

def lmsSubEq (t : List Nat) (ty : List Bool) (i j : Nat) : Bool := lmsSubEqGo t ty i j (t.length + 1) 0

/-- state of the naming loop: `label`, `prev`, `reduced_text` -/
structure Naming where
  label : Nat
  prev : Option Nat
  red : List Nat

/-- one iteration of `for &p in &self.pos` in `sort_lms_suffixes` -/
def nameStep (t : List Nat) (ty : List Bool) (redPos : List Nat) (st : Naming) (p : Nat) : Naming :=
  if isLms ty p then
    let label :=
      match st.prev with
      | some q => if !lmsSubEq t ty q p then st.label + 1 else st.label
      | none => st.label
    { label := label, prev := some p, red := st.red.set (redPos.getD p 0) label }
  else st

/-- the naming part of `sort_lms_suffixes` -/
def naming (t : List Nat) (ty : List Bool) (cnt : Nat) (s : St) : Naming :=
  let red := List.replicate cnt 0
  let red := red.set (s.redPos.getD (s.pos.getD 0 0) 0) 0
  s.pos.foldl (nameStep t ty s.redPos) { label := 0, prev := none, red := red }

/-- `sort_lms_suffixes` (`rec` = `construct` of the next level) -/
def sortLmsSuffixes (rec : List Nat → St → St) (t : List Nat) (ty : List Bool) (cnt : Nat) (s : St) : St :=
  if cnt > 1 then
    let nm := naming t ty cnt s
    if nm.label + 1 < cnt then
      let backup := s.lmsPos
      let s := rec nm.red s
      { s with lmsPos := s.pos.map (fun p => backup.getD p 0) }
    else
      { s with lmsPos := s.pos.filter (isLms ty) }
  else s

/-- first loop of `calc_lms_pos`: `(lms_pos, reduced_text_pos, i)` -/
def collectStep (ty : List Bool) (r : Nat) (st : List Nat × List Nat × Nat) : List Nat × List Nat × Nat :=
  if isLms ty r then (st.1 ++ [r], st.2.1.set r st.2.2, st.2.2 + 1) else st

/-- `calc_lms_pos` -/
def calcLmsPos (rec : List Nat → St → St) (t : List Nat) (ty : List Bool) (s : St) : St :=
  let n := t.length
  let c := forUp n (collectStep ty) ([], s.redPos, 0)
  let s := { s with lmsPos := c.1, redPos := c.2.1 }
  let s := calcPos t ty s
  sortLmsSuffixes rec t ty s.lmsPos.length s

/-- `Sais::construct` with recursion fuel -/
def construct : Nat → List Nat → St → St
  | 0, _, s => s
  | f + 1, t, s =>
    let ty := PosTypes.posTypes t
    let s := calcLmsPos (construct f) t ty s
    calcPos t ty s

/-- `suffix_array_int(text)` -/
def suffixArrayInt (t : List Nat) : List Nat := (construct t.length t (St.new t.length)).pos

/-! ### `suffix_array`: `Alphabet::new`, `RankTransform::new`, `transform_text` -/

/-- `Alphabet::new(text)`: the symbols of the text in ascending order (iteration over the `BitSet`) -/
def alphabet (t : List Nat) : List Nat := (List.range (t.foldl max 0 + 1)).filter (fun c => t.contains c)

/-- the loop of `transform_text`, with `rk a` = `transform.ranks.get(a)` -/
def transformGo (rk : Nat → Nat) (sent offset : Nat) : List Nat → Nat → List Nat
  | [], _ => []
  | a :: as, s =>
    if a = sent then (s - 1) :: transformGo rk sent offset as (s - 1)
    else (rk a + offset) :: transformGo rk sent offset as s

/-- `transform_text(text, &alphabet, sentinel_count)`; `RankTransform::new(alphabet)` maps a symbol to its index in
the ascending alphabet.  (Equal to the specification-level `Transform.transformText`: `transformText_eq`.) -/
def transformText (t : List Nat) : List Nat :=
  let sent := sentinelOf t
  let sc := t.count sent
  let al := alphabet t
  transformGo (fun a => al.idxOf a) sent (sc - 1) t sc

/-- `suffix_array(text)` (the `assert!` of `sentinel_count` — every symbol ≥ the last one — is a precondition; the
choice of `u8`/`u16`/`u32`/`u64` by `alphabet.len() + sentinel_count` only guarantees that the casts succeed) -/
def suffixArray (t : List Nat) : List Nat :=
  let tt := transformText t
  (construct tt.length tt (St.new t.length)).pos

end RbV.Sais
