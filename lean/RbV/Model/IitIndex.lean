import RbV.Model.IitProofs
/-!
# Proofs about the array-backed mirror model, part 2: `index_core` establishes the search invariants — every n

* `fold_setMx_spec`  frame lemma for a `for` loop that rewrites the `max` of distinct cells
* `level0_spec`      the first loop: even cells get `max = end`; `last_i` = last even index, `last_value` its end
* `linv_step`        one round of the `while` loop keeps `LInv`: the `max` of every node of level ≤ k bounds the
                     ends of the in-range part of its subtree, `last_i` is the level-k ancestor of the last leaf
                     and `last_value` bounds the in-range part of *its* subtree (the imaginary right spine)
* `indexCore_spec`   hence `MaxUB`, sortedness and `n < 2^(max_level+1)` after `index_core`
* `find_spec`, `runArr_spec`  whole histories of `insert` / `index`
Core Lean only.
-/
namespace RbV.Iit
open RbV.Ivl

/-! ## `setMx` -/

theorem length_setMx (a : List Cell) (i : Nat) (m : Int) : (setMx a i m).length = a.length := by
  unfold setMx; split <;> simp

theorem getC_setMx (a : List Cell) (i : Nat) (m : Int) (j : Nat) :
    getC (setMx a i m) j = if j = i ∧ i < a.length then { getC a i with mx := m } else getC a j := by
  unfold setMx getC
  by_cases hi : i < a.length
  · have : a[i]? = some a[i] := List.getElem?_eq_getElem hi
    simp only [this, List.getElem?_set]
    by_cases hj : j = i
    · subst hj; simp [hi]
    · have : ¬ i = j := fun h => hj h.symm
      simp [hj, this]
  · have : a[i]? = none := List.getElem?_eq_none (by omega)
    simp [hi]

theorem getC_setMx_e (a : List Cell) (i : Nat) (m : Int) (j : Nat) : (getC (setMx a i m) j).e = (getC a j).e := by
  rw [getC_setMx]; split
  · rename_i h; rw [h.1]
  · rfl

/-! ## generic arithmetic on nodes (`p` stands for a power of two) -/

/-- level-`k` nodes are `i0 + step·t` -/
theorem node_iff_step (k i : Nat) : Node k i ↔ ∃ t, i = (2 ^ (k + 1) - 1 - 2 ^ k) + 2 ^ (k + 1) * t := by
  have hp := two_pow_pos k
  have e2 : 2 ^ (k + 1) = 2 * 2 ^ k := by rw [Nat.pow_succ]; omega
  unfold Node
  constructor
  · intro h
    refine ⟨i / 2 ^ (k + 1), ?_⟩
    have := Nat.div_add_mod i (2 ^ (k + 1))
    omega
  · rintro ⟨t, rfl⟩
    rw [Nat.add_mul_mod_self_left, Nat.mod_eq_of_lt (by omega)]
    omega

theorem not_node_minus (x p : Nat) (hp : 0 < p) (h : x % (4 * p) + 1 = 2 * p) : (x - p) % (4 * p) + 1 ≠ 2 * p := by
  have hx := Nat.div_add_mod x (4 * p)
  generalize x / (4 * p) = a at *
  have e : x - p = 4 * p * a + (p - 1) := by omega
  rw [e, Nat.mul_add_mod, Nat.mod_eq_of_lt (by omega)]
  omega

theorem not_node_plus (x p : Nat) (hp : 0 < p) (h : x % (4 * p) + 1 = 2 * p) : (x + p) % (4 * p) + 1 ≠ 2 * p := by
  have hx := Nat.div_add_mod x (4 * p)
  generalize x / (4 * p) = a at *
  have e : x + p = 4 * p * a + (3 * p - 1) := by omega
  rw [e, Nat.mul_add_mod, Nat.mod_eq_of_lt (by omega)]
  omega

theorem node_children_not_same_level {k i : Nat} (h : Node (k + 1) i) :
    ¬ Node (k + 1) (i - 2 ^ k) ∧ ¬ Node (k + 1) (i + 2 ^ k) := by
  unfold Node at *
  have e1 : 2 ^ (k + 1 + 1) = 4 * 2 ^ k := by rw [Nat.pow_succ, Nat.pow_succ]; omega
  have e2 : 2 ^ (k + 1) = 2 * 2 ^ k := by rw [Nat.pow_succ]; omega
  rw [e1] at h ⊢
  rw [e2] at h ⊢
  exact ⟨not_node_minus i _ (two_pow_pos k) h, not_node_plus i _ (two_pow_pos k) h⟩

/-- two nodes of the same level whose ranges share a point are the same node -/
theorem node_unique (k u v L : Nat) (hu : Node k u) (hv : Node k v)
    (h1 : u + 1 - 2 ^ k ≤ L) (h2 : L < u + 2 ^ k) (h3 : v + 1 - 2 ^ k ≤ L) (h4 : L < v + 2 ^ k) : u = v := by
  have hp := two_pow_pos k
  have e2 : 2 ^ (k + 1) = 2 * 2 ^ k := by rw [Nat.pow_succ]; omega
  unfold Node at hu hv
  rw [e2] at hu hv
  generalize 2 ^ k = p at *
  have hxu := Nat.div_add_mod u (2 * p)
  have hxv := Nat.div_add_mod v (2 * p)
  generalize hu' : u / (2 * p) = a at *
  generalize hv' : v / (2 * p) = b at *
  have ha : L / (2 * p) = a := Nat.div_eq_of_lt_le (by rw [Nat.mul_comm]; omega) (by rw [Nat.add_mul, Nat.mul_comm]; omega)
  have hb : L / (2 * p) = b := Nat.div_eq_of_lt_le (by rw [Nat.mul_comm]; omega) (by rw [Nat.add_mul, Nat.mul_comm]; omega)
  have : a = b := by omega
  subst this
  omega

/-- the parent step of `last_i` -/
theorem parent_generic (u p : Nat) (hp : 0 < p) (h : u % (2 * p) + 1 = p) :
    (if (u / (2 * p)) % 2 > 0 then (u - p) % (4 * p) + 1 = 2 * p ∧ 3 * p ≤ u + 1
     else (u + p) % (4 * p) + 1 = 2 * p) := by
  have hx := Nat.div_add_mod u (2 * p)
  generalize u / (2 * p) = a at *
  have ha := Nat.div_add_mod a 2
  generalize a / 2 = c at *
  split
  · rename_i hodd
    have hm : a % 2 = 1 := by omega
    have e : u - p = 4 * p * c + (2 * p - 1) := by
      have : 2 * p * a = 2 * p * (2 * c + 1) := by rw [← ha, hm]
      have : 2 * p * (2 * c + 1) = 4 * p * c + 2 * p := by
        rw [Nat.mul_add, Nat.mul_one, ← Nat.mul_assoc, Nat.mul_right_comm 2 p 2]
      omega
    have h3 : 3 * p ≤ u + 1 := by
      have : 2 * p * a = 2 * p * (2 * c + 1) := by rw [← ha, hm]
      have : 2 * p * (2 * c + 1) = 4 * p * c + 2 * p := by
        rw [Nat.mul_add, Nat.mul_one, ← Nat.mul_assoc, Nat.mul_right_comm 2 p 2]
      omega
    refine ⟨?_, h3⟩
    rw [e, Nat.mul_add_mod, Nat.mod_eq_of_lt (by omega)]
    omega
  · rename_i hev
    have hm : a % 2 = 0 := by omega
    have e : u + p = 4 * p * c + (2 * p - 1) := by
      have : 2 * p * a = 2 * p * (2 * c) := by rw [← ha, hm, Nat.add_zero]
      have : 2 * p * (2 * c) = 4 * p * c := by
        rw [← Nat.mul_assoc, Nat.mul_right_comm 2 p 2]
      omega
    rw [e, Nat.mul_add_mod, Nat.mod_eq_of_lt (by omega)]
    omega


/-! ## a fold of `setMx` over distinct indices -/

theorem fold_setMx_spec (h : List Cell → Nat → Int) : ∀ (idxs : List Nat) (a : List Cell), idxs.Nodup →
    (∀ (a a' : List Cell) (i : Nat), i ∈ idxs → (∀ j, j ∉ idxs → getC a j = getC a' j) →
      (∀ j, (getC a j).e = (getC a' j).e) → h a i = h a' i) →
    let R := idxs.foldl (fun a i => setMx a i (h a i)) a
    R.length = a.length ∧ (∀ j, (getC R j).e = (getC a j).e) ∧ (∀ j, j ∉ idxs → getC R j = getC a j) ∧
      (∀ i, i ∈ idxs → i < a.length → (getC R i).mx = h a i)
  | [], a, _, _ => by simp
  | i :: rest, a, hnd, hcongr => by
    rw [List.nodup_cons] at hnd
    have hc' : ∀ (a a' : List Cell) (i' : Nat), i' ∈ rest → (∀ j, j ∉ rest → getC a j = getC a' j) →
        (∀ j, (getC a j).e = (getC a' j).e) → h a i' = h a' i' := by
      intro a a' i' hi' h1 h2
      exact hcongr a a' i' (List.mem_cons_of_mem _ hi') (fun j hj => h1 j (fun hm => hj (List.mem_cons_of_mem _ hm))) h2
    have ih := fold_setMx_spec h rest (setMx a i (h a i)) hnd.2 hc'
    simp only [List.foldl_cons]
    simp only at ih
    obtain ⟨i1, i2, i3, i4⟩ := ih
    refine ⟨by rw [i1, length_setMx], ?_, ?_, ?_⟩
    · intro j; rw [i2, getC_setMx_e]
    · intro j hj
      simp only [List.mem_cons, not_or] at hj
      rw [i3 j hj.2, getC_setMx]
      simp [hj.1]
    · intro i' hi' hlt
      simp only [List.mem_cons] at hi'
      rcases hi' with rfl | hi'
      · rw [i3 i' hnd.1, getC_setMx]
        simp [hlt]
      · rw [i4 i' hi' (by rw [length_setMx]; exact hlt)]
        apply hcongr _ _ i' (List.mem_cons_of_mem _ hi')
        · intro j hj
          simp only [List.mem_cons, not_or] at hj
          rw [getC_setMx]; simp [hj.1]
        · intro j; rw [getC_setMx_e]

theorem mem_stepIdx (i0 n step i : Nat) (hs : 0 < step) :
    i ∈ stepIdx i0 n step ↔ ∃ t, i = i0 + step * t ∧ i < n := by
  unfold stepIdx
  rw [List.mem_range']
  constructor
  · rintro ⟨t, ht, rfl⟩
    refine ⟨t, rfl, ?_⟩
    have : t + 1 ≤ (n - i0 + step - 1) / step := ht
    rw [Nat.le_div_iff_mul_le hs, Nat.add_mul, Nat.one_mul, Nat.mul_comm] at this
    omega
  · rintro ⟨t, rfl, hlt⟩
    refine ⟨t, ?_, rfl⟩
    show t + 1 ≤ _
    rw [Nat.le_div_iff_mul_le hs, Nat.add_mul, Nat.one_mul, Nat.mul_comm]
    omega

theorem nodup_stepIdx (i0 n step : Nat) (hs : 0 < step) : (stepIdx i0 n step).Nodup :=
  List.nodup_range' step hs


/-! ## `index_core`, level 0 -/

/-- the last even index below `n` (the last leaf of the implicit tree) -/
def lastLeaf (n : Nat) : Nat := n - 1 - (n - 1) % 2

def l0F (st : List Cell × Nat × Int) (i : Nat) : List Cell × Nat × Int :=
  let a := setMx st.1 i (getC st.1 i).e.hi
  (a, i, (getC a i).mx)

theorem level0_eq (a : List Cell) (n : Nat) : level0 a n = (stepIdx 0 n 2).foldl l0F (a, 0, (getC a 0).mx) := rfl

theorem fold_l0F_fst : ∀ (idxs : List Nat) (st : List Cell × Nat × Int),
    (idxs.foldl l0F st).1 = idxs.foldl (fun a i => setMx a i (getC a i).e.hi) st.1
  | [], _ => rfl
  | i :: rest, st => by
    simp only [List.foldl_cons]
    rw [fold_l0F_fst rest (l0F st i)]
    rfl

theorem stepIdx_zero_two (n : Nat) (hn : 0 < n) :
    stepIdx 0 n 2 = List.range' 0 (lastLeaf n / 2) 2 ++ [lastLeaf n] := by
  unfold stepIdx lastLeaf
  have e : (n - 0 + 2 - 1) / 2 = (n - 1 - (n - 1) % 2) / 2 + 1 := by omega
  rw [e, List.range'_concat]
  congr 2
  omega

/-- what the first loop of `index_core` leaves behind -/
theorem level0_spec (a : List Cell) (hn : 0 < a.length) :
    let r := level0 a a.length
    r.1.length = a.length ∧ (∀ j, (getC r.1 j).e = (getC a j).e) ∧
      (∀ j, j % 2 = 0 → j < a.length → (getC r.1 j).mx = (getC a j).e.hi) ∧
      r.2.1 = lastLeaf a.length ∧ r.2.2 = (getC a (lastLeaf a.length)).e.hi := by
  intro r
  have hspec := fold_setMx_spec (fun a i => (getC a i).e.hi) (stepIdx 0 a.length 2) a
    (nodup_stepIdx 0 _ 2 (by decide)) (by intro a a' i _ _ h2; simp only [h2 i])
  simp only at hspec
  obtain ⟨s1, s2, s3, s4⟩ := hspec
  have hfst : r.1 = (stepIdx 0 a.length 2).foldl (fun a i => setMx a i (getC a i).e.hi) a := by
    show (level0 a a.length).1 = _
    rw [level0_eq, fold_l0F_fst]
  have hL : lastLeaf a.length < a.length := by unfold lastLeaf; omega
  have hLe : lastLeaf a.length % 2 = 0 := by unfold lastLeaf; omega
  have hmem : ∀ j, j % 2 = 0 → j < a.length → j ∈ stepIdx 0 a.length 2 := by
    intro j hj hlt
    rw [mem_stepIdx 0 _ 2 j (by decide)]
    exact ⟨j / 2, by omega, hlt⟩
  refine ⟨by rw [hfst, s1], by intro j; rw [hfst, s2], ?_, ?_, ?_⟩
  · intro j hj hlt
    rw [hfst, s4 j (hmem j hj hlt) hlt]
  · show (level0 a a.length).2.1 = _
    rw [level0_eq, stepIdx_zero_two _ hn, List.foldl_append]
    rfl
  · show (level0 a a.length).2.2 = _
    have h2 : (level0 a a.length).2.2 = (getC (level0 a a.length).1 (lastLeaf a.length)).mx := by
      rw [level0_eq, stepIdx_zero_two _ hn, List.foldl_append]
      simp only [List.foldl_cons, List.foldl_nil, l0F]
    rw [h2]
    have := s4 (lastLeaf a.length) (hmem _ hLe hL) hL
    rw [← hfst] at this
    exact this

/-! ## `index_core`, one level -/

def hL (n x : Nat) (lastV : Int) (a : List Cell) (i : Nat) : Int :=
  max3 (getC a i).e.hi (getC a (i - x)).mx (if i + x < n then (getC a (i + x)).mx else lastV)

theorem levelStep_eq (n : Nat) (a : List Cell) (lastI : Nat) (lastV : Int) (j : Nat) :
    levelStep n (a, lastI, lastV) (j + 1) =
      (let a' := (stepIdx (2 ^ (j + 1) - 1) n (2 ^ (j + 2))).foldl (fun a i => setMx a i (hL n (2 ^ j) lastV a i)) a
       let lastI' := if (lastI / 2 ^ (j + 1)) % 2 > 0 then lastI - 2 ^ j else lastI + 2 ^ j
       let lastV' := if lastI' < n ∧ (getC a' lastI').mx > lastV then (getC a' lastI').mx else lastV
       (a', lastI', lastV')) := by
  have e1 : 2 ^ j * 2 ^ 1 = 2 ^ (j + 1) := (Nat.pow_add 2 j 1).symm
  have e2 : 2 ^ j * 2 ^ 2 = 2 ^ (j + 2) := (Nat.pow_add 2 j 2).symm
  simp only [levelStep, Nat.add_sub_cancel, Nat.shiftLeft_eq, Nat.shiftRight_eq_div_pow,
    Nat.and_one_is_mod, Nat.one_mul, e1, e2, hL]
  rfl

/-- a node has exactly one level -/
theorem node_level_lt_absurd {k k' x : Nat} (hlt : k < k') (h : Node k x) (h' : Node k' x) : False := by
  unfold Node at h h'
  have hp := two_pow_pos k
  have e2 : 2 ^ (k + 1) = 2 * 2 ^ k := by rw [Nat.pow_succ]; omega
  -- 2^(k+1) divides 2^k' and 2^(k'+1)
  obtain ⟨d, rfl⟩ : ∃ d, k' = k + 1 + d := ⟨k' - (k + 1), by omega⟩
  have e3 : 2 ^ (k + 1 + d) = 2 ^ (k + 1) * 2 ^ d := Nat.pow_add 2 (k + 1) d
  have e4 : 2 ^ (k + 1 + d + 1) = 2 ^ (k + 1) * (2 ^ d * 2) := by
    rw [Nat.pow_succ, e3, Nat.mul_assoc]
  have hx' := Nat.div_add_mod x (2 ^ (k + 1 + d + 1))
  have hx := Nat.div_add_mod x (2 ^ (k + 1))
  -- x + 1 = 2^(k+1) * (stuff)
  have hs : x + 1 = 2 ^ (k + 1) * ((2 ^ d * 2) * (x / 2 ^ (k + 1 + d + 1)) + 2 ^ d) := by
    rw [Nat.mul_add, ← Nat.mul_assoc, ← e4, ← e3]
    omega
  have hm : (x + 1) % 2 ^ (k + 1) = 0 := by rw [hs]; exact Nat.mul_mod_right _ _
  have hm2 : (x + 1) % 2 ^ (k + 1) = 2 ^ k := by
    have : x + 1 = 2 ^ (k + 1) * (x / 2 ^ (k + 1)) + 2 ^ k := by omega
    rw [this, Nat.mul_add_mod, Nat.mod_eq_of_lt (by omega)]
  omega

theorem node_level_unique {k k' x : Nat} (h : Node k x) (h' : Node k' x) : k = k' := by
  rcases Nat.lt_trichotomy k k' with hlt | heq | hgt
  · exact (node_level_lt_absurd hlt h h').elim
  · exact heq
  · exact (node_level_lt_absurd hgt h' h).elim

theorem node_succ_odd {k i : Nat} (h : Node (k + 1) i) : i % 2 = 1 := by
  unfold Node at h
  have hp := two_pow_pos k
  have e1 : 2 ^ (k + 1 + 1) = 4 * 2 ^ k := by rw [Nat.pow_succ, Nat.pow_succ]; omega
  have e2 : 2 ^ (k + 1) = 2 * 2 ^ k := by rw [Nat.pow_succ]; omega
  rw [e1, e2] at h
  have hx := Nat.div_add_mod i (4 * 2 ^ k)
  have : 4 * 2 ^ k * (i / (4 * 2 ^ k)) = 2 * (2 * 2 ^ k * (i / (4 * 2 ^ k))) := by
    rw [← Nat.mul_assoc, ← Nat.mul_assoc]
  omega

theorem node_zero_iff (x : Nat) : Node 0 x ↔ x % 2 = 0 := by
  unfold Node; simp

/-- the invariant of the `while` loop of `index_core` after the levels `≤ k` have been processed -/
structure LInv (a0 : List Cell) (k : Nat) (st : List Cell × Nat × Int) : Prop where
  len : st.1.length = a0.length
  same : ∀ j, (getC st.1 j).e = (getC a0 j).e
  ub : ∀ k' x, k' ≤ k → Node k' x → x < a0.length → ∀ j, x + 1 - 2 ^ k' ≤ j → j < x + 2 ^ k' → j < a0.length →
    (getC a0 j).e.hi ≤ (getC st.1 x).mx
  lnode : Node k st.2.1
  lrange : st.2.1 + 1 - 2 ^ k ≤ lastLeaf a0.length ∧ lastLeaf a0.length < st.2.1 + 2 ^ k
  lval : ∀ j, st.2.1 + 1 - 2 ^ k ≤ j → j < st.2.1 + 2 ^ k → j < a0.length → (getC a0 j).e.hi ≤ st.2.2

theorem max3_ge (a b c : Int) : a ≤ max3 a b c ∧ b ≤ max3 a b c ∧ c ≤ max3 a b c := by
  unfold max3; omega

theorem linv_base (a0 : List Cell) (hn : 0 < a0.length) : LInv a0 0 (level0 a0 a0.length) := by
  obtain ⟨l1, l2, l3, l4, l5⟩ := level0_spec a0 hn
  have hL : lastLeaf a0.length < a0.length := by unfold lastLeaf; omega
  have hLe : lastLeaf a0.length % 2 = 0 := by unfold lastLeaf; omega
  refine ⟨l1, l2, ?_, ?_, ?_, ?_⟩
  · intro k' x hk hnode hx j h1 h2 h3
    have : k' = 0 := by omega
    subst this
    have hj : j = x := by simp at h1 h2; omega
    subst hj
    rw [l3 j ((node_zero_iff j).mp hnode) hx]
    exact Int.le_refl _
  · rw [l4]; exact (node_zero_iff _).mpr hLe
  · rw [l4]; simp
  · intro j h1 h2 h3
    rw [l4] at h1 h2
    have hj : j = lastLeaf a0.length := by simp at h1 h2; omega
    rw [l5, hj]
    exact Int.le_refl _

theorem linv_step (a0 : List Cell) (j : Nat) (a : List Cell) (lastI : Nat) (lastV : Int)
    (hn : 0 < a0.length) (inv : LInv a0 j (a, lastI, lastV)) :
    LInv a0 (j + 1) (levelStep a0.length (a, lastI, lastV) (j + 1)) := by
  obtain ⟨len, same, ub, lnode, lrange, lval⟩ := inv
  simp only at len same ub lnode lrange lval
  have hp := two_pow_pos j
  have e1 : 2 ^ (j + 2) = 4 * 2 ^ j := by rw [Nat.pow_succ, Nat.pow_succ]; omega
  have e2 : 2 ^ (j + 1) = 2 * 2 ^ j := by rw [Nat.pow_succ]; omega
  -- the nodes of level j+1 below n are exactly the indices of the inner loop
  have hidx : ∀ i, i ∈ stepIdx (2 ^ (j + 1) - 1) a0.length (2 ^ (j + 2)) ↔ Node (j + 1) i ∧ i < a0.length := by
    intro i
    rw [mem_stepIdx _ _ _ _ (by omega), node_iff_step]
    have : 2 ^ (j + 1 + 1) - 1 - 2 ^ (j + 1) = 2 ^ (j + 1) - 1 := by
      have : 2 ^ (j + 1 + 1) = 2 ^ (j + 2) := rfl
      omega
    rw [this]
    constructor
    · rintro ⟨t, h1, h2⟩; exact ⟨⟨t, h1⟩, h2⟩
    · rintro ⟨⟨t, h1⟩, h2⟩; exact ⟨t, h1, h2⟩
  have hspec := fold_setMx_spec (hL a0.length (2 ^ j) lastV) (stepIdx (2 ^ (j + 1) - 1) a0.length (2 ^ (j + 2))) a
    (nodup_stepIdx _ _ _ (by omega)) (by
      intro b b' i hi h1 h2
      have hnode := ((hidx i).mp hi).1
      have hsep := node_children_not_same_level hnode
      have hm : i - 2 ^ j ∉ stepIdx (2 ^ (j + 1) - 1) a0.length (2 ^ (j + 2)) :=
        fun hc => hsep.1 ((hidx _).mp hc).1
      have hpl : i + 2 ^ j ∉ stepIdx (2 ^ (j + 1) - 1) a0.length (2 ^ (j + 2)) :=
        fun hc => hsep.2 ((hidx _).mp hc).1
      simp only [hL, h2 i, h1 _ hm, h1 _ hpl])
  simp only at hspec
  obtain ⟨s1, s2, s3, s4⟩ := hspec
  rw [levelStep_eq]
  simp only
  generalize hA : (stepIdx (2 ^ (j + 1) - 1) a0.length (2 ^ (j + 2))).foldl
    (fun a i => setMx a i (hL a0.length (2 ^ j) lastV a i)) a = A at *
  -- the new bound for all levels ≤ j+1
  have ub' : ∀ k' x, k' ≤ j + 1 → Node k' x → x < a0.length → ∀ jj, x + 1 - 2 ^ k' ≤ jj → jj < x + 2 ^ k' →
      jj < a0.length → (getC a0 jj).e.hi ≤ (getC A x).mx := by
    intro k' x hk hnode hx jj h1 h2 h3
    by_cases hk' : k' ≤ j
    · have hni : x ∉ stepIdx (2 ^ (j + 1) - 1) a0.length (2 ^ (j + 2)) := by
        intro hc
        have := node_level_unique hnode ((hidx x).mp hc).1
        omega
      rw [s3 x hni]
      exact ub k' x hk' hnode hx jj h1 h2 h3
    · have hk2 : k' = j + 1 := by omega
      subst hk2
      have hmem := (hidx x).mpr ⟨hnode, hx⟩
      rw [s4 x hmem (by rw [len]; exact hx)]
      have hge := node_ge hnode
      obtain ⟨m1, m2, m3⟩ := max3_ge (getC a x).e.hi (getC a (x - 2 ^ j)).mx
        (if x + 2 ^ j < a0.length then (getC a (x + 2 ^ j)).mx else lastV)
      simp only [hL]
      rcases Nat.lt_trichotomy jj x with hlt | heq | hgt
      · have := ub j (x - 2 ^ j) (Nat.le_refl _) (node_left hnode) (by omega) jj (by omega) (by omega) h3
        omega
      · subst heq
        have hs : (getC a jj).e.hi = (getC a0 jj).e.hi := by rw [same]
        omega
      · by_cases hr : x + 2 ^ j < a0.length
        · have := ub j (x + 2 ^ j) (Nat.le_refl _) (node_right hnode) hr jj (by omega) (by omega) h3
          simp only [hr, if_true] at m3 ⊢
          omega
        · simp only [hr, if_false] at m3 ⊢
          have hodd := node_succ_odd hnode
          have hLl : lastLeaf a0.length < a0.length := by unfold lastLeaf; omega
          have hLg : x + 1 ≤ lastLeaf a0.length := by unfold lastLeaf; omega
          have hEq : lastI = x + 2 ^ j :=
            node_unique j lastI (x + 2 ^ j) (lastLeaf a0.length) lnode (node_right hnode) lrange.1 lrange.2
              (by omega) (by omega)
          have := lval jj (by omega) (by omega) h3
          omega
  -- the parent of last_i
  have hpar := parent_generic lastI (2 ^ j) hp (by unfold Node at lnode; rw [e2] at lnode; exact lnode)
  have e1' : 2 ^ (j + 1 + 1) = 4 * 2 ^ j := e1
  have hLl : lastLeaf a0.length < a0.length := by unfold lastLeaf; omega
  by_cases hc : lastI / 2 ^ (j + 1) % 2 > 0
  · -- last_i is a right child: the parent is last_i - x, always in range
    have hc' : lastI / (2 * 2 ^ j) % 2 > 0 := by rw [← e2]; exact hc
    simp only [hc', if_true] at hpar
    simp only [hc, if_true]
    have hnode' : Node (j + 1) (lastI - 2 ^ j) := by unfold Node; rw [e1', e2]; exact hpar.1
    have hnew : lastI - 2 ^ j < a0.length := by omega
    refine ⟨by simp only; rw [s1, len], by intro i; simp only; rw [s2, same], ub', hnode', by simp only; omega, ?_⟩
    intro jj h1 h2 h3
    simp only at h1 h2 ⊢
    have hb := ub' (j + 1) (lastI - 2 ^ j) (Nat.le_refl _) hnode' hnew jj h1 h2 h3
    split
    · exact hb
    · rename_i hcond
      have : ¬ (getC A (lastI - 2 ^ j)).mx > lastV := fun hgt => hcond ⟨hnew, hgt⟩
      omega
  · have hc' : ¬ lastI / (2 * 2 ^ j) % 2 > 0 := by rw [← e2]; exact hc
    simp only [hc', if_false] at hpar
    simp only [hc, if_false]
    have hnode' : Node (j + 1) (lastI + 2 ^ j) := by unfold Node; rw [e1', e2]; exact hpar
    refine ⟨by simp only; rw [s1, len], by intro i; simp only; rw [s2, same], ub', hnode', by simp only; omega, ?_⟩
    intro jj h1 h2 h3
    simp only at h1 h2 ⊢
    by_cases hnew : lastI + 2 ^ j < a0.length
    · have hb := ub' (j + 1) (lastI + 2 ^ j) (Nat.le_refl _) hnode' hnew jj h1 h2 h3
      split
      · exact hb
      · rename_i hcond
        have : ¬ (getC A (lastI + 2 ^ j)).mx > lastV := fun hgt => hcond ⟨hnew, hgt⟩
        omega
    · have hcond : ¬ (lastI + 2 ^ j < a0.length ∧ (getC A (lastI + 2 ^ j)).mx > lastV) := fun h => hnew h.1
      simp only [hcond, if_false]
      exact lval jj (by omega) (by omega) h3


/-! ## `index_core`, all levels; `index`; whole histories -/

theorem linv_levels (a0 : List Cell) (hn : 0 < a0.length) : ∀ m,
    LInv a0 m ((List.range' 1 m).foldl (levelStep a0.length) (level0 a0 a0.length))
  | 0 => linv_base a0 hn
  | m + 1 => by
    have ih := linv_levels a0 hn m
    rw [List.range'_concat, List.foldl_append]
    simp only [List.foldl_cons, List.foldl_nil, Nat.one_mul]
    generalize (List.range' 1 m).foldl (levelStep a0.length) (level0 a0 a0.length) = st at ih ⊢
    obtain ⟨a, li, lv⟩ := st
    rw [Nat.add_comm 1 m]
    exact linv_step a0 m a li lv hn ih

theorem map_e_eq (a b : List Cell) (hl : a.length = b.length) (h : ∀ j, (getC a j).e = (getC b j).e) :
    a.map (·.e) = b.map (·.e) := by
  apply List.ext_getElem (by simp [hl])
  intro i h1 h2
  simp only [List.length_map] at h1 h2
  simp only [List.getElem_map]
  have := h i
  simp only [getC, List.getElem?_eq_getElem h1, List.getElem?_eq_getElem h2, Option.getD_some] at this
  exact this

theorem sortedC_iff_map (a : List Cell) : SortedC a ↔ (a.map (·.e)).Pairwise (fun x y => x.lo ≤ y.lo) := by
  unfold SortedC; rw [List.pairwise_map]

/-- what `index_core` establishes, for every n and whatever the `max` fields held before -/
theorem indexCore_spec (a0 : List Cell) (ml : Nat) (hs : SortedC a0) :
    (indexCore a0 ml).1.map (·.e) = a0.map (·.e) ∧ SortedC (indexCore a0 ml).1 ∧ MaxUB (indexCore a0 ml).1 ∧
      (indexCore a0 ml).1.length < 2 ^ ((indexCore a0 ml).2 + 1) := by
  unfold indexCore
  by_cases he : a0.isEmpty
  · simp only [he, if_true]
    have : a0 = [] := by simpa using he
    subst this
    refine ⟨by first | trivial | rfl, hs, ?_, by simp; exact two_pow_pos _⟩
    intro k x _ hx; simp at hx
  · simp only [he, Bool.false_eq_true, if_false]
    have hn : 0 < a0.length := by
      cases a0 with
      | nil => simp at he
      | cons c cs => simp
    have inv := linv_levels a0 hn (Nat.log2 a0.length)
    generalize (List.range' 1 (Nat.log2 a0.length)).foldl (levelStep a0.length) (level0 a0 a0.length) = st at inv ⊢
    obtain ⟨len, same, ub, _, _, _⟩ := inv
    have hmap := map_e_eq st.1 a0 len same
    refine ⟨hmap, ?_, ?_, ?_⟩
    · rw [sortedC_iff_map, hmap, ← sortedC_iff_map]; exact hs
    · intro k x hnode hx j h1 h2 h3
      rw [len] at hx h3
      have hk : k ≤ Nat.log2 a0.length := by
        rw [Nat.le_log2 (by omega)]
        have := node_ge hnode
        omega
      have := ub k x hk hnode hx j h1 h2 h3
      have hs' : (getC st.1 j).e.hi = (getC a0 j).e.hi := by rw [same]
      omega
    · rw [len]
      exact Nat.lt_log2_self

theorem sortByStart_perm (a : List Cell) : (sortByStart a).Perm a := List.mergeSort_perm _ _

theorem sortByStart_sorted (a : List Cell) : SortedC (sortByStart a) := by
  unfold SortedC sortByStart
  have := List.pairwise_mergeSort (le := fun c d : Cell => decide (c.e.lo ≤ d.e.lo))
    (by intro a b c; simp only [decide_eq_true_eq]; omega)
    (by intro a b; simp only [Bool.or_eq_true, decide_eq_true_eq]; omega) a
  exact this.imp (by intro a b h; simpa using h)

/-- well-formed state: if it claims to be indexed, the search invariants hold -/
def State.WF (s : State) : Prop :=
  s.indexed = true → SortedC s.entries ∧ MaxUB s.entries ∧ s.entries.length < 2 ^ (s.maxLevel + 1)

/-- the stored entries -/
def State.stored (s : State) : List Entry := s.entries.map (·.e)

theorem wf_empty : State.WF {} := by intro h; simp at h

theorem wf_insert (s : State) (e : Entry) : (s.insert e).WF := by intro h; simp [State.insert] at h

theorem stored_insert (s : State) (e : Entry) : (s.insert e).stored = s.stored ++ [e] := by
  simp [State.insert, State.stored]

theorem wf_index (s : State) (h : s.WF) : s.index.WF ∧ s.index.indexed = true ∧ s.index.stored.Perm s.stored := by
  unfold State.index
  by_cases hi : s.indexed
  · simp only [hi, if_true]; exact ⟨h, by first | trivial | exact hi, List.Perm.refl _⟩
  · simp only [hi, Bool.false_eq_true, if_false]
    obtain ⟨h1, h2, h3, h4⟩ := indexCore_spec (sortByStart s.entries) s.maxLevel (sortByStart_sorted _)
    refine ⟨fun _ => ⟨h2, h3, h4⟩, by first | trivial | rfl, ?_⟩
    simp only [State.stored]
    rw [h1]
    exact (sortByStart_perm s.entries).map _

/-- an indexed, well-formed state answers exactly (as a list: in index order); an un-indexed one refuses -/
theorem find_spec (s : State) (q : Query) (h : s.WF) :
    s.find q = if s.indexed then some (expected s.stored q) else none := by
  unfold State.find
  by_cases hi : s.indexed
  · obtain ⟨h1, h2, h3⟩ := h hi
    simp only [hi, Bool.not_true, Bool.false_eq_true, if_false, if_true]
    rw [find_eq s.entries s.maxLevel q h1 h2 h3]
    rfl
  · simp [hi]

inductive AOp where
  | ins (e : Entry)
  | index

def runArr : List AOp → State → State
  | [], s => s
  | .ins e :: ops, s => runArr ops (s.insert e)
  | .index :: ops, s => runArr ops s.index

/-- the inserted entries, in insertion order -/
def insertedOf : List AOp → List Entry
  | [] => []
  | .ins e :: ops => e :: insertedOf ops
  | .index :: ops => insertedOf ops

/-- `true` iff the history ends in an indexed state (the last operation that matters is `index`) -/
def endsIndexed : List AOp → Bool → Bool
  | [], b => b
  | .ins _ :: ops, _ => endsIndexed ops false
  | .index :: ops, _ => endsIndexed ops true

theorem runArr_spec : ∀ (ops : List AOp) (s : State), s.WF →
    (runArr ops s).WF ∧ (runArr ops s).stored.Perm (s.stored ++ insertedOf ops) ∧
      (runArr ops s).indexed = endsIndexed ops s.indexed
  | [], s, h => ⟨h, by simp [runArr, insertedOf], rfl⟩
  | .ins e :: ops, s, _ => by
    obtain ⟨i1, i2, i3⟩ := runArr_spec ops (s.insert e) (wf_insert s e)
    refine ⟨i1, ?_, ?_⟩
    · rw [stored_insert] at i2
      simpa [runArr, insertedOf] using i2
    · simpa [runArr, endsIndexed, State.insert] using i3
  | .index :: ops, s, h => by
    obtain ⟨w1, w2, w3⟩ := wf_index s h
    obtain ⟨i1, i2, i3⟩ := runArr_spec ops s.index w1
    refine ⟨i1, ?_, ?_⟩
    · simp only [runArr, insertedOf]
      exact i2.trans (List.Perm.append_right _ w3)
    · simp only [runArr, endsIndexed]
      rw [i3, w2]

end RbV.Iit
