import RbV.Spec.SufOrder
/-
SA-IS, first mechanism: the L/S typing of positions (`PosTypes::new` in suffix_array.rs).

```
pos_types[n-1] = S
for p in (0..n-1).rev() {
    if text[p] == text[p+1] { pos_types[p] = pos_types[p+1] } else { pos_types[p] = text[p] < text[p+1] }
}
```
`posTypes_spec`: for a text whose last symbol occurs nowhere else, position p is typed S (true) iff its suffix is
smaller than the suffix at p+1.  This is the part of SA-IS that is proved here; the induced sorting itself is NOT
modelled (see `RbV/Thm/C03.lean`, `sais_postypes_partial`).
-/
namespace RbV.PosTypes
open RbV

/-- types of the positions of `ks`, computed from the right; `true` = S-type -/
def posTypes : List Nat → List Bool
  | [] => []
  | [_] => [true]
  | a :: b :: rest =>
    match posTypes (b :: rest) with
    | [] => []      -- unreachable: the recursive result has the length of its argument
    | tb :: ts => (if a = b then tb else decide (a < b)) :: tb :: ts

theorem length_posTypes : ∀ ks : List Nat, (posTypes ks).length = ks.length
  | [] => rfl
  | [_] => rfl
  | a :: b :: rest => by
    have ih := length_posTypes (b :: rest)
    simp only [posTypes]
    cases h : posTypes (b :: rest) with
    | nil => rw [h] at ih; simp at ih
    | cons tb ts => rw [h] at ih; simp only [List.length_cons] at ih ⊢; omega

/-- the head type of a list whose last symbol is not repeated: S iff the list is smaller than its tail -/
theorem head_spec : ∀ (ks : List Nat), ks ≠ [] →
    (∀ i, i + 1 < ks.length → ks.getD i 0 ≠ ks.getD (ks.length - 1) 0) →
    (posTypes ks).head? = some (decide (lexLt ks ks.tail) || decide (ks.length = 1))
  | [], h, _ => absurd rfl h
  | [a], _, _ => by simp [posTypes, lexLt]
  | a :: b :: rest, _, hu => by
    have hu' : ∀ i, i + 1 < (b :: rest).length → (b :: rest).getD i 0 ≠ (b :: rest).getD ((b :: rest).length - 1) 0 := by
      intro i hi
      have := hu (i + 1) (by simp at hi ⊢; omega)
      simpa using this
    have ih := head_spec (b :: rest) (by simp) hu'
    simp only [posTypes]
    cases h : posTypes (b :: rest) with
    | nil => rw [h] at ih; simp at ih
    | cons tb ts =>
      rw [h] at ih
      simp only [List.head?_cons, Option.some.injEq] at ih
      simp only [List.head?_cons, List.tail_cons, Option.some.injEq, List.length_cons]
      have hlen : ¬ (rest.length + 1 + 1 = 1) := by omega
      simp only [hlen, decide_false, Bool.or_false]
      by_cases hab : a = b
      · subst hab
        rw [if_pos rfl, ih]
        -- `rest` is non-empty, otherwise the last symbol `a` would be repeated
        cases rest with
        | nil =>
          have := hu 0 (by simp)
          simp at this
        | cons c rest' =>
          simp [lexLt]
      · rw [if_neg hab]
        simp only [lexLt]
        by_cases hlt : a < b
        · simp [hlt]
        · have : ¬ (a = b ∧ lexLt (b :: rest) rest) := fun hh => hab hh.1
          simp [hlt, hab]

/-- **L/S typing is correct**: in a text whose last symbol occurs nowhere else, `posTypes[p]` is `true` (S-type)
exactly when suffix p is smaller than suffix p+1 (and for the last position). -/
theorem posTypes_spec (ks : List Nat)
    (hu : ∀ i, i + 1 < ks.length → ks.getD i 0 ≠ ks.getD (ks.length - 1) 0) (p : Nat) (hp : p < ks.length) :
    (posTypes ks)[p]? = some (decide (lexLt (ks.drop p) (ks.drop (p + 1))) || decide (p + 1 = ks.length)) := by
  induction ks generalizing p with
  | nil => simp at hp
  | cons a l ih =>
    cases p with
    | zero =>
      have := head_spec (a :: l) (by simp) hu
      rw [List.head?_eq_getElem?] at this
      rw [this]
      have e1 : (a :: l).drop 0 = a :: l := rfl
      have e2 : (a :: l).drop (0 + 1) = (a :: l).tail := rfl
      have e3 : decide (0 + 1 = (a :: l).length) = decide ((a :: l).length = 1) :=
        decide_eq_decide.mpr ⟨fun h => h.symm, fun h => h.symm⟩
      rw [e1, e2, e3]
    | succ p =>
      cases l with
      | nil => simp at hp
      | cons b rest =>
        have hu' : ∀ i, i + 1 < (b :: rest).length →
            (b :: rest).getD i 0 ≠ (b :: rest).getD ((b :: rest).length - 1) 0 := by
          intro i hi
          have := hu (i + 1) (by simp at hi ⊢; omega)
          simpa using this
        have ih' := ih hu' p (by simpa using hp)
        simp only [posTypes]
        cases h : posTypes (b :: rest) with
        | nil =>
          have := length_posTypes (b :: rest)
          rw [h] at this; simp at this
        | cons tb ts =>
          rw [h] at ih'
          rw [List.getElem?_cons_succ, ih']
          simp

end RbV.PosTypes
