import RbV.Model.FMDRev
import RbV.Basic.Sorted
/-!
# Strand symmetry of an FMD text (C06 [C])

Occurrence counts in `fmdText seqs` are invariant under reverse complement; this discharges the hypothesis `hsym` of
`FMDModel.backwardExt_reverse_fmd`.
-/
namespace RbV.FMDSym
open RbV RbV.BSModel RbV.LF RbV.FMDModel

/-! ### occurrences, pointwise -/

theorem occursAt_iff_get (W X : List Nat) (p : Nat) :
    OccursAt W X p ↔ p + W.length ≤ X.length ∧ ∀ k, k < W.length → X[p + k]? = W[k]? := by
  unfold OccursAt
  constructor
  · rintro ⟨h1, h2⟩
    refine ⟨h1, fun k hk => ?_⟩
    have : ((X.drop p).take W.length)[k]? = W[k]? := by rw [h2]
    rw [List.getElem?_take, if_pos hk, List.getElem?_drop] at this
    exact this
  · rintro ⟨h1, h2⟩
    refine ⟨h1, ?_⟩
    apply List.ext_getElem?
    intro k
    rw [List.getElem?_take]
    by_cases hk : k < W.length
    · rw [if_pos hk, List.getElem?_drop]; exact h2 k hk
    · rw [if_neg hk]; exact (List.getElem?_eq_none (by omega)).symm

theorem dnaCompl_invol (c : Nat) : dnaCompl (dnaCompl c) = c := by
  by_cases h1 : c = 65
  · subst h1; decide
  by_cases h2 : c = 84
  · subst h2; decide
  by_cases h3 : c = 67
  · subst h3; decide
  by_cases h4 : c = 71
  · subst h4; decide
  by_cases h5 : c = 97
  · subst h5; decide
  by_cases h6 : c = 116
  · subst h6; decide
  by_cases h7 : c = 99
  · subst h7; decide
  by_cases h8 : c = 103
  · subst h8; decide
  have : dnaCompl c = c := by simp [dnaCompl, h1, h2, h3, h4, h5, h6, h7, h8]
  rw [this, this]

theorem revcomp_length (s : List Nat) : (revcomp s).length = s.length := by simp [revcomp]

theorem revcomp_revcomp (s : List Nat) : revcomp (revcomp s) = s := by
  simp only [revcomp, List.map_reverse, List.reverse_reverse, List.map_map]
  conv => rhs; rw [← List.map_id s]
  apply List.map_congr_left
  intro c _
  simp [dnaCompl_invol]

theorem revcomp_append (x y : List Nat) : revcomp (x ++ y) = revcomp y ++ revcomp x := by
  simp [revcomp]

theorem revcomp_get (X : List Nat) (j : Nat) (hj : j < X.length) :
    (revcomp X)[j]? = (X[X.length - 1 - j]?).map dnaCompl := by
  unfold revcomp
  rw [List.getElem?_map, List.getElem?_reverse hj]

/-- an occurrence of `W` at `p` is an occurrence of `revcomp W` at the mirrored position of `revcomp X` -/
theorem occursAt_revcomp (W X : List Nat) (p : Nat) (h : OccursAt W X p) :
    OccursAt (revcomp W) (revcomp X) (X.length - W.length - p) := by
  rw [occursAt_iff_get] at h ⊢
  obtain ⟨h1, h2⟩ := h
  simp only [revcomp_length]
  refine ⟨by omega, fun k hk => ?_⟩
  rw [revcomp_get X _ (by omega), revcomp_get W _ hk]
  have e : X.length - 1 - (X.length - W.length - p + k) = p + (W.length - 1 - k) := by omega
  rw [e, h2 _ (by omega)]

theorem occurrences_nodup (W X : List Nat) : (occurrences W X).Nodup :=
  List.nodup_iff_pairwise_ne.mpr ((occurrences_sorted W X).imp (fun h => Nat.ne_of_lt h))

/-- reversal does not change the number of occurrences -/
theorem occurrences_revcomp_length (W X : List Nat) :
    (occurrences W X).length = (occurrences (revcomp W) (revcomp X)).length := by
  have hmapnd : ((occurrences W X).map (fun p => X.length - W.length - p)).Nodup := by
    rw [List.nodup_iff_pairwise_ne, List.pairwise_map]
    apply (occurrences_sorted W X).imp_of_mem
    intro a b ha hb hab
    have h1 := ((mem_occurrences W X a).mp ha).1
    have h2 := ((mem_occurrences W X b).mp hb).1
    omega
  have hperm : ((occurrences W X).map (fun p => X.length - W.length - p)).Perm
      (occurrences (revcomp W) (revcomp X)) := by
    rw [List.perm_ext_iff_of_nodup hmapnd (occurrences_nodup _ _)]
    intro q
    simp only [List.mem_map, mem_occurrences]
    constructor
    · rintro ⟨p, hp, rfl⟩; exact occursAt_revcomp W X p hp
    · intro hq
      have := occursAt_revcomp _ _ q hq
      simp only [revcomp_revcomp, revcomp_length] at this
      refine ⟨_, this, ?_⟩
      have hb := hq.1
      simp only [revcomp_length] at hb
      omega
  have := hperm.length_eq
  simpa using this

/-! ### occurrences in a concatenation whose first part ends with the sentinel -/

/-- `V` (length ≥ 2, no sentinel except possibly at its end) cannot straddle the sentinel that ends `X` -/
theorem occursAt_append (V X Y : List Nat) (hV2 : 2 ≤ V.length)
    (hVns : ∀ k, k + 1 < V.length → V[k]? ≠ some 36)
    (hXl : 0 < X.length) (hlast : X[X.length - 1]? = some 36) (p : Nat) :
    OccursAt V (X ++ Y) p ↔ (OccursAt V X p ∨ (X.length ≤ p ∧ OccursAt V Y (p - X.length))) := by
  simp only [occursAt_iff_get, List.length_append]
  constructor
  · rintro ⟨h1, h2⟩
    by_cases hA : p + V.length ≤ X.length
    · left
      refine ⟨hA, fun k hk => ?_⟩
      have := h2 k hk
      rw [List.getElem?_append_left (by omega)] at this
      exact this
    · by_cases hB : X.length ≤ p
      · right
        refine ⟨hB, by omega, fun k hk => ?_⟩
        have := h2 k hk
        rw [List.getElem?_append_right (by omega)] at this
        rw [← this]; congr 1; omega
      · exfalso
        have hk0 : X.length - 1 - p < V.length := by omega
        have := h2 _ hk0
        have e : p + (X.length - 1 - p) = X.length - 1 := by omega
        rw [e, List.getElem?_append_left (by omega), hlast] at this
        exact hVns _ (by omega) this.symm
  · rintro (⟨h1, h2⟩ | ⟨hB, h1, h2⟩)
    · refine ⟨by omega, fun k hk => ?_⟩
      rw [List.getElem?_append_left (by omega)]; exact h2 k hk
    · refine ⟨by omega, fun k hk => ?_⟩
      rw [List.getElem?_append_right (by omega), ← h2 k hk]
      congr 1; omega

theorem occurrences_append_length (V X Y : List Nat) (hV2 : 2 ≤ V.length)
    (hVns : ∀ k, k + 1 < V.length → V[k]? ≠ some 36)
    (hXl : 0 < X.length) (hlast : X[X.length - 1]? = some 36) :
    (occurrences V (X ++ Y)).length = (occurrences V X).length + (occurrences V Y).length := by
  have heq : occurrences V (X ++ Y) = occurrences V X ++ (occurrences V Y).map (· + X.length) := by
    apply sorted_eq_of_mem_iff _ _ (occurrences_sorted _ _)
    · rw [List.pairwise_append]
      refine ⟨occurrences_sorted _ _, ?_, ?_⟩
      · rw [List.pairwise_map]
        exact (occurrences_sorted _ _).imp (fun h => by omega)
      · intro a ha b hb
        have h1 := ((mem_occurrences _ _ a).mp ha).1
        simp only [List.mem_map] at hb
        obtain ⟨b', _, rfl⟩ := hb
        omega
    · intro i
      rw [mem_occurrences, occursAt_append V X Y hV2 hVns hXl hlast i]
      simp only [List.mem_append, List.mem_map, mem_occurrences]
      constructor
      · rintro (h | ⟨h1, h2⟩)
        · exact Or.inl h
        · exact Or.inr ⟨_, h2, by omega⟩
      · rintro (h | ⟨b', h2, rfl⟩)
        · exact Or.inl h
        · exact Or.inr ⟨by omega, by simpa using h2⟩
  rw [heq]; simp

/-! ### blocks of an FMD text -/

def block (s : List Nat) : List Nat := s ++ [fmdSentinel] ++ revcomp s ++ [fmdSentinel]

theorem fmdText_cons (s : List Nat) (rest : List (List Nat)) : fmdText (s :: rest) = block s ++ fmdText rest := by
  simp [fmdText, block]

theorem fmdText_append (a b : List (List Nat)) : fmdText (a ++ b) = fmdText a ++ fmdText b := by
  simp [fmdText]

theorem block_pos (s : List Nat) : 0 < (block s).length := by simp [block]; omega

theorem block_last (s : List Nat) : (block s)[(block s).length - 1]? = some 36 := by
  have h : (block s).length - 1 = (s ++ [fmdSentinel] ++ revcomp s).length := by simp [block]
  rw [h]
  unfold block
  rw [List.getElem?_append_right (Nat.le_refl _)]
  simp [fmdSentinel]

theorem occurrences_short (V X : List Nat) (h : X.length < V.length) : occurrences V X = [] := by
  apply List.eq_nil_iff_forall_not_mem.mpr
  intro i hi
  have := ((mem_occurrences V X i).mp hi).1
  omega

def blockCount (V : List Nat) (seqs : List (List Nat)) : Nat :=
  (seqs.map (fun s => (occurrences V (block s)).length)).sum

theorem fmd_count (V : List Nat) (hV2 : 2 ≤ V.length) (hVns : ∀ k, k + 1 < V.length → V[k]? ≠ some 36)
    (seqs : List (List Nat)) : (occurrences V (fmdText seqs)).length = blockCount V seqs := by
  induction seqs with
  | nil =>
    have : fmdText [] = [] := by simp [fmdText]
    rw [this, occurrences_short V [] (by simp; omega)]
    simp [blockCount]
  | cons s rest ih =>
    rw [fmdText_cons, occurrences_append_length V (block s) (fmdText rest) hV2 hVns (block_pos s) (block_last s), ih]
    simp [blockCount]

theorem blockCount_reverse (V : List Nat) (seqs : List (List Nat)) :
    blockCount V seqs.reverse = blockCount V seqs := by
  simp [blockCount, List.map_reverse, List.sum_reverse]

theorem revcomp_single : revcomp [36] = [36] := by decide

theorem revcomp_block (s : List Nat) : revcomp (block s) ++ [36] = 36 :: block s := by
  unfold block
  simp only [revcomp_append, revcomp_revcomp, fmdSentinel, revcomp_single]
  simp

theorem revcomp_fmdText (seqs : List (List Nat)) :
    revcomp (fmdText seqs) ++ [36] = 36 :: fmdText seqs.reverse := by
  induction seqs with
  | nil => simp [fmdText, revcomp]
  | cons s rest ih =>
    rw [fmdText_cons, revcomp_append, List.append_assoc, revcomp_block, List.reverse_cons, fmdText_append]
    have : revcomp (fmdText rest) ++ 36 :: block s = (revcomp (fmdText rest) ++ [36]) ++ block s := by simp
    rw [this, ih]
    simp [fmdText, block]

theorem dnaCompl_eq_sentinel (c : Nat) (h : dnaCompl c = 36) : c = 36 := by
  have := dnaCompl_invol c
  rw [h] at this
  rw [← this]; decide

/-- **Strand symmetry.**  For a string `W` of length ≥ 2 whose symbols after the first are not the sentinel, the
number of occurrences in `$·T` (i.e. in `T` with the cyclic predecessor of position 0) equals the number of
occurrences of its reverse complement in `T = fmdText seqs`. -/
theorem strand_symmetry (seqs : List (List Nat)) (W : List Nat) (hW2 : 2 ≤ W.length)
    (hWns : ∀ k, 1 ≤ k → k < W.length → W[k]? ≠ some 36) :
    (occurrences W (36 :: fmdText seqs)).length = (occurrences (revcomp W) (fmdText seqs)).length := by
  have hV2 : 2 ≤ (revcomp W).length := by rw [revcomp_length]; exact hW2
  have hVns : ∀ k, k + 1 < (revcomp W).length → (revcomp W)[k]? ≠ some 36 := by
    intro k hk
    rw [revcomp_length] at hk
    rw [revcomp_get W k (by omega)]
    intro h
    have hidx : W.length - 1 - k < W.length := by omega
    rw [List.getElem?_eq_getElem hidx] at h
    simp only [Option.map_some, Option.some.injEq] at h
    have := dnaCompl_eq_sentinel _ h
    apply hWns (W.length - 1 - k) (by omega) hidx
    rw [List.getElem?_eq_getElem hidx, this]
  rw [occurrences_revcomp_length W (36 :: fmdText seqs)]
  have e : revcomp (36 :: fmdText seqs) = [36] ++ fmdText seqs.reverse := by
    have : (36 :: fmdText seqs) = [36] ++ fmdText seqs := rfl
    rw [this, revcomp_append, revcomp_single, revcomp_fmdText]; rfl
  rw [e, occurrences_append_length (revcomp W) [36] _ hV2 hVns (by simp) (by simp),
    occurrences_short (revcomp W) [36] (by simp; omega),
    fmd_count _ hV2 hVns, blockCount_reverse, ← fmd_count _ hV2 hVns]
  simp

/-! ### from rows to positions -/

theorem cntOf_eq (t sa : List Nat) (iv : Bi) (b : Nat) (hpos : 0 < iv.size) :
    cntOf (occRef (bwtOf t sa)) iv b =
      (ivMap sa iv.lower (iv.lower + iv.size)).countP (fun p => bwSym t p == b) := by
  have e1 : occRef (bwtOf t sa) (iv.lower + iv.size - 1) b = ((bwtOf t sa).take (iv.lower + iv.size)).count b := by
    unfold occRef; congr 2; omega
  have e2 : (if iv.lower = 0 then 0 else occRef (bwtOf t sa) (iv.lower - 1) b) = ((bwtOf t sa).take iv.lower).count b := by
    split
    · rename_i h; rw [h]; simp
    · unfold occRef; congr 2; omega
  unfold cntOf
  rw [e1, e2, List.take_add, List.count_append, Nat.add_sub_cancel_left]
  unfold bwtOf ivMap
  rw [← List.map_drop, ← List.map_take, List.count_eq_countP, List.countP_map, Nat.add_sub_cancel_left]
  rfl

theorem ivMap_perm (t sa P : List Nat) (lo hi : Nat) (hperm : sa.Perm (List.range t.length)) (hP : P ≠ [])
    (hiv : IvOf t sa P lo hi) : (ivMap sa lo hi).Perm (occurrences P t) := by
  have hnd : (ivMap sa lo hi).Nodup :=
    (sa_nodup hperm).sublist ((List.take_sublist _ _).trans (List.drop_sublist _ _))
  rw [List.perm_ext_iff_of_nodup hnd (occurrences_nodup _ _)]
  intro i
  rw [mem_occurrences]
  exact (ivOf_mapsTo t sa P lo hi (surj_of_perm hperm) hP hiv).2.2 i

theorem ivMap_eq_map (sa : List Nat) (L S : Nat) (h : L + S ≤ sa.length) :
    ivMap sa L (L + S) = (List.range S).map (fun i => sa.getD (L + i) 0) := by
  unfold ivMap
  apply List.ext_getElem?
  intro k
  rw [Nat.add_sub_cancel_left, List.getElem?_take, List.getElem?_map]
  · by_cases hk : k < S
    · rw [if_pos hk, List.getElem?_drop]
      have : L + k < sa.length := by omega
      simp [List.getD_eq_getElem?_getD, List.getElem?_eq_getElem this, List.getElem?_range hk]
    · rw [if_neg hk]
      have : (List.range S)[k]? = none := List.getElem?_eq_none (by simp; omega)
      simp [this]

/-! ### from positions to occurrences of the extended strings -/

theorem occursAt_shift (P T : List Nat) (x p : Nat) : OccursAt P (x :: T) (p + 1) ↔ OccursAt P T p := by
  simp only [occursAt_iff_get, List.length_cons]
  constructor
  · rintro ⟨h1, h2⟩
    refine ⟨by omega, fun k hk => ?_⟩
    have := h2 k hk
    have e : p + 1 + k = (p + k) + 1 := by omega
    rw [e, List.getElem?_cons_succ] at this; exact this
  · rintro ⟨h1, h2⟩
    refine ⟨by omega, fun k hk => ?_⟩
    have e : p + 1 + k = (p + k) + 1 := by omega
    rw [e, List.getElem?_cons_succ]; exact h2 k hk

theorem count_prev (T P : List Nat) (b : Nat) (hP : P ≠ []) (hTl : 0 < T.length)
    (hlast : T.getD (T.length - 1) 0 = 36) :
    (occurrences P T).countP (fun p => bwSym T p == b) = (occurrences (b :: P) (36 :: T)).length := by
  rw [List.countP_eq_length_filter]
  congr 1
  apply sorted_eq_of_mem_iff _ _ ((occurrences_sorted P T).filter _) (occurrences_sorted _ _)
  intro p
  simp only [List.mem_filter, mem_occurrences, beq_iff_eq]
  rw [occursAt_cons_iff, occursAt_shift]
  have hprev : (36 :: T).getD p 0 = bwSym T p := by
    cases p with
    | zero => simp only [bwSym, Nat.lt_irrefl, if_false, hlast]; simp
    | succ q => simp [bwSym]
  rw [hprev]
  constructor
  · rintro ⟨h1, h2⟩
    have : p < T.length := by
      have := h1.1
      cases P with
      | nil => exact absurd rfl hP
      | cons a q => simp only [List.length_cons] at this; omega
    exact ⟨by simp; omega, h2, h1⟩
  · rintro ⟨_, h2, h1⟩; exact ⟨h1, h2⟩

theorem count_next (T Q : List Nat) (c : Nat) (hQ : Q ≠ []) (hlast : T.getD (T.length - 1) 0 = 36)
    (hQd : ∀ q ∈ Q, isDna q = true) :
    (occurrences Q T).countP (fun p => T.getD (p + Q.length) 0 == c) = (occurrences (Q ++ [c]) T).length := by
  rw [List.countP_eq_length_filter]
  congr 1
  apply sorted_eq_of_mem_iff _ _ ((occurrences_sorted Q T).filter _) (occurrences_sorted _ _)
  intro p
  simp only [List.mem_filter, mem_occurrences, beq_iff_eq]
  rw [occursAt_snoc]
  constructor
  · rintro ⟨h1, h2⟩
    have : p < T.length := by
      have := h1.1
      cases Q with
      | nil => exact absurd rfl hQ
      | cons a q => simp only [List.length_cons] at this; omega
    exact ⟨h1, fmd_next_exists T Q hlast hQd p this h1, h2⟩
  · rintro ⟨h1, _, h2⟩; exact ⟨h1, h2⟩

/-! ### strand symmetry in the form `backwardExt_reverse_fmd` needs -/

theorem hsym_of_fmd (seqs : List (List Nat)) (sa P : List Nat) (iv : Bi)
    (hne : seqs ≠ [])
    (hchk : sortedAllB (fmdText seqs) sa = true)
    (hP : P ≠ []) (hPd : ∀ q ∈ P, isDna q = true)
    (hfw : IvOf (fmdText seqs) sa P iv.lower (iv.lower + iv.size))
    (hrv : IvOf (fmdText seqs) sa (revcomp P) iv.lowerRev (iv.lowerRev + iv.size))
    (hpos : 0 < iv.size) :
    ∀ b ∈ order, cntOf (occRef (bwtOf (fmdText seqs) sa)) iv b =
      (List.range iv.size).countP
        (fun i => (fmdText seqs).getD (sa.getD (iv.lowerRev + i) 0 + (revcomp P).length) 0 == dnaCompl b) := by
  intro b _
  have hlast := fmd_last seqs hne
  have hperm : sa.Perm (List.range (fmdText seqs).length) := by
    simp only [sortedAllB, Bool.and_eq_true] at hchk
    exact List.isPerm_iff.mp hchk.1
  have hTl : 0 < (fmdText seqs).length := by
    cases seqs with
    | nil => exact absurd rfl hne
    | cons s rest => rw [fmdText_cons]; have := block_pos s; simp only [List.length_append]; omega
  have hQ : revcomp P ≠ [] := by
    intro h; apply hP; have := congrArg List.length h; rw [revcomp_length] at this
    exact List.length_eq_zero_iff.mp (by simpa using this)
  have hQd : ∀ q ∈ revcomp P, isDna q = true := by
    intro q hq
    simp only [revcomp, List.mem_map, List.mem_reverse] at hq
    obtain ⟨d, hd, rfl⟩ := hq
    exact isDna_compl d (hPd d hd)
  -- left side
  rw [cntOf_eq _ _ _ _ hpos, (ivMap_perm _ _ P _ _ hperm hP hfw).countP_eq,
    count_prev _ P b hP hTl hlast]
  -- right side
  have hR : (List.range iv.size).countP
      (fun i => (fmdText seqs).getD (sa.getD (iv.lowerRev + i) 0 + (revcomp P).length) 0 == dnaCompl b) =
      (ivMap sa iv.lowerRev (iv.lowerRev + iv.size)).countP
        (fun p => (fmdText seqs).getD (p + (revcomp P).length) 0 == dnaCompl b) := by
    rw [ivMap_eq_map sa _ _ hrv.2.1, List.countP_map]; rfl
  rw [hR, (ivMap_perm _ _ (revcomp P) _ _ hperm hQ hrv).countP_eq,
    count_next _ (revcomp P) (dnaCompl b) hQ hlast hQd]
  -- strand symmetry
  have hW2 : 2 ≤ (b :: P).length := by
    cases P with
    | nil => exact absurd rfl hP
    | cons a q => simp
  have hWns : ∀ k, 1 ≤ k → k < (b :: P).length → (b :: P)[k]? ≠ some 36 := by
    intro k hk1 hk2 h
    obtain ⟨k', rfl⟩ : ∃ k', k = k' + 1 := ⟨k - 1, by omega⟩
    rw [List.getElem?_cons_succ] at h
    have hk' : k' < P.length := by simp only [List.length_cons] at hk2; omega
    rw [List.getElem?_eq_getElem hk'] at h
    have := hPd _ (List.getElem_mem hk')
    simp only [Option.some.injEq] at h
    rw [h] at this
    exact absurd this (by decide)
  rw [strand_symmetry seqs (b :: P) hW2 hWns]
  have : revcomp (b :: P) = revcomp P ++ [dnaCompl b] := by simp [revcomp]
  rw [this]

/-! ### `backward_ext` and `forward_ext` are correct on every FMD index -/

/-- the two row intervals of a bi-interval hold exactly the rows of `P` and of `revcomp P` -/
def BiOf (T sa P : List Nat) (iv : Bi) : Prop :=
  IvOf T sa P iv.lower (iv.lower + iv.size) ∧ IvOf T sa (revcomp P) iv.lowerRev (iv.lowerRev + iv.size)

theorem order_mem_of_dna (a : Nat) (h : isDna a = true) : a ∈ order ∧ a ≠ 36 ∧ isDna (dnaCompl a) = true := by
  simp only [isDna, List.contains_iff_mem, List.mem_cons, List.not_mem_nil, or_false] at h
  rcases h with h | h | h | h | h | h | h | h | h | h <;> subst h <;> decide

/-- **`backward_ext` is correct**: on an index over `fmdText seqs` whose array passes `sortedAllB`, if `iv` is the
(non-empty) bi-interval of the non-empty DNA string `P`, then `backward_ext(iv, a)` is the bi-interval of `a·P`, for
every `a` of `ACGTNacgtn`. -/
theorem backwardExt_correct (seqs : List (List Nat)) (sa P : List Nat) (iv : Bi) (a : Nat)
    (hne : seqs ≠ []) (hseqs : ∀ s ∈ seqs, ∀ c ∈ s, isDna c = true)
    (hchk : sortedAllB (fmdText seqs) sa = true)
    (hP : P ≠ []) (hPd : ∀ q ∈ P, isDna q = true) (ha : isDna a = true)
    (hbi : BiOf (fmdText seqs) sa P iv) (hpos : 0 < iv.size) :
    BiOf (fmdText seqs) sa (a :: P)
      (backwardExt (lessRef (bwtOf (fmdText seqs) sa)) (occRef (bwtOf (fmdText seqs) sa)) iv a) := by
  obtain ⟨hao, ha36, _⟩ := order_mem_of_dna a ha
  obtain ⟨hfw, hrv⟩ := hbi
  have hlast := fmd_last seqs hne
  have hs : Sorted (fmdText seqs) sa a := sortedAllB_sound _ sa hchk a (by rw [hlast]; exact Ne.symm ha36)
  refine ⟨backwardExt_forward _ sa _ _ a P iv hao (lfStep_of_sorted hs) hfw hpos, ?_⟩
  have hQd : ∀ q ∈ revcomp P, isDna q = true := by
    intro q hq
    simp only [revcomp, List.mem_map, List.mem_reverse] at hq
    obtain ⟨d, hd, rfl⟩ := hq
    exact isDna_compl d (hPd d hd)
  have := backwardExt_reverse_fmd seqs sa (lessRef (bwtOf (fmdText seqs) sa)) (occRef (bwtOf (fmdText seqs) sa))
    a (revcomp P) iv hao hne hseqs hchk hQd hrv (hsym_of_fmd seqs sa P iv hne hchk hP hPd hfw hrv hpos)
  have e : revcomp (a :: P) = revcomp P ++ [dnaCompl a] := by simp [revcomp]
  rw [e]; exact this

theorem biOf_swapped (T sa P : List Nat) (iv : Bi) (h : BiOf T sa P iv) : BiOf T sa (revcomp P) (swapped iv) := by
  obtain ⟨h1, h2⟩ := h
  exact ⟨h2, by rw [revcomp_revcomp]; exact h1⟩

/-- **`forward_ext` is correct**: `forward_ext(iv, a)` is the bi-interval of `P·a` -/
theorem forwardExt_correct (seqs : List (List Nat)) (sa P : List Nat) (iv : Bi) (a : Nat)
    (hne : seqs ≠ []) (hseqs : ∀ s ∈ seqs, ∀ c ∈ s, isDna c = true)
    (hchk : sortedAllB (fmdText seqs) sa = true)
    (hP : P ≠ []) (hPd : ∀ q ∈ P, isDna q = true) (ha : isDna a = true)
    (hbi : BiOf (fmdText seqs) sa P iv) (hpos : 0 < iv.size) :
    BiOf (fmdText seqs) sa (P ++ [a])
      (forwardExt (lessRef (bwtOf (fmdText seqs) sa)) (occRef (bwtOf (fmdText seqs) sa)) iv a) := by
  obtain ⟨_, _, hca⟩ := order_mem_of_dna a ha
  have hQ : revcomp P ≠ [] := by
    intro h; apply hP; have := congrArg List.length h; rw [revcomp_length] at this
    exact List.length_eq_zero_iff.mp (by simpa using this)
  have hQd : ∀ q ∈ revcomp P, isDna q = true := by
    intro q hq
    simp only [revcomp, List.mem_map, List.mem_reverse] at hq
    obtain ⟨d, hd, rfl⟩ := hq
    exact isDna_compl d (hPd d hd)
  have h := backwardExt_correct seqs sa (revcomp P) (swapped iv) (dnaCompl a) hne hseqs hchk hQ hQd hca
    (biOf_swapped _ _ _ _ hbi) hpos
  have h' := biOf_swapped _ _ _ _ h
  have e : revcomp (dnaCompl a :: revcomp P) = P ++ [a] := by
    simp only [revcomp, List.reverse_cons, List.map_append, List.map_reverse, List.reverse_reverse, List.map_map,
      List.map_cons, List.map_nil, dnaCompl_invol]
    congr 1
    conv => rhs; rw [← List.map_id P]
    apply List.map_congr_left
    intro c _; simp [dnaCompl_invol]
  rw [e] at h'
  exact h'

/-- in the terms of the specification (`BiIntervalOf`, `RbV/Spec/FMD.lean`): sizes = number of occurrences, and both
intervals map to exactly the occurrences of the string / of its reverse complement -/
theorem biIntervalOf_of_biOf (T sa P : List Nat) (iv : Bi) (hperm : sa.Perm (List.range T.length)) (hP : P ≠ [])
    (h : BiOf T sa P iv) :
    BiIntervalOf T sa P ⟨iv.lower, iv.lower + iv.size, iv.lowerRev, iv.lowerRev + iv.size⟩ := by
  obtain ⟨h1, h2⟩ := h
  have hQ : revcomp P ≠ [] := by
    intro h; apply hP; have := congrArg List.length h; rw [revcomp_length] at this
    exact List.length_eq_zero_iff.mp (by simpa using this)
  have hl1 := (ivMap_perm T sa P _ _ hperm hP h1).length_eq
  have hl2 := (ivMap_perm T sa (revcomp P) _ _ hperm hQ h2).length_eq
  have hb1 := h1.2.1
  have hb2 := h2.2.1
  simp only [ivMap, List.length_take, List.length_drop] at hl1 hl2
  refine ⟨by simp, by simp, ?_, ?_, fun _ => ⟨ivOf_mapsTo T sa P _ _ (surj_of_perm hperm) hP h1,
    ivOf_mapsTo T sa _ _ _ (surj_of_perm hperm) hQ h2⟩⟩
  · simp only [Nat.add_sub_cancel_left]; omega
  · simp only [Nat.add_sub_cancel_left]; omega

/-! ### `init_interval_with` -/

theorem lessRef_succ (bwt : List Nat) (a : Nat) : lessRef bwt (a + 1) = lessRef bwt a + bwt.count a := by
  unfold lessRef
  rw [List.count_eq_countP]
  induction bwt with
  | nil => simp
  | cons x l ih =>
    simp only [List.countP_cons, ih, decide_eq_true_eq, beq_iff_eq]
    by_cases h1 : x < a
    · have : x < a + 1 := by omega
      have h2 : ¬ x = a := by omega
      simp [h1, this, h2]; omega
    · by_cases h2 : x = a
      · subst h2; simp; omega
      · have : ¬ x < a + 1 := by omega
        simp [h1, this, h2]

/-- the rows whose suffix starts with the single symbol `a` -/
theorem ivOf_single (t sa : List Nat) (a : Nat) (hs : Sorted t sa a) :
    IvOf t sa [a] (lessRef (bwtOf t sa) a) (lessRef (bwtOf t sa) a + (bwtOf t sa).count a) := by
  have hperm := hs.perm
  have h0 : IvOf t sa [] 0 sa.length := ivOf_nil t sa (fun row hrow => Nat.le_of_lt (sa_lt hperm row hrow))
  have := ivOf_step hs [] 0 sa.length h0
  have e0 : occLt (bwtOf t sa) 0 a = 0 := by simp [occLt]
  have e1 : occLt (bwtOf t sa) sa.length a = (bwtOf t sa).count a := by
    unfold occLt
    rw [List.take_of_length_le (by simp [bwtOf])]
  rw [e0, e1] at this
  simpa using this

theorem count_compl_map (l : List Nat) (a : Nat) : (l.map dnaCompl).count (dnaCompl a) = l.count a := by
  rw [List.count_eq_countP, List.countP_map, List.count_eq_countP]
  apply List.countP_congr
  intro x _
  simp only [Function.comp, beq_iff_eq]
  constructor
  · intro h; have := congrArg dnaCompl h; simpa [dnaCompl_invol] using this
  · intro h; rw [h]

theorem count_revcomp (l : List Nat) (a : Nat) : (revcomp l).count (dnaCompl a) = l.count a := by
  unfold revcomp
  rw [count_compl_map, List.count_reverse]

theorem count_fmdText (seqs : List (List Nat)) (c : Nat) :
    (fmdText seqs).count c = (seqs.map (fun s => (block s).count c)).sum := by
  induction seqs with
  | nil => simp [fmdText]
  | cons s rest ih => rw [fmdText_cons, List.count_append, ih]; simp

/-- single symbols: a DNA symbol and its complement are equally frequent in an FMD text -/
theorem count_symmetry (seqs : List (List Nat)) (a : Nat) (ha : a ≠ 36) :
    (fmdText seqs).count (dnaCompl a) = (fmdText seqs).count a := by
  have hc : dnaCompl a ≠ 36 := fun h => ha (dnaCompl_eq_sentinel a h)
  have h1 : (revcomp (fmdText seqs) ++ [36]).count (dnaCompl a) = (fmdText seqs).count a := by
    rw [List.count_append, count_revcomp]
    simp [List.count_singleton, Ne.symm hc]
  rw [revcomp_fmdText, List.count_cons] at h1
  have h36 : ((36 : Nat) == dnaCompl a) = false := by simp [Ne.symm hc]
  rw [h36] at h1
  simp only [Bool.false_eq_true, if_false, Nat.add_zero] at h1
  rw [← h1, count_fmdText, count_fmdText, List.map_reverse, List.sum_reverse]

theorem count_bwt (t sa : List Nat) (hperm : sa.Perm (List.range t.length)) (c : Nat) :
    (bwtOf t sa).count c = t.count c := by
  unfold bwtOf
  rw [List.count_eq_countP, List.countP_map, hperm.countP_eq]
  have h := countP_bwSym t (fun x => x == c)
  simp only [Function.comp_def] at h ⊢
  rw [h]
  -- counting over positions = counting over the list
  have : (List.range t.length).map (fun p => t.getD p 0) = t := by
    apply List.ext_getElem?
    intro k
    rw [List.getElem?_map]
    by_cases hk : k < t.length
    · simp [List.getElem?_range hk, List.getD_eq_getElem?_getD, List.getElem?_eq_getElem hk]
    · have h1 : (List.range t.length)[k]? = none := List.getElem?_eq_none (by simp; omega)
      have h2 : t[k]? = none := List.getElem?_eq_none (by omega)
      simp [h1, h2]
  conv => rhs; rw [← this, List.count_eq_countP, List.countP_map]
  rfl

/-- **`init_interval_with(a)` is the bi-interval of the one-symbol string `a`** -/
theorem initIntervalWith_correct (seqs : List (List Nat)) (sa : List Nat) (a : Nat)
    (hne : seqs ≠ []) (hchk : sortedAllB (fmdText seqs) sa = true) (ha : isDna a = true) :
    BiOf (fmdText seqs) sa [a] (initIntervalWith (lessRef (bwtOf (fmdText seqs) sa)) a) := by
  obtain ⟨_, ha36, hca⟩ := order_mem_of_dna a ha
  obtain ⟨_, hca36, _⟩ := order_mem_of_dna _ hca
  have hlast := fmd_last seqs hne
  have hperm : sa.Perm (List.range (fmdText seqs).length) := by
    simp only [sortedAllB, Bool.and_eq_true] at hchk
    exact List.isPerm_iff.mp hchk.1
  have hs : Sorted (fmdText seqs) sa a := sortedAllB_sound _ sa hchk a (by rw [hlast]; exact Ne.symm ha36)
  have hs' : Sorted (fmdText seqs) sa (dnaCompl a) :=
    sortedAllB_sound _ sa hchk _ (by rw [hlast]; exact Ne.symm hca36)
  have hsize : (initIntervalWith (lessRef (bwtOf (fmdText seqs) sa)) a).size = (bwtOf (fmdText seqs) sa).count a := by
    simp only [initIntervalWith, lessRef_succ]; omega
  have hcnt : (bwtOf (fmdText seqs) sa).count (dnaCompl a) = (bwtOf (fmdText seqs) sa).count a := by
    rw [count_bwt _ _ hperm, count_bwt _ _ hperm, count_symmetry seqs a ha36]
  constructor
  · rw [hsize]; exact ivOf_single _ sa a hs
  · have : revcomp [a] = [dnaCompl a] := by simp [revcomp]
    rw [this, hsize, ← hcnt]
    exact ivOf_single _ sa (dnaCompl a) hs'

/-! ### growing a substring of a pattern symbol by symbol (what `smems` and the harness chains do) -/

theorem sub_snoc (w : List Nat) (lo k : Nat) (h : lo + k < w.length) :
    sub w lo (k + 1) = sub w lo k ++ [w.getD (lo + k) 0] := by
  unfold sub
  have hk : k < (w.drop lo).length := by simp; omega
  rw [List.take_succ_eq_append_getElem hk, List.getElem_drop]
  simp [List.getD_eq_getElem?_getD, List.getElem?_eq_getElem h]

theorem sub_cons (w : List Nat) (lo k : Nat) (h1 : 1 ≤ lo) (h2 : lo - 1 < w.length) :
    sub w (lo - 1) (k + 1) = w.getD (lo - 1) 0 :: sub w lo k := by
  unfold sub
  rw [List.drop_eq_getElem_cons h2, List.take_succ_cons]
  have : lo - 1 + 1 = lo := by omega
  rw [this]
  simp [List.getD_eq_getElem?_getD, List.getElem?_eq_getElem h2]

theorem sub_ne_nil (w : List Nat) (lo k : Nat) (hk : 0 < k) (h : lo < w.length) : sub w lo k ≠ [] := by
  intro he
  have := congrArg List.length he
  simp only [sub, List.length_take, List.length_drop, List.length_nil] at this
  omega

theorem sub_dna (w : List Nat) (lo k : Nat) (hw : ∀ c ∈ w, isDna c = true) : ∀ q ∈ sub w lo k, isDna q = true := by
  intro q hq
  exact hw q ((List.drop_sublist lo w).subset ((List.take_sublist k _).subset hq))

/-- one forward step of a chain: from the bi-interval of `w[lo..hi)` to that of `w[lo..hi+1)` -/
theorem chain_step_forward (seqs : List (List Nat)) (sa w : List Nat) (iv : Bi) (lo hi : Nat)
    (hne : seqs ≠ []) (hseqs : ∀ s ∈ seqs, ∀ c ∈ s, isDna c = true)
    (hchk : sortedAllB (fmdText seqs) sa = true) (hw : ∀ c ∈ w, isDna c = true)
    (hlh : lo < hi) (hhi : hi < w.length)
    (hbi : BiOf (fmdText seqs) sa (sub w lo (hi - lo)) iv) (hpos : 0 < iv.size) :
    BiOf (fmdText seqs) sa (sub w lo (hi + 1 - lo))
      (forwardExt (lessRef (bwtOf (fmdText seqs) sa)) (occRef (bwtOf (fmdText seqs) sa)) iv (w.getD hi 0)) := by
  have e : hi + 1 - lo = (hi - lo) + 1 := by omega
  have e2 : lo + (hi - lo) = hi := by omega
  rw [e, sub_snoc w lo (hi - lo) (by omega), e2]
  exact forwardExt_correct seqs sa _ iv _ hne hseqs hchk (sub_ne_nil w lo _ (by omega) (by omega))
    (sub_dna w lo _ hw) (hw _ (getD_mem w hi hhi)) hbi hpos

/-- one backward step of a chain: from the bi-interval of `w[lo..hi)` to that of `w[lo-1..hi)` -/
theorem chain_step_backward (seqs : List (List Nat)) (sa w : List Nat) (iv : Bi) (lo hi : Nat)
    (hne : seqs ≠ []) (hseqs : ∀ s ∈ seqs, ∀ c ∈ s, isDna c = true)
    (hchk : sortedAllB (fmdText seqs) sa = true) (hw : ∀ c ∈ w, isDna c = true)
    (hlo : 1 ≤ lo) (hlh : lo < hi) (hhi : hi ≤ w.length)
    (hbi : BiOf (fmdText seqs) sa (sub w lo (hi - lo)) iv) (hpos : 0 < iv.size) :
    BiOf (fmdText seqs) sa (sub w (lo - 1) (hi - (lo - 1)))
      (backwardExt (lessRef (bwtOf (fmdText seqs) sa)) (occRef (bwtOf (fmdText seqs) sa)) iv (w.getD (lo - 1) 0)) := by
  have e : hi - (lo - 1) = (hi - lo) + 1 := by omega
  rw [e, sub_cons w lo (hi - lo) hlo (by omega)]
  exact backwardExt_correct seqs sa _ iv _ hne hseqs hchk (sub_ne_nil w lo _ (by omega) (by omega))
    (sub_dna w lo _ hw) (hw _ (getD_mem w (lo - 1) (by omega))) hbi hpos

/-- start of a chain: `init_interval_with(w[j])` is the bi-interval of `w[j..j+1)` -/
theorem chain_start (seqs : List (List Nat)) (sa w : List Nat) (j : Nat)
    (hne : seqs ≠ []) (hchk : sortedAllB (fmdText seqs) sa = true) (hw : ∀ c ∈ w, isDna c = true)
    (hj : j < w.length) :
    BiOf (fmdText seqs) sa (sub w j (j + 1 - j))
      (initIntervalWith (lessRef (bwtOf (fmdText seqs) sa)) (w.getD j 0)) := by
  have e : j + 1 - j = 0 + 1 := by omega
  rw [e, sub_snoc w j 0 (by omega)]
  simp only [sub, List.take_zero, List.nil_append, Nat.add_zero]
  exact initIntervalWith_correct seqs sa _ hne hchk (hw _ (getD_mem w j hj))

end RbV.FMDSym
