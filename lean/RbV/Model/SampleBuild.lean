import RbV.Model.SampledSA
/-!
# Mirror model of `SuffixArray::sample` (what the sampled array stores)

```rust
for i in 0..self.len() {
    let idx = self.get(i).unwrap();
    if (i % sampling_rate) == 0 { sample.push(idx); }
    else if bwt.borrow()[i] == sentinel { extra_rows.insert(i, idx); }
}
```
`build sa bwt s sentinel i` = (sample, extra_rows) after the rows `0 … i-1`; the hash map is an association list.
`build_sample` / `build_extra` are the two facts `SampledModel.get_correct` needs.
-/
namespace RbV.SampledModel
open RbV

def build (sa bwt : List Nat) (s sentinel : Nat) : Nat → List Nat × List (Nat × Nat)
  | 0 => ([], [])
  | i + 1 =>
    let st := build sa bwt s sentinel i
    if i % s = 0 then (st.1 ++ [sa.getD i 0], st.2)
    else if bwt.getD i 0 = sentinel then (st.1, (i, sa.getD i 0) :: st.2)
    else st

def sampleGet (smp : List Nat) (q : Nat) : Nat := smp.getD q 0

def extraGet (ex : List (Nat × Nat)) (pos : Nat) : Nat := ((ex.lookup pos).getD 0)

/-- a multiple of `s` in the half-open window `((L-1)·s, L·s]` is `L·s` -/
theorem multiple_in_window (s i L : Nat) (hs : 0 < s) (hm : i % s = 0) (h1 : L = 0 ∨ (L - 1) * s < i) (h2 : i ≤ L * s)
    (h0 : L = 0 → i = 0) : i = L * s := by
  have hi : i = s * (i / s) := by
    have := Nat.div_add_mod i s; rw [hm] at this; omega
  rcases Nat.lt_trichotomy (i / s) L with h | h | h
  · -- i/s ≤ L-1, so i ≤ (L-1)*s
    exfalso
    rcases h1 with h1 | h1
    · subst h1; exact absurd h (Nat.not_lt_zero _)
    · have : s * (i / s) ≤ s * (L - 1) := Nat.mul_le_mul_left s (by omega)
      rw [Nat.mul_comm s (L - 1)] at this
      omega
  · rw [← h, Nat.mul_comm]; exact hi
  · exfalso
    have : s * (L + 1) ≤ s * (i / s) := Nat.mul_le_mul_left s (by omega)
    rw [Nat.mul_add, Nat.mul_one, Nat.mul_comm s L] at this
    omega

/-- invariant of the loop for the `sample` vector: it has `L` entries with `(L-1)·s < i ≤ L·s` (i.e. `L = ⌈i/s⌉`) and
entry `q` is `sa[q·s]` -/
theorem build_sample_inv (sa bwt : List Nat) (s sentinel : Nat) (hs : 0 < s) (i : Nat) :
    (((build sa bwt s sentinel i).1.length = 0 ∧ i = 0) ∨
      (((build sa bwt s sentinel i).1.length - 1) * s < i ∧ 0 < (build sa bwt s sentinel i).1.length)) ∧
    i ≤ (build sa bwt s sentinel i).1.length * s ∧
    ∀ q, q < (build sa bwt s sentinel i).1.length → (build sa bwt s sentinel i).1.getD q 0 = sa.getD (q * s) 0 := by
  induction i with
  | zero => simp [build]
  | succ i ih =>
    obtain ⟨h1, h2, h3⟩ := ih
    simp only [build]
    by_cases hm : i % s = 0
    · simp only [hm, if_true, List.length_append, List.length_singleton]
      have hi : i = (build sa bwt s sentinel i).1.length * s := by
        apply multiple_in_window s i _ hs hm _ h2
        · intro h0; rcases h1 with h1 | h1 <;> omega
        · rcases h1 with h1 | h1
          · left; exact h1.1
          · right; exact h1.1
      refine ⟨Or.inr ⟨by simp only [Nat.add_sub_cancel]; omega, by omega⟩, ?_, ?_⟩
      · rw [Nat.add_mul, Nat.one_mul]; omega
      · intro q hq
        by_cases hq' : q < (build sa bwt s sentinel i).1.length
        · have := h3 q hq'
          simp only [List.getD_eq_getElem?_getD] at this ⊢
          rw [List.getElem?_append_left hq']; exact this
        · have : q = (build sa bwt s sentinel i).1.length := by omega
          subst this
          simp only [List.getD_eq_getElem?_getD]
          rw [List.getElem?_append_right (Nat.le_refl _), ← hi]
          simp
    · have hne : i ≠ (build sa bwt s sentinel i).1.length * s := by
        intro h; rw [h, Nat.mul_mod_left] at hm; exact hm rfl
      have key : (((build sa bwt s sentinel i).1.length = 0 ∧ i + 1 = 0) ∨
          (((build sa bwt s sentinel i).1.length - 1) * s < i + 1 ∧ 0 < (build sa bwt s sentinel i).1.length)) ∧
          i + 1 ≤ (build sa bwt s sentinel i).1.length * s := by
        rcases h1 with h1 | h1
        · exfalso; rw [h1.1, h1.2] at hne; simp at hne
        · exact ⟨Or.inr ⟨by omega, h1.2⟩, by omega⟩
      simp only [hm, if_false]
      split
      · exact ⟨key.1, key.2, h3⟩
      · exact ⟨key.1, key.2, h3⟩

theorem build_sample (sa bwt : List Nat) (s sentinel : Nat) (hs : 0 < s) (n pos : Nat) (hpos : pos < n)
    (hm : pos % s = 0) :
    sampleGet (build sa bwt s sentinel n).1 (pos / s) = sa.getD pos 0 := by
  obtain ⟨_, h2, h3⟩ := build_sample_inv sa bwt s sentinel hs n
  have hps : pos / s * s = pos := Nat.div_mul_cancel (Nat.dvd_of_mod_eq_zero hm)
  have hq : pos / s < (build sa bwt s sentinel n).1.length := by
    apply Nat.lt_of_mul_lt_mul_right (a := s)
    rw [hps]; omega
  unfold sampleGet
  rw [h3 _ hq, hps]

theorem build_extra (sa bwt : List Nat) (s sentinel : Nat) (n pos : Nat) (hpos : pos < n)
    (hm : pos % s ≠ 0) (hb : bwt.getD pos 0 = sentinel) :
    extraGet (build sa bwt s sentinel n).2 pos = sa.getD pos 0 := by
  induction n with
  | zero => omega
  | succ n ih =>
    simp only [build]
    by_cases hpn : pos = n
    · subst hpn
      rw [if_neg hm, if_pos hb]
      simp [extraGet]
    · have hlt : pos < n := by omega
      by_cases hm' : n % s = 0
      · simp only [hm', if_true]; exact ih hlt
      · simp only [hm', if_false]
        split
        · have hih := ih hlt
          unfold extraGet at hih ⊢
          have : (pos == n) = false := by simp [hpn]
          simp only [List.lookup_cons, this]
          exact hih
        · exact ih hlt

end RbV.SampledModel
