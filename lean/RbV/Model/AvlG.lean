import RbV.Model.AvlProofs
/-!
# The AVL mirror model with the tie-break of `Node::insert` as a parameter (builder genavl)

`Node::insert` sends an interval whose start equals the start of the visited node to the *left* (`interval.start <=
self.interval.start`).  Nothing in the property depends on that choice: the invariant proofs only need that an entry that
goes left does not start after the node and an entry that goes right does not start before it (`TieOk`).  `insertG tb` is
`Avl.insert` with the test `tb new visited` in the place of `new.lo ≤ visited.lo`; all invariant proofs of
`AvlProofs.lean` are repeated for every `tb` with `TieOk tb` (seeded change C07-H1 flips the tie-break: the translated
`insert` is proved equal to `insertG tb` for the test found in the source, and the test is proved `TieOk`).
`insertG_le`: at the pinned test `insertG` is `Avl.insert`.  Core Lean only.
-/
namespace RbV.Avl
open RbV.Ivl

/-- `tb e x`: the new entry `e` descends into the left subtree of a node holding `x` -/
abbrev TieBreak := Entry → Entry → Bool

/-- what the invariants need of the tie-break -/
def TieOk (tb : TieBreak) : Prop := ∀ e x, (tb e x = true → e.lo ≤ x.lo) ∧ (tb e x = false → x.lo ≤ e.lo)

/-- the pinned test: equal starts go left -/
def tbLe : TieBreak := fun e x => decide (e.lo ≤ x.lo)
/-- the test of seeded change C07-H1: equal starts go right -/
def tbLt : TieBreak := fun e x => decide (e.lo < x.lo)

theorem tieOk_le : TieOk tbLe := by intro e x; simp only [tbLe, decide_eq_true_eq, decide_eq_false_iff_not]; omega
theorem tieOk_lt : TieOk tbLt := by intro e x; simp only [tbLt, decide_eq_true_eq, decide_eq_false_iff_not]; omega

/-- `Node::insert` with the tie-break test as a parameter -/
def insertG (tb : TieBreak) : Tree → Entry → Tree
  | .nil, e => leaf e
  | .node l x mx h r, e =>
    if tb e x then repair (.node (insertG tb l e) x mx h r)
    else repair (.node l x mx h (insertG tb r e))

theorem insertG_le : ∀ (t : Tree) (e : Entry), insertG tbLe t e = insert t e
  | .nil, _ => rfl
  | .node l x mx h r, e => by
    unfold insertG insert
    simp only [tbLe, decide_eq_true_eq, insertG_le l e, insertG_le r e]

def buildG (tb : TieBreak) (es : List Entry) : Tree := es.foldl (insertG tb) .nil

theorem toList_insertG_perm (tb : TieBreak) : ∀ (t : Tree) (e : Entry), (toList (insertG tb t e)).Perm (e :: toList t)
  | .nil, e => by simp [insertG, leaf, toList]
  | .node l x mx h r, e => by
    unfold insertG
    split
    · rw [toList_repair]
      simp only [toList]
      exact (List.Perm.append_right _ (toList_insertG_perm tb l e))
    · rw [toList_repair]
      simp only [toList]
      have ih := toList_insertG_perm tb r e
      have : (toList l ++ x :: toList (insertG tb r e)).Perm (toList l ++ x :: e :: toList r) :=
        List.Perm.append_left _ (List.Perm.cons _ ih)
      refine this.trans ?_
      have h1 : (toList l ++ x :: e :: toList r).Perm (toList l ++ e :: x :: toList r) :=
        List.Perm.append_left _ (List.Perm.swap _ _ _)
      exact h1.trans List.perm_middle

theorem size_insertG (tb : TieBreak) (t : Tree) (e : Entry) : size (insertG tb t e) = size t + 1 := by
  rw [size_eq_length, size_eq_length, (toList_insertG_perm tb t e).length_eq]; rfl

theorem insertG_sorted (tb : TieBreak) (ht : TieOk tb) (t : Tree) (e : Entry) (hs : Sorted t) :
    Sorted (insertG tb t e) := by
  induction t with
  | nil => simp [Sorted, insertG, leaf, toList]
  | node l x mx h r ihl ihr =>
    obtain ⟨ol, or', h1, h2⟩ := ordered_of_sorted _ hs
    have sl := sorted_of_ordered l ol
    have sr := sorted_of_ordered r or'
    unfold insertG
    split
    · rename_i hc
      have hle : e.lo ≤ x.lo := (ht e x).1 hc
      unfold Sorted
      rw [toList_repair]
      simp only [toList]
      rw [List.pairwise_append, List.pairwise_cons]
      refine ⟨ihl sl, ⟨h2, sr⟩, ?_⟩
      intro a ha b hb
      have ha' : a = e ∨ a ∈ toList l := by
        have := (toList_insertG_perm tb l e).subset ha
        simpa using this
      have hax : a.lo ≤ x.lo := by
        rcases ha' with ha' | ha'
        · subst ha'; exact hle
        · exact h1 a ha'
      simp only [List.mem_cons] at hb
      rcases hb with hb | hb
      · subst hb; exact hax
      · have := h2 b hb; omega
    · rename_i hc
      have hle : x.lo ≤ e.lo := (ht e x).2 (by simpa using hc)
      unfold Sorted
      rw [toList_repair]
      simp only [toList]
      rw [List.pairwise_append, List.pairwise_cons]
      have hmem : ∀ b ∈ toList (insertG tb r e), x.lo ≤ b.lo := by
        intro b hb
        have := (toList_insertG_perm tb r e).subset hb
        simp only [List.mem_cons] at this
        rcases this with hb' | hb'
        · subst hb'; exact hle
        · exact h2 b hb'
      refine ⟨sl, ⟨hmem, ihr sr⟩, ?_⟩
      intro a ha b hb
      simp only [List.mem_cons] at hb
      rcases hb with hb | hb
      · subst hb; exact h1 a ha
      · have := h1 a ha; have := hmem b hb; omega

/-- insertion keeps fields exact and the tree balanced; the height grows by at most one — for every tie-break -/
theorem insertG_good (tb : TieBreak) : ∀ (t : Tree) (e : Entry), Good t →
    Good (insertG tb t e) ∧ ht t ≤ ht (insertG tb t e) ∧ ht (insertG tb t e) ≤ ht t + 1
  | .nil, e, _ => by
    simp only [insertG]
    exact ⟨good_leaf e, by simp [leaf], by simp [leaf]⟩
  | .node l x mx h r, e, g => by
    rw [good_node_iff] at g
    obtain ⟨gl, gr, _, hh, b1, b2⟩ := g
    simp only [updHeight] at hh
    unfold insertG
    split
    · obtain ⟨gi, i1, i2⟩ := insertG_good tb l e gl
      obtain ⟨gres, r1, r2⟩ := repair_good (insertG tb l e) x mx h r gi gr (by omega) (by omega)
      refine ⟨gres, ?_, ?_⟩
      · simp only [ht_node]
        by_cases hbal : ht (insertG tb l e) ≤ ht r + 1 ∧ ht r ≤ ht (insertG tb l e) + 1
        · have : repair (.node (insertG tb l e) x mx h r) = mk (insertG tb l e) x r := by simp [repair, hbal]
          rw [this, ht_mk]; omega
        · omega
      · simp only [ht_node]
        by_cases hbal : ht (insertG tb l e) ≤ ht r + 1 ∧ ht r ≤ ht (insertG tb l e) + 1
        · have : repair (.node (insertG tb l e) x mx h r) = mk (insertG tb l e) x r := by simp [repair, hbal]
          rw [this, ht_mk]; omega
        · omega
    · obtain ⟨gi, i1, i2⟩ := insertG_good tb r e gr
      obtain ⟨gres, r1, r2⟩ := repair_good l x mx h (insertG tb r e) gl gi (by omega) (by omega)
      refine ⟨gres, ?_, ?_⟩
      · simp only [ht_node]
        by_cases hbal : ht l ≤ ht (insertG tb r e) + 1 ∧ ht (insertG tb r e) ≤ ht l + 1
        · have : repair (.node l x mx h (insertG tb r e)) = mk l x (insertG tb r e) := by simp [repair, hbal]
          rw [this, ht_mk]; omega
        · omega
      · simp only [ht_node]
        by_cases hbal : ht l ≤ ht (insertG tb r e) + 1 ∧ ht (insertG tb r e) ≤ ht l + 1
        · have : repair (.node l x mx h (insertG tb r e)) = mk l x (insertG tb r e) := by simp [repair, hbal]
          rw [this, ht_mk]; omega
        · omega

theorem insertG_inv (tb : TieBreak) (ht : TieOk tb) (t : Tree) (e : Entry) (h : Inv t) : Inv (insertG tb t e) := by
  rw [inv_iff] at h ⊢
  exact ⟨insertG_sorted tb ht t e h.1, (insertG_good tb t e h.2).1⟩

theorem posW_insertG (tb : TieBreak) (t : Tree) (e : Entry) (hp : PosW t) (he : e.lo < e.hi) :
    PosW (insertG tb t e) := by
  intro a ha
  have := (toList_insertG_perm tb t e).subset ha
  simp only [List.mem_cons] at this
  rcases this with rfl | h
  · exact he
  · exact hp a h

/-- every history of insertions with an admissible tie-break: the invariant, positive widths, and the multiset -/
theorem buildG_correct (tb : TieBreak) (ht : TieOk tb) : ∀ (es : List Entry) (t : Tree), (∀ e ∈ es, e.lo < e.hi) →
    Inv t → PosW t →
    Inv (es.foldl (insertG tb) t) ∧ PosW (es.foldl (insertG tb) t) ∧
      (toList (es.foldl (insertG tb) t)).Perm (es.reverse ++ toList t)
  | [], t, _, hi, hp => ⟨hi, hp, by simp⟩
  | e :: es, t, hw, hi, hp => by
    obtain ⟨a, b, c⟩ := buildG_correct tb ht es (insertG tb t e) (fun x hx => hw x (by simp [hx]))
      (insertG_inv tb ht t e hi) (posW_insertG tb t e hp (hw e (by simp)))
    refine ⟨a, b, c.trans ?_⟩
    simp only [List.reverse_cons, List.append_assoc, List.singleton_append]
    exact List.Perm.append_left _ (toList_insertG_perm tb t e)

theorem realHeight_le_size : ∀ t : Tree, realHeight t ≤ size t
  | .nil => by simp [realHeight, size]
  | .node l _ _ _ r => by
    have := realHeight_le_size l
    have := realHeight_le_size r
    simp only [realHeight, size]; omega

end RbV.Avl
