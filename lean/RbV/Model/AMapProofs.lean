import RbV.Model.AvlProofs
/-!
# `AnnotMap` model: one AVL tree per reference id — `find` is the filter on that id's entries
Core Lean only.
-/
namespace RbV.Avl
open RbV.Ivl

/-- all stored (refid, entry) pairs -/
def AMap.entries (m : AMap) : List (Nat × Entry) := m.flatMap (fun p => (toList p.2).map (fun e => (p.1, e)))

/-- the entries stored under reference id `r` -/
def AMap.storedAt (m : AMap) (r : Nat) : List Entry := (m.entries.filter (fun p => p.1 == r)).map (·.2)

/-- distinct keys (it is a map), every tree satisfies the AVL invariant and holds positive-width intervals -/
def AMap.WF (m : AMap) : Prop := (m.map (·.1)).Nodup ∧ ∀ p ∈ m, Inv p.2 ∧ PosW p.2

theorem AMap.storedAt_cons (r' : Nat) (t : Tree) (m : AMap) (r : Nat) :
    AMap.storedAt ((r', t) :: m) r = (if r' = r then toList t else []) ++ AMap.storedAt m r := by
  simp only [AMap.storedAt, AMap.entries, List.flatMap_cons, List.filter_append, List.map_append]
  congr 1
  by_cases h : r' = r
  · subst h
    simp [List.filter_map, Function.comp_def]
  · simp [h, List.filter_map, Function.comp_def]

theorem AMap.storedAt_absent : ∀ (m : AMap) (r : Nat), r ∉ m.map (·.1) → AMap.storedAt m r = []
  | [], _, _ => rfl
  | (r', t) :: m, r, h => by
    simp only [List.map_cons, List.mem_cons, not_or] at h
    rw [AMap.storedAt_cons, AMap.storedAt_absent m r h.2]
    simp [Ne.symm h.1]

theorem AMap.get_cons (r' : Nat) (t : Tree) (m : AMap) (r : Nat) :
    AMap.get ((r', t) :: m) r = if r' = r then some t else AMap.get m r := by
  simp only [AMap.get, List.find?_cons]
  by_cases h : r' = r
  · simp [h]
  · have hb : (r' == r) = false := by simpa using h
    simp [h, hb]

theorem AMap.get_absent : ∀ (m : AMap) (r : Nat), r ∉ m.map (·.1) → AMap.get m r = none
  | [], _, _ => rfl
  | (r', t) :: m, r, h => by
    simp only [List.map_cons, List.mem_cons, not_or] at h
    rw [AMap.get_cons, AMap.get_absent m r h.2]
    simp [Ne.symm h.1]

/-- the tree filed under `r` holds exactly the entries stored under `r` -/
theorem AMap.storedAt_eq : ∀ (m : AMap) (r : Nat), (m.map (·.1)).Nodup →
    AMap.storedAt m r = match AMap.get m r with | some t => toList t | none => []
  | [], _, _ => rfl
  | (r', t) :: m, r, hn => by
    simp only [List.map_cons, List.nodup_cons] at hn
    rw [AMap.storedAt_cons, AMap.get_cons]
    by_cases h : r' = r
    · subst h
      simp [AMap.storedAt_absent m r' hn.1]
    · simp only [h, if_false, List.nil_append]
      exact AMap.storedAt_eq m r hn.2

theorem AMap.find_perm (m : AMap) (r : Nat) (q : Query) (hw : m.WF) (hq : q.lo < q.hi) :
    (m.find r q).Perm (expected (m.storedAt r) q) := by
  rw [AMap.storedAt_eq m r hw.1]
  unfold AMap.find
  cases hg : AMap.get m r with
  | none => simp [expected]
  | some t =>
    have hmem : ∃ p ∈ m, p.2 = t := by
      unfold AMap.get at hg
      cases hf : m.find? (fun p => p.1 == r) with
      | none => simp [hf] at hg
      | some p =>
        simp [hf] at hg
        exact ⟨p, List.mem_of_find?_eq_some hf, hg⟩
    obtain ⟨p, hp, rfl⟩ := hmem
    have := hw.2 p hp
    exact RbV.Avl.find_perm p.2 q this.1.searchInv this.2 hq

theorem AMap.keys_insertAt : ∀ (m : AMap) (r : Nat) (e : Entry),
    (AMap.insertAt m r e).map (·.1) = if r ∈ m.map (·.1) then m.map (·.1) else m.map (·.1) ++ [r]
  | [], r, e => by simp [AMap.insertAt]
  | (r', t) :: m, r, e => by
    unfold AMap.insertAt
    by_cases h : r' = r
    · simp [h]
    · have ih := AMap.keys_insertAt m r e
      simp only [beq_iff_eq, h, if_false, List.map_cons, List.mem_cons, Ne.symm h, false_or, ih]
      split <;> simp

theorem AMap.wf_insertAt : ∀ (m : AMap) (r : Nat) (e : Entry), m.WF → e.lo < e.hi → (AMap.insertAt m r e).WF := by
  intro m r e hw he
  constructor
  · rw [AMap.keys_insertAt]
    split
    · exact hw.1
    · rename_i hni
      rw [List.nodup_append]
      refine ⟨hw.1, by simp, ?_⟩
      intro a ha b hb
      simp only [List.mem_singleton] at hb
      subst hb
      intro hab
      subst hab
      exact hni ha
  · have key : ∀ (m : AMap), (∀ p ∈ m, Inv p.2 ∧ PosW p.2) → ∀ p ∈ AMap.insertAt m r e, Inv p.2 ∧ PosW p.2 := by
      intro m
      induction m with
      | nil =>
        intro _ p hp
        simp only [AMap.insertAt, List.mem_singleton] at hp
        subst hp
        exact ⟨insert_inv _ _ inv_nil, posW_insert _ _ (by intro a ha; simp [toList] at ha) he⟩
      | cons hd tl ih =>
        intro hall p hp
        obtain ⟨r', t⟩ := hd
        unfold AMap.insertAt at hp
        split at hp
        · simp only [List.mem_cons] at hp
          rcases hp with rfl | hp
          · have := hall (r', t) (by simp)
            exact ⟨insert_inv _ _ this.1, posW_insert _ _ this.2 he⟩
          · exact hall p (by simp [hp])
        · simp only [List.mem_cons] at hp
          rcases hp with rfl | hp
          · exact hall (r', t) (by simp)
          · exact ih (fun p hp => hall p (by simp [hp])) p hp
    exact key m hw.2

theorem AMap.storedAt_insertAt : ∀ (m : AMap) (r : Nat) (e : Entry) (r' : Nat),
    (AMap.storedAt (AMap.insertAt m r e) r').Perm ((if r = r' then [e] else []) ++ AMap.storedAt m r')
  | [], r, e, r' => by
    simp only [AMap.insertAt]
    rw [AMap.storedAt_cons]
    by_cases h : r = r' <;> simp [h, insert, leaf, toList, AMap.storedAt, AMap.entries]
  | (k, t) :: m, r, e, r' => by
    unfold AMap.insertAt
    by_cases hk : k = r
    · subst hk
      simp only [beq_self_eq_true, if_true]
      rw [AMap.storedAt_cons, AMap.storedAt_cons]
      by_cases h : k = r'
      · simp only [h, if_true]
        rw [← List.append_assoc]
        apply List.Perm.append_right
        simpa using toList_insert_perm t e
      · simp [h]
    · simp only [beq_iff_eq, hk, if_false]
      rw [AMap.storedAt_cons, AMap.storedAt_cons]
      have ih := AMap.storedAt_insertAt m r e r'
      refine (List.Perm.append_left _ ih).trans ?_
      rw [← List.append_assoc, ← List.append_assoc]
      exact List.Perm.append_right _ List.perm_append_comm

end RbV.Avl
