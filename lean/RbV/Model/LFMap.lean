import RbV.Model.Kasai
import RbV.Ref.BWT
/-
The LF-mapping lemma (C04 [C], also the basis of C03's sampled suffix array and of C05).

For a text `t` whose last symbol is its unique smallest symbol, a sorted suffix permutation `sa` (first entry n−1)
and `bwt = bwtRef t sa`:

    lessRef bwt c + occRef bwt r c − 1  =  row of the position that cyclically precedes sa[r]        (c = bwt[r])

Proof by counting: the row of a position is the number of smaller suffixes; these are split by their first symbol
(smaller than c: `less`; equal to c: as many as there are rows r' < r with bwt[r'] = c).
-/
namespace RbV.LFMap
open RbV RbV.Kasai

/-- cyclic predecessor of a position -/
def cpred (n p : Nat) : Nat := (p + n - 1) % n

theorem cpred_zero (n : Nat) (hn : 0 < n) : cpred n 0 = n - 1 := by
  unfold cpred; rw [Nat.zero_add]; exact Nat.mod_eq_of_lt (by omega)

theorem cpred_succ (n p : Nat) (hp : p + 1 < n) : cpred n (p + 1) = p := by
  unfold cpred
  have : p + 1 + n - 1 = p + n := by omega
  rw [this, Nat.add_mod_right, Nat.mod_eq_of_lt (by omega)]

theorem cpred_lt (n p : Nat) (hn : 0 < n) : cpred n p < n := Nat.mod_lt _ hn

/-- the text has a unique smallest symbol, at its end -/
structure Single (t : List Nat) : Prop where
  pos : 0 < t.length
  min : ∀ p, p < t.length → t.getD (t.length - 1) 0 ≤ t.getD p 0
  uniq : ∀ p, p < t.length → t.getD p 0 = t.getD (t.length - 1) 0 → p = t.length - 1

/-! ### generic counting lemmas -/

theorem map_getD_range (l : List Nat) : (List.range l.length).map (fun i => l.getD i 0) = l := by
  apply List.ext_getElem?
  intro i
  rw [List.getElem?_map]
  by_cases h : i < l.length
  · rw [List.getElem?_range h, List.getElem?_eq_getElem h]
    simp [List.getD_eq_getElem?_getD, List.getElem?_eq_getElem h]
  · rw [List.getElem?_eq_none (by simpa using h), List.getElem?_eq_none (by omega)]; rfl

theorem countP_range_getD (l : List Nat) (q : Nat → Bool) :
    (List.range l.length).countP (fun i => q (l.getD i 0)) = l.countP q := by
  have h := List.countP_map (p := q) (f := fun i => l.getD i 0) (l := List.range l.length)
  rw [map_getD_range] at h
  rw [h]; rfl

theorem countP_add_of_disjoint (l : List Nat) (p q : Nat → Bool) (h : ∀ x ∈ l, ¬ (p x = true ∧ q x = true)) :
    l.countP (fun x => p x || q x) = l.countP p + l.countP q := by
  induction l with
  | nil => simp
  | cons a l ih =>
    have ih' := ih (fun x hx => h x (List.mem_cons_of_mem _ hx))
    have ha := h a List.mem_cons_self
    simp only [List.countP_cons, ih']
    cases hp : p a <;> cases hq : q a <;> simp [hp, hq] at ha ⊢ <;> omega

/-- in a list sorted by an asymmetric relation, the number of elements below `x` is the index of `x` -/
theorem countP_sorted (R : Nat → Nat → Bool) (hirr : ∀ a, R a a = false)
    (hasym : ∀ a b, R a b = true → R b a = false) :
    ∀ (l : List Nat) (x : Nat), l.Pairwise (fun a b => R a b = true) → x ∈ l →
      l.countP (fun y => R y x) = l.idxOf x
  | [], x, _, hx => by simp at hx
  | a :: l, x, hpw, hx => by
    rw [List.pairwise_cons] at hpw
    by_cases hax : a = x
    · subst hax
      have hzero : l.countP (fun y => R y a) = 0 := by
        rw [List.countP_eq_zero]
        intro y hy
        have := hasym a y (hpw.1 y hy)
        simp [this]
      simp [hirr, hzero]
    · have hx' : x ∈ l := by
        rw [List.mem_cons] at hx
        exact hx.resolve_left (fun e => hax e.symm)
      have ih := countP_sorted R hirr hasym l x hpw.2 hx'
      have hR := hpw.1 x hx'
      rw [List.countP_cons, ih, List.idxOf_cons]
      have : (a == x) = false := by simpa using hax
      simp [hR, this]

/-! ### the row of a position is the number of smaller suffixes -/

theorem rank_eq_countP (t sa : List Nat) (h : Sorted t sa) (x : Nat) (hx : x < t.length) :
    sa.idxOf x = (List.range t.length).countP (fun y => lexLtB (t.drop y) (t.drop x)) := by
  rw [← h.perm.countP_eq]
  symm
  apply countP_sorted (fun a b => lexLtB (t.drop a) (t.drop b))
  · intro a
    cases hh : lexLtB (t.drop a) (t.drop a)
    · rfl
    · exact absurd ((lexLtB_iff _ _).mp hh) (lexLt_irrefl _)
  · intro a b hab
    cases hh : lexLtB (t.drop b) (t.drop a)
    · rfl
    · exact absurd ((lexLtB_iff _ _).mp hh) (lexLt_asymm ((lexLtB_iff _ _).mp hab))
  · exact h.sorted.imp (fun hh => (lexLtB_iff _ _).mpr hh)
  · rw [h.perm.mem_iff, List.mem_range]; exact hx

/-- comparison of two suffixes by first symbol, then by the following suffixes -/
theorem lexLtB_drop (t : List Nat) (y x : Nat) (hy : y < t.length) (hx : x < t.length) :
    lexLtB (t.drop y) (t.drop x) =
      (decide (t.getD y 0 < t.getD x 0) ||
        (decide (t.getD y 0 = t.getD x 0) && lexLtB (t.drop (y + 1)) (t.drop (x + 1)))) := by
  rw [List.drop_eq_getElem_cons hy, List.drop_eq_getElem_cons hx]
  simp only [lexLtB, List.getD_eq_getElem?_getD, List.getElem?_eq_getElem hy, List.getElem?_eq_getElem hx,
    Option.getD_some]
  by_cases h : t[y] = t[x] <;> simp [h]

/-! ### the BWT is a permutation of the text -/

theorem map_cpred_perm (n : Nat) : ((List.range n).map (cpred n)).Perm (List.range n) := by
  cases n with
  | zero => simp
  | succ m =>
    have h0 : cpred (m + 1) 0 = m := by rw [cpred_zero _ (by omega)]; omega
    have hs : (List.range m).map (cpred (m + 1) ∘ Nat.succ) = List.range m := by
      have : ∀ i ∈ List.range m, (cpred (m + 1) ∘ Nat.succ) i = id i := by
        intro i hi
        rw [List.mem_range] at hi
        simp only [Function.comp, id]
        exact cpred_succ (m + 1) i (by omega)
      rw [List.map_congr_left this, List.map_id]
    have hl : (List.range (m + 1)).map (cpred (m + 1)) = m :: List.range m := by
      rw [List.range_succ_eq_map, List.map_cons, List.map_map, h0, hs]
    rw [hl, List.range_succ]
    exact (List.perm_append_singleton m (List.range m)).symm

theorem bwtRef_eq_map (t sa : List Nat) :
    bwtRef t sa = (sa.map (cpred t.length)).map (fun p => t.getD p 0) := by
  unfold bwtRef cpred
  rw [List.map_map]; rfl

theorem map_cpred_sa_perm (t sa : List Nat) (h : Sorted t sa) :
    (sa.map (cpred t.length)).Perm (List.range t.length) :=
  (h.perm.map _).trans (map_cpred_perm t.length)

theorem bwt_perm (t sa : List Nat) (h : Sorted t sa) : (bwtRef t sa).Perm t := by
  rw [bwtRef_eq_map]
  have := (map_cpred_sa_perm t sa h).map (fun p => t.getD p 0)
  rwa [map_getD_range] at this

theorem length_bwtRef (t sa : List Nat) (h : Sorted t sa) : (bwtRef t sa).length = t.length := by
  unfold bwtRef; rw [List.length_map, h.length]

theorem bwtRef_getD (t sa : List Nat) (h : Sorted t sa) (r : Nat) (hr : r < t.length) :
    (bwtRef t sa).getD r 0 = t.getD (cpred t.length (sa.getD r 0)) 0 := by
  have hl : r < sa.length := by rw [h.length]; exact hr
  unfold bwtRef cpred
  rw [List.getD_eq_getElem?_getD, List.getElem?_map, List.getElem?_eq_getElem hl]
  simp [List.getD_eq_getElem?_getD, List.getElem?_eq_getElem hl]

/-! ### counting rows -/

/-- rows below `r` that hold `c` -/
theorem countP_rows_lt (l : List Nat) (c r : Nat) (hr : r ≤ l.length) :
    (List.range l.length).countP (fun i => decide (l.getD i 0 = c) && decide (i < r)) = (l.take r).count c := by
  have hsplit : List.range l.length = List.range r ++ List.range' r (l.length - r) := by
    have : l.length = r + (l.length - r) := by omega
    conv => lhs; rw [this]
    rw [List.range_add, List.range'_eq_map_range]
  rw [hsplit, List.countP_append]
  have h2 : (List.range' r (l.length - r)).countP (fun i => decide (l.getD i 0 = c) && decide (i < r)) = 0 := by
    rw [List.countP_eq_zero]
    intro i hi
    rw [List.mem_range'_1] at hi
    have : ¬ i < r := by omega
    simp [this]
  have h1 : (List.range r).countP (fun i => decide (l.getD i 0 = c) && decide (i < r)) =
      (List.range r).countP (fun i => decide (l.getD i 0 = c)) := by
    apply List.countP_congr
    intro i hi
    rw [List.mem_range] at hi
    simp [hi]
  rw [h1, h2, Nat.add_zero]
  have hlen : (l.take r).length = r := by simp; omega
  have := countP_range_getD (l.take r) (fun x => x == c)
  rw [hlen] at this
  rw [List.count_eq_countP, ← this]
  apply List.countP_congr
  intro i hi
  rw [List.mem_range] at hi
  simp [List.getD_eq_getElem?_getD, hi]


/-! ### the LF mapping -/

/-- `less[c] + occ(c, r) − 1` with `c = bwt[r]` -/
def lfRef (bwt : List Nat) (r : Nat) : Nat :=
  lessRef bwt (bwt.getD r 0) + occRef bwt r (bwt.getD r 0) - 1

theorem occRef_row (bwt : List Nat) (r : Nat) (hr : r < bwt.length) :
    occRef bwt r (bwt.getD r 0) = (bwt.take r).count (bwt.getD r 0) + 1 := by
  unfold occRef
  rw [List.take_add_one, List.count_append, List.getD_eq_getElem?_getD, List.getElem?_eq_getElem hr]
  simp

theorem getD_mem_range (t : List Nat) (x : Nat) (hx : x ∈ t) : ∃ i, i < t.length ∧ t.getD i 0 = x := by
  obtain ⟨i, hi, e⟩ := List.mem_iff_getElem.mp hx
  exact ⟨i, hi, by rw [List.getD_eq_getElem?_getD, List.getElem?_eq_getElem hi]; exact e⟩

theorem count_sentinel (t : List Nat) (hs : Single t) : t.count (t.getD (t.length - 1) 0) = 1 := by
  rw [List.count_eq_countP, ← countP_range_getD t (fun x => x == t.getD (t.length - 1) 0)]
  have : (List.range t.length).countP (fun i => t.getD i 0 == t.getD (t.length - 1) 0) =
      (List.range t.length).countP (fun i => i == t.length - 1) := by
    apply List.countP_congr
    intro i hi
    rw [List.mem_range] at hi
    simp only [beq_iff_eq]
    constructor
    · exact hs.uniq i hi
    · intro e; rw [e]
  rw [this, ← List.count_eq_countP, List.nodup_range.count, if_pos]
  rw [List.mem_range]; have := hs.pos; omega

theorem lessRef_sentinel (t : List Nat) (hs : Single t) : lessRef t (t.getD (t.length - 1) 0) = 0 := by
  unfold lessRef
  rw [List.countP_eq_zero]
  intro x hx
  obtain ⟨i, hi, e⟩ := getD_mem_range t x hx
  have := hs.min i hi
  intro hlt
  have hlt' := of_decide_eq_true hlt
  omega

/-- **LF-mapping lemma.** -/
theorem lf_mapping (t sa : List Nat) (h : Sorted t sa) (hs : Single t) (r : Nat) (hr : r < t.length) :
    lfRef (bwtRef t sa) r = sa.idxOf (cpred t.length (sa.getD r 0)) := by
  have hbl := length_bwtRef t sa h
  have hp := h.getD_lt r hr
  have hc := bwtRef_getD t sa h r hr
  have hperm := bwt_perm t sa h
  unfold lfRef
  rw [occRef_row _ r (by rw [hbl]; exact hr)]
  have hless : ∀ c, lessRef (bwtRef t sa) c = lessRef t c := fun c => hperm.countP_eq _
  rw [hless]
  generalize hcdef : (bwtRef t sa).getD r 0 = c at hc ⊢
  by_cases hp0 : sa.getD r 0 = 0
  · -- the row of the whole text: its predecessor is the final sentinel, row 0
    rw [hp0, cpred_zero _ hs.pos] at hc
    subst hc
    rw [hp0, cpred_zero _ hs.pos, h.rank_last hs.pos, lessRef_sentinel t hs]
    have h2 : ((bwtRef t sa).take (r + 1)).count (t.getD (t.length - 1) 0) ≤
        (bwtRef t sa).count (t.getD (t.length - 1) 0) := (List.take_sublist _ _).count_le _
    have h3 := occRef_row (bwtRef t sa) r (by rw [hbl]; exact hr)
    unfold occRef at h3
    rw [hcdef] at h3
    have h4 : (bwtRef t sa).count (t.getD (t.length - 1) 0) = 1 := by
      rw [hperm.count_eq]; exact count_sentinel t hs
    omega
  · -- p ≥ 1: count the suffixes below the suffix at p − 1
    have hp1 : 1 ≤ sa.getD r 0 := by omega
    generalize hpdef : sa.getD r 0 = p at hp hc hp0 hp1 ⊢
    have hx' : cpred t.length p = p - 1 := by
      have := cpred_succ t.length (p - 1) (by omega)
      have e : p - 1 + 1 = p := by omega
      rwa [e] at this
    rw [hx'] at hc ⊢
    have hxl : p - 1 < t.length := by omega
    rw [rank_eq_countP t sa h (p - 1) hxl]
    -- split by the first symbol
    have hsplit : (List.range t.length).countP (fun y => lexLtB (t.drop y) (t.drop (p - 1))) =
        (List.range t.length).countP (fun y => (fun y => decide (t.getD y 0 < c)) y ||
          (fun y => decide (t.getD y 0 = c) && lexLtB (t.drop (y + 1)) (t.drop p)) y) := by
      apply List.countP_congr
      intro y hy
      rw [List.mem_range] at hy
      rw [lexLtB_drop t y (p - 1) hy hxl, ← hc]
      have e : p - 1 + 1 = p := by omega
      rw [e]
    rw [hsplit, countP_add_of_disjoint]
    · have h1 : (List.range t.length).countP (fun y => decide (t.getD y 0 < c)) = lessRef t c :=
        countP_range_getD t (fun x => decide (x < c))
      rw [h1]
      -- reindex the second count by rows
      have h2 : (List.range t.length).countP
            (fun y => decide (t.getD y 0 = c) && lexLtB (t.drop (y + 1)) (t.drop p)) =
          ((bwtRef t sa).take r).count c := by
        rw [← (map_cpred_sa_perm t sa h).countP_eq, List.countP_map]
        have hsa := countP_range_getD sa
          ((fun y => decide (t.getD y 0 = c) && lexLtB (t.drop (y + 1)) (t.drop p)) ∘ cpred t.length)
        rw [h.length] at hsa
        rw [← hsa, ← countP_rows_lt (bwtRef t sa) c r (by rw [hbl]; omega), hbl]
        apply List.countP_congr
        intro r' hr'
        rw [List.mem_range] at hr'
        simp only [Function.comp]
        rw [← bwtRef_getD t sa h r' hr']
        by_cases hbc : (bwtRef t sa).getD r' 0 = c
        · simp only [hbc, decide_true, Bool.true_and, decide_eq_true_eq]
          have hp' := h.getD_lt r' hr'
          have hp'1 : 1 ≤ sa.getD r' 0 := by
            apply Nat.pos_of_ne_zero
            intro hz
            have hb := bwtRef_getD t sa h r' hr'
            rw [hz, cpred_zero _ hs.pos, hbc, hc] at hb
            have := hs.uniq (p - 1) hxl hb
            omega
          have hx2 : cpred t.length (sa.getD r' 0) + 1 = sa.getD r' 0 := by
            have := cpred_succ t.length (sa.getD r' 0 - 1) (by omega)
            have e : sa.getD r' 0 - 1 + 1 = sa.getD r' 0 := by omega
            rw [e] at this; omega
          rw [hx2, lexLtB_iff]
          constructor
          · intro hlt
            have := h.rank_lt_of_lt (sa.getD r' 0) p hp' hp (by rw [← hpdef] at hlt ⊢; exact hlt)
            rw [h.rank_getD r' hr', ← hpdef, h.rank_getD r hr] at this
            exact this
          · intro hlt
            have := h.lt_of_rank_lt r' r hlt hr
            rw [hpdef] at this; exact this
        · rw [show decide ((bwtRef t sa).getD r' 0 = c) = false from decide_eq_false hbc]
          simp
      rw [h2]; omega
    · intro y _ hboth
      simp only [decide_eq_true_eq, Bool.and_eq_true] at hboth
      omega

end RbV.LFMap
