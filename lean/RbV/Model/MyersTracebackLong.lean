import RbV.Model.MyersTraceback
import RbV.Model.MyersLong
/-!
Mirror model of the traceback of the block-based Myers matcher (`long.rs: LongStatesHandler`, `LongTracebackHandler`;
the loop is the same `traceback.rs: _traceback_at`) (C10 phase 3; proved: `Thm/C10.lean: traceback_long_model_sound`,
lemmas in `Lemmas/TracebackLong{Geom,Inv,Moves,Step,Loop,Store,Sound}.lean`).  Core Lean only.

A column of the states vector has `nb = ⌈m / w⌉` slots.  `add_state` copies the blocks the search has computed for the
column (`States::step` of the C09 model: band-limited) and, if there are fewer than `nb`, puts a sentinel block
(`dist = usize::MAX`, `pv = mv = 0`) below them; slots further down keep whatever they held before.  The handler keeps
the index of the block under the cursor of the current (`blockPos`) and of the left column (`leftBlockPos`), a copy of
these two blocks and references to the two columns.  `usize` distances: `Nat` with `wrapping_add` in the Subst test and
the `u64` wrap-around of `adjust_by_mask` modelled with `umax = 2^64 − 1`; `-= 1` is truncated subtraction.
-/
namespace RbV.Model.MyersTracebackLong
open RbV.EditDist
open RbV.Model.MyersSimple (St)
open RbV.Model.MyersTraceback (popc adjustDist maxSt readSlot)

def umax : Nat := 2 ^ 64 - 1

/-- `State::adjust_by_mask` in `u64` arithmetic -/
def adjustByMaskU {w : Nat} (s : St w) (mask : BitVec w) : St w :=
  { s with dist := ((s.dist + popc (s.mv &&& mask)) % (umax + 1) + (umax + 1) - popc (s.pv &&& mask)) % (umax + 1) }

def dflt {w : Nat} : St w := ⟨0#w, 0#w, 0⟩

structure LHandler (w : Nat) where
  blockPos : Nat
  leftBlockPos : Nat
  col : Array (St w)
  leftCol : Array (St w)
  block : St w
  leftBlock : St w
  leftMaxMask : BitVec w
  pos : BitVec w
  leftMask : BitVec w
  taken : Nat

/-- `LongTracebackHandler::new(n_blocks, m, pos, states)`; `rd k` = `k`-th column (chunk of `nb` states) of the reversed
cyclic iterator -/
def LHandler.new {w : Nat} (nb m : Nat) (rd : Nat → Array (St w)) : LHandler w :=
  let lastM := if m % w = 0 then w else m % w
  let mask0 := 1#w <<< (lastM - 1)
  let col := rd 0
  let leftCol := rd 1
  { blockPos := nb - 1, leftBlockPos := nb - 1, col := col, leftCol := leftCol,
    block := col.getD (nb - 1) dflt, leftBlock := leftCol.getD (nb - 1) dflt,
    leftMaxMask := mask0, pos := mask0,
    leftMask := if lastM ≠ 1 then 0#w else BitVec.ofNat w 0b10, taken := 2 }

def LHandler.moveUp {w : Nat} (h : LHandler w) (adjust : Bool) : LHandler w :=
  if h.pos != 1#w || h.blockPos == 0 then
    { h with block := if adjust then adjustDist h.block h.pos else h.block, pos := h.pos >>> 1 }
  else
    { h with pos := 1#w <<< (w - 1), blockPos := h.blockPos - 1,
             block := if adjust then h.col.getD (h.blockPos - 1) dflt else h.block }

def LHandler.moveUpLeft {w : Nat} (h : LHandler w) (adjust : Bool) : LHandler w :=
  if (h.leftMask &&& BitVec.ofNat w 0b10) == 0#w || h.leftBlockPos == 0 then
    { h with leftMask := (h.leftMask >>> 1) ||| h.leftMaxMask,
             leftBlock := if adjust then adjustDist h.leftBlock h.pos else h.leftBlock }
  else
    { h with leftMaxMask := 1#w <<< (w - 1), leftMask := 0#w, leftBlockPos := h.leftBlockPos - 1,
             leftBlock := if adjust then h.leftCol.getD (h.leftBlockPos - 1) dflt else h.leftBlock }

def LHandler.moveToLeft {w : Nat} (rd : Nat → Array (St w)) (h : LHandler w) : LHandler w :=
  let newLeft := rd h.taken
  { h with col := h.leftCol, leftCol := newLeft, block := h.leftBlock,
           leftBlock := adjustByMaskU (newLeft.getD h.leftBlockPos dflt) h.leftMask, taken := h.taken + 1 }

def LHandler.moveLeftDownIfBetter {w : Nat} (h : LHandler w) : Bool × LHandler w :=
  if h.leftMask != 0#w then
    if (h.leftBlock.mv &&& h.pos) != 0#w then
      (true, { h with leftBlock := { h.leftBlock with dist := h.leftBlock.dist - 1 } })
    else (false, h)
  else
    match h.leftCol[h.leftBlockPos + 1]? with
    | some b =>
      if (b.mv &&& 1#w) == 1#w then (true, { h with leftBlock := { b with dist := h.leftBlock.dist - 1 } })
      else (false, h)
    | none => (false, h)

def LHandler.finished {w : Nat} (h : LHandler w) : Bool := h.pos == 0#w && h.blockPos == 0

def LHandler.iter {w : Nat} (rd : Nat → Array (St w)) (h : LHandler w) : Op × Bool × LHandler w :=
  if (h.leftBlock.dist + 1) % (umax + 1) = h.block.dist then
    (Op.sub, true, ((h.moveUp false).moveUpLeft false).moveToLeft rd)
  else if (h.block.pv &&& h.pos) != 0#w then
    (Op.ins, false, (h.moveUp true).moveUpLeft true)
  else
    match h.moveLeftDownIfBetter with
    | (true, h') => (Op.del, true, h'.moveToLeft rd)
    | (false, h') => (Op.mat, true, ((h'.moveUp false).moveUpLeft false).moveToLeft rd)

def LHandler.loop {w : Nat} (rd : Nat → Array (St w)) : Nat → LHandler w → Nat × List Op
  | 0, _ => (0, [])
  | fuel + 1, h =>
    if h.finished then (0, []) else
      let r := LHandler.loop rd fuel (h.iter rd).2.2
      (r.1 + (if (h.iter rd).2.1 then 1 else 0), (h.iter rd).1 :: r.2)

/-- `_traceback_at`: (`h_offset`, `dist`, ops as pushed) -/
def tracebackRdL {w : Nat} (nb m : Nat) (rd : Nat → Array (St w)) (fuel : Nat) : Nat × Nat × List Op :=
  let h0 := LHandler.new nb m rd
  let r := LHandler.loop rd fuel (h0.moveUpLeft true)
  (r.1, h0.block.dist, r.2)

/-- the handler when the loop is entered: `init_traceback` then `move_up_left(true)` -/
def LHandler.start {w : Nat} (nb m : Nat) (rd : Nat → Array (St w)) : LHandler w :=
  (LHandler.new nb m rd).moveUpLeft true

/-- the handler after `n` passes through the loop body -/
def LHandler.after {w : Nat} (nb m : Nat) (rd : Nat → Array (St w)) : Nat → LHandler w
  | 0 => LHandler.start nb m rd
  | n + 1 =>
    let h := LHandler.after nb m rd n
    if h.finished then h else (h.iter rd).2.2

/-! ### the states vector: `N` columns of `nb` slots -/

/-- `LongStatesHandler::add_state(source, pos, states)` -/
def addColumn {w : Nat} (nb : Nat) (store : Array (St w)) (slot : Nat) (source : List (St w)) : Array (St w) :=
  let base := slot * nb
  let rec copy (store : Array (St w)) (i : Nat) : List (St w) → Array (St w)
    | [] => store
    | s :: r => copy (store.setIfInBounds (base + i) s) (i + 1) r
  let store := copy store 0 source
  if source.length < nb then store.setIfInBounds (base + source.length) ⟨0#w, 0#w, umax⟩ else store

/-- `set_max_state(pos)` -/
def setMaxColumn {w : Nat} (nb : Nat) (store : Array (St w)) (slot : Nat) : Array (St w) :=
  (List.range nb).foldl (fun st i => st.setIfInBounds (slot * nb + i) (maxSt w umax)) store

def readColumn {w : Nat} (nb N : Nat) (store : Array (St w)) (pos k : Nat) : Array (St w) :=
  store.extract (readSlot N pos k * nb) (readSlot N pos k * nb + nb)

/-- `_traceback_at(self.pos)` after `c` symbols: (start, dist, ops forward) -/
def tracebackNowL {w : Nat} (nb m N : Nat) (store : Array (St w)) (c : Nat) : Nat × Nat × List Op :=
  let r := tracebackRdL nb m (readColumn nb N store ((c + 1) % N)) (m + c + 2 * nb)
  (c - r.1, r.2.1, r.2.2.reverse)

def scanGoL (w : Nat) (eqv : Nat → Nat → Bool) (blks : List (List Nat)) (m k N : Nat) (want : Nat → Bool) :
    Array (St w) → List (St w) → Nat → List Nat → List (Nat × Nat × Nat × List Op)
  | store, _, c, [] => if want c then [(c, tracebackNowL blks.length m N store c)] else []
  | store, sts, c, a :: rest =>
    let sts' := RbV.Model.MyersLong.stepStates eqv blks k a sts
    (if want c then [(c, tracebackNowL blks.length m N store c)] else []) ++
      scanGoL w eqv blks m k N want (addColumn blks.length store ((c + 2) % N) sts') sts' (c + 1) rest

/-- the block-based search with threshold `k` over `t`, the states vector of `N` columns with previous contents `old`
(`N * nb` states), tracebacks at the wanted ends -/
def scanStoreL (w : Nat) (eqv : Nat → Nat → Bool) (p : List Nat) (k N : Nat) (old : List (St w)) (t : List Nat)
    (want : Nat → Bool) : List (Nat × Nat × Nat × List Op) :=
  let blks := RbV.Model.MyersLong.blocksOf w p
  let nb := blks.length
  let s0 := RbV.Model.MyersLong.initStates w blks p.length k
  scanGoL w eqv blks p.length k N want (addColumn nb (setMaxColumn nb old.toArray (0 % N)) (1 % N) s0) s0 0 t

/-! ### the function the soundness theorem is about

`scanStoreL` walks over the text once and keeps the states vector in an `Array` (as `FullMatches` / `LazyMatches` do).
`tracebackStoreL … t c` = what it reports at the end `c` (`Lemmas/TracebackLongStore.lean: scanStoreL_eq`): the search
state and the states vector after the first `c` symbols (`stateAfter`), then `_traceback_at(self.pos)`. -/

/-- one text symbol: `States::step`, then `add_state` into the slot of sequence number `c + 2`; state = (states vector,
active blocks, number of symbols consumed) -/
def stepStore (w : Nat) (eqv : Nat → Nat → Bool) (blks : List (List Nat)) (k N : Nat)
    (st : Array (St w) × List (St w) × Nat) (a : Nat) : Array (St w) × List (St w) × Nat :=
  let sts' := RbV.Model.MyersLong.stepStates eqv blks k a st.2.1
  (addColumn blks.length st.1 ((st.2.2 + 2) % N) sts', sts', st.2.2 + 1)

/-- `Traceback::new` (guard column, initial column) followed by the search over `u` -/
def stateAfter (w : Nat) (eqv : Nat → Nat → Bool) (p : List Nat) (k N : Nat) (old : List (St w)) (u : List Nat) :
    Array (St w) × List (St w) × Nat :=
  let blks := RbV.Model.MyersLong.blocksOf w p
  let nb := blks.length
  let s0 := RbV.Model.MyersLong.initStates w blks p.length k
  u.foldl (stepStore w eqv blks k N) (addColumn nb (setMaxColumn nb old.toArray (0 % N)) (1 % N) s0, s0, 0)

/-- the whole stored-state traceback of the block-based version: search the first `c` symbols of `t` with threshold `k`
storing the columns in a vector of `N` columns (`N * nb` states, previous contents `old`), then `_traceback_at` at the
column of the (exclusive) end `stop ≤ c` (`stop = c`: `traceback()` of the eager API; `stop < c`: `traceback_at(stop − 1)`
of the lazy API); (start, dist, ops forward) -/
def tracebackStoreLAt (w : Nat) (eqv : Nat → Nat → Bool) (p : List Nat) (k N : Nat) (old : List (St w)) (t : List Nat)
    (c stop : Nat) : Nat × Nat × List Op :=
  tracebackNowL (RbV.Model.MyersLong.blocksOf w p).length p.length N (stateAfter w eqv p k N old (t.take c)).1 stop

/-- … at the current column (what `scanStoreL` reports) -/
def tracebackStoreL (w : Nat) (eqv : Nat → Nat → Bool) (p : List Nat) (k N : Nat) (old : List (St w)) (t : List Nat)
    (c : Nat) : Nat × Nat × List Op :=
  tracebackStoreLAt w eqv p k N old t c c

end RbV.Model.MyersTracebackLong
