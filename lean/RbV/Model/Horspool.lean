import RbV.Spec.Occ
import RbV.Basic.Sorted
import RbV.Basic.Slices
/-!
Mirror model of `pattern_matching::horspool`.

Rust:
```
new:   shift = [m; 256]; for (j, a) in pattern[..m-1].enumerate() { shift[a] = m - 1 - j }
next:  loop { while last < n && text[last] != pattern_last { last += shift[text[last]] }
              if last >= n { return None }
              i = last + 1 - m; j = last; last += shift[pattern_last];
              if text[i..j] == pattern[..m-1] { return Some(i) } }
```
The two nested loops advance `last` by `shift[text[last]]` in both cases and report `i` exactly when the last symbol
and the first `m-1` symbols agree; the model is the same loop written once, with fuel `n` (each round advances `last`).
-/
namespace RbV.Horspool

def shiftLoop (m : Nat) : List Nat → Nat → (Nat → Nat) → (Nat → Nat)
  | [], _, f => f
  | a :: q, j, f => shiftLoop m q (j + 1) (fun x => if x = a then m - 1 - j else f x)

def shiftTab (p : List Nat) : Nat → Nat :=
  shiftLoop p.length (p.take (p.length - 1)) 0 (fun _ => p.length)

def go (p t : List Nat) (sh : Nat → Nat) : Nat → Nat → List Nat
  | 0, _ => []
  | fuel + 1, last =>
    match t[last]? with
    | none => []                                   -- last >= n
    | some c =>
      let i := last + 1 - p.length
      let next := last + sh c
      if p[p.length - 1]? = some c ∧ (t.drop i).take (p.length - 1) = p.take (p.length - 1)
      then i :: go p t sh fuel next else go p t sh fuel next

def findAll (p t : List Nat) : List Nat := go p t (shiftTab p) t.length (p.length - 1)

/-! ### the shift table -/

theorem shiftLoop_spec (m : Nat) (q : List Nat) (j : Nat) (f : Nat → Nat) (c : Nat) :
    (c ∉ q ∧ shiftLoop m q j f c = f c) ∨
    (∃ i, i < q.length ∧ q[i]? = some c ∧ shiftLoop m q j f c = m - 1 - (j + i) ∧
      ∀ i', i < i' → q[i']? ≠ some c) := by
  induction q generalizing j f with
  | nil => left; simp [shiftLoop]
  | cons a q ih =>
    simp only [shiftLoop]
    rcases ih (j + 1) (fun x => if x = a then m - 1 - j else f x) with ⟨hn, hr⟩ | ⟨i, hi, hq, hr, hl⟩
    · by_cases hca : c = a
      · right
        refine ⟨0, by simp, by simp [hca], ?_, ?_⟩
        · rw [hr]; simp [hca]
        · intro i' hi'
          cases i' with
          | zero => omega
          | succ i' =>
            simp only [List.getElem?_cons_succ]
            intro h
            exact hn (List.mem_of_getElem? h)
      · left
        refine ⟨by simp [hca, hn], ?_⟩
        rw [hr]; simp [hca]
    · right
      refine ⟨i + 1, by simp; omega, by simpa using hq, ?_, ?_⟩
      · rw [hr]; congr 1; omega
      · intro i' hi'
        cases i' with
        | zero => omega
        | succ i' =>
          simp only [List.getElem?_cons_succ]
          exact hl i' (by omega)

theorem shift_bounds (p : List Nat) (hp : 0 < p.length) (c : Nat) :
    1 ≤ shiftTab p c ∧ shiftTab p c ≤ p.length := by
  unfold shiftTab
  rcases shiftLoop_spec p.length (p.take (p.length - 1)) 0 (fun _ => p.length) c with ⟨_, hr⟩ | ⟨i, hi, _, hr, _⟩
  · rw [hr]; omega
  · rw [hr]; simp at hi; omega

/-- no symbol `c` in the pattern strictly between the position the shift aligns and the last position -/
theorem shift_safe (p : List Nat) (hp : 0 < p.length) (c d : Nat) (hd : 0 < d) (hlt : d < shiftTab p c) :
    p[p.length - 1 - d]? ≠ some c := by
  have hb := shift_bounds p hp c
  have hidx : p.length - 1 - d < p.length - 1 := by omega
  have hq : (p.take (p.length - 1))[p.length - 1 - d]? = p[p.length - 1 - d]? :=
    List.getElem?_take_of_lt hidx
  unfold shiftTab at hlt
  rcases shiftLoop_spec p.length (p.take (p.length - 1)) 0 (fun _ => p.length) c with ⟨hn, _⟩ | ⟨i, hi, _, hr, hl⟩
  · intro h
    rw [← hq] at h
    exact hn (List.mem_of_getElem? h)
  · rw [hr] at hlt
    rw [← hq]
    apply hl
    omega

/-! ### the search loop -/

theorem no_occ_skipped (p t : List Nat) (hp : 0 < p.length) (last c s : Nat) (hl : p.length - 1 ≤ last)
    (hc : t[last]? = some c) (h1 : last + 1 - p.length < s) (h2 : s < last + 1 - p.length + shiftTab p c) :
    ¬ OccursAt p t s := by
  intro hocc
  rw [occursAt_iff_idx] at hocc
  have hb := shift_bounds p hp c
  have := hocc.2 (p.length - 1 - (s - (last + 1 - p.length))) (by omega)
  have e : s + (p.length - 1 - (s - (last + 1 - p.length))) = last := by omega
  rw [e, hc] at this
  exact shift_safe p hp c (s - (last + 1 - p.length)) (by omega) (by omega) this.symm

theorem report_iff (p t : List Nat) (hp : 0 < p.length) (last c : Nat) (hl : p.length - 1 ≤ last)
    (hc : t[last]? = some c) :
    (p[p.length - 1]? = some c ∧
      (t.drop (last + 1 - p.length)).take (p.length - 1) = p.take (p.length - 1)) ↔
    OccursAt p t (last + 1 - p.length) := by
  have hlast : last < t.length := (List.getElem?_eq_some_iff.mp hc).1
  rw [occursAt_iff_idx, take_drop_eq_iff t p _ _ (by omega) (by omega)]
  constructor
  · rintro ⟨h1, h2⟩
    refine ⟨by omega, ?_⟩
    intro k hk
    by_cases hk' : k < p.length - 1
    · exact h2 k hk'
    · have : k = p.length - 1 := by omega
      subst this
      have e : last + 1 - p.length + (p.length - 1) = last := by omega
      rw [e, hc, h1]
  · rintro ⟨_, h2⟩
    refine ⟨?_, fun k hk => h2 k (by omega)⟩
    have := h2 (p.length - 1) (by omega)
    have e : last + 1 - p.length + (p.length - 1) = last := by omega
    rw [e, hc] at this
    exact this.symm

theorem mem_go (p t : List Nat) (hp : 0 < p.length) :
    ∀ (fuel last : Nat), p.length - 1 ≤ last → t.length ≤ last + fuel → ∀ s,
      s ∈ go p t (shiftTab p) fuel last ↔ (last + 1 - p.length ≤ s ∧ OccursAt p t s) := by
  intro fuel
  induction fuel with
  | zero =>
    intro last _ hf s
    simp only [go, List.not_mem_nil, false_iff]
    rintro ⟨h1, h2, _⟩; omega
  | succ fuel ih =>
    intro last hl hf s
    simp only [go]
    cases hc : t[last]? with
    | none =>
      have : t.length ≤ last := by
        rcases Nat.lt_or_ge last t.length with h | h
        · rw [List.getElem?_eq_getElem h] at hc; simp at hc
        · exact h
      simp only [List.not_mem_nil, false_iff]
      rintro ⟨h1, h2, _⟩; omega
    | some c =>
      have hb := shift_bounds p hp c
      have ih' := ih (last + shiftTab p c) (by omega) (by omega) s
      have hrep := report_iff p t hp last c hl hc
      have hskip := no_occ_skipped p t hp last c s hl hc
      simp only []
      split
      · rename_i hcond
        have hocc := hrep.mp hcond
        simp only [List.mem_cons, ih']
        constructor
        · rintro (rfl | ⟨h1, h2⟩)
          · exact ⟨Nat.le_refl _, hocc⟩
          · exact ⟨by omega, h2⟩
        · rintro ⟨h1, h2⟩
          by_cases hs : s = last + 1 - p.length
          · left; exact hs
          · right
            refine ⟨?_, h2⟩
            rcases Nat.lt_or_ge s (last + 1 - p.length + shiftTab p c) with h | h
            · exact absurd h2 (hskip (by omega) h)
            · omega
      · rename_i hcond
        rw [ih']
        constructor
        · rintro ⟨h1, h2⟩; exact ⟨by omega, h2⟩
        · rintro ⟨h1, h2⟩
          refine ⟨?_, h2⟩
          by_cases hs : s = last + 1 - p.length
          · subst hs; exact absurd (hrep.mpr h2) hcond
          · rcases Nat.lt_or_ge s (last + 1 - p.length + shiftTab p c) with h | h
            · exact absurd h2 (hskip (by omega) h)
            · omega

theorem go_sorted (p t : List Nat) (hp : 0 < p.length) :
    ∀ (fuel last : Nat), p.length - 1 ≤ last → t.length ≤ last + fuel →
      (go p t (shiftTab p) fuel last).Pairwise (· < ·) := by
  intro fuel
  induction fuel with
  | zero => intro last _ _; simp [go]
  | succ fuel ih =>
    intro last hl hf
    simp only [go]
    cases hc : t[last]? with
    | none => simp
    | some c =>
      have hb := shift_bounds p hp c
      have ih' := ih (last + shiftTab p c) (by omega) (by omega)
      simp only []
      split
      · rw [List.pairwise_cons]
        refine ⟨?_, ih'⟩
        intro s hs
        have := (mem_go p t hp fuel (last + shiftTab p c) (by omega) (by omega) s).mp hs
        omega
      · exact ih'

/-- **Horspool is exact** for every non-empty pattern and every text. -/
theorem findAll_eq_occurrences (p t : List Nat) (hp : 0 < p.length) : findAll p t = occurrences p t := by
  apply sorted_eq_of_mem_iff _ _ _ (occurrences_sorted p t)
  · intro s
    unfold findAll
    rw [mem_go p t hp t.length (p.length - 1) (Nat.le_refl _) (by omega) s, mem_occurrences]
    constructor
    · exact fun h => h.2
    · exact fun h => ⟨by omega, h⟩
  · exact go_sorted p t hp t.length (p.length - 1) (Nat.le_refl _) (by omega)

end RbV.Horspool
