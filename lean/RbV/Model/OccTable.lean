import RbV.Model.Occ
/-
The loop of `Occ::new` with its real state: a vector of counters `curr_occ` (one per symbol value < m) and the
table `occ` (one column per symbol value < m; only the columns of the tracked symbols `alpha` are filled).

```
for (i, &c) in bwt.iter().enumerate() {
    curr_occ[c as usize] += 1;
    if i % k as usize == 0 { for &a in &alpha { occ[a].push(curr_occ[a]); } }
}
```
`occTable_col`: the column of every tracked symbol is the single-symbol loop `occNewLoop` of `RbV/Model/Occ.lean`
(hence, by `occNewLoop_eq`, the checkpoint table of the specification).
-/
namespace RbV.OccM

/-- `for &a in &alpha { occ[a].push(curr_occ[a]); }` -/
def pushAll (cur : List Nat) (alpha : List Nat) (occ : List (List Nat)) : List (List Nat) :=
  alpha.foldl (fun o a => o.modify a (· ++ [cur.getD a 0])) occ

def occTableGo (k : Nat) (alpha : List Nat) : List Nat → Nat → List Nat × List (List Nat) → List Nat × List (List Nat)
  | [], _, st => st
  | x :: xs, i, (cur, occ) =>
    let cur' := bump cur x
    occTableGo k alpha xs (i + 1) (cur', if i % k = 0 then pushAll cur' alpha occ else occ)

/-- `Occ::new(bwt, k, alphabet).occ` with `m = max_symbol + 1`, `alpha` = tracked symbols -/
def occTable (bwt : List Nat) (k : Nat) (alpha : List Nat) (m : Nat) : List (List Nat) :=
  (occTableGo k alpha bwt 0 (List.replicate m 0, List.replicate m [])).2

theorem pushAll_getElem?_of_not_mem (cur alpha : List Nat) (occ : List (List Nat)) (a : Nat) (h : a ∉ alpha) :
    (pushAll cur alpha occ)[a]? = occ[a]? := by
  unfold pushAll
  induction alpha generalizing occ with
  | nil => rfl
  | cons b bs ih =>
    rw [List.foldl_cons, ih _ (fun hm => h (List.mem_cons_of_mem _ hm)), List.getElem?_modify]
    have : b ≠ a := fun e => h (e ▸ List.mem_cons_self)
    simp [this]

theorem pushAll_getElem? (cur alpha : List Nat) (occ : List (List Nat)) (a : Nat) (hm : a ∈ alpha)
    (hnd : alpha.Nodup) : (pushAll cur alpha occ)[a]? = (occ[a]?).map (· ++ [cur.getD a 0]) := by
  induction alpha generalizing occ with
  | nil => simp at hm
  | cons b bs ih =>
    rw [List.nodup_cons] at hnd
    have hstep : pushAll cur (b :: bs) occ = pushAll cur bs (occ.modify b (· ++ [cur.getD b 0])) := by
      simp [pushAll]
    rw [hstep]
    rw [List.mem_cons] at hm
    by_cases hab : a = b
    · subst hab
      rw [pushAll_getElem?_of_not_mem _ _ _ _ hnd.1, List.getElem?_modify]
      simp
    · rcases hm with hm | hm
      · exact absurd hm hab
      · rw [ih _ hm hnd.2, List.getElem?_modify]
        have : ¬ b = a := fun e => hab e.symm
        simp [this]

theorem occTableGo_col (k : Nat) (alpha : List Nat) (a : Nat) (hm : a ∈ alpha) (hnd : alpha.Nodup)
    (xs : List Nat) (i : Nat) (cur : List Nat) (occ : List (List Nat)) (col : List Nat) (v : Nat)
    (hcur : cur[a]? = some v) (hocc : occ[a]? = some col) :
    (occTableGo k alpha xs i (cur, occ)).2[a]? = some (col ++ occLoop k a xs i v) := by
  induction xs generalizing i cur occ col v with
  | nil => simp [occTableGo, occLoop, hocc]
  | cons x xs ih =>
    simp only [occTableGo, occLoop]
    have hcur' : (bump cur x)[a]? = some (if x = a then v + 1 else v) := by
      rw [bump, List.getElem?_modify, hcur]
      by_cases h : x = a <;> simp [h]
    have hgetD : (bump cur x).getD a 0 = (if x = a then v + 1 else v) := by
      rw [List.getD_eq_getElem?_getD, hcur']; rfl
    by_cases hk : i % k = 0
    · simp only [hk, if_true]
      have hocc' : (pushAll (bump cur x) alpha occ)[a]? = some (col ++ [if x = a then v + 1 else v]) := by
        rw [pushAll_getElem? _ _ _ _ hm hnd, hocc, hgetD]; rfl
      rw [ih (i + 1) _ _ _ _ hcur' hocc']
      simp
    · simp only [hk, if_false]
      exact ih (i + 1) _ _ _ _ hcur' hocc

/-- every tracked column of the table built by the real loop is the single-symbol loop -/
theorem occTable_col (bwt : List Nat) (k : Nat) (alpha : List Nat) (m a : Nat)
    (hm : a ∈ alpha) (hnd : alpha.Nodup) (ha : a < m) :
    (occTable bwt k alpha m)[a]? = some (occNewLoop bwt k a) := by
  unfold occTable occNewLoop
  have := occTableGo_col k alpha a hm hnd bwt 0 (List.replicate m 0) (List.replicate m []) [] 0
    (by simp [ha]) (by simp [ha])
  simpa using this

end RbV.OccM
