import RbV.Spec.Containers
/-
C18 [A] — mirror model of `bio::data_structures::smallints::SmallInts<S, B>`.

`smallints : Vec<S>` is a `List Int`, `bigints : BTreeMap<usize, B>` an association list (newest binding
first; `BTreeMap::insert` replaces, which `lookup` of the first binding reproduces).  The small type is
given by its range `[lo, hi]` (`hi = S::max_value()`); `cast(v) : Option<S>` succeeds iff `lo ≤ v ≤ hi`.
Core Lean only.
-/
namespace RbV.Model.SmallInts
open RbV.Spec.SmallInts (Op)

structure St where
  small : List Int
  big : List (Nat × Int)
  deriving Repr

def new : St := { small := [], big := [] }

/-- `num_traits::cast::<B, S>(v)` -/
def cast (lo hi v : Int) : Option Int := if lo ≤ v ∧ v ≤ hi then some v else none

def lookup (m : List (Nat × Int)) (i : Nat) : Option Int :=
  match m with
  | [] => none
  | (k, v) :: r => if k = i then some v else lookup r i

/-- `from_elem(v, n)` (the assertion `v > 0 → v < max` is the caller's obligation) -/
def fromElem (v : Int) (n : Nat) : St := { small := List.replicate n v, big := [] }

/-- `fn real_value(&self, i, v: S) -> Option<B>` -/
def realValue (hi : Int) (s : St) (i : Nat) (v : Int) : Option Int :=
  if v < hi then some v else lookup s.big i

/-- `pub fn get(&self, i) -> Option<B>` -/
def get (hi : Int) (s : St) (i : Nat) : Option Int :=
  if h : i < s.small.length then realValue hi s i s.small[i] else none

/-- `pub fn push(&mut self, v: B)` -/
def push (lo hi : Int) (s : St) (v : Int) : St :=
  match cast lo hi v with
  | some x => if x < hi then { s with small := s.small ++ [x] }
              else { small := s.small ++ [hi], big := (s.small.length, v) :: s.big }
  | none => { small := s.small ++ [hi], big := (s.small.length, v) :: s.big }

/-- `pub fn set(&mut self, i, v: B)` -/
def set (lo hi : Int) (s : St) (i : Nat) (v : Int) : St :=
  match cast lo hi v with
  | some x => if x < hi then { s with small := s.small.set i x }
              else { small := s.small.set i hi, big := (i, v) :: s.big }
  | none => { small := s.small.set i hi, big := (i, v) :: s.big }

def step (lo hi : Int) (s : St) : Op → St
  | .push v => push lo hi s v
  | .set i v => set lo hi s i v
  | .get _ => s
  | .iter => s
  | .decompress => s

/-- `iter()` / `decompress()`: `real_value(i, smallints[i])` for every `i`, stopping at the first `None` -/
def iterFrom (hi : Int) (s : St) : List Int → Nat → List Int
  | [], _ => []
  | v :: r, i =>
    match realValue hi s i v with
    | some x => x :: iterFrom hi s r (i + 1)
    | none => []

def toList (hi : Int) (s : St) : List Int := iterFrom hi s s.small 0

end RbV.Model.SmallInts
