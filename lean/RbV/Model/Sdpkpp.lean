import RbV.Model.Lcskpp
/-!
# C19 — mirror model of `bio::alignment::sparse::sdpkpp` and `sdpkpp_union_lcskpp_path` (core Lean only)

Same event sweep as `lcskpp` (`RbV/Model/Lcskpp.lean`: events, sort, traceback are shared), but the max-Fenwick tree holds
`PrevPtr { plane, score, d, id, x, y }` records (derived lexicographic `Ord` in field order), a start event turns the best
record of the prefix into a gap-penalised candidate, an end event publishes `PrevPtr::new(dp[p].0, ev.0, ev.1, p, gap_extend)`.
`gap_open` / `gap_extend` are given as magnitudes (`_gap_open = (-gap_open) as u32`), so the assertion "gap parameters
cannot be positive" holds by construction.  `u32` is unbounded `Nat`; `saturating_sub` and the plain `cur - prev`
subtractions are `Nat` subtraction (the plain ones never go below zero on the processing order, see the notes).
-/
namespace RbV.Model.Sdpkpp
open RbV.KChain RbV.Model.Lcskpp

structure PrevPtr where
  plane : Nat
  score : Nat
  d : Nat
  id : Nat
  x : Nat
  y : Nat
deriving DecidableEq, Repr

/-- `PrevPtr::default()` -/
def dfltPP : PrevPtr := ⟨0, 0, 0, 0, 0, 0⟩

/-- `PrevPtr::new(score, x, y, id, gap_extend)` -/
def PrevPtr.new (score x y id gapExtend : Nat) : PrevPtr :=
  let d := x + y
  { plane := score + d * gapExtend, score := score, d := d, id := id, x := x, y := y }

/-- derived `Ord` on `PrevPtr`: `a ≤ b` -/
def ppLe (a b : PrevPtr) : Bool :=
  a.plane < b.plane || (a.plane == b.plane && (a.score < b.score || (a.score == b.score && (a.d < b.d || (a.d == b.d &&
    (a.id < b.id || (a.id == b.id && (a.x < b.x || (a.x == b.x && a.y ≤ b.y)))))))))

/-- `std::cmp::max` on `PrevPtr` -/
def maxPP (a b : PrevPtr) : PrevPtr := if ppLe a b then b else a

structure St where
  tree : List PrevPtr
  dp : List (Nat × Int)
  best : Nat × Int

/-- body of `for ev in events` -/
def stepEv (ms : List M) (k matchScore gapOpen gapExtend : Nat) (s : St) (ev : Ev) : St :=
  let len := ms.length
  let p := ev.2.2 % len
  let j := ev.2.1
  if ev.2.2 ≥ len then
    -- "Default case -- chain starts at this node"
    let dp1 := s.dp.set p (k * matchScore, -1)
    -- "Find best previous chain, and extend."
    let bp := Fenwick.get maxPP dfltPP s.tree j
    if bp.score > 0 then
      let gap := max (ev.1 - bp.x) (ev.2.1 - bp.y)
      let gapPenalty := if gap > 0 then gapOpen + gap * gapExtend else 0
      let reward := k * matchScore
      let newScore := (bp.score + reward) - gapPenalty
      let dp2 := dp1.set p (maxNI (dp1.getD p (0, 0)) (newScore, (bp.id : Int)))
      { s with dp := dp2, best := maxNI s.best ((dp2.getD p (0, 0)).1, (p : Int)) }
    else { s with dp := dp1 }
  else
    let s1 : St :=
      if ev.1 > k && ev.2.1 > k then
        match findFrom (ev.1 - k - 1, ev.2.1 - k - 1) 0 ms with
        | some c =>
          let cand : Nat × Int := ((s.dp.getD c (0, 0)).1 + matchScore, (c : Int))
          let dp1 := s.dp.set p (maxNI (s.dp.getD p (0, 0)) cand)
          { s with dp := dp1, best := maxNI s.best ((dp1.getD p (0, 0)).1, (p : Int)) }
        | none => s
      else s
    { s1 with tree := Fenwick.set maxPP dfltPP s1.tree ev.2.1 (PrevPtr.new (s1.dp.getD p (0, 0)).1 ev.1 ev.2.1 p gapExtend) }

def initSt (ms : List M) (k : Nat) : St :=
  { tree := Fenwick.new dfltPP (nFrom k 0 ms)
    dp := List.replicate (2 * ms.length) (0, 0)
    best := (k, 0) }

def sweep (ms : List M) (k matchScore gapOpen gapExtend : Nat) : St :=
  (sortedEvents ms k).foldl (stepEv ms k matchScore gapOpen gapExtend) (initSt ms k)

/-- `sdpkpp(matches, k, match_score, -gapOpen, -gapExtend)` -/
def sdpkpp (ms : List M) (k matchScore gapOpen gapExtend : Nat) : Except String Res :=
  if ms.isEmpty then .ok { path := [], score := 0, dp := [] }
  else if !sortedStrict ms then .error "incoming matches must be sorted"
  else
    let s := sweep ms k matchScore gapOpen gapExtend
    match traceLoop s.dp (ms.length + 1) s.best.2 with
    | none => .error "traceback out of fuel"
    | some tb => .ok { path := tb.reverse, score := s.best.1, dp := s.dp }

/-- contract of `path.binary_search(&key)` on a strictly ascending path: `Ok(i)` with `path[i] == key`, or `Err` -/
def findIdx (key : Nat) : Nat → List Nat → Option Nat
  | _, [] => none
  | i, a :: r => if a = key then some i else findIdx key (i + 1) r

/-- `sdpkpp_union_lcskpp_path` -/
def unionPath (ms : List M) (k matchScore gapOpen gapExtend : Nat) : Except String (List Nat) :=
  if ms.isEmpty then .ok []
  else
    match lcskpp ms k, sdpkpp ms k matchScore gapOpen gapExtend with
    | .ok l, .ok s =>
      match s.path.head?, s.path.getLast? with
      | some first, some last =>
        let pre := (findIdx first 0 l.path).getD 0
        let post := match findIdx last 0 l.path with
          | some ind => ind + 1
          | none => l.path.length
        .ok (l.path.take pre ++ s.path ++ l.path.drop post)
      | _, _ => .error "index out of bounds"   -- `sdpkpp_al.path[0]` on an empty path
    | .error e, _ => .error e
    | _, .error e => .error e

end RbV.Model.Sdpkpp
