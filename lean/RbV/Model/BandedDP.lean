import RbV.Spec.Align
import RbV.Model.PairwiseFill
import RbV.Model.Band
/-!
Mirror of `banded::Aligner::compute_alignment` (src/alignment/pairwise/banded.rs), statement by statement: the cell
budget guard, `degenerate_alignment` for an empty sequence, the two rolling columns `S/I/D` (index `j % 2`, **with** the
stale values of column `j - 2` outside the band unless the code resets them), the resets of out-of-band cells to
`MIN_SCORE`, the trackers `Sn/Ly` (best y-suffix clip per row) and `S[curr][m]/Lx` (x-suffix clip per column), the
traceback matrix (three fields per cell, `get_mut(..).set_s_bits` writes included), the loops after the outer loop
("Handle suffix clipping in the j=n case", "recompute the last column of I", the loops over row 0 and column 0), the
traceback `loop` (shared with the unbanded mirror: `PairwiseFill.tbStep`/`tbLoop`, same state machine in the Rust
text) and the completion "when the traceback ends outside the band other than at (0, 0)".

`i32` is `Int`, `usize` is `Nat`.  Array reads are `getD` (default `MIN_SCORE` / 0 / `TB_START`), writes are
`setIfInBounds`: where the Rust text would index out of bounds the model reads the default / writes nothing; that the
indices are in range for every band the constructions produce is `band_ranges_in_bounds` (`Thm/C02.lean`).  `i -= 1`
on `usize` is truncated here (the Rust text would panic on underflow).

The driver runs `computeAlignment` on every call next to the implementation, on the band of `Model/Band.lean`, and
compares the whole result (score, coordinates, operations): `band-model=impl`; a difference is `drift-band-model`.
-/
namespace RbV.Model.BandedDP
open RbV.Align
open RbV.Model.PairwiseFill (Tb Table TbState tbStep tbLoop)

/-- what the fill leaves behind -/
structure Filled where
  /-- `S[0] ++ S[1]` (`S[k][i]` at `k * (m+1) + i`) -/
  S : Array Int
  I : Array Int
  D : Array Int
  Lx : Array Nat
  Ly : Array Nat
  Sn : Array Int
  /-- S / I / D fields of `traceback[i][j]` at `i * (n+1) + j` -/
  tS : Array Tb
  tI : Array Tb
  tD : Array Tb
  /-- `S[n % 2][m]` -/
  score : Int

/-- `a..b` -/
def rng (a b : Nat) : List Nat := List.range' a (b - a)

/-- values and traceback fields of one cell -/
structure CellOut where
  s : Int
  i : Int
  d : Int
  ts : Tb
  ti : Tb
  td : Tb

/-- `best_i_score` and the I field: extend the insertion of the row above (`i_score`), open one after `S[curr][i-1]`
(`s_score`, the I field then copies the S field of `(i-1, j)`), or - last column only - continue after the suffix clip (y)
tracked in `Sn[i-1]` (`clip_score`) -/
def pickI (sc : Sc) (iUp sUp : Int) (tsUp : Tb) (clipI : Option Int) : Int × Tb :=
  let i_score := iUp + sc.ge
  let s_score := sUp + sc.go + sc.ge
  let bi : Int × Tb := if i_score > s_score then (i_score, .ins) else (s_score, tsUp)
  match clipI with
  | some c => if c > bi.1 then (c, .ysuf) else bi
  | none => bi

/-- `best_d_score` and the D field -/
def pickD (sc : Sc) (dLeft sLeft gox : Int) (tsLeft : Tb) : Int × Tb :=
  let d_score := dLeft + sc.ge
  let s_score := sLeft + gox + sc.ge
  if d_score > s_score then (d_score, .del) else (s_score, tsLeft)

/-- `best_s_score` and the S field: the candidates in the order of the Rust text, each replacing the current best only
when strictly better -/
def pickS (isM eq : Bool) (m_score base bi bd xclip yclip : Int) : Int × Tb :=
  let bs : Int × Tb := (base, if isM then .xsuf else .start)
  let bs : Int × Tb := if m_score > bs.1 then (m_score, if eq then .mat else .subst) else bs
  let bs : Int × Tb := if bi > bs.1 then (bi, .ins) else bs
  let bs : Int × Tb := if bd > bs.1 then (bd, .del) else bs
  let bs : Int × Tb := if xclip > bs.1 then (xclip, .xpre) else bs
  if yclip > bs.1 then (yclip, .ypre) else bs

/-- One in-band cell `(i, j)`, `i ≥ 1`, `j ≥ 1`, of the main loop of `compute_alignment` as a function of what the loop
body reads: `sDiag = S[prev][i-1]`, `iUp = I[curr][i-1]`, `sUp = S[curr][i-1]`, `dLeft = D[prev][i]`,
`sLeft = S[prev][i]`, `base` = `S[curr][i]` after `if i == m { … } else { S[curr][i] = MIN_SCORE }`, `tsUp`/`tsLeft` = the
S fields of `(i-1, j)` / `(i, j-1)`, `clipI` = `clip_score` of the last column (`none` for `j < n`), `gox` = the gap-open
charged for a deletion after `S[prev][i]` (`gap_open`, or `gap_open_after_xclip(m, j - 1)` in row m), `w` = the
substitution score of the two symbols (`eq`: they are equal), `xclip`/`yclip` = `xclip_score`/`yclip_score`.
`fill` calls this function; `Lemmas/BandedSound.lean` proves that it maps junk-or-witnessed inputs to junk-or-witnessed
outputs. -/
def cellStep (sc : Sc) (isM eq : Bool) (w sDiag iUp sUp dLeft sLeft base : Int) (tsUp tsLeft : Tb)
    (clipI : Option Int) (gox xclip yclip : Int) : CellOut :=
  let bi := pickI sc iUp sUp tsUp clipI
  let bd := pickD sc dLeft sLeft gox tsLeft
  let bs := pickS isM eq (sDiag + w) base bi.1 bd.1 xclip yclip
  ⟨bs.1, bi.1, bd.1, bs.2, bi.2, bd.2⟩

/-- the fill of `compute_alignment` for `m, n ≥ 1` (`rg` = `band.ranges`) -/
def fill (sc : Sc) (cl : Clip) (x y : Array Nat) (rg : Array (Nat × Nat)) : Filled := Id.run do
  let m := x.size
  let n := y.size
  let cols := n + 1
  let rows := m + 1
  let MIN := minScore
  let go := sc.go
  let ge := sc.ge
  let xp := cl.xp
  let xs := cl.xs
  let yp := cl.yp
  let ys := cl.ys
  let rgS (j : Nat) : Nat := (rg.getD j (0, 0)).1
  let rgE (j : Nat) : Nat := (rg.getD j (0, 0)).2
  -- self.traceback.init(m, n)
  let mut tS : Array Tb := Array.replicate (rows * cols) .start
  let mut tI : Array Tb := Array.replicate (rows * cols) .start
  let mut tD : Array Tb := Array.replicate (rows * cols) .start
  let mut S : Array Int := Array.replicate (2 * rows) MIN
  let mut I : Array Int := Array.replicate (2 * rows) MIN
  let mut D : Array Int := Array.replicate (2 * rows) MIN
  let mut Lx : Array Nat := Array.replicate (n + 1) 0
  let mut Ly : Array Nat := Array.replicate (m + 1) 0
  let mut Sn : Array Int := Array.replicate (m + 1) MIN
  -- ---------------------------------------------------------------- Handle j = 0
  let curr := 0
  let i_start := rgS 0
  let i_end := rgE 0
  if i_start = 0 then
    S := S.setIfInBounds (curr * rows + 0) 0
  for i in rng (max 1 i_start) i_end do
    -- let mut tb = TracebackCell::new(); tb.set_all(TB_START);
    let mut ts : Tb := .start
    let mut ti : Tb := .start
    let td : Tb := .start
    if i = 1 then
      I := I.setIfInBounds (curr * rows + i) (go + ge)
      ti := .start
    else
      let i_score := go + ge * (i : Int)
      let c_score := xp + go + ge
      if i_score > c_score then
        I := I.setIfInBounds (curr * rows + i) i_score
        ti := .ins
      else
        I := I.setIfInBounds (curr * rows + i) c_score
        ti := .xpre
    if i = m then
      ts := .xsuf
    if I.getD (curr * rows + i) MIN > S.getD (curr * rows + i) MIN then
      S := S.setIfInBounds (curr * rows + i) (I.getD (curr * rows + i) MIN)
      ts := .ins
    if xp > S.getD (curr * rows + i) MIN then
      S := S.setIfInBounds (curr * rows + i) xp
      ts := .xpre
    -- Track the score if we do a suffix clip (x) after this character
    if S.getD (curr * rows + i) MIN + xs > S.getD (curr * rows + m) MIN then
      S := S.setIfInBounds (curr * rows + m) (S.getD (curr * rows + i) MIN + xs)
      Lx := Lx.setIfInBounds 0 (m - i)
      tS := tS.setIfInBounds (m * cols + 0) .xsuf
    -- self.traceback.set(i, 0, tb)
    tS := tS.setIfInBounds (i * cols + 0) ts
    tI := tI.setIfInBounds (i * cols + 0) ti
    tD := tD.setIfInBounds (i * cols + 0) td
  for i in rng i_end (min (m + 1) (rgE (min n 1))) do
    S := S.setIfInBounds (curr * rows + i) MIN
    I := I.setIfInBounds (curr * rows + i) MIN
  if i_end < m + 1 then
    S := S.setIfInBounds (curr * rows + m) MIN
  -- Track the score if we do clip (y) from origin
  if yp > ys then
    Sn := Sn.setIfInBounds 0 yp
    tS := tS.setIfInBounds (0 * cols + n) .ypre
  else
    Sn := Sn.setIfInBounds 0 ys
    Ly := Ly.setIfInBounds 0 n
    tS := tS.setIfInBounds (0 * cols + n) .ysuf
  -- ... or delete all of y (the move the loop over row 0 records at (0, n)); proposed_fixes/C02-row0-pointer.patch
  let d_n := go + ge * (n : Int)
  if d_n > Sn.getD 0 MIN then
    Sn := Sn.setIfInBounds 0 d_n
    Ly := Ly.setIfInBounds 0 0
    tS := tS.setIfInBounds (0 * cols + n) .del
  -- ---------------------------------------------------------------- for j in 1..=n
  for j in rng 1 (n + 1) do
    let curr := j % 2
    let prev := 1 - curr
    let i_start := rgS j
    let i_end := rgE j
    if i_start = 0 then
      -- Handle i = 0
      let mut ts : Tb := .start
      let ti : Tb := .start
      let mut td : Tb := .start
      I := I.setIfInBounds (curr * rows + 0) MIN
      if j = 1 then
        D := D.setIfInBounds (curr * rows + 0) (go + ge)
        td := .start
      else
        let d_score := go + ge * (j : Int)
        let c_score := yp + go + ge
        if d_score > c_score then
          D := D.setIfInBounds (curr * rows + 0) d_score
          td := .del
        else
          D := D.setIfInBounds (curr * rows + 0) c_score
          td := .ypre
      if D.getD (curr * rows + 0) MIN > yp then
        S := S.setIfInBounds (curr * rows + 0) (D.getD (curr * rows + 0) MIN)
        ts := .del
      else
        S := S.setIfInBounds (curr * rows + 0) yp
        ts := .ypre
      -- Track the score if we do suffix clip (y) from here
      if S.getD (curr * rows + 0) MIN + ys > Sn.getD 0 MIN then
        Sn := Sn.setIfInBounds 0 (S.getD (curr * rows + 0) MIN + ys)
        Ly := Ly.setIfInBounds 0 (n - j)
        tS := tS.setIfInBounds (0 * cols + n) .ysuf
      tS := tS.setIfInBounds (0 * cols + j) ts
      tI := tI.setIfInBounds (0 * cols + j) ti
      tD := tD.setIfInBounds (0 * cols + j) td
    for i in rng (i_start - 1) i_start do
      S := S.setIfInBounds (curr * rows + i) MIN
      I := I.setIfInBounds (curr * rows + i) MIN
      D := D.setIfInBounds (curr * rows + i) MIN
    S := S.setIfInBounds (curr * rows + m) MIN
    let q := y.getD (j - 1) 0
    let xclip_score := xp + max (if j = n then max yp (Sn.getD 0 MIN) else yp) (go + ge * (j : Int))
    for i in rng (max 1 i_start) i_end do
      let p := x.getD (i - 1) 0
      -- gap_open_after_yclip(i - 1, n): the clipped path of `Sn[i-1]` ends with an insertion ⇒ same gap, no gap_open
      let go_y := if tS.getD ((i - 1) * cols + (n - Ly.getD (i - 1) 0)) .start = .ins then 0 else go
      let clipI : Option Int := if j = n then some (Sn.getD (i - 1) MIN + go_y + ge) else none
      -- gap_open_after_xclip(m, j - 1): row m of the previous column is a suffix clip (x) of a path ending with a deletion
      let go_x := if i = m then
          (if tS.getD (m * cols + (j - 1)) .start = .xsuf ∧
              tS.getD ((m - Lx.getD (j - 1) 0) * cols + (j - 1)) .start = .del then 0 else go)
        else go
      let yclip_score := yp + go + ge * (i : Int)
      let c := cellStep sc (i = m) (p = q) (sc.w p q)
        (S.getD (prev * rows + (i - 1)) MIN) (I.getD (curr * rows + (i - 1)) MIN) (S.getD (curr * rows + (i - 1)) MIN)
        (D.getD (prev * rows + i) MIN) (S.getD (prev * rows + i) MIN)
        (if i = m then S.getD (curr * rows + i) MIN else MIN)
        (tS.getD ((i - 1) * cols + j) .start) (tS.getD (i * cols + (j - 1)) .start) clipI go_x xclip_score yclip_score
      let ts := c.ts
      let ti := c.ti
      let td := c.td
      S := S.setIfInBounds (curr * rows + i) c.s
      I := I.setIfInBounds (curr * rows + i) c.i
      D := D.setIfInBounds (curr * rows + i) c.d
      -- Track the score if we do suffix clip (x) from here
      if S.getD (curr * rows + i) MIN + xs > S.getD (curr * rows + m) MIN then
        S := S.setIfInBounds (curr * rows + m) (S.getD (curr * rows + i) MIN + xs)
        Lx := Lx.setIfInBounds j (m - i)
        tS := tS.setIfInBounds (m * cols + j) .xsuf
      -- Track the score if we do suffix clip (y) from here
      if S.getD (curr * rows + i) MIN + ys > Sn.getD i MIN then
        Sn := Sn.setIfInBounds i (S.getD (curr * rows + i) MIN + ys)
        Ly := Ly.setIfInBounds i (n - j)
        tS := tS.setIfInBounds (i * cols + n) .ysuf
      -- self.traceback.set(i, j, tb)
      tS := tS.setIfInBounds (i * cols + j) ts
      tI := tI.setIfInBounds (i * cols + j) ti
      tD := tD.setIfInBounds (i * cols + j) td
    -- Suffix clip (y) from i = m and reset Sn[m] if required
    if S.getD (curr * rows + m) MIN + ys > Sn.getD m MIN then
      Sn := Sn.setIfInBounds m (S.getD (curr * rows + m) MIN + ys)
      Ly := Ly.setIfInBounds m (n - j)
      tS := tS.setIfInBounds (m * cols + n) .ysuf
    if i_end < m + 1 then
      tS := tS.setIfInBounds (m * cols + j) .xsuf
      S := S.setIfInBounds (curr * rows + m) MIN
    for i in rng i_end (min (m + 1) (rgE (min n (j + 1)))) do
      S := S.setIfInBounds (curr * rows + i) MIN
      I := I.setIfInBounds (curr * rows + i) MIN
      D := D.setIfInBounds (curr * rows + i) MIN
  -- ---------------------------------------------------------------- Handle suffix clipping in the j=n case
  let j := n
  let curr := j % 2
  for i in rng 0 (m + 1) do
    if i ≠ m ∧ (i < rgS j ∨ i > rgE j) then
      S := S.setIfInBounds (curr * rows + i) MIN
    if Sn.getD i MIN > S.getD (curr * rows + i) MIN then
      S := S.setIfInBounds (curr * rows + i) (Sn.getD i MIN)
      tS := tS.setIfInBounds (i * cols + j) .ysuf
    if S.getD (curr * rows + i) MIN + xs > S.getD (curr * rows + m) MIN then
      S := S.setIfInBounds (curr * rows + m) (S.getD (curr * rows + i) MIN + xs)
      Lx := Lx.setIfInBounds j (m - i)
      tS := tS.setIfInBounds (m * cols + j) .xsuf
  -- ---------------------------------------------------------------- recompute the last column of I
  for i in rng (max 1 (rgS n)) (rgE n) do
    let go_y := if tS.getD ((i - 1) * cols + j) .start = .ysuf then
        (if tS.getD ((i - 1) * cols + (n - Ly.getD (i - 1) 0)) .start = .ins then 0 else go)
      else go
    let s_score := S.getD (curr * rows + (i - 1)) MIN + go_y + ge
    if s_score > I.getD (curr * rows + i) MIN then
      I := I.setIfInBounds (curr * rows + i) s_score
      let s_bit := tS.getD ((i - 1) * cols + j) .start
      tI := tI.setIfInBounds (i * cols + j) s_bit
    if s_score > S.getD (curr * rows + i) MIN then
      S := S.setIfInBounds (curr * rows + i) s_score
      tS := tS.setIfInBounds (i * cols + j) .ins
      if S.getD (curr * rows + i) MIN + xs > S.getD (curr * rows + m) MIN then
        S := S.setIfInBounds (curr * rows + m) (S.getD (curr * rows + i) MIN + xs)
        Lx := Lx.setIfInBounds j (m - i)
        tS := tS.setIfInBounds (m * cols + j) .xsuf
  -- ---------------------------------------------------------------- row 0
  for j in rng 1 (n + 1) do
    let d_score := go + ge * (j : Int)
    if d_score > yp then
      tS := tS.setIfInBounds (0 * cols + j) .del
    else
      tS := tS.setIfInBounds (0 * cols + j) .ypre
    if j = n then
      let mut best_score := max d_score yp
      if ys > best_score then
        best_score := ys
        tS := tS.setIfInBounds (0 * cols + j) .ysuf
      if xs + best_score > S.getD ((n % 2) * rows + m) MIN then
        S := S.setIfInBounds ((n % 2) * rows + m) (xs + best_score)
        Lx := Lx.setIfInBounds n m
        tS := tS.setIfInBounds (m * cols + n) .xsuf
  -- ---------------------------------------------------------------- column 0
  for i in rng 1 (m + 1) do
    let c_score := go + ge * (i : Int)
    if c_score > xp then
      tS := tS.setIfInBounds (i * cols + 0) .ins
    else
      tS := tS.setIfInBounds (i * cols + 0) .xpre
    if i = m then
      let mut best_score := max c_score xp
      if xs > best_score then
        best_score := xs
        tS := tS.setIfInBounds (i * cols + 0) .xsuf
      if ys + best_score > S.getD ((n % 2) * rows + m) MIN then
        S := S.setIfInBounds ((n % 2) * rows + m) (ys + best_score)
        Ly := Ly.setIfInBounds m n
        tS := tS.setIfInBounds (m * cols + n) .ysuf
  return ⟨S, I, D, Lx, Ly, Sn, tS, tI, tD, S.getD ((n % 2) * rows + m) MIN⟩

/-- the traceback matrix, `Lx`, `Ly` as the traceback `loop` reads them -/
def Filled.table (f : Filled) (m n : Nat) : Table :=
  { m := m, n := n
    tS := fun i j => f.tS.getD (i * (n + 1) + j) .start
    tI := fun i j => f.tI.getD (i * (n + 1) + j) .start
    tD := fun i j => f.tD.getD (i * (n + 1) + j) .start
    lx := fun j => f.Lx.getD j 0
    ly := fun i => f.Ly.getD i 0 }

/-- fuel for the traceback `loop`: every iteration consumes a symbol or is one of a bounded number of clips -/
def tbFuel (m n : Nat) : Nat := 2 * (m + n) + 16

/-- "Handle the case when the traceback ends outside the band other than at (0, 0)" and `operations.reverse()`
(`st.ops` is kept in forward order, so what the code pushes last comes first) -/
def completion (sc : Sc) (cl : Clip) (st : TbState) : TbState :=
  let st1 : TbState :=
    if st.i ≠ 0 then
      let i_score := sc.go + sc.ge * (st.i : Int)
      if i_score > cl.xp then { st with ops := List.replicate st.i (.core .ins) ++ st.ops, xstart := 0 }
      else { st with ops := .xclip st.i :: st.ops, xstart := st.i }
    else st
  if st.j ≠ 0 then
    let d_score := sc.go + sc.ge * (st.j : Int)
    if d_score > cl.yp then { st1 with ops := List.replicate st.j (.core .del) ++ st1.ops, ystart := 0 }
    else { st1 with ops := .yclip st.j :: st1.ops, ystart := st.j }
  else st1

/-- `Aligner::degenerate_alignment(m, n)` (`m = 0` or `n = 0`) -/
def degenerate (sc : Sc) (cl : Clip) (m n : Nat) : Out :=
  if m > 0 then
    let gap := sc.go + sc.ge * (m : Int)
    if gap ≥ cl.xp ∧ gap ≥ cl.xs then ⟨gap, 0, m, 0, n, m, n, List.replicate m (.core .ins)⟩
    else if cl.xp ≥ cl.xs then ⟨cl.xp, m, m, 0, n, m, n, [.xclip m]⟩
    else ⟨cl.xs, 0, 0, 0, n, m, n, [.xclip m]⟩
  else if n > 0 then
    let gap := sc.go + sc.ge * (n : Int)
    if gap ≥ cl.yp ∧ gap ≥ cl.ys then ⟨gap, 0, m, 0, n, m, n, List.replicate n (.core .del)⟩
    else if cl.yp ≥ cl.ys then ⟨cl.yp, 0, m, n, n, m, n, [.yclip n]⟩
    else ⟨cl.ys, 0, m, 0, 0, m, n, [.yclip n]⟩
  else ⟨0, 0, m, 0, n, m, n, []⟩

/-- the documented empty alignment of the budget guard -/
def sentinel : Out := ⟨minScore, 0, 0, 0, 0, 0, 0, []⟩

/-- `compute_alignment(x, y)` on the band `b`; `none` = the traceback `loop` did not stop within `tbFuel` iterations -/
def computeAlignment (sc : Sc) (cl : Clip) (x y : List Nat) (b : Band.Band) : Option Out :=
  if Band.overBudget b then some sentinel else
  let m := x.length
  let n := y.length
  if m = 0 ∨ n = 0 then some (degenerate sc cl m n) else
  let f := fill sc cl x.toArray y.toArray b.ranges.toArray
  let T := f.table m n
  match tbLoop T (tbFuel m n) ⟨m, n, T.tS m n, [], 0, 0, m, n⟩ with
  | none => none
  | some st =>
    let st := completion sc cl st
    some ⟨f.score, st.xstart, st.xend, st.ystart, st.yend, m, n, st.ops⟩

end RbV.Model.BandedDP
