import RbV.Spec.Interval
/-!
# Mirror model of `avl_interval_tree.rs` (definitions; the proofs are in `RbV/Model/AvlProofs.lean`)

Follows `Node::{new, insert, update_height, update_max, repair, rotate_left, rotate_right}`,
`IntervalTreeIterator::next` / `IntervalTreeIteratorMut::next` and `intersect` line by line.

Differences in representation (none in behaviour):
* `Option<Box<Node>>` is `Tree` (`nil` = `None`); `IntervalTree { root }` is the same `Tree`.
* The Rust rotations keep the *box* of the subtree root in place and **swap the payloads**
  (`swap_interval_data`) of the old root and the child that moves up, then re-hang the three subtrees. Seen as a
  value this is exactly the classical pointer rotation: after `rotate_left` on `(t1, x, (t2, y, t3))` the node at
  the root position holds `y`, its left child holds `x` with children `t1`, `t2`, and its right child is `t3`.
  The model builds that tree directly (`mk (mk t1 x t2) y t3`); `mk` is `update_height` + `update_max`, called
  first on the lower node and then on the upper one, as in the Rust code.
* heights are `Nat` (`i64` in Rust; they are never negative) and `(left_h - right_h).abs() <= 1` is written
  `lh ≤ rh + 1 ∧ rh ≤ lh + 1`.
* `unwrap()` / `expect("Invalid tree: leaf is taller than its sibling.")` on a missing child are panics in Rust;
  the model returns the tree unchanged there. `AvlProofs.repair_no_panic` shows those branches are never reached
  from a tree built by insertions.
* the iterator's `Vec` stack is a `List` whose head is the top; the results are collected in the order the
  iterator yields them.

Core Lean only (the driver runs this model next to the real tree).
-/
namespace RbV.Avl
open RbV.Ivl

inductive Tree where
  | nil : Tree
  | node (l : Tree) (e : Entry) (mx : Int) (h : Nat) (r : Tree) : Tree
deriving Repr, DecidableEq, Inhabited

/-- `self.left.as_ref().map_or(0, |n| n.height)` -/
def ht : Tree → Nat
  | .nil => 0
  | .node _ _ _ h _ => h

/-- in-order list of the payloads -/
def toList : Tree → List Entry
  | .nil => []
  | .node l e _ _ r => toList l ++ e :: toList r

def size : Tree → Nat
  | .nil => 0
  | .node l _ _ _ r => size l + 1 + size r

/-- `update_max`: start from the node's own end, take the children's `max` fields into account when present -/
def updMax (l : Tree) (e : Entry) (r : Tree) : Int :=
  let m := e.hi
  let m := match l with
    | .nil => m
    | .node _ _ lm _ _ => if m < lm then lm else m
  match r with
  | .nil => m
  | .node _ _ rm _ _ => if m < rm then rm else m

/-- `update_height` -/
def updHeight (l r : Tree) : Nat := 1 + max (ht l) (ht r)

/-- a node whose `height` and `max` have just been recomputed from its children (`update_height; update_max`) -/
def mk (l : Tree) (e : Entry) (r : Tree) : Tree := .node l e (updMax l e r) (updHeight l r) r

/-- `Node::new` -/
def leaf (e : Entry) : Tree := .node .nil e e.hi 1 .nil

/-- `rotate_left` (payload swap = pointer rotation, see the header) -/
def rotateLeft : Tree → Tree
  | .node t1 x _ _ (.node t2 y _ _ t3) => mk (mk t1 x t2) y t3
  | t => t

/-- `rotate_right` -/
def rotateRight : Tree → Tree
  | .node (.node t1 y _ _ t2) x _ _ t3 => mk t1 y (mk t2 x t3)
  | t => t

/-- `repair` -/
def repair : Tree → Tree
  | .nil => .nil
  | .node l x mx h r =>
    let lh := ht l
    let rh := ht r
    if lh ≤ rh + 1 ∧ rh ≤ lh + 1 then mk l x r
    else if rh > lh then
      let r' := match r with
        | .node rl _ _ _ rr => if ht rl > ht rr then rotateRight r else r
        | .nil => r
      rotateLeft (.node l x mx h r')
    else
      let l' := match l with
        | .node ll _ _ _ lr => if ht lr > ht ll then rotateLeft l else l
        | .nil => l
      rotateRight (.node l' x mx h r)

/-- `IntervalTree::insert` / `Node::insert`: equal starts go to the left -/
def insert : Tree → Entry → Tree
  | .nil, e => leaf e
  | .node l x mx h r, e =>
    if e.lo ≤ x.lo then repair (.node (insert l e) x mx h r)
    else repair (.node l x mx h (insert r e))

/-- the tree after a whole insertion history -/
def build (es : List Entry) : Tree := es.foldl insert .nil

/-- `intersect` -/
def intersect (q : Query) (e : Entry) : Bool :=
  decide (q.lo < q.hi) && decide (e.lo < e.hi) && decide (q.hi > e.lo) && decide (q.lo < e.hi)

/-- `if let Some(ref c) = child { nodes.push(c) }` -/
def push (t : Tree) (s : List Tree) : List Tree :=
  match t with
  | .nil => s
  | t => t :: s

def weight : List Tree → Nat
  | [] => 0
  | t :: s => 2 * size t + 1 + weight s

theorem weight_push (t : Tree) (s : List Tree) : weight (push t s) ≤ 2 * size t + 1 + weight s := by
  cases t <;> simp [push, weight, size]

/-- the loop of `IntervalTreeIterator::next`, run to exhaustion -/
def findLoop (q : Query) : List Tree → List Entry
  | [] => []
  | .nil :: s => findLoop q s
  | .node l e mx _ r :: s =>
    if q.lo < mx then
      if q.hi > e.lo then
        if intersect q e then e :: findLoop q (push r (push l s)) else findLoop q (push r (push l s))
      else findLoop q (push l s)
    else findLoop q s
termination_by s => weight s
decreasing_by
  all_goals simp only [weight, size]
  · omega
  · have := weight_push r (push l s); have := weight_push l s; omega
  · have := weight_push r (push l s); have := weight_push l s; omega
  · have := weight_push l s; omega
  · omega

/-- `IntervalTree::find(q).collect()` -/
def find (t : Tree) (q : Query) : List Entry := findLoop q (push t [])

/-- effect of `for e in tree.find_mut(q) { *e.data() += delta }`: the mutable iterator runs the same loop as
`find` (the code of the two `next` functions is identical up to `mut`), so it hands out the payload of exactly the
nodes `find` reports; shape, keys, `max` and `height` are untouched -/
def bumpTree (q : Query) (delta : Int) : Tree → Tree
  | .nil => .nil
  | .node l e mx h r =>
    .node (bumpTree q delta l) (if intersect q e then { e with data := e.data + delta } else e) mx h
      (bumpTree q delta r)

/-- pre-order dump in the format of the hook `verif_dump`: (depth, start, end, max, height, has_left, has_right) -/
def dump : Tree → Nat → List (Nat × Int × Int × Int × Nat × Bool × Bool)
  | .nil, _ => []
  | .node l e mx h r, d =>
    (d, e.lo, e.hi, mx, h, decide (l ≠ .nil), decide (r ≠ .nil)) :: (dump l (d + 1) ++ dump r (d + 1))

/-! ### `AnnotMap`: one tree per reference id (`HashMap<R, IntervalTree>` as an association list) -/

abbrev AMap := List (Nat × Tree)

def AMap.get (m : AMap) (r : Nat) : Option Tree := (m.find? (fun p => p.1 == r)).map (·.2)

/-- `insert_at` / `insert_loc`: `entry(refid).or_default().insert(start..start+length, data)` -/
def AMap.insertAt : AMap → Nat → Entry → AMap
  | [], r, e => [(r, insert .nil e)]
  | (r', t) :: m, r, e => if r' == r then (r', insert t e) :: m else (r', t) :: AMap.insertAt m r e

/-- `AnnotMap::find`: the tree of that reference id, or nothing -/
def AMap.find (m : AMap) (r : Nat) (q : Query) : List Entry :=
  match m.get r with
  | some t => Avl.find t q
  | none => []

end RbV.Avl
