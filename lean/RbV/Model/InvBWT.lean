import RbV.Model.LFMap
import RbV.Model.Occ
/-
Mirror model of `bwt::bwtfind` and `bwt::invert_bwt`, and the round-trip theorem (C04 [C]).

```
let mut less = less(bwt, alphabet);
for (r, &c) in bwt.iter().enumerate() { bwtfind[less[c]] = r; less[c] += 1; }
…
let mut r = bwtfind[0];
for _ in 0..n { r = bwtfind[r]; inverse.push(bwt[r]); }
```
`invert_bwt_correct`: for a text whose last symbol is its unique smallest symbol and a sorted suffix permutation `sa`,
`invertModel (bwtRef t sa) m = t`.  `bwtfind` is the inverse of the LF mapping (`bwtfind_lf`), the LF mapping sends the
row of a position to the row of its cyclic predecessor (`lf_mapping`), so following `bwtfind` from the row of the
final sentinel walks through the rows of positions 0, 1, 2, … .
-/
namespace RbV.InvBWT
open RbV RbV.Kasai RbV.LFMap RbV.OccM

def bwtfindGo : List Nat → Nat → List Nat → List Nat → List Nat
  | [], _, _, bf => bf
  | c :: cs, r, less, bf => bwtfindGo cs (r + 1) (bump less c) (bf.set (less.getD c 0) r)

def bwtfindModel (bwt : List Nat) (m : Nat) : List Nat :=
  bwtfindGo bwt 0 (lessModel bwt m) (List.replicate bwt.length 0)

def invertGo (bwt bf : List Nat) : Nat → Nat → List Nat
  | 0, _ => []
  | k + 1, r => bwt.getD (bf.getD r 0) 0 :: invertGo bwt bf k (bf.getD r 0)

def invertModel (bwt : List Nat) (m : Nat) : List Nat :=
  invertGo bwt (bwtfindModel bwt m) bwt.length ((bwtfindModel bwt m).getD 0 0)

/-- the slot written for row `r`: `less[c]` plus the number of earlier rows holding `c` -/
def slot (bwt : List Nat) (r : Nat) : Nat :=
  lessRef bwt (bwt.getD r 0) + (bwt.take r).count (bwt.getD r 0)

theorem slot_eq_lfRef (bwt : List Nat) (r : Nat) (hr : r < bwt.length) : slot bwt r = lfRef bwt r := by
  unfold slot lfRef
  rw [occRef_row bwt r hr]; omega

theorem bwtfindGo_spec (bwt : List Nat) (m : Nat) (hsym : ∀ x ∈ bwt, x < m)
    (hinj : ∀ i j, i < bwt.length → j < bwt.length → slot bwt i = slot bwt j → i = j)
    (hlt : ∀ i, i < bwt.length → slot bwt i < bwt.length) :
    ∀ (cs pre less bf : List Nat), bwt = pre ++ cs →
      (∀ c, c < m → less[c]? = some (lessRef bwt c + pre.count c)) →
      bf.length = bwt.length →
      (∀ r', r' < pre.length → bf.getD (slot bwt r') 0 = r') →
      ∀ r', r' < bwt.length → (bwtfindGo cs pre.length less bf).getD (slot bwt r') 0 = r' := by
  intro cs
  induction cs with
  | nil =>
    intro pre less bf hb _ _ hbf r' hr'
    simp only [bwtfindGo]
    apply hbf
    rw [hb] at hr'; simpa using hr'
  | cons c cs ih =>
    intro pre less bf hb hless hlen hbf r' hr'
    simp only [bwtfindGo]
    have hrlen : pre.length < bwt.length := by rw [hb]; simp
    have hcm : c < m := hsym c (by rw [hb]; simp)
    have hbr : bwt.getD pre.length 0 = c := by
      rw [hb, List.getD_eq_getElem?_getD, List.getElem?_append_right (Nat.le_refl _)]; simp
    have htake : bwt.take pre.length = pre := by rw [hb]; simp
    have hslot : less.getD c 0 = slot bwt pre.length := by
      rw [List.getD_eq_getElem?_getD, hless c hcm]
      unfold slot; rw [hbr, htake]; rfl
    have hpre : bwt = (pre ++ [c]) ++ cs := by rw [hb]; simp
    have hl : (pre ++ [c]).length = pre.length + 1 := by simp
    rw [← hl]
    apply ih (pre ++ [c]) _ _ hpre
    · intro x hx
      rw [bump, List.getElem?_modify, hless x hx, List.count_append]
      by_cases hcx : c = x
      · subst hcx; simp; omega
      · have : ¬ (c == x) = true := by simpa using hcx
        simp [hcx]
    · rw [List.length_set]; exact hlen
    · intro r'' hr''
      rw [hl] at hr''
      rw [hslot, List.getD_eq_getElem?_getD, List.getElem?_set]
      by_cases he : r'' = pre.length
      · subst he
        rw [if_pos rfl, if_pos (by rw [hlen]; exact hlt _ hrlen)]; rfl
      · have hne : slot bwt pre.length ≠ slot bwt r'' := by
          intro e
          exact he (hinj _ _ (by omega) hrlen e.symm)
        rw [if_neg hne, ← List.getD_eq_getElem?_getD]
        exact hbf r'' (by omega)
    · exact hr'

/-- `bwtfind` inverts the slot function: `bwtfind[less[c] + #{r' < r | bwt[r'] = c}] = r` -/
theorem bwtfind_slot (bwt : List Nat) (m : Nat) (hsym : ∀ x ∈ bwt, x < m)
    (hinj : ∀ i j, i < bwt.length → j < bwt.length → slot bwt i = slot bwt j → i = j)
    (hlt : ∀ i, i < bwt.length → slot bwt i < bwt.length) (r : Nat) (hr : r < bwt.length) :
    (bwtfindModel bwt m).getD (slot bwt r) 0 = r := by
  unfold bwtfindModel
  have := bwtfindGo_spec bwt m hsym hinj hlt bwt [] (lessModel bwt m) (List.replicate bwt.length 0) (by simp)
    (by intro c hc; rw [less_eq bwt m c hc]; simp) (by simp) (by intro r' hr'; simp at hr') r hr
  simpa using this

/-! ### the round trip -/

theorem cpred_inj (n a b : Nat) (ha : a < n) (hb : b < n) (h : cpred n a = cpred n b) : a = b := by
  cases a with
  | zero =>
    cases b with
    | zero => rfl
    | succ b => rw [cpred_zero n (by omega), cpred_succ n b hb] at h; omega
  | succ a =>
    cases b with
    | zero => rw [cpred_zero n (by omega), cpred_succ n a ha] at h; omega
    | succ b => rw [cpred_succ n a ha, cpred_succ n b hb] at h; omega

theorem cpred_next (n i : Nat) (hi : i < n) : cpred n ((i + 1) % n) = i := by
  by_cases h : i + 1 < n
  · rw [Nat.mod_eq_of_lt h, cpred_succ n i h]
  · have : i + 1 = n := by omega
    rw [this, Nat.mod_self, cpred_zero n (by omega)]; omega

/-- following `bwtfind` from the row of position `i` leads to the row of position `i + 1` (cyclically) -/
theorem bwtfind_step (t sa : List Nat) (h : Sorted t sa) (hs : Single t) (m : Nat) (hm : ∀ x ∈ t, x < m)
    (i : Nat) (hi : i < t.length) :
    (bwtfindModel (bwtRef t sa) m).getD (sa.idxOf i) 0 = sa.idxOf ((i + 1) % t.length) := by
  have hbl := length_bwtRef t sa h
  have hsym : ∀ x ∈ bwtRef t sa, x < m := fun x hx => hm x ((bwt_perm t sa h).mem_iff.mp hx)
  have hslot : ∀ r, r < t.length → slot (bwtRef t sa) r = sa.idxOf (cpred t.length (sa.getD r 0)) := by
    intro r hr
    rw [slot_eq_lfRef _ r (by rw [hbl]; exact hr), lf_mapping t sa h hs r hr]
  have hinj : ∀ a b, a < (bwtRef t sa).length → b < (bwtRef t sa).length →
      slot (bwtRef t sa) a = slot (bwtRef t sa) b → a = b := by
    intro a b ha hb e
    rw [hbl] at ha hb
    rw [hslot a ha, hslot b hb] at e
    have pa := h.getD_lt a ha
    have pb := h.getD_lt b hb
    have e1 : cpred t.length (sa.getD a 0) = cpred t.length (sa.getD b 0) := by
      rw [← h.getD_rank _ (cpred_lt t.length (sa.getD a 0) hs.pos),
        ← h.getD_rank _ (cpred_lt t.length (sa.getD b 0) hs.pos), e]
    have e2 := cpred_inj t.length _ _ pa pb e1
    rw [← h.rank_getD a ha, ← h.rank_getD b hb, e2]
  have hlt : ∀ a, a < (bwtRef t sa).length → slot (bwtRef t sa) a < (bwtRef t sa).length := by
    intro a ha
    rw [hbl] at ha ⊢
    rw [hslot a ha]
    have := h.rank_lt _ (cpred_lt t.length (sa.getD a 0) hs.pos)
    rwa [h.length] at this
  have hnext : (i + 1) % t.length < t.length := Nat.mod_lt _ hs.pos
  have hr := h.rank_lt _ hnext
  rw [h.length] at hr
  have := bwtfind_slot (bwtRef t sa) m hsym hinj hlt (sa.idxOf ((i + 1) % t.length)) (by rw [hbl]; exact hr)
  rw [hslot _ hr, h.getD_rank _ hnext, cpred_next t.length i hi] at this
  exact this

theorem invertGo_eq (t sa : List Nat) (h : Sorted t sa) (hs : Single t) (m : Nat) (hm : ∀ x ∈ t, x < m) :
    ∀ (k i : Nat), i < t.length →
      invertGo (bwtRef t sa) (bwtfindModel (bwtRef t sa) m) k (sa.idxOf i) =
        (List.range k).map (fun j => t.getD ((i + j) % t.length) 0) := by
  intro k
  induction k with
  | zero => intro i _; rfl
  | succ k ih =>
    intro i hi
    have hnext : (i + 1) % t.length < t.length := Nat.mod_lt _ hs.pos
    simp only [invertGo]
    rw [bwtfind_step t sa h hs m hm i hi, ih _ hnext, List.range_succ_eq_map, List.map_cons, List.map_map]
    have hr := h.rank_lt _ hnext
    rw [h.length] at hr
    rw [bwtRef_getD t sa h _ hr, h.getD_rank _ hnext, cpred_next t.length i hi]
    congr 1
    · rw [Nat.add_zero, Nat.mod_eq_of_lt hi]
    · apply List.map_congr_left
      intro j _
      simp only [Function.comp]
      have e : ((i + 1) % t.length + j) % t.length = (i + Nat.succ j) % t.length := by
        rw [Nat.mod_add_mod]
        congr 1
        omega
      rw [e]

/-- **`invert_bwt(bwt(t)) = t`** for every text whose last symbol is its unique smallest symbol. -/
theorem invert_bwt_correct (t sa : List Nat) (h : Sorted t sa) (hs : Single t) (m : Nat) (hm : ∀ x ∈ t, x < m) :
    invertModel (bwtRef t sa) m = t := by
  unfold invertModel
  have hbl := length_bwtRef t sa h
  have h0 : (bwtfindModel (bwtRef t sa) m).getD 0 0 = sa.idxOf 0 := by
    have := bwtfind_step t sa h hs m hm (t.length - 1) (by have := hs.pos; omega)
    rw [h.rank_last hs.pos] at this
    have e : (t.length - 1 + 1) % t.length = 0 := by
      have : t.length - 1 + 1 = t.length := by have := hs.pos; omega
      rw [this, Nat.mod_self]
    rw [e] at this
    exact this
  rw [h0, hbl, invertGo_eq t sa h hs m hm t.length 0 hs.pos]
  have : (List.range t.length).map (fun j => t.getD ((0 + j) % t.length) 0) =
      (List.range t.length).map (fun j => t.getD j 0) := by
    apply List.map_congr_left
    intro j hj
    rw [List.mem_range] at hj
    rw [Nat.zero_add, Nat.mod_eq_of_lt hj]
  rw [this, map_getD_range]

end RbV.InvBWT
