import RbV.Model.FMDExt
import RbV.Model.LFSortedCheck
/-!
# Reverse-strand half of `backward_ext` (C06 [C], partial)

1. `next_mono`: on a sorted array the rows whose suffix starts with a sentinel-free `Q` are ordered by the symbol
   that follows `Q`.
2. `mono_block`: for a monotone key on an interval the rows with key `c` are the block that starts after all rows
   with a smaller key.
3. `extLoop_fst`: the loop of `backward_ext` returns `lower_rev + Σ_{b before a in $TGCNAtgcna} size_b`.
4. `backwardExt_reverse`: hence, **given strand symmetry of the index** (for every `b` of the order string the number
   of rows of `b·P` — as the loop computes it — equals the number of rows of `revcomp(P)·complement(b)`), the new
   `lower_rev … + size` are exactly the rows of `revcomp(a·P)`.
-/
namespace RbV.FMDModel
open RbV RbV.BSModel RbV.LF

/-- every non-sentinel symbol is `Sorted` -/
def AllSorted (t sa : List Nat) : Prop := ∀ a, t.getD (t.length - 1) 0 ≠ a → Sorted t sa a

theorem allSorted_of_check (t sa : List Nat) (h : sortedAllB t sa = true) : AllSorted t sa :=
  fun a ha => sortedAllB_sound t sa h a ha

/-! ### 1. rows of `Q` are ordered by the symbol after `Q` -/

theorem next_mono (t sa : List Nat) (hperm : sa.Perm (List.range t.length)) (hall : AllSorted t sa)
    (hmono : ∀ i j, i < j → j < sa.length → t.getD (sa.getD i 0) 0 ≤ t.getD (sa.getD j 0) 0) :
    ∀ (Q : List Nat), (∀ q ∈ Q, t.getD (t.length - 1) 0 ≠ q) →
      ∀ r1 r2, r1 < r2 → r2 < sa.length → OccursAt Q t (sa.getD r1 0) → OccursAt Q t (sa.getD r2 0) →
        t.getD (sa.getD r1 0 + Q.length) 0 ≤ t.getD (sa.getD r2 0 + Q.length) 0 := by
  intro Q
  induction Q with
  | nil => intro _ r1 r2 h12 h2 _ _; simpa using hmono r1 r2 h12 h2
  | cons q Q' ih =>
    intro hQ r1 r2 h12 h2 ho1 ho2
    have hq := hQ q (by simp)
    have hs := hall q hq
    rw [occursAt_cons_iff] at ho1 ho2
    obtain ⟨hl1, ha1, hn1⟩ := ho1
    obtain ⟨hl2, ha2, hn2⟩ := ho2
    obtain ⟨z1, hz1, he1⟩ := sa_surj hperm _ (succ_lt hs _ hl1 ha1)
    obtain ⟨z2, hz2, he2⟩ := sa_surj hperm _ (succ_lt hs _ hl2 ha2)
    have hz := hs.step r1 r2 z1 z2 h12 h2 hz1 hz2 ha1 ha2 he1 he2
    have := ih (fun x hx => hQ x (by simp [hx])) z1 z2 hz hz2 (by rw [he1]; exact hn1) (by rw [he2]; exact hn2)
    rw [he1, he2] at this
    simp only [List.length_cons]
    have e1 : sa.getD r1 0 + (Q'.length + 1) = sa.getD r1 0 + 1 + Q'.length := by omega
    have e2 : sa.getD r2 0 + (Q'.length + 1) = sa.getD r2 0 + 1 + Q'.length := by omega
    rw [e1, e2]; exact this

/-! ### 2. blocks of a monotone key -/

theorem countP_all {l : List Nat} {p : Nat → Bool} (h : ∀ x ∈ l, p x = true) : l.countP p = l.length := by
  induction l with
  | nil => simp
  | cons a l ih =>
    simp only [List.countP_cons, List.length_cons, h a (by simp), if_true]
    rw [ih (fun x hx => h x (by simp [hx]))]

theorem mono_block (g : Nat → Nat) (S c : Nat) (hmono : ∀ i j, i < j → j < S → g i ≤ g j) (j : Nat) (hj : j < S) :
    ((List.range S).countP (fun i => g i < c) ≤ j ∧
      j < (List.range S).countP (fun i => g i < c) + (List.range S).countP (fun i => g i == c)) ↔ g j = c := by
  obtain ⟨m, rfl⟩ : ∃ m, S = j + (m + 1) := ⟨S - j - 1, by omega⟩
  rw [List.range_add]
  simp only [List.countP_append, List.countP_map, Function.comp_def]
  have h3 := length_eq_three_counts g c (List.range j)
  simp only [List.length_range] at h3
  -- the tail starts with j itself
  have htail0 : ∀ p : Nat → Bool, (List.range (m + 1)).countP (fun i => p (j + i)) =
      (if p j then 1 else 0) + (List.range m).countP (fun i => p (j + (i + 1))) := by
    intro p
    rw [List.range_succ_eq_map, List.countP_cons, List.countP_map]
    simp only [Function.comp_def, Nat.add_zero, Nat.succ_eq_add_one]
    omega
  rw [htail0 (fun x => decide (g x < c)), htail0 (fun x => g x == c)]
  simp only [decide_eq_true_eq, beq_iff_eq]
  have hhead : ∀ i, i < j → g i ≤ g j := fun i hi => hmono i j hi (by omega)
  have htl : ∀ i, i < m → g j ≤ g (j + (i + 1)) := fun i hi => hmono j (j + (i + 1)) (by omega) (by omega)
  constructor
  · rintro ⟨h1, h2⟩
    by_cases hlt : g j < c
    · -- all of the head is < c, j itself too: A ≥ j + 1
      exfalso
      have : (List.range j).countP (fun i => decide (g i < c)) = j := by
        rw [countP_all]; · simp
        intro x hx; have := hhead x (List.mem_range.mp hx); simp; omega
      rw [if_pos hlt] at h1; omega
    · by_cases hgt : c < g j
      · exfalso
        have t1 : (List.range m).countP (fun i => decide (g (j + (i + 1)) < c)) = 0 := by
          rw [List.countP_eq_zero]; intro x hx; have := htl x (List.mem_range.mp hx); simp; omega
        have t2 : (List.range m).countP (fun i => g (j + (i + 1)) == c) = 0 := by
          rw [List.countP_eq_zero]; intro x hx; have := htl x (List.mem_range.mp hx); simp; omega
        have hne : ¬ g j = c := by omega
        rw [if_neg hlt, if_neg hne, t1, t2] at h2
        omega
      · omega
  · intro hc
    have hlt : ¬ g j < c := by omega
    have t1 : (List.range m).countP (fun i => decide (g (j + (i + 1)) < c)) = 0 := by
      rw [List.countP_eq_zero]; intro x hx; have := htl x (List.mem_range.mp hx); simp; omega
    have t3 : (List.range j).countP (fun i => decide (c < g i)) = 0 := by
      rw [List.countP_eq_zero]; intro x hx; have := hhead x (List.mem_range.mp hx); simp; omega
    rw [if_neg hlt, if_pos hc, t1]
    omega

/-! ### 3. what the loop accumulates -/

/-- `Σ f b` over the symbols of `ord` strictly before `a` -/
def sumBefore (f : Nat → Nat) (a : Nat) : List Nat → Nat
  | [] => 0
  | b :: rest => if b = a then 0 else f b + sumBefore f a rest

/-- the size the loop computes for symbol `b` -/
def cntOf (occ : Nat → Nat → Nat) (iv : Bi) (b : Nat) : Nat :=
  occ (iv.lower + iv.size - 1) b - (if iv.lower = 0 then 0 else occ (iv.lower - 1) b)

theorem extLoop_fst (occ : Nat → Nat → Nat) (iv : Bi) (a : Nat) :
    ∀ (ord : List Nat) (l s o : Nat), a ∈ ord →
      (extLoop occ iv a ord (l, s, o)).1 = l + s + sumBefore (cntOf occ iv) a ord := by
  intro ord
  induction ord with
  | nil => intro l s o h; simp at h
  | cons b rest ih =>
    intro l s o h
    simp only [extLoop, sumBefore]
    by_cases hb : b = a
    · simp [hb]
    · simp only [hb, if_false]
      have hr : a ∈ rest := by
        simp only [List.mem_cons] at h
        rcases h with h | h
        · exact absurd h.symm hb
        · exact h
      rw [ih _ _ _ hr]; unfold cntOf; omega

theorem sumBefore_add (f g : Nat → Nat) (a : Nat) (ord : List Nat) :
    sumBefore (fun b => f b + g b) a ord = sumBefore f a ord + sumBefore g a ord := by
  induction ord with
  | nil => simp [sumBefore]
  | cons b rest ih => simp only [sumBefore]; split <;> omega

theorem sumBefore_zero (a : Nat) (ord : List Nat) : sumBefore (fun _ => 0) a ord = 0 := by
  induction ord with
  | nil => simp [sumBefore]
  | cons b rest ih => simp only [sumBefore]; split <;> omega

/-- the complements of the order string, ascending -/
def compOrder : List Nat := order.map dnaCompl

/-- point-wise: a symbol of `compOrder` is smaller than `complement a` iff it is the complement of a symbol that
comes before `a` in the order string (finite check over the 11 × 11 pairs) -/
theorem lt_iff_before : ∀ v ∈ compOrder, ∀ a ∈ order,
    (if v < dnaCompl a then 1 else 0) = sumBefore (fun b => if v = dnaCompl b then 1 else 0) a order := by decide

theorem countP_lt_eq_sumBefore (vals : List Nat) (hin : ∀ v ∈ vals, v ∈ compOrder) (a : Nat) (ha : a ∈ order) :
    vals.countP (fun v => v < dnaCompl a) = sumBefore (fun b => vals.count (dnaCompl b)) a order := by
  induction vals with
  | nil => simp [sumBefore_zero]
  | cons v vals ih =>
    have hv := hin v (by simp)
    have ih' := ih (fun x hx => hin x (by simp [hx]))
    have hpt := lt_iff_before v hv a ha
    have : (fun b => (v :: vals).count (dnaCompl b)) =
        (fun b => vals.count (dnaCompl b) + (if v = dnaCompl b then 1 else 0)) := by
      funext b
      rw [List.count_cons]
      simp only [beq_iff_eq]
    rw [this, sumBefore_add, ← ih', ← hpt, List.countP_cons]
    simp only [decide_eq_true_eq]

/-! ### 4. the reverse-strand interval -/

theorem occursAt_snoc (Q t : List Nat) (c i : Nat) :
    OccursAt (Q ++ [c]) t i ↔ OccursAt Q t i ∧ i + Q.length < t.length ∧ t.getD (i + Q.length) 0 = c := by
  induction Q generalizing i with
  | nil =>
    simp only [List.nil_append, List.length_nil, Nat.add_zero]
    rw [occursAt_cons_iff]
    constructor
    · rintro ⟨h1, h2, _⟩
      exact ⟨⟨by simp; omega, by simp⟩, h1, h2⟩
    · rintro ⟨_, h1, h2⟩
      exact ⟨h1, h2, by simp [OccursAt]; omega⟩
  | cons q Q ih =>
    simp only [List.cons_append, List.length_cons]
    rw [occursAt_cons_iff, occursAt_cons_iff, ih]
    have e : i + 1 + Q.length = i + (Q.length + 1) := by omega
    rw [e]
    constructor
    · rintro ⟨h1, h2, h3, h4, h5⟩; exact ⟨⟨h1, h2, h3⟩, h4, h5⟩
    · rintro ⟨⟨h1, h2, h3⟩, h4, h5⟩; exact ⟨h1, h2, h3, h4, h5⟩

/-- **Reverse-strand half of `backward_ext`, given strand symmetry.**  `P` sentinel-free with reverse complement `Q`;
`iv` a non-empty bi-interval whose reverse interval holds exactly the rows of `Q`.  If for every symbol `b` of the
order string the size the loop computes for `b` equals the number of rows of `Q·complement(b)` (strand symmetry; for
`b = $` this includes the cyclic predecessor of position 0), every row of `Q` is followed by a symbol of the
alphabet, then the new `[lower_rev, lower_rev + size)` are exactly the rows of `Q·complement(a)`
= `revcomp(a·P)`. -/
theorem backwardExt_reverse (t sa : List Nat) (less : Nat → Nat) (occ : Nat → Nat → Nat) (a : Nat) (Q : List Nat)
    (iv : Bi) (ha : a ∈ order)
    (hchk : sortedAllB t sa = true)
    (hQ : ∀ q ∈ Q, t.getD (t.length - 1) 0 ≠ q)
    (hiv : IvOf t sa Q iv.lowerRev (iv.lowerRev + iv.size))
    (hin : ∀ r, iv.lowerRev ≤ r → r < iv.lowerRev + iv.size → sa.getD r 0 + Q.length < t.length)
    (halpha : ∀ r, iv.lowerRev ≤ r → r < iv.lowerRev + iv.size → t.getD (sa.getD r 0 + Q.length) 0 ∈ compOrder)
    (hsym : ∀ b ∈ order, cntOf occ iv b =
      (List.range iv.size).countP (fun i => t.getD (sa.getD (iv.lowerRev + i) 0 + Q.length) 0 == dnaCompl b)) :
    IvOf t sa (Q ++ [dnaCompl a]) (backwardExt less occ iv a).lowerRev
      ((backwardExt less occ iv a).lowerRev + (backwardExt less occ iv a).size) := by
  have hall := allSorted_of_check t sa hchk
  have hperm : sa.Perm (List.range t.length) := by
    simp only [sortedAllB, Bool.and_eq_true] at hchk
    exact List.isPerm_iff.mp hchk.1
  -- some non-sentinel symbol exists iff … we only need `mono`, which every `Sorted` instance carries; get it from
  -- the adjacent-row check directly through a symbol different from the last one
  have hmono : ∀ i j, i < j → j < sa.length → t.getD (sa.getD i 0) 0 ≤ t.getD (sa.getD j 0) 0 :=
    (hall (t.getD (t.length - 1) 0 + 1) (by omega)).mono
  obtain ⟨h1, h2, h3⟩ := hiv
  let L := iv.lowerRev
  let S := iv.size
  let g : Nat → Nat := fun i => t.getD (sa.getD (L + i) 0 + Q.length) 0
  have hrowQ : ∀ i, i < S → OccursAt Q t (sa.getD (L + i) 0) := by
    intro i hi
    exact (h3 (L + i) (by show iv.lowerRev + i < sa.length; omega)).mp ⟨by show iv.lowerRev ≤ iv.lowerRev + i; omega,
      by show iv.lowerRev + i < iv.lowerRev + iv.size; omega⟩
  have hgmono : ∀ i j, i < j → j < S → g i ≤ g j := by
    intro i j hij hj
    exact next_mono t sa hperm hall hmono Q hQ (L + i) (L + j) (by omega)
      (by show iv.lowerRev + j < sa.length; omega) (hrowQ i (by omega)) (hrowQ j hj)
  -- the values the loop returns
  have hspec := extLoop_spec occ iv a order (iv.lowerRev, 0, 0) ha
  have hfst := extLoop_fst occ iv a order iv.lowerRev 0 0 ha
  have hsize : (backwardExt less occ iv a).size = cntOf occ iv a := by
    simp only [backwardExt, cntOf]; rw [hspec]
  have hlrev : (backwardExt less occ iv a).lowerRev = L + sumBefore (cntOf occ iv) a order := by
    simp only [backwardExt]; rw [hfst]; simp [L]
  -- counts over the interval
  let vals := (List.range S).map g
  have hvals : ∀ v ∈ vals, v ∈ compOrder := by
    intro v hv
    simp only [vals, List.mem_map, List.mem_range] at hv
    obtain ⟨i, hi, rfl⟩ := hv
    exact halpha (L + i) (by show iv.lowerRev ≤ iv.lowerRev + i; omega) (by show iv.lowerRev + i < iv.lowerRev + iv.size; omega)
  have hcount : ∀ b, vals.count (dnaCompl b) = (List.range S).countP (fun i => g i == dnaCompl b) := by
    intro b; simp only [vals, List.count_eq_countP, List.countP_map, Function.comp_def]
  have hsumA : sumBefore (cntOf occ iv) a order = (List.range S).countP (fun i => g i < dnaCompl a) := by
    have := countP_lt_eq_sumBefore vals hvals a ha
    simp only [vals, List.countP_map, Function.comp_def] at this
    rw [this]
    -- the two `sumBefore` agree symbol by symbol on the order string
    have hcongr : ∀ (ord : List Nat), (∀ b ∈ ord, b ∈ order) →
        sumBefore (cntOf occ iv) a ord = sumBefore (fun b => ((List.range S).map g).count (dnaCompl b)) a ord := by
      intro ord
      induction ord with
      | nil => intro _; rfl
      | cons b rest ih =>
        intro hsub
        simp only [sumBefore]
        split
        · rfl
        · rw [ih (fun x hx => hsub x (by simp [hx])), hsym b (hsub b (by simp)), hcount b]
    exact hcongr order (fun b hb => hb)
  have hB : cntOf occ iv a = (List.range S).countP (fun i => g i == dnaCompl a) := hsym a ha
  have h3c := length_eq_three_counts g (dnaCompl a) (List.range S)
  simp only [List.length_range] at h3c
  rw [hlrev, hsize, hsumA, hB]
  refine ⟨by omega, by show _ ≤ sa.length; omega, fun row hrow => ?_⟩
  rw [occursAt_snoc]
  constructor
  · rintro ⟨hr1, hr2⟩
    have hj : row - L < S := by omega
    have hrow' : L + (row - L) = row := by omega
    have hb := (mono_block g S (dnaCompl a) hgmono (row - L) hj).mp ⟨by omega, by omega⟩
    simp only [g, hrow'] at hb
    have hq := hrowQ (row - L) hj
    rw [hrow'] at hq
    exact ⟨hq, hin row (by omega) (by omega), hb⟩
  · rintro ⟨ho, _, hc⟩
    have hr := (h3 row hrow).mpr ho
    have hj : row - L < S := by omega
    have hrow' : L + (row - L) = row := by omega
    have hb := (mono_block g S (dnaCompl a) hgmono (row - L) hj).mpr (by simp only [g, hrow']; exact hc)
    omega

/-! ### 5. the side conditions on an FMD text -/

def isDna (c : Nat) : Bool := [65, 67, 71, 84, 78, 97, 99, 103, 116, 110].contains c

theorem isDna_compl : ∀ c, isDna c = true → isDna (dnaCompl c) = true := by
  intro c h
  simp only [isDna, List.contains_iff_mem, List.mem_cons, List.not_mem_nil, or_false] at h
  rcases h with h | h | h | h | h | h | h | h | h | h <;> subst h <;> decide

theorem isDna_ne_sentinel (c : Nat) (h : isDna c = true) : (36 : Nat) ≠ c := by
  intro h'; subst h'; simp [isDna] at h

theorem mem_compOrder_of (c : Nat) (h : c = 36 ∨ isDna c = true) : c ∈ compOrder := by
  rcases h with h | h
  · subst h; decide
  · simp only [isDna, List.contains_iff_mem, List.mem_cons, List.not_mem_nil, or_false] at h
    rcases h with h | h | h | h | h | h | h | h | h | h <;> subst h <;> decide

theorem fmd_symbols (seqs : List (List Nat)) (hs : ∀ s ∈ seqs, ∀ c ∈ s, isDna c = true) :
    ∀ c ∈ fmdText seqs, c = 36 ∨ isDna c = true := by
  intro c hc
  simp only [fmdText, List.mem_flatMap, List.mem_append, List.mem_singleton, fmdSentinel] at hc
  obtain ⟨s, hs', h⟩ := hc
  rcases h with ((h | h) | h) | h
  · exact Or.inr (hs s hs' c h)
  · exact Or.inl h
  · simp only [revcomp, List.mem_map, List.mem_reverse] at h
    obtain ⟨d, hd, rfl⟩ := h
    exact Or.inr (isDna_compl d (hs s hs' d hd))
  · exact Or.inl h

theorem getD_snoc_last (X : List Nat) (c : Nat) : (X ++ [c]).getD ((X ++ [c]).length - 1) 0 = c := by
  have h : (X ++ [c]).length - 1 = X.length := by simp
  rw [h, List.getD_eq_getElem?_getD, List.getElem?_append_right (Nat.le_refl _)]
  simp

theorem fmd_last (seqs : List (List Nat)) (hne : seqs ≠ []) :
    (fmdText seqs).getD ((fmdText seqs).length - 1) 0 = 36 := by
  obtain ⟨init, s, rfl⟩ : ∃ init s, seqs = init ++ [s] := by
    cases h : seqs.reverse with
    | nil => simp at h; exact absurd h hne
    | cons s r => exact ⟨r.reverse, s, by rw [← List.reverse_reverse seqs, h]; simp⟩
  have : fmdText (init ++ [s]) = (fmdText init ++ (s ++ [fmdSentinel] ++ revcomp s)) ++ [36] := by
    simp [fmdText, fmdSentinel]
  rw [this]
  exact getD_snoc_last _ _

theorem getD_mem (l : List Nat) (i : Nat) (h : i < l.length) : l.getD i 0 ∈ l := by
  simp only [List.getD_eq_getElem?_getD, List.getElem?_eq_getElem h, Option.getD_some]
  exact List.getElem_mem h

/-- an occurrence of a DNA string in an FMD text is followed by a symbol of the text -/
theorem fmd_next_exists (T Q : List Nat) (hlast : T.getD (T.length - 1) 0 = 36) (hQ : ∀ q ∈ Q, isDna q = true)
    (p : Nat) (hp : p < T.length) (ho : OccursAt Q T p) : p + Q.length < T.length := by
  obtain ⟨Q', c, rfl⟩ | rfl : (∃ Q' c, Q = Q' ++ [c]) ∨ Q = [] := by
    cases h : Q.reverse with
    | nil => right; simpa using h
    | cons c r => left; exact ⟨r.reverse, c, by rw [← List.reverse_reverse Q, h]; simp⟩
  · rw [occursAt_snoc] at ho
    obtain ⟨_, h1, h2⟩ := ho
    simp only [List.length_append, List.length_singleton]
    by_cases he : p + Q'.length = T.length - 1
    · exfalso
      rw [he, hlast] at h2
      exact isDna_ne_sentinel c (hQ c (by simp)) h2
    · omega
  · simpa using hp

/-- **Reverse-strand half of `backward_ext` on an FMD text**: only strand symmetry is left as a hypothesis. -/
theorem backwardExt_reverse_fmd (seqs : List (List Nat)) (sa : List Nat) (less : Nat → Nat) (occ : Nat → Nat → Nat)
    (a : Nat) (Q : List Nat) (iv : Bi) (ha : a ∈ order)
    (hne : seqs ≠ []) (hseqs : ∀ s ∈ seqs, ∀ c ∈ s, isDna c = true)
    (hchk : sortedAllB (fmdText seqs) sa = true)
    (hQ : ∀ q ∈ Q, isDna q = true)
    (hiv : IvOf (fmdText seqs) sa Q iv.lowerRev (iv.lowerRev + iv.size))
    (hsym : ∀ b ∈ order, cntOf occ iv b =
      (List.range iv.size).countP
        (fun i => (fmdText seqs).getD (sa.getD (iv.lowerRev + i) 0 + Q.length) 0 == dnaCompl b)) :
    IvOf (fmdText seqs) sa (Q ++ [dnaCompl a]) (backwardExt less occ iv a).lowerRev
      ((backwardExt less occ iv a).lowerRev + (backwardExt less occ iv a).size) := by
  have hlast := fmd_last seqs hne
  have hperm : sa.Perm (List.range (fmdText seqs).length) := by
    simp only [sortedAllB, Bool.and_eq_true] at hchk
    exact List.isPerm_iff.mp hchk.1
  have hin : ∀ r, iv.lowerRev ≤ r → r < iv.lowerRev + iv.size →
      sa.getD r 0 + Q.length < (fmdText seqs).length := by
    intro r h1 h2
    have hr : r < sa.length := by have := hiv.2.1; omega
    exact fmd_next_exists _ Q hlast hQ _ (sa_lt hperm r hr) ((hiv.2.2 r hr).mp ⟨h1, h2⟩)
  apply backwardExt_reverse (fmdText seqs) sa less occ a Q iv ha hchk _ hiv hin _ hsym
  · intro q hq; rw [hlast]; exact isDna_ne_sentinel q (hQ q hq)
  · intro r h1 h2
    exact mem_compOrder_of _ (fmd_symbols seqs hseqs _ (getD_mem _ _ (hin r h1 h2)))

end RbV.FMDModel
