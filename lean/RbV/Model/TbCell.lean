import RbV.Gen.TbCodes
/-!
Mirror model of `TracebackCell` (`src/alignment/pairwise/mod.rs`) over the **generated** constants
`RbV.Gen.TbCodes` (field mask, cell width); core Lean only.

```
fn set_bits(&mut self, pos: u8, value: u16) {
    let bits: u16 = (0b1111) << pos;
    assert!(value <= TB_MAX, …);
    self.v = (self.v & !bits) | (value << pos)
}
fn get_bits(self, pos: u8) -> u16 { (self.v >> pos) & (0b1111) }
```
`!bits` on a `u16` is `(2^16 − 1) ^^^ bits`.  No `% 2^16` is applied to `value << pos`: `setBits_lt` shows that
nothing is shifted out for the positions and values the code uses.
-/
namespace RbV.TbCell
open RbV.Gen.TbCodes

def setBits (v pos value : Nat) : Nat := (v &&& ((2 ^ cellBits - 1) ^^^ (fieldMask <<< pos))) ||| (value <<< pos)

def getBits (v pos : Nat) : Nat := (v >>> pos) &&& fieldMask

/-- `set_all` -/
def setAll (v value : Nat) : Nat := setBits (setBits (setBits v iPos value) dPos value) sPos value

/-- the two facts about the generated constants the bit-level lemmas rest on (they fail to compile — and with them
every theorem below — when the mask or the cell width of the source changes) -/
theorem fieldMask_eq : fieldMask = 2 ^ 4 - 1 := by decide
theorem cellBits_eq : cellBits = 16 := by decide

theorem testBit_mask (i : Nat) : Nat.testBit fieldMask i = decide (i < 4) := by
  rw [fieldMask_eq, Nat.testBit_two_pow_sub_one]

theorem testBit_high (value j : Nat) (hv : value < 16) (hj : 4 ≤ j) : value.testBit j = false :=
  Nat.testBit_lt_two_pow (Nat.lt_of_lt_of_le hv (by
    have : 2 ^ 4 ≤ 2 ^ j := Nat.pow_le_pow_right (by omega) hj
    simpa using this))

theorem get_set_same (v p value : Nat) (hv : value < 16) (hp : p + 4 ≤ 16) :
    getBits (setBits v p value) p = value := by
  unfold getBits setBits
  rw [cellBits_eq]
  apply Nat.eq_of_testBit_eq
  intro i
  simp only [Nat.testBit_and, Nat.testBit_or, Nat.testBit_shiftRight, Nat.testBit_shiftLeft, Nat.testBit_xor,
    testBit_mask, Nat.testBit_two_pow_sub_one]
  by_cases hi : i < 4
  · simp [hi]
    intro _ h; omega
  · simp [hi, testBit_high value i hv (by omega)]

theorem get_set_other (v p q value : Nat) (hv : value < 16) (hq : q + 4 ≤ 16) (hpq : p + 4 ≤ q ∨ q + 4 ≤ p) :
    getBits (setBits v p value) q = getBits v q := by
  unfold getBits setBits
  rw [cellBits_eq]
  apply Nat.eq_of_testBit_eq
  intro i
  simp only [Nat.testBit_and, Nat.testBit_or, Nat.testBit_shiftRight, Nat.testBit_shiftLeft, Nat.testBit_xor,
    testBit_mask, Nat.testBit_two_pow_sub_one]
  by_cases hi : i < 4
  · have h16 : q + i < 16 := by omega
    rcases hpq with h | h
    · have h1 : p ≤ q + i := by omega
      have h2 : ¬ (q + i - p < 4) := by omega
      simp [hi, h16, h1, h2, testBit_high value (q + i - p) hv (by omega)]
    · have h1 : ¬ (p ≤ q + i) := by omega
      simp [hi, h16, h1]
  · simp [hi]

theorem setBits_lt (v p value : Nat) (hv : v < 2 ^ 16) (hval : value < 16) (hp : p + 4 ≤ 16) :
    setBits v p value < 2 ^ 16 := by
  unfold setBits
  apply Nat.or_lt_two_pow
  · exact Nat.lt_of_le_of_lt Nat.and_le_left hv
  · have : value <<< p < 2 ^ (4 + p) := by
      rw [Nat.shiftLeft_eq, Nat.pow_add]
      exact Nat.mul_lt_mul_of_lt_of_le hval (Nat.le_refl _) (Nat.two_pow_pos p)
    exact Nat.lt_of_lt_of_le this (Nat.pow_le_pow_right (by omega) (by omega))

end RbV.TbCell
