import RbV.Model.Iit
/-!
# Proofs about the array-backed mirror model (`RbV/Model/Iit.lean`), part 1: the explicit-stack search

`find_eq`: on a start-sorted array whose `max` fields bound the ends of the in-range part of every implicit
subtree (`MaxUB`), `find_into` returns exactly the overlapping entries, in index order — for every n.
Core Lean only.
-/
namespace RbV.Iit
open RbV.Ivl

/-! ## slices -/

def slice (a : List Cell) (lo hi : Nat) : List Cell := (a.take hi).drop lo

theorem getElem?_slice (a : List Cell) (lo hi i : Nat) :
    (slice a lo hi)[i]? = if lo + i < hi then a[lo + i]? else none := by
  simp only [slice, List.getElem?_drop, List.getElem?_take]

theorem length_slice (a : List Cell) (lo hi : Nat) : (slice a lo hi).length = min hi a.length - lo := by
  simp [slice]

theorem slice_split (a : List Cell) (lo mid hi : Nat) (h1 : lo ≤ mid) (h2 : mid ≤ hi) :
    slice a lo hi = slice a lo mid ++ slice a mid hi := by
  apply List.ext_getElem?
  intro i
  rw [List.getElem?_append, getElem?_slice, getElem?_slice, getElem?_slice, length_slice]
  by_cases hc : i < min mid a.length - lo
  · have h3 : lo + i < mid := by omega
    have h4 : lo + i < hi := by omega
    simp only [hc, h3, h4, if_true]
  · simp only [hc, if_false]
    by_cases hm : mid ≤ a.length
    · have e : min mid a.length = mid := by omega
      rw [e] at hc ⊢
      have e2 : mid + (i - (mid - lo)) = lo + i := by omega
      rw [e2]
    · have e : min mid a.length = a.length := by omega
      rw [e] at hc ⊢
      have : a.length ≤ lo + i := by omega
      have e3 : a[lo + i]? = none := List.getElem?_eq_none (by omega)
      have e4 : a[mid + (i - (a.length - lo))]? = none := List.getElem?_eq_none (by omega)
      simp [e3, e4]

theorem slice_empty (a : List Cell) (lo hi : Nat) (h : a.length ≤ lo ∨ hi ≤ lo) : slice a lo hi = [] := by
  apply List.eq_nil_of_length_eq_zero
  rw [length_slice]; omega

theorem slice_one (a : List Cell) (x : Nat) (h : x < a.length) : slice a x (x + 1) = [getC a x] := by
  apply List.ext_getElem?
  intro i
  rw [getElem?_slice]
  cases i with
  | zero => simp [getC, h]
  | succ i => simp

theorem mem_slice {a : List Cell} {lo hi : Nat} {c : Cell} (h : c ∈ slice a lo hi) :
    ∃ j, lo ≤ j ∧ j < hi ∧ j < a.length ∧ c = getC a j := by
  obtain ⟨i, hi'⟩ := List.mem_iff_getElem?.mp h
  rw [getElem?_slice] at hi'
  split at hi'
  · rename_i hlt
    have hl : lo + i < a.length := by
      by_cases hh : lo + i < a.length
      · exact hh
      · rw [List.getElem?_eq_none (by omega)] at hi'; simp at hi'
    refine ⟨lo + i, by omega, hlt, hl, ?_⟩
    simp [getC, hi']
  · simp at hi'

theorem slice_all (a : List Cell) : slice a 0 a.length = a := by simp [slice]

theorem slice_beyond (a : List Cell) (lo hi : Nat) (h : a.length ≤ hi) : slice a lo hi = slice a lo a.length := by
  simp [slice, List.take_of_length_le h]

/-! ## the leaf scan on a start-sorted run is the overlap filter -/

def SortedC (a : List Cell) : Prop := a.Pairwise (fun c d => c.e.lo ≤ d.e.lo)

def ans (q : Query) (cs : List Cell) : List Entry := expected (cs.map (·.e)) q

theorem ans_append (q : Query) (a b : List Cell) : ans q (a ++ b) = ans q a ++ ans q b := by
  simp [ans, expected]

theorem ans_eq_nil (q : Query) (cs : List Cell) (h : ∀ c ∈ cs, ¬ Overlaps q c.e) : ans q cs = [] := by
  simp only [ans, expected, List.filter_eq_nil_iff, decide_eq_true_eq, List.mem_map]
  rintro e ⟨c, hc, rfl⟩
  exact h c hc

theorem ans_cons (q : Query) (c : Cell) (cs : List Cell) :
    ans q (c :: cs) = (if Overlaps q c.e then [c.e] else []) ++ ans q cs := by
  simp only [ans, expected, List.map_cons, List.filter_cons]
  split <;> simp_all

theorem scan_eq (q : Query) : ∀ (cs : List Cell), SortedC cs → scan q cs = ans q cs
  | [], _ => rfl
  | c :: cs, hs => by
    unfold SortedC at hs
    rw [List.pairwise_cons] at hs
    unfold scan
    split
    · rename_i hge
      symm
      apply ans_eq_nil
      intro d hd
      simp only [List.mem_cons] at hd
      unfold Overlaps
      rcases hd with rfl | hd
      · omega
      · have := hs.1 d hd; omega
    · rename_i hlt
      have ih := scan_eq q cs hs.2
      rw [ans_cons, ih]
      split
      · rename_i hov
        have : Overlaps q c.e := ⟨hov, by omega⟩
        simp [this]
      · rename_i hov
        have : ¬ Overlaps q c.e := fun h => hov h.1
        simp [this]

theorem sortedC_slice (a : List Cell) (lo hi : Nat) (h : SortedC a) : SortedC (slice a lo hi) := by
  unfold SortedC slice at *
  exact (h.sublist (List.take_sublist _ _)).sublist (List.drop_sublist _ _)

theorem sortedC_get (a : List Cell) (h : SortedC a) (i j : Nat) (hij : i ≤ j) (hj : j < a.length) :
    (getC a i).e.lo ≤ (getC a j).e.lo := by
  unfold SortedC at h
  rcases Nat.lt_or_eq_of_le hij with hlt | rfl
  · have := List.pairwise_iff_getElem.mp h i j (by omega) hj hlt
    simpa [getC, hj, (by omega : i < a.length)] using this
  · omega

/-! ## implicit tree nodes -/

/-- `x` is a node of level `k`: `x ≡ 2^k − 1 (mod 2^(k+1))` -/
def Node (k x : Nat) : Prop := x % 2 ^ (k + 1) + 1 = 2 ^ k

theorem two_pow_pos (k : Nat) : 0 < 2 ^ k := Nat.pow_pos (by decide)

theorem node_ge {k x : Nat} (h : Node k x) : 2 ^ k ≤ x + 1 := by
  unfold Node at h
  have := Nat.mod_le x (2 ^ (k + 1))
  omega

/-- generic arithmetic behind the child lemmas (`p = 2^k`) -/
theorem mod_left (x p : Nat) (hp : 0 < p) (h : x % (4 * p) + 1 = 2 * p) : (x - p) % (2 * p) + 1 = p := by
  have hx := Nat.div_add_mod x (4 * p)
  have e : x - p = 2 * p * (2 * (x / (4 * p))) + (p - 1) := by
    have : 4 * p * (x / (4 * p)) = 2 * p * (2 * (x / (4 * p))) := by
      rw [Nat.mul_assoc 2 p, Nat.mul_left_comm p 2, ← Nat.mul_assoc 2 2, Nat.mul_assoc 4 p]
    omega
  rw [e, Nat.mul_add_mod, Nat.mod_eq_of_lt (by omega)]
  omega

theorem mod_right (x p : Nat) (hp : 0 < p) (h : x % (4 * p) + 1 = 2 * p) : (x + p) % (2 * p) + 1 = p := by
  have hx := Nat.div_add_mod x (4 * p)
  have e : x + p = 2 * p * (2 * (x / (4 * p)) + 1) + (p - 1) := by
    have : 4 * p * (x / (4 * p)) = 2 * p * (2 * (x / (4 * p))) := by
      rw [Nat.mul_assoc 2 p, Nat.mul_left_comm p 2, ← Nat.mul_assoc 2 2, Nat.mul_assoc 4 p]
    rw [Nat.mul_add, Nat.mul_one]
    omega
  rw [e, Nat.mul_add_mod, Nat.mod_eq_of_lt (by omega)]
  omega

theorem node_left {k x : Nat} (h : Node (k + 1) x) : Node k (x - 2 ^ k) := by
  unfold Node at *
  have e1 : 2 ^ (k + 1 + 1) = 4 * 2 ^ k := by rw [Nat.pow_succ, Nat.pow_succ]; omega
  have e2 : 2 ^ (k + 1) = 2 * 2 ^ k := by rw [Nat.pow_succ]; omega
  rw [e1, e2] at h
  rw [e2]
  exact mod_left x (2 ^ k) (two_pow_pos k) h

theorem node_right {k x : Nat} (h : Node (k + 1) x) : Node k (x + 2 ^ k) := by
  unfold Node at *
  have e1 : 2 ^ (k + 1 + 1) = 4 * 2 ^ k := by rw [Nat.pow_succ, Nat.pow_succ]; omega
  have e2 : 2 ^ (k + 1) = 2 * 2 ^ k := by rw [Nat.pow_succ]; omega
  rw [e1, e2] at h
  rw [e2]
  exact mod_right x (2 ^ k) (two_pow_pos k) h

theorem node_root (K : Nat) : Node K (2 ^ K - 1) := by
  unfold Node
  have := two_pow_pos K
  rw [Nat.mod_eq_of_lt (by rw [Nat.pow_succ]; omega)]
  omega

theorem shift_generic (x p : Nat) (hp : 0 < p) (h : x % (2 * p) + 1 = p) : x / p * p = x + 1 - p := by
  have hx := Nat.div_add_mod x (2 * p)
  generalize hq : x / (2 * p) = a at *
  have e : x = p * (2 * a) + (p - 1) := by
    have : 2 * p * a = p * (2 * a) := by
      rw [Nat.mul_comm 2 p, Nat.mul_assoc]
    omega
  have hd : x / p = 2 * a := by
    rw [e, Nat.mul_add_div hp]
    have : (p - 1) / p = 0 := Nat.div_eq_of_lt (by omega)
    omega
  rw [hd]
  have : 2 * a * p = p * (2 * a) := Nat.mul_comm _ _
  omega

/-- `x >> k << k` is the first index of the node's range -/
theorem node_shift {k x : Nat} (h : Node k x) : (x >>> k) <<< k = x + 1 - 2 ^ k := by
  unfold Node at h
  rw [Nat.shiftRight_eq_div_pow, Nat.shiftLeft_eq]
  have e2 : 2 ^ (k + 1) = 2 * 2 ^ k := by rw [Nat.pow_succ]; omega
  rw [e2] at h
  exact shift_generic x (2 ^ k) (two_pow_pos k) h


/-! ## the explicit-stack search -/

/-- every in-range node's `max` bounds the ends of the in-range entries of its subtree -/
def MaxUB (a : List Cell) : Prop :=
  ∀ k x, Node k x → x < a.length → ∀ j, x + 1 - 2 ^ k ≤ j → j < x + 2 ^ k → j < a.length →
    (getC a j).e.hi ≤ (getC a x).mx

/-- what a stack cell still has to contribute: its whole subtree (`w = false`) or the node and its right
subtree (`w = true`), in index order -/
def cellAns (a : List Cell) (q : Query) (c : SC) : List Entry :=
  if c.w then ans q (slice a c.x (c.x + 2 ^ c.k)) else ans q (slice a (c.x + 1 - 2 ^ c.k) (c.x + 2 ^ c.k))

def CellOk (c : SC) : Prop := Node c.k c.x ∧ (c.w = true → 3 < c.k)

theorem slice_min (a : List Cell) (lo hi : Nat) : slice a lo (min hi a.length) = slice a lo hi := by
  by_cases h : hi ≤ a.length
  · rw [Nat.min_eq_left h]
  · rw [Nat.min_eq_right (by omega), slice_beyond a lo hi (by omega)]

theorem ans_one (q : Query) (c : Cell) (h : c.e.lo < q.hi) :
    ans q [c] = if q.lo < c.e.hi then [c.e] else [] := by
  rw [ans_cons]
  simp only [ans, expected, List.map_nil, List.filter_nil, List.append_nil, Overlaps]
  by_cases h2 : q.lo < c.e.hi <;> simp [h, h2]

theorem findLoop_eq (a : List Cell) (q : Query) (hs : SortedC a) (hm : MaxUB a) : ∀ (s : List SC),
    (∀ c ∈ s, CellOk c) → findLoop a a.length q s = s.flatMap (cellAns a q) := by
  intro s
  fun_induction findLoop a a.length q s with
  | case1 => intro _; rfl
  | case2 k x w st hk i0 i1 ih =>
    intro hok
    have hn := (hok ⟨k, x, w⟩ (by simp)).1
    have hw := (hok ⟨k, x, w⟩ (by simp)).2
    simp only at hn hw
    have hwf : w = false := by
      cases w
      · rfl
      · have := hw rfl; omega
    subst hwf
    rw [ih (fun c hc => hok c (List.mem_cons_of_mem _ hc))]
    simp only [List.flatMap_cons]
    congr 1
    have hge := node_ge hn
    have e0 : i0 = x + 1 - 2 ^ k := node_shift hn
    have e1 : i1 = min (x + 2 ^ k) a.length := by
      show min (i0 + (1 <<< (k + 1)) - 1) a.length = _
      rw [e0, Nat.one_shiftLeft, Nat.pow_succ]
      congr 1
      omega
    show scan q (slice a i0 i1) = _
    rw [scan_eq q _ (sortedC_slice a _ _ hs), e0, e1, slice_min]
    simp [cellAns]
  | case3 k x w st hk hw y hc ih =>
    intro hok
    have hn := (hok ⟨k, x, w⟩ (by simp)).1
    simp only at hn
    have hwf : w = false := by simpa using hw
    subst hwf
    obtain ⟨j, rfl⟩ : ∃ j, k = j + 1 := ⟨k - 1, by omega⟩
    have hy : y = x - 2 ^ j := by show x - 1 <<< (j + 1 - 1) = _; rw [Nat.add_sub_cancel, Nat.one_shiftLeft]
    have hge := node_ge hn
    have hp := two_pow_pos j
    have e2 : 2 ^ (j + 1) = 2 * 2 ^ j := by rw [Nat.pow_succ]; omega
    have hok' : ∀ c ∈ (⟨j + 1 - 1, y, false⟩ : SC) :: ⟨j + 1, x, true⟩ :: st, CellOk c := by
      intro c hc
      simp only [List.mem_cons] at hc
      rcases hc with rfl | rfl | hc
      · exact ⟨by simp only [Nat.add_sub_cancel]; rw [hy]; exact node_left hn, by simp⟩
      · exact ⟨hn, fun _ => by show 3 < j + 1; omega⟩
      · exact hok c (List.mem_cons_of_mem _ hc)
    rw [ih hok']
    simp only [List.flatMap_cons, cellAns, Nat.add_sub_cancel, Bool.false_eq_true, if_false, if_true]
    rw [← List.append_assoc]
    congr 1
    rw [← ans_append, hy]
    have h1 : x - 2 ^ j + 1 - 2 ^ j = x + 1 - 2 ^ (j + 1) := by omega
    have h2 : x - 2 ^ j + 2 ^ j = x := by omega
    rw [h1, h2, ← slice_split a _ x _ (by omega) (by omega)]
  | case4 k x w st hk hw y hc ih =>
    intro hok
    have hn := (hok ⟨k, x, w⟩ (by simp)).1
    simp only at hn
    have hwf : w = false := by simpa using hw
    subst hwf
    obtain ⟨j, rfl⟩ : ∃ j, k = j + 1 := ⟨k - 1, by omega⟩
    have hy : y = x - 2 ^ j := by show x - 1 <<< (j + 1 - 1) = _; rw [Nat.add_sub_cancel, Nat.one_shiftLeft]
    have hge := node_ge hn
    have hp := two_pow_pos j
    have e2 : 2 ^ (j + 1) = 2 * 2 ^ j := by rw [Nat.pow_succ]; omega
    have hok' : ∀ c ∈ (⟨j + 1, x, true⟩ : SC) :: st, CellOk c := by
      intro c hc
      simp only [List.mem_cons] at hc
      rcases hc with rfl | hc
      · exact ⟨hn, fun _ => by show 3 < j + 1; omega⟩
      · exact hok c (List.mem_cons_of_mem _ hc)
    rw [ih hok']
    simp only [List.flatMap_cons, cellAns, Bool.false_eq_true, if_false, if_true]
    congr 1
    rw [slice_split a (x + 1 - 2 ^ (j + 1)) x _ (by omega) (by omega), ans_append]
    have hnil : ans q (slice a (x + 1 - 2 ^ (j + 1)) x) = [] := by
      apply ans_eq_nil
      intro c hcm
      obtain ⟨i, hi1, hi2, hi3, rfl⟩ := mem_slice hcm
      have hyn : y < a.length := by omega
      have hmx : (getC a y).mx ≤ q.lo := by omega
      have hnl : Node j y := by rw [hy]; exact node_left hn
      have := hm j y hnl hyn i (by omega) (by omega) hi3
      unfold Overlaps; omega
    rw [hnil, List.nil_append]
  | case5 k x w st hk hw hc ih =>
    intro hok
    have hn := (hok ⟨k, x, w⟩ (by simp)).1
    simp only at hn
    have hwt : w = true := by simpa using hw
    subst hwt
    obtain ⟨j, rfl⟩ : ∃ j, k = j + 1 := ⟨k - 1, by omega⟩
    have hx : x + 1 <<< (j + 1 - 1) = x + 2 ^ j := by rw [Nat.add_sub_cancel, Nat.one_shiftLeft]
    have hx' : x + 1 <<< j = x + 2 ^ j := by rw [Nat.one_shiftLeft]
    have hge := node_ge hn
    have hp := two_pow_pos j
    have e2 : 2 ^ (j + 1) = 2 * 2 ^ j := by rw [Nat.pow_succ]; omega
    have hok' : ∀ c ∈ (⟨j + 1 - 1, x + 1 <<< (j + 1 - 1), false⟩ : SC) :: st, CellOk c := by
      intro c hc
      simp only [List.mem_cons] at hc
      rcases hc with rfl | hc
      · exact ⟨by simp only [Nat.add_sub_cancel]; rw [hx']; exact node_right hn, by simp⟩
      · exact hok c (List.mem_cons_of_mem _ hc)
    rw [ih hok']
    simp only [List.flatMap_cons, cellAns, Nat.add_sub_cancel, Bool.false_eq_true, if_false, if_true]
    rw [← List.append_assoc]
    congr 1
    rw [hx', slice_split a x (x + 1) _ (by omega) (by omega), ans_append, slice_one a x hc.1, ans_one q _ hc.2]
    have h1 : x + 2 ^ j + 1 - 2 ^ j = x + 1 := by omega
    have h2 : x + 2 ^ j + 2 ^ j = x + 2 ^ (j + 1) := by omega
    rw [h1, h2]
  | case6 k x w st hk hw hc ih =>
    intro hok
    have hwt : w = true := by simpa using hw
    subst hwt
    rw [ih (fun c hc => hok c (List.mem_cons_of_mem _ hc))]
    simp only [List.flatMap_cons, cellAns, if_true]
    have hnil : ans q (slice a x (x + 2 ^ k)) = [] := by
      by_cases hx : x < a.length
      · have hlo : q.hi ≤ (getC a x).e.lo := by
          by_cases h : (getC a x).e.lo < q.hi
          · exact absurd ⟨hx, h⟩ hc
          · omega
        apply ans_eq_nil
        intro c hcm
        obtain ⟨i, hi1, hi2, hi3, rfl⟩ := mem_slice hcm
        have := sortedC_get a hs x i hi1 hi3
        unfold Overlaps; omega
      · rw [slice_empty a _ _ (Or.inl (by omega))]; rfl
    rw [hnil, List.nil_append]

/-- `find` on an indexed state: exactly the overlapping entries, in index order -/
theorem find_eq (a : List Cell) (K : Nat) (q : Query) (hs : SortedC a) (hm : MaxUB a)
    (hK : a.length < 2 ^ (K + 1)) :
    findLoop a a.length q [⟨K, (1 <<< K) - 1, false⟩] = ans q a := by
  rw [findLoop_eq a q hs hm _ (by
    intro c hc
    simp only [List.mem_singleton] at hc
    subst hc
    exact ⟨by simp only [Nat.one_shiftLeft]; exact node_root K, by simp⟩)]
  simp only [List.flatMap_cons, List.flatMap_nil, List.append_nil, cellAns, Bool.false_eq_true, if_false,
    Nat.one_shiftLeft]
  have hp := two_pow_pos K
  have e2 : 2 ^ (K + 1) = 2 * 2 ^ K := by rw [Nat.pow_succ]; omega
  have h1 : 2 ^ K - 1 + 1 - 2 ^ K = 0 := by omega
  rw [h1, slice_beyond a 0 _ (by omega), slice_all]

end RbV.Iit
