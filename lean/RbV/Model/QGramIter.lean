import RbV.Spec.QGram
/-!
# C19 — mirror models of the `QGrams` / `RevQGrams` iterators of `src/alphabets/mod.rs` (core Lean only)

`usize` is modelled as `Nat` with the truncation to 64 bits written out where the Rust operation can lose bits
(`<<=`).  The refinement theorems are in `RbV/Lemmas/QGramIter.lean`.
-/
namespace RbV.QGram

/-- `1usize.checked_shl(q * bits).unwrap_or(0).wrapping_sub(1)` -/
def maskOf (q bits : Nat) : Nat := if q * bits < 64 then 2 ^ (q * bits) - 1 else 2 ^ 64 - 1

/-- `qgram_push`: `qgram <<= bits; qgram |= a; qgram &= mask` -/
def pushFwd (bits mask qg a : Nat) : Nat := (((qg <<< bits) % 2 ^ 64) ||| a) &&& mask

/-- the values `next()` returns, one per symbol -/
def scanFwd (bits mask : Nat) : Nat → List Nat → List Nat
  | _, [] => []
  | qg, a :: t => pushFwd bits mask qg a :: scanFwd bits mask (pushFwd bits mask qg a) t

/-- `RankTransform::qgrams(q, text)`: the constructor consumes the first `q − 1` values -/
def qgramsModel (alpha : List Nat) (q : Nat) (text : List Nat) : List Nat :=
  let bits := bitsFor alpha.length
  (scanFwd bits (maskOf q bits) 0 (text.map (rank alpha))).drop (q - 1)

/-- `qgram_push_rev`: `qgram >>= bits; qgram |= a << left_shift` -/
def pushRev (bits shift qg a : Nat) : Nat := (qg >>> bits) ||| (a <<< shift)

def scanRev (bits shift : Nat) : Nat → List Nat → List Nat
  | _, [] => []
  | qg, a :: t => pushRev bits shift qg a :: scanRev bits shift (pushRev bits shift qg a) t

/-- `RankTransform::rev_qgrams(q, text)`: symbols are taken from the back (`next_back`) -/
def revQgramsModel (alpha : List Nat) (q : Nat) (text : List Nat) : List Nat :=
  let bits := bitsFor alpha.length
  (scanRev bits ((q - 1) * bits) 0 (text.map (rank alpha)).reverse).drop (q - 1)

end RbV.QGram
