import RbV.Model.Fasta
/-!
# Byte-level model of `bio::io::fastq::{Writer, Reader, Records}` and of the `fastx` sniffer  (property C11)

Follows `Reader::read` of `/repo/src/io/fastq.rs` line by line, on the list of `read_line` pieces (see
`RbV/Model/Fasta.lean`): header line `@id desc`; sequence lines up to the line starting with `+` (their number is
counted); that line is consumed; then *as many* quality lines as there were sequence lines; an empty quality string
is the error `IncompleteRecord`.  `Records::next` does **not** stop after an error: it keeps reading from where
the failed `read` stopped, and ends at end of stream.
-/
namespace RbV.Fastx

structure FqRec where
  id : Bytes
  desc : Option Bytes
  seq : Bytes
  qual : Bytes
deriving DecidableEq, Repr, Inhabited

inductive FqItem where
  | ok (r : FqRec)
  | missingAt        -- "expected '@' at record start"
  | incomplete       -- "Incomplete record. …"
deriving DecidableEq, Repr, Inhabited

/-- `Record::check` -/
def FqRec.check (r : FqRec) : Bool :=
  !r.id.isEmpty && r.seq.all (· < 128) && r.qual.all (· < 128) && r.seq.length == r.qual.length

/-- the `while` loop of `Reader::read`: sequence lines up to end of stream or a line starting with `+`;
returns the sequence, the number of lines read and the remaining lines *starting with* the terminating line -/
def fqSeq : List Bytes → Bytes × Nat × List Bytes
  | [] => ([], 0, [])
  | l :: ls =>
    if startsWith l 43 then ([], 0, l :: ls)
    else let r := fqSeq ls; (trimEnd l ++ r.1, r.2.1 + 1, r.2.2)

/-- the `for _ in 0..lines_read` loop: `n` further `read_line` calls (empty at end of stream) -/
def fqQual : Nat → List Bytes → Bytes × List Bytes
  | 0, ls => ([], ls)
  | n + 1, [] => let r := fqQual n []; (r.1, r.2)
  | n + 1, l :: ls => let r := fqQual n ls; (trimEnd l ++ r.1, r.2)

theorem fqSeq_length_le (ls : List Bytes) : (fqSeq ls).2.2.length ≤ ls.length := by
  induction ls with
  | nil => simp [fqSeq]
  | cons l ls ih =>
    unfold fqSeq
    split
    · simp
    · simp only [List.length_cons]; omega

theorem fqQual_length_le (n : Nat) (ls : List Bytes) : (fqQual n ls).2.length ≤ ls.length := by
  induction n generalizing ls with
  | zero => simp [fqQual]
  | succ n ih =>
    cases ls with
    | nil => simpa [fqQual] using ih []
    | cons l ls => simp only [fqQual, List.length_cons]; have := ih ls; omega

/-- header line (starting with `@`) → id and description: `splitn(2, ' ')` on the end-trimmed rest -/
def fqHeader (l : Bytes) : Bytes × Option Bytes := splitn2 (· == 32) (trimEnd l.tail)

/-- one `Reader::read` on a stream that is not at its end: the item and the lines left -/
def fqRead (l : Bytes) (ls : List Bytes) : FqItem × List Bytes :=
  if !startsWith l 64 then (.missingAt, ls)
  else
    let h := fqHeader l
    let s := fqSeq ls
    -- the line that ended the loop (the `+` line, if any) has been consumed
    let q := fqQual s.2.1 s.2.2.tail
    if q.1.isEmpty then (.incomplete, q.2)
    else (.ok { id := h.1, desc := h.2, seq := s.1, qual := q.1 }, q.2)

theorem fqRead_length_le (l : Bytes) (ls : List Bytes) : (fqRead l ls).2.length ≤ ls.length := by
  unfold fqRead
  have h1 := fqSeq_length_le ls
  have h2 := fqQual_length_le (fqSeq ls).2.1 (fqSeq ls).2.2.tail
  have h3 : (fqSeq ls).2.2.tail.length ≤ (fqSeq ls).2.2.length := by simp
  split
  · simp
  · simp only
    split <;> simp only <;> omega

/-- `Records`: `read` after `read` until end of stream (errors are items, the iteration goes on) -/
def fqRecords (lines : List Bytes) : List FqItem :=
  match lines with
  | [] => []
  | l :: ls => (fqRead l ls).1 :: fqRecords (fqRead l ls).2
termination_by lines.length
decreasing_by
  have := fqRead_length_le l ls
  simp only [List.length_cons]; omega

def parseFastq (file : Bytes) : List FqItem := fqRecords (splitLines file)

/-! ## Writer -/

/-- `Writer::write` -/
def writeFastqRec (r : FqRec) : Bytes :=
  64 :: r.id ++ (match r.desc with | some d => 32 :: d | none => []) ++ [10] ++ r.seq ++ [10, 43, 10] ++ r.qual ++ [10]

def writeFastq (recs : List FqRec) : Bytes := recs.flatMap writeFastqRec

/-! ## Layouts: multi-line sequence / quality, CRLF, repeated header on the `+` line -/

structure FqLayout where
  seqPieces : List Bytes
  qualPieces : List Bytes
  eol : Bytes
  plus : Bytes          -- what follows `+` on the separator line
deriving Repr

def layoutFastqRec (r : FqRec) (y : FqLayout) : Bytes :=
  64 :: r.id ++ (match r.desc with | some d => 32 :: d | none => []) ++ y.eol ++
  y.seqPieces.flatMap (· ++ y.eol) ++ (43 :: y.plus ++ y.eol) ++ y.qualPieces.flatMap (· ++ y.eol)

def layoutFastq (l : List (FqRec × FqLayout)) : Bytes := l.flatMap (fun x => layoutFastqRec x.1 x.2)

/-- the records the property speaks of: id without white space, description (if any) non-empty, without line feed,
not ending in white space; sequence non-empty, without white space, not starting with `+` (a line starting with `+`
*is* the separator); qualities of the same length, without white space (they may start with `@` or `+`) -/
structure ValidFq (r : FqRec) : Prop where
  id_nows : ∀ b ∈ r.id, isWs b = false
  desc_ok : ∀ d, r.desc = some d → d ≠ [] ∧ 10 ∉ d ∧ (∀ x, d.getLast? = some x → isWs x = false)
  seq_ne : r.seq ≠ []
  seq_ok : ∀ b ∈ r.seq, isWs b = false
  seq_plus : r.seq.head? ≠ some 43
  qual_len : r.qual.length = r.seq.length
  qual_ok : ∀ b ∈ r.qual, isWs b = false

instance (r : FqRec) : Decidable (ValidFq r) :=
  decidable_of_iff
    ((∀ b ∈ r.id, isWs b = false) ∧
     (∀ d, r.desc = some d → d ≠ [] ∧ 10 ∉ d ∧ (∀ x, d.getLast? = some x → isWs x = false)) ∧
     r.seq ≠ [] ∧ (∀ b ∈ r.seq, isWs b = false) ∧ r.seq.head? ≠ some 43 ∧
     r.qual.length = r.seq.length ∧ (∀ b ∈ r.qual, isWs b = false))
    ⟨fun ⟨a, b, c, d, e, f, g⟩ => ⟨a, b, c, d, e, f, g⟩, fun ⟨a, b, c, d, e, f, g⟩ => ⟨a, b, c, d, e, f, g⟩⟩

/-- a layout the reader accepts for `r`: the pieces concatenate to sequence / qualities, equally many of both,
no sequence piece starts with `+`, a line terminator LF or CRLF, no line feed on the `+` line -/
structure FqLayout.Ok (r : FqRec) (y : FqLayout) : Prop where
  seq_eq : y.seqPieces.flatten = r.seq
  qual_eq : y.qualPieces.flatten = r.qual
  same : y.seqPieces.length = y.qualPieces.length
  no_plus : ∀ p ∈ y.seqPieces, p.head? ≠ some 43
  eol : IsEol y.eol
  plus_nolf : 10 ∉ y.plus

/-! ## fastx sniffer -/

inductive Kind where | fasta | fastq
deriving DecidableEq, Repr

/-- `get_kind` / `get_kind_seek` / `EitherRecords::kind`: the first byte decides (`none`: empty input or an
illegal start character — an error) -/
def sniff (file : Bytes) : Option Kind :=
  match file with
  | 62 :: _ => some .fasta
  | 64 :: _ => some .fastq
  | _ => none

end RbV.Fastx
