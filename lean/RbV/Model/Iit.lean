import RbV.Spec.Interval
/-!
# Mirror model of `array_backed_interval_tree.rs` (cgranges-style implicit interval tree)

Follows `insert`, `index`, `index_core`, `find_into` (definitions; proofs in `RbV/Model/IitProofs.lean`).

Representation:
* `entries: Vec<InternalEntry>` is a `List Cell` (`Cell` = entry + `max`); `a[i]` is `getC a i` (total: a default
  cell outside the range; the Rust code only indexes inside the range, see `IitProofs`).
* `sort_by_key(|e| e.interval.start)` is a *stable* sort by start: `List.mergeSort` with `≤` on starts (stable).
* `for i in (i0..n).step_by(step)` is a fold over `stepIdx i0 n step` = `[i0, i0+step, …]` below `n`.
* `while (1 << k) <= n { …; k += 1 }` starting at `k = 1` runs for `k = 1 … log2 n`; it is a fold over that range
  and `max_level = k - 1 = log2 n` afterwards.
* the fixed 64-cell stack with top pointer `t` is a `List` whose head is the top. (Depth never exceeds
  `max_level + 1 ≤ 64` for `usize` sizes; the model has no such bound.)
* results are collected in the order `find_into` pushes them.

Core Lean only.
-/
namespace RbV.Iit
open RbV.Ivl

structure Cell where
  e : Entry
  mx : Int
deriving DecidableEq, Repr, Inhabited

structure State where
  entries : List Cell := []
  maxLevel : Nat := 0
  indexed : Bool := false
deriving Repr, Inhabited

def getC (a : List Cell) (i : Nat) : Cell := a[i]?.getD default

def setMx (a : List Cell) (i : Nat) (m : Int) : List Cell :=
  match a[i]? with
  | some c => a.set i { c with mx := m }
  | none => a

/-- `insert`: push with `max = end`, mark un-indexed -/
def State.insert (s : State) (e : Entry) : State :=
  { s with entries := s.entries ++ [⟨e, e.hi⟩], indexed := false }

/-- the indices `i0, i0+step, …` that are `< n` -/
def stepIdx (i0 n step : Nat) : List Nat := List.range' i0 ((n - i0 + step - 1) / step) step

def max3 (a b c : Int) : Int := max a (max b c)

/-- the first loop of `index_core`: every even index gets `max = end`; `last_i`, `last_value` follow it -/
def level0 (a : List Cell) (n : Nat) : List Cell × Nat × Int :=
  (stepIdx 0 n 2).foldl (fun (st : List Cell × Nat × Int) i =>
      let a := st.1
      let a := setMx a i (getC a i).e.hi
      (a, i, (getC a i).mx))
    (a, 0, (getC a 0).mx)

/-- the body of the `while` loop for one level `k ≥ 1` -/
def levelStep (n : Nat) (st : List Cell × Nat × Int) (k : Nat) : List Cell × Nat × Int :=
  let (a, lastI, lastV) := st
  let x := 1 <<< (k - 1)
  let i0 := (x <<< 1) - 1
  let step := x <<< 2
  let a := (stepIdx i0 n step).foldl (fun (a : List Cell) i =>
      let endLeft := (getC a (i - x)).mx
      let endRight := if i + x < n then (getC a (i + x)).mx else lastV
      setMx a i (max3 (getC a i).e.hi endLeft endRight))
    a
  let lastI := if (lastI >>> k) &&& 1 > 0 then lastI - x else lastI + x
  let lastV := if lastI < n ∧ (getC a lastI).mx > lastV then (getC a lastI).mx else lastV
  (a, lastI, lastV)

/-- `index_core`; returns the new cells and the new `max_level` -/
def indexCore (a : List Cell) (maxLevel : Nat) : List Cell × Nat :=
  if a.isEmpty then (a, maxLevel) else
  let n := a.length
  let st := level0 a n
  let st := (List.range' 1 (Nat.log2 n)).foldl (levelStep n) st
  (st.1, Nat.log2 n)

def sortByStart (a : List Cell) : List Cell := a.mergeSort (fun c d => decide (c.e.lo ≤ d.e.lo))

/-- `index` -/
def State.index (s : State) : State :=
  if s.indexed then s else
  let (a, ml) := indexCore (sortByStart s.entries) s.maxLevel
  { entries := a, maxLevel := ml, indexed := true }

/-- a stack cell of `find_into` -/
structure SC where
  k : Nat
  x : Nat
  w : Bool
deriving Repr

def SC.weight (c : SC) : Nat := if c.w then 3 ^ c.k + 1 else 3 ^ (c.k + 1)

def stackWeight (s : List SC) : Nat := (s.map SC.weight).sum

/-- the scan of a small subtree: cells in index order, stop at the first start `≥ end` -/
def scan (q : Query) : List Cell → List Entry
  | [] => []
  | c :: cs => if c.e.lo ≥ q.hi then [] else if q.lo < c.e.hi then c.e :: scan q cs else scan q cs

theorem pow3_pos (k : Nat) : 0 < 3 ^ k := Nat.pow_pos (by decide)

/-- the `while t > 0` loop of `find_into` -/
def findLoop (a : List Cell) (n : Nat) (q : Query) : List SC → List Entry
  | [] => []
  | ⟨k, x, w⟩ :: st =>
    if k ≤ 3 then
      let i0 := (x >>> k) <<< k
      let i1 := min (i0 + (1 <<< (k + 1)) - 1) n
      scan q ((a.take i1).drop i0) ++ findLoop a n q st
    else if !w then
      let y := x - (1 <<< (k - 1))
      if y ≥ n ∨ (getC a y).mx > q.lo then findLoop a n q (⟨k - 1, y, false⟩ :: ⟨k, x, true⟩ :: st)
      else findLoop a n q (⟨k, x, true⟩ :: st)
    else if x < n ∧ (getC a x).e.lo < q.hi then
      (if q.lo < (getC a x).e.hi then [(getC a x).e] else [])
        ++ findLoop a n q (⟨k - 1, x + (1 <<< (k - 1)), false⟩ :: st)
    else findLoop a n q st
termination_by s => stackWeight s
decreasing_by
  all_goals simp only [stackWeight, List.map_cons, List.sum_cons, SC.weight]
  · have := pow3_pos k; split <;> omega
  · obtain ⟨j, rfl⟩ : ∃ j, k = j + 1 := ⟨k - 1, by omega⟩
    have := pow3_pos j
    simp_all [Nat.pow_succ] <;> omega
  · obtain ⟨j, rfl⟩ : ∃ j, k = j + 1 := ⟨k - 1, by omega⟩
    have := pow3_pos j
    simp_all [Nat.pow_succ] <;> omega
  · obtain ⟨j, rfl⟩ : ∃ j, k = j + 1 := ⟨k - 1, by omega⟩
    have := pow3_pos j
    simp_all [Nat.pow_succ] <;> omega
  · have := pow3_pos k; split <;> omega

/-- `find` / `find_into`: `none` = refused (not indexed) -/
def State.find (s : State) (q : Query) : Option (List Entry) :=
  if !s.indexed then none
  else some (findLoop s.entries s.entries.length q [⟨s.maxLevel, (1 <<< s.maxLevel) - 1, false⟩])

end RbV.Iit
