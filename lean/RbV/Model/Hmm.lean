import RbV.Spec.Hmm
/-!
# Mirror models of `src/stats/hmm/mod.rs` (`viterbi`, `forward`, `backward`) over exact weights

Log-space additions of the Rust code are multiplications here, `ln_sum_exp` is a plain sum, `LogProb` columns
of the `Array2` matrices are `List Nat` of length `S` (`ix c k` = entry `k`).

* `viterbi`  follows `hmm::viterbi` statement by statement:
  1. `viterbi_matrices` = `col0` + `matFrom selZ` (per target state `Iterator::max_by` over the previous column
     with the zero-aware comparator closure of the Rust code — `cmpZ`, `argmaxBy`, `selZ`; value = best ·
     transition · emission; back-pointer).  The matrices do **not** contain the end weights.
  2. `if hmm.has_end_state() { vals[[last, s]] += end_prob(s) }` = `addEnd`: the end weight is multiplied into
     the **last** column only, after the matrix and all back-pointers are complete.
  3. `viterbi_traceback` = `traceback`: arg-max of the last column with the last maximum winning, as
     `max_by_key` does; then the back-pointers from the last column to the first.
* `viterbiWith sel pick` is the same algorithm for an arbitrary predecessor selector `sel` and an arbitrary
  arg-max `pick` of the last column, with the end weight always multiplied into the last column;
  `viterbiE = viterbiWith selLast argmaxLast` is the reference the driver uses as oracle.
* `forward`  follows `forward` (emission inside the sum, end weights in the final sum).
* `backward` follows `backward`: row 0 = end weights, one row per observation from the last to the second,
  final sum with initial weights and the emission of the first observation.  `backwardLoop` is the literal
  loop with the index tests of the Rust code (`i == 0` with the `len > 1` test inside, `i == len-1`, else).
-/
namespace RbV.Hmm

/-- entry `k` of a column -/
def ix (c : List Nat) (k : Nat) : Nat := c.getD k 0

/-- the column `[f 0, …, f (S-1)]` -/
def tab (S : Nat) (f : Nat → Nat) : List Nat := (List.range S).map f

/-- Σ_{k<S} f k -/
def sumS (S : Nat) (f : Nat → Nat) : Nat := ((List.range S).map f).sum

/-- index in `0 … n-1` of a maximum of `f`; among equal maxima the **last** one (Rust `max_by`,
`max_by_key`: "if several elements are equally maximum, the last element is returned") -/
def argmaxLast (f : Nat → Nat) : Nat → Nat
  | 0 => 0
  | n + 1 => if f (argmaxLast f n) ≤ f n then n else argmaxLast f n

/-! ## Viterbi -/

/-- a predecessor selector: `sel c t n` = index `< n` chosen for the weights `c k * t k` (`c` = previous column,
`t` = transitions into the target state) -/
abbrev Sel := (Nat → Nat) → (Nat → Nat) → Nat → Nat

/-- plain arg-max of the products, last maximum wins -/
def selLast : Sel := fun c t n => argmaxLast (fun k => c k * t k) n

/-- the comparator closure of `viterbi_matrices` ("zero-aware maximum"): both previous values zero → `Equal`;
only the left one zero → `Less`; only the right one zero → `Greater`; otherwise compare
`x + transition(a, j)` with `y + transition(b, j)` (sums of logs = products here; `is_zero` = weight 0) -/
def cmpZ (c t : Nat → Nat) (a b : Nat) : Ordering :=
  if c a = 0 ∧ c b = 0 then .eq
  else if c a = 0 then .lt
  else if c b = 0 then .gt
  else compare (c a * t a) (c b * t b)

/-- `Iterator::max_by` over the indices `0 … n-1`: fold that keeps the accumulated element only when the
comparator says `Greater` (so the last of several maxima wins) -/
def argmaxBy (cmp : Nat → Nat → Ordering) : Nat → Nat
  | 0 => 0
  | n + 1 => if n = 0 then 0 else if cmp (argmaxBy cmp n) n = .gt then argmaxBy cmp n else n

/-- the selector of the Rust code -/
def selZ : Sel := fun c t n => argmaxBy (cmpZ c t) n

/-- one column of `viterbi_matrices` (`i > 0`): values and back-pointers -/
def stepV (sel : Sel) (m : Hmm) (col : List Nat) (o : Nat) : List Nat × List Nat :=
  let best := fun j => sel (ix col) (fun k => m.trans k j) m.S
  (tab m.S fun j => ix col (best j) * m.trans (best j) j * m.emit j o, tab m.S best)

/-- the columns after `col` for the remaining observations -/
def matFrom (sel : Sel) (m : Hmm) (col : List Nat) : List Nat → List (List Nat × List Nat)
  | [] => []
  | o :: os => let cf := stepV sel m col o; cf :: matFrom sel m cf.1 os

/-- initial column -/
def col0 (m : Hmm) (o : Nat) : List Nat := tab m.S fun s => m.init s * m.emit s o

/-- an arg-max over `0 … n-1` (the choice made in the last column by `viterbi_traceback`) -/
abbrev Pick := (Nat → Nat) → Nat → Nat

/-- first maximum wins (not what the code does; a second instance of a valid `Pick`) -/
def argmaxFirst (f : Nat → Nat) : Nat → Nat
  | 0 => 0
  | n + 1 => if f (argmaxFirst f n) < f n then n else argmaxFirst f n

/-- `viterbi_traceback` started at column `col` followed by the columns `rest`: the path from the time of `col`
to the end and the reported value.  `w` weights the last column before the final arg-max `pick`. -/
def tracebackW (pick : Pick) (S : Nat) (w : Nat → Nat) (col : List Nat) : List (List Nat × List Nat) → List Nat × Nat
  | [] => let k := pick (fun k => ix col k * w k) S; ([k], ix col k * w k)
  | cf :: rest => let r := tracebackW pick S w cf.1 rest; (ix cf.2 (r.1.headD 0) :: r.1, r.2)

/-- literal `viterbi_traceback`: `max_by_key` over the last column as it stands (last maximum wins), reported
value = that entry, then the back-pointers -/
def traceback (S : Nat) (col : List Nat) : List (List Nat × List Nat) → List Nat × Nat
  | [] => let k := argmaxLast (ix col) S; ([k], ix col k)
  | cf :: rest => let r := traceback S cf.1 rest; (ix cf.2 (r.1.headD 0) :: r.1, r.2)

/-- `vals[[last, s]] = vals[[last, s]] + hmm.end_prob(s)` for every state -/
def endCol (m : Hmm) (col : List Nat) : List Nat := tab m.S fun s => ix col s * m.fin s

/-- the `for s in hmm.states()` loop of `hmm::viterbi` on the matrices `col :: mats`: only the value column of
the **last** observation changes; every back-pointer column and every earlier value column stays as
`viterbi_matrices` left it -/
def addEnd (m : Hmm) (col : List Nat) : List (List Nat × List Nat) → List Nat × List (List Nat × List Nat)
  | [] => (endCol m col, [])
  | cf :: rest => let r := addEnd m cf.1 rest; (col, (r.1, cf.2) :: r.2)

/-- mirror of `hmm::viterbi`: `viterbi_matrices` (zero-aware comparator, no end weights), then the end weights
on the last column iff `has_end_state()`, then `viterbi_traceback` -/
def viterbi (m : Hmm) : List Nat → List Nat × Nat
  | [] => ([], 0)
  | o :: os =>
    let col := col0 m o
    let mats := matFrom selZ m col os
    let vm := if m.hasEnd then addEnd m col mats else (col, mats)
    traceback m.S vm.1 vm.2

/-- Viterbi including the end weights, for any predecessor selector and any final arg-max -/
def viterbiWith (sel : Sel) (pick : Pick) (m : Hmm) : List Nat → List Nat × Nat
  | [] => ([], 0)
  | o :: os => tracebackW pick m.S m.fin (col0 m o) (matFrom sel m (col0 m o) os)

/-- the reference used by the driver (what the property demands of every model) -/
def viterbiE (m : Hmm) : List Nat → List Nat × Nat := viterbiWith selLast argmaxLast m

/-! ## forward -/

def stepF (m : Hmm) (col : List Nat) (o : Nat) : List Nat :=
  tab m.S fun j => sumS m.S fun k => ix col k * m.trans k j * m.emit j o

def fwdFrom (m : Hmm) (col : List Nat) : List Nat → Nat
  | [] => sumS m.S fun k => ix col k * m.fin k
  | o :: os => fwdFrom m (stepF m col o) os

/-- mirror of `hmm::forward` (the returned likelihood) -/
def forward (m : Hmm) : List Nat → Nat
  | [] => 0
  | o :: os => fwdFrom m (col0 m o) os

/-! ## backward -/

/-- one row of the backward table from the previous one (`vals[[i+1, j]]` from `vals[[i, ·]]`) -/
def stepB (m : Hmm) (nxt : List Nat) (o : Nat) : List Nat :=
  tab m.S fun j => sumS m.S fun k => ix nxt k * m.trans j k * m.emit k o

/-- backward column for the observations that follow -/
def bcol (m : Hmm) : List Nat → List Nat
  | [] => tab m.S m.fin
  | o :: os => stepB m (bcol m os) o

/-- `prob_vec_final` summed -/
def finalB (m : Hmm) (cur : List Nat) (o : Nat) : Nat :=
  sumS m.S fun k => ix cur k * m.init k * m.emit k o

/-- mirror of `hmm::backward` (the returned likelihood), recursive form -/
def backward (m : Hmm) : List Nat → Nat
  | [] => 0
  | o :: os => finalB m (bcol m os) o

/-- the literal loop of `hmm::backward` over the reversed observations: `n` = number of observations, `i` = loop
index, `cur` = the row `vals[[i, ·]]` written last, `pvf` = Σ `prob_vec_final` (0 = the empty vector) -/
def backwardLoop (m : Hmm) (n : Nat) : Nat → List Nat → List Nat → Nat → Nat
  | _, [], _, pvf => pvf
  | i, o :: rest, cur, pvf =>
    if i = 0 then
      let cur0 := tab m.S m.fin
      if n > 1 then backwardLoop m n (i + 1) rest (stepB m cur0 o) pvf
      else backwardLoop m n (i + 1) rest cur0 (finalB m cur0 o)
    else if i = n - 1 then backwardLoop m n (i + 1) rest cur (finalB m cur o)
    else backwardLoop m n (i + 1) rest (stepB m cur o) pvf

def backwardLit (m : Hmm) (obs : List Nat) : Nat :=
  backwardLoop m obs.length 0 obs.reverse [] 0

end RbV.Hmm
