import RbV.Model.LFMap
import RbV.Model.Occ
/-
Mirror model of `SuffixArray::sample` / `SampledSuffixArray::get` (C03 [C]) for texts whose last symbol is their
unique smallest symbol, and the theorem `sampled_get_correct`: `get(i) = sa[i]` for every row, every sampling rate
`s ≥ 1` and every exact `less`/`Occ` (in particular `lessModel` and `occGet ∘ occNewLoop` for every `k ≥ 1`).

```
loop {
    if pos % s == 0 { return Some(sample[pos / s] + offset); }
    let c = bwt[pos];
    if c == sentinel { return Some(extra_rows[&pos] + offset); }
    pos = less[c] + occ.get(bwt, pos - 1, c);
    offset += 1;
}
```
`sample[j] = sa[j·s]`; `extra_rows` maps every unsampled row whose BWT symbol is the sentinel to its `sa` value
(modelled as a partial function on rows: `none` = key absent = the `HashMap` index would panic).
Texts with several sentinel occurrences are not covered by the theorem (they are by the correspondence run).
-/
namespace RbV.Sampled
open RbV RbV.Kasai RbV.LFMap RbV.OccM

/-- `sample` vector built by `SuffixArray::sample` -/
def sampleVec (sa : List Nat) (s : Nat) : List Nat :=
  ((List.range sa.length).filter (fun i => i % s = 0)).map (fun i => sa.getD i 0)

/-- `extra_rows` as a partial function on rows -/
def extraRow (bwt sa : List Nat) (s sent : Nat) (i : Nat) : Option Nat :=
  if i % s ≠ 0 ∧ bwt.getD i 0 = sent then some (sa.getD i 0) else none

/-- the loop of `get` with fuel; `none` = a failed lookup (or fuel exhausted) -/
def getGo (bwt sa : List Nat) (s sent : Nat) (lessA : List Nat) (occF : Nat → Nat → Nat) :
    Nat → Nat → Nat → Option Nat
  | 0, _, _ => none
  | f + 1, pos, off =>
    if pos % s = 0 then ((sampleVec sa s)[pos / s]?).map (· + off)
    else
      let c := bwt.getD pos 0
      if c = sent then (extraRow bwt sa s sent pos).map (· + off)
      else getGo bwt sa s sent lessA occF f (lessA.getD c 0 + occF (pos - 1) c) (off + 1)

def sampledGet (bwt sa : List Nat) (s sent : Nat) (lessA : List Nat) (occF : Nat → Nat → Nat) (i : Nat) :
    Option Nat :=
  if i < bwt.length then getGo bwt sa s sent lessA occF (bwt.length + 1) i 0 else none

theorem sampleVec_getElem? (sa : List Nat) (s : Nat) (hs : 0 < s) (pos : Nat) (hp : pos < sa.length)
    (hm : pos % s = 0) : (sampleVec sa s)[pos / s]? = some (sa.getD pos 0) := by
  unfold sampleVec
  rw [filter_range_mod _ _ hs, List.map_map, List.getElem?_map]
  have hlt : pos / s < (sa.length + s - 1) / s := by
    rw [Nat.lt_div_iff_mul_lt hs, Nat.div_mul_cancel (Nat.dvd_of_mod_eq_zero hm)]
    omega
  rw [List.getElem?_range hlt]
  simp only [Option.map_some, Function.comp, Nat.div_mul_cancel (Nat.dvd_of_mod_eq_zero hm)]

theorem getGo_correct (t sa : List Nat) (h : Sorted t sa) (hsg : Single t) (s : Nat) (hs : 0 < s)
    (m : Nat) (hm : ∀ x ∈ t, x < m) (lessA : List Nat) (occF : Nat → Nat → Nat)
    (hless : ∀ c, c < m → lessA[c]? = some (lessRef (bwtRef t sa) c))
    (hocc : ∀ r c, r < t.length → occF r c = occRef (bwtRef t sa) r c) :
    ∀ (f pos off : Nat), pos < t.length → sa.getD pos 0 < f →
      getGo (bwtRef t sa) sa s (t.getD (t.length - 1) 0) lessA occF f pos off = some (sa.getD pos 0 + off) := by
  intro f
  induction f with
  | zero => intro pos off _ hf; omega
  | succ f ih =>
    intro pos off hpos hf
    have hbl := length_bwtRef t sa h
    simp only [getGo]
    by_cases hmod : pos % s = 0
    · rw [if_pos hmod, sampleVec_getElem? sa s hs pos (by rw [h.length]; exact hpos) hmod]; rfl
    · rw [if_neg hmod]
      have hb := bwtRef_getD t sa h pos hpos
      have hp := h.getD_lt pos hpos
      by_cases hc : (bwtRef t sa).getD pos 0 = t.getD (t.length - 1) 0
      · -- the BWT symbol is the sentinel: this is the row of position 0, cached in `extra_rows`
        rw [if_pos hc]
        unfold extraRow
        rw [if_pos ⟨hmod, hc⟩]; rfl
      · rw [if_neg hc]
        -- sa[pos] ≥ 1, otherwise the BWT symbol would be the final sentinel
        have hp1 : 1 ≤ sa.getD pos 0 := by
          apply Nat.pos_of_ne_zero
          intro hz
          rw [hz, cpred_zero _ hsg.pos] at hb
          exact hc hb
        have hpos1 : 1 ≤ pos := by
          apply Nat.pos_of_ne_zero
          intro hz; rw [hz] at hmod; simp at hmod
        have hcm : (bwtRef t sa).getD pos 0 < m := by
          rw [hb]
          have : t.getD (cpred t.length (sa.getD pos 0)) 0 ∈ t := by
            have hl := cpred_lt t.length (sa.getD pos 0) hsg.pos
            rw [List.getD_eq_getElem?_getD, List.getElem?_eq_getElem hl]
            exact List.getElem_mem hl
          exact hm _ this
        -- the next row is LF(pos)
        have hnext : lessA.getD ((bwtRef t sa).getD pos 0) 0 + occF (pos - 1) ((bwtRef t sa).getD pos 0) =
            sa.idxOf (cpred t.length (sa.getD pos 0)) := by
          rw [← lf_mapping t sa h hsg pos hpos]
          unfold lfRef
          rw [List.getD_eq_getElem?_getD, hless _ hcm, hocc _ _ (by omega)]
          have e1 := occRef_row (bwtRef t sa) pos (by rw [hbl]; exact hpos)
          have e2 : occRef (bwtRef t sa) (pos - 1) ((bwtRef t sa).getD pos 0) =
              ((bwtRef t sa).take pos).count ((bwtRef t sa).getD pos 0) := by
            unfold occRef
            have : pos - 1 + 1 = pos := by omega
            rw [this]
          rw [e1, e2]
          simp only [Option.getD_some]
          omega
        rw [hnext]
        have hcp : cpred t.length (sa.getD pos 0) = sa.getD pos 0 - 1 := by
          have := cpred_succ t.length (sa.getD pos 0 - 1) (by omega)
          have e : sa.getD pos 0 - 1 + 1 = sa.getD pos 0 := by omega
          rwa [e] at this
        have hcl : sa.getD pos 0 - 1 < t.length := by omega
        have hr := h.rank_lt _ hcl
        rw [h.length] at hr
        rw [hcp, ih _ (off + 1) hr (by rw [h.getD_rank _ hcl]; omega), h.getD_rank _ hcl]
        congr 1; omega

/-- **`SampledSuffixArray::get(i) = sa[i]`** for every row, every sampling rate, with the exact `less`/`Occ`. -/
theorem sampled_get_correct (t sa : List Nat) (h : Sorted t sa) (hsg : Single t) (s : Nat) (hs : 0 < s)
    (m : Nat) (hm : ∀ x ∈ t, x < m) (lessA : List Nat) (occF : Nat → Nat → Nat)
    (hless : ∀ c, c < m → lessA[c]? = some (lessRef (bwtRef t sa) c))
    (hocc : ∀ r c, r < t.length → occF r c = occRef (bwtRef t sa) r c)
    (i : Nat) (hi : i < t.length) :
    sampledGet (bwtRef t sa) sa s (t.getD (t.length - 1) 0) lessA occF i = some (sa.getD i 0) := by
  unfold sampledGet
  have hbl := length_bwtRef t sa h
  rw [if_pos (by rw [hbl]; exact hi), hbl,
    getGo_correct t sa h hsg s hs m hm lessA occF hless hocc (t.length + 1) i 0 hi
      (by have := h.getD_lt i hi; omega)]
  rfl

/-- … in particular with the mirror models of `less()` and of `Occ::new` / `Occ::get`, for every `k ≥ 1` -/
theorem sampled_get_correct_models (t sa : List Nat) (h : Sorted t sa) (hsg : Single t) (s k : Nat)
    (hs : 0 < s) (hk : 0 < k) (m : Nat) (hm : ∀ x ∈ t, x < m) (i : Nat) (hi : i < t.length) :
    sampledGet (bwtRef t sa) sa s (t.getD (t.length - 1) 0) (lessModel (bwtRef t sa) m)
      (fun r c => occGet (occNewLoop (bwtRef t sa) k c) (bwtRef t sa) k r c) i = some (sa.getD i 0) := by
  apply sampled_get_correct t sa h hsg s hs m hm
  · intro c hc; exact less_eq _ m c hc
  · intro r c hr
    rw [occNewLoop_eq _ k c hk]
    exact occ_get_eq _ k r c hk (by rw [length_bwtRef t sa h]; exact hr)
  · exact hi

end RbV.Sampled
