/-!
# Tab-separated record files: BED and GFF/GTF (C13) — model of the format, writer and reader

Bytes are `Nat`s, a file is a `List Nat`.  The record layer is `csv` as `bed.rs` / `gff.rs` configure it
(delimiter TAB, comment byte `#` on the reader only, no headers, default quoting = `"` with doubling, default
terminator = CR, LF or CRLF, writer `QuoteStyle::Necessary`, reader not flexible, input followed by one LF):

* writer (`quoteField`, `recordBody`): a field is put in quotes exactly when it contains TAB, `"`, CR or LF
  (csv-core `requires_quotes`; the writers do **not** configure a comment byte, so `#` never forces quotes); inside
  quotes every `"` is doubled; a record that would otherwise be written as zero bytes is written as `""`.
* reader (`step` / `run`): the NFA of `csv-core` (`Reader::transition_nfa`, `transition_final_nfa`) with the ε-moves
  collapsed: a field is quoted only if its first byte is `"`; inside quotes `""` is one quote and a single `"` ends the
  quoted part (bytes after it up to the next TAB / line end are appended literally); quotes elsewhere are literal;
  CR and LF both end a record, empty records are skipped; `#` at the start of a record opens a comment up to LF.
* `BedRec`, `bedLine`, `readBed` — chrom, start, end + k auxiliary columns; a file has one column count
  (the count of its first record; a line with another count is an error — `csv`'s non-flexible reader).
* `GffRec`, `gffLine`, `readGff` — nine columns; phase `.`/0/1/2; the attribute column per dialect:
  `k=v1,v2;k2=v` (GFF3) or `k v1;k v2;k2 v` (GFF2/GTF2).  The attribute reader `parseAttrs` is the key/value
  regular expression ` *(?P<key>[^dt\t]+)d(?P<value>[^dt\t]+)t?` of `gff.rs` written out as a scanner
  (`matchAt`/`scan`: leftmost match, greedy runs, retry one symbol further on failure), followed by the split on the
  value delimiter and the trimming of quote characters.
* Outcome of reading one record: `ok r`, `err why` (the property demands an error) or `unspec` (the text does not
  say: `+5`, `0x1f`, `007` as numbers).
-/
namespace RbV.Tsv

def TAB : Nat := 9
def LF : Nat := 10
def HASH : Nat := 35
def SPACE : Nat := 32
def CR : Nat := 13
def QUOTE : Nat := 34

/-! ## Splitting and joining -/

/-- put a symbol in front of the first piece -/
def consFirst (c : Nat) : List (List Nat) → List (List Nat)
  | [] => [[c]]
  | p :: ps => (c :: p) :: ps

/-- split at every occurrence of `sep`; always at least one piece -/
def splitOn (sep : Nat) : List Nat → List (List Nat)
  | [] => [[]]
  | c :: r => if c = sep then [] :: splitOn sep r else consFirst c (splitOn sep r)

def join (sep : Nat) : List (List Nat) → List Nat
  | [] => []
  | [p] => p
  | p :: q :: r => p ++ sep :: join sep (q :: r)

/-- a file: every line followed by LF -/
def render : List (List Nat) → List Nat
  | [] => []
  | l :: ls => l ++ LF :: render ls

/-! ## Decimal numbers -/

def toDec (n : Nat) : List Nat :=
  if n < 10 then [48 + n] else toDec (n / 10) ++ [48 + n % 10]

def isDigit (c : Nat) : Bool := decide (48 ≤ c) && decide (c ≤ 57)

def digitsVal (acc : Nat) (s : List Nat) : Nat := s.foldl (fun a c => a * 10 + (c - 48)) acc

/-- a non-empty string of decimal digits → its value -/
def parseDec (s : List Nat) : Option Nat :=
  if s.isEmpty || !s.all isDigit then none else some (digitsVal 0 s)

inductive Num where
  | ok (n : Nat)
  | err
  | unspec
  deriving Repr, DecidableEq

/-- `u64` field: a canonical decimal below 2^64 is that number, a canonical decimal from 2^64 on and anything that
is not a number at all is an error; other spellings some parsers accept (`+5`, `0x1f`, leading zeros) are left open -/
def readU64 (s : List Nat) : Num :=
  match parseDec s with
  | some n =>
    if s = toDec n then (if n < 2 ^ 64 then .ok n else .err) else .unspec
  | none =>
    match s with
    | 43 :: r => if parseDec r |>.isSome then .unspec else .err          -- "+digits"
    | 48 :: 120 :: _ => .unspec                                          -- "0x…"
    | _ => .err

/-! ## Outcome of one line -/

inductive Res (α : Type) where
  | ok (r : α)
  | err (why : String)
  | unspec
  deriving Repr, DecidableEq

/-! ## The csv layer: quoting writer and state-machine reader -/

/-- record terminators of the reader (`Terminator::CRLF`: CR, LF or CRLF) -/
def isTerm (c : Nat) : Bool := c == LF || c == CR

/-- bytes that force quotes around a field (`csv-core` `WriterBuilder::build`, `requires_quotes`): the delimiter,
the quote, CR and LF.  The writers of `bed.rs` / `gff.rs` set no comment byte, so `#` is not among them. -/
def needsQuote (c : Nat) : Bool := c == TAB || c == QUOTE || c == CR || c == LF

/-- `csv_core::writer::quote` with `double_quote = true` -/
def escapeQuotes : List Nat → List Nat
  | [] => []
  | c :: r => if c = QUOTE then QUOTE :: QUOTE :: escapeQuotes r else c :: escapeQuotes r

/-- one field as `QuoteStyle::Necessary` writes it -/
def quoteField (f : List Nat) : List Nat :=
  if f.any needsQuote then QUOTE :: (escapeQuotes f ++ [QUOTE]) else f

/-- one record without its terminator; `""` when nothing else was written (`Writer::terminator`,
`record_bytes == 0`: a sole empty field, or no field at all) -/
def recordBody (fs : List (List Nat)) : List Nat :=
  let b := join TAB (fs.map quoteField)
  if b.isEmpty then [QUOTE, QUOTE] else b

/-- the reader would take the written record for a comment: the first field starts with `#` and nothing in it
forces quotes.  In the BED/GFF line format such a line *is* a comment (`#a` TAB `1` TAB `2`): the record has no
representation in the format and is outside the property's domain (the round-trip theorems exclude it). -/
def hashStart : List (List Nat) → Bool
  | f :: _ => f.head? == some HASH && !f.any needsQuote
  | [] => false

inductive CsvSt where
  | startRecord        -- `StartRecord` (also `EndRecord`, `CRLF`: they differ only in discarding a following LF)
  | startField         -- `StartField` after a delimiter
  | inField            -- `InField`
  | inQuoted           -- `InQuotedField`
  | quoteInQuoted      -- `InDoubleEscapedQuote`: a `"` was seen inside a quoted field
  | inComment          -- `InComment`
  deriving Repr, DecidableEq

/-- reader state: automaton state, bytes of the current field, completed fields of the current record -/
structure Csv where
  st : CsvSt
  fld : List Nat
  flds : List (List Nat)
  deriving Repr, DecidableEq

def Csv.start : Csv := ⟨.startRecord, [], []⟩

/-- `StartField` on byte `c` -/
def stepField (flds : List (List Nat)) (c : Nat) : Csv × Option (List (List Nat)) :=
  if c = QUOTE then (⟨.inQuoted, [], flds⟩, none)
  else if c = TAB then (⟨.startField, [], flds ++ [[]]⟩, none)
  else if isTerm c then (Csv.start, some (flds ++ [[]]))
  else (⟨.inField, [c], flds⟩, none)

/-- one byte: new state and the record that is complete with this byte, if any -/
def step (s : Csv) (c : Nat) : Csv × Option (List (List Nat)) :=
  match s.st with
  | .startRecord =>
    if isTerm c then (Csv.start, none)
    else if c = HASH then (⟨.inComment, [], []⟩, none)
    else stepField [] c
  | .startField => stepField s.flds c
  | .inField =>
    if c = TAB then (⟨.startField, [], s.flds ++ [s.fld]⟩, none)
    else if isTerm c then (Csv.start, some (s.flds ++ [s.fld]))
    else (⟨.inField, s.fld ++ [c], s.flds⟩, none)
  | .inQuoted =>
    if c = QUOTE then (⟨.quoteInQuoted, s.fld, s.flds⟩, none)
    else (⟨.inQuoted, s.fld ++ [c], s.flds⟩, none)
  | .quoteInQuoted =>
    if c = QUOTE then (⟨.inQuoted, s.fld ++ [QUOTE], s.flds⟩, none)
    else if c = TAB then (⟨.startField, [], s.flds ++ [s.fld]⟩, none)
    else if isTerm c then (Csv.start, some (s.flds ++ [s.fld]))
    else (⟨.inField, s.fld ++ [c], s.flds⟩, none)
  | .inComment => if c = LF then (Csv.start, none) else (⟨.inComment, [], []⟩, none)

/-- end of input (`transition_final_nfa`): a record that has begun is delivered -/
def finish (s : Csv) : List (List (List Nat)) :=
  match s.st with
  | .startRecord | .inComment => []
  | _ => [s.flds ++ [s.fld]]

def run : Csv → List Nat → List (List (List Nat))
  | s, [] => finish s
  | s, c :: r => (step s c).2.toList ++ run (step s c).1 r

/-- the records (field lists) of a file as `bed::Reader` / `gff::Reader` hand them to `csv`: the input followed by
one LF (`reader.chain(b"\n")`) -/
def rows (bytes : List Nat) : List (List (List Nat)) := run Csv.start (bytes ++ [LF])

/-- the quote-free reading (kept for comparison, see `Lemmas/Tsv.lean`): split at LF, drop empty lines and comment
lines, split at TAB -/
def dataLines (bytes : List Nat) : List (List Nat) :=
  (splitOn LF bytes).filter fun l => !(l.isEmpty || l.head? == some HASH)

def rowsPlain (bytes : List Nat) : List (List (List Nat)) := (dataLines bytes).map (splitOn TAB)

/-- what a file consists of: record lines, comment lines (`#…`) and blank lines, in any order -/
inductive Item where
  | record (line : List Nat)
  | comment (text : List Nat)
  | blank
  deriving Repr, DecidableEq

def Item.line : Item → List Nat
  | .record l => l
  | .comment t => HASH :: t
  | .blank => []

def Item.rec? : Item → Option (List Nat)
  | .record l => some l
  | _ => none

def fileOf (items : List Item) : List Nat := render (items.map Item.line)

/-- `csv` (non-flexible): every record must have as many fields as the first one -/
def withCount (parse : List (List Nat) → Res α) (rs : List (List (List Nat))) : List (Res α) :=
  match rs with
  | [] => []
  | r0 :: _ => rs.map fun r => if r.length = r0.length then parse r else .err "cols-unequal"

/-! ## BED -/

structure BedRec where
  chrom : List Nat
  start : Nat
  stop : Nat
  aux : List (List Nat)
  deriving Repr, DecidableEq

def bedFields (r : BedRec) : List (List Nat) := r.chrom :: toDec r.start :: toDec r.stop :: r.aux

/-- a written BED record without its line end -/
def bedLine (r : BedRec) : List Nat := recordBody (bedFields r)

def parseBedFields : List (List Nat) → Res BedRec
  | chrom :: s :: e :: aux =>
    match readU64 s, readU64 e with
    | .ok a, .ok b => .ok ⟨chrom, a, b, aux⟩
    | .err, _ => .err "num"
    | _, .err => .err "num"
    | _, _ => .unspec
  | _ => .err "cols-lt3"

def readBed (bytes : List Nat) : List (Res BedRec) := withCount parseBedFields (rows bytes)

/-! ## GFF -/

structure Dialect where
  delim : Nat
  term : Nat
  vdelim : Nat
  /-- several values of one key: joined by `vdelim` (false) or written as repeated `key value` pairs (true) -/
  repeatKeys : Bool
  deriving Repr, DecidableEq

def gff3 : Dialect := ⟨61, 59, 44, false⟩       -- '='  ';'  ','
def gff2 : Dialect := ⟨32, 59, 0, true⟩         -- ' '  ';'  NUL   (also GTF2)

structure GffRec where
  seqname : List Nat
  source : List Nat
  ftype : List Nat
  start : Nat
  stop : Nat
  score : List Nat
  strand : List Nat
  phase : Option Nat
  /-- key ↦ values, keys in the order the writer happens to emit them -/
  attrs : List (List Nat × List (List Nat))
  deriving Repr, DecidableEq

/-- the `key<delim>rawvalue` segments of an attribute column -/
def segments (d : Dialect) (g : List (List Nat × List (List Nat))) : List (List Nat × List Nat) :=
  g.flatMap fun kv => if d.repeatKeys then kv.2.map fun v => (kv.1, v) else [(kv.1, join d.vdelim kv.2)]

def renderSeg (d : Dialect) (s : List Nat × List Nat) : List Nat := s.1 ++ d.delim :: s.2

def writeAttrs (d : Dialect) (g : List (List Nat × List (List Nat))) : List Nat :=
  join d.term ((segments d g).map (renderSeg d))

def phaseStr : Option Nat → List Nat
  | none => [46]
  | some n => toDec n

def gffFields (d : Dialect) (r : GffRec) : List (List Nat) :=
  [r.seqname, r.source, r.ftype, toDec r.start, toDec r.stop, r.score, r.strand, phaseStr r.phase,
   writeAttrs d r.attrs]

/-- a written GFF record without its line end -/
def gffLine (d : Dialect) (r : GffRec) : List Nat := recordBody (gffFields d r)

/-- symbols a key or a value may consist of: `[^<delim><term>\t]` -/
def isKV (d : Dialect) (c : Nat) : Bool := c != d.delim && c != d.term && c != TAB

def isSpace (c : Nat) : Bool := c == SPACE

/-- one attempt to match ` *(key)<delim>(value)<term>?` at the head of `s` → (key, raw value, rest) -/
def matchAt (d : Dialect) (s : List Nat) : Option (List Nat × List Nat × List Nat) :=
  let sp := s.takeWhile isSpace
  let s1 := s.dropWhile isSpace
  let run := s1.takeWhile (isKV d)
  let s2 := s1.dropWhile (isKV d)
  -- `key+`: the greedy ` *` hands one blank back when blanks are key symbols and nothing else is there
  let key : List Nat := if !run.isEmpty then run else if isKV d SPACE && !sp.isEmpty then [SPACE] else []
  if key.isEmpty then none else
  match s2 with
  | c :: s3 =>
    if c = d.delim then
      let val := s3.takeWhile (isKV d)
      let s4 := s3.dropWhile (isKV d)
      if val.isEmpty then none else
      match s4 with
      | t :: s5 => if t = d.term then some (key, val, s5) else some (key, val, s4)
      | [] => some (key, val, [])
    else none
  | [] => none

/-- all matches, leftmost first, non-overlapping (`captures_iter`) -/
def scan (d : Dialect) : Nat → List Nat → List (List Nat × List Nat)
  | 0, _ => []
  | _ + 1, [] => []
  | fuel + 1, c :: r =>
    match matchAt d (c :: r) with
    | some (k, v, rest) => (k, v) :: scan d fuel rest
    | none => scan d fuel r

def isQuote1 (c : Nat) : Bool := c == 39        -- '
def isQuote2 (c : Nat) : Bool := c == 34        -- "

def trimBoth (p : Nat → Bool) (s : List Nat) : List Nat :=
  ((s.dropWhile p).reverse.dropWhile p).reverse

/-- `s.trim_matches('\'').trim_matches('"')` -/
def trimQuotes (s : List Nat) : List Nat := trimBoth isQuote2 (trimBoth isQuote1 s)

/-- attribute column → (key, value) pairs in insertion order -/
def parseAttrs (d : Dialect) (s : List Nat) : List (List Nat × List Nat) :=
  (scan d (s.length + 1) s).flatMap fun kv =>
    (splitOn d.vdelim kv.2).map fun v => (trimQuotes kv.1, trimQuotes v)

/-- the (key, value) pairs of a key ↦ values list -/
def flatPairs (g : List (List Nat × List (List Nat))) : List (List Nat × List Nat) :=
  g.flatMap fun kv => kv.2.map fun v => (kv.1, v)

/-- all values of a key, in insertion order (the multimap view) -/
def valuesOf (pairs : List (List Nat × List Nat)) (k : List Nat) : List (List Nat) :=
  pairs.filterMap fun kv => if kv.1 = k then some kv.2 else none

def insertKV (g : List (List Nat × List (List Nat))) (k v : List Nat) : List (List Nat × List (List Nat)) :=
  match g with
  | [] => [(k, [v])]
  | (k', vs) :: rest => if k' = k then (k', vs ++ [v]) :: rest else (k', vs) :: insertKV rest k v

/-- group pairs by key (first-occurrence order of keys, insertion order of values) -/
def group (pairs : List (List Nat × List Nat)) : List (List Nat × List (List Nat)) :=
  pairs.foldl (fun g kv => insertKV g kv.1 kv.2) []

def readPhase (s : List Nat) : Res (Option Nat) :=
  if s = [46] then .ok none else
  match parseDec s with
  | some n => if s = toDec n then (if n < 3 then .ok (some n) else .err "phase-ge3") else .unspec
  | none =>
    match s with
    | 43 :: r => if parseDec r |>.isSome then .unspec else .err "phase-bad"
    | _ => .err "phase-bad"

/-- a GFF record as the reader builds it: attributes as (key, value) pairs in insertion order -/
structure GffRead where
  seqname : List Nat
  source : List Nat
  ftype : List Nat
  start : Nat
  stop : Nat
  score : List Nat
  strand : List Nat
  phase : Option Nat
  pairs : List (List Nat × List Nat)
  deriving Repr, DecidableEq

def parseGffFields (d : Dialect) : List (List Nat) → Res GffRead
  | [a, b, c, s, e, sc, st, ph, att] =>
    match readU64 s, readU64 e, readPhase ph with
    | .ok x, .ok y, .ok p => .ok ⟨a, b, c, x, y, sc, st, p, parseAttrs d att⟩
    | .err, _, _ => .err "num"
    | _, .err, _ => .err "num"
    | _, _, .err w => .err w
    | _, _, _ => .unspec
  | fs => .err ("cols" ++ toString fs.length)

def readGff (d : Dialect) (bytes : List Nat) : List (Res GffRead) :=
  withCount (parseGffFields d) (rows bytes)

/-- what reading back a written record must give -/
def GffRec.asRead (r : GffRec) : GffRead :=
  ⟨r.seqname, r.source, r.ftype, r.start, r.stop, r.score, r.strand, r.phase, flatPairs r.attrs⟩

end RbV.Tsv
