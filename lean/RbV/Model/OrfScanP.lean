import RbV.Model.OrfScan
/-!
# The ORF mirror model with the length test of the flush loop as a parameter (C20)

`stepP P` is `Model.OrfScan.step` with the test `index + 1 - start_pos > min_len` replaced by an arbitrary
`P index start_pos`.  The property leaves the finder free to report or not to report frames whose length lies in
`[min_len, min_len + 2]`; `LenTestOk` is exactly that freedom, stated on the arguments the test sees
(`start_pos` = index of the *last* base of the start codon, so the frame length is `index + 3 - start_pos`).
`Lemmas/OrfScanP.lean` proves the model sound and complete for **every** test inside the freedom; the translated source
text of `Matches::next` (`Gen/SrcOrf.lean`) is proved equal to `findAllP` of its own test (`Thm/GenSrcOrf.lean`).
Core Lean only.
-/
namespace RbV.Model.OrfScan

/-- the window after reading `nuc` -/
def window (st : State) (nuc : Nat) : List Nat :=
  (if st.codon.length ≥ 3 then st.codon.drop 1 else st.codon) ++ [nuc]

/-- the pending starts of the current frame after the possible push of `index` -/
def pendingNow (starts : List (List Nat)) (st : State) (index nuc : Nat) : List Nat :=
  if starts.contains (window st nuc) then st.get ((index + 1) % 3) ++ [index] else st.get ((index + 1) % 3)

/-- the current frame is flushed: it has pending starts and the window is a stop codon -/
def flushes (starts stops : List (List Nat)) (st : State) (index nuc : Nat) : Bool :=
  !(pendingNow starts st index nuc).isEmpty && stops.contains (window st nuc)

/-- what one iteration pushes on `found` -/
def emitted (P : Nat → Nat → Bool) (starts stops : List (List Nat)) (st : State) (index nuc : Nat) :
    List (Nat × Nat × Nat) :=
  if flushes starts stops st index nuc then
    ((pendingNow starts st index nuc).takeWhile (P index)).map fun s => (s - 2, index + 1, (index + 1) % 3)
  else []

/-- one iteration of the `for (index, nuc)` loop, length test `P index start_pos` (the text of `step`) -/
def stepP (P : Nat → Nat → Bool) (starts stops : List (List Nat)) (st : State) (index nuc : Nat) : State :=
  let codon := (if st.codon.length ≥ 3 then st.codon.drop 1 else st.codon) ++ [nuc]
  let off := (index + 1) % 3
  let st := { st with codon := codon }
  let sp := if starts.contains codon then st.get off ++ [index] else st.get off
  if !sp.isEmpty && stops.contains codon then
    let emitted := (sp.takeWhile (P index)).map fun s => (s - 2, index + 1, off)
    { (st.set off []) with out := st.out ++ emitted }
  else st.set off sp

/-- `stepP` in terms of `window`, `pendingNow`, `flushes`, `emitted` -/
theorem stepP_def (P : Nat → Nat → Bool) (starts stops : List (List Nat)) (st : State) (index nuc : Nat) :
    stepP P starts stops st index nuc =
      if flushes starts stops st index nuc then
        { (({ st with codon := window st nuc } : State).set ((index + 1) % 3) []) with
            out := st.out ++ (((pendingNow starts st index nuc).takeWhile (P index)).map
              fun s => (s - 2, index + 1, (index + 1) % 3)) }
      else ({ st with codon := window st nuc } : State).set ((index + 1) % 3) (pendingNow starts st index nuc) := rfl

def runP (P : Nat → Nat → Bool) (starts stops : List (List Nat)) : State → Nat → List Nat → State
  | st, _, [] => st
  | st, i, c :: rest => runP P starts stops (stepP P starts stops st i c) (i + 1) rest

/-- all ORFs the iterator yields, in order, when its length test is `P` -/
def findAllP (P : Nat → Nat → Bool) (starts stops : List (List Nat)) (seq : List Nat) : List (Nat × Nat × Nat) :=
  (runP P starts stops State.init 0 seq).out

/-- the test of the pinned source text -/
def pinnedTest (minLen : Nat) (index s : Nat) : Bool := decide (index + 1 - s > minLen)

theorem step_eq_stepP (starts stops : List (List Nat)) (minLen : Nat) (st : State) (index nuc : Nat) :
    step starts stops minLen st index nuc = stepP (pinnedTest minLen) starts stops st index nuc := rfl

theorem run_eq_runP (starts stops : List (List Nat)) (minLen : Nat) (seq : List Nat) :
    ∀ (st : State) (i : Nat), run starts stops minLen st i seq = runP (pinnedTest minLen) starts stops st i seq := by
  induction seq with
  | nil => intro st i; rfl
  | cons c rest ih => intro st i; simp only [run, runP, step_eq_stepP, ih]

theorem findAll_eq_findAllP (starts stops : List (List Nat)) (minLen : Nat) (seq : List Nat) :
    findAll starts stops minLen seq = findAllP (pinnedTest minLen) starts stops seq := by
  unfold findAll findAllP; rw [run_eq_runP]

/-- the freedom the property leaves to the length test, for indices below `B`: a frame more than two bases longer than
`minLen` must pass, a frame that passes must be at least `minLen` long (frame length = `index + 3 - s`) -/
structure LenTestOk (P : Nat → Nat → Bool) (minLen B : Nat) : Prop where
  lo : ∀ i s, i < B → 2 ≤ s → s ≤ i → minLen + 2 < i + 3 - s → P i s = true
  hi : ∀ i s, i < B → 2 ≤ s → s ≤ i → P i s = true → minLen ≤ i + 3 - s

/-- everything emitted from state `st` on, without the accumulator -/
def emitsP (P : Nat → Nat → Bool) (starts stops : List (List Nat)) : State → Nat → List Nat → List (Nat × Nat × Nat)
  | _, _, [] => []
  | st, i, c :: rest => emitted P starts stops st i c ++ emitsP P starts stops (stepP P starts stops st i c) (i + 1) rest

end RbV.Model.OrfScan
