import RbV.Spec.Align
/-!
Mirror model of `bio::alignment::pairwise::Aligner::custom` (src/alignment/pairwise/mod.rs), written to follow
the Rust code statement by statement: two rolling columns `S/I/D` indexed by `j % 2`, the suffix-clip
trackers `Lx/Ly/Sn`, one traceback cell (three 4-bit fields) per matrix cell, the two post-loops for the last
column and the traceback state machine.  `i32` is modelled by `Int` (the correspondence runs inside the `Sane`
envelope where no overflow occurs); the traceback loop carries fuel (a model of a non-terminating traceback
returns `none`).

Status: executable model, *run* by the C01 driver on every `custom/global/semiglobal/local` call and compared
with the implementation's whole observable result (score, coordinates, operations) — a difference is reported
as tag `drift`, never as a violation (tie-breaks are not part of the property).  The refinement theorem
`custom_score_eq_opt` is stated in `RbV/Thm/C01.lean` as a comment; the proved fragments are there as `…_partial`.
-/
namespace RbV.Model.Pairwise
open RbV.Align

structure Cell where
  s : Nat
  i : Nat
  d : Nat
deriving Inhabited, Repr

def TB_START : Nat := 0
def TB_INS : Nat := 1
def TB_DEL : Nat := 2
def TB_SUBST : Nat := 3
def TB_MATCH : Nat := 4
def TB_XCLIP_PREFIX : Nat := 5
def TB_XCLIP_SUFFIX : Nat := 6
def TB_YCLIP_PREFIX : Nat := 7
def TB_YCLIP_SUFFIX : Nat := 8

abbrev Col := Array Int

def set2 (a : Array Col) (k i : Nat) (v : Int) : Array Col := a.set! k ((a[k]!).set! i v)
def get2 (a : Array Col) (k i : Nat) : Int := (a[k]!)[i]!

/-- all the state `custom` leaves behind before the traceback -/
structure Filled where
  S : Array Col
  Lx : Array Nat
  Ly : Array Nat
  tb : Array Cell
  score : Int

def fill (sc : Sc) (cl : Clip) (x y : Array Nat) : Filled := Id.run do
  let m := x.size
  let n := y.size
  let cols := n + 1
  let MIN := minScore
  let go := sc.go
  let ge := sc.ge
  -- self.traceback.init(m, n)
  let mut tb : Array Cell := Array.replicate ((m + 1) * (n + 1)) ⟨TB_START, TB_START, TB_START⟩
  let mut I : Array Col := #[Array.replicate (m + 1) MIN, Array.replicate (m + 1) MIN]
  let mut D : Array Col := #[Array.replicate (m + 1) MIN, Array.replicate (m + 1) MIN]
  let mut S : Array Col := #[Array.replicate (m + 1) MIN, Array.replicate (m + 1) MIN]
  let mut Lx : Array Nat := Array.replicate (n + 1) 0
  let mut Ly : Array Nat := Array.replicate (m + 1) 0
  let mut Sn : Col := Array.replicate (m + 1) MIN
  for k in [0:2] do
    S := set2 S k 0 0
    if k == 0 then
      tb := tb.set! 0 ⟨TB_START, TB_START, TB_START⟩
      Sn := Sn.set! 0 cl.ys
      Ly := Ly.set! 0 n
    for i in [1:m + 1] do
      let mut t : Cell := ⟨TB_START, TB_START, TB_START⟩
      if i == 1 then
        I := set2 I k i (go + ge)
        t := { t with i := TB_START }
      else
        let i_score := go + ge * (i : Int)
        let c_score := cl.xp + go + ge
        if i_score > c_score then
          I := set2 I k i i_score
          t := { t with i := TB_INS }
        else
          I := set2 I k i c_score
          t := { t with i := TB_XCLIP_PREFIX }
      if i == m then
        t := { t with s := TB_XCLIP_SUFFIX }
      else
        S := set2 S k i MIN
      if get2 I k i > get2 S k i then
        S := set2 S k i (get2 I k i)
        t := { t with s := TB_INS }
      if cl.xp > get2 S k i then
        S := set2 S k i cl.xp
        t := { t with s := TB_XCLIP_PREFIX }
      if i != m && get2 S k i + cl.xs > get2 S k m then
        S := set2 S k m (get2 S k i + cl.xs)
        Lx := Lx.set! 0 (m - i)
      if k == 0 then
        tb := tb.set! (i * cols + 0) t
      if get2 S k i + cl.ys > Sn[i]! then
        Sn := Sn.set! i (get2 S k i + cl.ys)
        Ly := Ly.set! i n
  for j in [1:n + 1] do
    let curr := j % 2
    let prev := 1 - curr
    -- i = 0
    let mut t0 : Cell := ⟨TB_START, TB_START, TB_START⟩
    I := set2 I curr 0 MIN
    if j == 1 then
      D := set2 D curr 0 (go + ge)
      t0 := { t0 with d := TB_START }
    else
      let d_score := go + ge * (j : Int)
      let c_score := cl.yp + go + ge
      if d_score > c_score then
        D := set2 D curr 0 d_score
        t0 := { t0 with d := TB_DEL }
      else
        D := set2 D curr 0 c_score
        t0 := { t0 with d := TB_YCLIP_PREFIX }
    if get2 D curr 0 > cl.yp then
      S := set2 S curr 0 (get2 D curr 0)
      t0 := { t0 with s := TB_DEL }
    else
      S := set2 S curr 0 cl.yp
      t0 := { t0 with s := TB_YCLIP_PREFIX }
    if j == n && Sn[0]! > get2 S curr 0 then
      S := set2 S curr 0 Sn[0]!
      t0 := { t0 with s := TB_YCLIP_SUFFIX }
    else if get2 S curr 0 + cl.ys > Sn[0]! then
      Sn := Sn.set! 0 (get2 S curr 0 + cl.ys)
      Ly := Ly.set! 0 (n - j)
    tb := tb.set! (0 * cols + j) t0
    for i in [1:m + 1] do
      S := set2 S curr i MIN
    let q := y[j - 1]!
    let xclip_score := cl.xp + max cl.yp (go + ge * (j : Int))
    for i in [1:m + 1] do
      let p := x[i - 1]!
      let mut t : Cell := ⟨TB_START, TB_START, TB_START⟩
      let m_score := get2 S prev (i - 1) + sc.w p q
      let i_score := get2 I curr (i - 1) + ge
      let s_score := get2 S curr (i - 1) + go + ge
      let mut best_i_score := s_score
      if i_score > s_score then
        best_i_score := i_score
        t := { t with i := TB_INS }
      else
        best_i_score := s_score
        t := { t with i := (tb[(i - 1) * cols + j]!).s }
      let d_score := get2 D prev i + ge
      let s_score2 := get2 S prev i + go + ge
      let mut best_d_score := s_score2
      if d_score > s_score2 then
        best_d_score := d_score
        t := { t with d := TB_DEL }
      else
        best_d_score := s_score2
        t := { t with d := (tb[i * cols + (j - 1)]!).s }
      t := { t with s := TB_XCLIP_SUFFIX }
      let mut best_s_score := get2 S curr i
      if m_score > best_s_score then
        best_s_score := m_score
        t := { t with s := if p == q then TB_MATCH else TB_SUBST }
      if best_i_score > best_s_score then
        best_s_score := best_i_score
        t := { t with s := TB_INS }
      if best_d_score > best_s_score then
        best_s_score := best_d_score
        t := { t with s := TB_DEL }
      if xclip_score > best_s_score then
        best_s_score := xclip_score
        t := { t with s := TB_XCLIP_PREFIX }
      let yclip_score := cl.yp + go + ge * (i : Int)
      if yclip_score > best_s_score then
        best_s_score := yclip_score
        t := { t with s := TB_YCLIP_PREFIX }
      S := set2 S curr i best_s_score
      I := set2 I curr i best_i_score
      D := set2 D curr i best_d_score
      if get2 S curr i + cl.xs > get2 S curr m then
        S := set2 S curr m (get2 S curr i + cl.xs)
        Lx := Lx.set! j (m - i)
      if get2 S curr i + cl.ys > Sn[i]! then
        Sn := Sn.set! i (get2 S curr i + cl.ys)
        Ly := Ly.set! i (n - j)
      tb := tb.set! (i * cols + j) t
  -- Handle suffix clipping in the j = n case
  let jn := n
  let cn := jn % 2
  for i in [0:m + 1] do
    if Sn[i]! > get2 S cn i then
      S := set2 S cn i Sn[i]!
      tb := tb.modify (i * cols + jn) fun c => { c with s := TB_YCLIP_SUFFIX }
    if get2 S cn i + cl.xs > get2 S cn m then
      S := set2 S cn m (get2 S cn i + cl.xs)
      Lx := Lx.set! jn (m - i)
      tb := tb.modify (m * cols + jn) fun c => { c with s := TB_XCLIP_SUFFIX }
  -- recompute the last column of I
  for i in [1:m + 1] do
    let s_score := get2 S cn (i - 1) + go + ge
    if s_score > get2 I cn i then
      I := set2 I cn i s_score
      let s_bit := (tb[(i - 1) * cols + jn]!).s
      tb := tb.modify (i * cols + jn) fun c => { c with i := s_bit }
    if s_score > get2 S cn i then
      S := set2 S cn i s_score
      tb := tb.modify (i * cols + jn) fun c => { c with s := TB_INS }
      if get2 S cn i + cl.xs > get2 S cn m then
        S := set2 S cn m (get2 S cn i + cl.xs)
        Lx := Lx.set! jn (m - i)
        tb := tb.modify (m * cols + jn) fun c => { c with s := TB_XCLIP_SUFFIX }
  return ⟨S, Lx, Ly, tb, get2 S (n % 2) m⟩

structure TbState where
  i : Nat
  j : Nat
  layer : Nat
  ops : List AOp      -- in traceback order (reversed at the end)
  xstart : Nat
  ystart : Nat
  xend : Nat
  yend : Nat

/-- one iteration of the traceback `loop`; `none` = `break` (TB_START) or the `panic!` arm -/
def tbStep (f : Filled) (cols : Nat) (st : TbState) : Option TbState :=
  let cell (i j : Nat) : Cell := f.tb[i * cols + j]!
  let l := st.layer
  if l == TB_START then none
  else if l == TB_INS then
    some { st with ops := .core .ins :: st.ops, layer := (cell st.i st.j).i, i := st.i - 1 }
  else if l == TB_DEL then
    some { st with ops := .core .del :: st.ops, layer := (cell st.i st.j).d, j := st.j - 1 }
  else if l == TB_MATCH then
    some { st with ops := .core .mat :: st.ops, layer := (cell (st.i - 1) (st.j - 1)).s, i := st.i - 1, j := st.j - 1 }
  else if l == TB_SUBST then
    some { st with ops := .core .sub :: st.ops, layer := (cell (st.i - 1) (st.j - 1)).s, i := st.i - 1, j := st.j - 1 }
  else if l == TB_XCLIP_PREFIX then
    some { st with ops := .xclip st.i :: st.ops, xstart := st.i, i := 0, layer := (cell 0 st.j).s }
  else if l == TB_XCLIP_SUFFIX then
    let i' := st.i - f.Lx[st.j]!
    some { st with ops := .xclip f.Lx[st.j]! :: st.ops, i := i', xend := i', layer := (cell i' st.j).s }
  else if l == TB_YCLIP_PREFIX then
    some { st with ops := .yclip st.j :: st.ops, ystart := st.j, j := 0, layer := (cell st.i 0).s }
  else if l == TB_YCLIP_SUFFIX then
    let j' := st.j - f.Ly[st.i]!
    some { st with ops := .yclip f.Ly[st.i]! :: st.ops, j := j', yend := j', layer := (cell st.i j').s }
  else none

def tbLoop (f : Filled) (cols : Nat) : Nat → TbState → Option TbState
  | 0, _ => none                      -- fuel exhausted: the real loop would not have terminated
  | fuel + 1, st =>
    if st.layer == TB_START then some st
    else match tbStep f cols st with
      | none => none
      | some st' => tbLoop f cols fuel st'

/-- the whole of `Aligner::custom`: the reported `Alignment` (mode omitted) -/
def custom (sc : Sc) (cl : Clip) (xl yl : List Nat) : Option Out :=
  let x := xl.toArray
  let y := yl.toArray
  let m := x.size
  let n := y.size
  let f := fill sc cl x y
  let st0 : TbState := ⟨m, n, (f.tb[m * (n + 1) + n]!).s, [], 0, 0, m, n⟩
  -- every step either consumes a symbol or is one of at most four clips
  match tbLoop f (n + 1) (2 * (m + n) + 16) st0 with
  | none => none
  | some st =>
    -- `operations.reverse()`: `ops` was built by consing, i.e. it already is in forward order
    some ⟨f.score, st.xstart, st.xend, st.ystart, st.yend, m, n, st.ops⟩

/-- `filter_clip_operations` -/
def filterClips (o : Out) : Out := { o with ops := o.ops.filter fun a => match a with | .core _ => true | _ => false }

end RbV.Model.Pairwise
