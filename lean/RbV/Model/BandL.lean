import RbV.Model.Band
/-!
The band mirror with the tuning constant `lazy_extend` of `Band::set_boundaries` as a parameter `L` (genband).

`RbV/Model/Band.lean` transcribes `let lazy_extend: usize = 2 * k;`.  The property does not determine that constant (a band
that extends `3k` or `2k + 1` cells before the first / after the last k-mer is as good: seeded change C02-H1, mutant b2), so
the equality "translated source text = mirror" (`RbV/Thm/GenSrcBand.lean`) is stated against these `…L` versions, for whatever
value the initialiser found in the text computes, and the band theorems (`RbV/Lemmas/BandL.lean`) are proved for every `L`.
At `L = 2 * k` the definitions are the ones of `Model/Band.lean`, which the driver runs (`boundStartL_pinned` … by `rfl`).
Core Lean only.
-/
namespace RbV.Model.Band
open RbV.Align

/-- the block `// ---- START ----` of `Band::set_boundaries` with `lazy_extend = L` -/
def boundStartL (L : Nat) (b : Band) (start : Nat × Nat) (w : Nat) (cl : Clip) : Band :=
  let r := start.1
  let c := start.2
  if r = 0 ∧ c = 0 then b else
  let score_to_start : Int := (if r > 0 then cl.xp else 0) + (if c > 0 then cl.yp else 0)
  if score_to_start = 0 then
    let d := min L (min r c)
    addGap (addKmer b (r - d) (c - d) d w) (r - L, c - L) (r - d, c - d) w
  else
    let diagonal_score : Int := if r > c then cl.xp else if r < c then cl.yp else 0
    if diagonal_score = 0 then
      let d := min r c
      let b := addKmer b (r - d) (c - d) d w
      let st := (r - L, c - L)
      let en := (r - d, c - d)
      if st.1 ≤ en.1 ∧ st.2 ≤ en.2 then addGap b st en w else b
    else addGap b (0, 0) start w

/-- the block `// ---- END ----` of `Band::set_boundaries` with `lazy_extend = L` -/
def boundEndL (L : Nat) (b : Band) (end_ : Nat × Nat) (k w : Nat) (cl : Clip) : Band :=
  let r := end_.1 + k
  let c := end_.2 + k
  if r = b.rows ∧ c = b.cols then b else
  let score_from_end : Int := (if r = b.rows then 0 else cl.xs) + (if c = b.cols then 0 else cl.ys)
  let r1 (d : Nat) := min b.rows (r + d) - 1
  let c1 (d : Nat) := min b.cols (c + d) - 1
  let r2 := min b.rows (r + L)
  let c2 := min b.cols (c + L)
  if score_from_end = 0 then
    let d := min L (min (b.rows - r) (b.cols - c))
    let b' := addKmer b r c d w
    if r1 d ≤ r2 ∧ c1 d ≤ c2 then addGap b' (r1 d, c1 d) (r2, c2) w else b'
  else
    let dr := b.rows - r
    let dc := b.cols - c
    let diagonal_score : Int := if dr > dc then cl.xs else if dr < dc then cl.ys else 0
    if diagonal_score = 0 then
      let d := min dr dc
      let b' := addKmer b r c d w
      if r1 d ≤ r2 ∧ c1 d ≤ c2 then addGap b' (r1 d, c1 d) (r2, c2) w else b'
    else addGap b (r, c) (b.rows, b.cols) w

/-- `Band::set_boundaries` with `lazy_extend = L` -/
def setBoundariesL (L : Nat) (b : Band) (start end_ : Nat × Nat) (k w : Nat) (cl : Clip) : Band :=
  boundEndL L (boundStartL L b start w cl) end_ k w cl

/-- `Band::create_from_match_path` with `lazy_extend = L` -/
def createFromMatchPathL (L : Nat) (m n k w : Nat) (cl : Clip) (path : List Nat) (ms : List (Nat × Nat)) : Band :=
  let b := new m n
  if ms.isEmpty then fullMatrix b else
  let ps := path.headD 0
  let pe := path.getLastD 0
  let b := setBoundariesL L b (ms.getD ps (0, 0)) (ms.getD pe (0, 0)) k w cl
  (path.foldl (pathStep k w ms) (b, none)).1

theorem boundStartL_pinned (b : Band) (start : Nat × Nat) (k w : Nat) (cl : Clip) :
    boundStartL (2 * k) b start w cl = boundStart b start k w cl := rfl
theorem boundEndL_pinned (b : Band) (end_ : Nat × Nat) (k w : Nat) (cl : Clip) :
    boundEndL (2 * k) b end_ k w cl = boundEnd b end_ k w cl := rfl
theorem setBoundariesL_pinned (b : Band) (start end_ : Nat × Nat) (k w : Nat) (cl : Clip) :
    setBoundariesL (2 * k) b start end_ k w cl = setBoundaries b start end_ k w cl := rfl
theorem createFromMatchPathL_pinned (m n k w : Nat) (cl : Clip) (path : List Nat) (ms : List (Nat × Nat)) :
    createFromMatchPathL (2 * k) m n k w cl path ms = createFromMatchPath m n k w cl path ms := rfl

end RbV.Model.Band
