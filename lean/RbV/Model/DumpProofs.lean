import RbV.Drv.C07
/-!
# The driver's `rebuild` inverts the pre-order dump format of the hook

`rebuild` (in `RbV/Drv/C07.lean`) turns the list `(depth, start, end, max, height, has_left, has_right)` back into a
tree. For every tree `t`, rebuilding the dump of `t` gives `t` back (payload data is not part of the dump and is
set to 0), so `checkAVL` is applied to the tree that was dumped.
Core Lean only.
-/
namespace RbV.Drv.C07
open RbV.Ivl RbV.Avl

def toDNodes (t : Tree) (d : Nat) : List DNode :=
  (Avl.dump t d).map fun (d, a, b, m, h, l, r) => ⟨d, a, b, m, (h : Int), l, r⟩

def eraseData : Tree → Tree
  | .nil => .nil
  | .node l e mx h r => .node (eraseData l) ⟨e.lo, e.hi, 0⟩ mx h (eraseData r)

theorem toDNodes_nil (d : Nat) : toDNodes .nil d = [] := rfl

theorem toDNodes_node (l : Tree) (e : Entry) (mx : Int) (h : Nat) (r : Tree) (d : Nat) :
    toDNodes (.node l e mx h r) d =
      ⟨d, e.lo, e.hi, mx, (h : Int), decide (l ≠ .nil), decide (r ≠ .nil)⟩ :: (toDNodes l (d + 1) ++ toDNodes r (d + 1)) := by
  simp [toDNodes, Avl.dump]

theorem rebuild_dump : ∀ (t : Tree) (d : Nat) (rest : List DNode) (fuel : Nat), t ≠ .nil → size t ≤ fuel →
    rebuild fuel d (toDNodes t d ++ rest) = some (eraseData t, rest)
  | .nil, _, _, _, h, _ => absurd rfl h
  | .node l e mx h r, d, rest, 0, _, hs => by simp [size] at hs
  | .node l e mx h r, d, rest, fuel + 1, _, hs => by
    simp only [size] at hs
    rw [toDNodes_node, List.cons_append, rebuild]
    simp only [ne_eq, not_true_eq_false, if_false, List.append_assoc]
    have hl : (if decide (l ≠ .nil) = true then rebuild fuel (d + 1) (toDNodes l (d + 1) ++ (toDNodes r (d + 1) ++ rest))
        else some (.nil, toDNodes l (d + 1) ++ (toDNodes r (d + 1) ++ rest))) =
        some (eraseData l, toDNodes r (d + 1) ++ rest) := by
      cases l with
      | nil => simp [toDNodes_nil, eraseData]
      | node ll le lm lh lr =>
        simp only [ne_eq, reduceCtorEq, not_false_eq_true, decide_true, if_true]
        exact rebuild_dump _ (d + 1) _ fuel (by simp) (by simp only [size] at hs ⊢; omega)
    have hr : (if decide (r ≠ .nil) = true then rebuild fuel (d + 1) (toDNodes r (d + 1) ++ rest)
        else some (.nil, toDNodes r (d + 1) ++ rest)) = some (eraseData r, rest) := by
      cases r with
      | nil => simp [toDNodes_nil, eraseData]
      | node rl re rm rh rr =>
        simp only [ne_eq, reduceCtorEq, not_false_eq_true, decide_true, if_true]
        exact rebuild_dump _ (d + 1) _ fuel (by simp) (by simp only [size] at hs ⊢; omega)
    simp only [ne_eq] at hl hr
    rw [hl]
    simp only
    rw [hr]
    simp [eraseData]

/-- the checks do not look at payload data -/
theorem checkAVL_eraseData (t : Tree) (n : Nat) : checkAVL (eraseData t) n = checkAVL t n := by
  have hsz : ∀ t, size (eraseData t) = size t := by
    intro t; induction t with
    | nil => rfl
    | node l e mx h r ihl ihr => simp [eraseData, size, ihl, ihr]
  have hht : ∀ t, ht (eraseData t) = ht t := by intro t; cases t <;> rfl
  have hum : ∀ l e r, updMax (eraseData l) ⟨e.lo, e.hi, 0⟩ (eraseData r) = updMax l e r := by
    intro l e r; cases l <;> cases r <;> rfl
  have hcn : ∀ t, checkNodes (eraseData t) = checkNodes t := by
    intro t; induction t with
    | nil => rfl
    | node l e mx h r ihl ihr =>
      simp only [eraseData, checkNodes, ihl, ihr, hht, hum, updHeight]
      rw [Bool.eq_iff_iff]
      simp only [Bool.and_eq_true, decide_eq_true_eq]
      simp
      intros
      exact decide_eq_true_iff.symm
  have hlo : ∀ t, (toList (eraseData t)).map (·.lo) = (toList t).map (·.lo) := by
    intro t; induction t with
    | nil => rfl
    | node l e mx h r ihl ihr => simp [eraseData, toList, ihl, ihr]
  have hsb : ∀ (a b : List Entry), a.map (·.lo) = b.map (·.lo) → sortedB a = sortedB b := by
    intro a
    induction a with
    | nil => intro b hb; cases b <;> simp_all [sortedB]
    | cons x xs ih =>
      intro b hb
      cases b with
      | nil => simp at hb
      | cons y ys =>
        simp only [List.map_cons, List.cons.injEq] at hb
        cases xs with
        | nil => cases ys <;> simp_all [sortedB]
        | cons x2 xs2 =>
          cases ys with
          | nil => simp at hb
          | cons y2 ys2 =>
            simp only [List.map_cons, List.cons.injEq] at hb
            simp only [sortedB]
            rw [ih (y2 :: ys2) (by simp [hb.2.1, hb.2.2]), hb.1, hb.2.1]
  simp only [checkAVL, hsz, hcn, hsb _ _ (hlo t)]

end RbV.Drv.C07
