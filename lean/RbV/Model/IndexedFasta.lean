import RbV.Model.Fasta
/-!
# Mirror model of `bio::io::fasta::IndexedReader`  (property C12)

Follows `/repo/src/io/fasta.rs` (`fetch*`, `read`, `read_iter`, `read_into_buffer`, `read_into_iter`, `seek_to`,
`read_line`, `IndexedReaderIterator::{fill_buffer,next}`) line by line.

* The file is a `List Nat`.  The reader state `St` is the internal `BufReader` seen from outside: `rest` = the file
  from the current stream position on, `avail` = number of bytes that are buffered and not yet consumed (what
  `fill_buf` hands out without touching the underlying reader), `k` = number of refills since the last seek.
* `sched : Nat → Nat` is the **chunk schedule**: the `k`-th refill after a seek gets `sched k` bytes (fewer at the
  end of the file).  Every way in which the underlying reader may fragment its `read()` results, and every buffer
  capacity, is one such function with positive values; the theorems quantify over all of them.
* `BufReader::seek(SeekFrom::Start(_))` discards the buffer (`avail := 0`).
-/
namespace RbV.IdxFa
open RbV.Fastx

/-- one `.fai` record (without the name) -/
structure Idx where
  len : Nat
  off : Nat
  lb : Nat      -- line_bases
  lB : Nat      -- line_bytes
deriving DecidableEq, Repr, Inhabited

inductive Err where
  | eof        -- "FASTA file is truncated."
  | oob        -- "FASTA read interval was out of bounds"
  | interval   -- "Invalid query interval"
  | nofetch    -- "No sequence fetched for reading."
  | name       -- "Unknown sequence name"
  | rid        -- "Invalid record index in fasta file."
  | assert     -- `assert!(bytes_to_read > 0)` failed (a panic)
  | fuel       -- model artefact: loop budget exhausted (proved unreachable)
deriving DecidableEq, Repr, Inhabited

structure St where
  rest : Bytes
  avail : Nat
  k : Nat
deriving Repr

/-- `BufReader::fill_buf`: refill only when nothing is buffered -/
def fillBuf (sched : Nat → Nat) (s : St) : St :=
  if s.avail = 0 then { s with avail := min (sched s.k) s.rest.length, k := s.k + 1 } else s

/-- `BufReader::consume` -/
def consume (s : St) (n : Nat) : St := { s with rest := s.rest.drop n, avail := s.avail - n }

/-- file offset of base `i` of the record: `seek_to` -/
def pos (idx : Idx) (i : Nat) : Nat := idx.off + i / idx.lb * idx.lB + i % idx.lb

/-- `seek_to`: new reader state and the cursor position on the line -/
def seekTo (file : Bytes) (idx : Idx) (start : Nat) : St × Nat :=
  ({ rest := file.drop (pos idx start), avail := 0, k := 0 }, start % idx.lb)

/-- `read_line`: new state, new `line_offset`, the bases appended to the output -/
def readLine (sched : Nat → Nat) (idx : Idx) (s : St) (lineOffset basesLeft : Nat) :
    Except Err (St × Nat × Bytes) :=
  let s1 := fillBuf sched s
  let srcLen := s1.avail                       -- `src = &rest[..avail]`
  if srcLen = 0 then .error .eof
  else
    let basesOnLine := idx.lb - min idx.lb lineOffset
    let basesInBuffer := min srcLen basesOnLine
    let rk : Nat × Nat :=
      if basesInBuffer ≤ basesLeft then (min srcLen (idx.lB - lineOffset), basesInBuffer)
      else (basesLeft, basesLeft)
    let kept := s1.rest.take rk.2
    let s2 := consume s1 rk.1
    if rk.1 = 0 then .error .assert
    else
      let lo := lineOffset + rk.1
      .ok (s2, if lo ≥ idx.lB then 0 else lo, kept)

/-- the loop of `read_into_buffer` (`cap ≥ basesLeft`) and, flattened, the loops of the iterator
(`fill_buffer` is entered with `bases_left > 0` and repeats `read_line(min(capacity, bases_left))` until something
was kept; `next` repeats `fill_buffer` until `bases_left = 0`).  Returns the bytes delivered and the error that
ended the loop, if any. -/
def readLoop (sched : Nat → Nat) (idx : Idx) (cap : Nat) :
    Nat → St → Nat → Nat → Bytes × Option Err
  | 0, _, _, bl => if bl = 0 then ([], none) else ([], some .fuel)
  | fuel + 1, s, lo, bl =>
    if bl = 0 then ([], none)
    else match readLine sched idx s lo (min cap bl) with
      | .error e => ([], some e)
      | .ok (s', lo', kept) =>
        let r := readLoop sched idx cap fuel s' lo' (bl - kept.length)
        (kept ++ r.1, r.2)

/-- `read_into_buffer` -/
def readIntoBuffer (file : Bytes) (sched : Nat → Nat) (idx : Idx) (start stop : Nat) : Except Err Bytes :=
  if stop > idx.len then .error .oob
  else if start > stop then .error .interval
  else
    let sl := seekTo file idx start
    match readLoop sched idx (stop - start) (file.length + 1) sl.1 sl.2 (stop - start) with
    | (acc, none) => .ok acc
    | (_, some e) => .error e

/-- `read_into_iter` + draining the iterator: the bytes yielded and the error item that ended it, if any -/
def readIter (file : Bytes) (sched : Nat → Nat) (idx : Idx) (start stop : Nat) : Except Err (Bytes × Option Err) :=
  if stop > idx.len then .error .oob
  else if start > stop then .error .interval
  else
    let sl := seekTo file idx start
    let cap := min 512 (min (stop - start) idx.lb)
    .ok (readLoop sched idx cap (file.length + 1) sl.1 sl.2 (stop - start))

/-! ## The reader object: index, fetch state -/

/-- what `fetch*` stored -/
structure Fetched where
  idx : Idx
  start : Nat
  stop : Nat
deriving Repr

/-- `Index`: records in file order; `name_to_rid` is a hash map filled in file order, so the *last* record with a
given name wins -/
def ridOfName (index : List (Bytes × Idx)) (name : Bytes) : Option Nat :=
  (index.zipIdx.reverse.find? (fun e => e.1.1 == name)).map (·.2)

def idxByRid (index : List (Bytes × Idx)) (rid : Nat) : Except Err Idx :=
  match index[rid]? with
  | some e => .ok e.2
  | none => .error .rid

def idxByName (index : List (Bytes × Idx)) (name : Bytes) : Except Err Idx :=
  match ridOfName index name with
  | some rid => idxByRid index rid
  | none => .error .name

def fetch (index : List (Bytes × Idx)) (name : Bytes) (start stop : Nat) : Except Err Fetched :=
  (idxByName index name).map fun i => ⟨i, start, stop⟩

def fetchByRid (index : List (Bytes × Idx)) (rid start stop : Nat) : Except Err Fetched :=
  (idxByRid index rid).map fun i => ⟨i, start, stop⟩

def fetchAll (index : List (Bytes × Idx)) (name : Bytes) : Except Err Fetched :=
  (idxByName index name).map fun i => ⟨i, 0, i.len⟩

def fetchAllByRid (index : List (Bytes × Idx)) (rid : Nat) : Except Err Fetched :=
  (idxByRid index rid).map fun i => ⟨i, 0, i.len⟩

/-- `IndexedReader::read` -/
def read (file : Bytes) (sched : Nat → Nat) (f : Option Fetched) : Except Err Bytes :=
  match f with
  | some f => readIntoBuffer file sched f.idx f.start f.stop
  | none => .error .nofetch

/-- `IndexedReader::read_iter`, drained -/
def readIt (file : Bytes) (sched : Nat → Nat) (f : Option Fetched) : Except Err (Bytes × Option Err) :=
  match f with
  | some f => readIter file sched f.idx f.start f.stop
  | none => .error .nofetch

/-! ## Specification side -/

/-- the bytes at the positions of bases `a … b-1` -/
def slice (file : Bytes) (idx : Idx) (a b : Nat) : Bytes :=
  (List.range' a (b - a)).map fun i => file.getD (pos idx i) 0

/-- "a FASTA file whose record has a uniform line length and a matching `.fai` entry": base `i` of the record's
sequence sits at `offset + (i / line_bases) · line_bytes + i % line_bases`, and a line has 1 or more terminator
bytes -/
structure WellFormed (file : Bytes) (idx : Idx) (seq : Bytes) : Prop where
  len_eq : idx.len = seq.length
  lb_pos : 0 < idx.lb
  lB_gt : idx.lb < idx.lB
  at_pos : ∀ i, (h : i < seq.length) → file[pos idx i]? = some seq[i]

/-- executable check of `WellFormed` used by the driver (linear walk over the lines) -/
def wfLines (lb lB : Nat) : Nat → Bytes → Bytes → Bool
  | 0, _, seq => seq.isEmpty
  | fuel + 1, rest, seq =>
    if seq.isEmpty then true
    else if seq.length ≤ lb then rest.take seq.length == seq
    else rest.take lb == seq.take lb && wfLines lb lB fuel (rest.drop lB) (seq.drop lb)

def wfCheck (file : Bytes) (idx : Idx) (seq : Bytes) : Bool :=
  idx.len == seq.length && decide (0 < idx.lb) && decide (idx.lb < idx.lB) &&
  wfLines idx.lb idx.lB (seq.length + 1) (file.drop idx.off) seq

end RbV.IdxFa
