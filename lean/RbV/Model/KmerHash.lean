import RbV.Spec.QGram
/-!
# C19 — mirror model of `hash_kmers`, `find_kmer_matches_seq{1,2}_hashed`, `find_kmer_matches` (core Lean only)

`HashMapFx<&[u8], Vec<u32>>` is a finite map; only `entry(key).or_default().push(i)` and `get(key)` are used, so the
iteration order of the hash map is never observed and an association list (first matching entry) is a faithful model.
`(len + 1).saturating_sub(k)` is `len + 1 - k` on `Nat`; `matches.sort_unstable()` sorts pairwise different pairs, so the
sorted vector is unique (a stable merge sort gives the same vector).
-/
namespace RbV.Model.KmerHash
open RbV.QGram

abbrev HMap := List (List Nat × List Nat)

/-- `set.entry(key).or_default().push(i)` -/
def entryPush (key : List Nat) (i : Nat) : HMap → HMap
  | [] => [(key, [i])]
  | (k', v) :: r => if k' = key then (k', v ++ [i]) :: r else (k', v) :: entryPush key i r

/-- `set.get(key)` -/
def hmGet (key : List Nat) : HMap → Option (List Nat)
  | [] => none
  | (k', v) :: r => if k' = key then some v else hmGet key r

/-- `hash_kmers(seq, k)` -/
def hashKmers (seq : List Nat) (k : Nat) : HMap :=
  (List.range (seq.length + 1 - k)).foldl (fun set i => entryPush (window k seq i) i set) []

/-- derived `Ord` on `(u32, u32)`: `a ≤ b` -/
def pairLe (a b : Nat × Nat) : Bool := a.1 < b.1 || (a.1 == b.1 && a.2 ≤ b.2)

/-- `find_kmer_matches_seq1_hashed(seq1_set, seq2, k)` -/
def seq1Hashed (seq1Set : HMap) (seq2 : List Nat) (k : Nat) : List (Nat × Nat) :=
  ((List.range (seq2.length + 1 - k)).foldl (fun ms i =>
      match hmGet (window k seq2 i) seq1Set with
      | some matches1 => ms ++ matches1.map (fun pos1 => (pos1, i))
      | none => ms) []).mergeSort pairLe

/-- `find_kmer_matches_seq2_hashed(seq1, seq2_set, k)` -/
def seq2Hashed (seq1 : List Nat) (seq2Set : HMap) (k : Nat) : List (Nat × Nat) :=
  ((List.range (seq1.length + 1 - k)).foldl (fun ms i =>
      match hmGet (window k seq1 i) seq2Set with
      | some matches1 => ms ++ matches1.map (fun pos1 => (i, pos1))
      | none => ms) []).mergeSort pairLe

/-- `find_kmer_matches(seq1, seq2, k)` -/
def findKmerMatches (seq1 seq2 : List Nat) (k : Nat) : List (Nat × Nat) :=
  if seq1.length < seq2.length then seq1Hashed (hashKmers seq1 k) seq2 k
  else seq2Hashed seq1 (hashKmers seq2 k) k

end RbV.Model.KmerHash
