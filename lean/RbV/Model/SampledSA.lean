import RbV.Model.LFMapping
/-!
# Mirror model of `SampledSuffixArray::get` (C05: "positions resolved through a sampled suffix array")

```rust
if index < self.len() {
    let mut pos = index; let mut offset = 0;
    loop {
        if pos % self.s == 0 { return Some(self.sample[pos / self.s] + offset); }
        let c = self.bwt.borrow()[pos];
        if c == self.sentinel { return Some(self.extra_rows[&pos] + offset); }
        pos = self.less.borrow()[c as usize] + self.occ.borrow().get(self.bwt.borrow(), pos - 1, c);
        offset += 1;
    }
} else { None }
```
`sample` holds `sa[i]` for the rows `i` with `i % s == 0` (at index `i / s`), `extra_rows` holds `sa[i]` for the other
rows whose BWT symbol is the sentinel (`SuffixArray::sample`).  The stored values are modelled by the two lookup
functions `sampleGet`, `extraGet` together with exactly these two facts as hypotheses.  The unbounded `loop` is given
fuel `n + 1`; the theorem shows the fuel is never exhausted on a sorted array.
-/
namespace RbV.SampledModel
open RbV RbV.LF

def getLoop (s : Nat) (bwt : List Nat) (sentinel : Nat) (less : Nat → Nat) (occ : Nat → Nat → Nat)
    (sampleGet extraGet : Nat → Nat) : Nat → Nat → Nat → Option Nat
  | 0, _, _ => none
  | fuel + 1, pos, offset =>
    if pos % s = 0 then some (sampleGet (pos / s) + offset)
    else if bwt.getD pos 0 = sentinel then some (extraGet pos + offset)
    else getLoop s bwt sentinel less occ sampleGet extraGet fuel
      (less (bwt.getD pos 0) + occ (pos - 1) (bwt.getD pos 0)) (offset + 1)

def get (s : Nat) (bwt : List Nat) (sentinel : Nat) (less : Nat → Nat) (occ : Nat → Nat → Nat)
    (sampleGet extraGet : Nat → Nat) (n index : Nat) : Option Nat :=
  if index < n then getLoop s bwt sentinel less occ sampleGet extraGet (n + 1) index 0 else none

theorem getLoop_correct (t sa : List Nat) (s : Nat) (sampleGet extraGet : Nat → Nat)
    (hsorted : ∀ a, a ≠ t.getD (t.length - 1) 0 → Sorted t sa a)
    (hperm : sa.Perm (List.range t.length))
    (hsample : ∀ pos, pos < sa.length → pos % s = 0 → sampleGet (pos / s) = sa.getD pos 0)
    (hextra : ∀ pos, pos < sa.length → pos % s ≠ 0 → (bwtOf t sa).getD pos 0 = t.getD (t.length - 1) 0 →
      extraGet pos = sa.getD pos 0) :
    ∀ fuel pos offset, pos < sa.length → sa.getD pos 0 < fuel →
      getLoop s (bwtOf t sa) (t.getD (t.length - 1) 0) (lessRef (bwtOf t sa)) (occRef (bwtOf t sa))
        sampleGet extraGet fuel pos offset = some (sa.getD pos 0 + offset) := by
  intro fuel
  induction fuel with
  | zero => intro pos offset _ h; omega
  | succ fuel ih =>
    intro pos offset hpos hfuel
    simp only [getLoop]
    by_cases h0 : pos % s = 0
    · rw [if_pos h0, hsample pos hpos h0]
    · rw [if_neg h0]
      by_cases hsent : (bwtOf t sa).getD pos 0 = t.getD (t.length - 1) 0
      · rw [if_pos hsent, hextra pos hpos h0 hsent]
      · rw [if_neg hsent]
        -- one LF step
        have hs := hsorted _ hsent
        have hb := bwt_getD (t := t) pos hpos
        obtain ⟨p, hp1, hpa⟩ := bwSym_eq_a hs (sa.getD pos 0) hb.symm
        have hpl : p < t.length := by have := sa_lt hperm pos hpos; omega
        obtain ⟨x, hx, hex⟩ := sa_surj hperm p hpl
        have hlf := lf_mapping hs x pos hx hpos (by rw [hex]; exact hpa) (by rw [hex]; exact hp1)
        have hpos1 : 1 ≤ pos := by
          cases pos with
          | zero => simp at h0
          | succ k => omega
        have hocc : occRef (bwtOf t sa) (pos - 1) ((bwtOf t sa).getD pos 0) =
            occLt (bwtOf t sa) pos ((bwtOf t sa).getD pos 0) := by
          unfold occRef occLt; congr 2; omega
        rw [hocc, ← hlf, ih x (offset + 1) hx (by rw [hex]; omega), hex, hp1]
        congr 1; omega

/-- **`SampledSuffixArray::get` returns `sa[index]`** on every sorted array, for every sampling rate, as long as the
stored samples and extra rows hold what `SuffixArray::sample` puts there. -/
theorem get_correct (t sa : List Nat) (s : Nat) (sampleGet extraGet : Nat → Nat)
    (hsorted : ∀ a, a ≠ t.getD (t.length - 1) 0 → Sorted t sa a)
    (hperm : sa.Perm (List.range t.length))
    (hsample : ∀ pos, pos < sa.length → pos % s = 0 → sampleGet (pos / s) = sa.getD pos 0)
    (hextra : ∀ pos, pos < sa.length → pos % s ≠ 0 → (bwtOf t sa).getD pos 0 = t.getD (t.length - 1) 0 →
      extraGet pos = sa.getD pos 0)
    (index : Nat) (hi : index < sa.length) :
    get s (bwtOf t sa) (t.getD (t.length - 1) 0) (lessRef (bwtOf t sa)) (occRef (bwtOf t sa))
      sampleGet extraGet sa.length index = some (sa.getD index 0) := by
  unfold get
  rw [if_pos hi]
  have := getLoop_correct t sa s sampleGet extraGet hsorted hperm hsample hextra (sa.length + 1) index 0 hi
    (by have := sa_lt hperm index hi; have := sa_length hperm; omega)
  simpa using this

end RbV.SampledModel
