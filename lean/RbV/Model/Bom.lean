import RbV.Basic.Slices
import RbV.Basic.Sorted
/-!
Mirror model of `pattern_matching::bom` (backward oracle matching).

Rust (construction): for (j, b) in pattern.rev().enumerate() { i = j+1; a = b;
    delta = {a ↦ i};  k = suff[i-1];
    while let Some(k_) = k { if table[k_].contains_key(a) { break }  table[k_].insert(a, i);  k = suff[k_] }
    suff[i] = Some(match k { Some(k) => table[k][a], None => 0 });  table.push(delta) }
Rust (search):  while window <= n { (q, j) = (Some(0), 1);
    while j <= m { match q { Some(q_) => { q = delta(q_, text[window - j]); j += 1 } None => break } }
    i = window - m;  window += m + 2 - j;  if q.is_some() { return Some(i) } }

The search loop is proved correct for **all texts** under two decidable conditions on the oracle table
(`Complete`: every factor of the pattern, read backwards, is accepted; `Monotone`: every transition goes to a
higher state, at most `m`, and a transition `q → q+1` is labelled with the `q`-th symbol of the reversed pattern).
That the *construction* establishes them for every pattern is the factor-oracle theorem of Allauzen, Crochemore and
Raffinot; it is proved in `RbV/Lemmas/BomOracle.lean` (`build_complete`, `build_monotone`, and the unconditional
`findAll_eq_occurrences`). The driver still evaluates both conditions on the model's table for every pattern of the
correspondence run, as a cross-check of model and proof.
-/
namespace RbV.Bom

abbrev Table := List (List (Nat × Nat))

def lookup : List (Nat × Nat) → Nat → Option Nat
  | [], _ => none
  | (b, q) :: l, a => if b = a then some q else lookup l a

/-- `BOM::delta` -/
def delta (T : Table) (q a : Nat) : Option Nat :=
  match T[q]? with
  | none => none
  | some l => lookup l a

def tinsert (T : Table) (k a i : Nat) : Table := T.modify k (fun l => (a, i) :: l)

/-- the `while let Some(k_) = k` loop; fuel = number of states -/
def climb (suff : List (Option Nat)) (a i : Nat) : Nat → Table → Option Nat → Table × Option Nat
  | 0, T, k => (T, k)
  | _ + 1, T, none => (T, none)
  | fuel + 1, T, some k_ =>
    if (delta T k_ a).isSome then (T, some k_)
    else climb suff a i fuel (tinsert T k_ a i) ((suff[k_]?).getD none)

/-- one round of the construction loop -/
def addLetter (st : Table × List (Option Nat)) (a : Nat) : Table × List (Option Nat) :=
  let (T, suff) := st
  let i := T.length + 1
  let (T', k) := climb suff a i (i + 1) T ((suff[i - 1]?).getD none)
  let s := match k with
    | some k_ => (delta T' k_ a).getD 0
    | none => 0
  (T' ++ [[(a, i)]], suff ++ [some s])

def build (p : List Nat) : Table := (p.reverse.foldl addLetter ([], [none])).1

/-! The same construction with the panics of the Rust code made explicit (`none` = the real code would panic:
`table[k_]` out of bounds, `suff[..]` read at an index that was never written, `.unwrap()` of an absent
transition — or the model's fuel ran out).  `buildS p = some (build p)` for every pattern
(`RbV/Lemmas/BomOracle.lean`), so `build` never relies on the totalised `getD`/`[_]?` defaults. -/

def climbS (suff : List (Option Nat)) (a i : Nat) : Nat → Table → Option Nat → Option (Table × Option Nat)
  | 0, T, none => some (T, none)
  | 0, _, some _ => none
  | _ + 1, T, none => some (T, none)
  | fuel + 1, T, some k_ =>
    match T[k_]?, suff[k_]? with
    | some l, some k' =>
      if (lookup l a).isSome then some (T, some k_) else climbS suff a i fuel (tinsert T k_ a i) k'
    | _, _ => none

def addLetterS (st : Table × List (Option Nat)) (a : Nat) : Option (Table × List (Option Nat)) :=
  let i := st.1.length + 1
  match st.2[i - 1]? with
  | none => none
  | some k0 =>
    match climbS st.2 a i (i + 1) st.1 k0 with
    | none => none
    | some (T', none) => some (T' ++ [[(a, i)]], st.2 ++ [some 0])
    | some (T', some k_) =>
      match delta T' k_ a with                       -- `*table[k].get(a).unwrap()`
      | none => none
      | some s => some (T' ++ [[(a, i)]], st.2 ++ [some s])

def buildS (p : List Nat) : Option Table :=
  (p.reverse.foldl (fun st a => st.bind (addLetterS · a)) (some ([], [none]))).map (·.1)

/-- reading a word from state `q` -/
def runT (T : Table) : Nat → List Nat → Option Nat
  | q, [] => some q
  | q, c :: w => match delta T q c with
    | none => none
    | some q' => runT T q' w

/-- the inner `while j <= m` loop over the window read backwards; returns (final state, symbols read) -/
def scanBack (T : Table) : List Nat → Nat → Nat → Option Nat × Nat
  | [], q, r => (some q, r)
  | c :: rest, q, r => match delta T q c with
    | none => (none, r + 1)
    | some q' => scanBack T rest q' (r + 1)

def search (T : Table) (m : Nat) (t : List Nat) : Nat → Nat → List Nat
  | 0, _ => []
  | fuel + 1, window =>
    if window ≤ t.length then
      let back := ((t.take window).reverse).take m
      let (q, r) := scanBack T back 0 0
      let rest := search T m t fuel (window + (m + 1 - r))       -- j = r + 1, shift = m + 2 - j
      if q.isSome then (window - m) :: rest else rest
    else []

def findAll (p t : List Nat) : List Nat := search (build p) p.length t (t.length + 1) p.length

/-! The search with the text indexed exactly as in the Rust code (`text[window - j]`, `window - m`, `m + 2 - j` in
`usize`); `none` = the real code would panic (subtraction underflow, index out of bounds) or the model's fuel ran
out.  `findAllS p t = some (findAll p t)` for every non-empty pattern (`RbV/Lemmas/BomOracle.lean`). -/

/-- `while j <= m { match q { Some(q_) => { q = delta(q_, text[window - j]); j += 1 } None => break } }` -/
def scanS (T : Table) (t : List Nat) (window m : Nat) : Nat → Nat → Option Nat → Option (Option Nat × Nat)
  | 0, j, q => if j ≤ m ∧ q.isSome then none else some (q, j)
  | fuel + 1, j, q =>
    if j ≤ m then
      match q with
      | some q_ =>
        if window < j then none else
        match t[window - j]? with
        | none => none
        | some c => scanS T t window m fuel (j + 1) (delta T q_ c)
      | none => some (none, j)
    else some (q, j)

def searchS (T : Table) (m : Nat) (t : List Nat) : Nat → Nat → Option (List Nat)
  | 0, window => if window ≤ t.length then none else some []
  | fuel + 1, window =>
    if window ≤ t.length then
      match scanS T t window m (m + 1) 1 (some 0) with
      | none => none
      | some (q, j) =>
        if window < m ∨ m + 2 < j then none else
        match searchS T m t fuel (window + (m + 2 - j)) with
        | none => none
        | some rest => some (if q.isSome then (window - m) :: rest else rest)
    else some []

def findAllS (p t : List Nat) : Option (List Nat) :=
  (buildS p).bind fun T => searchS T p.length t (t.length + 1) p.length

/-! ### decidable conditions on the table -/

/-- every factor of `p`, read backwards, is accepted -/
def Complete (T : Table) (p : List Nat) : Prop :=
  ∀ o l, o + l ≤ p.length → runT T 0 ((p.drop o).take l).reverse ≠ none

def completeB (T : Table) (p : List Nat) : Bool :=
  (List.range (p.length + 1)).all fun o => (List.range (p.length + 1 - o)).all fun l =>
    (runT T 0 ((p.drop o).take l).reverse).isSome

theorem completeB_iff (T : Table) (p : List Nat) : completeB T p = true ↔ Complete T p := by
  unfold completeB Complete
  simp only [List.all_eq_true, List.mem_range]
  constructor
  · intro h o l hol
    have := h o (by omega) l (by omega)
    intro hn; rw [hn] at this; simp at this
  · intro h o ho l hl
    have := h o l (by omega)
    cases hr : runT T 0 ((p.drop o).take l).reverse with
    | none => exact absurd hr this
    | some _ => rfl

/-- transitions go strictly upwards, never beyond `m`, and `q → q+1` only on the `q`-th symbol of `rp` -/
def Monotone (T : Table) (rp : List Nat) : Prop :=
  ∀ q a q', delta T q a = some q' → q < q' ∧ q' ≤ rp.length ∧ (q' = q + 1 → rp[q]? = some a)

def entryOk (rp : List Nat) (q : Nat) (e : Nat × Nat) : Bool :=
  decide (q < e.2) && decide (e.2 ≤ rp.length) && (decide (e.2 ≠ q + 1) || rp[q]? == some e.1)

def monotoneB (T : Table) (rp : List Nat) : Bool :=
  (List.range T.length).all fun q => ((T[q]?).getD []).all (entryOk rp q)

theorem lookup_mem (l : List (Nat × Nat)) (a q : Nat) (h : lookup l a = some q) : (a, q) ∈ l := by
  induction l with
  | nil => simp [lookup] at h
  | cons e l ih =>
    obtain ⟨b, r⟩ := e
    simp only [lookup] at h
    split at h
    · rename_i hb; subst hb; simp at h; subst h; simp
    · simp [ih h]

theorem monotoneB_sound (T : Table) (rp : List Nat) (h : monotoneB T rp = true) : Monotone T rp := by
  intro q a q' hd
  unfold delta at hd
  cases hT : T[q]? with
  | none => simp [hT] at hd
  | some l =>
    simp only [hT] at hd
    have hmem := lookup_mem l a q' hd
    have hq : q < T.length := (List.getElem?_eq_some_iff.mp hT).1
    unfold monotoneB at h
    simp only [List.all_eq_true, List.mem_range] at h
    have := h q hq (a, q') (by simpa [hT] using hmem)
    unfold entryOk at this
    simp only [Bool.and_eq_true, Bool.or_eq_true, decide_eq_true_eq, beq_iff_eq] at this
    obtain ⟨⟨h1, h2⟩, h3⟩ := this
    refine ⟨h1, h2, ?_⟩
    intro he
    rcases h3 with h3 | h3
    · exact absurd he h3
    · exact h3

/-! ### consequences of `Monotone` -/

theorem runT_lower (T : Table) (rp : List Nat) (hM : Monotone T rp) :
    ∀ (w : List Nat) (q q' : Nat), runT T q w = some q' → q + w.length ≤ q' ∧ q' ≤ max q rp.length := by
  intro w
  induction w with
  | nil => intro q q' h; simp [runT] at h; subst h; simp; omega
  | cons c w ih =>
    intro q q' h
    simp only [runT] at h
    cases hd : delta T q c with
    | none => simp [hd] at h
    | some q1 =>
      simp only [hd] at h
      have := ih q1 q' h
      have hm := hM q c q1 hd
      simp only [List.length_cons]
      omega

/-- a word accepted along a path that climbs exactly one state per symbol is a factor of `rp` at that position -/
theorem runT_tight (T : Table) (rp : List Nat) (hM : Monotone T rp) :
    ∀ (w : List Nat) (q q' : Nat), runT T q w = some q' → q' = q + w.length →
      ∀ k, k < w.length → w[k]? = rp[q + k]? := by
  intro w
  induction w with
  | nil => intro q q' _ _ k hk; simp at hk
  | cons c w ih =>
    intro q q' h heq k hk
    simp only [runT] at h
    cases hd : delta T q c with
    | none => simp [hd] at h
    | some q1 =>
      simp only [hd] at h
      have hlow := runT_lower T rp hM w q1 q' h
      have hm := hM q c q1 hd
      simp only [List.length_cons] at heq hk
      have hq1 : q1 = q + 1 := by omega
      cases k with
      | zero => simp; exact (hm.2.2 hq1).symm
      | succ k =>
        have := ih q1 q' h (by omega) k (by omega)
        simp only [List.getElem?_cons_succ]
        rw [this]; congr 1; omega

/-! ### the inner loop -/

theorem scanBack_spec (T : Table) : ∀ (back : List Nat) (q r : Nat),
    (∃ q', scanBack T back q r = (some q', r + back.length) ∧ runT T q back = some q') ∨
    (∃ l, l < back.length ∧ scanBack T back q r = (none, r + l + 1) ∧ runT T q (back.take (l + 1)) = none) := by
  intro back
  induction back with
  | nil => intro q r; left; exact ⟨q, by simp [scanBack], by simp [runT]⟩
  | cons c rest ih =>
    intro q r
    simp only [scanBack, runT]
    cases hd : delta T q c with
    | none =>
      right
      exact ⟨0, by simp, by simp, by simp [runT, hd]⟩
    | some q1 =>
      simp only []
      rcases ih q1 (r + 1) with ⟨q', h1, h2⟩ | ⟨l, hl, h1, h2⟩
      · left
        refine ⟨q', ?_, h2⟩
        rw [h1]; simp; omega
      · right
        refine ⟨l + 1, by simp; omega, ?_, ?_⟩
        · rw [h1]; congr 1; omega
        · simp [runT, hd, h2]

/-! ### the window loop -/

theorem back_getElem? (t : List Nat) (window m k : Nat) (hw : m ≤ window) (hn : window ≤ t.length) (hk : k < m) :
    (((t.take window).reverse).take m)[k]? = t[window - 1 - k]? := by
  rw [List.getElem?_take_of_lt hk]
  have hl : (t.take window).length = window := by simp; omega
  rw [List.getElem?_reverse (by omega), hl, List.getElem?_take_of_lt (by omega)]

theorem back_length (t : List Nat) (window m : Nat) (hw : m ≤ window) (hn : window ≤ t.length) :
    (((t.take window).reverse).take m).length = m := by
  simp; omega

/-- an occurrence that covers the last `l+1` symbols of the window makes them a (reversed) factor of `p` -/
theorem covered_factor (p t : List Nat) (window l s : Nat) (hw : p.length ≤ window) (hn : window ≤ t.length)
    (hl : l < p.length) (h1 : window - p.length ≤ s) (h2 : s + (l + 1) ≤ window) (hocc : OccursAt p t s) :
    (((t.take window).reverse).take p.length).take (l + 1) =
      ((p.drop (window - (l + 1) - s)).take (l + 1)).reverse := by
  rw [occursAt_iff_idx] at hocc
  apply List.ext_getElem?
  intro k
  rcases Nat.lt_or_ge k (l + 1) with hk | hk
  · rw [List.getElem?_take_of_lt hk, back_getElem? t window p.length k hw hn (by omega)]
    have hlen : ((p.drop (window - (l + 1) - s)).take (l + 1)).length = l + 1 := by simp; omega
    rw [List.getElem?_reverse (by omega), hlen, List.getElem?_take_of_lt (by omega), List.getElem?_drop]
    have := hocc.2 (window - 1 - k - s) (by omega)
    have e1 : s + (window - 1 - k - s) = window - 1 - k := by omega
    have e2 : window - (l + 1) - s + (l + 1 - 1 - k) = window - 1 - k - s := by omega
    rw [e1] at this
    rw [e2, this]
  · have hlen : ((p.drop (window - (l + 1) - s)).take (l + 1)).reverse.length = l + 1 := by simp; omega
    rw [List.getElem?_eq_none (by simp; omega), List.getElem?_eq_none (by omega)]

theorem search_spec (p t : List Nat) (T : Table) (hp : 0 < p.length) (hC : Complete T p)
    (hM : Monotone T p.reverse) :
    ∀ (fuel window : Nat), p.length ≤ window → t.length + 1 ≤ window + fuel →
      (∀ s, s ∈ search T p.length t fuel window ↔ (window - p.length ≤ s ∧ OccursAt p t s)) ∧
      (search T p.length t fuel window).Pairwise (· < ·) := by
  intro fuel
  induction fuel with
  | zero =>
    intro window hw hf
    simp only [search, List.not_mem_nil, false_iff, List.Pairwise.nil, and_true]
    rintro s ⟨h1, h2, _⟩; omega
  | succ fuel ih =>
    intro window hw hf
    simp only [search]
    by_cases hn : window ≤ t.length
    · simp only [hn, if_true]
      have hbl := back_length t window p.length hw hn
      -- no occurrence in a range all of whose members would cover a rejected suffix of the window
      have hrej : ∀ l, l < p.length →
          runT T 0 ((((t.take window).reverse).take p.length).take (l + 1)) = none →
          ∀ s, window - p.length ≤ s → s + (l + 1) ≤ window → ¬ OccursAt p t s := by
        intro l hl hr s h1 h2 hocc
        rw [covered_factor p t window l s hw hn hl h1 h2 hocc] at hr
        exact hC (window - (l + 1) - s) (l + 1) (by omega) hr
      rcases scanBack_spec T (((t.take window).reverse).take p.length) 0 0 with
        ⟨q', hs, hr⟩ | ⟨l, hl, hs, hr⟩
      · -- all m symbols accepted: the window is an occurrence
        rw [hs]
        simp only [Option.isSome_some, if_true, hbl]
        have hlow := runT_lower T p.reverse hM _ 0 q' hr
        simp only [hbl, List.length_reverse] at hlow
        have hq : q' = 0 + (((t.take window).reverse).take p.length).length := by rw [hbl]; omega
        have htight := runT_tight T p.reverse hM _ 0 q' hr hq
        have hback : ((t.take window).reverse).take p.length = p.reverse := by
          apply List.ext_getElem?
          intro k
          rcases Nat.lt_or_ge k p.length with hk | hk
          · have := htight k (by rw [hbl]; exact hk)
            simpa using this
          · rw [List.getElem?_eq_none (by omega), List.getElem?_eq_none (by simpa using hk)]
        have hocc : OccursAt p t (window - p.length) := by
          rw [occursAt_iff_idx]
          refine ⟨by omega, fun k hk => ?_⟩
          have h1 := back_getElem? t window p.length (p.length - 1 - k) hw hn (by omega)
          rw [hback, List.getElem?_reverse (by omega)] at h1
          have e1 : p.length - 1 - (p.length - 1 - k) = k := by omega
          have e2 : window - 1 - (p.length - 1 - k) = window - p.length + k := by omega
          rw [e1, e2] at h1
          exact h1.symm
        have e : window + (p.length + 1 - (0 + p.length)) = window + 1 := by omega
        rw [e]
        obtain ⟨ihm, ihs⟩ := ih (window + 1) (by omega) (by omega)
        refine ⟨?_, ?_⟩
        · intro s
          simp only [List.mem_cons, ihm]
          constructor
          · rintro (rfl | ⟨h1, h2⟩)
            · exact ⟨Nat.le_refl _, hocc⟩
            · exact ⟨by omega, h2⟩
          · rintro ⟨h1, h2⟩
            by_cases hs' : s = window - p.length
            · left; exact hs'
            · right; exact ⟨by omega, h2⟩
        · rw [List.pairwise_cons]
          refine ⟨?_, ihs⟩
          intro s hs'
          have := ((ihm s).mp hs').1
          omega
      · -- rejected after l+1 symbols
        rw [hs]
        simp only [Option.isSome_none, Bool.false_eq_true, if_false]
        rw [hbl] at hl
        have e : window + (p.length + 1 - (0 + l + 1)) = window + (p.length - l) := by omega
        rw [e]
        obtain ⟨ihm, ihs⟩ := ih (window + (p.length - l)) (by omega) (by omega)
        refine ⟨?_, ihs⟩
        intro s
        rw [ihm]
        constructor
        · rintro ⟨h1, h2⟩; exact ⟨by omega, h2⟩
        · rintro ⟨h1, h2⟩
          refine ⟨?_, h2⟩
          rcases Nat.lt_or_ge s (window + (p.length - l) - p.length) with h | h
          · exact absurd h2 (hrej l hl hr s h1 (by omega))
          · exact h
    · simp only [hn, if_false, List.not_mem_nil, false_iff, List.Pairwise.nil, and_true]
      rintro s ⟨h1, h2, _⟩; omega

/-- **BOM search is exact on every text** for every table that is `Complete` and `Monotone` for the pattern
(both decidable; both hold for the table of every pattern, see `RbV/Lemmas/BomOracle.lean`). -/
theorem findAll_eq_occurrences_of_table (p t : List Nat) (hp : 0 < p.length)
    (hC : completeB (build p) p = true) (hM : monotoneB (build p) p.reverse = true) :
    findAll p t = occurrences p t := by
  have hC' := (completeB_iff _ _).mp hC
  have hM' := monotoneB_sound _ _ hM
  obtain ⟨hmem, hsorted⟩ := search_spec p t (build p) hp hC' hM' (t.length + 1) p.length (Nat.le_refl _) (by omega)
  apply sorted_eq_of_mem_iff _ _ hsorted (occurrences_sorted p t)
  intro s
  rw [hmem, mem_occurrences]
  constructor
  · exact fun h => h.2
  · exact fun h => ⟨by omega, h⟩

end RbV.Bom
