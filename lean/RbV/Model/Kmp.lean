import RbV.Basic.Scan
/-!
Mirror model of `pattern_matching::kmp`.

Rust:
```
lps:    q = 0; lps = [0; m]; for i in 1..m { while q > 0 && p[q] != p[i] { q = lps[q-1] }
                                             if p[q] == p[i] { q += 1 }  lps[i] = q }
delta:  while q == m || (p[q] != a && q > 0) { q = lps[q-1] }   if p[q] == a { q += 1 }
next:   q = delta(q, c); if q == m { yield 1 + i - m }
```
`while` loops take fuel (`q` strictly decreases); `lps` is built as a growing list (`lps[q-1]` only reads entries
already written).
-/
namespace RbV.Kmp

/-- the `while` loop shared by `lps` (`withM = false`) and `delta` (`withM = true`) -/
def fallback (p lps : List Nat) (a : Nat) (withM : Bool) : Nat → Nat → Nat
  | 0, q => q
  | fuel + 1, q =>
    if (withM && q == p.length) || (p[q]? != some a && decide (q > 0)) then
      fallback p lps a withM fuel (lps.getD (q - 1) 0)
    else q

def advance (p lps : List Nat) (a : Nat) (withM : Bool) (q : Nat) : Nat :=
  let q' := fallback p lps a withM (q + 1) q
  if p[q']? == some a then q' + 1 else q'

/-- `for i in 1..m`: `rest` = `p[i..]`, `acc` = `lps[0..i)`, `q` = `lps[i-1]` -/
def lpsLoop (p : List Nat) : List Nat → List Nat → Nat → List Nat
  | [], acc, _ => acc
  | a :: rest, acc, q =>
    let q' := advance p acc a false q
    lpsLoop p rest (acc ++ [q']) q'

def lps (p : List Nat) : List Nat :=
  match p with
  | [] => []
  | _ :: rest => lpsLoop p rest [0] 0

def delta (p lpsT : List Nat) (q a : Nat) : Nat := advance p lpsT a true q

def findAll (p t : List Nat) : List Nat :=
  let l := lps p
  Scan.scan (delta p l) (fun q => q == p.length) p.length t 0 0

/-! ### prefix–suffix relation -/

/-- the prefix of `p` of length `k` is a suffix of `pre` -/
def IsPS (p pre : List Nat) (k : Nat) : Prop :=
  k ≤ p.length ∧ k ≤ pre.length ∧ ∀ j, j < k → p[j]? = pre[pre.length - k + j]?

/-- `q` is the longest such prefix -/
def MaxPS (p pre : List Nat) (q : Nat) : Prop := IsPS p pre q ∧ ∀ k, IsPS p pre k → k ≤ q

theorem isPS_zero (p pre : List Nat) : IsPS p pre 0 := ⟨by omega, by omega, fun j h => by omega⟩

theorem isPS_snoc (p pre : List Nat) (a k : Nat) :
    IsPS p (pre ++ [a]) (k + 1) ↔ IsPS p pre k ∧ p[k]? = some a := by
  unfold IsPS
  simp only [List.length_append, List.length_singleton]
  constructor
  · rintro ⟨h1, h2, h3⟩
    refine ⟨⟨by omega, by omega, ?_⟩, ?_⟩
    · intro j hj
      rw [h3 j (by omega), List.getElem?_append_left (by omega)]
      congr 1; omega
    · rw [h3 k (by omega), List.getElem?_append_right (by omega)]
      have e : pre.length - k + k - pre.length = 0 := by omega
      simp [e]
  · rintro ⟨⟨h1, h2, h3⟩, h4⟩
    have hk : k < p.length := by
      cases hh : p[k]? with
      | none => simp [hh] at h4
      | some v => exact (List.getElem?_eq_some_iff.mp hh).1
    refine ⟨by omega, by omega, ?_⟩
    intro j hj
    by_cases hjk : j < k
    · rw [h3 j hjk, List.getElem?_append_left (by omega)]
      congr 1; omega
    · have : j = k := by omega
      subst this
      rw [h4, List.getElem?_append_right (by omega)]
      have e : pre.length - j + j - pre.length = 0 := by omega
      simp [e]

/-- shorter prefix–suffixes of `pre` are exactly the prefix–suffixes of the longer one -/
theorem isPS_trans (p pre : List Nat) (q k : Nat) (hq : IsPS p pre q) (hk : k ≤ q) :
    IsPS p pre k ↔ IsPS p (p.take q) k := by
  obtain ⟨q1, q2, q3⟩ := hq
  have hlen : (p.take q).length = q := by simp; omega
  unfold IsPS
  rw [hlen]
  constructor
  · rintro ⟨h1, h2, h3⟩
    refine ⟨h1, hk, ?_⟩
    intro j hj
    rw [h3 j hj, List.getElem?_take_of_lt (by omega), q3 (q - k + j) (by omega)]
    congr 1; omega
  · rintro ⟨h1, _, h3⟩
    refine ⟨h1, by omega, ?_⟩
    intro j hj
    rw [h3 j hj, List.getElem?_take_of_lt (by omega), q3 (q - k + j) (by omega)]
    congr 1; omega

/-- borders: prefix–suffixes of `p[1..n]` are the proper prefix–suffixes of `p[0..n]` -/
theorem isPS_drop_one (p : List Nat) (n k : Nat) (hn : 1 ≤ n) (hnm : n ≤ p.length) :
    IsPS p ((p.take n).drop 1) k ↔ k < n ∧ IsPS p (p.take n) k := by
  have hlen : (p.take n).length = n := by simp; omega
  have hlen' : ((p.take n).drop 1).length = n - 1 := by simp; omega
  unfold IsPS
  rw [hlen, hlen']
  constructor
  · rintro ⟨h1, h2, h3⟩
    refine ⟨by omega, h1, by omega, ?_⟩
    intro j hj
    rw [h3 j hj, List.getElem?_drop]
    congr 1; omega
  · rintro ⟨h0, h1, _, h3⟩
    refine ⟨h1, by omega, ?_⟩
    intro j hj
    rw [h3 j hj, List.getElem?_drop]
    congr 1; omega

/-- the failure table is correct up to its current length -/
def LpsSpec (p acc : List Nat) : Prop :=
  ∀ i, i < acc.length →
    acc.getD i 0 < i + 1 ∧ IsPS p (p.take (i + 1)) (acc.getD i 0) ∧
      ∀ k, k < i + 1 → IsPS p (p.take (i + 1)) k → k ≤ acc.getD i 0

/-- loop invariant of `fallback`: `q` matches and no longer match can be extended by `a` -/
def FInv (p pre : List Nat) (a q : Nat) : Prop :=
  IsPS p pre q ∧ ∀ k, q < k → IsPS p pre k → p[k]? ≠ some a

theorem fallback_spec (p acc pre : List Nat) (a : Nat) (withM : Bool) (hp : 0 < p.length)
    (hspec : LpsSpec p acc) :
    ∀ (fuel q : Nat), q < fuel → q ≤ acc.length → (withM = true ∨ q < p.length) → FInv p pre a q →
      let q' := fallback p acc a withM fuel q
      FInv p pre a q' ∧ q' < p.length ∧ (p[q']? = some a ∨ q' = 0) := by
  intro fuel
  induction fuel with
  | zero => intro q h; omega
  | succ fuel ih =>
    intro q hf hacc hm hinv
    simp only [fallback]
    split
    · rename_i hcond
      -- fall back: q > 0 and p[q] ≠ a
      have hq0 : 0 < q := by
        simp only [Bool.or_eq_true, Bool.and_eq_true, beq_iff_eq, bne_iff_ne, ne_eq, decide_eq_true_eq] at hcond
        rcases hcond with ⟨_, h⟩ | ⟨_, h⟩ <;> omega
      have hne : p[q]? ≠ some a := by
        simp only [Bool.or_eq_true, Bool.and_eq_true, beq_iff_eq, bne_iff_ne, ne_eq, decide_eq_true_eq] at hcond
        rcases hcond with ⟨_, h⟩ | ⟨h, _⟩
        · rw [h, List.getElem?_eq_none (Nat.le_refl _)]; simp
        · exact h
      have hs := hspec (q - 1) (by omega)
      have e : q - 1 + 1 = q := by omega
      rw [e] at hs
      obtain ⟨s1, s2, s3⟩ := hs
      have hq' : IsPS p pre (acc.getD (q - 1) 0) := (isPS_trans p pre q _ hinv.1 (by omega)).mpr s2
      apply ih (acc.getD (q - 1) 0) (by omega) (by omega) (Or.inr (by have := hinv.1.1; omega))
      refine ⟨hq', ?_⟩
      intro k hk hps
      rcases Nat.lt_trichotomy k q with h | h | h
      · have := s3 k h ((isPS_trans p pre q k hinv.1 (by omega)).mp hps)
        omega
      · subst h; exact hne
      · exact hinv.2 k h hps
    · rename_i hcond
      simp only [Bool.or_eq_true, Bool.and_eq_true, beq_iff_eq, bne_iff_ne, ne_eq, decide_eq_true_eq,
        not_or, not_and, Decidable.not_not] at hcond
      have hqm : q < p.length := by
        rcases hm with hm | hm
        · have := hcond.1 hm; have := hinv.1.1; omega
        · exact hm
      refine ⟨hinv, hqm, ?_⟩
      by_cases h : p[q]? = some a
      · left; exact h
      · right
        have := hcond.2 h
        omega

theorem advance_spec (p acc pre : List Nat) (a : Nat) (withM : Bool) (hp : 0 < p.length)
    (hspec : LpsSpec p acc) (q : Nat) (hacc : q ≤ acc.length) (hm : withM = true ∨ q < p.length)
    (hmax : MaxPS p pre q) : MaxPS p (pre ++ [a]) (advance p acc a withM q) := by
  have hinv : FInv p pre a q := ⟨hmax.1, fun k hk hps => by have := hmax.2 k hps; omega⟩
  obtain ⟨⟨f1, f2⟩, f3, f4⟩ := fallback_spec p acc pre a withM hp hspec (q + 1) q (by omega) hacc hm hinv
  unfold advance
  simp only []
  split
  · rename_i heq
    have heq' : p[fallback p acc a withM (q + 1) q]? = some a := by simpa using heq
    refine ⟨(isPS_snoc p pre a _).mpr ⟨f1, heq'⟩, ?_⟩
    intro k hk
    cases k with
    | zero => omega
    | succ k =>
      have := (isPS_snoc p pre a k).mp hk
      rcases Nat.lt_or_ge (fallback p acc a withM (q + 1) q) k with h | h
      · exact absurd this.2 (f2 k h this.1)
      · omega
  · rename_i hne
    have hne' : p[fallback p acc a withM (q + 1) q]? ≠ some a := by simpa using hne
    have hz : fallback p acc a withM (q + 1) q = 0 := by
      rcases f4 with h | h
      · exact absurd h hne'
      · exact h
    rw [hz] at hne' f2 ⊢
    refine ⟨isPS_zero _ _, ?_⟩
    intro k hk
    cases k with
    | zero => omega
    | succ k =>
      have := (isPS_snoc p pre a k).mp hk
      cases k with
      | zero => exact absurd this.2 hne'
      | succ k => exact absurd this.2 (f2 (k + 1) (by omega) this.1)

/-! ### the failure table -/

theorem lpsLoop_spec (p : List Nat) (hp : 0 < p.length) :
    ∀ (rest acc : List Nat) (q : Nat), 1 ≤ acc.length → acc.length + rest.length = p.length →
      rest = p.drop acc.length → LpsSpec p acc → MaxPS p ((p.take acc.length).drop 1) q →
      LpsSpec p (lpsLoop p rest acc q) ∧ (lpsLoop p rest acc q).length = p.length := by
  intro rest
  induction rest with
  | nil => intro acc q _ hl _ hs _; simp at hl; exact ⟨by simpa [lpsLoop] using hs, by simpa [lpsLoop] using hl⟩
  | cons a rest ih =>
    intro acc q h1 hl hrest hs hmax
    simp only [lpsLoop]
    have hi : acc.length < p.length := by simp at hl; omega
    have ha : p[acc.length]? = some a := by
      have : (p.drop acc.length)[0]? = some a := by rw [← hrest]; simp
      rw [List.getElem?_drop] at this; simpa using this
    have hpre : (p.take (acc.length + 1)).drop 1 = (p.take acc.length).drop 1 ++ [a] := by
      rw [List.take_succ, ha]
      simp only [Option.toList_some]
      rw [List.drop_append_of_le_length (by simp; omega)]
    have hqlen : q ≤ ((p.take acc.length).drop 1).length := hmax.1.2.1
    have hqlt : q < acc.length := by
      simp at hqlen; omega
    have hmax' := advance_spec p acc _ a false hp hs q (by omega) (Or.inr (by omega)) hmax
    rw [← hpre] at hmax'
    have hps := (isPS_drop_one p (acc.length + 1) (advance p acc a false q) (by omega) (by omega)).mp hmax'.1
    have hspec' : LpsSpec p (acc ++ [advance p acc a false q]) := by
      intro i hi'
      simp only [List.length_append, List.length_singleton] at hi'
      by_cases hlt : i < acc.length
      · have := hs i hlt
        rw [List.getD_eq_getElem?_getD, List.getElem?_append_left hlt, ← List.getD_eq_getElem?_getD]
        exact this
      · have hieq : i = acc.length := by omega
        subst hieq
        have hget : (acc ++ [advance p acc a false q]).getD acc.length 0 = advance p acc a false q := by
          rw [List.getD_eq_getElem?_getD, List.getElem?_append_right (Nat.le_refl _)]; simp
        rw [hget]
        refine ⟨hps.1, hps.2, ?_⟩
        intro k hk hkps
        exact hmax'.2 k ((isPS_drop_one p (acc.length + 1) k (by omega) (by omega)).mpr ⟨hk, hkps⟩)
    have := ih (acc ++ [advance p acc a false q]) (advance p acc a false q) (by simp)
      (by simp at hl ⊢; omega)
      (by
        simp only [List.length_append, List.length_singleton]
        have : p.drop acc.length = a :: p.drop (acc.length + 1) := by
          rw [List.drop_eq_getElem_cons hi]; congr 1
          have := List.getElem?_eq_some_iff.mp ha
          exact this.2
        rw [← hrest] at this
        exact (List.cons.inj this).2)
      hspec'
      (by simpa using hmax')
    exact this

theorem lps_spec (p : List Nat) (hp : 0 < p.length) : LpsSpec p (lps p) ∧ (lps p).length = p.length := by
  cases p with
  | nil => simp at hp
  | cons a rest =>
    simp only [lps]
    apply lpsLoop_spec (a :: rest) hp rest [0] 0 (by simp) (by simp; omega) (by simp)
    · intro i hi
      simp at hi; subst hi
      refine ⟨by simp, isPS_zero _ _, fun k hk _ => by simp; omega⟩
    · simp only [List.length_singleton, List.take_succ_cons, List.take_zero, List.drop_one, List.tail_cons]
      refine ⟨isPS_zero _ _, fun k hk => ?_⟩
      have := hk.2.1
      simpa using this

/-! ### the matcher -/

theorem isPS_full_iff (p pre : List Nat) : IsPS p pre p.length ↔ Scan.EndsWith p pre := by
  unfold IsPS Scan.EndsWith
  constructor
  · rintro ⟨_, h2, h3⟩
    refine ⟨h2, ?_⟩
    apply List.ext_getElem?
    intro k
    rw [List.getElem?_drop]
    by_cases hk : k < p.length
    · rw [h3 k hk]
    · rw [List.getElem?_eq_none (by omega), List.getElem?_eq_none (by omega)]
  · rintro ⟨h1, h2⟩
    refine ⟨Nat.le_refl _, h1, ?_⟩
    intro k _
    have : p[k]? = (pre.drop (pre.length - p.length))[k]? := by rw [h2]
    rw [this, List.getElem?_drop]

/-- **KMP is exact** for every non-empty pattern and every text. -/
theorem findAll_eq_occurrences (p t : List Nat) (hp : 0 < p.length) : findAll p t = occurrences p t := by
  obtain ⟨hspec, hlen⟩ := lps_spec p hp
  unfold findAll
  simp only []
  apply Scan.scan_eq_occurrences (delta p (lps p)) (fun q => q == p.length) p (fun pre q => MaxPS p pre q)
  · intro pre q c hmax
    have hq : q ≤ p.length := hmax.1.1
    exact advance_spec p (lps p) pre c true hp hspec q (by omega) (Or.inl rfl) hmax
  · intro pre q hmax
    simp only [beq_iff_eq]
    rw [← isPS_full_iff]
    constructor
    · intro h; rw [← h]; exact hmax.1
    · intro h
      have := hmax.2 _ h
      have := hmax.1.1
      omega
  · exact hp
  · exact ⟨isPS_zero _ _, fun k hk => by have := hk.2.1; simpa using this⟩

end RbV.Kmp
