import RbV.Model.SampledGet
import RbV.Ref.SAComplete
/-
LF mapping and sampled suffix array for texts with SEVERAL sentinel occurrences (C03 [C], full quantifier).

With several sentinels the suffix order is the one of a key text `ks` (`keyText t B rk`, sentinels replaced by their
ranks).  The LF mapping `less[c] + Occ(c, r) − 1` is then still exact for every row whose BWT symbol `c` is NOT the
sentinel (`lf_mapping_multi`) — which is all `SampledSuffixArray::get` needs, because rows whose BWT symbol is the
sentinel are answered from `extra_rows`.  `sampled_get_correct_multi`: `get(i) = sa[i]` for every accepted suffix
array of every text whose sentinel is its smallest symbol, every sampling rate and every Occ rate.
-/
namespace RbV.LFMulti
open RbV RbV.Kasai RbV.LFMap RbV.OccM RbV.Sampled

/-- `ks` orders the positions like the text does, as far as non-sentinel symbols are concerned -/
structure KeyOf (t ks : List Nat) : Prop where
  len : ks.length = t.length
  lt_iff : ∀ y x, y < t.length → x < t.length → t.getD x 0 ≠ t.getD (t.length - 1) 0 →
    (ks.getD y 0 < ks.getD x 0 ↔ t.getD y 0 < t.getD x 0)
  eq_iff : ∀ y x, y < t.length → x < t.length → t.getD x 0 ≠ t.getD (t.length - 1) 0 →
    (ks.getD y 0 = ks.getD x 0 ↔ t.getD y 0 = t.getD x 0)

theorem sentinelOf_eq (t : List Nat) (hne : t ≠ []) : sentinelOf t = t.getD (t.length - 1) 0 := by
  have h := isSentPos_last t hne
  unfold IsSentPos at h
  rw [List.getD_eq_getElem?_getD, h]; rfl

theorem keyOf_keyText (t : List Nat) (B : Nat) (rk : Nat → Nat) (ho : SentinelOrder t B rk) (hne : t ≠ [])
    (hmin : ∀ p, p < t.length → sentinelOf t ≤ t.getD p 0) : KeyOf t (keyText t B rk) := by
  have hs := sentinelOf_eq t hne
  have hval : ∀ x, x < t.length → (IsSentPos t x ↔ t.getD x 0 = sentinelOf t) := by
    intro x hx
    unfold IsSentPos
    rw [List.getD_eq_getElem?_getD, List.getElem?_eq_getElem hx]; simp
  refine ⟨length_keyText t B rk, ?_, ?_⟩
  · intro y x hy hx hxs
    rw [← hs] at hxs
    rw [getD_keyText t B rk y hy, getD_keyText t B rk x hx, keyAt_lt_iff t B rk ho]
    have hnx : ¬ IsSentPos t x := fun e => hxs ((hval x hx).mp e)
    by_cases hsy : IsSentPos t y
    · have e1 := (hval y hy).mp hsy
      have := hmin x hx
      simp only [hsy, hnx, not_true_eq_false, not_false_eq_true, true_and, false_and, and_false, and_true,
        or_false, or_true, true_iff]
      omega
    · simp [hsy, hnx]
  · intro y x hy hx hxs
    rw [← hs] at hxs
    rw [getD_keyText t B rk y hy, getD_keyText t B rk x hx]
    have hnx : ¬ IsSentPos t x := fun e => hxs ((hval x hx).mp e)
    unfold keyAt
    by_cases hsy : IsSentPos t y
    · have hb := ho.bound y hsy
      have e1 := (hval y hy).mp hsy
      rw [if_pos hsy, if_neg hnx]
      constructor
      · intro e; omega
      · intro e; rw [e1] at e; exact absurd e.symm hxs
    · rw [if_neg hsy, if_neg hnx]; omega

/-! ### permutation facts with the bare permutation hypothesis -/

theorem bwt_perm' (t sa : List Nat) (hp : sa.Perm (List.range t.length)) : (bwtRef t sa).Perm t := by
  rw [bwtRef_eq_map]
  have h1 : (sa.map (cpred t.length)).Perm (List.range t.length) := (hp.map _).trans (map_cpred_perm t.length)
  have := h1.map (fun p => t.getD p 0)
  rwa [map_getD_range] at this

theorem bwtRef_getD' (t sa : List Nat) (hl : sa.length = t.length) (r : Nat) (hr : r < t.length) :
    (bwtRef t sa).getD r 0 = t.getD (cpred t.length (sa.getD r 0)) 0 := by
  have hl' : r < sa.length := by rw [hl]; exact hr
  unfold bwtRef cpred
  rw [List.getD_eq_getElem?_getD, List.getElem?_map, List.getElem?_eq_getElem hl']
  simp [List.getD_eq_getElem?_getD, List.getElem?_eq_getElem hl']

/-- **LF mapping for rows whose BWT symbol is not the sentinel** (any number of sentinel occurrences). -/
theorem lf_mapping_multi (t ks sa : List Nat) (h : Sorted ks sa) (hk : KeyOf t ks) (hn : 0 < t.length)
    (r : Nat) (hr : r < t.length) (hcs : (bwtRef t sa).getD r 0 ≠ t.getD (t.length - 1) 0) :
    lfRef (bwtRef t sa) r = sa.idxOf (cpred t.length (sa.getD r 0)) := by
  have hlen := hk.len
  have hsal : sa.length = t.length := by rw [h.length, hlen]
  have hperm : sa.Perm (List.range t.length) := by have := h.perm; rwa [hlen] at this
  have hbl : (bwtRef t sa).length = t.length := by unfold bwtRef; rw [List.length_map, hsal]
  have hrk : r < ks.length := by rw [hlen]; exact hr
  have hp : sa.getD r 0 < t.length := by have := h.getD_lt r hrk; rwa [hlen] at this
  have hc := bwtRef_getD' t sa hsal r hr
  have hbp := bwt_perm' t sa hperm
  unfold lfRef
  rw [occRef_row _ r (by rw [hbl]; exact hr)]
  have hless : ∀ c, lessRef (bwtRef t sa) c = lessRef t c := fun c => hbp.countP_eq _
  rw [hless]
  generalize hcdef : (bwtRef t sa).getD r 0 = c at hc hcs ⊢
  have hp1 : 1 ≤ sa.getD r 0 := by
    apply Nat.pos_of_ne_zero
    intro hz
    rw [hz, cpred_zero _ hn] at hc
    exact hcs hc
  generalize hpdef : sa.getD r 0 = p at hp hc hp1 ⊢
  have hx' : cpred t.length p = p - 1 := by
    have := cpred_succ t.length (p - 1) (by omega)
    have e : p - 1 + 1 = p := by omega
    rwa [e] at this
  rw [hx'] at hc ⊢
  have hxl : p - 1 < t.length := by omega
  have hxs : t.getD (p - 1) 0 ≠ t.getD (t.length - 1) 0 := by rw [← hc]; exact hcs
  rw [rank_eq_countP ks sa h (p - 1) (by rw [hlen]; exact hxl), hlen]
  have hsplit : (List.range t.length).countP (fun y => lexLtB (ks.drop y) (ks.drop (p - 1))) =
      (List.range t.length).countP (fun y => (fun y => decide (t.getD y 0 < c)) y ||
        (fun y => decide (t.getD y 0 = c) && lexLtB (ks.drop (y + 1)) (ks.drop p)) y) := by
    apply List.countP_congr
    intro y hy
    rw [List.mem_range] at hy
    rw [lexLtB_drop ks y (p - 1) (by rw [hlen]; exact hy) (by rw [hlen]; exact hxl)]
    have e : p - 1 + 1 = p := by omega
    rw [e]
    have l1 := hk.lt_iff y (p - 1) hy hxl hxs
    have l2 := hk.eq_iff y (p - 1) hy hxl hxs
    rw [← hc] at l1 l2
    simp only [Bool.or_eq_true, Bool.and_eq_true, decide_eq_true_eq, l1, l2]
  rw [hsplit, countP_add_of_disjoint]
  · have h1 : (List.range t.length).countP (fun y => decide (t.getD y 0 < c)) = lessRef t c :=
      countP_range_getD t (fun x => decide (x < c))
    rw [h1]
    have h2 : (List.range t.length).countP
          (fun y => decide (t.getD y 0 = c) && lexLtB (ks.drop (y + 1)) (ks.drop p)) =
        ((bwtRef t sa).take r).count c := by
      have hmp : (sa.map (cpred t.length)).Perm (List.range t.length) :=
        (hperm.map _).trans (map_cpred_perm t.length)
      rw [← hmp.countP_eq, List.countP_map]
      have hsa := countP_range_getD sa
        ((fun y => decide (t.getD y 0 = c) && lexLtB (ks.drop (y + 1)) (ks.drop p)) ∘ cpred t.length)
      rw [hsal] at hsa
      rw [← hsa, ← countP_rows_lt (bwtRef t sa) c r (by rw [hbl]; omega), hbl]
      apply List.countP_congr
      intro r' hr'
      rw [List.mem_range] at hr'
      simp only [Function.comp]
      rw [← bwtRef_getD' t sa hsal r' hr']
      by_cases hbc : (bwtRef t sa).getD r' 0 = c
      · simp only [hbc, decide_true, Bool.true_and, decide_eq_true_eq]
        have hr'k : r' < ks.length := by rw [hlen]; exact hr'
        have hp' : sa.getD r' 0 < t.length := by have := h.getD_lt r' hr'k; rwa [hlen] at this
        have hp'1 : 1 ≤ sa.getD r' 0 := by
          apply Nat.pos_of_ne_zero
          intro hz
          have hb := bwtRef_getD' t sa hsal r' hr'
          rw [hz, cpred_zero _ hn, hbc] at hb
          exact hcs hb
        have hx2 : cpred t.length (sa.getD r' 0) + 1 = sa.getD r' 0 := by
          have := cpred_succ t.length (sa.getD r' 0 - 1) (by omega)
          have e : sa.getD r' 0 - 1 + 1 = sa.getD r' 0 := by omega
          rw [e] at this; omega
        rw [hx2, lexLtB_iff]
        constructor
        · intro hlt
          have := h.rank_lt_of_lt (sa.getD r' 0) p (by rw [hlen]; exact hp') (by rw [hlen]; exact hp)
            (by rw [← hpdef] at hlt ⊢; exact hlt)
          rw [h.rank_getD r' hr'k, ← hpdef, h.rank_getD r hrk] at this
          exact this
        · intro hlt
          have := h.lt_of_rank_lt r' r hlt hrk
          rw [hpdef] at this; exact this
      · rw [show decide ((bwtRef t sa).getD r' 0 = c) = false from decide_eq_false hbc]
        simp
    rw [h2]; omega
  · intro y _ hboth
    simp only [decide_eq_true_eq, Bool.and_eq_true] at hboth
    omega

/-! ### the sampled suffix array, any number of sentinels -/

theorem getGo_correct_multi (t ks sa : List Nat) (h : Sorted ks sa) (hk : KeyOf t ks) (hn : 0 < t.length)
    (s : Nat) (hs : 0 < s) (m : Nat) (hm : ∀ x ∈ t, x < m) (lessA : List Nat) (occF : Nat → Nat → Nat)
    (hless : ∀ c, c < m → lessA[c]? = some (lessRef (bwtRef t sa) c))
    (hocc : ∀ r c, r < t.length → occF r c = occRef (bwtRef t sa) r c) :
    ∀ (f pos off : Nat), pos < t.length → sa.getD pos 0 < f →
      getGo (bwtRef t sa) sa s (t.getD (t.length - 1) 0) lessA occF f pos off = some (sa.getD pos 0 + off) := by
  have hlen := hk.len
  have hsal : sa.length = t.length := by rw [h.length, hlen]
  have hbl : (bwtRef t sa).length = t.length := by unfold bwtRef; rw [List.length_map, hsal]
  intro f
  induction f with
  | zero => intro pos off _ hf; omega
  | succ f ih =>
    intro pos off hpos hf
    simp only [getGo]
    by_cases hmod : pos % s = 0
    · rw [if_pos hmod, sampleVec_getElem? sa s hs pos (by rw [hsal]; exact hpos) hmod]; rfl
    · rw [if_neg hmod]
      have hb := bwtRef_getD' t sa hsal pos hpos
      have hposk : pos < ks.length := by rw [hlen]; exact hpos
      have hp : sa.getD pos 0 < t.length := by have := h.getD_lt pos hposk; rwa [hlen] at this
      by_cases hc : (bwtRef t sa).getD pos 0 = t.getD (t.length - 1) 0
      · rw [if_pos hc]
        unfold extraRow
        rw [if_pos ⟨hmod, hc⟩]; rfl
      · rw [if_neg hc]
        have hp1 : 1 ≤ sa.getD pos 0 := by
          apply Nat.pos_of_ne_zero
          intro hz
          rw [hz, cpred_zero _ hn] at hb
          exact hc hb
        have hpos1 : 1 ≤ pos := by
          apply Nat.pos_of_ne_zero
          intro hz; rw [hz] at hmod; simp at hmod
        have hcm : (bwtRef t sa).getD pos 0 < m := by
          rw [hb]
          have : t.getD (cpred t.length (sa.getD pos 0)) 0 ∈ t := by
            have hl := cpred_lt t.length (sa.getD pos 0) hn
            rw [List.getD_eq_getElem?_getD, List.getElem?_eq_getElem hl]
            exact List.getElem_mem hl
          exact hm _ this
        have hnext : lessA.getD ((bwtRef t sa).getD pos 0) 0 + occF (pos - 1) ((bwtRef t sa).getD pos 0) =
            sa.idxOf (cpred t.length (sa.getD pos 0)) := by
          rw [← lf_mapping_multi t ks sa h hk hn pos hpos hc]
          unfold lfRef
          rw [List.getD_eq_getElem?_getD, hless _ hcm, hocc _ _ (by omega)]
          have e1 := occRef_row (bwtRef t sa) pos (by rw [hbl]; exact hpos)
          have e2 : occRef (bwtRef t sa) (pos - 1) ((bwtRef t sa).getD pos 0) =
              ((bwtRef t sa).take pos).count ((bwtRef t sa).getD pos 0) := by
            unfold occRef
            have : pos - 1 + 1 = pos := by omega
            rw [this]
          rw [e1, e2]
          simp only [Option.getD_some]
          omega
        rw [hnext]
        have hcp : cpred t.length (sa.getD pos 0) = sa.getD pos 0 - 1 := by
          have := cpred_succ t.length (sa.getD pos 0 - 1) (by omega)
          have e : sa.getD pos 0 - 1 + 1 = sa.getD pos 0 := by omega
          rwa [e] at this
        have hcl : sa.getD pos 0 - 1 < ks.length := by rw [hlen]; omega
        have hr := h.rank_lt _ hcl
        rw [hsal] at hr
        rw [hcp, ih _ (off + 1) hr (by rw [h.getD_rank _ hcl]; omega), h.getD_rank _ hcl]
        congr 1; omega

/-- **`SampledSuffixArray::get(i) = sa[i]` for every accepted suffix array of every text whose sentinel is its
smallest symbol** (any number of sentinel occurrences), every sampling rate `s ≥ 1`, every Occ rate `k ≥ 1`. -/
theorem sampled_get_correct_multi (t sa : List Nat) (hc : checkSA t sa = true)
    (hmin : ∀ p, p < t.length → sentinelOf t ≤ t.getD p 0)
    (s k : Nat) (hs : 0 < s) (hk : 0 < k) (m : Nat) (hm : ∀ x ∈ t, x < m) (i : Nat) (hi : i < t.length) :
    sampledGet (bwtRef t sa) sa s (sentinelOf t) (lessModel (bwtRef t sa) m)
      (fun r c => occGet (occNewLoop (bwtRef t sa) k c) (bwtRef t sa) k r c) i = some (sa.getD i 0) := by
  have hc' := hc
  unfold checkSA at hc'
  simp only [Bool.and_eq_true, beq_iff_eq, Bool.not_eq_true', List.isEmpty_eq_false_iff] at hc'
  obtain ⟨⟨hh, hne⟩, _⟩ := hc'
  obtain ⟨B, rk, ho, hp, hpw⟩ := checkSA_isSA t sa hc
  have hn : 0 < t.length := List.length_pos_iff.mpr hne
  have hse := sentinelOf_eq t hne
  have hko := keyOf_keyText t B rk ho hne hmin
  have hsorted : Sorted (keyText t B rk) sa := ⟨hp, hpw, by rw [length_keyText]; exact hh⟩
  have hsal : sa.length = t.length := by rw [hsorted.length, length_keyText]
  have hbl : (bwtRef t sa).length = t.length := by unfold bwtRef; rw [List.length_map, hsal]
  unfold sampledGet
  rw [if_pos (by rw [hbl]; exact hi), hbl, hse]
  have hgd : sa.getD i 0 < t.length := by
    have := hsorted.getD_lt i (by rw [length_keyText]; exact hi); rwa [length_keyText] at this
  rw [getGo_correct_multi t (keyText t B rk) sa hsorted hko hn s hs m hm _ _
    (fun c hc => less_eq _ m c hc)
    (fun r c hr => by
      rw [occNewLoop_eq _ k c hk]
      exact occ_get_eq _ k r c hk (by rw [hbl]; exact hr))
    (t.length + 1) i 0 hi (by omega)]
  rfl

end RbV.LFMulti
