import RbV.Spec.KChain
/-!
# C19 — the forward recurrence `lcskpp` fills its `dp_vector` with (core Lean only)

`dp[p].0` = `k` + the best finished predecessor that ends at or before the start of `p` in both sequences (0 when there is
none), or the score of the match one step back on the diagonal + 1, whichever is larger.  The event sweep and the max-Fenwick
tree are how the Rust code *evaluates* this recurrence; they are not modelled.  `dpScores` evaluates it directly in list
order (predecessors come earlier in a list sorted by first coordinate).
-/
namespace RbV.KChain

/-- `dp[m].0` given the cells `T` of the earlier matches -/
def cellF (k : Nat) (T : List (M × Nat)) (m : M) : Nat :=
  max (k + max0 ((T.filter (fun e => nonov k e.1 m)).map (·.2)))
      (max0 ((T.filter (fun e => cont e.1 m)).map (fun e => e.2 + 1)))

/-- cells of a list given latest match first -/
def tableR (k : Nat) : List M → List (M × Nat)
  | [] => []
  | m :: rest => (m, cellF k (tableR k rest) m) :: tableR k rest

/-- the `dp_vector` scores of `lcskpp(ms, k)`, in the order of `ms` -/
def dpScores (ms : List M) (k : Nat) : List Nat := ((tableR k ms.reverse).map (·.2)).reverse

end RbV.KChain
