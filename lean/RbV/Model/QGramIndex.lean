import RbV.Spec.QGram
/-!
# C19 — mirror model of `QGramIndex::with_max_count` and `qgram_matches` (core Lean only)

`Vec<usize>` is a `List Nat`; indexing is totalised with `getD`/`set` (the refinement theorem is stated under the guard that
makes every Rust index in range: all codes below the table size — which is exactly what the address-table defect violated).
-/
namespace RbV.QGram

/-- `address[qgram] += 1` -/
def bump1 (l : List Nat) (i : Nat) : List Nat := l.set i (l.getD i 0 + 1)

/-- `utils::prescan(&mut a, s, +)`: every slot receives the sum of the slots before it -/
def prescan : Nat → List Nat → List Nat
  | _, [] => []
  | s, v :: t => s :: prescan (s + v) t

/-- one iteration of the loop that fills `pos` (state: `pos`, `offset`) -/
def fillStep (address : List Nat) (st : List Nat × List Nat) (i c : Nat) : List Nat × List Nat :=
  let a := address.getD c 0
  if address.getD (c + 1) 0 - a != 0 then
    (st.1.set (a + st.2.getD c 0) i, st.2.set c (st.2.getD c 0 + 1))
  else st

def fill (address : List Nat) : Nat → List Nat → List Nat × List Nat → List Nat × List Nat
  | _, [], st => st
  | i, c :: rest, st => fill address (i + 1) rest (fillStep address st i c)

/-- `with_max_count` given the q-gram codes of the text and the number of address slots − 1; result (address, pos) -/
def buildIndex (size mc : Nat) (codes : List Nat) : List Nat × List Nat :=
  let counts := codes.foldl bump1 (List.replicate (size + 1) 0)
  let masked := counts.map (fun a => if a > mc then 0 else a)
  let address := prescan 0 masked
  let pos0 := List.replicate (address.getLastD 0) 0
  (address, (fill address 0 codes (pos0, List.replicate size 0)).1)

/-- `&self.pos[self.address[qgram]..self.address[qgram + 1]]` -/
def qgramMatchesModel (idx : List Nat × List Nat) (c : Nat) : List Nat :=
  (idx.2.drop (idx.1.getD c 0)).take (idx.1.getD (c + 1) 0 - idx.1.getD c 0)

end RbV.QGram
