import RbV.Ref.SAComplete
/-
Mirror model of `suffix_array::transform_text` (the sentinel-aware rank transform that is fed to SA-IS) and the
theorem that ties it to the specification (C03):

```
let offset = sentinel_count - 1;
let mut s = sentinel_count;
for &a in text {
    if a == sentinel { s -= 1; transformed.push(s); }
    else { transformed.push(ranks[a] + offset); }          // ranks: index in the sorted alphabet of the text
}
```
`transform_sorted_isSA`: whenever an array is the sorted suffix permutation of the *transformed* integer text, it
satisfies `IsSA` for the byte text, with the sentinel order "a later sentinel is smaller" (rank of a sentinel = number
of sentinels after it).  So the property C03 follows from SA-IS sorting its integer input correctly.
-/
namespace RbV.Transform
open RbV

/-- `RankTransform`: index of `c` in the sorted alphabet of the text = number of distinct text symbols below `c` -/
def rankOf (t : List Nat) (c : Nat) : Nat := ((List.range c).filter (fun x => decide (x ∈ t))).length

def transformGo (t : List Nat) (sent offset : Nat) : List Nat → Nat → List Nat
  | [], _ => []
  | a :: as, s =>
    if a = sent then (s - 1) :: transformGo t sent offset as (s - 1)
    else (rankOf t a + offset) :: transformGo t sent offset as s

def transformText (t : List Nat) : List Nat :=
  transformGo t (sentinelOf t) (t.count (sentinelOf t) - 1) t (t.count (sentinelOf t))

/-- sentinels after position `p` -/
def rkAfter (t : List Nat) (p : Nat) : Nat := (t.drop (p + 1)).count (sentinelOf t)

theorem length_transformGo (t : List Nat) (sent offset : Nat) (xs : List Nat) (s : Nat) :
    (transformGo t sent offset xs s).length = xs.length := by
  induction xs generalizing s with
  | nil => rfl
  | cons a as ih => simp only [transformGo]; split <;> simp [ih]

theorem transformGo_getD (t : List Nat) (sent offset : Nat) (xs : List Nat) (i : Nat) (hi : i < xs.length) :
    (transformGo t sent offset xs (xs.count sent)).getD i 0 =
      if xs.getD i 0 = sent then (xs.drop (i + 1)).count sent else rankOf t (xs.getD i 0) + offset := by
  induction xs generalizing i with
  | nil => simp at hi
  | cons a as ih =>
    simp only [transformGo]
    by_cases ha : a = sent
    · subst ha
      have hc : (a :: as).count a - 1 = as.count a := by simp
      rw [if_pos rfl, hc]
      cases i with
      | zero => simp
      | succ i =>
        have := ih i (by simpa using hi)
        simpa [List.getD_eq_getElem?_getD] using this
    · have hc : (a :: as).count sent = as.count sent := by
        rw [List.count_cons]; simp [ha]
      rw [if_neg ha, hc]
      cases i with
      | zero => simp [ha]
      | succ i =>
        have := ih i (by simpa using hi)
        simpa [List.getD_eq_getElem?_getD] using this

theorem transformText_getD (t : List Nat) (p : Nat) (hp : p < t.length) :
    (transformText t).getD p 0 =
      if IsSentPos t p then rkAfter t p else rankOf t (t.getD p 0) + (t.count (sentinelOf t) - 1) := by
  unfold transformText rkAfter
  rw [transformGo_getD t _ _ t p hp]
  have : (t.getD p 0 = sentinelOf t) ↔ IsSentPos t p := by
    unfold IsSentPos
    rw [List.getD_eq_getElem?_getD, List.getElem?_eq_getElem hp]; simp
  by_cases h : IsSentPos t p
  · rw [if_pos (this.mpr h), if_pos h]
  · rw [if_neg (fun e => h (this.mp e)), if_neg h]

/-! ### the sentinel order "later is smaller" -/

theorem count_drop_split (t : List Nat) (s p : Nat) (hp : p < t.length) :
    (t.drop p).count s = (if t.getD p 0 = s then 1 else 0) + (t.drop (p + 1)).count s := by
  rw [List.drop_eq_getElem_cons hp, List.count_cons, List.getD_eq_getElem?_getD, List.getElem?_eq_getElem hp]
  simp only [Option.getD_some, beq_iff_eq]
  omega

theorem count_drop_mono (t : List Nat) (s : Nat) (a b : Nat) (h : a ≤ b) :
    (t.drop b).count s ≤ (t.drop a).count s := by
  have : t.drop b = (t.drop a).drop (b - a) := by rw [List.drop_drop]; congr 1; omega
  rw [this]
  exact (List.drop_sublist _ _).count_le _

theorem sentPos_getD (t : List Nat) (p : Nat) (h : IsSentPos t p) : p < t.length ∧ t.getD p 0 = sentinelOf t := by
  unfold IsSentPos at h
  have := List.getElem?_eq_some_iff.mp h
  refine ⟨this.1, ?_⟩
  rw [List.getD_eq_getElem?_getD, h]; rfl

theorem rkAfter_strict (t : List Nat) (p q : Nat) (hq : IsSentPos t q) (hpq : p < q) :
    rkAfter t q < rkAfter t p := by
  unfold rkAfter
  obtain ⟨hql, hqv⟩ := sentPos_getD t q hq
  have h1 := count_drop_split t (sentinelOf t) q hql
  rw [if_pos hqv] at h1
  have h2 := count_drop_mono t (sentinelOf t) (p + 1) q (by omega)
  omega

theorem sentinelOrder_rkAfter (t : List Nat) (hne : t ≠ []) :
    SentinelOrder t (t.count (sentinelOf t)) (rkAfter t) := by
  refine ⟨?_, ?_, ?_⟩
  · intro p hp
    obtain ⟨hpl, hpv⟩ := sentPos_getD t p hp
    have h1 := count_drop_split t (sentinelOf t) p hpl
    rw [if_pos hpv] at h1
    have h2 := count_drop_mono t (sentinelOf t) 0 p (by omega)
    simp only [List.drop_zero] at h2
    unfold rkAfter; omega
  · intro p q hp hq he
    rcases Nat.lt_trichotomy p q with h | h | h
    · have := rkAfter_strict t p q hq h; omega
    · exact h
    · have := rkAfter_strict t q p hp h; omega
  · intro q hq hne'
    obtain ⟨hql, _⟩ := sentPos_getD t q hq
    have hlast := isSentPos_last t hne
    have := rkAfter_strict t q (t.length - 1) hlast (by omega)
    have h0 : rkAfter t (t.length - 1) = 0 := by
      unfold rkAfter
      rw [List.drop_eq_nil_of_le (by omega)]; simp
    omega

/-! ### ranks of symbols -/

theorem rankOf_mono (t : List Nat) (a b : Nat) (h : a ≤ b) : rankOf t a ≤ rankOf t b := by
  unfold rankOf
  have : List.range a = (List.range b).take a := by rw [List.take_range]; congr 1; omega
  rw [this]
  exact ((List.take_sublist _ _).filter _).length_le

theorem rankOf_strict (t : List Nat) (a b : Nat) (h : a < b) (ha : a ∈ t) : rankOf t a < rankOf t b := by
  have h1 := rankOf_mono t (a + 1) b (by omega)
  have h2 : rankOf t (a + 1) = rankOf t a + 1 := by
    unfold rankOf
    rw [List.range_succ, List.filter_append]
    simp [ha]
  omega

theorem getD_mem (t : List Nat) (p : Nat) (hp : p < t.length) : t.getD p 0 ∈ t := by
  rw [List.getD_eq_getElem?_getD, List.getElem?_eq_getElem hp]
  exact List.getElem_mem hp

/-- the transformed text compares every pair of positions exactly like the key text of the specification -/
theorem transform_iso (t : List Nat) (hne : t ≠ []) (hmin : ∀ p, p < t.length → sentinelOf t ≤ t.getD p 0)
    (p q : Nat) (hp : p < t.length) (hq : q < t.length) :
    ((transformText t).getD p 0 < (transformText t).getD q 0 ↔
      keyAt t (t.count (sentinelOf t)) (rkAfter t) p < keyAt t (t.count (sentinelOf t)) (rkAfter t) q) := by
  have ho := sentinelOrder_rkAfter t hne
  rw [transformText_getD t p hp, transformText_getD t q hq, keyAt_lt_iff t _ _ ho]
  have hval : ∀ x, x < t.length → (IsSentPos t x ↔ t.getD x 0 = sentinelOf t) := by
    intro x hx
    unfold IsSentPos
    rw [List.getD_eq_getElem?_getD, List.getElem?_eq_getElem hx]; simp
  have hsent_mem : sentinelOf t ∈ t := by
    have := sentPos_getD t _ (isSentPos_last t hne)
    rw [← this.2]; exact getD_mem t _ this.1
  -- a non-sentinel symbol has rank ≥ 1
  have hrank1 : ∀ x, x < t.length → ¬ IsSentPos t x → 1 ≤ rankOf t (t.getD x 0) := by
    intro x hx hns
    have h1 := hmin x hx
    have h2 : t.getD x 0 ≠ sentinelOf t := fun e => hns ((hval x hx).mpr e)
    have := rankOf_strict t (sentinelOf t) (t.getD x 0) (by omega) hsent_mem
    omega
  by_cases hsp : IsSentPos t p <;> by_cases hsq : IsSentPos t q
  · simp [hsp, hsq]
  · have hb := ho.bound p hsp
    have hr := hrank1 q hq hsq
    simp only [hsp, hsq, if_true, if_false, not_true_eq_false, not_false_eq_true, true_and, false_and, and_false,
      and_true, or_false, or_true, iff_true]
    omega
  · have hb := ho.bound q hsq
    have hr := hrank1 p hp hsp
    simp only [hsp, hsq, if_true, if_false, not_true_eq_false, not_false_eq_true, true_and, false_and, and_false,
      or_false, iff_false]
    omega
  · simp only [hsp, hsq, if_false, not_false_eq_true, true_and, false_and, false_or]
    constructor
    · intro h
      apply Classical.byContradiction
      intro hge
      have := rankOf_mono t (t.getD q 0) (t.getD p 0) (by omega)
      omega
    · intro h
      have := rankOf_strict t _ _ h (getD_mem t p hp)
      omega

theorem length_transformText (t : List Nat) : (transformText t).length = t.length :=
  length_transformGo t _ _ t _

/-- **If SA-IS sorts the transformed text, the result satisfies C03.** -/
theorem transform_sorted_isSA (t sa : List Nat) (hne : t ≠ [])
    (hmin : ∀ p, p < t.length → sentinelOf t ≤ t.getD p 0)
    (h : SuffixSorted (transformText t) sa) : IsSA t sa := by
  refine ⟨t.count (sentinelOf t), rkAfter t, sentinelOrder_rkAfter t hne, ?_⟩
  obtain ⟨hp, hpw⟩ := h
  rw [length_transformText] at hp
  refine ⟨by rw [length_keyText]; exact hp, ?_⟩
  have hiso : ∀ p q, p < (transformText t).length → q < (transformText t).length →
      ((transformText t).getD p 0 < (transformText t).getD q 0 ↔
        (keyText t (t.count (sentinelOf t)) (rkAfter t)).getD p 0 <
          (keyText t (t.count (sentinelOf t)) (rkAfter t)).getD q 0) := by
    intro p q hp' hq'
    rw [length_transformText] at hp' hq'
    rw [getD_keyText t _ _ p hp', getD_keyText t _ _ q hq']
    exact transform_iso t hne hmin p q hp' hq'
  refine hpw.imp ?_
  intro a b hab
  unfold sufLt at hab ⊢
  exact (lexLt_drop_congr (transformText t) (keyText t _ _)
    (by rw [length_transformText, length_keyText]) hiso _ a b rfl).mp hab

end RbV.Transform
