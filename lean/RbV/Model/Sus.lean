import RbV.Model.Kasai
/-
Mirror model of `suffix_array::shortest_unique_substrings` and its refinement theorem (C03).

```
let mut sus = vec![None; n];
for i in 0..n {
    let len = 1 + cmp::max(lcp.get(i).unwrap(), lcp.get(i + 1).unwrap_or(0)) as usize;
    let p = pos.get(i).unwrap();
    if n - p >= len { sus[p] = Some(len); }
}
```
`susModel_eq`: on a sorted suffix permutation (n ≥ 2) with its LCP array, the loop returns `susRef t p` for every
position — the longest prefix shared with *any* other suffix is shared with a neighbour in the array.
-/
namespace RbV.Sus
open RbV RbV.Kasai

def susStep (n : Nat) (sa : List Nat) (lcp : List Int) (sus : List (Option Nat)) (i : Nat) : List (Option Nat) :=
  let len := 1 + (max (lcp.getD i 0) (lcp.getD (i + 1) 0)).toNat
  let p := sa.getD i 0
  if n - p ≥ len then sus.set p (some len) else sus

def susModel (sa : List Nat) (lcp : List Int) : List (Option Nat) :=
  (List.range sa.length).foldl (susStep sa.length sa lcp) (List.replicate sa.length none)

/-! ### neighbours in suffix order share the longest prefixes -/

theorem cpl_sandwich_right (x y z : List Nat) (h1 : lexLt x y) (h2 : lexLt y z ∨ y = z) : cpl x z ≤ cpl x y := by
  rcases h2 with h2 | h2
  · induction x generalizing y z with
    | nil => simp [cpl]
    | cons a xs ih =>
      cases y with
      | nil => simp [lexLt] at h1
      | cons b ys =>
        cases z with
        | nil => simp [lexLt] at h2
        | cons c zs =>
          simp only [lexLt] at h1 h2
          simp only [cpl]
          by_cases hac : a = c
          · subst hac
            have hb : b = a := by
              rcases h1 with h | ⟨h, _⟩ <;> rcases h2 with h' | ⟨h', _⟩ <;> omega
            subst hb
            simp only [if_true]
            have h1' : lexLt xs ys := by rcases h1 with h | ⟨_, h⟩; · omega
                                         · exact h
            have h2' : lexLt ys zs := by rcases h2 with h | ⟨_, h⟩; · omega
                                         · exact h
            have := ih ys zs h1' h2'
            omega
          · simp [hac]
  · subst h2; exact Nat.le_refl _

theorem maxShare_le (t : List Nat) (p : Nat) (qs : List Nat) (M : Nat)
    (h : ∀ q ∈ qs, q ≠ p → cpl (t.drop p) (t.drop q) ≤ M) : maxShare t p qs ≤ M := by
  induction qs with
  | nil => simp [maxShare]
  | cons x xs ih =>
    simp only [maxShare]
    have ih' := ih (fun q hq => h q (List.mem_cons_of_mem _ hq))
    split
    · exact ih'
    · rename_i hx
      have := h x (by simp) hx
      omega

/-- LCP with the predecessor row (0 for row 0) -/
def nbPrev (t sa : List Nat) (i : Nat) : Nat :=
  if 1 ≤ i then cpl (t.drop (sa.getD (i - 1) 0)) (t.drop (sa.getD i 0)) else 0

/-- LCP with the successor row (0 for the last row) -/
def nbNext (t sa : List Nat) (i : Nat) : Nat :=
  if i + 1 < t.length then cpl (t.drop (sa.getD i 0)) (t.drop (sa.getD (i + 1) 0)) else 0

theorem maxShare_eq_neighbours (t sa : List Nat) (h : Sorted t sa) (i : Nat) (hi : i < t.length) :
    maxShare t (sa.getD i 0) (List.range t.length) = max (nbPrev t sa i) (nbNext t sa i) := by
  have hp := h.getD_lt i hi
  apply Nat.le_antisymm
  · apply maxShare_le
    intro q hq hne
    rw [List.mem_range] at hq
    have rq := h.rank_lt q hq
    rw [h.length] at rq
    have hrq : sa.idxOf q ≠ i := by
      intro e; apply hne; rw [← e, h.getD_rank q hq]
    rcases Nat.lt_or_gt_of_ne hrq with hlt | hgt
    · -- q before p: compare with the predecessor row
      have h1 : lexLt (t.drop q) (t.drop (sa.getD (i - 1) 0)) ∨ t.drop q = t.drop (sa.getD (i - 1) 0) := by
        by_cases he : sa.idxOf q = i - 1
        · right; rw [← he, h.getD_rank q hq]
        · left
          have := h.lt_of_rank_lt (sa.idxOf q) (i - 1) (by omega) (by omega)
          rwa [h.getD_rank q hq] at this
      have h2 : lexLt (t.drop (sa.getD (i - 1) 0)) (t.drop (sa.getD i 0)) :=
        h.lt_of_rank_lt (i - 1) i (by omega) hi
      have := cpl_sandwich _ _ _ h1 h2
      rw [cpl_comm (t.drop (sa.getD i 0)) (t.drop q)]
      have e : nbPrev t sa i = cpl (t.drop (sa.getD (i - 1) 0)) (t.drop (sa.getD i 0)) := by
        unfold nbPrev; rw [if_pos (by omega)]
      omega
    · -- q after p: compare with the successor row
      have h1 : lexLt (t.drop (sa.getD i 0)) (t.drop (sa.getD (i + 1) 0)) :=
        h.lt_of_rank_lt i (i + 1) (by omega) (by omega)
      have h2 : lexLt (t.drop (sa.getD (i + 1) 0)) (t.drop q) ∨ t.drop (sa.getD (i + 1) 0) = t.drop q := by
        by_cases he : sa.idxOf q = i + 1
        · right; rw [← he, h.getD_rank q hq]
        · left
          have := h.lt_of_rank_lt (i + 1) (sa.idxOf q) (by omega) rq
          rwa [h.getD_rank q hq] at this
      have := cpl_sandwich_right _ _ _ h1 h2
      have e : nbNext t sa i = cpl (t.drop (sa.getD i 0)) (t.drop (sa.getD (i + 1) 0)) := by
        unfold nbNext; rw [if_pos (by omega)]
      omega
  · -- both neighbours are among the candidates
    have hprev : nbPrev t sa i ≤ maxShare t (sa.getD i 0) (List.range t.length) := by
      unfold nbPrev
      split
      · rename_i h1
        have hq := h.getD_lt (i - 1) (by omega)
        have hne : sa.getD (i - 1) 0 ≠ sa.getD i 0 := by
          intro e
          have e1 := h.rank_getD (i - 1) (by omega)
          rw [e, h.rank_getD i hi] at e1
          omega
        have := maxShare_ge t (sa.getD i 0) (sa.getD (i - 1) 0) (List.range t.length)
          (List.mem_range.mpr hq) hne
        rw [cpl_comm]; exact this
      · omega
    have hnext : nbNext t sa i ≤ maxShare t (sa.getD i 0) (List.range t.length) := by
      unfold nbNext
      split
      · rename_i h1
        have hq := h.getD_lt (i + 1) h1
        have hne : sa.getD (i + 1) 0 ≠ sa.getD i 0 := by
          intro e
          have e1 := h.rank_getD (i + 1) h1
          rw [e, h.rank_getD i hi] at e1
          omega
        exact maxShare_ge t (sa.getD i 0) (sa.getD (i + 1) 0) (List.range t.length)
          (List.mem_range.mpr hq) hne
      · omega
    omega

/-! ### the two LCP entries read by the loop -/

theorem lcpRef_last (t sa : List Nat) (hne : sa ≠ []) : (lcpRef t sa)[sa.length]? = some (-1) := by
  have hl := length_lcpRef t sa hne
  have := (lcpRef_ends t sa).2
  rw [List.getLast?_eq_getElem?, hl] at this
  simpa using this

theorem max_lcpRef (t sa : List Nat) (h : Sorted t sa) (hn : 2 ≤ t.length) (i : Nat) (hi : i < t.length) :
    (max ((lcpRef t sa).getD i 0) ((lcpRef t sa).getD (i + 1) 0)).toNat = max (nbPrev t sa i) (nbNext t sa i) := by
  have hlen := h.length
  have hsa : sa ≠ [] := by intro e; rw [e] at hlen; simp at hlen; omega
  -- entry i
  have e1 : (lcpRef t sa).getD i 0 = if 1 ≤ i then (nbPrev t sa i : Int) else -1 := by
    rw [List.getD_eq_getElem?_getD]
    by_cases h0 : 1 ≤ i
    · have hin := lcpRef_inner t sa (i - 1) (by rw [hlen]; omega)
      have : i - 1 + 1 = i := by omega
      rw [this] at hin
      rw [hin, if_pos h0]; unfold nbPrev; rw [if_pos h0]; rfl
    · have : i = 0 := by omega
      subst this
      rw [(lcpRef_ends t sa).1, if_neg h0]; rfl
  have e2 : (lcpRef t sa).getD (i + 1) 0 = if i + 1 < t.length then (nbNext t sa i : Int) else -1 := by
    rw [List.getD_eq_getElem?_getD]
    by_cases h0 : i + 1 < t.length
    · have hin := lcpRef_inner t sa i (by rw [hlen]; omega)
      rw [hin, if_pos h0]; unfold nbNext; rw [if_pos h0]; rfl
    · have hx : i + 1 = sa.length := by rw [hlen]; omega
      rw [if_neg h0, hx, lcpRef_last t sa hsa]; rfl
  rw [e1, e2]
  have p0 : ¬ 1 ≤ i → nbPrev t sa i = 0 := by intro hh; unfold nbPrev; rw [if_neg hh]
  have n0 : ¬ i + 1 < t.length → nbNext t sa i = 0 := by intro hh; unfold nbNext; rw [if_neg hh]
  by_cases c1 : 1 ≤ i <;> by_cases c2 : i + 1 < t.length
  · rw [if_pos c1, if_pos c2]; omega
  · rw [if_pos c1, if_neg c2, n0 c2]; omega
  · rw [if_neg c1, if_pos c2, p0 c1]; omega
  · omega

/-! ### the loop -/

/-- value written for row `i` -/
def rowVal (t sa : List Nat) (i : Nat) : Option Nat :=
  let len := 1 + max (nbPrev t sa i) (nbNext t sa i)
  if t.length - sa.getD i 0 ≥ len then some len else none

theorem susStep_lcpRef (t sa : List Nat) (h : Sorted t sa) (hn : 2 ≤ t.length) (i : Nat) (hi : i < t.length)
    (sus : List (Option Nat)) :
    susStep sa.length sa (lcpRef t sa) sus i =
      match rowVal t sa i with
      | some v => sus.set (sa.getD i 0) (some v)
      | none => sus := by
  unfold susStep rowVal
  simp only
  rw [max_lcpRef t sa h hn i hi, h.length]
  split <;> rfl

theorem fold_spec (t sa : List Nat) (h : Sorted t sa) (hn : 2 ≤ t.length) (j : Nat) (hj : j ≤ t.length) :
    ∀ p, p < t.length →
      ((List.range j).foldl (susStep sa.length sa (lcpRef t sa)) (List.replicate sa.length none))[p]? =
        some (if sa.idxOf p < j then rowVal t sa (sa.idxOf p) else none) := by
  induction j with
  | zero =>
    intro p hp
    simp [h.length, hp]
  | succ j ih =>
    intro p hp
    rw [List.range_succ, List.foldl_append, List.foldl_cons, List.foldl_nil,
      susStep_lcpRef t sa h hn j (by omega)]
    have ih' := ih (by omega) p hp
    have hrp := h.rank_lt p hp
    by_cases hr : sa.idxOf p = j
    · have hpj : sa.getD j 0 = p := by rw [← hr, h.getD_rank p hp]
      rw [if_pos (by omega), hr]
      cases hv : rowVal t sa j with
      | none =>
        simp only
        rw [ih', if_neg (by omega)]
      | some v =>
        simp only
        rw [hpj, List.getElem?_set, if_pos rfl]
        have hlen : ((List.range j).foldl (susStep sa.length sa (lcpRef t sa))
            (List.replicate sa.length none)).length = t.length := by
          have : ∀ (l : List Nat) (s : List (Option Nat)),
              (l.foldl (susStep sa.length sa (lcpRef t sa)) s).length = s.length := by
            intro l
            induction l with
            | nil => intro s; rfl
            | cons a l ihl =>
              intro s
              rw [List.foldl_cons, ihl]
              unfold susStep
              simp only
              split <;> simp
          rw [this]; simp [h.length]
        rw [if_pos (by rw [hlen]; exact hp)]
    · have hne : sa.getD j 0 ≠ p := by
        intro e
        have := h.rank_getD j (by omega)
        rw [e] at this
        exact hr this
      have hsame : (match rowVal t sa j with
          | some v => ((List.range j).foldl (susStep sa.length sa (lcpRef t sa))
              (List.replicate sa.length none)).set (sa.getD j 0) (some v)
          | none => (List.range j).foldl (susStep sa.length sa (lcpRef t sa))
              (List.replicate sa.length none))[p]? =
          ((List.range j).foldl (susStep sa.length sa (lcpRef t sa)) (List.replicate sa.length none))[p]? := by
        cases rowVal t sa j with
        | none => rfl
        | some v => simp only; rw [List.getElem?_set, if_neg hne]
      rw [hsame, ih']
      by_cases hlt : sa.idxOf p < j
      · rw [if_pos hlt, if_pos (by omega)]
      · rw [if_neg hlt, if_neg (by omega)]

/-- **The loop of `shortest_unique_substrings` on a sorted suffix permutation and its LCP array returns the
brute-force shortest-unique-substring length of every position.** -/
theorem susModel_eq (t sa : List Nat) (h : Sorted t sa) (hn : 2 ≤ t.length) :
    susModel sa (lcpRef t sa) = (List.range t.length).map (susRef t) := by
  apply List.ext_getElem?
  intro p
  by_cases hp : p < t.length
  · unfold susModel
    rw [h.length, ← h.length]
    have := fold_spec t sa h hn t.length (Nat.le_refl _) p hp
    rw [h.length] at this ⊢
    rw [← h.length] at this ⊢
    rw [h.length]
    rw [h.length] at this
    rw [this]
    have hrp := h.rank_lt p hp
    rw [h.length] at hrp
    rw [if_pos hrp, List.getElem?_map, List.getElem?_range hp]
    simp only [Option.map_some, Option.some.injEq]
    unfold rowVal susRef
    simp only
    rw [← maxShare_eq_neighbours t sa h _ hrp, h.getD_rank p hp]
    by_cases hc : p + (maxShare t p (List.range t.length) + 1) ≤ t.length
    · rw [if_pos hc, if_pos (by omega)]; congr 1; omega
    · rw [if_neg hc, if_neg (by omega)]
  · have l1 : (susModel sa (lcpRef t sa)).length = t.length := by
      unfold susModel
      have : ∀ (l : List Nat) (s : List (Option Nat)),
          (l.foldl (susStep sa.length sa (lcpRef t sa)) s).length = s.length := by
        intro l
        induction l with
        | nil => intro s; rfl
        | cons a l ihl =>
          intro s
          rw [List.foldl_cons, ihl]
          unfold susStep
          simp only
          split <;> simp
      rw [this]; simp [h.length]
    rw [List.getElem?_eq_none (by omega), List.getElem?_eq_none (by simp; omega)]

end RbV.Sus
