import RbV.Ref.EditDist
/-!
Mirror model of `pattern_matching::ukkonen` (C09 [A]/[B]).  Core Lean only.

The Rust code keeps two buffers `D[0]`, `D[1]` of length m+1 and uses them alternately as "previous column" and
"current column"; only the cells `0 ..= lastk` of the current column are written, the cells above keep whatever the
buffer held two text positions earlier (or the initial filler `k+1`).  `St.prev` is the previous column, `St.old` the
buffer that is overwritten next.
-/
namespace RbV.Model.Ukkonen
open RbV.EditDist

structure St where
  prev : List Nat
  old : List Nat
  lastk : Nat
deriving Repr

/-- `find_all_end`: `D[0] = [k+1; m+1]`, `D[1] = 0..=m`, `lastk = min(k, m)`; text position 0 writes `D[0]` -/
def init (m k : Nat) : St := ⟨List.range (m + 1), List.replicate (m + 1) (k + 1), min k m⟩

/-- the inner loop `for j in 1..=lastk`: `n` cells; `pat` = pattern from `j-1` on, `pt` = `D[prev][j..]`,
`diag = D[prev][j-1]`, `left = D[col][j-1]` -/
def fill (w : Nat → Nat → Nat) (c : Nat) : List Nat → Nat → List Nat → Nat → Nat → List Nat
  | a :: pat, n + 1, x :: pt, diag, left =>
    let v := min (min (x + 1) (left + 1)) (diag + w a c)
    v :: fill w c pat n pt x v
  | _, _, _, _, _ => []

/-- the current column after the inner loop: cells `0..=pre` new, the rest as the buffer held them -/
def newCol (w : Nat → Nat → Nat) (p : List Nat) (c : Nat) (s : St) (pre : Nat) : List Nat :=
  (0 :: fill w c p pre s.prev.tail (s.prev.headD 0) 0) ++ s.old.drop (pre + 1)

/-- `while D[col][lastk] > k { lastk -= 1 }` (cell 0 is 0, so the loop stops there at the latest) -/
def cutBack (col : List Nat) (k : Nat) : Nat → Nat
  | 0 => 0
  | l + 1 => if col.getD (l + 1) 0 > k then cutBack col k l else l + 1

/-- one text symbol: new state and the reported distance, if any -/
def step (w : Nat → Nat → Nat) (p : List Nat) (k : Nat) (s : St) (c : Nat) : St × Option Nat :=
  let m := p.length
  let pre := min (s.lastk + 1) m
  let col := newCol w p c s pre
  let lk := cutBack col k pre
  (⟨col, s.prev, lk⟩, if lk = m then some (col.getD m 0) else none)

def run (w : Nat → Nat → Nat) (p : List Nat) (k : Nat) : St → Nat → List Nat → List (Nat × Nat)
  | _, _, [] => []
  | s, i, c :: t =>
    match step w p k s c with
    | (s', some d) => (i, d) :: run w p k s' (i + 1) t
    | (s', none) => run w p k s' (i + 1) t

/-- `Ukkonen::find_all_end(pattern, text, k).collect()` -/
def findAllEnd (w : Nat → Nat → Nat) (p t : List Nat) (k : Nat) : List (Nat × Nat) :=
  run w p k (init p.length k) 0 t

end RbV.Model.Ukkonen
