import RbV.Basic.RsSem
/-! Semantics added by builder genleft (session 6) for the units of `tools/rs2lean_genleft.py` (docs/notes/GEN.md, section
"genleft").  Hand-written, core Lean, trusted like `RsSem.lean`. -/
namespace RbV.Rs

/-- `it.enumerate()` on an iterator whose remaining items are `l`, counting from `k` -/
def enumFromL {α : Type} : Nat → List α → List (Nat × α)
  | _, [] => []
  | k, a :: l => (k, a) :: enumFromL (k + 1) l

/-- `xs.into_iter().enumerate()`: the pairs `(0, x₀), (1, x₁), …` (trusted reading as in genpm's `Enumerate<T>`: the counter
is an unbounded `Nat`; a slice has fewer than 2^63 elements) -/
def enumFrom0 {α : Type} (l : List α) : List (Nat × α) := enumFromL 0 l

theorem enumFromL_length {α : Type} (k : Nat) (l : List α) : (enumFromL k l).length = l.length := by
  induction l generalizing k with
  | nil => rfl
  | cons a l ih => simp [enumFromL, ih]

end RbV.Rs
