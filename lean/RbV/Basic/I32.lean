/-!
Checked `i32` arithmetic for the mirror models of the aligners (`Model/PairwiseFillI32.lean`, `Model/PoaI32.lean`).

An `i32` value is an `Int` in `[−2³¹, 2³¹)`.  `add`/`sub`/`mul` are the Rust operators `+`, `-`, `*` of a build with
`overflow-checks` (the harness is built that way): a result outside the range is a panic — `none` here.  (A release
build without the checks wraps silently; `none` then reads "the code leaves the part of its behaviour that the
unbounded model describes".)  `ofUsize` is the cast `i as i32` of a `usize`: truncation of the bit pattern, never a
panic.  Core Lean only.
-/
namespace RbV.I32

/-- `v` is a value of type `i32` -/
def InRange (v : Int) : Prop := -2147483648 ≤ v ∧ v ≤ 2147483647

instance (v : Int) : Decidable (InRange v) := by unfold InRange; infer_instance

/-- `a + b` on `i32` with overflow checks -/
def add (a b : Int) : Option Int := if InRange (a + b) then some (a + b) else none
/-- `a - b` on `i32` with overflow checks -/
def sub (a b : Int) : Option Int := if InRange (a - b) then some (a - b) else none
/-- `a * b` on `i32` with overflow checks -/
def mul (a b : Int) : Option Int := if InRange (a * b) then some (a * b) else none
/-- `i as i32` for `i : usize`: the low 32 bits read as two's complement -/
def ofUsize (i : Nat) : Int := ((i : Int) + 2147483648) % 4294967296 - 2147483648

theorem add_ok {a b : Int} (h : InRange (a + b)) : add a b = some (a + b) := by simp [add, h]
theorem sub_ok {a b : Int} (h : InRange (a - b)) : sub a b = some (a - b) := by simp [sub, h]
theorem mul_ok {a b : Int} (h : InRange (a * b)) : mul a b = some (a * b) := by simp [mul, h]
theorem ofUsize_ok {i : Nat} (h : (i : Int) ≤ 2147483647) : ofUsize i = (i : Int) := by
  unfold ofUsize; omega

theorem add_eq_some {a b v : Int} (h : add a b = some v) : v = a + b ∧ InRange (a + b) := by
  unfold add at h; split at h
  · exact ⟨by injection h with h; exact h.symm, by assumption⟩
  · cases h
theorem add_eq_none {a b : Int} : add a b = none ↔ ¬ InRange (a + b) := by
  unfold add; split <;> simp [*]
theorem mul_eq_none {a b : Int} : mul a b = none ↔ ¬ InRange (a * b) := by
  unfold mul; split <;> simp [*]

/-- the two's-complement sum a release build (no overflow checks) computes -/
def wrap (v : Int) : Int := (v + 2147483648) % 4294967296 - 2147483648
theorem wrap_inRange (v : Int) : InRange (wrap v) := by unfold wrap InRange; omega
theorem wrap_of_inRange {v : Int} (h : InRange v) : wrap v = v := by unfold wrap; unfold InRange at h; omega

end RbV.I32
