import RbV.Basic.RsSem
import RbV.Basic.RsSemWord
/-!
Semantics of the additional Rust constructs read by `tools/rs2lean_genlong.py` (builder genlong; docs/notes/GEN.md, section
"Block-based Myers end to end, constructors, traceback"): iterator consumers of the Myers API (`min_by_key`), the look-up of the
ambiguity map of `MyersBuilder`, `Itertools::chunks`, `count_ones`.  Hand-written, core Lean only; part of the trusted meaning of
the translated subset, like `RsSem.lean` / `RsSemWord.lean`.
-/
namespace RbV.Rs
open Res

/-- `it.min_by_key(|&(_, d)| d)` on the items `l` the iterator yields: std folds with
`match compare(key(x), key(y)) { Greater => y, _ => x }`, i.e. the **first** element with the smallest key; `None` for no item -/
def minByKeySnd : List (Nat × Nat) → Option (Nat × Nat)
  | [] => none
  | x :: r => some (r.foldl (fun best y => if y.2 < best.2 then y else best) x)

/-- `map.get(&k)` on a `HashMap<u8, Vec<u8>>` given by its entry list (`insert` of an existing key replaces the entry, so the
list has at most one entry per key; the look-up returns the first) -/
def hmGet (m : List (Nat × List Nat)) (k : Nat) : Option (List Nat) := (m.find? (fun e => e.1 == k)).map (·.2)

/-- `map.insert(k, v)` (the old value, if any, is replaced; the returned old value is not used by the translated code) -/
def hmInsert (m : List (Nat × List Nat)) (k : Nat) (v : List Nat) : List (Nat × List Nat) :=
  (k, v) :: m.filter (fun e => !(e.1 == k))

/-- `itertools::Itertools::chunks(n)` on the items `l`: consecutive groups of `n` items, the last one possibly shorter
(`n = 0` panics in itertools: `assert!(size != 0)`) -/
def itChunksGo {α : Type} (n : Nat) : Nat → List α → List (List α)
  | 0, _ => []
  | g + 1, l => if l.length ≤ n then (if l = [] then [] else [l]) else l.take n :: itChunksGo n g (l.drop n)

def itChunks {α : Type} (l : List α) (n : Nat) : Res (List (List α)) :=
  if n = 0 then panic else ok (itChunksGo n l.length l)

/-- `x.count_ones()` of a `w`-bit machine word (any width; `RsSemBits.countOnes` is the 64-bit one) -/
def popcountW : Nat → Nat → Nat
  | 0, _ => 0
  | g + 1, x => x % 2 + popcountW g (x / 2)

/-- the iterator `xs[..=pos].iter().rev().chain(xs.iter().rev().cycle())` (the column reader of the Myers traceback handlers):
`first` = the items of the first part (`xs[..=pos]` reversed), `whole` = the items one pass of the cycled part yields (`xs`
reversed), `taken` = number of items already drawn.  `Chain` yields the first part, then `Cycle` repeats the second for ever
(an empty second part yields nothing). -/
structure RevCyc (α : Type) where
  first : List α
  whole : List α
  taken : Nat

/-- construction; the slice `xs[..=pos]` panics for `pos ≥ xs.len()` -/
def rcNew {α : Type} (xs : List α) (pos : Nat) : Res (RevCyc α) :=
  if pos < xs.length then ok ⟨(xs.take (pos + 1)).reverse, xs.reverse, 0⟩ else panic

/-- `it.next()` -/
def rcNext {α : Type} (it : RevCyc α) : Option α × RevCyc α :=
  (if it.taken < it.first.length then it.first[it.taken]?
    else if it.whole.length = 0 then none else it.whole[(it.taken - it.first.length) % it.whole.length]?,
   { it with taken := it.taken + 1 })

/-- `T::one() << i` / `x <<= i` with a run-time shift amount on a `w`-bit word: `i ≥ w` panics (overflow check), bits shifted out
are dropped -/
theorem shl_one_ok {w i : Nat} (h : i < w) : shl w 1 i = ok (2 ^ i) := by
  rw [shl_ok h, Nat.one_shiftLeft]
  congr 1
  exact Nat.mod_eq_of_lt (Nat.pow_lt_pow_right (by omega) h)

end RbV.Rs
