/-! Exact decimal literals for the source-extracted constants (`RbV/Gen/*.lean`, DESIGN §8).  Core Lean only.

A Rust literal such as `-4.342_944_819_032_517_5` is kept as mantissa and scale: `⟨-43429448190325175, 16⟩`
stands for the rational `-43429448190325175 / 10^16`.  The proof side casts `num`/`den` into `ℚ`/`ℝ`; the driver
uses `toFloat`, which is exactly what the Lean literal with the same digits elaborates to
(`OfScientific.ofScientific mantissa true scale`). -/
namespace RbV

structure Dec where
  /-- signed mantissa -/
  mant : Int
  /-- number of decimal places -/
  scale : Nat
  deriving Repr, DecidableEq

namespace Dec

/-- numerator of the value `mant / 10^scale` -/
def num (d : Dec) : Int := d.mant

/-- denominator of the value `mant / 10^scale` -/
def den (d : Dec) : Nat := 10 ^ d.scale

/-- the `f64` a Lean (and a Rust) literal with these digits denotes -/
def toFloat (d : Dec) : Float :=
  let a := Float.ofScientific d.mant.natAbs true d.scale
  if d.mant < 0 then -a else a

end Dec
end RbV
