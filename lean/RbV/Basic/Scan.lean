import RbV.Spec.Occ
import RbV.Basic.Sorted
/-!
Generic left-to-right scanner (ShiftAnd / KMP style): a state is advanced once per text symbol and a position
`i + 1 - m` is reported whenever the state is accepting.  If the accepting states are exactly those reached after a
text prefix that ends with the pattern, the scanner's output is `occurrences p t`.
-/
namespace RbV.Scan

def scan {σ : Type} (step : σ → Nat → σ) (acc : σ → Bool) (m : Nat) : List Nat → Nat → σ → List Nat
  | [], _, _ => []
  | c :: t, i, s =>
    let s' := step s c
    if acc s' then (i + 1 - m) :: scan step acc m t (i + 1) s' else scan step acc m t (i + 1) s'

/-- `p` is a suffix of `pre` -/
def EndsWith (p pre : List Nat) : Prop := p.length ≤ pre.length ∧ pre.drop (pre.length - p.length) = p

theorem occursAt_append_iff (p pre rest : List Nat) (s : Nat) (hs : s + p.length ≤ pre.length) :
    OccursAt p (pre ++ rest) s ↔ OccursAt p pre s := by
  unfold OccursAt
  have h1 : ((pre ++ rest).drop s).take p.length = (pre.drop s).take p.length := by
    rw [List.drop_append_of_le_length (by omega), List.take_append_of_le_length]
    simp; omega
  rw [h1]; simp; omega

theorem occursAt_end_iff (p pre : List Nat) (h : p.length ≤ pre.length) :
    OccursAt p pre (pre.length - p.length) ↔ pre.drop (pre.length - p.length) = p := by
  unfold OccursAt
  constructor
  · rintro ⟨_, h2⟩
    have hl : (pre.drop (pre.length - p.length)).length ≤ p.length := by simp; omega
    rw [List.take_of_length_le hl] at h2; exact h2
  · intro h2
    refine ⟨by omega, ?_⟩
    rw [h2, List.take_of_length_le]; omega

section
variable {σ : Type} (step : σ → Nat → σ) (acc : σ → Bool) (p : List Nat) (Inv : List Nat → σ → Prop)
variable (hstep : ∀ pre s c, Inv pre s → Inv (pre ++ [c]) (step s c))
variable (hacc : ∀ pre s, Inv pre s → (acc s = true ↔ EndsWith p pre))
variable (hp : 0 < p.length)
include hstep hacc hp

theorem mem_scan : ∀ (rest pre : List Nat) (st : σ), Inv pre st → ∀ s,
    s ∈ scan step acc p.length rest pre.length st ↔
      (pre.length < s + p.length ∧ OccursAt p (pre ++ rest) s) := by
  intro rest
  induction rest with
  | nil =>
    intro pre st _ s
    simp only [scan, List.not_mem_nil, List.append_nil, false_iff]
    rintro ⟨h1, h2, _⟩; omega
  | cons c rest ih =>
    intro pre st hinv s
    have hinv' := hstep pre st c hinv
    have ih' := ih (pre ++ [c]) _ hinv' s
    simp only [List.length_append, List.length_singleton, List.append_assoc, List.singleton_append] at ih'
    have hacc' := hacc (pre ++ [c]) _ hinv'
    unfold EndsWith at hacc'
    simp only [List.length_append, List.length_singleton] at hacc'
    have hend : (p.length ≤ pre.length + 1 ∧ (pre ++ [c]).drop (pre.length + 1 - p.length) = p) ↔
        (p.length ≤ pre.length + 1 ∧ OccursAt p (pre ++ c :: rest) (pre.length + 1 - p.length)) := by
      have e : pre ++ c :: rest = (pre ++ [c]) ++ rest := by simp
      constructor
      · rintro ⟨h1, h2⟩
        refine ⟨h1, ?_⟩
        rw [e, occursAt_append_iff _ _ _ _ (by simp; omega)]
        have := (occursAt_end_iff p (pre ++ [c]) (by simp; omega)).mpr (by simpa using h2)
        simpa using this
      · rintro ⟨h1, h2⟩
        refine ⟨h1, ?_⟩
        rw [e, occursAt_append_iff _ _ _ _ (by simp; omega)] at h2
        have := (occursAt_end_iff p (pre ++ [c]) (by simp; omega)).mp (by simpa using h2)
        simpa using this
    simp only [scan]
    split
    · rename_i hpos
      have hocc := hend.mp (hacc'.mp hpos)
      simp only [List.mem_cons, ih']
      constructor
      · rintro (rfl | ⟨h1, h2⟩)
        · exact ⟨by omega, hocc.2⟩
        · exact ⟨by omega, h2⟩
      · rintro ⟨h1, h2⟩
        by_cases hs : s = pre.length + 1 - p.length
        · left; exact hs
        · right
          refine ⟨?_, h2⟩
          have := h2.1
          omega
    · rename_i hpos
      rw [ih']
      constructor
      · rintro ⟨h1, h2⟩; exact ⟨by omega, h2⟩
      · rintro ⟨h1, h2⟩
        refine ⟨?_, h2⟩
        by_cases hs : s + p.length = pre.length + 1
        · exfalso
          apply hpos
          apply hacc'.mpr
          apply hend.mpr
          refine ⟨by omega, ?_⟩
          have : pre.length + 1 - p.length = s := by omega
          rw [this]; exact h2
        · omega

theorem scan_sorted : ∀ (rest pre : List Nat) (st : σ), Inv pre st →
    (scan step acc p.length rest pre.length st).Pairwise (· < ·) := by
  intro rest
  induction rest with
  | nil => intro pre st _; simp [scan]
  | cons c rest ih =>
    intro pre st hinv
    have hinv' := hstep pre st c hinv
    have ih' := ih (pre ++ [c]) _ hinv'
    have hmem := mem_scan step acc p Inv hstep hacc hp rest (pre ++ [c]) _ hinv'
    simp only [List.length_append, List.length_singleton] at ih' hmem
    have hacc' := hacc (pre ++ [c]) _ hinv'
    unfold EndsWith at hacc'
    simp only [List.length_append, List.length_singleton] at hacc'
    simp only [scan]
    split
    · rename_i hpos
      have hle := (hacc'.mp hpos).1
      rw [List.pairwise_cons]
      refine ⟨?_, ih'⟩
      intro s hs
      have := ((hmem s).mp hs).1
      omega
    · exact ih'

/-- a scanner whose accepting states are exactly "the processed text ends with `p`" lists exactly the occurrences -/
theorem scan_eq_occurrences (s0 : σ) (h0 : Inv [] s0) (t : List Nat) :
    scan step acc p.length t 0 s0 = occurrences p t := by
  apply sorted_eq_of_mem_iff _ _ _ (occurrences_sorted p t)
  · intro s
    have := mem_scan step acc p Inv hstep hacc hp t [] s0 h0 s
    simp only [List.length_nil, List.nil_append] at this
    rw [this, mem_occurrences]
    constructor
    · exact fun h => h.2
    · exact fun h => ⟨by omega, h⟩
  · exact scan_sorted step acc p Inv hstep hacc hp t [] s0 h0

end
end RbV.Scan
