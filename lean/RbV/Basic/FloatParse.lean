/-!
Parsing of the floating-point numbers printed by the Rust harness with `{:e}` (shortest round-trip decimal
representation: `-1.2345e-7`, `0e0`, `inf`, `-inf`, `NaN`) into core `Float` (IEEE binary64), and small
comparison helpers shared by the C14 and C15 drivers.  Core Lean only.
`Float.ofScientific` is the function Lean uses for its own float literals (rounds via a 64-bit mantissa:
within one ulp of the printed value, far below every tolerance used by the drivers).
-/
namespace RbV.FloatParse

def inf : Float := 1.0 / 0.0
def negInf : Float := -1.0 / 0.0
def nan : Float := 0.0 / 0.0

def digitsToNat? (cs : List Char) : Option Nat :=
  if cs.isEmpty then none else
  cs.foldl (fun acc c => acc.bind fun n => if '0' ≤ c ∧ c ≤ '9' then some (n * 10 + (c.toNat - '0'.toNat)) else none) (some 0)

def intOfChars? (cs : List Char) : Option Int :=
  match cs with
  | '-' :: r => (digitsToNat? r).map fun n => - (Int.ofNat n)
  | '+' :: r => (digitsToNat? r).map Int.ofNat
  | r => (digitsToNat? r).map Int.ofNat

/-- split at the first occurrence of `c` -/
def splitAt1 (c : Char) (cs : List Char) : List Char × Option (List Char) :=
  match cs.span (· ≠ c) with
  | (a, []) => (a, none)
  | (a, _ :: b) => (a, some b)

def mkFloat (neg : Bool) (m : Nat) (e : Int) : Float :=
  let v := if e < 0 then Float.ofScientific m true e.natAbs else Float.ofScientific m false e.toNat
  if neg then -v else v

def parseFloat (s : String) : Option Float :=
  if s = "inf" then some inf else if s = "-inf" then some negInf else if s = "NaN" || s = "nan" then some nan else
  let cs := s.toList
  let (neg, body) := match cs with
    | '-' :: r => (true, r)
    | r => (false, r)
  let (mant, ex) := splitAt1 'e' body
  let e? : Option Int := match ex with
    | none => some 0
    | some x => intOfChars? x
  match e? with
  | none => none
  | some e =>
    let (ip, fp?) := splitAt1 '.' mant
    let fp := fp?.getD []
    match digitsToNat? (ip ++ fp) with
    | none => none
    | some m => if ip.isEmpty then none else some (mkFloat neg m (e - Int.ofNat fp.length))

def parseFloatList (s : String) (sep : String := ",") : Option (List Float) :=
  if s = "-" then some [] else (s.splitOn sep).mapM parseFloat

def isNegInf (x : Float) : Bool := x.isInf && x < 0.0
def isPosInf (x : Float) : Bool := x.isInf && x > 0.0

def fmax (a b : Float) : Float := if a < b then b else a

/-- `|a - b| ≤ tol · |b|` (b = the exact/reference value) -/
def relClose (a b tol : Float) : Bool := (a - b).abs ≤ tol * b.abs

/-- scientific notation with 12 significant digits (for messages only) -/
def fshow (x : Float) : String :=
  if x.isNaN then "NaN" else if x.isInf then (if x < 0.0 then "-inf" else "inf") else
  if x == 0.0 then "0e0" else
  let a := x.abs
  let e := (Float.log10 a).floor
  let m := a / Float.exp (e * Float.log 10.0)
  -- guard against m slightly outside [1,10)
  let (m, e) := if m ≥ 10.0 then (m / 10.0, e + 1.0) else if m < 1.0 then (m * 10.0, e - 1.0) else (m, e)
  let digits := (m * 1e11).round.toUInt64.toNat
  let ds := toString digits
  let ei : Int := if e < 0.0 then - Int.ofNat ((-e).toUInt64.toNat) else Int.ofNat e.toUInt64.toNat
  (if x < 0.0 then "-" else "") ++ (ds.take 1).toString ++ "." ++ (ds.drop 1).toString ++ "e" ++ toString ei

end RbV.FloatParse
