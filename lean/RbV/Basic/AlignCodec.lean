import RbV.Basic.Codec
import RbV.Ref.Gotoh
/-! Line-protocol pieces shared by the C01 and C02 drivers (scoring tokens, reported alignments). -/
namespace RbV.AlignCodec
open RbV.Codec RbV.Align

/- `MIN_SCORE` is `Align.minScore` = `Gen.Limits.minScorePairwise`, extracted from the source text on every run (the
harness reports the run-time value of the compiled constant in the `const` case, the driver compares). -/

/-- substitution function from an alphabet and a row-major `|A|×|A|` table; 0 outside the alphabet
(the harness refuses sequences with symbols outside the alphabet) -/
def mkW (alpha : List Nat) (tab : Array Int) : Nat → Nat → Int := fun a b =>
  let i := alpha.idxOf a
  let j := alpha.idxOf b
  if i < alpha.length ∧ j < alpha.length then tab.getD (i * alpha.length + j) 0 else 0

/-- a clip penalty: an integer, or `min` = `MIN_SCORE` of the tree under test (`Align.minScore`, source-extracted) -/
def parseClip (s : String) : Option Int := if s = "min" then some minScore else parseInt s

/-- `sc:<go>:<ge>:<xp>:<xs>:<yp>:<ys>` -/
def parseScTok (tok : String) : Option (Int × Int × Clip) :=
  match tok.splitOn ":" with
  | ["sc", go, ge, xp, xs, yp, ys] => do
    let go ← parseInt go; let ge ← parseInt ge
    let xp ← parseClip xp; let xs ← parseClip xs; let yp ← parseClip yp; let ys ← parseClip ys
    pure (go, ge, ⟨xp, xs, yp, ys⟩)
  | _ => none

/-- `w:<alphabet hex>:<|A|² integers>` -/
def parseWTok (tok : String) : Option (List Nat × Array Int) :=
  match tok.splitOn ":" with
  | ["w", a, t] => do
    let alpha ← parseHex a
    let tab ← parseIntList t
    if tab.length = alpha.length * alpha.length ∧ alpha.length > 0 then pure (alpha, tab.toArray) else none
  | _ => none

def digitsVal (cs : List Char) : Nat := cs.foldl (fun n c => n * 10 + (c.toNat - '0'.toNat)) 0

/-- operations: `M S I D`, `X<n>`, `Y<n>`; `-` for the empty list -/
partial def parseOpsChars : List Char → Option (List AOp)
  | [] => some []
  | 'M' :: r => (parseOpsChars r).map (AOp.core .mat :: ·)
  | 'S' :: r => (parseOpsChars r).map (AOp.core .sub :: ·)
  | 'I' :: r => (parseOpsChars r).map (AOp.core .ins :: ·)
  | 'D' :: r => (parseOpsChars r).map (AOp.core .del :: ·)
  | 'X' :: r =>
    let ds := r.takeWhile Char.isDigit
    if ds.isEmpty then none else (parseOpsChars (r.dropWhile Char.isDigit)).map (AOp.xclip (digitsVal ds) :: ·)
  | 'Y' :: r =>
    let ds := r.takeWhile Char.isDigit
    if ds.isEmpty then none else (parseOpsChars (r.dropWhile Char.isDigit)).map (AOp.yclip (digitsVal ds) :: ·)
  | _ => none

def parseOps (s : String) : Option (List AOp) := if s = "-" then some [] else parseOpsChars s.toList

/-- one reported alignment `s:<score>,x:<xs>:<xe>:<xlen>,y:<ys>:<ye>:<ylen>,o:<ops>` followed by extra
`k:v` fields that are returned untouched -/
def parseOut (s : String) : Option (Out × List String) :=
  match s.splitOn "," with
  | sc :: xt :: yt :: ot :: rest =>
    match sc.splitOn ":", xt.splitOn ":", yt.splitOn ":", ot.splitOn ":" with
    | ["s", v], ["x", xs, xe, xl], ["y", ys, ye, yl], ["o", ops] => do
      let v ← parseInt v
      let xs ← parseNat xs; let xe ← parseNat xe; let xl ← parseNat xl
      let ys ← parseNat ys; let ye ← parseNat ye; let yl ← parseNat yl
      let ops ← parseOps ops
      pure (⟨v, xs, xe, ys, ye, xl, yl, ops⟩, rest)
    | _, _, _, _ => none
  | _ => none

/-- clip penalties in force for a mode -/
def modeClip (mode : String) (cl : Clip) : Option (Clip × Bool) :=
  match mode with
  | "custom" => some (cl, false)
  | "global" => some (⟨minScore, minScore, minScore, minScore⟩, false)
  | "semiglobal" => some (⟨minScore, minScore, 0, 0⟩, true)
  | "local" => some (⟨0, 0, 0, 0⟩, true)
  | _ => none

/-- why `acceptValid` fails, for the replay text -/
def whyInvalid (sc : Sc) (cl : Clip) (f : Bool) (x y : List Nat) (o : Out) : String :=
  if ¬ IsAln x y o.toAln then "not-an-alignment-of-the-reported-ranges"
  else if ¬ ClipRule f x y o then "clip-lengths-do-not-add-up"
  else match score sc .none (slice x o.xs o.xe) (slice y o.ys o.ye) (coreOps o.ops) with
    | some c => "recomputed-score:" ++ toString (c + clipPen cl x.length y.length o.xs o.xe o.ys o.ye)
        ++ "-reported:" ++ toString o.score
    | none => "not-an-alignment"

end RbV.AlignCodec
