/-! Strictly ascending lists of naturals are determined by their members (core Lean only). -/
namespace RbV

theorem sorted_eq_of_mem_iff : ∀ (l₁ l₂ : List Nat), l₁.Pairwise (· < ·) → l₂.Pairwise (· < ·) →
    (∀ i, i ∈ l₁ ↔ i ∈ l₂) → l₁ = l₂
  | [], [], _, _, _ => rfl
  | [], b :: l₂, _, _, h => by have := (h b).mpr (by simp); simp at this
  | a :: l₁, [], _, _, h => by have := (h a).mp (by simp); simp at this
  | a :: l₁, b :: l₂, h₁, h₂, h => by
    rw [List.pairwise_cons] at h₁ h₂
    have hab : a = b := by
      have ha := (h a).mp (by simp)
      have hb := (h b).mpr (by simp)
      simp only [List.mem_cons] at ha hb
      rcases ha with ha | ha
      · exact ha
      · rcases hb with hb | hb
        · exact hb.symm
        · have := h₁.1 b hb; have := h₂.1 a ha; omega
    subst hab
    congr 1
    apply sorted_eq_of_mem_iff l₁ l₂ h₁.2 h₂.2
    intro i
    constructor
    · intro hi
      have := (h i).mp (by simp [hi])
      simp only [List.mem_cons] at this
      rcases this with rfl | this
      · have := h₁.1 i hi; omega
      · exact this
    · intro hi
      have := (h i).mpr (by simp [hi])
      simp only [List.mem_cons] at this
      rcases this with rfl | this
      · have := h₂.1 i hi; omega
      · exact this

end RbV
