import RbV.Basic.RsSem
/-!
Semantics of the additional constructs translated by `tools/rs2lean_genhmm.py` (dialect "hmm": the generic HMM algorithms
of `src/stats/hmm/mod.rs`; docs/notes/GEN.md, section "HMM algorithms").  Hand-written, core Lean, trusted like `RsSem.lean`.

* `LogOps P` — `LogProb` read as an **abstract commutative-semiring-like type** `P`: the operations the translated code uses,
  with *no* laws assumed here (the theorems instantiate `P` and get the laws from the instance).  What is *not* modelled is
  exactly the `f64` arithmetic behind these operations (rounding of `+` on logs, the accuracy of `ln_sum_exp` / `fastexp`,
  NaN: `partial_cmp(..).unwrap()` is read as a total comparison) — the subject of property C15.
* `HmmOps P O` — the accessors of `trait Model<O>` as abstract parameters.  Trusted contract: they are pure functions
  (same arguments, same value, no side effect), `states()` yields `State(0), …, State(num_states() - 1)` in this order
  (`StateIter::new(num_states)`), `*s` on a `State` is its index.
* `ndarray::Array2<T>` = list of rows (`List (List T)`), row index first: `Array2::zeros((n, s))` = `n` rows of `s` copies of
  the `Zero::zero()` value, `a[[i, j]]` = `get2` / `set2` (out of bounds panics), `a.index_axis(Axis(0), i)` = `row2`,
  `a.axis_iter(Axis(0))` = the rows in order, `a.len_of(Axis(0))` = number of rows.
* `Iterator::max_by(cmp)` = `maxBy`: `reduce` with "keep the accumulated element only when `cmp acc new` is `Greater`" (so the
  last of several maximal elements wins); `max_by_key(key)` = `maxByKey`: the same on the keys, compared with the `Ord` of the
  key type; `enumerate()` = `enumerate`; `.rev()` = `List.reverse`; `checked_sub` = `checkedSub`.
-/
namespace RbV.Rs

/-- the operations of `LogProb` the HMM code uses, over an abstract carrier `P` of exact values -/
structure LogOps (P : Type) where
  /-- `LogProb::ln_zero()` (probability 0) -/
  zero : P
  /-- `LogProb::ln_one()` (probability 1) -/
  one : P
  /-- `a + b` on `LogProb` (sum of logs = product of probabilities) -/
  mul : P → P → P
  /-- `a.ln_add_exp(b)` (sum of probabilities) -/
  add : P → P → P
  /-- `LogProb::ln_sum_exp(&[..])` (sum of probabilities of a slice) -/
  sum : List P → P
  /-- `a.is_zero()` -/
  isZero : P → Bool
  /-- `a.partial_cmp(&b).unwrap()`, and the `Ord` of `OrderedFloat(*a)` -/
  cmp : P → P → Ordering
  /-- `<LogProb as Zero>::zero()`: the value `Array2::zeros` fills with (every theorem holds for any value) -/
  arrZero : P

/-- the accessors of `trait Model<O>` (`hmm.…`) -/
structure HmmOps (P O : Type) where
  /-- `hmm.num_states()`; `hmm.states()` is `State(0) … State(num_states() - 1)` -/
  numStates : Nat
  /-- `hmm.transition_prob_idx(from, to, to_idx)` -/
  trans : Nat → Nat → Nat → P
  /-- `hmm.transition_prob(from, to)` -/
  transProb : Nat → Nat → P
  /-- `hmm.initial_prob(s)` -/
  init : Nat → P
  /-- `hmm.observation_prob(s, &o)` -/
  emit : Nat → O → P
  /-- `hmm.end_prob(s)` -/
  fin : Nat → P
  /-- `hmm.has_end_state()` -/
  hasEnd : Bool

/-! ### `Array2` -/

/-- `Array2::<T>::zeros((n, s))` -/
def zeros2 {α : Type} (z : α) (n s : Nat) : List (List α) := List.replicate n (List.replicate s z)

/-- `a[[i, j]]` (out of bounds panics) -/
def get2 {α : Type} (a : List (List α)) (i j : Nat) : Res α :=
  match a[i]? with
  | some r => idx r j
  | none => Res.panic

/-- `a[[i, j]] = v` (out of bounds panics) -/
def set2 {α : Type} (a : List (List α)) (i j : Nat) (v : α) : Res (List (List α)) :=
  match a[i]? with
  | some r => if j < r.length then Res.ok (a.set i (r.set j v)) else Res.panic
  | none => Res.panic

/-- `a.index_axis(Axis(0), i)` (out of bounds panics) -/
def row2 {α : Type} (a : List (List α)) (i : Nat) : Res (List α) := idx a i

/-! ### iterator adapters -/

def enumFrom {α : Type} : Nat → List α → List (Nat × α)
  | _, [] => []
  | k, a :: l => (k, a) :: enumFrom (k + 1) l

/-- `it.enumerate()` -/
def enumerate {α : Type} (l : List α) : List (Nat × α) := enumFrom 0 l

/-- `cmp::max_by(acc, new, compare)`: `acc` is kept only when it is `Greater` -/
def maxStep {α : Type} (cmp : α → α → Ordering) (acc new : α) : α :=
  if cmp acc new = .gt then acc else new

/-- `it.max_by(compare)` = `it.reduce(|x, y| cmp::max_by(x, y, compare))` -/
def maxBy {α : Type} (cmp : α → α → Ordering) : List α → Option α
  | [] => none
  | a :: l => some (l.foldl (maxStep cmp) a)

/-- `it.max_by_key(key)`: `max_by` on the keys (`kcmp` = the `Ord` of the key type) -/
def maxByKey {α κ : Type} (kcmp : κ → κ → Ordering) (key : α → κ) (l : List α) : Option α :=
  maxBy (fun x y => kcmp (key x) (key y)) l

/-- `a.checked_sub(b)` -/
def checkedSub (a b : Nat) : Option Nat := if b ≤ a then some (a - b) else none

end RbV.Rs
