import RbV.Basic.RsSem
import RbV.Basic.RsSemInt
import RbV.Basic.RsSemBits
import RbV.Basic.RsSemGensparse
/-!
Semantics of the additional Rust constructs used by the translated bodies of the pairwise aligner
(`tools/rs2lean_genalign.py`, dialect "align", builder genalign; docs/notes/GEN.md).  Hand-written, core Lean only; part of
the trusted meaning of the translated subset, like `RsSem.lean`.

* `i32` values are Lean `Int`s kept inside `[-2^31, 2^31)` by construction: `+` is `Rs.iadd 32` (`RsSemInt.lean`), `*` is
  `Rs.imul 32` (leaving the range panics: the harness is built with overflow checks), `i as i32` from `usize` is
  `Rs.castSigned 32` (`RsSemGensparse.lean`: truncate to 32 bits, read as two's complement — never a panic).
* `v.extend(repeat(x).take(n))` is `Rs.extendRepeat`.
* The types of the external crate `bio-types` (`bio_types::alignment`, re-exported by `bio::alignment`) that
  `Aligner::custom` builds: `AlignmentOperation`, `AlignmentMode`, `Alignment` — **trusted reading of the declarations of
  bio-types 1.0.4** (field names and order as declared there) — and `Alignment::filter_clip_operations`
  (`self.operations.retain(|x| *x == Match || *x == Subst || *x == Ins || *x == Del)`).
-/
namespace RbV.Rs
open Res

/-- `a * b` on a `w`-bit signed type (leaving the range panics) -/
def imul (w : Nat) (a b : Int) : Res Int := if InS w (a * b) then ok (a * b) else panic

theorem imul_ok {w : Nat} {a b : Int} (h : InS w (a * b)) : imul w a b = ok (a * b) := by
  unfold imul; rw [if_pos h]

/-- `v.extend(repeat(x).take(n))` -/
def extendRepeat {α : Type} (l : List α) (x : α) (n : Nat) : List α := l ++ List.replicate n x

/-- `bio_types::alignment::AlignmentOperation` -/
inductive AlignmentOperation where
  | Match | Subst | Del | Ins
  | Xclip (n : Nat)
  | Yclip (n : Nat)
deriving DecidableEq, Repr, Inhabited

/-- `bio_types::alignment::AlignmentMode` -/
inductive AlignmentMode where
  | Local | Semiglobal | Global | Custom
deriving DecidableEq, Repr, Inhabited

/-- `bio_types::alignment::Alignment` (fields in declaration order) -/
structure Alignment where
  score : Int
  ystart : Nat
  xstart : Nat
  yend : Nat
  xend : Nat
  ylen : Nat
  xlen : Nat
  operations : List AlignmentOperation
  mode : AlignmentMode
deriving DecidableEq, Repr, Inhabited

/-- the predicate of `filter_clip_operations`: `*x == Match || *x == Subst || *x == Ins || *x == Del` -/
def AlignmentOperation.isCore : AlignmentOperation → Bool
  | .Match | .Subst | .Ins | .Del => true
  | _ => false

/-- `Alignment::filter_clip_operations` -/
def Alignment.filterClipOperations (a : Alignment) : Alignment :=
  { a with operations := a.operations.filter AlignmentOperation.isCore }

end RbV.Rs
