import RbV.Basic.RsSem
/-!
Semantics of the additional Rust constructs used by the translated bodies of the Myers matchers
(`tools/rs2lean_pm.py`, builder genukk; docs/notes/GEN.md): generic unsigned word types (`T: BitVec` read as `Nat` below
`2^w`, the width `w` a parameter), `num_traits` conversions, and the few *signed* operations of the `dist` update
(`(cond) as i8 - (cond) as i8`, `diff as usize`).  Signed values are two's-complement **bit patterns** (`Nat` below
`2^w`), their meaning is `toInt`.  Hand-written, core Lean only; part of the trusted meaning of the translated subset,
like `RsSem.lean`.
-/
namespace RbV.Rs
open Res

/-- `T::max_value()` of an unsigned `w`-bit type -/
def maxVal (w : Nat) : Nat := 2 ^ w - 1

/-- `cond as i8` / `cond as u8` …: `true` is 1, `false` is 0 -/
def ofBool (b : Bool) : Nat := if b then 1 else 0

/-- the value of a `w`-bit two's-complement bit pattern -/
def toInt (w a : Nat) : Int := if a < 2 ^ (w - 1) then (a : Int) else (a : Int) - 2 ^ w

/-- the `w`-bit two's-complement bit pattern of an integer -/
def ofInt (w : Nat) (z : Int) : Nat := (z % 2 ^ w).toNat

/-- checked `a - b` on a signed `w`-bit type (overflow panics) -/
def subI (w a b : Nat) : Res Nat :=
  if -(2 ^ (w - 1) : Int) ≤ toInt w a - toInt w b ∧ toInt w a - toInt w b < 2 ^ (w - 1) then ok (ofInt w (toInt w a - toInt w b))
  else panic

/-- checked `a + b` on a signed `w`-bit type (overflow panics) -/
def addI (w a b : Nat) : Res Nat :=
  if -(2 ^ (w - 1) : Int) ≤ toInt w a + toInt w b ∧ toInt w a + toInt w b < 2 ^ (w - 1) then ok (ofInt w (toInt w a + toInt w b))
  else panic

/-- `x as uN` / `x as iN` from a narrower signed type: sign extension of the bit pattern from `w1` to `w2` bits -/
def sext (w1 w2 a : Nat) : Nat := ofInt w2 (toInt w1 a)

/-- `x.to_usize().unwrap()`, `D::from_usize(x).unwrap()` (num_traits) between unsigned types: the value itself when it
fits the `w`-bit target, otherwise the conversion returns `None` and `unwrap` panics -/
def cvt (w a : Nat) : Res Nat := if a < 2 ^ w then ok a else panic

/-- `a.saturating_add(b)` on an unsigned `w`-bit type -/
def saturatingAdd (w a b : Nat) : Nat := min (a + b) (2 ^ w - 1)

theorem cvt_ok {w a : Nat} (h : a < 2 ^ w) : cvt w a = ok a := by simp [cvt, h]

@[simp] theorem ofBool_true : ofBool true = 1 := rfl
@[simp] theorem ofBool_false : ofBool false = 0 := rfl

/-- the three values of `(p as i8) - (q as i8)` and their sign extension to 64 bits -/
theorem subI8_ofBool (p q : Bool) :
    subI 8 (ofBool p) (ofBool q) = ok (if p then (if q then 0 else 1) else (if q then 255 else 0)) := by
  cases p <;> cases q <;> decide

theorem sext_8_64_zero : sext 8 64 0 = 0 := by decide
theorem sext_8_64_one : sext 8 64 1 = 1 := by decide
theorem sext_8_64_neg_one : sext 8 64 255 = 2 ^ 64 - 1 := by decide

end RbV.Rs
