import RbV.Basic.RsSem
/-!
Semantics of the additional Rust constructs used by the translated bodies of the bit-packed containers
(`tools/rs2lean.py`, section "genbits extensions"; docs/notes/GEN.md): iterator adaptor `step_by`, `Vec::resize`,
`BTreeMap` as far as `insert` / `get` are concerned, `count_ones` / `count_zeros`, `Option::unwrap`.
Hand-written, core Lean only; part of the trusted meaning of the translated subset, like `RsSem.lean`.
-/
namespace RbV.Rs
open Res

/-- `iter.step_by(k)` on an iterator yielding `l`: the items at positions `0, k, 2k, …` (`k = 0` panics) -/
def stepByIdx {α : Type} (l : List α) (k : Nat) : Res (List α) :=
  if k = 0 then panic else ok ((List.range ((l.length + k - 1) / k)).filterMap (fun j => l[j * k]?))

/-- `v.resize(n, x)` -/
def resize {α : Type} (l : List α) (n : Nat) (x : α) : List α := l.take n ++ List.replicate (n - l.length) x

/-- `BTreeMap<K, V>` observed through `insert` and `get` only: an association list, newest binding first
(`insert` replaces the value of an existing key: `mapGet` returns the first binding) -/
def mapInsert {κ ν : Type} (m : List (κ × ν)) (k : κ) (v : ν) : List (κ × ν) := (k, v) :: m

/-- `m.get(&k).cloned()` -/
def mapGet {κ ν : Type} [DecidableEq κ] : List (κ × ν) → κ → Option ν
  | [], _ => none
  | (k', v) :: r, k => if k' = k then some v else mapGet r k

/-- `a.count_ones()` for an unsigned integer of at most 64 bits -/
def countOnes (a : Nat) : Nat := ((List.range 64).filter (fun i => a.testBit i)).length

/-- `a.count_zeros()` on a `w`-bit unsigned integer -/
def countZeros (w a : Nat) : Nat := w - countOnes a

/-- `o.unwrap()` (`None` panics) -/
def unwrap {α : Type} (o : Option α) : Res α :=
  match o with
  | some a => ok a
  | none => panic

theorem stepByIdx_ok {α : Type} {l : List α} {k : Nat} (h : 0 < k) :
    stepByIdx l k = ok ((List.range ((l.length + k - 1) / k)).filterMap (fun j => l[j * k]?)) := by
  have : k ≠ 0 := by omega
  simp [stepByIdx, this]

@[simp] theorem unwrap_some {α : Type} (a : α) : unwrap (some a) = ok a := rfl
@[simp] theorem unwrap_none {α : Type} : unwrap (none : Option α) = panic := rfl

end RbV.Rs
