import RbV.Basic.RsSem
/-!
Semantics of the signed-integer part of the Rust subset translated by `tools/rs2lean_fm.py`, dialect "fmd"
(docs/notes/GEN.md, "Dialect fmd").  Hand-written, core Lean, trusted like `RsSem.lean`.

A value of a signed Rust type (`isize` = 64 bit) is a Lean `Int` kept inside `[-2^(w-1), 2^(w-1))` by construction:
`toSigned w x` is `x as iW` from the unsigned type of the same width (two's complement: values `≥ 2^(w-1)` become
negative), `ofSigned w k` is `k as uW` (negative values wrap to `2^w + k`), `iadd` / `isub` are the checked `+` / `-`
(leaving the range panics), comparisons are those of `Int`, `irange lo hi` are the items of the range `lo..hi`.
-/
namespace RbV.Rs
open Res

/-- `x as iW` from the `w`-bit unsigned type -/
def toSigned (w x : Nat) : Int := if x < 2 ^ (w - 1) then (x : Int) else (x : Int) - ((2 ^ w : Nat) : Int)
/-- `k as uW` from the `w`-bit signed type -/
def ofSigned (w : Nat) (k : Int) : Nat := (k % ((2 ^ w : Nat) : Int)).toNat
/-- `k` lies in the range of the `w`-bit signed type -/
def InS (w : Nat) (k : Int) : Prop := -((2 ^ (w - 1) : Nat) : Int) ≤ k ∧ k < ((2 ^ (w - 1) : Nat) : Int)
instance (w : Nat) (k : Int) : Decidable (InS w k) := by unfold InS; infer_instance
/-- `a + b` on a `w`-bit signed type (leaving the range panics) -/
def iadd (w : Nat) (a b : Int) : Res Int := if InS w (a + b) then ok (a + b) else panic
/-- `a - b` on a `w`-bit signed type (leaving the range panics) -/
def isub (w : Nat) (a b : Int) : Res Int := if InS w (a - b) then ok (a - b) else panic
/-- the items of `lo..hi` on a signed type -/
def irange (lo hi : Int) : List Int := (List.range (hi - lo).toNat).map (fun (i : Nat) => lo + (i : Int))

theorem toSigned_of_lt {w x : Nat} (h : x < 2 ^ (w - 1)) : toSigned w x = (x : Int) := by simp [toSigned, h]

theorem ofSigned_natCast {w x : Nat} (h : x < 2 ^ w) : ofSigned w (x : Int) = x := by
  unfold ofSigned
  rw [Int.emod_eq_of_lt (by omega) (by omega)]
  omega

theorem iadd_ok {w : Nat} {a b : Int} (h : InS w (a + b)) : iadd w a b = ok (a + b) := by
  unfold iadd; rw [if_pos h]

theorem isub_ok {w : Nat} {a b : Int} (h : InS w (a - b)) : isub w a b = ok (a - b) := by
  unfold isub; rw [if_pos h]

/-- `(-1..n).rev()` from `n` downwards: `n-1, …, 0, -1` (`n + 1` items) -/
def downToM1 : Nat → List Int
  | 0 => [-1]
  | n + 1 => (n : Int) :: downToM1 n

theorem irange_m1_succ (n : Nat) : irange (-1) ((n + 1 : Nat) : Int) = irange (-1) (n : Int) ++ [(n : Int)] := by
  unfold irange
  have e1 : (((n + 1 : Nat) : Int) - -1).toNat = n + 2 := by omega
  have e2 : ((n : Int) - -1).toNat = n + 1 := by omega
  rw [e1, e2, List.range_succ, List.map_append]
  simp only [List.map_cons, List.map_nil, List.append_cancel_left_eq, List.cons.injEq, and_true]
  omega

theorem irange_m1_rev (n : Nat) : (irange (-1) (n : Int)).reverse = downToM1 n := by
  induction n with
  | zero => rfl
  | succ n ih => rw [irange_m1_succ, List.reverse_append, ih]; rfl

end RbV.Rs
