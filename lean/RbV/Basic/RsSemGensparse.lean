import RbV.Basic.RsSem
import RbV.Basic.RsSemInt
import RbV.Basic.RsSemBits
/-!
Semantics of the part of the Rust subset added by `tools/rs2lean_gensparse.py` (dialect "sp": `alignment/sparse.rs`;
docs/notes/GEN.md, "Dialect sp").  Hand-written, core Lean, trusted like `RsSem.lean`.

* **derived `Ord`** on tuples and on structs with `#[derive(Ord)]` (= tuples in field order): lexicographic, from the order
  of the components (`ROrd`); `std::cmp::max(a, b)` returns `b` unless `a > b`, `min(a, b)` returns `a` unless `a > b`.
* **`slice::sort_unstable()`** and **`slice::binary_search(&key)`** are *not* given a definition: a translated function takes
  them as parameters and the theorems assume the contracts of std stated here (`SortOk`: a sorted permutation with respect
  to the derived order of the element type — so the *key* the code sorts by is the element tuple the translated text builds;
  `BSearchOk`: on a strictly ascending slice `Ok(i)` names a position holding the key, `Err(_)` says that the key is absent).
* (`Vec::resize` is `Rs.resize` of `RsSemBits.lean`), checked negation on signed integers, narrowing casts to signed integers.
* **`std::collections::HashMap`** as far as `sparse.rs` uses it (`entry(k).or_default().push(v)`, `get(k)`, `match m.entry(k) { Vacant(v) => v.insert(x), Occupied(o) => … o.get_mut() … }`): a finite map
  represented by an association list with at most one entry per key; the iteration order is never observed by the translated
  functions.  Laws: `HMap.get_entryPush`.
-/
namespace RbV.Rs
open Res

/-- the derived total order of a Rust type: `le a b` ⇔ `a <= b` -/
class ROrd (α : Type) where
  le : α → α → Bool

instance : ROrd Nat := ⟨fun a b => decide (a ≤ b)⟩
instance : ROrd Int := ⟨fun a b => decide (a ≤ b)⟩
instance : ROrd Bool := ⟨fun a b => !a || b⟩
/-- lexicographic: `a <= b` ⇔ `a.0 < b.0 || (a.0 == b.0 && a.1 <= b.1)` (for total orders on the components) -/
instance {α β : Type} [ROrd α] [ROrd β] : ROrd (α × β) :=
  ⟨fun a b => !(ROrd.le b.1 a.1) || (ROrd.le a.1 b.1 && ROrd.le a.2 b.2)⟩

/-- `a <= b` -/
def ole {α : Type} [ROrd α] (a b : α) : Bool := ROrd.le a b
/-- `a < b` -/
def olt {α : Type} [ROrd α] (a b : α) : Bool := !(ROrd.le b a)
/-- `std::cmp::max(a, b)` -/
def omax {α : Type} [ROrd α] (a b : α) : α := if ROrd.le a b then b else a
/-- `std::cmp::min(a, b)` -/
def omin {α : Type} [ROrd α] (a b : α) : α := if ROrd.le a b then a else b

/-- contract of `v.sort_unstable()` (std): the result is a permutation of the input and ascending in the derived order -/
def SortOk {α : Type} [ROrd α] (sortF : List α → List α) : Prop :=
  ∀ l, (sortF l).Perm l ∧ (sortF l).Pairwise (fun a b => ROrd.le a b = true)

/-- contract of `s.binary_search(&key)` (std) on a strictly ascending slice, as far as the translated functions rely on it:
`Ok(i)` ⇒ `s[i] == key`; `Err(_)` ⇒ the key does not occur (nothing is assumed about the insertion point an `Err` carries:
the translated text must not use it) -/
def BSearchOk {α : Type} [ROrd α] (bs : List α → α → Except Nat Nat) : Prop :=
  ∀ l key, l.Pairwise (fun a b => olt a b = true) →
    (∀ i, bs l key = .ok i → l[i]? = some key) ∧ (∀ i, bs l key = .error i → key ∉ l)

/-- `-a` on a `w`-bit signed type (`-MIN` panics) -/
def ineg (w : Nat) (a : Int) : Res Int := if InS w (-a) then ok (-a) else panic
theorem ineg_ok {w : Nat} {a : Int} (h : InS w (-a)) : ineg w a = ok (-a) := by unfold ineg; rw [if_pos h]

/-- `a.saturating_sub(b)` on an unsigned type -/
def satSub (a b : Nat) : Nat := a - b

/-- `x as iW` from an unsigned type at least as wide: truncation, then two's complement -/
def castSigned (w x : Nat) : Int := toSigned w (x % 2 ^ w)
theorem castSigned_of_lt {w x : Nat} (h : x < 2 ^ (w - 1)) : castSigned w x = (x : Int) := by
  unfold castSigned
  have h2 : 2 ^ (w - 1) ≤ 2 ^ w := Nat.pow_le_pow_right (by omega) (by omega)
  rw [Nat.mod_eq_of_lt (by omega), toSigned_of_lt h]
/-- `k as uV` from a signed type (sign extension, then truncation to `v` bits) -/
def castUnsigned (v : Nat) (k : Int) : Nat := (k % ((2 ^ v : Nat) : Int)).toNat
theorem castUnsigned_natCast {v x : Nat} (h : x < 2 ^ v) : castUnsigned v (x : Int) = x := ofSigned_natCast h

/-! ### `HashMap` (only `entry(k).or_default().push(v)` and `get(k)`) -/

abbrev HMap (κ ν : Type) := List (κ × ν)
namespace HMap
variable {κ ν : Type} [DecidableEq κ]
/-- `HashMap::default()` -/
def empty : HMap κ ν := []
/-- `m.get(k)` -/
def get : HMap κ ν → κ → Option ν
  | [], _ => none
  | (k', v) :: r, k => if k' = k then some v else get r k
/-- `m.entry(k).or_default().push(x)` for a map into vectors -/
def entryPush : HMap κ (List ν) → κ → ν → HMap κ (List ν)
  | [], k, x => [(k, [x])]
  | (k', v) :: r, k, x => if k' = k then (k', v ++ [x]) :: r else (k', v) :: entryPush r k x

/-- `Entry::Vacant(v) => v.insert(x)`: a new key (the caller has seen `get m k = none`) -/
def insertNew (m : HMap κ ν) (k : κ) (x : ν) : HMap κ ν := m ++ [(k, x)]
/-- `Entry::Occupied(o) => *o.get_mut() = x`: the value of an existing key is replaced in place -/
def update (m : HMap κ ν) (k : κ) (x : ν) : HMap κ ν := m.map (fun e => if e.1 = k then (e.1, x) else e)

theorem get_entryPush (m : HMap κ (List ν)) (k k' : κ) (x : ν) :
    get (entryPush m k x) k' = if k' = k then some ((get m k).getD [] ++ [x]) else get m k' := by
  induction m with
  | nil =>
    by_cases h : k' = k
    · subst h; simp [entryPush, get]
    · have h' : ¬ k = k' := fun e => h e.symm
      simp [entryPush, get, h, h']
  | cons p r ih =>
    obtain ⟨a, v⟩ := p
    by_cases ha : a = k
    · subst ha
      by_cases h : k' = a
      · subst h; simp [entryPush, get]
      · have h' : ¬ a = k' := fun e => h e.symm
        simp [entryPush, get, h, h']
    · by_cases h : k' = k
      · subst h
        simp [entryPush, get, ha, ih]
      · by_cases h2 : a = k'
        · simp [entryPush, get, h2, h]
        · simp [entryPush, get, ha, h2, ih, h]
end HMap

end RbV.Rs
