import RbV.Basic.RsSem
import RbV.Basic.RsSemInt
/-!
Semantics of the part of the Rust subset added by `tools/rs2lean_gensa.py` (dialect "gensa", builder gensa: the
suffix-array construction of `src/data_structures/suffix_array.rs`, property C03; docs/notes/GEN.md, "Dialect gensa").
Hand-written, core Lean, trusted like `RsSem.lean`.
-/
namespace RbV.Rs
open Res

/-- `v.resize(n, x)`: truncate to `n` or fill up with copies of `x` -/
def resizeV {α : Type} (l : List α) (n : Nat) (x : α) : List α := l.take n ++ List.replicate (n - l.length) x

theorem resizeV_nil {α : Type} (n : Nat) (x : α) : resizeV ([] : List α) n x = List.replicate n x := by
  simp [resizeV]

/-! ### `vec_map::VecMap<usize>` beyond `get` / `insert` (RsSem.lean): `contains_key`, `*get_mut(k).unwrap() += d`, `values()` -/
namespace VecMap

/-- `m.contains_key(k)` -/
def containsKey (m : VecMap) (k : Nat) : Bool := (get m k).isSome

/-- `*m.get_mut(k).unwrap() += d` on a `w`-bit unsigned value: a missing key panics (`unwrap`), so does an overflow -/
def addAt (w : Nat) (m : VecMap) (k d : Nat) : Res VecMap :=
  match get m k with
  | none => panic
  | some v => if v + d < 2 ^ w then ok (insert m k (v + d)) else panic

/-- 1 + the largest key (0 for the empty map) -/
def keyBound (m : VecMap) : Nat := (m : List (Nat × Nat)).foldl (fun b p => max b (p.1 + 1)) 0

/-- `m.values()`: the values in **ascending key order** (a `VecMap` is a vector of optional slots indexed by key) -/
def values (m : VecMap) : List Nat := (List.range (keyBound m)).filterMap (get m)

theorem get_empty (k : Nat) : get empty k = none := rfl

theorem foldl_bound_ge (l : List (Nat × Nat)) (b : Nat) : b ≤ l.foldl (fun b p => max b (p.1 + 1)) b := by
  induction l generalizing b with
  | nil => exact Nat.le_refl _
  | cons a l ih => simp only [List.foldl_cons]; have := ih (max b (a.1 + 1)); omega

theorem foldl_bound_mem (l : List (Nat × Nat)) (b : Nat) (p : Nat × Nat) (hp : p ∈ l) :
    p.1 < l.foldl (fun b p => max b (p.1 + 1)) b := by
  induction l generalizing b with
  | nil => simp at hp
  | cons a l ih =>
    simp only [List.foldl_cons]
    rcases List.mem_cons.mp hp with rfl | h
    · have := foldl_bound_ge l (max b (p.1 + 1)); omega
    · exact ih _ h

/-- a key that is present lies below `keyBound` -/
theorem get_none_of_ge (m : VecMap) (k : Nat) (h : keyBound m ≤ k) : get m k = none := by
  unfold get
  cases hl : List.lookup k m with
  | none => rfl
  | some v =>
    have hm : (k, v) ∈ (m : List (Nat × Nat)) := by
      clear h
      induction (m : List (Nat × Nat)) with
      | nil => simp [List.lookup] at hl
      | cons a l ih =>
        obtain ⟨a1, a2⟩ := a
        simp only [List.lookup] at hl
        split at hl
        · rename_i heq
          have : k = a1 := by simpa using heq
          simp only [Option.some.injEq] at hl
          subst this; subst hl; simp
        · exact List.mem_cons_of_mem _ (ih hl)
    have := foldl_bound_mem m 0 (k, v) hm
    unfold keyBound at h
    simp only [] at this
    omega

theorem filterMap_range_stable (f : Nat → Option Nat) (a : Nat) : ∀ (d : Nat), (∀ k, a ≤ k → k < a + d → f k = none) →
    (List.range (a + d)).filterMap f = (List.range a).filterMap f := by
  intro d
  induction d with
  | zero => intro _; rfl
  | succ d ih =>
    intro h
    have e : a + (d + 1) = (a + d) + 1 := by omega
    rw [e, List.range_succ, List.filterMap_append, ih (fun k h1 h2 => h k h1 (by omega))]
    simp [h (a + d) (by omega) (by omega)]

/-- `values()` = the present entries of the slots `0 … B−1`, for every `B` beyond which no key is present -/
theorem values_eq (m : VecMap) (B : Nat) (h : ∀ k, B ≤ k → get m k = none) :
    values m = (List.range B).filterMap (get m) := by
  unfold values
  by_cases hb : keyBound m ≤ B
  · have := filterMap_range_stable (get m) (keyBound m) (B - keyBound m) (fun k h1 _ => get_none_of_ge m k h1)
    rw [← this]; congr 2; omega
  · have := filterMap_range_stable (get m) B (keyBound m - B) (fun k h1 _ => h k h1)
    rw [← this]; congr 2; omega

end VecMap

end RbV.Rs
