import RbV.Basic.RsSem
import RbV.Basic.RsSemInt
/-!
Semantics of the part of the Rust subset added by `tools/rs2lean_gensa.py` (dialect "gensa", builder gensa: the
suffix-array construction of `src/data_structures/suffix_array.rs`, property C03; docs/notes/GEN.md, "Dialect gensa").
Hand-written, core Lean, trusted like `RsSem.lean`.
-/
namespace RbV.Rs
open Res

end RbV.Rs
