import RbV.Basic.RsSemGenleft
/-! Semantics added by builder gengff for the units of `tools/rs2lean_gengff.py` (dialect "gff": the BED and GFF/GTF writers and
the BED record accessors, C13; docs/notes/GEN.md, section "gengff").  Hand-written, core Lean, trusted like `RsSem.lean`.

Strings are lists of UTF-8 bytes.  A `MultiMap<String, String>` is the list of its key groups `(key, values)` in the order in
which the map iterates (arbitrary; theorems quantify over it). -/
namespace RbV.Rs

/-- `Display` of a `char` with code point `c` (`c.to_string()`, `{}`): its UTF-8 encoding -/
def charStr (c : Nat) : List Nat :=
  if c < 128 then [c]
  else if c < 2048 then [192 + c / 64, 128 + c % 64]
  else if c < 65536 then [224 + c / 4096, 128 + c / 64 % 64, 128 + c % 64]
  else [240 + c / 262144, 128 + c / 4096 % 64, 128 + c / 64 % 64, 128 + c % 64]

/-- `items.join(sep)` (itertools `Itertools::join` on an iterator of strings, `[String]::join`): the items with `sep`
between consecutive ones; no item gives the empty string -/
def joinStr (sep : List Nat) : List (List Nat) → List Nat
  | [] => []
  | [p] => p
  | p :: q :: r => p ++ sep ++ joinStr sep (q :: r)

/-- the flat list of fields serde hands to `csv::Writer::serialize` for a tuple: every component contributes its fields (a
string or number one field, a sequence its elements) -/
def csvFields (components : List (List (List Nat))) : List (List Nat) := components.flatten

/-- `impl Serialize for Phase`: `Some(p) => serialize_u8(p)`, `None => serialize_str(".")` -/
def serPhase (dec : Nat → List Nat) : Option Nat → List Nat
  | some p => dec p
  | none => [46]

/-- `bio_types::strand::Strand` -/
inductive Strand where
  | Forward
  | Reverse
  | Unknown
  deriving Repr, DecidableEq

/-- `String::from_utf8(vec![b])`: a single byte is valid UTF-8 exactly when it is ASCII -/
def fromUtf8One (b : Nat) : Option (List Nat) := if b < 128 then some [b] else none

/-- an optional leading `+` removed -/
def stripPlus (s : List Nat) : List Nat := if s.head? = some 43 then s.tail else s

/-- `u8::from_str(s)` (`core::num`, radix 10) with the error erased: an optional `+`, then at least one ASCII digit, no other
character, value at most 255 (leading zeros are accepted) -/
def parseU8 (s : List Nat) : Except Unit Nat :=
  let ds := stripPlus s
  if ds.isEmpty || !ds.all (fun c => decide (48 ≤ c) && decide (c ≤ 57)) then .error ()
  else if ds.foldl (fun a c => a * 10 + (c - 48)) 0 < 256 then .ok (ds.foldl (fun a c => a * 10 + (c - 48)) 0) else .error ()

/-- `s.trim_matches(c)` for an ASCII `char` literal `c`: every leading and trailing occurrence removed -/
def trimByte (c : Nat) (s : List Nat) : List Nat :=
  ((s.dropWhile (· == c)).reverse.dropWhile (· == c)).reverse

/-- split at every occurrence of the byte `c`; always at least one piece -/
def splitByte (c : Nat) : List Nat → List (List Nat)
  | [] => [[]]
  | x :: r =>
    if x = c then [] :: splitByte c r
    else match splitByte c r with
      | [] => [[x]]
      | p :: ps => (x :: p) :: ps

/-- split at every occurrence of the non-empty byte string `p` (leftmost, non-overlapping); fuel = length + 1 -/
def splitSubF (p : List Nat) : Nat → List Nat → List Nat → List (List Nat)
  | 0, cur, _ => [cur]
  | _ + 1, cur, [] => [cur]
  | f + 1, cur, x :: r =>
    if p.isPrefixOf (x :: r) then cur :: splitSubF p f [] ((x :: r).drop p.length)
    else splitSubF p f (cur ++ [x]) r

/-- `s.split(c)` for a `char` `c` on a (valid UTF-8) string, collected: an ASCII char is one byte; any other char is found as its
UTF-8 encoding (UTF-8 is self-synchronising) -/
def splitChar (c : Nat) (s : List Nat) : List (List Nat) :=
  if c < 128 then splitByte c s else splitSubF (charStr c) (s.length + 1) [] s

theorem charStr_ascii (c : Nat) (h : c < 128) : charStr c = [c] := by
  simp [charStr, h]

end RbV.Rs
