import RbV.Basic.RsSem
import RbV.Basic.RsSemInt
import RbV.Basic.RsSemBits
import RbV.Basic.RsSemGensparse
import RbV.Basic.RsSemGenalign
/-!
Semantics of the part of the Rust subset added by `tools/rs2lean_genband.py` (dialect "band": the band construction and the
glue of `alignment/pairwise/banded.rs`; docs/notes/GEN.md, "Dialect band").  Hand-written, core Lean, trusted like `RsSem.lean`.

* `match a.cmp(&b) { Ordering::Greater => g, Ordering::Less => l, Ordering::Equal => e }` on unsigned integers with pure arms
  is `cmp3 a b g l e` (the translator puts the arms into this order whatever their order in the text).
* everything else the dialect emits is defined in `RsSem.lean` (`Rs.idx`, `Rs.setIdx`, checked `add`/`sub`/`mul`/`div`,
  `Rs.cast`, `Rs.assert`, `Rs.expect`), `RsSemInt.lean` (`Rs.iadd`), `RsSemBits.lean` (`Rs.resize`), `RsSemGensparse.lean`
  (`Rs.satSub`, `Rs.castUnsigned`), `RsSemGenalign.lean` (`Rs.imul`; `Rs.AlignmentOperation`, `Rs.AlignmentMode`: the trusted
  reading of the two enums of the external crate bio-types, shared with dialect "align").
-/
namespace RbV.Rs

/-- `match a.cmp(&b) { Greater => gt, Less => lt, Equal => eq }` -/
def cmp3 {α : Type} (a b : Nat) (gt lt eq : α) : α := if a > b then gt else if a < b then lt else eq

theorem cmp3_gt {α : Type} {a b : Nat} (h : a > b) (g l e : α) : cmp3 a b g l e = g := by simp [cmp3, h]
theorem cmp3_lt {α : Type} {a b : Nat} (h : a < b) (g l e : α) : cmp3 a b g l e = l := by
  have : ¬ a > b := by omega
  simp [cmp3, h, this]
theorem cmp3_eq {α : Type} (a : Nat) (g l e : α) : cmp3 a a g l e = e := by simp [cmp3]

end RbV.Rs
