import RbV.Basic.RsSem
import RbV.Basic.RsSemInt
/-!
Semantics additions for the dialect "avl" of the Rust→Lean translator (`tools/rs2lean_genavl.py`, builder genavl;
docs/notes/GEN.md, "Dialect avl: recursive structures").  Hand-written, core Lean, trusted like `RsSem.lean`.

* a Rust `struct` of the translation unit is a Lean `structure` generated from its declaration; `Box<T>` is `T`,
  `&T` / `&mut T` are `T` (a `&mut` that is written through is re-bound and written back to the place it borrows),
  `Option<Box<Node>>` is `Option Node`, `Vec<T>` is `List T` with the *last* element on top;
* `i64` values are `Int`s kept inside `[-2^63, 2^63)` by the checked operations `Rs.iadd 64` / `Rs.isub 64`
  (`RsSemInt.lean`) and `Rs.iabs 64` below;
* a recursive method (`Node::insert` calls itself on a child) is a function by recursion on an explicit fuel argument;
  running out of fuel is `Res.fuel`, so an equality theorem `… = Res.ok v` contains the fuel obligation.
-/
namespace RbV.Rs
open Res

/-- `x.abs()` on a `w`-bit signed type (`MIN.abs()` overflows: panic) -/
def iabs (w : Nat) (a : Int) : Res Int := if InS w (if a < 0 then -a else a) then ok (if a < 0 then -a else a) else panic

theorem iabs_ok {w : Nat} {a : Int} (h : InS w (if a < 0 then -a else a)) :
    iabs w a = ok (if a < 0 then -a else a) := by
  unfold iabs; rw [if_pos h]

/-- `v.pop()`: the last element (if any) and the vector without it -/
def vecPop {α : Type} (l : List α) : Option α × List α := (l.getLast?, l.dropLast)

@[simp] theorem vecPop_nil {α : Type} : vecPop ([] : List α) = (none, []) := rfl

@[simp] theorem vecPop_concat {α : Type} (l : List α) (a : α) : vecPop (l ++ [a]) = (some a, l) := by
  simp [vecPop]

/-- all items of an iterator whose translated `next` returns `(item, new state)`: `next` is called until it returns
`None` (the first argument only bounds the number of calls; `Res.fuel` when it does not suffice) -/
def collect {σ α : Type} (next : σ → Res (Option α × σ)) : Nat → σ → Res (List α)
  | 0, _ => Res.fuel
  | n + 1, s => do
    let (r, s') ← next s
    match r with
    | none => pure []
    | some a => do
      let rest ← collect next n s'
      pure (a :: rest)

/-- the value of a run that finished normally (for `decide`-checked examples on types without decidable equality) -/
def Res.toOption {α : Type} : Res α → Option α
  | .ok a => some a
  | _ => none

@[simp] theorem Res.toOption_ok {α : Type} (a : α) : (Res.ok a).toOption = some a := rfl

end RbV.Rs
