import RbV.Basic.RsSem
import RbV.Basic.RsSemIo
/-!
Semantics additions for the dialect "fx" of `tools/rs2lean_genfx.py` (builder genfx; docs/notes/GEN.md, "Dialect fx"):
the line-oriented text readers / writers `bio::io::fasta`, `bio::io::fastq` (property C11).  Core Lean only; hand-written
and trusted like `RsSem.lean` / `RsSemIo.lean`.

* A `String` / `&str` is the list of its UTF-8 **bytes** (`List Nat`).  Every `String` the translated functions hold has
  come out of `read_line` (which validates) or out of `&str` parameters, so it is valid UTF-8; operations whose meaning
  depends on the code points (`trim_end`, `splitn(2, char::is_whitespace)`) are *abstract operations* of the translated
  function, instantiated in the theorems with the byte-level mirrors `trimEndU`, `splitWsU` of `Model/UniWs.lean`.
* A `char` literal / a closure `|c: char| c == ' ' || …` used as a *pattern* is read as a predicate on **bytes**; it is
  only translated when every literal in it is ASCII (an ASCII byte occurs in valid UTF-8 only as that ASCII character,
  so matching bytes is matching characters).
* `s[a..]`, `s[..b]`, `s[a..b]` on a `str` panic when a bound is not on a character boundary (`strSlice`).
* `slice::chunks(n)` panics for `n = 0`.
-/
namespace RbV.Rs

/-- `str::is_char_boundary` on the UTF-8 bytes -/
def isCharBoundary (s : List Nat) (n : Nat) : Bool :=
  n == s.length || (match s[n]? with | some b => !(decide (128 ≤ b) && decide (b < 192)) | none => false)

/-- `&s[a..b]` on a `str` (`a > b`, `b > len` or a bound inside a character panics) -/
def strSlice (s : List Nat) (a b : Nat) : Res (List Nat) :=
  if a ≤ b ∧ b ≤ s.length ∧ isCharBoundary s a = true ∧ isCharBoundary s b = true then .ok ((s.take b).drop a) else .panic

/-- `&s[a..]` on a `str` -/
def strFrom (s : List Nat) (a : Nat) : Res (List Nat) := strSlice s a s.length

/-- `s.starts_with(c)` for an ASCII `char` literal -/
def startsWithByte (s : List Nat) (c : Nat) : Bool := s.head? == some c

/-- `s.is_ascii()` -/
def isAscii (s : List Nat) : Bool := s.all (fun b => decide (b < 128))

/-- `s.splitn(2, pat)` for a pattern that is a predicate on ASCII bytes: the part before the first match and, if there is
a match, the part after it -/
def splitn2 (sep : Nat → Bool) (s : List Nat) : List Nat × Option (List Nat) :=
  (s.takeWhile (fun b => !sep b),
   match s.dropWhile (fun b => !sep b) with
   | [] => none
   | _ :: d => some d)

/-- the items the iterator `s.splitn(2, pat)` yields: one or two strings -/
def splitnItems (p : List Nat × Option (List Nat)) : List (List Nat) := p.1 :: p.2.toList

/-- `s.trim_end_matches(c)` for an ASCII `char` literal -/
def trimEndMatches (c : Nat) (s : List Nat) : List Nat := (s.reverse.dropWhile (· == c)).reverse

/-- `s.trim_start_matches(c)` for an ASCII `char` literal -/
def trimStartMatches (c : Nat) (s : List Nat) : List Nat := s.dropWhile (· == c)

/-- the list `slice::chunks(n)` iterates over (`n = 0` is not a case: `chunks` panics) -/
def chunksGo {α : Type} (n : Nat) : Nat → List α → List (List α)
  | 0, _ => []
  | fuel + 1, l => if l.isEmpty then [] else l.take n :: chunksGo n fuel (l.drop n)

/-- `l.chunks(n)` (`n = 0` panics) -/
def chunks {α : Type} (l : List α) (n : Nat) : Res (List (List α)) :=
  if n = 0 then .panic else .ok (chunksGo n l.length l)

/-- `format!("…{}…", args…)`: some string determined by the template and the arguments (the text of a message is not
part of any property) -/
def format (tmpl : String) (args : List Nat) : String := tmpl ++ toString args

theorem chunks_ok {α : Type} {l : List α} {n : Nat} (h : 0 < n) : chunks l n = .ok (chunksGo n l.length l) := by
  simp [chunks, Nat.ne_of_gt h]

theorem strFrom_one_ascii (b : Nat) (r : List Nat) (hr : ∀ x, r.head? = some x → ¬ (128 ≤ x ∧ x < 192)) :
    strFrom (b :: r) 1 = .ok r := by
  unfold strFrom strSlice isCharBoundary
  cases r with
  | nil => simp
  | cons x r =>
    have := hr x rfl
    have h1 : (decide (128 ≤ x) && decide (x < 192)) = false := by
      simp only [Bool.and_eq_false_iff, decide_eq_false_iff_not]; omega
    simp [h1]

end RbV.Rs
