import RbV.Spec.Occ
/-! Index-wise characterisations of slices and occurrences (core Lean only). -/
namespace RbV

theorem take_drop_eq_iff (t p : List Nat) (i l : Nat) (h : i + l ≤ t.length) (hl : l ≤ p.length) :
    (t.drop i).take l = p.take l ↔ ∀ k, k < l → t[i + k]? = p[k]? := by
  constructor
  · intro he k hk
    have : ((t.drop i).take l)[k]? = (p.take l)[k]? := by rw [he]
    rw [List.getElem?_take_of_lt hk, List.getElem?_take_of_lt hk, List.getElem?_drop] at this
    exact this
  · intro hk
    apply List.ext_getElem?
    intro k
    by_cases hkl : k < l
    · rw [List.getElem?_take_of_lt hkl, List.getElem?_take_of_lt hkl, List.getElem?_drop]
      exact hk k hkl
    · rw [List.getElem?_eq_none (by simp; omega), List.getElem?_eq_none (by simp; omega)]

theorem occursAt_iff_idx (p t : List Nat) (s : Nat) :
    OccursAt p t s ↔ s + p.length ≤ t.length ∧ ∀ k, k < p.length → t[s + k]? = p[k]? := by
  unfold OccursAt
  constructor
  · rintro ⟨h1, h2⟩
    refine ⟨h1, ?_⟩
    have : (t.drop s).take p.length = p.take p.length := by rw [h2]; simp
    exact (take_drop_eq_iff t p s p.length h1 (Nat.le_refl _)).mp this
  · rintro ⟨h1, h2⟩
    refine ⟨h1, ?_⟩
    have := (take_drop_eq_iff t p s p.length h1 (Nat.le_refl _)).mpr h2
    simpa using this

end RbV
