/-!
Semantics of the Rust subset translated by `tools/rs2lean.py` (docs/notes/GEN.md, "Translated function bodies").

The generated files `RbV/Gen/Src*.lean` are written against this small hand-written library only.  Integers of the
unsigned Rust types (`u8`, `u32`, `u64`, `usize` = 64 bit) are `Nat`s that are kept below `2^w` by construction:
every operation that can leave the range is *checked* and aborts with `Res.panic` — which is what the Rust code does
when it is compiled with `overflow-checks` (the harness is; a release build without them would wrap silently, so
`panic` reads "the code leaves the part of its behaviour the model describes").  Out-of-bounds indexing, division by
zero, a failed `assert!` are `Res.panic` as well.  A translated `while` loop is a recursive helper with explicit fuel
(the expression is given in the translation spec); running out of fuel is the *distinct* outcome `Res.fuel`, so that
an equality theorem `generated … = Res.ok (model …)` says both "no panic" and "the fuel was sufficient".

Signed values (`isize`, only used through `as isize`, unary `-`, `&`, `|`, `^`, `as usize`) are represented by their
two's-complement bit pattern, again a `Nat < 2^w`.

Core Lean only.
-/
namespace RbV.Rs

/-- outcome of running a translated function -/
inductive Res (α : Type) where
  | ok (a : α)
  | panic
  | fuel
  deriving Repr, DecidableEq, BEq

namespace Res

@[inline] protected def bind {α β : Type} (x : Res α) (f : α → Res β) : Res β :=
  match x with
  | ok a => f a
  | panic => panic
  | fuel => fuel

instance : Monad Res where
  pure := Res.ok
  bind := Res.bind

@[simp] theorem pure_eq_ok {α : Type} (a : α) : (pure a : Res α) = ok a := rfl
@[simp] theorem ok_bind {α β : Type} (a : α) (f : α → Res β) : (ok a >>= f) = f a := rfl
@[simp] theorem panic_bind {α β : Type} (f : α → Res β) : ((panic : Res α) >>= f) = panic := rfl
@[simp] theorem fuel_bind {α β : Type} (f : α → Res β) : ((fuel : Res α) >>= f) = fuel := rfl

instance : LawfulMonad Res := LawfulMonad.mk'
  (id_map := fun x => by cases x <;> rfl)
  (pure_bind := fun _ _ => rfl)
  (bind_assoc := fun x _ _ => by cases x <;> rfl)

/-- `x` finished normally (no panic, fuel not exhausted) -/
def IsOk {α : Type} (x : Res α) : Prop := ∃ a, x = ok a

theorem bind_eq_ok {α β : Type} {x : Res α} {f : α → Res β} {b : β} :
    (x >>= f) = ok b ↔ ∃ a, x = ok a ∧ f a = ok b := by
  cases x with
  | ok a => simp
  | panic => simp
  | fuel => simp

end Res

open Res

/-- `a + b` on a `w`-bit unsigned type (overflow panics) -/
def add (w a b : Nat) : Res Nat := if a + b < 2 ^ w then ok (a + b) else panic
/-- `a - b` on an unsigned type (underflow panics) -/
def sub (a b : Nat) : Res Nat := if b ≤ a then ok (a - b) else panic
/-- `a * b` on a `w`-bit unsigned type (overflow panics) -/
def mul (w a b : Nat) : Res Nat := if a * b < 2 ^ w then ok (a * b) else panic
/-- `a / b` (division by zero panics) -/
def div (a b : Nat) : Res Nat := if b = 0 then panic else ok (a / b)
/-- `a % b` (division by zero panics) -/
def rem (a b : Nat) : Res Nat := if b = 0 then panic else ok (a % b)
/-- `a << n` on a `w`-bit type: bits shifted out are dropped, a shift amount `≥ w` panics -/
def shl (w a n : Nat) : Res Nat := if n < w then ok ((a <<< n) % 2 ^ w) else panic
/-- `a >> n` on a `w`-bit unsigned type: a shift amount `≥ w` panics -/
def shr (w a n : Nat) : Res Nat := if n < w then ok (a >>> n) else panic
/-- `!a` on a `w`-bit unsigned type -/
def not (w a : Nat) : Nat := 2 ^ w - 1 - a
/-- `-a` on a `w`-bit signed type, on two's-complement bit patterns (`-MIN` panics) -/
def neg (w a : Nat) : Res Nat := if a = 2 ^ (w - 1) then panic else ok ((2 ^ w - a) % 2 ^ w)
/-- `a as uW` / `a as iW` from a wider or equally wide integer type: truncation of the bit pattern -/
def cast (w a : Nat) : Nat := a % 2 ^ w
/-- `a.wrapping_add(b)` -/
def wrappingAdd (w a b : Nat) : Nat := (a + b) % 2 ^ w
/-- `a.wrapping_sub(b)` -/
def wrappingSub (w a b : Nat) : Nat := (a + (2 ^ w - b % 2 ^ w)) % 2 ^ w
/-- `a.wrapping_mul(b)` -/
def wrappingMul (w a b : Nat) : Nat := (a * b) % 2 ^ w
/-- `a.wrapping_neg()` -/
def wrappingNeg (w a : Nat) : Nat := (2 ^ w - a % 2 ^ w) % 2 ^ w

/-- `l[i]` (out of bounds panics) -/
def idx {α : Type} (l : List α) (i : Nat) : Res α :=
  match l[i]? with
  | some a => ok a
  | none => panic
/-- `l[i] = v` (out of bounds panics) -/
def setIdx {α : Type} (l : List α) (i : Nat) (v : α) : Res (List α) :=
  if i < l.length then ok (l.set i v) else panic
/-- `&l[a..b]` (`a > b` or `b > len` panics) -/
def slice {α : Type} (l : List α) (a b : Nat) : Res (List α) :=
  if a ≤ b ∧ b ≤ l.length then ok ((l.drop a).take (b - a)) else panic
/-- `assert!(c)` -/
def assert (c : Bool) : Res Unit := if c then ok () else panic
/-- `&l[a..=b]` (`a > b + 1` or `b ≥ len` panics) -/
def sliceIncl {α : Type} (l : List α) (a b : Nat) : Res (List α) :=
  if a ≤ b + 1 ∧ b < l.length then ok ((l.drop a).take (b + 1 - a)) else panic
/-- `o.expect("..")` / `o.unwrap()` (`None` panics) -/
def expect {α : Type} (o : Option α) : Res α :=
  match o with
  | some a => ok a
  | none => panic

/-! ### the operations succeed inside the range (simp lemmas for the equality proofs) -/

theorem add_ok {w a b : Nat} (h : a + b < 2 ^ w) : add w a b = ok (a + b) := by simp [add, h]
theorem sub_ok {a b : Nat} (h : b ≤ a) : sub a b = ok (a - b) := by simp [sub, h]
theorem mul_ok {w a b : Nat} (h : a * b < 2 ^ w) : mul w a b = ok (a * b) := by simp [mul, h]
theorem div_ok {a b : Nat} (h : 0 < b) : div a b = ok (a / b) := by
  have : b ≠ 0 := by omega
  simp [div, this]
theorem rem_ok {a b : Nat} (h : 0 < b) : rem a b = ok (a % b) := by
  have : b ≠ 0 := by omega
  simp [rem, this]
theorem shl_ok {w a n : Nat} (h : n < w) : shl w a n = ok ((a <<< n) % 2 ^ w) := by simp [shl, h]
theorem shr_ok {w a n : Nat} (h : n < w) : shr w a n = ok (a >>> n) := by simp [shr, h]
theorem idx_ok {α : Type} {l : List α} {i : Nat} (h : i < l.length) : idx l i = ok l[i] := by
  simp [idx, List.getElem?_eq_getElem h]
theorem idx_eq_ok_iff {α : Type} {l : List α} {i : Nat} {a : α} : idx l i = ok a ↔ l[i]? = some a := by
  unfold idx
  cases h : l[i]? <;> simp
theorem idx_of_getElem? {α : Type} {l : List α} {i : Nat} {a : α} (h : l[i]? = some a) : idx l i = ok a :=
  idx_eq_ok_iff.mpr h
theorem setIdx_ok {α : Type} {l : List α} {i : Nat} {v : α} (h : i < l.length) : setIdx l i v = ok (l.set i v) := by
  simp [setIdx, h]
theorem slice_ok {α : Type} {l : List α} {a b : Nat} (h1 : a ≤ b) (h2 : b ≤ l.length) :
    slice l a b = ok ((l.drop a).take (b - a)) := by simp [slice, h1, h2]
theorem assert_ok {c : Bool} (h : c = true) : assert c = ok () := by simp [assert, h]
theorem sliceIncl_ok {α : Type} {l : List α} {a b : Nat} (h1 : a ≤ b + 1) (h2 : b < l.length) :
    sliceIncl l a b = ok ((l.drop a).take (b + 1 - a)) := by simp [sliceIncl, h1, h2]
@[simp] theorem expect_some {α : Type} (a : α) : expect (some a) = ok a := rfl
@[simp] theorem expect_none {α : Type} : expect (none : Option α) = panic := rfl

/-! ### iterators (genpm: `Matches::next` of the pattern matchers)

The state of `text.into_iter().enumerate()` over a slice is the pair (items not yet consumed, counter) — the trusted
reading of `IntoIterator<Item = &u8>` over a slice: it yields the slice's bytes in order.  A translated
`fn next(&mut self) -> Option<T>` is a function `σ → Res (σ × Option T)` on the explicit iterator state; what a consumer
of the iterator (`collect`, a `for` loop) sees is `drain next`: `next` is called until it returns `None`.  The fuel only
bounds the number of calls (`Res.fuel` when it does not suffice). -/

/-- all items of the iterator with the translated `next` function, from state `s` -/
def drain {σ α : Type} (next : σ → Res (σ × Option α)) : Nat → σ → Res (List α)
  | 0, _ => Res.fuel
  | n + 1, s => do
    let (s', r) ← next s
    match r with
    | none => pure []
    | some a => do
      let rest ← drain next n s'
      pure (a :: rest)

theorem drain_none {σ α : Type} (next : σ → Res (σ × Option α)) (n : Nat) (s s' : σ)
    (h : next s = ok (s', none)) : drain next (n + 1) s = ok [] := by
  simp [drain, h]

theorem drain_some {σ α : Type} (next : σ → Res (σ × Option α)) (n : Nat) (s s' : σ) (a : α) (l : List α)
    (h : next s = ok (s', some a)) (hl : drain next n s' = ok l) : drain next (n + 1) s = ok (a :: l) := by
  simp [drain, h, hl]

/-- `map.get(k).copied()` on a `vec_map::VecMap<V>` given by its entries (genpm: `BOM::delta`): the value stored under
key `k`.  The entry list is the abstract content of the map (at most one entry per key in a real `VecMap`; with several,
the first counts). -/
def vecMapGet {α : Type} : List (Nat × α) → Nat → Option α
  | [], _ => none
  | (b, v) :: l, k => if b = k then some v else vecMapGet l k

/-- `a.checked_shl(n)` on a `w`-bit unsigned type: `None` when `n ≥ w`, bits shifted out are dropped -/
def checkedShl (w a n : Nat) : Option Nat := if n < w then some ((a <<< n) % 2 ^ w) else none
/-- `a.wrapping_shl(n)`: the shift *amount* is reduced modulo `w` -/
def wrappingShl (w a n : Nat) : Nat := (a <<< (n % w)) % 2 ^ w

/-! ### iterator adapters (dialect "cf", tools/rs2lean_cf.py) -/

/-- the items at positions `0, n, 2n, …` (`k` = items still to skip before the next one is taken) -/
def stepByGo {α : Type} (n : Nat) : Nat → List α → List α
  | _, [] => []
  | 0, a :: t => a :: stepByGo n (n - 1) t
  | k + 1, _ :: t => stepByGo n k t
/-- `it.step_by(n)` (`n = 0` panics) -/
def stepBy {α : Type} (l : List α) (n : Nat) : Res (List α) := if n = 0 then panic else ok (stepByGo n 0 l)
/-- `(lo..hi).step_by(n)`: `lo, lo + n, lo + 2n, …` below `hi` (`n = 0` panics) -/
def rangeStepBy (lo hi n : Nat) : Res (List Nat) :=
  if n = 0 then panic else ok (List.range' lo ((hi - lo + n - 1) / n) n)
theorem rangeStepBy_ok {lo hi n : Nat} (h : 0 < n) : rangeStepBy lo hi n = ok (List.range' lo ((hi - lo + n - 1) / n) n) := by
  have : n ≠ 0 := by omega
  simp [rangeStepBy, this]
theorem stepBy_ok {α : Type} {l : List α} {n : Nat} (h : 0 < n) : stepBy l n = ok (stepByGo n 0 l) := by
  have : n ≠ 0 := by omega
  simp [stepBy, this]
theorem stepByGo_one {α : Type} (l : List α) : stepByGo 1 0 l = l := by
  induction l with
  | nil => rfl
  | cons a t ih => simp [stepByGo, ih]

/-! ### containers of other crates (dialect "cf"): the trusted meaning of `bit_set::BitSet` and `vec_map::VecMap`

`BitSet`: a finite set of `usize`, represented by the ascending, duplicate-free list of its members — the order in which
`BitSet::iter()` enumerates.  `VecMap<V>`: a finite map from `usize`, represented by an association list in which every
key occurs at most once.  Laws (`mem_insert`, `insert_sorted`, `get_insert`) are proved below; that the crates behave like
this is part of the trusted base. -/

-- (`expect` is defined above: `some a ↦ ok a`, `none ↦ panic`)
/-- `opt.map(f)` for a translated closure `f` -/
def optMapM {α β : Type} (f : α → Res β) : Option α → Res (Option β)
  | some a => do let b ← f a; pure (some b)
  | none => pure none

abbrev BitSet := List Nat
namespace BitSet
def empty : BitSet := ([] : List Nat)
def toList (s : BitSet) : List Nat := s
def insertL : List Nat → Nat → List Nat
  | [], x => [x]
  | a :: t, x => if x < a then x :: a :: t else if x = a then a :: t else a :: insertL t x
def insert (s : BitSet) (x : Nat) : BitSet := insertL s x
def contains (s : BitSet) (x : Nat) : Bool := List.contains (toList s) x
def len (s : BitSet) : Nat := (toList s).length
def extend (s : BitSet) (xs : List Nat) : BitSet := xs.foldl insert s

theorem mem_insertL (l : List Nat) (x y : Nat) : y ∈ insertL l x ↔ y = x ∨ y ∈ l := by
  induction l with
  | nil => simp [insertL]
  | cons a t ih =>
    simp only [insertL]
    split
    · simp
    · split
      · rename_i h; subst h; simp
      · simp only [List.mem_cons, ih]
        constructor
        · rintro (h | h | h)
          · exact Or.inr (Or.inl h)
          · exact Or.inl h
          · exact Or.inr (Or.inr h)
        · rintro (h | h | h)
          · exact Or.inr (Or.inl h)
          · exact Or.inl h
          · exact Or.inr (Or.inr h)

theorem insertL_sorted (l : List Nat) (x : Nat) (h : l.Pairwise (· < ·)) : (insertL l x).Pairwise (· < ·) := by
  induction l with
  | nil => simp [insertL]
  | cons a t ih =>
    rw [List.pairwise_cons] at h
    simp only [insertL]
    split
    · rename_i hx
      refine List.pairwise_cons.mpr ⟨?_, List.pairwise_cons.mpr h⟩
      intro y hy
      rcases List.mem_cons.mp hy with rfl | hy
      · exact hx
      · exact Nat.lt_trans hx (h.1 y hy)
    · split
      · exact List.pairwise_cons.mpr h
      · rename_i h1 h2
        refine List.pairwise_cons.mpr ⟨?_, ih h.2⟩
        intro y hy
        rcases (mem_insertL t x y).mp hy with rfl | hy
        · omega
        · exact h.1 y hy
end BitSet

abbrev VecMap := List (Nat × Nat)
namespace VecMap
def empty : VecMap := ([] : List (Nat × Nat))
def get (m : VecMap) (k : Nat) : Option Nat := (List.lookup k m : Option Nat)
def insert (m : VecMap) (k v : Nat) : VecMap :=
  ((k, v) :: List.filter (fun p => p.1 != k) m : List (Nat × Nat))
def len (m : VecMap) : Nat := List.length (m : List (Nat × Nat))

theorem get_insert (m : VecMap) (k v k' : Nat) : get (insert m k v) k' = if k' = k then some v else get m k' := by
  unfold get insert
  by_cases h : k' = k
  · subst h; simp [List.lookup]
  · have hb : (k' == k) = false := by simpa using h
    simp only [List.lookup, hb, h, if_false]
    induction (m : List (Nat × Nat)) with
    | nil => rfl
    | cons p t ih =>
      obtain ⟨a, b⟩ := p
      by_cases ha : a = k
      · subst ha
        have : (k' == a) = false := hb
        simp [List.filter, List.lookup, this, ih]
      · have hne : (a != k) = true := by simpa using ha
        simp only [List.filter, hne, List.lookup]
        cases hk : k' == a
        · simpa using ih
        · rfl
end VecMap

end RbV.Rs
