import RbV.Basic.RsSem
import RbV.Basic.RsSemInt
import RbV.Basic.RsSemGenhmm
import RbV.Model.Poa
/-!
Semantics additions for the dialect "poa" of the Rust→Lean translator (`tools/rs2lean_genpoa.py`, builder genpoa;
docs/notes/GEN.md, "Dialect poa").  Hand-written, core Lean, trusted like `RsSem.lean`.

**Data.**  `enum AlignmentOperation` is read as `RbV.Poa.POp` (`Match ↦ .m`, `Del ↦ .d`, `Ins ↦ .i`, `Xclip ↦ .x`,
`Yclip ↦ .y`; the translator pins the text of the declaration), `struct TracebackCell { score, op }` as
`RbV.Poa.Model.Cell`; `std::cmp::max` on `TracebackCell` is `Model.cmax`: the type orders by `score` only
(`impl Ord for TracebackCell`, pinned) and `max(a, b)` returns `b` unless `a > b`.  `struct Traceback` and
`struct Alignment` are the structures below (declarations pinned).  `i32` values are `Int`s kept inside
`[-2^31, 2^31)` by the checked operations `Rs.iadd 32` (`RsSemInt.lean`) and `Rs.imul 32`; `j as i32` of a `usize`
is `usizeAsI32` (truncation to 32 bits, read as two's complement).

**petgraph.**  `Graph<u8, i32, Directed, usize>` is the mirror models' graph representation `Model.G`: the list of node
labels (node `i` = position `i`; the graph only grows, petgraph never renumbers) and the list of weighted edges
`(source, target, weight)` in insertion order (edge `k` = position `k`).  The operations the code uses, with the
contract each one is read with (**trusted base**: that petgraph 0.6 behaves like this is established by the
correspondence run of `./check C16`, tags `drift-*`, not by proof):

* `node_count()` = number of labels; `raw_nodes()[i].weight` = label `i` (out of bounds panics);
  `NodeIndex::new(i)` / `.index()` are the identity on indices;
* `neighbors_directed(v, Incoming)` yields the sources of the edges into `v`, **most recent edge first** (`Model.inN`);
* `Topo::new(&g)` … `next(&g)` until `None` yields every node of an acyclic graph once, **in a topological order**
  — the one `Model.topo` computes (stack of ready nodes; initial nodes in index order); `Topo::new(&g).next(&g)` is
  its first element (`None` on the empty graph);
* `add_node(c)` appends a label and returns its index; `add_edge(u, v, w)` appends an edge (**panics** when an end
  point is not a node); `find_edge(u, v)` = the most recent edge `u → v` (`Model.findEdge`);
  `edge_weight_mut(k)` = the weight of edge `k` (`None` when there is no such edge), `*… += d` is a checked `i32` addition;
* `edges_connecting(u, v)` yields the edges `u → v`, most recent first; `.map(|e| e.weight()).sum()` on `i32` adds
  their weights left to right with overflow checks (`sumI32`).
-/
namespace RbV.Rs
open Res

/-- `a * b` on a `w`-bit signed type (leaving the range panics) -/
def imul (w : Nat) (a b : Int) : Res Int := if InS w (a * b) then ok (a * b) else panic

theorem imul_ok {w : Nat} {a b : Int} (h : InS w (a * b)) : imul w a b = ok (a * b) := by
  unfold imul; rw [if_pos h]

/-- `j as i32` for `j : usize` -/
def usizeAsI32 (j : Nat) : Int := toSigned 32 (cast 32 j)

/-- `a..=b` -/
def rangeIncl (a b : Nat) : List Nat := List.range' a (b + 1 - a)

/-- `usize::MAX` -/
def usizeMax : Nat := 2 ^ 64 - 1

namespace Poa
open RbV.Poa RbV.Poa.Model

/-- `struct Traceback` (poa.rs; `last: NodeIndex<usize>` is the index) -/
structure Traceback where
  rows : Nat
  cols : Nat
  last : Nat
  matrix : List (List Cell × Nat × Nat)

/-- `struct Alignment` (poa.rs) -/
structure Alignment where
  score : Int
  operations : List POp

abbrev Graph := RbV.Poa.Model.G

def nodeCount (g : Graph) : Nat := g.labels.length
/-- `g.raw_nodes()[i].weight` -/
def nodeWeight (g : Graph) (i : Nat) : Res Nat := idx g.labels i
/-- `g.neighbors_directed(v, Incoming)` -/
def neighborsIn (g : Graph) (v : Nat) : List Nat := inN g.es v
/-- the nodes `Topo::new(&g)` … `next(&g)` yields -/
def topoOrder (g : Graph) : List Nat := topo g.labels.length g.es
/-- `g.add_node(c)` -/
def addNode (g : Graph) (c : Nat) : Graph × Nat := g.addNode c
/-- `g.add_edge(u, v, w)` -/
def addEdge (g : Graph) (u v : Nat) (w : Int) : Res Graph :=
  if u < g.labels.length ∧ v < g.labels.length then ok { g with es := g.es ++ [(u, v, w)] } else panic
/-- `g.find_edge(u, v)` -/
def findEdge (g : Graph) (u v : Nat) : Option Nat := Model.findEdge g.es u v
/-- `*g.edge_weight_mut(k).unwrap() += d` -/
def edgeWeightAdd (g : Graph) (k : Nat) (d : Int) : Res Graph :=
  match g.es[k]? with
  | none => panic
  | some e => do
    let w ← iadd 32 e.2.2 d
    pure { g with es := g.es.set k (e.1, e.2.1, w) }
/-- the weights of `g.edges_connecting(u, v)` -/
def edgesConnecting (g : Graph) (u v : Nat) : List Int :=
  ((g.es.filter fun e => e.1 == u && e.2.1 == v).map (·.2.2)).reverse
/-- `it.sum()` on `i32` -/
def sumI32 (l : List Int) : Res Int := l.foldlM (fun (a : Int) (x : Int) => iadd 32 a x) 0

end Poa
end RbV.Rs
