/-
Line-protocol codec shared by all drivers (core Lean only).

byte strings : lower-case hex, `-` for empty
naturals     : decimal
integers     : decimal with optional leading `-`
lists        : comma separated, `-` for empty
-/
namespace RbV.Codec

def hexVal (c : Char) : Option Nat :=
  if '0' ≤ c ∧ c ≤ '9' then some (c.toNat - '0'.toNat)
  else if 'a' ≤ c ∧ c ≤ 'f' then some (c.toNat - 'a'.toNat + 10)
  else none

def parseHexChars : List Char → Option (List Nat)
  | [] => some []
  | [_] => none
  | a :: b :: r => do
      let x ← hexVal a
      let y ← hexVal b
      let t ← parseHexChars r
      pure ((x * 16 + y) :: t)

/-- `-` is the empty byte string -/
def parseHex (s : String) : Option (List Nat) :=
  if s = "-" then some [] else parseHexChars s.toList

def hexDigit (n : Nat) : Char :=
  if n < 10 then Char.ofNat (n + '0'.toNat) else Char.ofNat (n - 10 + 'a'.toNat)

def toHex (l : List Nat) : String :=
  if l.isEmpty then "-" else
    String.ofList (l.flatMap fun b => [hexDigit (b / 16 % 16), hexDigit (b % 16)])

def parseNat (s : String) : Option Nat := s.toNat?

def parseInt (s : String) : Option Int := s.toInt?

def splitOnChar (s : String) (c : Char) : List String :=
  (s.splitOn (String.singleton c))

def parseList (f : String → Option α) (s : String) (sep : Char := ',') : Option (List α) :=
  if s = "-" then some [] else (splitOnChar s sep).mapM f

/-- non-empty list: every item is parsed, `-` is an item (e.g. the empty byte string), not the empty list -/
def parseListNE (f : String → Option α) (s : String) (sep : Char) : Option (List α) :=
  (splitOnChar s sep).mapM f

def parseNatList (s : String) : Option (List Nat) := parseList parseNat s

def parseIntList (s : String) : Option (List Int) := parseList parseInt s

def showNatList (l : List Nat) : String :=
  if l.isEmpty then "-" else ",".intercalate (l.map toString)

def showIntList (l : List Int) : String :=
  if l.isEmpty then "-" else ",".intercalate (l.map toString)

/-- split a protocol line into (input tokens, output string) at the first ` => ` -/
def splitLine (line : String) : Option (List String × String) :=
  match line.splitOn " => " with
  | [a, b] => some ((a.splitOn " ").filter (· ≠ ""), b)
  | _ => none

/-- key:value fields inside a token, e.g. `w:7` -/
def field (tok : String) : Option (String × String) :=
  match tok.splitOn ":" with
  | k :: rest@(_ :: _) => some (k, ":".intercalate rest)
  | _ => none

end RbV.Codec
