import RbV.Basic.RsSem
import RbV.Basic.RsSemInt
import RbV.Basic.Dec
/-!
Semantics of the floating-point part of the Rust subset translated by `tools/rs2lean_genprob.py`, dialect "prob"
(docs/notes/GEN.md, section "Dialect prob").  Hand-written, core Lean, trusted like `RsSem.lean`.

`f64` is **abstract**: the generated files `RbV/Gen/SrcProbs.lean`, `RbV/Gen/SrcFastExp.lean` are generic in a type `F`
and an `F64Ops F` — an ordered field with exactly the operations the translated code calls.  Nothing is said here about
what the operations do; the proof side (`RbV/Lemmas/C15Src.lean`, Mathlib) instantiates `F` with the extended reals
`XR = ℝ ∪ {−∞, +∞, NaN}` ("`f64` without rounding": exact real arithmetic on finite values, the IEEE rules for the
special values) and the approximate exponential `fastexp` with an abstract `E : ℝ → ℝ`.

The newtypes `Prob`, `LogProb`, `PHREDProb` (`custom_derive!` with `NewtypeFrom`, `NewtypeDeref`, `NewtypeAdd(*)`,
`NewtypeSub(*)`, `PartialEq`, `PartialOrd`) are read as `F` itself: constructor and `*` are the identity, `+`/`-`/`<`/`==`
on the newtype are those of `f64`.
-/
namespace RbV.Rs

/-- what the translated code asks of `f64` -/
structure F64Ops (F : Type) where
  add : F → F → F
  sub : F → F → F
  mul : F → F → F
  div : F → F → F
  neg : F → F
  /-- `<` (false when an operand is NaN); `a > b` is `lt b a` -/
  lt : F → F → Bool
  /-- `<=`; `a >= b` is `le b a` -/
  le : F → F → Bool
  /-- `==` (IEEE: NaN is not equal to itself); `!=` is its negation -/
  eq : F → F → Bool
  /-- a decimal literal of the source text, kept exactly -/
  ofDec : Dec → F
  /-- `n as f64` for an unsigned integer -/
  ofNat : Nat → F
  /-- `k as f64` for a signed integer -/
  ofInt : Int → F
  /-- `x as i64` (truncation towards zero; saturating, NaN ↦ 0) -/
  truncI64 : F → Int
  /-- `f64::from_bits(b)` -/
  fromBits : Nat → F
  /-- `f64::INFINITY` -/
  inf : F
  /-- `f64::NEG_INFINITY` -/
  negInf : F
  /-- `f64::EPSILON` -/
  epsilon : F
  /-- `f64::consts::LN_2` -/
  ln2 : F
  isNan : F → Bool
  exp : F → F
  ln : F → F
  ln1p : F → F
  expm1 : F → F
  log10 : F → F
  powf : F → F → F
  /-- `FastExp::fastexp` as seen by its callers in `stats/probs` (its own body is translated in `Gen/SrcFastExp.lean`) -/
  fastexp : F → F
  /-- `approx::relative_eq!(a, b, epsilon = e, max_relative = r)` (both default to `f64::EPSILON`) -/
  relEq : F → F → F → F → Bool

/-- `iter.sum::<f64>()`: left fold of `+` from `0.0` -/
def fsum {F : Type} (o : F64Ops F) (l : List F) : F := l.foldl o.add (o.ofDec ⟨0, 0⟩)

/-- `xs.iter().enumerate()` collected: `(0, x₀), (1, x₁), …` -/
def enumIdxFrom {α : Type} : Nat → List α → List (Nat × α)
  | _, [] => []
  | k, a :: as => (k, a) :: enumIdxFrom (k + 1) as

def enumIdx {α : Type} (l : List α) : List (Nat × α) := enumIdxFrom 0 l

/-- `it.dropping_back(k)` (itertools), collected -/
def dropBack {α : Type} (k : Nat) (l : List α) : List α := l.take (l.length - k)

/-- `it.scan(init, f)` consumed to its end: `f` updates the state and yields `Some(item)`; `None` ends the iterator -/
def iterScan {σ α β : Type} (f : σ → α → σ × Option β) : σ → List α → List β
  | _, [] => []
  | s, a :: as =>
    match f s a with
    | (s', some b) => b :: iterScan f s' as
    | (_, none) => []

/-- `a << n` on `i64` (bits shifted out are dropped, the result is read in two's complement; `n ≥ 64` panics) -/
def ishl64 (a : Int) (n : Nat) : Res Int :=
  if n < 64 then Res.ok (toSigned 64 (ofSigned 64 (a * (2 ^ n : Nat)))) else Res.panic

/-- the error type of `stats::probs::errors` as far as `Prob::checked` uses it -/
inductive ProbError (F : Type) where
  | InvalidProb (prob : F)

theorem enumIdxFrom_length {α : Type} (k : Nat) (l : List α) : (enumIdxFrom k l).length = l.length := by
  induction l generalizing k with
  | nil => rfl
  | cons a as ih => simp [enumIdxFrom, ih]

end RbV.Rs
