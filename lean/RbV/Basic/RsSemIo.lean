import RbV.Basic.RsSem
/-!
Semantics additions for the sub-dialect "io" of `tools/rs2lean_cf.py` (builder genio; docs/notes/GEN.md, "Sub-dialect io"):
functions that return `io::Result<T>`, use `?`, and work on a reader they only know through `fill_buf` / `consume` /
`seek` (property C12) or `read_line` (property C11).

* `io::Result<T>` is `Except IoErr T`; `Ok(e)` = `Except.ok e`, `Err(e)` = `Except.error e`.  An `io::Error` built by
  `io::Error::new(io::ErrorKind::K, "msg")` is `IoErr.mk "K" "msg"`; errors that come out of the abstract reader
  operations are arbitrary values of `IoErr`.
* An error is an *outcome distinct from a panic*: a translated function returns `Res (Except IoErr T × outs…)`, where
  `outs` are the `&mut` parameters / `self` fields the translation spec lists as outputs.  The outputs are returned on
  the error path as well (with the values they have when the `Err` is returned), exactly as the Rust function leaves
  them behind.
* `e?` is `match e with | .error x => return (.error x, outs…) | .ok v => …`.
* A `while` loop whose body can leave the function (`?`, `return`) is a recursive helper on fuel that returns
  `Flow R S`: `ret r` = the function returned `r` from inside the loop, `next s` = the loop ended with state `s`.

Core Lean only.
-/
namespace RbV.Rs

/-- an `io::Error`: the kind (`io::ErrorKind::…`, by name) and the message -/
structure IoErr where
  kind : String
  msg : String
deriving DecidableEq, Repr, Inhabited

/-- how a loop with exits ended -/
inductive Flow (ρ σ : Type) where
  | ret (r : ρ)
  | next (s : σ)
deriving Repr

end RbV.Rs
