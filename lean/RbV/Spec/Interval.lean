/-!
# Spec for C07: stored entries, half-open overlap, the expected answer of a query, multiset equality

Keys and data are `Int` (the harness drives the trees with `i64` keys/data and the annotation map with `isize`
keys). An entry is an interval `[lo, hi)` with a payload. The property speaks about positive-width entries and
positive-width queries only.

Core Lean only (imported by the driver).
-/
namespace RbV.Ivl

structure Entry where
  lo : Int
  hi : Int
  data : Int
deriving DecidableEq, Repr, Inhabited

/-- a query interval `[lo, hi)` -/
structure Query where
  lo : Int
  hi : Int
deriving DecidableEq, Repr, Inhabited

/-- half-open overlap: the two intervals share at least one point (for positive widths) -/
def Overlaps (q : Query) (e : Entry) : Prop := q.lo < e.hi ∧ e.lo < q.hi

instance (q : Query) (e : Entry) : Decidable (Overlaps q e) := by unfold Overlaps; exact inferInstance

/-- for positive widths `Overlaps` is "there is an integer point in both" -/
theorem overlaps_iff_common_point (q : Query) (e : Entry) (hq : q.lo < q.hi) (he : e.lo < e.hi) :
    Overlaps q e ↔ ∃ x : Int, q.lo ≤ x ∧ x < q.hi ∧ e.lo ≤ x ∧ x < e.hi := by
  unfold Overlaps
  constructor
  · intro ⟨h1, h2⟩
    refine ⟨max q.lo e.lo, ?_, ?_, ?_, ?_⟩ <;> omega
  · intro ⟨x, h1, h2, h3, h4⟩
    omega

/-- the answer the property determines (as a multiset): the stored entries that overlap the query -/
def expected (stored : List Entry) (q : Query) : List Entry := stored.filter (fun e => decide (Overlaps q e))

theorem mem_expected (stored : List Entry) (q : Query) (e : Entry) :
    e ∈ expected stored q ↔ e ∈ stored ∧ Overlaps q e := by
  simp [expected]

/-- multiplicities are kept: the expected answer of a longer history is the old answer plus the new entry if it
overlaps (so duplicates are reported as often as they were inserted) -/
theorem expected_append (a b : List Entry) (q : Query) : expected (a ++ b) q = expected a q ++ expected b q := by
  simp [expected]

/-- `find_mut` + mutation of the payload of every reported entry, at the level of the stored multiset -/
def bump (stored : List Entry) (q : Query) (delta : Int) : List Entry :=
  stored.map (fun e => if Overlaps q e then { e with data := e.data + delta } else e)

/-! ## multiset equality of two entry lists, decided by sorting -/

/-- lexicographic order on (lo, hi, data) -/
def entryLe (a b : Entry) : Bool :=
  decide (a.lo < b.lo ∨ (a.lo = b.lo ∧ (a.hi < b.hi ∨ (a.hi = b.hi ∧ a.data ≤ b.data))))

theorem entryLe_trans (a b c : Entry) : entryLe a b = true → entryLe b c = true → entryLe a c = true := by
  simp only [entryLe, decide_eq_true_eq]; omega

theorem entryLe_total (a b : Entry) : (entryLe a b || entryLe b a) = true := by
  simp only [entryLe, Bool.or_eq_true, decide_eq_true_eq]; omega

theorem entryLe_antisymm (a b : Entry) : entryLe a b = true → entryLe b a = true → a = b := by
  simp only [entryLe, decide_eq_true_eq]
  intro h1 h2
  cases a; cases b
  simp only [Entry.mk.injEq] at *
  omega

def sortEntries (l : List Entry) : List Entry := l.mergeSort entryLe

theorem sortEntries_perm (l : List Entry) : (sortEntries l).Perm l := List.mergeSort_perm l entryLe

theorem sortEntries_sorted (l : List Entry) : (sortEntries l).Pairwise (fun a b => entryLe a b = true) :=
  List.pairwise_mergeSort entryLe_trans entryLe_total l

/-- two sorted lists with the same members-with-multiplicity are equal -/
theorem sorted_perm_eq : ∀ (l₁ l₂ : List Entry), l₁.Pairwise (fun a b => entryLe a b = true) →
    l₂.Pairwise (fun a b => entryLe a b = true) → l₁.Perm l₂ → l₁ = l₂
  | [], l₂, _, _, h => (List.nil_perm.mp h).symm
  | a :: l₁, [], _, _, h => by simp at h
  | a :: l₁, b :: l₂, h₁, h₂, h => by
    rw [List.pairwise_cons] at h₁ h₂
    have hab : a = b := by
      have ha : a ∈ b :: l₂ := h.subset (by simp)
      have hb : b ∈ a :: l₁ := h.symm.subset (by simp)
      simp only [List.mem_cons] at ha hb
      rcases ha with ha | ha
      · exact ha
      · rcases hb with hb | hb
        · exact hb.symm
        · exact entryLe_antisymm a b (h₁.1 b hb) (h₂.1 a ha)
    subst hab
    congr 1
    exact sorted_perm_eq l₁ l₂ h₁.2 h₂.2 (List.Perm.cons_inv h)

/-- the driver's multiset comparison -/
def sameMultiset (a b : List Entry) : Bool := sortEntries a == sortEntries b

theorem sameMultiset_iff (a b : List Entry) : sameMultiset a b = true ↔ a.Perm b := by
  simp only [sameMultiset, beq_iff_eq]
  constructor
  · intro h
    exact (sortEntries_perm a).symm.trans (h ▸ sortEntries_perm b)
  · intro h
    apply sorted_perm_eq _ _ (sortEntries_sorted a) (sortEntries_sorted b)
    exact (sortEntries_perm a).trans (h.trans (sortEntries_perm b).symm)

end RbV.Ivl
