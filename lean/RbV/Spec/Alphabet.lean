/-!
# Alphabets and rank transform (C20)

Mirror of `bio::alphabets::Alphabet` (a bit set over byte values) and `RankTransform` (ranks assigned by
enumerating the bit set in ascending order).  The bit set is modelled by the ascending, duplicate-free list of its
members, built exactly as a bit set enumerates: by running through 0 … 255 and keeping the members.
-/
namespace RbV.Alpha

/-- `Alphabet::new(symbols)`: the members in ascending order -/
def mk (syms : List Nat) : List Nat := (List.range 256).filter (fun b => syms.contains b)

/-- `Alphabet::is_word(text)` -/
def isWord (A : List Nat) (t : List Nat) : Bool := t.all (fun c => A.contains c)

/-- `RankTransform::get(a)`: position of `a` in the ascending enumeration -/
def rank (A : List Nat) (a : Nat) : Nat := A.idxOf a

/-- `RankTransform::transform(text)` -/
def transform (A : List Nat) (t : List Nat) : List Nat := t.map (rank A)

/-- `Alphabet::max_symbol()` -/
def maxSymbol (A : List Nat) : Option Nat := A.getLast?

/-- number of members smaller than `a`: the *definition* of the rank of `a` in an ordered set -/
def countLt (A : List Nat) (a : Nat) : Nat := (A.filter (fun b => decide (b < a))).length

/-! ## Facts -/

theorem mem_mk (syms : List Nat) (b : Nat) : b ∈ mk syms ↔ b ∈ syms ∧ b < 256 := by
  unfold mk
  simp only [List.mem_filter, List.mem_range, List.contains_iff_mem]
  constructor
  · intro ⟨h1, h2⟩; exact ⟨h2, h1⟩
  · intro ⟨h1, h2⟩; exact ⟨h2, h1⟩

theorem range_sorted (n : Nat) : (List.range n).Pairwise (· < ·) := by
  rw [List.pairwise_iff_getElem]
  intro i j hi hj hij
  simp only [List.getElem_range]
  exact hij

theorem mk_sorted (syms : List Nat) : (mk syms).Pairwise (· < ·) :=
  List.Pairwise.filter _ (range_sorted 256)

theorem isWord_iff (A t : List Nat) : isWord A t = true ↔ ∀ c ∈ t, c ∈ A := by
  unfold isWord
  simp only [List.all_eq_true, List.contains_iff_mem]

/-- in an ascending list the position of the `i`-th element is `i` -/
theorem idxOf_getElem_sorted : ∀ (A : List Nat), A.Pairwise (· < ·) → ∀ (i : Nat) (hi : i < A.length),
    A.idxOf A[i] = i := by
  intro A
  induction A with
  | nil => intro _ i hi; simp at hi
  | cons x xs ih =>
    intro hs i hi
    rw [List.pairwise_cons] at hs
    cases i with
    | zero => simp [List.idxOf_cons]
    | succ j =>
      have hj : j < xs.length := by simpa using hi
      have hlt : x < xs[j] := hs.1 _ (List.getElem_mem hj)
      have hne : (x == xs[j]) = false := by
        simp only [beq_eq_false_iff_ne, ne_eq]; omega
      simp only [List.getElem_cons_succ, List.idxOf_cons, hne, cond_false]
      rw [ih hs.2 j hj]

theorem rank_getElem (A : List Nat) (hs : A.Pairwise (· < ·)) (i : Nat) (hi : i < A.length) :
    rank A A[i] = i := idxOf_getElem_sorted A hs i hi

/-- the rank of a member is the number of smaller members -/
theorem rank_eq_countLt : ∀ (A : List Nat), A.Pairwise (· < ·) → ∀ a ∈ A, rank A a = countLt A a := by
  intro A
  induction A with
  | nil => intro _ a ha; simp at ha
  | cons x xs ih =>
    intro hs a ha
    rw [List.pairwise_cons] at hs
    unfold rank countLt
    by_cases hax : a = x
    · subst hax
      have : (xs.filter (fun b => decide (b < a))) = [] := by
        rw [List.filter_eq_nil_iff]
        intro b hb
        have := hs.1 b hb
        simp only [decide_eq_true_eq]; omega
      simp [List.idxOf_cons, List.filter_cons, this]
    · have hmem : a ∈ xs := by
        rcases List.mem_cons.mp ha with h | h
        · exact absurd h hax
        · exact h
      have hlt : x < a := hs.1 a hmem
      have hne : (x == a) = false := by
        simp only [beq_eq_false_iff_ne, ne_eq]; omega
      have := ih hs.2 a hmem
      unfold rank countLt at this
      simp only [List.idxOf_cons, hne, cond_false, List.filter_cons, hlt, decide_true, if_true,
        List.length_cons, this]

end RbV.Alpha
