/-
Occurrences of a pattern in a text (C05, C06, C08, C19).
Spec: `OccursAt p t i`  :=  the pattern is the slice of the text starting at `i`.
Reference: `occurrences p t` (ascending scan).  The lemmas say it is exactly the
ascending duplicate-free list of all `i` with `OccursAt p t i`.
-/
namespace RbV

/-- `p` occurs in `t` at position `i` -/
def OccursAt (p t : List Nat) (i : Nat) : Prop :=
  i + p.length ≤ t.length ∧ (t.drop i).take p.length = p

/-- Boolean test: `p` is a prefix of `t` -/
def isPrefix : List Nat → List Nat → Bool
  | [], _ => true
  | _ :: _, [] => false
  | a :: p, b :: t => a == b && isPrefix p t

theorem isPrefix_iff (p t : List Nat) :
    isPrefix p t = true ↔ p.length ≤ t.length ∧ t.take p.length = p := by
  induction p generalizing t with
  | nil => simp [isPrefix]
  | cons a p ih =>
    cases t with
    | nil => simp [isPrefix]
    | cons b t =>
      simp only [isPrefix, Bool.and_eq_true, beq_iff_eq, ih, List.length_cons, List.take_succ_cons,
        List.cons.injEq]
      constructor
      · rintro ⟨rfl, h1, h2⟩; exact ⟨by omega, rfl, h2⟩
      · rintro ⟨h1, h2, h3⟩; exact ⟨h2.symm, by omega, h3⟩

/-- all positions `≥ off` … scanning the suffixes of `t`; `off` is the position of the head -/
def occFrom (p : List Nat) : List Nat → Nat → List Nat
  | [], off => if p.isEmpty then [off] else []
  | b :: t, off =>
      if isPrefix p (b :: t) then off :: occFrom p t (off + 1) else occFrom p t (off + 1)

/-- ascending list of all start positions of (possibly overlapping) occurrences -/
def occurrences (p t : List Nat) : List Nat := occFrom p t 0

theorem mem_occFrom (p t : List Nat) (off i : Nat) :
    i ∈ occFrom p t off ↔ off ≤ i ∧ OccursAt p t (i - off) := by
  induction t generalizing off with
  | nil =>
    simp only [occFrom, OccursAt]
    cases p with
    | nil => simp; omega
    | cons a p => simp
  | cons b t ih =>
    have key : ∀ j, OccursAt p (b :: t) (j + 1) ↔ OccursAt p t j := by
      intro j; simp [OccursAt]; omega
    have key0 : OccursAt p (b :: t) 0 ↔ isPrefix p (b :: t) = true := by
      rw [isPrefix_iff]; simp [OccursAt]
    simp only [occFrom]
    by_cases hpre : isPrefix p (b :: t) = true
    · simp only [hpre, if_true, List.mem_cons, ih]
      constructor
      · rintro (rfl | ⟨h1, h2⟩)
        · simp [key0, hpre]
        · refine ⟨by omega, ?_⟩
          have : i - off = (i - (off + 1)) + 1 := by omega
          rw [this, key]; exact h2
      · rintro ⟨h1, h2⟩
        by_cases hi : i = off
        · left; exact hi
        · right
          refine ⟨by omega, ?_⟩
          have : i - off = (i - (off + 1)) + 1 := by omega
          rw [this, key] at h2; exact h2
    · simp only [hpre, Bool.false_eq_true, if_false, ih]
      constructor
      · rintro ⟨h1, h2⟩
        refine ⟨by omega, ?_⟩
        have : i - off = (i - (off + 1)) + 1 := by omega
        rw [this, key]; exact h2
      · rintro ⟨h1, h2⟩
        by_cases hi : i = off
        · subst hi; simp [key0] at h2; exact absurd h2 hpre
        · refine ⟨by omega, ?_⟩
          have : i - off = (i - (off + 1)) + 1 := by omega
          rw [this, key] at h2; exact h2

theorem mem_occurrences (p t : List Nat) (i : Nat) :
    i ∈ occurrences p t ↔ OccursAt p t i := by
  simp [occurrences, mem_occFrom]

theorem occFrom_lower (p t : List Nat) (off : Nat) : ∀ i ∈ occFrom p t off, off ≤ i := by
  intro i hi; exact ((mem_occFrom p t off i).mp hi).1

theorem occFrom_sorted (p t : List Nat) (off : Nat) :
    (occFrom p t off).Pairwise (· < ·) := by
  induction t generalizing off with
  | nil => simp only [occFrom]; split <;> simp
  | cons b t ih =>
    simp only [occFrom]
    split
    · rw [List.pairwise_cons]
      refine ⟨?_, ih (off + 1)⟩
      intro j hj
      have := occFrom_lower p t (off + 1) j hj
      omega
    · exact ih (off + 1)

/-- strictly ascending, hence duplicate free -/
theorem occurrences_sorted (p t : List Nat) : (occurrences p t).Pairwise (· < ·) :=
  occFrom_sorted p t 0

end RbV
