/-!
# Partial-order graphs: what C16 says about them (declarative part)

A graph dump is a list of node labels (node `i` = position `i`) and a list of weighted edges `(u, v, w)`.
Everything structural is stated over the plain edge list `List (Nat × Nat)`.
-/
namespace RbV.Poa

abbrev Edges := List (Nat × Nat)

/-- `v` can be reached from `u` by a walk of at least one edge -/
inductive Reach (es : Edges) : Nat → Nat → Prop
  | step {u v : Nat} : (u, v) ∈ es → Reach es u v
  | cons {u w v : Nat} : (u, w) ∈ es → Reach es w v → Reach es u v

/-- no node reaches itself: the graph has no directed cycle (self-loops included) -/
def Acyclic (es : Edges) : Prop := ∀ v, ¬ Reach es v v

/-- all edge end points are nodes `< n` -/
def WellFormed (n : Nat) (es : Edges) : Prop := ∀ e ∈ es, e.1 < n ∧ e.2 < n

/-- consecutive nodes of `p` are joined by edges -/
def IsWalk (es : Edges) : List Nat → Prop
  | [] => True
  | [_] => True
  | u :: v :: r => (u, v) ∈ es ∧ IsWalk es (v :: r)

/-- `word` is spelled by a walk of the graph: some node sequence, all nodes valid, consecutive ones joined
by edges, whose labels read `word` -/
def Spelled (labels : List Nat) (es : Edges) (word : List Nat) : Prop :=
  ∃ p : List Nat, IsWalk es p ∧ (∀ v ∈ p, v < labels.length) ∧ p.map (fun v => labels.getD v 0) = word

/-- total weight of the edges `u → v` in a weighted edge list (petgraph allows parallel edges) -/
def weight (wes : List (Nat × Nat × Int)) (u v : Nat) : Int :=
  match wes with
  | [] => 0
  | (a, b, w) :: r => (if a = u ∧ b = v then w else 0) + weight r u v

def plain (wes : List (Nat × Nat × Int)) : Edges := wes.map fun e => (e.1, e.2.1)

/-- the graph `new` extends `old`: same labels on the old nodes, every old edge still there with at
least its old total weight -/
def Extends (oldL : List Nat) (oldE : List (Nat × Nat × Int)) (newL : List Nat) (newE : List (Nat × Nat × Int)) : Prop :=
  newL.take oldL.length = oldL ∧
  (∀ e ∈ plain oldE, e ∈ plain newE) ∧
  (∀ e ∈ plain oldE, weight oldE e.1 e.2 ≤ weight newE e.1 e.2)

theorem Reach.trans {es : Edges} {a b c : Nat} (h1 : Reach es a b) (h2 : Reach es b c) : Reach es a c := by
  induction h1 with
  | step h => exact Reach.cons h h2
  | cons h _ ih => exact Reach.cons h (ih h2)

/-- a rank function that increases along every edge rules out cycles -/
theorem acyclic_of_rank {es : Edges} (r : Nat → Nat) (h : ∀ e ∈ es, r e.1 < r e.2) : Acyclic es := by
  have key : ∀ u v, Reach es u v → r u < r v := by
    intro u v hr
    induction hr with
    | step he => exact h _ he
    | cons he _ ih => have := h _ he; simp at this; omega
  intro v hv
  have := key v v hv
  omega

end RbV.Poa
