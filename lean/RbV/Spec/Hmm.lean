/-!
# Specification for C14: discrete hidden Markov models over exact weights

A model has `S` states; all probabilities are given as **natural-number numerators** over one common
denominator `d` (any rational model can be brought into this form by clearing denominators, which multiplies
the joint weight of *every* state path of a given length by the same constant `d^(2T+1)`, so maxima, sums
and comparisons between them are unchanged).  Nothing below depends on the weights being probabilities:
the theorems hold for arbitrary weights (zero weights, sub-stochastic rows, ties included).

* `paths S T`        – all state paths of length `T` over the states `0 … S-1`
* `joint m obs π`    – initial · ∏ transitions · ∏ emissions · end   (the joint weight of path and observations)
* `likelihood m obs` – Σ over all paths of `joint`
* `viterbiVal m obs` – max over all paths of `joint`
-/
namespace RbV.Hmm

structure Hmm where
  /-- number of states -/
  S : Nat
  /-- initial weight of a state -/
  init : Nat → Nat
  /-- `trans a b` : weight of the transition a → b -/
  trans : Nat → Nat → Nat
  /-- `emit s o` : weight of emitting symbol `o` in state `s` -/
  emit : Nat → Nat → Nat
  /-- end weight of a state (`fun _ => 1` for a model without explicit end probabilities) -/
  fin : Nat → Nat
  /-- `Model::has_end_state()`: the model declares explicit end probabilities.  The definitions below
  (`joint`, `likelihood`, `viterbiVal`) never look at this flag — they always multiply by `fin`, exactly as
  `forward` and `backward` always add `end_prob`; only the mirror of `hmm::viterbi` branches on it. -/
  hasEnd : Bool

/-- the same model without end term -/
def Hmm.noEnd (m : Hmm) : Hmm := { m with fin := fun _ => 1, hasEnd := false }

/-- flag and end weights agree: a model that does not declare an end state ends in every state with weight 1.
True of `discrete_emission::Model` (`end_prob = ln 1`, `has_end_state = false`) and of every
`discrete_emission_opt_end::Model` built by `with_float` / `with_prob` (`end = None` ⇒ all-ones vector and
`has_end_state = false`; `end = Some(v)` ⇒ `has_end_state = true`, no condition on `v`). -/
def Hmm.WF (m : Hmm) : Prop := m.hasEnd = false → ∀ s, s < m.S → m.fin s = 1

/-- all lists of length `T` over `0 … S-1` -/
def paths (S : Nat) : Nat → List (List Nat)
  | 0 => [[]]
  | T + 1 => (List.range S).flatMap fun s => (paths S T).map (s :: ·)

/-- weight of continuing from state `s` along the remaining observations / remaining path, including the
end term.  Lists of different length get weight 0 (never used: paths have the length of the observations). -/
def chain (m : Hmm) : Nat → List Nat → List Nat → Nat
  | s, [], [] => m.fin s
  | s, o :: os, q :: qs => m.trans s q * m.emit q o * chain m q os qs
  | _, _, _ => 0

/-- joint weight of observations and state path -/
def joint (m : Hmm) : List Nat → List Nat → Nat
  | o :: os, q :: qs => m.init q * m.emit q o * chain m q os qs
  | _, _ => 0

def maxL (l : List Nat) : Nat := l.foldr max 0

/-- Σ over all state paths -/
def likelihood (m : Hmm) (obs : List Nat) : Nat := ((paths m.S obs.length).map (joint m obs)).sum

/-- max over all state paths -/
def viterbiVal (m : Hmm) (obs : List Nat) : Nat := maxL ((paths m.S obs.length).map (joint m obs))

end RbV.Hmm
