import RbV.Spec.Occ
/-!
# Spec of C05: what a backward-search result has to be

Everything is stated over the text `t`, the pattern `p` and the suffix array `sa` *as the implementation printed
it*: the property is "the reported interval maps through the suffix array to exactly the occurrence set", whichever
way that array was built (sorted-ness of `sa` is property C03 and is not assumed here).
-/
namespace RbV

/-- `p` occurs somewhere in `t` -/
def Occurs (p t : List Nat) : Prop := ∃ i, OccursAt p t i

/-- the positions held by the rows `lo … hi-1` of the suffix array -/
def ivMap (sa : List Nat) (lo hi : Nat) : List Nat := (sa.drop lo).take (hi - lo)

/-- the half-open row interval `[lo, hi)` lies inside the array and maps through `sa` to exactly the set of
occurrence positions of `p` in `t` (no missing, no extra position) -/
def MapsTo (sa : List Nat) (lo hi : Nat) (p t : List Nat) : Prop :=
  lo ≤ hi ∧ hi ≤ sa.length ∧ ∀ i, i ∈ ivMap sa lo hi ↔ OccursAt p t i

/-- the suffix of length `l` of the pattern -/
def suffix (p : List Nat) (l : Nat) : List Nat := p.drop (p.length - l)

/-- `l` is the length of the longest suffix of `p` that occurs in `t` -/
def IsLongestSuf (p t : List Nat) (l : Nat) : Prop :=
  l ≤ p.length ∧ Occurs (suffix p l) t ∧ ∀ l', l < l' → l' ≤ p.length → ¬ Occurs (suffix p l') t

/-- result of `FMIndexable::backward_search`; intervals are half open `[lo, hi)` as in `Interval` -/
inductive BSRes where
  | complete (lo hi : Nat)
  | part (lo hi len : Nat)
  | absent
  deriving Repr, DecidableEq

/-- The property statement of C05 for one pattern:
* `Complete(iv)`   – the pattern occurs and `iv` maps to exactly its occurrences;
* `Partial(iv, l)` – the pattern does not occur, `l` (with `0 < l < |p|`) is the length of the longest suffix that
  does, and `iv` maps to exactly that suffix's occurrences;
* `Absent`         – not even the last symbol occurs. -/
def BSProp (t sa p : List Nat) : BSRes → Prop
  | .complete lo hi => Occurs p t ∧ MapsTo sa lo hi p t
  | .part lo hi l => 0 < l ∧ l < p.length ∧ IsLongestSuf p t l ∧ MapsTo sa lo hi (suffix p l) t
  | .absent => ¬ Occurs (suffix p 1) t

end RbV
