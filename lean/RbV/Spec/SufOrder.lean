/-
Suffix order (C03–C06).

* `lexLt`       strict lexicographic order on `List Nat` (a proper prefix is smaller), with irreflexivity,
                transitivity, totality.
* `SentinelOrder t B rk`   a total order on the sentinel occurrences of `t`, given by distinct ranks `rk p < B`,
                in which the final sentinel is least.
* `keyText t B rk`         the text with every sentinel occurrence replaced by its rank and every other symbol `c`
                by `B + c`  (so: every sentinel below every other symbol, sentinels among themselves by `rk`,
                other symbols by their value).
* `SuffixSorted ks sa`     `sa` is a permutation of all positions of `ks`, strictly increasing in the
                lexicographic order of the suffixes of `ks`.
* `IsSA t sa`              the property C03 for byte texts: sorted under *some* sentinel order.
-/
namespace RbV

/-- strict lexicographic order; a proper prefix is smaller -/
def lexLt : List Nat → List Nat → Prop
  | _, [] => False
  | [], _ :: _ => True
  | a :: as, b :: bs => a < b ∨ (a = b ∧ lexLt as bs)

/-- Boolean version of `lexLt` -/
def lexLtB : List Nat → List Nat → Bool
  | _, [] => false
  | [], _ :: _ => true
  | a :: as, b :: bs => decide (a < b) || (a == b && lexLtB as bs)

theorem lexLtB_iff (x y : List Nat) : lexLtB x y = true ↔ lexLt x y := by
  induction x generalizing y with
  | nil => cases y <;> simp [lexLtB, lexLt]
  | cons a as ih =>
    cases y with
    | nil => simp [lexLtB, lexLt]
    | cons b bs => simp [lexLtB, lexLt, ih]

instance (x y : List Nat) : Decidable (lexLt x y) := decidable_of_iff _ (lexLtB_iff x y)

theorem lexLt_irrefl (x : List Nat) : ¬ lexLt x x := by
  induction x with
  | nil => simp [lexLt]
  | cons a as ih => simp [lexLt, ih]

theorem lexLt_trans {x y z : List Nat} : lexLt x y → lexLt y z → lexLt x z := by
  induction x generalizing y z with
  | nil =>
    cases y with
    | nil => simp [lexLt]
    | cons b bs => cases z <;> simp [lexLt]
  | cons a as ih =>
    cases y with
    | nil => simp [lexLt]
    | cons b bs =>
      cases z with
      | nil => simp [lexLt]
      | cons c cs =>
        simp only [lexLt]
        rintro (h1 | ⟨h1, h1'⟩) (h2 | ⟨h2, h2'⟩)
        · left; omega
        · left; omega
        · left; omega
        · right; exact ⟨by omega, ih h1' h2'⟩

theorem lexLt_total (x y : List Nat) : x ≠ y → lexLt x y ∨ lexLt y x := by
  induction x generalizing y with
  | nil => cases y <;> simp [lexLt]
  | cons a as ih =>
    cases y with
    | nil => simp [lexLt]
    | cons b bs =>
      intro hne
      simp only [lexLt]
      by_cases hab : a = b
      · subst hab
        have : as ≠ bs := fun h => hne (by rw [h])
        rcases ih bs this with h | h
        · left; right; exact ⟨rfl, h⟩
        · right; right; exact ⟨rfl, h⟩
      · rcases Nat.lt_or_gt_of_ne hab with h | h
        · left; left; exact h
        · right; left; exact h

theorem lexLt_asymm {x y : List Nat} (h : lexLt x y) : ¬ lexLt y x :=
  fun h' => lexLt_irrefl x (lexLt_trans h h')

/-! ### sentinel order and key text -/

/-- the sentinel of a text is its last symbol -/
def sentinelOf (t : List Nat) : Nat := t.getLastD 0

/-- position `p` holds the sentinel -/
def IsSentPos (t : List Nat) (p : Nat) : Prop := t[p]? = some (sentinelOf t)

instance (t : List Nat) (p : Nat) : Decidable (IsSentPos t p) := by unfold IsSentPos; infer_instance

/-- A total order on the sentinel occurrences, represented by distinct ranks below `B`;
the final sentinel is the least one. -/
structure SentinelOrder (t : List Nat) (B : Nat) (rk : Nat → Nat) : Prop where
  bound : ∀ p, IsSentPos t p → rk p < B
  inj : ∀ p q, IsSentPos t p → IsSentPos t q → rk p = rk q → p = q
  last : ∀ q, IsSentPos t q → q ≠ t.length - 1 → rk (t.length - 1) < rk q

/-- comparison key of position `p`: a sentinel gets its rank (`< B`), any other symbol `c` gets `B + c` -/
def keyAt (t : List Nat) (B : Nat) (rk : Nat → Nat) (p : Nat) : Nat :=
  if IsSentPos t p then rk p else B + t.getD p 0

def keyText (t : List Nat) (B : Nat) (rk : Nat → Nat) : List Nat :=
  (List.range t.length).map (keyAt t B rk)

/-- suffix `i` of `ks` is lexicographically smaller than suffix `j` -/
def sufLt (ks : List Nat) (i j : Nat) : Prop := lexLt (ks.drop i) (ks.drop j)

/-- `sa` lists every position of `ks` exactly once, in strictly increasing suffix order -/
def SuffixSorted (ks sa : List Nat) : Prop :=
  sa.Perm (List.range ks.length) ∧ sa.Pairwise (sufLt ks)

/-- C03 for byte texts: a sorted permutation of all suffixes under one consistent sentinel order -/
def IsSA (t sa : List Nat) : Prop :=
  ∃ B rk, SentinelOrder t B rk ∧ SuffixSorted (keyText t B rk) sa

theorem sufLt_trans {ks : List Nat} {i j k : Nat} : sufLt ks i j → sufLt ks j k → sufLt ks i k :=
  lexLt_trans

theorem length_keyText (t : List Nat) (B : Nat) (rk : Nat → Nat) : (keyText t B rk).length = t.length := by
  simp [keyText]

end RbV
