/-
C18 — the *specifications* of the three containers: what "behaves like a plain vector" means.

* `BitEncSpec`   a `BitEnc` of width `w` is a `List Nat` of width-masked values (`v % 2^w`);
                 the block count the property fixes is `⌈len / ⌊32/w⌋⌉`.
* `SmallIntsSpec` a `SmallInts<S,B>` is a `List Int`.
* `FenwickSpec`  a Fenwick tree is the list of all updates `(idx, val)` applied so far; a query at `i`
                 folds the operation over the updates with `idx ≤ i`.
Core Lean only (imported by the driver).
-/
namespace RbV.Spec

/-! ## BitEnc -/
namespace BitEnc

inductive Op where
  | push (v : Nat)
  | pushValues (n v : Nat)
  | set (i v : Nat)
  | get (i : Nat)
  | iter
  | clear
  deriving Repr, DecidableEq

/-- the vector after one operation (`set` is only issued with `i < len`; `List.set` beyond the end is the
identity, the harness never sends that) -/
def specStep (w : Nat) (l : List Nat) : Op → List Nat
  | .push v => l ++ [v % 2 ^ w]
  | .pushValues n v => l ++ List.replicate n (v % 2 ^ w)
  | .set i v => l.set i (v % 2 ^ w)
  | .get _ => l
  | .iter => l
  | .clear => []

/-- values per 32-bit block -/
def perBlock (w : Nat) : Nat := 32 / w

/-- `⌈len / perBlock⌉` -/
def specBlocks (w len : Nat) : Nat := (len + perBlock w - 1) / perBlock w

/-- what a read returns -/
def specGet (l : List Nat) (i : Nat) : Option Nat := l[i]?

end BitEnc

/-! ## SmallInts -/
namespace SmallInts

inductive Op where
  | push (v : Int)
  | set (i : Nat) (v : Int)
  | get (i : Nat)
  | iter
  | decompress
  deriving Repr, DecidableEq

def specStep (l : List Int) : Op → List Int
  | .push v => l ++ [v]
  | .set i v => l.set i v
  | .get _ => l
  | .iter => l
  | .decompress => l

def specFromElem (v : Int) (n : Nat) : List Int := List.replicate n v

end SmallInts

/-! ## Fenwick trees -/
namespace Fenwick

/-- prefix sum at `i` of all updates `(idx, val)` -/
def prefixSum (ups : List (Nat × Int)) (i : Nat) : Int :=
  ((ups.filter (fun u => u.1 ≤ i)).map (·.2)).sum

/-- prefix maximum at `i` (values are naturals; `0` — the default of the value type — when there is none) -/
def prefixMax (ups : List (Nat × Nat)) (i : Nat) : Nat :=
  ((ups.filter (fun u => u.1 ≤ i)).map (·.2)).foldl max 0

end Fenwick

end RbV.Spec
