/-!
# GC content (C20)

`gc_content(seq)` = (number of symbols among `G C g c`) / (length); `gc3_content` the same over every third
symbol.  The Rust functions return an `f32`; the driver parses the printed decimal value into an exact fraction
`p / q` and compares it with the exact ratio within 10⁻⁶.  The empty sequence is outside the domain (0/0).
-/
namespace RbV.Gc

def isGC (b : Nat) : Bool := b == 67 || b == 71 || b == 99 || b == 103

def gcCount (s : List Nat) : Nat := s.countP isGC

/-- the symbols at positions `off, off+3, off+6, …` -/
def every3 (s : List Nat) (off : Nat) : List Nat :=
  (List.range ((s.length + 2 - off) / 3)).map fun i => s.getD (off + 3 * i) 0

/-- `|p/q − c/l| ≤ 10⁻⁶`, cross-multiplied (all quantities natural numbers, `q, l > 0`) -/
def within1e6 (p q c l : Nat) : Bool :=
  decide ((max (p * l) (c * q) - min (p * l) (c * q)) * 1000000 ≤ q * l)

theorem gcCount_le (s : List Nat) : gcCount s ≤ s.length := List.countP_le_length

/-- cross-multiplied form says what it should (over the integers) -/
theorem within1e6_iff (p q c l : Nat) :
    within1e6 p q c l = true ↔
      ((p : Int) * l - c * q) * 1000000 ≤ q * l ∧ ((c : Int) * q - p * l) * 1000000 ≤ q * l := by
  unfold within1e6
  simp only [decide_eq_true_eq]
  have h1 : ((p * l : Nat) : Int) = (p : Int) * l := by simp
  have h2 : ((c * q : Nat) : Int) = (c : Int) * q := by simp
  have h3 : ((q * l : Nat) : Int) = (q : Int) * l := by simp
  rw [← h1, ← h2, ← h3]
  generalize p * l = a
  generalize c * q = b
  generalize q * l = d
  omega

end RbV.Gc
