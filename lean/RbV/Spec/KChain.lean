/-!
# C19 — chains of k-mer matches, LCSk++ score, the O(N²) reference DP (core Lean only)

A match is a pair (position in sequence 1, position in sequence 2).  A chain is a list of matches in which each
next match either continues the previous one diagonally by one, or starts at least `k` later in both sequences.
Score: `k` for the first match and for every non-overlapping step, `1` for a diagonal continuation.
-/
namespace RbV.KChain

abbrev M := Nat × Nat

/-- `b` starts at least `k` later than `a` in both sequences -/
def nonov (k : Nat) (a b : M) : Bool := a.1 + k ≤ b.1 && a.2 + k ≤ b.2

/-- `b` continues `a` diagonally by one -/
def cont (a b : M) : Bool := a.1 + 1 == b.1 && a.2 + 1 == b.2

def link (k : Nat) (a b : M) : Bool := nonov k a b || cont a b

/-- score contribution of the step a → b -/
def step (k : Nat) (a b : M) : Nat := if nonov k a b then k else 1

/-- chain validity (Boolean checker on the list of matches) -/
def chainB (k : Nat) : List M → Bool
  | [] => true
  | [_] => true
  | a :: b :: r => link k a b && chainB k (b :: r)

/-- LCSk++ score of a chain -/
def score (k : Nat) : List M → Nat
  | [] => 0
  | [_] => k
  | a :: b :: r => step k a b + score k (b :: r)

/-- the matches a path of indices refers to -/
def pathMatches (ms : List M) (path : List Nat) : List M := path.map (fun i => ms.getD i (0, 0))

/-- checker used on the implementation's output: indices in range and the referred matches form a chain -/
def validChain (ms : List M) (k : Nat) (path : List Nat) : Bool :=
  path.all (· < ms.length) && chainB k (pathMatches ms path)

def max0 : List Nat → Nat
  | [] => 0
  | a :: l => max a (max0 l)

/-- best score of a chain that starts with `m` and continues inside the already tabulated later matches `T` -/
def cell (k : Nat) (T : List (M × Nat)) (m : M) : Nat :=
  max (k + max0 ((T.filter (fun e => nonov k m e.1)).map (·.2)))
      (max0 ((T.filter (fun e => cont m e.1)).map (fun e => e.2 + 1)))

/-- table: for every match (in list order) the best score of a chain starting there; filled from the back -/
def table (k : Nat) : List M → List (M × Nat)
  | [] => []
  | m :: rest => let T := table k rest; (m, cell k T m) :: T

/-- the reference LCSk++ optimum of a match list sorted by first coordinate -/
def lcskDP (ms : List M) (k : Nat) : Nat := max0 ((table k ms).map (·.2))

/-- all chains (as lists of matches) that can be formed from `ms` taken in list order — exponential; used by the
driver as a cross-check for small lists -/
def allChains (k : Nat) : List M → List (List M)
  | [] => [[]]
  | m :: rest =>
    let cs := allChains k rest
    cs ++ (cs.filter (fun c => match c with | [] => true | b :: _ => link k m b)).map (m :: ·)

def enumOpt (ms : List M) (k : Nat) : Nat := max0 ((allChains k ms).map (score k))

end RbV.KChain
