import RbV.Spec.FMIndex
/-!
# Spec of C06: FMD-index — supermaximal exact matches on both strands, bi-interval extension

Symbols are bytes as `Nat`: `$`=36, `A`=65 `C`=67 `G`=71 `N`=78 `T`=84 and the lower-case letters 32 above.
-/
namespace RbV

/-- complement on the DNA alphabet with N in both cases (`A↔T`, `C↔G`, `a↔t`, `c↔g`, everything else — `N`, `n` —
fixed); this is `bio::alphabets::dna::complement` restricted to `ACGTNacgtn` -/
def dnaCompl (c : Nat) : Nat :=
  if c = 65 then 84 else if c = 84 then 65 else if c = 67 then 71 else if c = 71 then 67
  else if c = 97 then 116 else if c = 116 then 97 else if c = 99 then 103 else if c = 103 then 99
  else c

/-- reverse complement -/
def revcomp (s : List Nat) : List Nat := (s.reverse).map dnaCompl

def fmdSentinel : Nat := 36

/-- the text an FMD index is built on: every sequence followed by `$`, its reverse complement and `$` -/
def fmdText (seqs : List (List Nat)) : List Nat :=
  seqs.flatMap (fun s => s ++ [fmdSentinel] ++ revcomp s ++ [fmdSentinel])

/-- the substring `p[b .. b+len)` -/
def sub (p : List Nat) (b len : Nat) : List Nat := (p.drop b).take len

/-- `p[b .. b+len)` is a supermaximal exact match of the pattern `p` in the text `T`: it is a non-empty substring of
the pattern that occurs in `T` and can be extended neither to the left nor to the right (the extended substring does
not exist or does not occur) -/
def Smem (T p : List Nat) (b len : Nat) : Prop :=
  0 < len ∧ b + len ≤ p.length ∧ Occurs (sub p b len) T ∧
  (b = 0 ∨ ¬ Occurs (sub p (b - 1) (len + 1)) T) ∧
  (b + len = p.length ∨ ¬ Occurs (sub p b (len + 1)) T)

/-- one reported match: pattern position, length, forward interval `[flo,fhi)`, reverse-complement interval
`[rlo,rhi)` -/
structure SmemObs where
  b : Nat
  len : Nat
  flo : Nat
  fhi : Nat
  rlo : Nat
  rhi : Nat
  deriving Repr, DecidableEq

/-- both intervals of a reported match are right: forward ↦ occurrences of the match, revcomp ↦ occurrences of
its reverse complement -/
def SmemIntervalsOk (T sa p : List Nat) (o : SmemObs) : Prop :=
  MapsTo sa o.flo o.fhi (sub p o.b o.len) T ∧ MapsTo sa o.rlo o.rhi (revcomp (sub p o.b o.len)) T

/-- `smems(p, i, l)`: the reported (position, length) pairs are, as a set, exactly the supermaximal matches that
cover pattern position `i` and have length at least `l`; every reported bi-interval is right -/
def SmemsProp (T sa p : List Nat) (i l : Nat) (res : List SmemObs) : Prop :=
  (∀ b len, (∃ o ∈ res, o.b = b ∧ o.len = len) ↔ (Smem T p b len ∧ b ≤ i ∧ i < b + len ∧ l ≤ len)) ∧
  ∀ o ∈ res, SmemIntervalsOk T sa p o

/-- `all_smems(p, l)`: every supermaximal match of length at least `l` at least once, and nothing else -/
def AllSmemsProp (T sa p : List Nat) (l : Nat) (res : List SmemObs) : Prop :=
  (∀ b len, (∃ o ∈ res, o.b = b ∧ o.len = len) ↔ (Smem T p b len ∧ l ≤ len)) ∧
  ∀ o ∈ res, SmemIntervalsOk T sa p o

/-- the two intervals of a bi-interval -/
structure BiObs where
  flo : Nat
  fhi : Nat
  rlo : Nat
  rhi : Nat
  deriving Repr, DecidableEq

/-- `o` is the bi-interval of the string `w`: its size is the number of occurrences of `w` (so it is empty iff `w`
does not occur) and, when `w` occurs, the forward interval maps to exactly the occurrences of `w` and the
reverse-complement interval to exactly the occurrences of `revcomp w` -/
def BiIntervalOf (T sa w : List Nat) (o : BiObs) : Prop :=
  o.flo ≤ o.fhi ∧ o.rlo ≤ o.rhi ∧
  o.fhi - o.flo = (occurrences w T).length ∧ o.rhi - o.rlo = (occurrences w T).length ∧
  (Occurs w T → MapsTo sa o.flo o.fhi w T ∧ MapsTo sa o.rlo o.rhi (revcomp w) T)

end RbV
