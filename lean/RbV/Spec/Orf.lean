/-!
# Open reading frames (C20): specification and acceptance function

A sequence is a `List Nat`; codon sets are lists of lists.  Positions are 0-based; an ORF is the half-open range
`[s, e)` from the first base of its start codon to just after the last base of its stop codon
(`Orf { start, end, offset }` of `bio::seq_analysis::orf`).
-/
namespace RbV.Orf

/-- the (up to) three symbols starting at position `i` -/
def codonAt (seq : List Nat) (i : Nat) : List Nat := (seq.drop i).take 3

/-- `[s, e)` is an open reading frame: it starts with a start codon, ends with a stop codon, its length is a
multiple of three (so the stop codon is in frame), and no in-frame codon strictly between the start codon and the
final stop codon is a stop codon — i.e. the final codon is the *first* in-frame stop codon after the start. -/
def IsOrf (seq : List Nat) (starts stops : List (List Nat)) (s e : Nat) : Prop :=
  s + 6 ≤ e ∧ e ≤ seq.length ∧ (e - s) % 3 = 0 ∧
  codonAt seq s ∈ starts ∧ codonAt seq (e - 3) ∈ stops ∧
  ∀ k, s + 3 ≤ k → k + 6 ≤ e → (k - s) % 3 = 0 → codonAt seq k ∉ stops

/-- scan the codons at `k, k+3, k+6, …` for the first stop codon; result = position just after it -/
def stopSearch (seq : List Nat) (stops : List (List Nat)) : Nat → Nat → Option Nat
  | _, 0 => none
  | k, fuel + 1 =>
    if k + 3 ≤ seq.length then
      if stops.contains (codonAt seq k) then some (k + 3) else stopSearch seq stops (k + 3) fuel
    else none

/-- end of the reading frame opened by a start codon at `s`, if a stop codon follows in frame -/
def orfEnd (seq : List Nat) (stops : List (List Nat)) (s : Nat) : Option Nat :=
  stopSearch seq stops (s + 3) seq.length

def isOrfB (seq : List Nat) (starts stops : List (List Nat)) (s e : Nat) : Bool :=
  decide (s + 3 ≤ seq.length) && starts.contains (codonAt seq s) && (orfEnd seq stops s == some e)

/-- every open reading frame of the sequence, by ascending start -/
def allOrfs (seq : List Nat) (starts stops : List (List Nat)) : List (Nat × Nat) :=
  (List.range seq.length).filterMap fun s =>
    if decide (s + 3 ≤ seq.length) && starts.contains (codonAt seq s) then
      (orfEnd seq stops s).map fun e => (s, e)
    else none

/-- Acceptance of a reported list of `(start, end, offset)` triples — the sandwich of the property:
* every reported triple is an ORF, at least `minLen` long, with `offset = start % 3`;
* no triple is reported twice;
* every ORF more than two bases longer than `minLen` is reported. -/
def acceptOrf (seq : List Nat) (starts stops : List (List Nat)) (minLen : Nat) (out : List (Nat × Nat × Nat)) : Bool :=
  out.all (fun t => isOrfB seq starts stops t.1 t.2.1 && decide (minLen ≤ t.2.1 - t.1) && (t.2.2 == t.1 % 3)) &&
  decide out.Nodup &&
  (allOrfs seq starts stops).all (fun p => decide (p.2 - p.1 ≤ minLen + 2) || out.contains (p.1, p.2, p.1 % 3))

/-! ## Correctness of the search -/

theorem stopSearch_spec (seq : List Nat) (stops : List (List Nat)) (fuel : Nat) :
    ∀ k e, seq.length ≤ k + 3 * fuel →
      (stopSearch seq stops k fuel = some e ↔
        (k + 3 ≤ e ∧ e ≤ seq.length ∧ (e - k) % 3 = 0 ∧ codonAt seq (e - 3) ∈ stops ∧
          ∀ j, k ≤ j → j + 6 ≤ e → (j - k) % 3 = 0 → codonAt seq j ∉ stops)) := by
  induction fuel with
  | zero =>
    intro k e h
    simp only [stopSearch]
    constructor
    · intro h'; cases h'
    · intro ⟨h1, h2, _⟩; omega
  | succ n ih =>
    intro k e h
    simp only [stopSearch]
    by_cases hk : k + 3 ≤ seq.length
    · simp only [hk, if_true]
      by_cases hc : stops.contains (codonAt seq k) = true
      · simp only [hc, if_true]
        have hc' : codonAt seq k ∈ stops := by simpa using hc
        constructor
        · intro he
          have he' : k + 3 = e := by simpa using he
          subst he'
          refine ⟨by omega, hk, by omega, ?_, ?_⟩
          · simpa using hc'
          · intro j h1 h2 _; omega
        · intro ⟨h1, h2, h3, h4, h5⟩
          by_cases he : e = k + 3
          · simp [he]
          · exfalso
            exact h5 k (by omega) (by omega) (by omega) hc'
      · have hc' : codonAt seq k ∉ stops := by simpa using hc
        have hcf : stops.contains (codonAt seq k) = false := by simpa using hc
        simp only [hcf, Bool.false_eq_true, if_false]
        rw [ih (k + 3) e (by omega)]
        constructor
        · intro ⟨h1, h2, h3, h4, h5⟩
          refine ⟨by omega, h2, by omega, h4, ?_⟩
          intro j hj1 hj2 hj3
          by_cases hjk : j = k
          · subst hjk; exact hc'
          · exact h5 j (by omega) hj2 (by omega)
        · intro ⟨h1, h2, h3, h4, h5⟩
          have hne : e ≠ k + 3 := by
            intro he
            subst he
            have : k + 3 - 3 = k := by omega
            rw [this] at h4
            exact hc' h4
          refine ⟨by omega, h2, by omega, h4, ?_⟩
          intro j hj1 hj2 hj3
          exact h5 j (by omega) hj2 (by omega)
    · simp only [hk, if_false]
      constructor
      · intro h'; cases h'
      · intro ⟨h1, h2, _⟩; omega

theorem orfEnd_spec (seq : List Nat) (stops : List (List Nat)) (s e : Nat) :
    orfEnd seq stops s = some e ↔
      (s + 6 ≤ e ∧ e ≤ seq.length ∧ (e - s) % 3 = 0 ∧ codonAt seq (e - 3) ∈ stops ∧
        ∀ k, s + 3 ≤ k → k + 6 ≤ e → (k - s) % 3 = 0 → codonAt seq k ∉ stops) := by
  unfold orfEnd
  rw [stopSearch_spec seq stops seq.length (s + 3) e (by omega)]
  constructor
  · intro ⟨h1, h2, h3, h4, h5⟩
    refine ⟨by omega, h2, by omega, h4, ?_⟩
    intro k hk1 hk2 hk3
    exact h5 k hk1 hk2 (by omega)
  · intro ⟨h1, h2, h3, h4, h5⟩
    refine ⟨by omega, h2, by omega, h4, ?_⟩
    intro k hk1 hk2 hk3
    exact h5 k hk1 hk2 (by omega)

theorem isOrfB_iff (seq : List Nat) (starts stops : List (List Nat)) (s e : Nat) :
    isOrfB seq starts stops s e = true ↔ IsOrf seq starts stops s e := by
  unfold isOrfB IsOrf
  simp only [Bool.and_eq_true, decide_eq_true_eq, List.contains_iff_mem, beq_iff_eq]
  rw [orfEnd_spec]
  constructor
  · intro ⟨⟨_, h2⟩, h3, h4, h5, h6, h7⟩
    exact ⟨h3, h4, h5, h2, h6, h7⟩
  · intro ⟨h3, h4, h5, h2, h6, h7⟩
    exact ⟨⟨by omega, h2⟩, h3, h4, h5, h6, h7⟩

theorem mem_allOrfs (seq : List Nat) (starts stops : List (List Nat)) (s e : Nat) :
    (s, e) ∈ allOrfs seq starts stops ↔ IsOrf seq starts stops s e := by
  rw [← isOrfB_iff]
  unfold allOrfs isOrfB
  simp only [List.mem_filterMap, List.mem_range]
  constructor
  · intro ⟨s', hs', h⟩
    by_cases hc : (decide (s' + 3 ≤ seq.length) && starts.contains (codonAt seq s')) = true
    · simp only [hc, if_true, Option.map_eq_some_iff] at h
      obtain ⟨e', he', hp⟩ := h
      have h1 : s' = s := by simpa using congrArg Prod.fst hp
      have h2 : e' = e := by simpa using congrArg Prod.snd hp
      subst h1; subst h2
      simp only [Bool.and_eq_true] at hc ⊢
      refine ⟨hc, ?_⟩
      simp [he']
    · exfalso
      simp only [hc] at h
      simp at h
  · intro h
    simp only [Bool.and_eq_true, beq_iff_eq] at h
    refine ⟨s, ?_, ?_⟩
    · have := h.1.1
      simp only [decide_eq_true_eq] at this
      omega
    · have hc : (decide (s + 3 ≤ seq.length) && starts.contains (codonAt seq s)) = true := by
        simp only [Bool.and_eq_true]; exact h.1
      simp only [hc, if_true, h.2, Option.map_some]

end RbV.Orf
