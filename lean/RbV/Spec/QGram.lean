import RbV.Spec.Occ
/-!
# C19 — q-gram codes, q-gram index, per-diagonal matches (spec = executable reference; core Lean only)

* `bitsFor n`            the width `⌈log₂ n⌉` used by `RankTransform::{qgrams,rev_qgrams,get_width}`
* `rank alpha c`         rank of a symbol = number of smaller alphabet symbols
* `code b rs`            positional code, base `2^b`, first symbol most significant
* `fwdCodes`             codes of all windows of length `q`, left to right
* `qgramPositions`       ascending positions of a q-gram, nothing when it occurs more than `mc` times
* `hits`                 all (pattern position, text position) pairs with equal, unmasked q-grams
* `matchesRef`           per diagonal: first/last hit → spanned ranges, hit count (≥ `minc`)
* `exactMatchesRef`      per diagonal: maximal runs of consecutive hits → ranges
-/
namespace RbV.QGram
open RbV

/-- `⌈log₂ n⌉` (0 for n ≤ 1) -/
def bitsFor (n : Nat) : Nat := if n ≤ 1 then 0 else Nat.log2 (n - 1) + 1

/-- the alphabet as the ascending duplicate-free list of its byte symbols -/
def alphaSet (alpha : List Nat) : List Nat := (List.range 256).filter (fun c => alpha.contains c)

/-- rank of symbol `c` = number of alphabet symbols below it (`alpha` ascending and duplicate free) -/
def rank (alpha : List Nat) (c : Nat) : Nat := (alpha.filter (· < c)).length

/-- positional code: first symbol most significant, `b` bits per symbol -/
def code (b : Nat) (rs : List Nat) : Nat := rs.foldl (fun c r => c * 2 ^ b + r) 0

/-- window of length `q` starting at `i` -/
def window (q : Nat) (l : List Nat) (i : Nat) : List Nat := (l.drop i).take q

/-- all windows of length `q`, left to right (none when the list is shorter than `q`) -/
def windows (q : Nat) (l : List Nat) : List (List Nat) :=
  (List.range (l.length + 1 - q)).map (window q l)

/-- the q-gram codes `RankTransform::qgrams(q, text)` must yield -/
def fwdCodes (alpha : List Nat) (q : Nat) (text : List Nat) : List Nat :=
  (windows q (text.map (rank alpha))).map (code (bitsFor alpha.length))

/-- text positions listed for q-gram `gram`: all occurrences in ascending order, nothing when there are more
than `mc` of them -/
def qgramPositions (mc : Nat) (gram text : List Nat) : List Nat :=
  let occ := occurrences gram text
  if occ.length > mc then [] else occ

/-- all q-gram hits (pattern position i, text position p), by i then p -/
def hits (mc q : Nat) (pat text : List Nat) : List (Nat × Nat) :=
  (List.range (pat.length + 1 - q)).flatMap fun i =>
    (qgramPositions mc (window q pat i) text).map fun p => (i, p)

/-- diagonal of a hit: text position − pattern position -/
def diag (h : Nat × Nat) : Int := (h.2 : Int) - (h.1 : Int)

def dedupInt : List Int → List Int
  | [] => []
  | a :: l => a :: (dedupInt l).filter (· ≠ a)

def minList (d : Nat) : List Nat → Nat
  | [] => d
  | a :: l => l.foldl min a

def maxList (d : Nat) : List Nat → Nat
  | [] => d
  | a :: l => l.foldl max a

/-- a `Match`: pattern.start, pattern.stop, text.start, text.stop, count -/
abbrev MatchRec := Nat × Nat × Nat × Nat × Nat

/-- the record of diagonal `d` given all hits `H` -/
def diagRec (q : Nat) (H : List (Nat × Nat)) (d : Int) : MatchRec :=
  let hd := H.filter (fun h => diag h = d)
  let is := hd.map (·.1)
  let ps := hd.map (·.2)
  (minList 0 is, maxList 0 is + q, minList 0 ps, maxList 0 ps + q, hd.length)

/-- `matches(pattern, minc)`: one record per diagonal that carries at least one and at least `minc` hits -/
def matchesRef (mc q minc : Nat) (pat text : List Nat) : List MatchRec :=
  let H := hits mc q pat text
  ((dedupInt (H.map diag)).map (diagRec q H)).filter (fun r => r.2.2.2.2 ≥ minc)

/-- is (i, p) a hit? -/
def isHit (mc q : Nat) (pat text : List Nat) (i p : Nat) : Bool :=
  i + q ≤ pat.length && (qgramPositions mc (window q pat i) text).contains p

/-- number of consecutive hits (i, p), (i+1, p+1), … (at most `fuel`) -/
def runLen (mc q : Nat) (pat text : List Nat) : Nat → Nat → Nat → Nat
  | 0, _, _ => 0
  | fuel + 1, i, p => if isHit mc q pat text i p then runLen mc q pat text fuel (i + 1) (p + 1) + 1 else 0

/-- an `ExactMatch`: pattern.start, pattern.stop, text.start, text.stop -/
abbrev ExactRec := Nat × Nat × Nat × Nat

/-- `exact_matches(pattern)`: every maximal run of consecutive hits along a diagonal, as ranges -/
def exactMatchesRef (mc q : Nat) (pat text : List Nat) : List ExactRec :=
  (hits mc q pat text).filterMap fun (i, p) =>
    if i > 0 && p > 0 && isHit mc q pat text (i - 1) (p - 1) then none
    else
      let n := runLen mc q pat text (pat.length + 1) i p
      some (i, i + n - 1 + q, p, p + n - 1 + q)

/-- all pairs (i, j) with `x[i..i+k] = y[j..j+k]`, in lexicographic order -/
def kmerMatches (x y : List Nat) (k : Nat) : List (Nat × Nat) :=
  (List.range (x.length + 1 - k)).flatMap fun i => (occurrences (window k x i) y).map fun j => (i, j)

end RbV.QGram
