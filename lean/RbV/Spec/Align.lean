import RbV.Gen.Limits
/-
Pairwise alignment with affine gaps and clipped ends — the mathematical content of C01 / C02
(core Lean only; shared with C09/C10/C16 through the unit-cost specialisation).

Conventions are those of rust-bio's `pairwise` module:
* `ins` consumes one symbol of `x` (x aligned with a gap), `del` consumes one symbol of `y`;
* a maximal run of `k` insertions (or of `k` deletions) costs `go + k·ge`; an insertion directly after a
  deletion (or vice versa) opens a new gap;
* `mat` is only allowed on equal symbols and `sub` only on unequal ones; both score `w a b`;
* an alignment aligns the sub-range `x[xs..xe]` with `y[ys..ye]`; each of the four clipped ends that is
  **non-empty** costs its clip penalty once.
-/
namespace RbV.Align

inductive Op | mat | sub | ins | del
deriving DecidableEq, Repr

/-- kind of the previous column (needed for the affine gap cost) -/
inductive St | none | ins | del
deriving DecidableEq, Repr

structure Sc where
  w : Nat → Nat → Int
  go : Int
  ge : Int

/-- the four clip penalties (x prefix, x suffix, y prefix, y suffix) -/
structure Clip where
  xp : Int
  xs : Int
  yp : Int
  ys : Int
deriving DecidableEq, Repr

/-- `MIN_SCORE` of `bio::alignment::pairwise`: the code's "minus infinity" (an ordinary integer here).
Not a copy: `RbV/Gen/Limits.lean` is regenerated from the source text of `pairwise/mod.rs` on every `./check C01|C02`
(tools/gen_tables.py), so the specification follows the tree under test; what the value must satisfy is stated in
`RbV/Thm/GenLimits.lean` and restated in `RbV/Thm/C01.lean` / `C02.lean`.  No theorem about `score`/`opt`/`accept`
depends on the numeric value. -/
def minScore : Int := RbV.Gen.Limits.minScorePairwise

def gapI (sc : Sc) : St → Int
  | .ins => sc.ge
  | _ => sc.go + sc.ge

def gapD (sc : Sc) : St → Int
  | .del => sc.ge
  | _ => sc.go + sc.ge

/-- score of an operation list aligning exactly `x` with `y`; `none` = not a valid alignment of `x` with `y` -/
def score (sc : Sc) : St → List Nat → List Nat → List Op → Option Int
  | _, [], [], [] => some 0
  | _, a :: x, b :: y, .mat :: r =>
      if a = b then (score sc .none x y r).map (· + sc.w a b) else none
  | _, a :: x, b :: y, .sub :: r =>
      if a ≠ b then (score sc .none x y r).map (· + sc.w a b) else none
  | st, _ :: x, y, .ins :: r => (score sc .ins x y r).map (· + gapI sc st)
  | st, x, _ :: y, .del :: r => (score sc .del x y r).map (· + gapD sc st)
  | _, _, _, _ => none

/-- validity alone (independent of the scoring scheme): the operations consume exactly `x` and `y`,
`mat` on equal symbols only, `sub` on unequal symbols only -/
def valid : List Nat → List Nat → List Op → Bool
  | [], [], [] => true
  | a :: x, b :: y, .mat :: r => a = b && valid x y r
  | a :: x, b :: y, .sub :: r => a ≠ b && valid x y r
  | _ :: x, y, .ins :: r => valid x y r
  | x, _ :: y, .del :: r => valid x y r
  | _, _, _ => false

theorem score_isSome_eq_valid (sc : Sc) : ∀ (ops : List Op) (st : St) (x y : List Nat),
    (score sc st x y ops).isSome = valid x y ops := by
  intro ops
  induction ops with
  | nil => intro st x y; cases x <;> cases y <;> simp [score, valid]
  | cons o r ih =>
    intro st x y
    cases o with
    | mat =>
      cases x with
      | nil => cases y <;> simp [score, valid]
      | cons a x =>
        cases y with
        | nil => simp [score, valid]
        | cons b y =>
          simp only [score, valid]
          by_cases h : a = b <;> simp [h, ih]
    | sub =>
      cases x with
      | nil => cases y <;> simp [score, valid]
      | cons a x =>
        cases y with
        | nil => simp [score, valid]
        | cons b y =>
          simp only [score, valid]
          by_cases h : a = b <;> simp [h, ih]
    | ins =>
      cases x with
      | nil => cases y <;> simp [score, valid]
      | cons a x => simp [score, valid, ih]
    | del =>
      cases y with
      | nil => cases x <;> simp [score, valid]
      | cons b y => cases x <;> simp [score, valid, ih]

theorem valid_iff_score (sc : Sc) (st : St) (x y : List Nat) (ops : List Op) :
    valid x y ops = true ↔ ∃ v, score sc st x y ops = some v := by
  rw [← score_isSome_eq_valid sc ops st x y, Option.isSome_iff_exists]

/-- the sub-range `x[s..e]` -/
def slice (x : List Nat) (s e : Nat) : List Nat := (x.take e).drop s

/-- an alignment as a mathematical object: the two sub-ranges and the operations between them -/
structure Aln where
  xs : Nat
  xe : Nat
  ys : Nat
  ye : Nat
  ops : List Op
deriving DecidableEq, Repr

/-- `a` is an alignment of a sub-range of `x` with a sub-range of `y` -/
def IsAln (x y : List Nat) (a : Aln) : Prop :=
  a.xs ≤ a.xe ∧ a.xe ≤ x.length ∧ a.ys ≤ a.ye ∧ a.ye ≤ y.length ∧
  valid (slice x a.xs a.xe) (slice y a.ys a.ye) a.ops = true

instance (x y : List Nat) (a : Aln) : Decidable (IsAln x y a) := by unfold IsAln; infer_instance

/-- clip penalty of every non-empty clipped end (`m`, `n` = lengths of x and y) -/
def clipPen (cl : Clip) (m n xs xe ys ye : Nat) : Int :=
  (if 0 < xs then cl.xp else 0) + (if xe < m then cl.xs else 0) +
  (if 0 < ys then cl.yp else 0) + (if ye < n then cl.ys else 0)

/-- `v` is the score of alignment `a` under `(sc, cl)`: affine-gap score of the operations on the two
sub-ranges plus the clip penalties of the non-empty clipped ends -/
def AlnScore (sc : Sc) (cl : Clip) (x y : List Nat) (a : Aln) (v : Int) : Prop :=
  ∃ c, score sc .none (slice x a.xs a.xe) (slice y a.ys a.ye) a.ops = some c ∧
    v = c + clipPen cl x.length y.length a.xs a.xe a.ys a.ye

/-- `s` is the optimum of the documented model: attained by some alignment, exceeded by none -/
def Optimal (sc : Sc) (cl : Clip) (x y : List Nat) (s : Int) : Prop :=
  (∃ a, IsAln x y a ∧ AlnScore sc cl x y a s) ∧
  (∀ a v, IsAln x y a → AlnScore sc cl x y a v → v ≤ s)

theorem Optimal_unique {sc : Sc} {cl : Clip} {x y : List Nat} {s t : Int}
    (hs : Optimal sc cl x y s) (ht : Optimal sc cl x y t) : s = t := by
  obtain ⟨⟨a, ha, has⟩, hsu⟩ := hs
  obtain ⟨⟨b, hb, hbt⟩, htu⟩ := ht
  have h1 := hsu b t hb hbt
  have h2 := htu a s ha has
  omega

/-! ### What an aligner reports -/

/-- reported operations: core operations and clip operations with their lengths -/
inductive AOp
  | core (o : Op)
  | xclip (n : Nat)
  | yclip (n : Nat)
deriving DecidableEq, Repr

def coreOps : List AOp → List Op
  | [] => []
  | .core o :: r => o :: coreOps r
  | _ :: r => coreOps r

def xclipSum : List AOp → Nat
  | [] => 0
  | .xclip n :: r => n + xclipSum r
  | _ :: r => xclipSum r

def yclipSum : List AOp → Nat
  | [] => 0
  | .yclip n :: r => n + yclipSum r
  | _ :: r => yclipSum r

def hasClip : List AOp → Bool
  | [] => false
  | .core _ :: r => hasClip r
  | _ :: _ => true

/-- the reported `Alignment` value (mode omitted) -/
structure Out where
  score : Int
  xs : Nat
  xe : Nat
  ys : Nat
  ye : Nat
  xlen : Nat
  ylen : Nat
  ops : List AOp
deriving DecidableEq, Repr

def Out.toAln (o : Out) : Aln := ⟨o.xs, o.xe, o.ys, o.ye, coreOps o.ops⟩

/-- representation rule for clips (the weak reading fixed in DESIGN §4: lengths are checked by their sum
per sequence against the coordinates, not by the position of the clip operations in the list).
`filtered` = the mode documents that clip operations are removed (semiglobal, local). -/
def ClipRule (filtered : Bool) (x y : List Nat) (o : Out) : Prop :=
  o.xlen = x.length ∧ o.ylen = y.length ∧
  (if filtered then hasClip o.ops = false
   else xclipSum o.ops = o.xs + (x.length - o.xe) ∧ yclipSum o.ops = o.ys + (y.length - o.ye))

instance (f : Bool) (x y : List Nat) (o : Out) : Decidable (ClipRule f x y o) := by
  unfold ClipRule; infer_instance

end RbV.Align
