/-
C17 — specification and reference functions for rank/select on bit vectors and for the wavelet matrix.

Spec (declarative):
* `rank b bits i`  = number of `b`-bits at positions `0..=i`           (`RankSpec`)
* `IsSelect b bits j p` : position `p` holds the `j`-th `b`-bit (1-based)
* `occ text c p`   = number of occurrences of `c` in `text[0..=p]`
Reference functions used by the driver: `rankRef` (None beyond the end), `selectRef` (via the ascending list
`positions` of all `b`-bits), and the linear-time tables `prefixCounts`.  The lemmas connecting them are in
`RbV/Lemmas/RankSelect.lean`; the property theorems in `RbV/Thm/C17.lean`.
Core Lean only.
-/
namespace RbV.Spec.RankSelect

/-- number of `b`-bits among positions `0..=i` -/
def rank (b : Bool) (bits : List Bool) (i : Nat) : Nat := (bits.take (i + 1)).count b

/-- `rank_1` / `rank_0` of the property: `None` beyond the end -/
def rankRef (b : Bool) (bits : List Bool) (i : Nat) : Option Nat :=
  if i < bits.length then some (rank b bits i) else none

/-- `p` is the position of the `j`-th `b`-bit -/
def IsSelect (b : Bool) (bits : List Bool) (j p : Nat) : Prop :=
  bits[p]? = some b ∧ rank b bits p = j

/-- ascending list of the positions of all `b`-bits; `off` is the position of the head -/
def positions (b : Bool) : List Bool → Nat → List Nat
  | [], _ => []
  | x :: xs, off => if x = b then off :: positions b xs (off + 1) else positions b xs (off + 1)

/-- `select_1` / `select_0` of the property: `None` for `j = 0` and for `j` larger than the count -/
def selectRef (b : Bool) (bits : List Bool) (j : Nat) : Option Nat :=
  if j = 0 then none else (positions b bits 0)[j - 1]?

/-- running counts: entry `i` = `rank b bits i` (one pass; what the driver evaluates) -/
def prefixCounts (b : Bool) : List Bool → Nat → List Nat
  | [], _ => []
  | x :: xs, acc =>
    let acc' := if x = b then acc + 1 else acc
    acc' :: prefixCounts b xs acc'

/-! ### wavelet matrix -/

/-- occurrences of `c` in `text[0..=p]` -/
def occ (text : List Nat) (c p : Nat) : Nat := (text.take (p + 1)).count c

/-- the six symbols of the property: A C G T N $ -/
def dnaSyms : List Nat := [65, 67, 71, 84, 78, 36]

/-- the check the driver applies to the `DNA2INT` table printed by the harness: 128 entries, codes of the six
symbols below 8 and pairwise distinct -/
def tableOk (t : List Nat) : Bool :=
  t.length == 128 && dnaSyms.all (fun a => t.getD a 0 < 8) &&
  dnaSyms.all (fun a => dnaSyms.all (fun b => a == b || t.getD a 0 != t.getD b 0))

/-- literal copy of `const DNA2INT: [u8; 128]` in src/data_structures/wavelet_matrix.rs (pinned tree) -/
def dna2intLit : List Nat := [
    0, 0, 0, 0, 0, 0, 0, 0, 0, 0,
    0, 0, 0, 0, 0, 0, 0, 0, 0, 0,
    0, 0, 0, 0, 0, 0, 0, 0, 0, 0,
    0, 0, 0, 0, 0, 0, 5, 0, 0, 0,
    0, 0, 0, 0, 0, 0, 0, 0, 0, 1,
    2, 3, 4, 5, 6, 7, 0, 0, 0, 0,
    0, 0, 0, 0, 0, 0, 0, 1, 0, 0,
    0, 2, 0, 0, 0, 0, 0, 0, 4, 0,
    0, 0, 0, 0, 3, 0, 0, 0, 0, 0,
    0, 0, 0, 0, 0, 0, 0, 0, 0, 1,
    0, 0, 0, 2, 0, 0, 0, 0, 0, 0,
    4, 0, 0, 0, 0, 0, 3, 0, 0, 0,
    0, 0, 0, 0, 0, 0, 0, 0]

end RbV.Spec.RankSelect
