import RbV.Model.Poa
import RbV.Spec.PoaGraph
/-!
# The mirror model of `add_alignment` only ever grows the graph

For every graph, every operation list (valid alignment or not, any mode) and every query:
labels of existing nodes are kept, every edge stays, no total edge weight decreases, and at most one node
is created per operation that consumes a query symbol.  (`Extends` is the predicate the driver checks on
the real dumps with `extendsB`.)
-/
namespace RbV.Poa.Model
open RbV.Poa

/-- 1 for the operations that consume a query symbol -/
def opCost : POp → Nat
  | .m _ => 1
  | .i _ => 1
  | _ => 0

/-- a composable form of "only grows" -/
structure Grows (g1 g2 : G) : Prop where
  labels : ∃ t, g2.labels = g1.labels ++ t
  edges : ∀ e ∈ plain g1.es, e ∈ plain g2.es
  weights : ∀ u v, weight g1.es u v ≤ weight g2.es u v

theorem Grows.refl (g : G) : Grows g g := ⟨⟨[], by simp⟩, fun _ h => h, fun _ _ => Int.le_refl _⟩

theorem Grows.trans {a b c : G} (h1 : Grows a b) (h2 : Grows b c) : Grows a c := by
  obtain ⟨t1, ht1⟩ := h1.labels
  obtain ⟨t2, ht2⟩ := h2.labels
  refine ⟨⟨t1 ++ t2, by rw [ht2, ht1, List.append_assoc]⟩, fun e h => h2.edges e (h1.edges e h), fun u v => ?_⟩
  exact Int.le_trans (h1.weights u v) (h2.weights u v)

theorem Grows.extends {a b : G} (h : Grows a b) : Extends a.labels a.es b.labels b.es := by
  obtain ⟨t, ht⟩ := h.labels
  exact ⟨by rw [ht]; simp, h.edges, fun e _ => h.weights e.1 e.2⟩

theorem weight_append (es : WEdges) (x : Nat × Nat × Int) (u v : Nat) :
    weight (es ++ [x]) u v = weight es u v + (if x.1 = u ∧ x.2.1 = v then x.2.2 else 0) := by
  induction es with
  | nil => obtain ⟨a, b, w⟩ := x; simp [weight]
  | cons e r ih => obtain ⟨a, b, w⟩ := e; simp only [List.cons_append, weight, ih]; omega

theorem grows_addNode (g : G) (c : Nat) : Grows g (g.addNode c).1 :=
  ⟨⟨[c], rfl⟩, fun _ h => h, fun _ _ => Int.le_refl _⟩

theorem grows_addEdge (g : G) (a b : Nat) : Grows g (g.addEdge a b) := by
  refine ⟨⟨[], by simp [G.addEdge]⟩, ?_, ?_⟩
  · intro e h; simp only [G.addEdge, plain, List.map_append, List.mem_append]; exact Or.inl h
  · intro u v
    simp only [G.addEdge, weight_append]
    split <;> omega

theorem plain_bumpEdge : ∀ (es : WEdges) (k : Nat), plain (bumpEdge es k) = plain es := by
  intro es
  induction es with
  | nil => intro k; simp [bumpEdge]
  | cons e r ih =>
    intro k
    cases k with
    | zero => simp [bumpEdge, plain]
    | succ k => simp only [bumpEdge, plain, List.map_cons]; have := ih k; simp only [plain] at this; rw [this]

theorem weight_bumpEdge : ∀ (es : WEdges) (k u v : Nat), weight es u v ≤ weight (bumpEdge es k) u v := by
  intro es
  induction es with
  | nil => intro k u v; simp [bumpEdge]
  | cons e r ih =>
    intro k u v
    obtain ⟨a, b, w⟩ := e
    cases k with
    | zero => simp only [bumpEdge, weight]; split <;> omega
    | succ k => simp only [bumpEdge, weight]; have := ih k u v; omega

theorem grows_bump (g : G) (k : Nat) : Grows g { g with es := bumpEdge g.es k } :=
  ⟨⟨[], by simp⟩, fun e h => by simpa [plain_bumpEdge] using h, fun u v => weight_bumpEdge g.es k u v⟩

/-- one operation: the graph grows, by at most one node, and by none if the operation is `Del`/clip -/
theorem addStep_grows (head : Nat) (seq : List Nat) (st : AddSt) (op : POp) :
    Grows st.g (addStep head seq st op).g ∧
    (addStep head seq st op).g.labels.length ≤ st.g.labels.length + opCost op := by
  cases op with
  | m pq =>
    cases pq with
    | none =>
      simp only [addStep]
      split
      · split
        · split
          · refine ⟨?_, by simp [G.addNode, G.addEdge, opCost]⟩
            exact ((grows_addNode _ _).trans (grows_addEdge _ _ _)).trans (grows_addEdge _ _ _)
          · refine ⟨?_, by simp [G.addNode, G.addEdge, opCost]⟩
            exact (grows_addNode _ _).trans (grows_addEdge _ _ _)
        · split
          · refine ⟨?_, by simp [G.addNode, G.addEdge, opCost]⟩
            exact (grows_addNode _ _).trans (grows_addEdge _ _ _)
          · exact ⟨grows_addNode _ _, by simp [G.addNode, opCost]⟩
      · split
        · exact ⟨grows_addEdge _ _ _, by simp [G.addEdge, opCost]⟩
        · exact ⟨Grows.refl _, by simp [opCost]⟩
    | some pq =>
      obtain ⟨_, p⟩ := pq
      simp only [addStep]
      split
      · exact ⟨(grows_addNode _ _).trans (grows_addEdge _ _ _), by simp [G.addNode, G.addEdge, opCost]⟩
      · split
        · exact ⟨grows_bump _ _, by simp [opCost]⟩
        · split
          · exact ⟨grows_addEdge _ _ _, by simp [G.addEdge, opCost]⟩
          · exact ⟨Grows.refl _, by simp [opCost]⟩
  | i p =>
    cases p with
    | none =>
      simp only [addStep]
      split
      · exact ⟨(grows_addNode _ _).trans (grows_addEdge _ _ _), by simp [G.addNode, G.addEdge, opCost]⟩
      · exact ⟨grows_addNode _ _, by simp [G.addNode, opCost]⟩
    | some p =>
      simp only [addStep]
      exact ⟨(grows_addNode _ _).trans (grows_addEdge _ _ _), by simp [G.addNode, G.addEdge, opCost]⟩
  | d pq => exact ⟨Grows.refl _, by simp [addStep, opCost]⟩
  | x r => exact ⟨Grows.refl _, by simp [addStep, opCost]⟩
  | y a b => exact ⟨Grows.refl _, by simp [addStep, opCost]⟩

/-- number of operations that consume a query symbol -/
def consuming (ops : List POp) : Nat := (ops.map opCost).sum

theorem foldl_addStep_grows (head : Nat) (seq : List Nat) : ∀ (ops : List POp) (st : AddSt),
    Grows st.g (ops.foldl (addStep head seq) st).g ∧
    (ops.foldl (addStep head seq) st).g.labels.length ≤ st.g.labels.length + consuming ops := by
  intro ops
  induction ops with
  | nil => intro st; exact ⟨Grows.refl _, by simp [consuming]⟩
  | cons o r ih =>
    intro st
    have h1 := addStep_grows head seq st o
    have h2 := ih (addStep head seq st o)
    simp only [List.foldl_cons]
    refine ⟨h1.1.trans h2.1, ?_⟩
    have hc : consuming (o :: r) = opCost o + consuming r := by simp [consuming]
    omega

theorem addAlignment_grows (g : G) (ops : List POp) (seq : List Nat) :
    Extends g.labels g.es (addAlignment g ops seq).labels (addAlignment g ops seq).es ∧
    (addAlignment g ops seq).labels.length ≤ g.labels.length + consuming ops := by
  unfold addAlignment
  have := foldl_addStep_grows ((topo g.labels.length g.es).headD 0) seq ops
    { g := g, prev := (topo g.labels.length g.es).headD 0 }
  exact ⟨this.1.extends, this.2⟩

end RbV.Poa.Model

/-! ## Re-adding the reference along the identity alignment creates no node -/

namespace RbV.Poa.Model
open RbV.Poa

/-- every operation is a `Match` whose query symbol equals the label of the matched node, or a `Del` -/
def Quiet (labels : List Nat) (head : Nat) (seq : List Nat) : Nat → List POp → Prop
  | _, [] => True
  | i, .m none :: r => seq.getD i 0 = labels.getD head 0 ∧ Quiet labels head seq (i + 1) r
  | i, .m (some (_, p)) :: r => seq.getD i 0 = labels.getD p 0 ∧ Quiet labels head seq (i + 1) r
  | i, .d _ :: r => Quiet labels head seq i r
  | _, _ => False

theorem quiet_labels (head : Nat) (seq : List Nat) : ∀ (ops : List POp) (st : AddSt),
    Quiet st.g.labels head seq st.i ops → (ops.foldl (addStep head seq) st).g.labels = st.g.labels := by
  intro ops
  induction ops with
  | nil => intro st _; rfl
  | cons o r ih =>
    intro st hq
    simp only [List.foldl_cons]
    cases o with
    | m pq =>
      cases pq with
      | none =>
        simp only [Quiet] at hq
        have hstep : (addStep head seq st (.m none)).g.labels = st.g.labels ∧ (addStep head seq st (.m none)).i = st.i + 1 := by
          simp only [addStep, hq.1, ne_eq, not_true_eq_false, Bool.false_and, decide_false, Bool.false_eq_true, if_false]
          split <;> simp [G.addEdge]
        rw [ih _ (by rw [hstep.1, hstep.2]; exact hq.2), hstep.1]
      | some pq =>
        obtain ⟨a, p⟩ := pq
        simp only [Quiet] at hq
        have hstep : (addStep head seq st (.m (some (a, p)))).g.labels = st.g.labels ∧
            (addStep head seq st (.m (some (a, p)))).i = st.i + 1 := by
          simp only [addStep, hq.1, ne_eq, not_true_eq_false, Bool.false_and, decide_false, Bool.false_eq_true, if_false]
          split
          · simp
          · split <;> simp [G.addEdge]
        rw [ih _ (by rw [hstep.1, hstep.2]; exact hq.2), hstep.1]
    | d pq =>
      simp only [Quiet] at hq
      exact ih _ (by simpa [addStep] using hq)
    | i p => simp [Quiet] at hq
    | x r' => simp [Quiet] at hq
    | y a b => simp [Quiet] at hq

/-- the operation list of the identity alignment on a chain: `Match(None), Match(0,1), Match(1,2), …` -/
def idTail : Nat → Nat → List POp
  | _, 0 => []
  | k, n + 1 => .m (some (k, k + 1)) :: idTail (k + 1) n

def idOps (n : Nat) : List POp := .m none :: idTail 0 (n - 1)

theorem quiet_idTail (x : List Nat) (head : Nat) : ∀ (n k : Nat), Quiet x head x (k + 1) (idTail k n) := by
  intro n
  induction n with
  | zero => intro k; simp [idTail, Quiet]
  | succ n ih => intro k; simp only [idTail, Quiet, true_and]; exact ih (k + 1)

/-- re-adding the reference along the identity alignment (whatever the edge weights are by now) leaves the
node labels equal to the reference -/
theorem addAlignment_identity_labels (x : List Nat) (es : WEdges)
    (hhead : x.getD ((topo x.length es).headD 0) 0 = x.getD 0 0) :
    (addAlignment { labels := x, es := es } (idOps x.length) x).labels = x := by
  unfold addAlignment
  apply quiet_labels
  simp only [idOps, Quiet]
  exact ⟨hhead.symm, quiet_idTail x _ _ 0⟩

end RbV.Poa.Model
