import RbV.Lemmas.TracebackState
/-!
The states vector of the Myers traceback as a ring buffer (C10 [C]).  Core Lean only.

* `readSlot_mod`: the reversed, cyclic iterator started at the slot of sequence number `q` reaches, with its `k`-th
  `next()`, the slot of sequence number `q − k`.
* `storeAll_get`: after the items have been stored cyclically, each of the last `N` items is in its slot `s % N`.
* `ring_read`: hence the `k`-th item read is item `q − k`, as long as fewer than `N` items were stored after it.
* `stored_concrete`: the states the search stores satisfy the assumptions of `loop_eq_walkF` with the Sellers matrix.
* `tracebackStore_eq`: the whole stored-state traceback returns the start and path of the matrix-level rule.
-/
namespace RbV.Model.MyersTraceback
open RbV.EditDist
open RbV.Model.MyersSimple (St)
open RbV.Model.Ukkonen (cell cell_zero cell_nil)

/-! ### modular arithmetic of the slots -/

theorem mod_add_ne (N a d : Nat) (hd : 0 < d) (hdN : d < N) : (a + d) % N ≠ a % N := by
  intro h
  have h1 := Nat.sub_mod_eq_zero_of_mod_eq h
  have e : a + d - a = d := by omega
  rw [e, Nat.mod_eq_of_lt hdN] at h1
  omega

theorem add_mul_mod_small (N x y : Nat) (hx : x < N) : (x + N * y) % N = x := by
  rw [Nat.add_mul_mod_self_left, Nat.mod_eq_of_lt hx]

theorem readSlot_mod (N q k : Nat) (hN : 0 < N) (hk : k ≤ q) : readSlot N (q % N) k = (q - k) % N := by
  unfold readSlot
  have hdm := Nat.div_add_mod q N
  have hlt := Nat.mod_lt q hN
  generalize q % N = r at *
  generalize q / N = cq at *
  by_cases hc : k ≤ r
  · rw [if_pos hc]
    have e : q - k = (r - k) + N * cq := by omega
    rw [e, add_mul_mod_small N _ _ (by omega)]
  · rw [if_neg hc]
    -- d = k − pos − 1;  (q − k) + d + 1 = N · (q / N)
    generalize hdd : k - r - 1 = d at *
    have hd := Nat.div_add_mod d N
    have hr := Nat.mod_lt d hN
    generalize d % N = rd at *
    generalize d / N = cd at *
    have hle : N * cd ≤ N * cq := by omega
    have hsub : N * (cq - cd) = N * cq - N * cd := Nat.mul_sub _ _ _
    have hg : cq - cd ≥ 1 := by
      apply Nat.pos_of_ne_zero
      intro h0
      rw [h0] at hsub
      omega
    obtain ⟨g, hgg⟩ : ∃ g, cq - cd = g + 1 := ⟨cq - cd - 1, by omega⟩
    rw [hgg, Nat.mul_succ] at hsub
    have e : q - k = (N - 1 - rd) + N * g := by omega
    rw [e, add_mul_mod_small N _ _ (by omega)]

/-! ### the cyclic store -/

theorem storeAll_length {w : Nat} (N : Nat) : ∀ (items : List (St w)) (store : List (St w)) (s : Nat),
    (storeAll N store s items).length = store.length := by
  intro items
  induction items with
  | nil => intro store s; rfl
  | cons x r ih => intro store s; simp [storeAll, ih]

theorem storeAll_untouched {w : Nat} (N : Nat) : ∀ (items : List (St w)) (store : List (St w)) (s r : Nat),
    (∀ i, i < items.length → (s + i) % N ≠ r) → (storeAll N store s items)[r]? = store[r]? := by
  intro items
  induction items with
  | nil => intro store s r _; rfl
  | cons x rest ih =>
    intro store s r h
    simp only [storeAll]
    rw [ih (store.set (s % N) x) (s + 1) r]
    · have := h 0 (by simp)
      simp only [Nat.add_zero] at this
      rw [List.getElem?_set_ne this]
    · intro i hi
      have := h (i + 1) (by simp; omega)
      rw [show s + 1 + i = s + (i + 1) by omega]
      exact this

/-- each of the last `N` items is found in its slot -/
theorem storeAll_get {w : Nat} (N : Nat) (hN : 0 < N) : ∀ (items : List (St w)) (store : List (St w)) (s i : Nat),
    store.length = N → (hi : i < items.length) → items.length - 1 - i < N →
    (storeAll N store s items)[(s + i) % N]? = some items[i] := by
  intro items
  induction items with
  | nil => intro store s i _ hi; simp at hi
  | cons x rest ih =>
    intro store s i hl hi hwin
    simp only [storeAll]
    cases i with
    | zero =>
      simp only [List.length_cons, Nat.add_sub_cancel, Nat.sub_zero] at hwin
      simp only [Nat.add_zero]
      rw [storeAll_untouched N rest _ (s + 1) (s % N)]
      · rw [List.getElem?_set_self (by rw [hl]; exact Nat.mod_lt s hN)]
        rfl
      · intro i hi'
        rw [show s + 1 + i = s + (i + 1) by omega]
        exact mod_add_ne N s (i + 1) (by omega) (by omega)
    | succ i' =>
      have := ih (store.set (s % N) x) (s + 1) i' (by simp [hl]) (by simpa using hi)
        (by simp only [List.length_cons] at hwin; omega)
      rw [show s + (i' + 1) = s + 1 + i' by omega, this]
      rfl

/-- **ring lookup**: `N` slots filled cyclically from sequence number 0 with `items`; the iterator started at the slot
of sequence number `q` yields item `q − k` at its `k`-th step, provided fewer than `N` items have been stored from that
item on (i.e. it has not been overwritten) — whatever the vector held before -/
theorem ring_read {w : Nat} (N : Nat) (hN : 0 < N) (old items : List (St w)) (hold : old.length = N) (q k : Nat)
    (hq : q < items.length) (hk : k ≤ q) (hwin : items.length - 1 - (q - k) < N) :
    readStore (storeAll N old 0 items) (q % N) k = items.getD (q - k) ⟨0#w, 0#w, 0⟩ := by
  unfold readStore
  rw [storeAll_length, hold, readSlot_mod N q k hN hk]
  have := storeAll_get N hN items old 0 (q - k) hold (by omega) hwin
  rw [Nat.zero_add] at this
  rw [List.getD_eq_getElem?_getD, List.getD_eq_getElem?_getD, this, List.getElem?_eq_getElem (by omega)]

/-! ### availability test of the lazy API -/

/-- `find_all_lazy` allocates `n + 2` slots for a text of `n` symbols: after `c ≤ n` symbols the slot of the last write
is `c + 1`, and `traceback_at(e)` answers exactly for the end positions `e < c` already searched -/
theorem availableAt_iff (n c e : Nat) (hc : c ≤ n) : availableAt (n + 2) c e = true ↔ e < c := by
  unfold availableAt
  rw [Nat.mod_eq_of_lt (by omega)]
  simp only [decide_eq_true_eq]
  omega

/-! ### the states the search stores -/

theorem cell_le_len (wf : Nat → Nat → Nat) (p u : List Nat) (j : Nat) : cell wf p u j ≤ p.length := by
  unfold cell
  have := fe_le wf (p.take j).reverse u.reverse 0
  simp only [List.take_zero, ed_nil_right, List.length_reverse, List.length_take] at this
  omega

theorem seqStates_go_spec {w : Nat} (eqv : Nat → Nat → Bool) (p : List Nat) (hm1 : 1 ≤ p.length) (hw : p.length ≤ w) :
    ∀ (t u : List Nat) (s : St w), RbV.Model.MyersSimple.Inv eqv p u s → ∀ j, j ≤ t.length →
      ∃ sj, (seqStates.go w eqv p s t)[j]? = some sj ∧ RbV.Model.MyersSimple.Inv eqv p (u ++ t.take j) sj := by
  intro t
  induction t with
  | nil =>
    intro u s inv j hj
    have : j = 0 := by simpa using hj
    subst this
    exact ⟨s, by simp [seqStates.go], by simpa using inv⟩
  | cons a t ih =>
    intro u s inv j hj
    cases j with
    | zero => exact ⟨s, by simp [seqStates.go], by simpa using inv⟩
    | succ j =>
      obtain ⟨sj, h1, h2⟩ := ih (u ++ [a]) _ (RbV.Model.MyersSimple.inv_step eqv p u a s hm1 hw inv) j
        (by simpa using hj)
      refine ⟨sj, by simpa [seqStates.go] using h1, ?_⟩
      simpa [List.take_succ_cons, List.append_assoc] using h2

theorem seqStates_go_length {w : Nat} (eqv : Nat → Nat → Bool) (p : List Nat) : ∀ (t : List Nat) (s : St w),
    (seqStates.go w eqv p s t).length = t.length + 1 := by
  intro t
  induction t with
  | nil => intro s; simp [seqStates.go]
  | cons a t ih => intro s; simp [seqStates.go, ih]

theorem seqStates_length (w : Nat) (eqv : Nat → Nat → Bool) (p : List Nat) (dmax : Nat) (t : List Nat) :
    (seqStates w eqv p dmax t).length = t.length + 2 := by
  simp [seqStates, seqStates_go_length]

theorem VEnc.congr {w : Nat} {m : Nat} {C C' : Nat → Int} {pv mv : BitVec w}
    (h : ∀ i, i ≤ m → C i = C' i) (enc : VEnc m C pv mv) : VEnc m C' pv mv := by
  refine ⟨?_, ?_, ?_⟩
  · intro i hi; rw [← h (i + 1) (by omega), ← h i (by omega)]; exact enc.diff i hi
  · intro i hi; rw [← h (i + 1) (by omega), ← h i (by omega)]; exact enc.pvb i hi
  · intro i hi; rw [← h (i + 1) (by omega), ← h i (by omega)]; exact enc.mvb i hi

/-- the stored item with sequence number `j + 1` is the search state after `j` text symbols (C09 invariant) -/
theorem seqStates_inv (w : Nat) (eqv : Nat → Nat → Bool) (p : List Nat) (dmax : Nat) (t : List Nat)
    (hm1 : 1 ≤ p.length) (hw : p.length ≤ w) (j : Nat) (hj : j ≤ t.length) :
    RbV.Model.MyersSimple.Inv eqv p (t.take j) ((seqStates w eqv p dmax t).getD (j + 1) ⟨0#w, 0#w, 0⟩) := by
  obtain ⟨sj, h1, h2⟩ := seqStates_go_spec eqv p hm1 hw t [] _ (RbV.Model.MyersSimple.inv_init w eqv p hw) j hj
  simp only [List.nil_append] at h2
  have : (seqStates w eqv p dmax t).getD (j + 1) ⟨0#w, 0#w, 0⟩ = sj := by
    simp [seqStates, List.getD_eq_getElem?_getD, h1]
  rw [this]
  exact h2

theorem seqStates_take (w : Nat) (eqv : Nat → Nat → Bool) (p : List Nat) (dmax : Nat) (t : List Nat)
    (c s : Nat) (hc : c ≤ t.length) (hs : s ≤ c + 1) :
    (seqStates w eqv p dmax (t.take c)).getD s ⟨0#w, 0#w, 0⟩ = (seqStates w eqv p dmax t).getD s ⟨0#w, 0#w, 0⟩ := by
  cases s with
  | zero => simp [seqStates]
  | succ j =>
    -- both are determined by the same run on `t.take j`; we show it through the run itself
    have gen : ∀ (t : List Nat) (st : St w) (c j : Nat), j ≤ c →
        (seqStates.go w eqv p st (t.take c))[j]? = (seqStates.go w eqv p st t)[j]? ∨ t.length < j := by
      intro t
      induction t with
      | nil => intro st c j _; simp
      | cons a t ih =>
        intro st c j hjc
        cases c with
        | zero =>
          have : j = 0 := by omega
          subst this
          left; simp [seqStates.go]
        | succ c =>
          cases j with
          | zero => left; simp [seqStates.go]
          | succ j =>
            rcases ih (RbV.Model.MyersSimple.step p.length (RbV.Model.MyersSimple.peq w eqv p a) st) c j (by omega) with h | h
            · left; simpa [seqStates.go, List.take_succ_cons] using h
            · right; simp; omega
    rcases gen t (RbV.Model.MyersSimple.init w p.length) c j (by omega) with h | h
    · simp [seqStates, List.getD_eq_getElem?_getD, h]
    · omega

/-- the Sellers matrix and the states the search stores satisfy the assumptions of the loop theorem for every iterator
`rd` that yields the stored states down to sequence number `lo` -/
theorem stored_of_rd (w : Nat) (eqv : Nat → Nat → Bool) (p : List Nat) (dmax lo : Nat) (t : List Nat) (stop : Nat)
    (rd : Nat → St w) (hm1 : 1 ≤ p.length) (hw : p.length ≤ w) (hd : p.length < dmax) (hs : stop ≤ t.length)
    (hrd : ∀ k, k + lo ≤ stop + 1 → rd k = (seqStates w eqv p dmax t).getD (stop + 1 - k) ⟨0#w, 0#w, 0⟩) :
    Stored p.length dmax (stop + 1) lo (Dm (matrix (unitW eqv) p t))
      (fun s => (seqStates w eqv p dmax t).getD s ⟨0#w, 0#w, 0⟩) rd := by
  have hD : ∀ i j, i ≤ p.length → j ≤ t.length → Dm (matrix (unitW eqv) p t) i j = cell (unitW eqv) p (t.take j) i :=
    fun i j hi hj => Dm_matrix _ p t i j hi hj
  refine ⟨hm1, hw, hd, ?_, ?_, ?_, ?_⟩
  · intro i hi
    rw [hD i 0 hi (by omega)]
    simp [cell_nil _ p i hi]
  · intro i j hi hj
    rw [hD i j hi (by omega)]
    exact cell_le_len _ p _ i
  · intro s hsq
    cases s with
    | zero =>
      have e : (seqStates w eqv p dmax t).getD 0 ⟨0#w, 0#w, 0⟩ = maxSt w dmax := by simp [seqStates]
      rw [e]
      refine ⟨⟨?_, ?_, ?_⟩, ?_⟩
      · intro i _; simp only [colOf, if_true]; omega
      · intro i hi
        simp only [colOf, if_true, maxSt, BitVec.getLsbD_allOnes]
        have : i < w := by omega
        simp [this]; omega
      · intro i hi
        simp only [colOf, if_true, maxSt, BitVec.getLsbD_zero]
        simp; omega
      · simp only [colOf, if_true, maxSt]; omega
    | succ j =>
      have inv := seqStates_inv w eqv p dmax t hm1 hw j (by omega)
      refine ⟨VEnc.congr ?_ (VEnc.of_enc inv.enc), ?_⟩
      · intro i hi
        rw [colOf_succ, hD i j hi (by omega)]
      · rw [colOf_succ, hD _ j (Nat.le_refl _) (by omega), inv.dist]
  · exact hrd

/-- … in particular the ring: `c` = number of text symbols consumed so far, `stop ≤ c` the (exclusive) end, reads
possible down to sequence number `c + 2 − N` -/
theorem stored_concrete (w : Nat) (eqv : Nat → Nat → Bool) (p : List Nat) (dmax N : Nat) (old : List (St w)) (t : List Nat)
    (c stop : Nat) (hm1 : 1 ≤ p.length) (hw : p.length ≤ w) (hd : p.length < dmax) (hN : 0 < N) (hold : old.length = N)
    (hc : c ≤ t.length) (hs : stop ≤ c) :
    Stored p.length dmax (stop + 1) (c + 2 - N) (Dm (matrix (unitW eqv) p t))
      (fun s => (seqStates w eqv p dmax t).getD s ⟨0#w, 0#w, 0⟩)
      (readStore (storeAll N old 0 (seqStates w eqv p dmax (t.take c))) ((stop + 1) % N)) := by
  apply stored_of_rd w eqv p dmax _ t stop _ hm1 hw hd (by omega)
  intro k hk
  have hlen := seqStates_length w eqv p dmax (t.take c)
  have htl : (t.take c).length = c := by simp; omega
  rw [ring_read N hN old _ hold (stop + 1) k (by omega) (by omega) (by omega)]
  exact seqStates_take w eqv p dmax t c (stop + 1 - k) hc (by omega)

/-- **the stored-state traceback returns what the matrix rule returns**, whenever the walk ends at a column whose left
neighbour has not been overwritten in the ring (`c + 2 − N ≤ start`) -/
theorem tracebackStore_eq (w : Nat) (eqv : Nat → Nat → Bool) (p : List Nat) (dmax N : Nat) (old : List (St w)) (t : List Nat)
    (c stop : Nat) (hm1 : 1 ≤ p.length) (hw : p.length ≤ w) (hd : p.length < dmax) (hN : 0 < N) (hold : old.length = N)
    (hc : c ≤ t.length) (hs : stop ≤ c) (hwin : c + 2 - N ≤ (traceback (unitW eqv) p t stop).1) :
    tracebackStore w eqv p dmax N old t c stop =
      ((traceback (unitW eqv) p t stop).1, cell (unitW eqv) p (t.take stop) p.length,
       (traceback (unitW eqv) p t stop).2) := by
  have st := stored_concrete w eqv p dmax N old t c stop hm1 hw hd hN hold hc hs
  unfold traceback at hwin ⊢
  simp only at hwin ⊢
  have h := tracebackRd_eq st (by omega) (p.length + stop) (by simpa using hwin)
  simp only [Nat.add_sub_cancel] at h
  have hle := walkF_start_le (Dm (matrix (unitW eqv) p t)) (p.length + stop) p.length stop
  have inv := seqStates_inv w eqv p dmax t hm1 hw stop (by omega)
  unfold tracebackStore
  simp only [h, inv.dist]
  congr 1
  omega


/-! ### the handler's numbers are matrix cells (concrete form) -/

/-- what "the handler `h` carries the true values at cell `(i + 1, j)`" means, in terms of the Sellers cells
`C r c = cell … (t.take c) r` (row `r` after `c` text symbols) -/
def HandlerCells (w : Nat) (eqv : Nat → Nat → Bool) (p t : List Nat) (dmax i j : Nat) (h : Handler w) : Prop :=
  h.state.dist = cell (unitW eqv) p (t.take j) (i + 1) ∧
  (1 ≤ j → h.left.dist = cell (unitW eqv) p (t.take (j - 1)) i) ∧
  (j = 0 → h.left.dist + (p.length - i) = dmax) ∧
  (((h.left.dist + 1) % (dmax + 1) = h.state.dist) ↔
    (1 ≤ j ∧ cell (unitW eqv) p (t.take (j - 1)) i + 1 = cell (unitW eqv) p (t.take j) (i + 1))) ∧
  (((h.state.pv &&& h.pos) != 0#w) =
    decide (cell (unitW eqv) p (t.take j) i + 1 = cell (unitW eqv) p (t.take j) (i + 1))) ∧
  (((h.left.mv &&& h.pos) != 0#w) =
    decide (1 ≤ j ∧ cell (unitW eqv) p (t.take (j - 1)) (i + 1) + 1 = cell (unitW eqv) p (t.take (j - 1)) i))

/-- after `n` passes through the loop body of `_traceback_at(end = stop − 1)` on the states stored by the search, the
handler is finished or its cursor is at some cell `(i + 1, j)` and: `block.dist` is that cell, `left_block.dist` the
diagonal cell `(i, j − 1)` (for `j = 0` the sentinel value `dmax − (m − i)`), and the three tests of the loop body are the
comparisons of the neighbouring cells -/
theorem after_cells (w : Nat) (eqv : Nat → Nat → Bool) (p t : List Nat) (dmax stop n : Nat)
    (hm1 : 1 ≤ p.length) (hw : p.length ≤ w) (hd : p.length < dmax) (hs : stop ≤ t.length) :
    (Handler.after dmax p.length (fun k => (seqStates w eqv p dmax t).getD (stop + 1 - k) ⟨0#w, 0#w, 0⟩) n).pos = 0#w ∨
    ∃ i j, i < p.length ∧ j ≤ stop ∧
      (Handler.after dmax p.length (fun k => (seqStates w eqv p dmax t).getD (stop + 1 - k) ⟨0#w, 0#w, 0⟩) n).pos =
        BitVec.twoPow w i ∧
      (Handler.after dmax p.length (fun k => (seqStates w eqv p dmax t).getD (stop + 1 - k) ⟨0#w, 0#w, 0⟩) n).taken =
        stop - j + 2 ∧
      HandlerCells w eqv p t dmax i j
        (Handler.after dmax p.length (fun k => (seqStates w eqv p dmax t).getD (stop + 1 - k) ⟨0#w, 0#w, 0⟩) n) := by
  have st := stored_of_rd w eqv p dmax 0 t stop
    (fun k => (seqStates w eqv p dmax t).getD (stop + 1 - k) ⟨0#w, 0#w, 0⟩) hm1 hw hd hs (fun k _ => rfl)
  have hinv := after_inv st (by omega) n
  simp only [Nat.add_sub_cancel] at hinv
  have hD : ∀ i j, i ≤ p.length → j ≤ t.length → Dm (matrix (unitW eqv) p t) i j = cell (unitW eqv) p (t.take j) i :=
    fun i j hi hj => Dm_matrix _ p t i j hi hj
  generalize Handler.after dmax p.length (fun k => (seqStates w eqv p dmax t).getD (stop + 1 - k) ⟨0#w, 0#w, 0⟩) n = h
    at hinv ⊢
  generalize curAfter (Dm (matrix (unitW eqv) p t)) p.length stop n = cur at hinv
  obtain ⟨ci, j⟩ := cur
  cases ci with
  | zero => left; exact hinv
  | succ i =>
    right
    simp only [HInvAny] at hinv
    have hi := hinv.hi
    have hj := hinv.hj
    have t1 := test_subst st hinv
    have t2 := test_ins st hinv
    have t3 := test_del st hinv
    have sd := hinv.sdist
    have ld := hinv.ldist
    rw [colOf_succ, hD _ _ (by omega) (by omega)] at sd
    rw [hD _ _ (by omega) (by omega), hD _ _ (by omega) (by omega)] at t1 t2 t3
    refine ⟨i, j, hi, by omega, hinv.pos, by have := hinv.taken; omega, by omega, ?_, ?_, ?_, t2, ?_⟩
    · intro hj1
      obtain ⟨j', rfl⟩ : ∃ j', j = j' + 1 := ⟨j - 1, by omega⟩
      rw [colOf_succ, hD _ _ (by omega) (by omega)] at ld
      simp only [Nat.add_sub_cancel]
      omega
    · intro hj0
      subst hj0
      simp only [colOf, if_true] at ld
      omega
    · rw [t1]
    · rw [t3]

/-! ### how far the walk goes to the left -/

theorem acost_len (eqv : Nat → Nat → Bool) : ∀ (ops : List Op) (p s : List Nat) (v : Nat),
    acost eqv p s ops = some v → s.length ≤ p.length + v := by
  intro ops
  induction ops with
  | nil =>
    intro p s v h
    cases p <;> cases s <;> simp [acost] at h
    simp
  | cons o r ih =>
    intro p s v h
    cases o with
    | mat =>
      cases p with
      | nil => cases s <;> simp [acost] at h
      | cons a p =>
        cases s with
        | nil => simp [acost] at h
        | cons b s =>
          simp only [acost] at h
          split at h
          · have := ih p s v h
            simp only [List.length_cons]; omega
          · simp at h
    | sub =>
      cases p with
      | nil => cases s <;> simp [acost] at h
      | cons a p =>
        cases s with
        | nil => simp [acost] at h
        | cons b s =>
          simp only [acost] at h
          split at h
          · simp at h
          · cases h' : acost eqv p s r with
            | none => simp [h'] at h
            | some u =>
              simp [h'] at h
              have := ih p s u h'
              simp only [List.length_cons]; omega
    | ins =>
      cases p with
      | nil => cases s <;> simp [acost] at h
      | cons a p =>
        simp only [acost] at h
        cases h' : acost eqv p s r with
        | none => simp [h'] at h
        | some u =>
          simp [h'] at h
          have := ih p s u h'
          simp only [List.length_cons]; omega
    | del =>
      cases s with
      | nil => cases p <;> simp [acost] at h
      | cons b s =>
        rw [acost_del_cons] at h
        cases h' : acost eqv p s r with
        | none => simp [h'] at h
        | some u =>
          simp [h'] at h
          have := ih p s u h'
          simp only [List.length_cons]; omega

/-- the alignment found from a cell of value `d` spans at most `m + min d m` text symbols: `num_cols` of `find_all`
(`m + min(k, m)`) suffices for every hit -/
theorem traceback_span (eqv : Nat → Nat → Bool) (p t : List Nat) (stop : Nat) (hs : stop ≤ t.length) :
    stop - (traceback (unitW eqv) p t stop).1 ≤
      p.length + min (cell (unitW eqv) p (t.take stop) p.length) p.length := by
  obtain ⟨a, b⟩ := traceback_sound eqv p t stop hs
  have := acost_len eqv _ _ _ _ b
  have hl := cell_le_len (unitW eqv) p (t.take stop) p.length
  simp only [List.length_drop, List.length_take] at this
  omega

end RbV.Model.MyersTraceback
