import RbV.Lemmas.TracebackLongStep
/-!
From `init_traceback` through the whole loop of `_traceback_at` with the block-based handler (C10, block-based handler,
stage 2/3): for a hit (last-row value `≤ k`) the loop pushes the operations of the matrix walk `walkF` and counts its left
moves.  Core Lean only.
-/
namespace RbV.Model.MyersTracebackLong
open RbV.EditDist
open RbV.Model.MyersSimple (St)
open RbV.Model.MyersTraceback

section
variable {w nb m k q lo : Nat} {D : Nat → Nat → Nat} {S : Nat → Array (St w)} {rd : Nat → Array (St w)}

/-- `LongTracebackHandler::new` with `last_m` = length of the last block -/
theorem new_eq (g : Geo w nb m) (rd : Nat → Array (St w)) :
    LHandler.new nb m rd =
      { blockPos := nb - 1, leftBlockPos := nb - 1, col := rd 0, leftCol := rd 1,
        block := (rd 0).getD (nb - 1) dflt, leftBlock := (rd 1).getD (nb - 1) dflt,
        leftMaxMask := BitVec.twoPow w (lenB w nb m (nb - 1) - 1), pos := BitVec.twoPow w (lenB w nb m (nb - 1) - 1),
        leftMask := if lenB w nb m (nb - 1) ≠ 1 then 0#w else BitVec.twoPow w 1, taken := 2 } := by
  unfold LHandler.new
  simp only [g.lastM, ofNat_two, BitVec.twoPow_eq]

/-- the initial range mask after the first `move_up_left` when no block switch happens -/
theorem start_mask (len : Nat) (h1 : 1 ≤ len) (hl : len ≤ w) (hw : 2 ≤ w) :
    ∀ x, (((if len ≠ 1 then 0#w else BitVec.twoPow w 1) >>> 1) ||| BitVec.twoPow w (len - 1)).getLsbD x =
      decide (len - 1 ≤ x ∧ x < len) := by
  by_cases h : len = 1
  · subst h
    rw [if_neg (by simp), twoPow_shr_succ 0 (by omega)]
    simp only [Nat.sub_self, BitVec.or_self]
    exact mask_single 1 (by omega) (by omega)
  · rw [if_pos h]
    exact leftMask_step (0#w) len h1 hl (Nat.le_refl _) (mask_zero len)

/-- `init_traceback` followed by `move_up_left(true)` at a hit: cursor at row `m` of column `q − 1` -/
theorem startL_inv (st : StoredL nb m k q lo D S rd) (hq : lo + 1 ≤ q) (hhit : D m (q - 1) ≤ k) :
    LInvAny nb m k q D S m (q - 1) ((LHandler.new nb m rd).moveUpLeft true) := by
  have g := st.geo
  have hw := g.hw
  have hnb := g.hnb
  have hsmall := st.small
  have hlast := g.last_end
  have hl1 := g.len_pos (nb - 1)
  have hlw := g.len_le (nb - 1)
  obtain ⟨m', rfl⟩ : ∃ m', m = m' + 1 := ⟨m - 1, by have := g.lo; omega⟩
  obtain ⟨j, rfl⟩ : ∃ j, q = j + 1 := ⟨q - 1, by omega⟩
  simp only [Nat.add_sub_cancel] at hhit
  simp only [Nat.add_sub_cancel, LInvAny]
  have r0 : rd 0 = S (j + 1) := st.rd 0 (by omega)
  have r1 : rd 1 = S j := by rw [st.rd 1 (by omega)]; simp
  rw [new_eq g rd, r0, r1]
  generalize hlen : lenB w nb (m' + 1) (nb - 1) = len at *
  -- right cursor
  obtain ⟨L, P, cf⟩ := st.cols j (by omega)
  have hbe := cf.block_end g (nb - 1) (by omega) (by rw [hlen, hlast]; exact hhit)
  rw [hlen, hlast] at hbe
  -- the diagonal cell
  have hdiag : ∀ j1, j = j1 + 1 → D m' j1 ≤ k := by
    intro j1 hj1
    subst hj1
    have := st.diag m' j1 (by omega) (by omega)
    omega
  by_cases hsw : len = 1 ∧ nb ≠ 1
  · -- the last block has a single row: the left cursor starts at the lower boundary of the block above
    obtain ⟨hl, hn⟩ := hsw
    obtain ⟨n2, rfl⟩ : ∃ n2, nb = n2 + 2 := ⟨nb - 2, by omega⟩
    have e1 : n2 + 2 - 1 = n2 + 1 := rfl
    rw [e1] at hlen hbe hlast ⊢
    have hsm : (n2 + 1) * w = n2 * w + w := Nat.succ_mul n2 w
    have hlen0 : lenB w (n2 + 2) (m' + 1) n2 = w := g.len_inner n2 (by omega)
    have c : ¬ (((((if len ≠ 1 then 0#w else BitVec.twoPow w 1) : BitVec w) &&& BitVec.ofNat w 0b10) == 0#w ||
        (n2 + 1 == 0)) = true) := by
      rw [bit1_test hw, if_neg (by omega)]
      simp [BitVec.getLsbD_twoPow]; omega
    unfold LHandler.moveUpLeft
    rw [if_neg c]
    refine ⟨n2 + 1, len - 1, n2, w, ⟨by omega, by omega, hhit, ⟨by omega, by omega, by omega, rfl, rfl⟩,
      ⟨by omega, by omega, Or.inr (by omega), by omega, rfl, ?_, ?_⟩, rfl, rfl, rfl, rfl, hbe.2, rfl, rfl, ?_, ?_, ?_⟩⟩
    · show (1#w <<< (w - 1)) = _
      rw [hlen0]; exact (BitVec.twoPow_eq w (w - 1)).symm
    · rw [hlen0]; exact mask_zero w
    · intro hj1
      obtain ⟨j1, rfl⟩ : ∃ j1, j = j1 + 1 := ⟨j - 1, by omega⟩
      obtain ⟨L1, P1, cf1⟩ := st.cols j1 (by omega)
      have e : n2 * w + lenB w (n2 + 2) (m' + 1) n2 = m' := by omega
      have hbe1 := cf1.block_end g n2 (by omega) (by rw [e]; exact hdiag j1 rfl)
      rw [e] at hbe1
      simp only [Nat.add_sub_cancel]
      exact hbe1.2
    · intro hj0
      subst hj0
      show ((S 0).getD n2 dflt).dist + _ = umax
      rw [st.guard n2 (by omega), hlen0]
      show umax + (w - w) = umax
      omega
    · show 2 = j + 1 - j + 1
      omega
  · -- no block switch
    have c : (((((if len ≠ 1 then 0#w else BitVec.twoPow w 1) : BitVec w) &&& BitVec.ofNat w 0b10) == 0#w ||
        (nb - 1 == 0)) = true) := by
      by_cases h1 : len = 1
      · have : nb = 1 := by
          apply Classical.byContradiction
          intro hne
          exact hsw ⟨h1, hne⟩
        subst this
        simp
      · rw [if_pos h1]; simp
    have hmask := start_mask (w := w) len (by omega) hlw hw
    unfold LHandler.moveUpLeft
    rw [if_pos c]
    have hBLn : nb - 1 < nb := by omega
    have ha1 : nb - 1 = 0 ∨ 1 ≤ len - 1 := by omega
    -- the left block after `adjust_dist(pos)`
    have hleft : (adjustDist ((S j).getD (nb - 1) dflt) (BitVec.twoPow w (len - 1))).pv = ((S j).getD (nb - 1) dflt).pv ∧
        (adjustDist ((S j).getD (nb - 1) dflt) (BitVec.twoPow w (len - 1))).mv = ((S j).getD (nb - 1) dflt).mv ∧
        (1 ≤ j → (adjustDist ((S j).getD (nb - 1) dflt) (BitVec.twoPow w (len - 1))).dist = D m' (j - 1)) ∧
        (j = 0 → (adjustDist ((S j).getD (nb - 1) dflt) (BitVec.twoPow w (len - 1))).dist + (len - (len - 1)) = umax) := by
      cases j with
      | zero =>
        rw [st.guard (nb - 1) hBLn]
        have sp := adjustDist_spec (fun x => (umax : Int) - len + x) (maxSt w umax) (len - 1) (by omega) hlw
          (guard_enc umax len hlw) (by show ((umax : Nat) : Int) = (umax : Int) - len + ((len - 1 + 1 : Nat) : Int); omega)
          (by show (0 : Int) ≤ (umax : Int) - len + ((len - 1 : Nat) : Int); omega)
        have e2 : ((adjustDist (maxSt w umax) (BitVec.twoPow w (len - 1))).dist : Int) =
            (umax : Int) - len + ((len - 1 : Nat) : Int) := sp.2.2
        exact ⟨sp.1, sp.2.1, by intro h0; omega, by intro _; omega⟩
      | succ j1 =>
        obtain ⟨L1, P1, cf1⟩ := st.cols j1 (by omega)
        have hdk := hdiag j1 rfl
        obtain ⟨h1, h2⟩ := cf1.exact m' (by omega) hdk
        have hrowL : m' = (nb - 1) * w + (len - 1) := by omega
        have hBL : nb - 1 < L1 := by
          rcases ha1 with h0 | h1'
          · have := cf1.hL1; omega
          · have h1r : (nb - 1) * w + (len - 1) ≤ rowsL w nb (m' + 1) L1 := by rw [← hrowL]; exact h1
            exact (g.lrow_in_iff (nb - 1) (len - 1) L1 hBLn h1' (by rw [hlen]; omega) cf1.hLn).mp h1r
        have henc := cf1.enc (nb - 1) hBL
        rw [hlen] at henc
        have sp := adjustDist_spec (fun x => P1 ((nb - 1) * w + x)) ((S (j1 + 1)).getD (nb - 1) dflt) (len - 1) (by omega)
          hlw henc.1 (by
            show (((S (j1 + 1)).getD (nb - 1) dflt).dist : Int) = P1 ((nb - 1) * w + (len - 1 + 1))
            have e : len - 1 + 1 = len := by omega
            rw [e]; exact henc.2)
          (by show (0 : Int) ≤ P1 ((nb - 1) * w + (len - 1)); rw [← hrowL, h2]; omega)
        have e2 : ((adjustDist ((S (j1 + 1)).getD (nb - 1) dflt) (BitVec.twoPow w (len - 1))).dist : Int) =
            P1 ((nb - 1) * w + (len - 1)) := sp.2.2
        rw [← hrowL, h2] at e2
        refine ⟨sp.1, sp.2.1, ?_, by intro h0; omega⟩
        intro _
        simp only [Nat.add_sub_cancel]
        omega
    refine ⟨nb - 1, len - 1, nb - 1, len - 1, ⟨by omega, by omega, hhit,
      ⟨hBLn, by rw [hlen]; omega, by omega, rfl, rfl⟩,
      ⟨hBLn, by rw [hlen]; omega, ha1, by omega, rfl, by rw [hlen], by rw [hlen]; exact hmask⟩,
      rfl, rfl, rfl, rfl, hbe.2, ?_, ?_, ?_, ?_, ?_⟩⟩
    · exact hleft.1
    · exact hleft.2.1
    · exact hleft.2.2.1
    · rw [hlen]; exact hleft.2.2.2
    · show 2 = j + 1 - j + 1
      omega

/-- **the loop is the matrix walk** (block-based handler): started with the true values at a cursor of value `≤ k`, the
`while` loop of `_traceback_at` pushes the operations of `walkF` and counts `j − start` left moves — provided the walk
ends at a column `≥ lo` (no state older than sequence number `lo` is needed) -/
theorem loopL_eq_walkF (st : StoredL nb m k q lo D S rd) :
    ∀ (fuel i j : Nat) (h : LHandler w), LInvAny nb m k q D S i j h → lo ≤ (walkF D fuel i j).1 →
      LHandler.loop rd fuel h = (j - (walkF D fuel i j).1, (walkF D fuel i j).2) := by
  intro fuel
  induction fuel with
  | zero => intro i j h _ _; simp [LHandler.loop, walkF]
  | succ fuel ih =>
    intro i j h inv hlo
    cases i with
    | zero =>
      simp only [LInvAny] at inv
      simp [LHandler.loop, LHandler.finished, inv.1, inv.2, walkF]
    | succ i' =>
      simp only [LInvAny] at inv
      obtain ⟨B, b, BL, a, inv⟩ := inv
      have hi := inv.hi
      have hlw := st.geo.len_le B
      have hb := inv.rg.hb
      have hnf : h.finished = false := by
        simp only [LHandler.finished, inv.rg.pos]
        rw [beq_false_of_ne (twoPow_ne_zero (by omega))]
        rfl
      rw [walkF_step] at hlo ⊢
      simp only at hlo
      have hle := walkF_start_le D fuel (ruleNext D i' j).1 (ruleNext D i' j).2
      have hsnd := ruleNext_snd D i' j
      have hlo' : ruleOp D i' j ≠ Op.ins → lo + 1 ≤ j := by
        intro hne
        rw [if_neg hne] at hsnd
        cases j with
        | zero => exact absurd (ruleOp_col0L st i' hi) hne
        | succ j' => simp only [Nat.add_sub_cancel] at hsnd; omega
      obtain ⟨e1, e2, e3⟩ := iterL_spec st inv hlo'
      have := ih _ _ _ e3 hlo
      simp only [LHandler.loop, hnf, Bool.false_eq_true, if_false, this, e1, e2]
      congr 1
      by_cases hop : ruleOp D i' j = Op.ins
      · rw [if_pos hop] at hsnd
        simp [hop, hsnd]
      · rw [if_neg hop] at hsnd
        have := hlo' hop
        have hb : (ruleOp D i' j != Op.ins) = true := by simp [hop]
        rw [hb, if_pos rfl]
        omega

/-- after any number of passes through the loop body the handler carries the true values at the cursor of the matrix
walk of a hit (all states readable: `lo = 0`) -/
theorem afterL_inv (st : StoredL nb m k q 0 D S rd) (hq : 1 ≤ q) (hhit : D m (q - 1) ≤ k) :
    ∀ n, LInvAny nb m k q D S (curAfter D m (q - 1) n).1 (curAfter D m (q - 1) n).2 (LHandler.after nb m rd n) := by
  intro n
  induction n with
  | zero => exact startL_inv st (by omega) hhit
  | succ n ih =>
    simp only [LHandler.after, curAfter]
    cases hc : (curAfter D m (q - 1) n).1 with
    | zero =>
      rw [hc] at ih
      simp only [LInvAny] at ih ⊢
      have hf : (LHandler.after nb m rd n).finished = true := by
        simp only [LHandler.finished, ih.1, ih.2, beq_self_eq_true, Bool.and_self]
      rw [if_pos hf, hc]
      exact ih
    | succ i' =>
      rw [hc] at ih
      simp only [LInvAny] at ih ⊢
      obtain ⟨B, b, BL, a, inv⟩ := ih
      have hi := inv.hi
      have hlw := st.geo.len_le B
      have hb := inv.rg.hb
      have hnf : (LHandler.after nb m rd n).finished = false := by
        simp only [LHandler.finished, inv.rg.pos]
        rw [beq_false_of_ne (twoPow_ne_zero (by omega))]
        rfl
      have hlo' : ruleOp D i' (curAfter D m (q - 1) n).2 ≠ Op.ins → 0 + 1 ≤ (curAfter D m (q - 1) n).2 := by
        intro hne
        cases hj : (curAfter D m (q - 1) n).2 with
        | zero => rw [hj] at hne; exact absurd (ruleOp_col0L st i' hi) hne
        | succ j' => omega
      obtain ⟨_, _, e3⟩ := iterL_spec st inv hlo'
      simp only [hnf, Bool.false_eq_true, if_false]
      exact e3

/-- `_traceback_at` with the block-based handler on the stored columns = the matrix-level walk, for a hit -/
theorem tracebackRdL_eq (st : StoredL nb m k q lo D S rd) (hq : 1 ≤ q) (hhit : D m (q - 1) ≤ k) (fuel : Nat)
    (hlo : lo ≤ (walkF D fuel m (q - 1)).1) :
    tracebackRdL nb m rd fuel =
      (q - 1 - (walkF D fuel m (q - 1)).1, D m (q - 1), (walkF D fuel m (q - 1)).2) := by
  have hle := walkF_start_le D fuel m (q - 1)
  have h := loopL_eq_walkF st fuel m (q - 1) _ (startL_inv st (by omega) hhit) hlo
  unfold tracebackRdL
  simp only [h]
  congr 2
  -- the distance read from the last block of the current column
  have g := st.geo
  obtain ⟨j, rfl⟩ : ∃ j, q = j + 1 := ⟨q - 1, by omega⟩
  simp only [Nat.add_sub_cancel] at hhit ⊢
  rw [new_eq g rd, st.rd 0 (by omega)]
  obtain ⟨L, P, cf⟩ := st.cols j (by omega)
  have hbe := cf.block_end g (nb - 1) (by have := g.hnb; omega) (by rw [g.last_end]; exact hhit)
  rw [g.last_end] at hbe
  exact hbe.2

end

end RbV.Model.MyersTracebackLong
