import RbV.Basic.RsSemGenhmm
import RbV.Lemmas.C14
/-!
Lemmas for the equality proofs of the translated HMM functions (`RbV/Thm/GenSrcHmm*.lean`; core Lean only).

* the instantiation of the abstract `LogProb` operations at exact numerators (`natOps`) and of the model accessors at a
  specification-level model (`hmmOps`);
* `Array2` cells (`get2`, `set2`, `row2`), loops over `0 … S-1` / over `enumerate()` with an invariant;
* `RowFilled`: a `for j in hmm.states()` loop that writes one row of an `Array2` cell by cell;
* `maxBy` with a comparator that refines a score returns a score-maximal element (any scan order);
* `GoodMats` / `tbK`: the Viterbi traceback over *any* matrices whose cells satisfy the Bellman conditions (every valid
  tie-break), generalising `traceback_spec` of `RbV/Lemmas/C14.lean`.
-/
namespace RbV.Rs
open Res

/-! ### instantiation -/

/-- `LogProb` read at exact non-negative numerators: `ln_zero` = 0, `ln_one` = 1, `+` on logs = product, `ln_sum_exp` = sum,
`ln_add_exp` = `+`, comparison = `compare`.  `z` is the (irrelevant) fill value of `Array2::zeros`. -/
def natOps (z : Nat) : LogOps Nat :=
  { zero := 0, one := 1, mul := fun a b => a * b, add := fun a b => a + b, sum := List.sum, isZero := fun a => a == 0,
    cmp := compare, arrZero := z }

/-- the accessors of `trait Model` for a specification-level model (position-independent transitions) -/
def hmmOps (m : RbV.Hmm.Hmm) : HmmOps Nat Nat :=
  { numStates := m.S, trans := fun a b _ => m.trans a b, transProb := m.trans, init := m.init, emit := m.emit, fin := m.fin,
    hasEnd := m.hasEnd }

@[simp] theorem natOps_zero (z : Nat) : (natOps z).zero = 0 := rfl
@[simp] theorem natOps_one (z : Nat) : (natOps z).one = 1 := rfl
@[simp] theorem natOps_mul (z a b : Nat) : (natOps z).mul a b = a * b := rfl
@[simp] theorem natOps_add (z a b : Nat) : (natOps z).add a b = a + b := rfl
@[simp] theorem natOps_sum (z : Nat) (l : List Nat) : (natOps z).sum l = l.sum := rfl
@[simp] theorem natOps_isZero (z a : Nat) : (natOps z).isZero a = (a == 0) := rfl
@[simp] theorem natOps_cmp (z a b : Nat) : (natOps z).cmp a b = compare a b := rfl
@[simp] theorem natOps_arrZero (z : Nat) : (natOps z).arrZero = z := rfl
@[simp] theorem hmmOps_numStates (m : RbV.Hmm.Hmm) : (hmmOps m).numStates = m.S := rfl
@[simp] theorem hmmOps_trans (m : RbV.Hmm.Hmm) (a b i : Nat) : (hmmOps m).trans a b i = m.trans a b := rfl
@[simp] theorem hmmOps_transProb (m : RbV.Hmm.Hmm) (a b : Nat) : (hmmOps m).transProb a b = m.trans a b := rfl
@[simp] theorem hmmOps_init (m : RbV.Hmm.Hmm) (s : Nat) : (hmmOps m).init s = m.init s := rfl
@[simp] theorem hmmOps_emit (m : RbV.Hmm.Hmm) (s o : Nat) : (hmmOps m).emit s o = m.emit s o := rfl
@[simp] theorem hmmOps_fin (m : RbV.Hmm.Hmm) (s : Nat) : (hmmOps m).fin s = m.fin s := rfl
@[simp] theorem hmmOps_hasEnd (m : RbV.Hmm.Hmm) : (hmmOps m).hasEnd = m.hasEnd := rfl

/-! ### cells -/

theorem get2_ok {α : Type} {a : List (List α)} {i j : Nat} {r : List α} (h : a[i]? = some r) (hj : j < r.length) :
    get2 a i j = ok r[j] := by
  simp [get2, h, idx_ok hj]

theorem set2_ok {α : Type} {a : List (List α)} {i j : Nat} {r : List α} {v : α} (h : a[i]? = some r) (hj : j < r.length) :
    set2 a i j v = ok (a.set i (r.set j v)) := by
  simp [set2, h, hj]

theorem row2_ok {α : Type} {a : List (List α)} {i : Nat} {r : List α} (h : a[i]? = some r) : row2 a i = ok r := by
  simp [row2, idx, h]

theorem mapM_ok {α β : Type} {f : α → Res β} {g : α → β} : ∀ (l : List α), (∀ x ∈ l, f x = ok (g x)) →
    List.mapM f l = ok (l.map g)
  | [], _ => by simp
  | a :: l, h => by
    have h1 := mapM_ok l (fun x hx => h x (by simp [hx]))
    simp [List.mapM_cons, h a (by simp), h1]

theorem mapM_range_ok {β : Type} {f : Nat → Res β} {g : Nat → β} (S : Nat) (h : ∀ k, k < S → f k = ok (g k)) :
    List.mapM f (List.range S) = ok ((List.range S).map g) :=
  mapM_ok _ (fun x hx => h x (List.mem_range.mp hx))

theorem zeros2_length {α : Type} (z : α) (n s : Nat) : (zeros2 z n s).length = n := by simp [zeros2]

theorem zeros2_getElem? {α : Type} (z : α) (n s t : Nat) (h : t < n) : (zeros2 z n s)[t]? = some (List.replicate s z) := by
  simp [zeros2, h]

theorem ix_eq_getElem {c : List Nat} {k : Nat} (h : k < c.length) : RbV.Hmm.ix c k = c[k] := by
  simp [RbV.Hmm.ix, List.getD, List.getElem?_eq_getElem h]

/-- a table with `n` rows is determined by its rows -/
theorem table_ext {α : Type} {a : List (List α)} {n : Nat} {f : Nat → List α} (hl : a.length = n)
    (h : ∀ t, t < n → a[t]? = some (f t)) : a = (List.range n).map f := by
  apply List.ext_getElem?
  intro t
  by_cases ht : t < n
  · rw [h t ht]; simp [ht]
  · rw [List.getElem?_eq_none (by omega), List.getElem?_eq_none (by simp; omega)]

theorem sub_one_ok {i : Nat} (h : 0 < i) : Rs.sub i 1 = ok (i - 1) := sub_ok h

/-! ### loops with an invariant -/

theorem foldlM_range_inv {σ : Type} (step : σ → Nat → Res σ) (Inv : Nat → σ → Prop) (S : Nat) (s0 : σ) (h0 : Inv 0 s0)
    (hstep : ∀ j s, j < S → Inv j s → ∃ s', step s j = ok s' ∧ Inv (j + 1) s') :
    ∃ s', List.foldlM step s0 (List.range S) = ok s' ∧ Inv S s' := by
  induction S with
  | zero => exact ⟨s0, by simp, h0⟩
  | succ S ih =>
    obtain ⟨s1, h1, i1⟩ := ih (fun j s hj => hstep j s (by omega))
    obtain ⟨s2, h2, i2⟩ := hstep S s1 (by omega) i1
    exact ⟨s2, by simp [List.range_succ, List.foldlM_append, h1, h2], i2⟩

theorem foldlM_enumFrom_inv {σ β : Type} (step : σ → (Nat × β) → Res σ) (Inv : Nat → σ → Prop) :
    ∀ (l : List β) (k : Nat) (s : σ), Inv k s →
      (∀ j b s, k ≤ j → l[j - k]? = some b → Inv j s → ∃ s', step s (j, b) = ok s' ∧ Inv (j + 1) s') →
      ∃ s', List.foldlM step s (enumFrom k l) = ok s' ∧ Inv (k + l.length) s' := by
  intro l
  induction l with
  | nil => intro k s h _; exact ⟨s, by simp [enumFrom], by simpa using h⟩
  | cons b l ih =>
    intro k s h hstep
    obtain ⟨s1, h1, i1⟩ := hstep k b s (Nat.le_refl _) (by simp) h
    obtain ⟨s2, h2, i2⟩ := ih (k + 1) s1 i1 (by
      intro j b' s' hk hb hi
      apply hstep j b' s' (by omega) _ hi
      have e : j - k = (j - (k + 1)) + 1 := by omega
      rw [e]; simpa using hb)
    refine ⟨s2, by simp [enumFrom, List.foldlM_cons, h1, h2], ?_⟩
    have e : k + (b :: l).length = k + 1 + l.length := by simp; omega
    rw [e]; exact i2

theorem enumFrom_length {α : Type} (l : List α) (k : Nat) : (enumFrom k l).length = l.length := by
  induction l generalizing k with
  | nil => rfl
  | cons a l ih => simp [enumFrom, ih]

theorem mem_enumFrom {α : Type} {l : List α} {k i : Nat} {a : α} : (i, a) ∈ enumFrom k l ↔ k ≤ i ∧ l[i - k]? = some a := by
  induction l generalizing k with
  | nil => simp [enumFrom]
  | cons b l ih =>
    simp only [enumFrom, List.mem_cons, Prod.mk.injEq, ih]
    constructor
    · rintro (⟨rfl, rfl⟩ | ⟨h1, h2⟩)
      · simp
      · refine ⟨by omega, ?_⟩
        have e : i - k = (i - (k + 1)) + 1 := by omega
        rw [e]; simpa using h2
    · rintro ⟨h1, h2⟩
      by_cases hik : i = k
      · subst hik; left; simpa using h2.symm
      · right
        refine ⟨by omega, ?_⟩
        have e : i - k = (i - (k + 1)) + 1 := by omega
        rw [e] at h2; simpa using h2

theorem mem_enumerate {α : Type} {l : List α} {i : Nat} {a : α} : (i, a) ∈ enumerate l ↔ l[i]? = some a := by
  simp [enumerate, mem_enumFrom]

theorem enumerate_ne_nil {α : Type} {l : List α} (h : l ≠ []) : enumerate l ≠ [] := by
  cases l with
  | nil => exact absurd rfl h
  | cons a l => simp [enumerate, enumFrom]

/-! ### one row of an `Array2` written cell by cell -/

/-- `a` is `a0` with the entries `0 … j-1` of row `i` replaced by `G 0 … G (j-1)` -/
structure RowFilled {α : Type} (a0 a : List (List α)) (i j : Nat) (G : Nat → α) (S : Nat) : Prop where
  len : a.length = a0.length
  other : ∀ t, t ≠ i → a[t]? = a0[t]?
  row : ∃ r r0, a[i]? = some r ∧ a0[i]? = some r0 ∧ r.length = S ∧ r0.length = S ∧
    (∀ k, k < j → r[k]? = some (G k)) ∧ (∀ k, j ≤ k → r[k]? = r0[k]?)

theorem RowFilled.zero {α : Type} {a0 : List (List α)} {i S : Nat} {r0 : List α} (G : Nat → α) (h : a0[i]? = some r0)
    (hl : r0.length = S) : RowFilled a0 a0 i 0 G S :=
  ⟨rfl, fun _ _ => rfl, r0, r0, h, h, hl, hl, fun k hk => absurd hk (by omega), fun _ _ => rfl⟩

theorem RowFilled.step {α : Type} {a0 a : List (List α)} {i j S : Nat} {G : Nat → α} (h : RowFilled a0 a i j G S) (hj : j < S) :
    ∃ a', set2 a i j (G j) = ok a' ∧ RowFilled a0 a' i (j + 1) G S := by
  obtain ⟨hlen, hoth, r, r0, hr, hr0, hl, hl0, hlo, hhi⟩ := h
  have hi : i < a.length := by
    rcases Nat.lt_or_ge i a.length with h | h
    · exact h
    · rw [List.getElem?_eq_none h] at hr; cases hr
  refine ⟨a.set i (r.set j (G j)), set2_ok hr (by omega), ?_⟩
  refine ⟨by simp [hlen], ?_, r.set j (G j), r0, by simp [hi], hr0, by simp [hl], hl0, ?_, ?_⟩
  · intro t ht
    rw [List.getElem?_set_ne (by omega)]
    exact hoth t ht
  · intro k hk
    by_cases hkj : k = j
    · subst hkj; simp [List.getElem?_set_self (by omega : k < r.length)]
    · rw [List.getElem?_set_ne (by omega)]
      exact hlo k (by omega)
  · intro k hk
    rw [List.getElem?_set_ne (by omega)]
    exact hhi k (by omega)

/-- reading another row during the loop -/
theorem RowFilled.get_other {α : Type} {a0 a : List (List α)} {i j S : Nat} {G : Nat → α} (h : RowFilled a0 a i j G S)
    {t : Nat} (ht : t ≠ i) (k : Nat) : get2 a t k = get2 a0 t k := by
  simp [get2, h.other t ht]

theorem RowFilled.row_other {α : Type} {a0 a : List (List α)} {i j S : Nat} {G : Nat → α} (h : RowFilled a0 a i j G S)
    {t : Nat} (ht : t ≠ i) : row2 a t = row2 a0 t := by
  simp [row2, idx, h.other t ht]

/-- reading a cell of the row that has not been written yet -/
theorem RowFilled.get_pending {α : Type} {a0 a : List (List α)} {i j S : Nat} {G : Nat → α} (h : RowFilled a0 a i j G S)
    {k : Nat} (hk : j ≤ k) : get2 a i k = get2 a0 i k := by
  obtain ⟨_, _, r, r0, hr, hr0, _, _, _, hhi⟩ := h
  simp [get2, hr, hr0, idx, hhi k hk]

theorem RowFilled.done {α : Type} {a0 a : List (List α)} {i S : Nat} {G : Nat → α} (h : RowFilled a0 a i S G S) :
    a = a0.set i ((List.range S).map G) := by
  obtain ⟨hlen, hoth, r, r0, hr, hr0, hl, hl0, hlo, _⟩ := h
  have hr' : r = (List.range S).map G := by
    apply List.ext_getElem?
    intro k
    by_cases hk : k < S
    · rw [hlo k hk]; simp [hk]
    · rw [List.getElem?_eq_none (by omega), List.getElem?_eq_none (by simp; omega)]
  have hi : i < a0.length := by
    rcases Nat.lt_or_ge i a0.length with h | h
    · exact h
    · rw [List.getElem?_eq_none h] at hr0; cases hr0
  apply List.ext_getElem?
  intro t
  by_cases ht : t = i
  · subst ht; rw [hr, hr']; simp [hi]
  · rw [hoth t ht, List.getElem?_set_ne (by omega)]

/-- the whole loop: a `for j in 0 … S-1` whose body writes `G j` into `(proj s)[[i, j]]` (and keeps `Q`) -/
theorem fill_row {σ α : Type} (proj : σ → List (List α)) (step : σ → Nat → Res σ) (G : Nat → α) (i S : Nat)
    (Q : Nat → σ → Prop) (s0 : σ) (r0 : List α) (hr0 : (proj s0)[i]? = some r0) (hl : r0.length = S) (hQ : Q 0 s0)
    (hstep : ∀ j s, j < S → RowFilled (proj s0) (proj s) i j G S → Q j s →
      ∃ s', step s j = ok s' ∧ RowFilled (proj s0) (proj s') i (j + 1) G S ∧ Q (j + 1) s') :
    ∃ s', List.foldlM step s0 (List.range S) = ok s' ∧ proj s' = (proj s0).set i ((List.range S).map G) ∧ Q S s' := by
  obtain ⟨s', h1, h2, h3⟩ := foldlM_range_inv step (fun j s => RowFilled (proj s0) (proj s) i j G S ∧ Q j s) S s0
    ⟨RowFilled.zero G hr0 hl, hQ⟩ (fun j s hj ⟨h1, h2⟩ => by
      obtain ⟨s', e, f, q⟩ := hstep j s hj h1 h2
      exact ⟨s', e, f, q⟩)
  exact ⟨s', h1, h2.done, h3⟩

/-! ### loop states that contain the table (`vals` alone, or `vals` together with scratch variables) -/

/-- the `Array2` of values inside a loop state: the state is the table itself or a tuple whose first component it is (the
translator orders the state variables by declaration, and every function declares `vals` first) -/
class HasVals (σ : Type) where
  get : σ → List (List Nat)

instance : HasVals (List (List Nat)) := ⟨fun s => s⟩
instance {β : Type} : HasVals (List (List Nat) × β) := ⟨fun s => s.1⟩

@[simp] theorem HasVals.get_plain (s : List (List Nat)) : HasVals.get s = s := rfl
@[simp] theorem HasVals.get_pair {β : Type} (v : List (List Nat)) (x : β) : HasVals.get (v, x) = v := rfl

/-! ### `max_by` -/

theorem foldl_maxStep_spec {α : Type} (cmp : α → α → Ordering) (score : α → Nat)
    (hc : ∀ x y, (cmp x y = .gt → score y ≤ score x) ∧ (cmp x y ≠ .gt → score x ≤ score y)) :
    ∀ (l : List α) (a : α), (l.foldl (maxStep cmp) a = a ∨ l.foldl (maxStep cmp) a ∈ l) ∧
      score a ≤ score (l.foldl (maxStep cmp) a) ∧ ∀ y ∈ l, score y ≤ score (l.foldl (maxStep cmp) a) := by
  intro l
  induction l with
  | nil => intro a; simp
  | cons b l ih =>
    intro a
    simp only [List.foldl_cons]
    obtain ⟨h1, h2, h3⟩ := ih (maxStep cmp a b)
    have hm : (maxStep cmp a b = a ∨ maxStep cmp a b = b) ∧ score a ≤ score (maxStep cmp a b) ∧ score b ≤ score (maxStep cmp a b) := by
      unfold maxStep
      by_cases hg : cmp a b = .gt
      · rw [if_pos hg]; exact ⟨Or.inl rfl, Nat.le_refl _, (hc a b).1 hg⟩
      · rw [if_neg hg]; exact ⟨Or.inr rfl, (hc a b).2 hg, Nat.le_refl _⟩
    refine ⟨?_, Nat.le_trans hm.2.1 h2, ?_⟩
    · rcases h1 with h1 | h1
      · rw [h1]
        rcases hm.1 with e | e
        · left; exact e
        · right; rw [e]; simp
      · right; exact List.mem_cons_of_mem _ h1
    · intro y hy
      rcases List.mem_cons.mp hy with rfl | hy
      · exact Nat.le_trans hm.2.2 h2
      · exact h3 y hy

/-- `max_by` with a comparator that refines `score` (in the sense `hc`) returns a `score`-maximal element of the list,
whatever the order of the list -/
theorem maxBy_spec {α : Type} (cmp : α → α → Ordering) (score : α → Nat)
    (hc : ∀ x y, (cmp x y = .gt → score y ≤ score x) ∧ (cmp x y ≠ .gt → score x ≤ score y)) (l : List α) (hl : l ≠ []) :
    ∃ x, maxBy cmp l = some x ∧ x ∈ l ∧ ∀ y ∈ l, score y ≤ score x := by
  cases l with
  | nil => exact absurd rfl hl
  | cons a l =>
    obtain ⟨h1, h2, h3⟩ := foldl_maxStep_spec cmp score hc l a
    refine ⟨_, rfl, ?_, ?_⟩
    · rcases h1 with h1 | h1
      · rw [h1]; simp
      · exact List.mem_cons_of_mem _ h1
    · intro y hy
      rcases List.mem_cons.mp hy with rfl | hy
      · exact h2
      · exact h3 y hy

end RbV.Rs

namespace RbV.Hmm

/-! ### Viterbi over any matrices whose cells satisfy the Bellman conditions -/

/-- `cf = (value column, back-pointer column)` is a valid Viterbi step from the value column `col` under observation `o`:
every pointer is a state, the value is the pointed-to predecessor's continuation, and no predecessor does better -/
def GoodStep (m : Hmm) (col : List Nat) (o : Nat) (cf : List Nat × List Nat) : Prop :=
  ∀ j, j < m.S → ix cf.2 j < m.S ∧ ix cf.1 j = ix col (ix cf.2 j) * m.trans (ix cf.2 j) j * m.emit j o ∧
    ∀ k, k < m.S → ix col k * m.trans k j * m.emit j o ≤ ix cf.1 j

inductive GoodMats (m : Hmm) : List Nat → List Nat → List (List Nat × List Nat) → Prop
  | nil (col : List Nat) : GoodMats m col [] []
  | cons {col : List Nat} {o : Nat} {os : List Nat} {cf : List Nat × List Nat} {rest : List (List Nat × List Nat)} :
      GoodStep m col o cf → GoodMats m cf.1 os rest → GoodMats m col (o :: os) (cf :: rest)

/-- the last value column -/
def lastCol (col : List Nat) : List (List Nat × List Nat) → List Nat
  | [] => col
  | cf :: rest => lastCol cf.1 rest

/-- traceback from a given final state `kL` (reported value: its entry in the last column times its weight `w`) -/
def tbK (kL : Nat) (w : Nat → Nat) (col : List Nat) : List (List Nat × List Nat) → List Nat × Nat
  | [] => ([kL], ix col kL * w kL)
  | cf :: rest => let r := tbK kL w cf.1 rest; (ix cf.2 (r.1.headD 0) :: r.1, r.2)

theorem tbK_val (kL : Nat) (w : Nat → Nat) : ∀ (mats : List (List Nat × List Nat)) (col : List Nat),
    (tbK kL w col mats).2 = ix (lastCol col mats) kL * w kL := by
  intro mats
  induction mats with
  | nil => intro col; rfl
  | cons cf rest ih => intro col; simp only [tbK, lastCol, ih]

/-- generalisation of `traceback_spec` to any good matrices and any final state that maximises the weighted last column -/
theorem tbK_spec (m : Hmm) (w : Nat → Nat) (hw : ∀ k, k < m.S → w k = m.fin k) {os : List Nat} {col : List Nat}
    {mats : List (List Nat × List Nat)} (hg : GoodMats m col os mats) (kL : Nat) (hkL : kL < m.S)
    (hmax : ∀ k, k < m.S → ix (lastCol col mats) k * w k ≤ ix (lastCol col mats) kL * w kL) :
    ∃ k0 π, (tbK kL w col mats).1 = k0 :: π ∧ k0 < m.S ∧ π ∈ paths m.S os.length ∧
      ix col k0 * chain m k0 os π = (tbK kL w col mats).2 ∧
      ∀ k, k < m.S → ∀ ρ ∈ paths m.S os.length, ix col k * chain m k os ρ ≤ (tbK kL w col mats).2 := by
  induction hg with
  | nil col =>
    refine ⟨kL, [], rfl, hkL, by simp [paths], ?_, ?_⟩
    · simp [tbK, chain, hw kL hkL]
    · intro k hk ρ hρ
      simp only [paths, List.length_nil, List.mem_singleton] at hρ
      subst hρ
      simp only [tbK, chain, ← hw k hk]
      exact hmax k hk
  | @cons col o os cf rest hstep _ ih =>
    obtain ⟨j0, π, hp, hj0, hπ, hval, hub⟩ := ih hmax
    obtain ⟨hptr, hv, hle⟩ := hstep j0 hj0
    simp only [tbK, hp, List.headD_cons]
    refine ⟨ix cf.2 j0, j0 :: π, rfl, hptr, cons_mem_paths hj0 hπ, ?_, ?_⟩
    · rw [← hval, hv]
      simp only [chain]; ac_rfl
    · intro k hk ρ hρ
      obtain ⟨j, ρ', rfl, hj, hρ'⟩ := mem_paths_succ hρ
      simp only [chain]
      calc ix col k * (m.trans k j * m.emit j o * chain m j os ρ')
          = (ix col k * m.trans k j * m.emit j o) * chain m j os ρ' := by ac_rfl
        _ ≤ ix cf.1 j * chain m j os ρ' := Nat.mul_le_mul_right _ ((hstep j hj).2.2 k hk)
        _ ≤ _ := hub j hj ρ' hρ'

/-- the matrices of the mirror model are good (for every valid selector) -/
theorem goodMats_matFrom {sel : Sel} (hsel : IsArgmax sel) (m : Hmm) : ∀ (os : List Nat) (col : List Nat),
    GoodMats m col os (matFrom sel m col os) := by
  intro os
  induction os with
  | nil => intro col; exact GoodMats.nil col
  | cons o os ih =>
    intro col
    simp only [matFrom]
    refine GoodMats.cons ?_ (ih _)
    intro j hj
    exact ⟨ix_stepV_ptr_lt hsel m col o hj, ix_stepV_val sel m col o hj, fun k hk => ix_stepV_ub hsel m col o hj hk⟩

end RbV.Hmm

namespace RbV.Hmm

/-! ### from index-wise facts about the two `Array2`s to `GoodMats`; the traced path -/

theorem ix_set_self {l : List Nat} {j v : Nat} (h : j < l.length) : ix (l.set j v) j = v := by
  simp [ix, List.getD, h]

theorem ix_set_ne {l : List Nat} {j c v : Nat} (h : c ≠ j) : ix (l.set j v) c = ix l c := by
  simp [ix, List.getD, List.getElem?_set_ne (Ne.symm h)]

theorem goodMats_of_index (m : Hmm) : ∀ (os : List Nat) (vs fs : List (List Nat)) (col : List Nat),
    vs.length = os.length → fs.length = os.length →
    (∀ t, t < os.length → GoodStep m ((col :: vs)[t]?.getD []) (os[t]?.getD 0) (vs[t]?.getD [], fs[t]?.getD [])) →
    GoodMats m col os (vs.zip fs) := by
  intro os
  induction os with
  | nil =>
    intro vs fs col hv hf _
    have : vs = [] := List.length_eq_zero_iff.mp hv
    subst this
    exact GoodMats.nil col
  | cons o os ih =>
    intro vs fs col hv hf h
    cases vs with
    | nil => simp at hv
    | cons v vs =>
      cases fs with
      | nil => simp at hf
      | cons f fs =>
        simp only [List.zip_cons_cons]
        refine GoodMats.cons (cf := (v, f)) ?_ (ih vs fs v (by simpa using hv) (by simpa using hf) ?_)
        · simpa using h 0 (by simp)
        · intro t ht
          simpa using h (t + 1) (by simp; omega)

theorem lastCol_zip : ∀ (vs fs : List (List Nat)) (col : List Nat), vs.length = fs.length →
    lastCol col (vs.zip fs) = (col :: vs)[vs.length]?.getD [] := by
  intro vs
  induction vs with
  | nil => intro fs col _; simp [lastCol]
  | cons v vs ih =>
    intro fs col h
    cases fs with
    | nil => simp at h
    | cons f fs =>
      simp only [List.zip_cons_cons, lastCol]
      rw [ih fs v (by simpa using h)]
      simp

/-- the traced path alone -/
def tbP (kL : Nat) : List (List Nat × List Nat) → List Nat
  | [] => [kL]
  | cf :: rest => ix cf.2 ((tbP kL rest).headD 0) :: tbP kL rest

theorem tbK_path (kL : Nat) (w : Nat → Nat) : ∀ (mats : List (List Nat × List Nat)) (col : List Nat),
    (tbK kL w col mats).1 = tbP kL mats := by
  intro mats
  induction mats with
  | nil => intro col; rfl
  | cons cf rest ih => intro col; simp only [tbK, tbP, ih]

end RbV.Hmm
