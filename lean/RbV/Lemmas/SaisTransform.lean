import RbV.Lemmas.SaisText
/-
`suffix_array::transform_text` as modelled for SA-IS (`Sais.transformText`: ranks = index in the ascending alphabet)
equals the specification-level `Transform.transformText` (ranks = number of distinct smaller symbols), and the
transformed text is a `Valid` input of `Sais::construct`.
-/
namespace RbV.Sais
open RbV

/-! ### `Alphabet::new` / `RankTransform::new`: index in the ascending alphabet = number of distinct smaller symbols -/

theorem le_foldl_max (l : List Nat) (b : Nat) : b ≤ l.foldl max b := by
  induction l generalizing b with
  | nil => simp
  | cons a l ih => simp only [List.foldl_cons]; have := ih (max b a); omega

theorem mem_le_foldl_max (l : List Nat) (b x : Nat) (hx : x ∈ l) : x ≤ l.foldl max b := by
  induction l generalizing b with
  | nil => simp at hx
  | cons a l ih =>
    simp only [List.foldl_cons]
    rcases List.mem_cons.mp hx with rfl | h
    · have := le_foldl_max l (max b x); omega
    · exact ih _ h

theorem idxOf_filter_range (p : Nat → Bool) (a n : Nat) (han : a < n) (hp : p a = true) :
    ((List.range n).filter p).idxOf a = ((List.range a).filter p).length := by
  induction n with
  | zero => omega
  | succ n ih =>
    rw [List.range_succ, List.filter_append, List.idxOf_append]
    by_cases h : a < n
    · rw [if_pos (by simp [List.mem_filter, h, hp])]; exact ih h
    · have : a = n := by omega
      subst this
      rw [if_neg (by simp [List.mem_filter])]
      simp [hp]

theorem alphabet_idxOf (t : List Nat) (a : Nat) (ha : a ∈ t) : (alphabet t).idxOf a = Transform.rankOf t a := by
  unfold alphabet Transform.rankOf
  have hf : (fun c => t.contains c) = (fun x => decide (x ∈ t)) := by
    funext c; simp
  rw [hf]
  exact idxOf_filter_range _ a _ (by have := mem_le_foldl_max t 0 a ha; omega) (by simp [ha])

theorem transformGo_eq (t : List Nat) (rk : Nat → Nat) (sent off : Nat) (xs : List Nat) (s : Nat)
    (h : ∀ a, a ∈ xs → rk a = Transform.rankOf t a) :
    Sais.transformGo rk sent off xs s = Transform.transformGo t sent off xs s := by
  induction xs generalizing s with
  | nil => rfl
  | cons a as ih =>
    have iha := fun s => ih s (fun b hb => h b (List.mem_cons_of_mem _ hb))
    simp only [Sais.transformGo, Transform.transformGo]
    rw [h a (List.mem_cons_self ..), iha, iha]

/-- the executable transform of the SA-IS model equals the specification-level one -/
theorem transformText_eq (t : List Nat) : Sais.transformText t = Transform.transformText t := by
  unfold Sais.transformText Transform.transformText
  exact transformGo_eq t _ _ _ t _ (fun a ha => alphabet_idxOf t a ha)

/-! ### the transformed text is a valid SA-IS input -/

/-- the number of occurrences of `s` after an occurrence of `s` takes every value below `count s` -/
theorem exists_count_drop (l : List Nat) (s c : Nat) (hc : c < l.count s) :
    ∃ p, l[p]? = some s ∧ (l.drop (p + 1)).count s = c := by
  induction l with
  | nil => simp at hc
  | cons a l ih =>
    by_cases ha : a = s
    · subst ha
      rw [List.count_cons_self] at hc
      by_cases hcl : c = l.count a
      · exact ⟨0, by simp, by simp [hcl]⟩
      · obtain ⟨p, hp1, hp2⟩ := ih (by omega)
        exact ⟨p + 1, by simpa using hp1, by simpa using hp2⟩
    · rw [List.count_cons_of_ne ha] at hc
      obtain ⟨p, hp1, hp2⟩ := ih hc
      exact ⟨p + 1, by simpa using hp1, by simpa using hp2⟩

theorem exists_sentPos_rkAfter (t : List Nat) (c : Nat) (hc : c < t.count (sentinelOf t)) :
    ∃ p, IsSentPos t p ∧ Transform.rkAfter t p = c :=
  exists_count_drop t (sentinelOf t) c hc

theorem rankOf_succ (t : List Nat) (b : Nat) :
    Transform.rankOf t (b + 1) = Transform.rankOf t b + (if b ∈ t then 1 else 0) := by
  unfold Transform.rankOf
  rw [List.range_succ, List.filter_append]
  by_cases hb : b ∈ t <;> simp [hb]

/-- `rankOf` takes every value below `rankOf t a` at a member of `t` below `a` -/
theorem exists_rankOf_eq (t : List Nat) (a r : Nat) (hr : r < Transform.rankOf t a) :
    ∃ b, b ∈ t ∧ b < a ∧ Transform.rankOf t b = r := by
  induction a with
  | zero => simp [Transform.rankOf] at hr
  | succ a ih =>
    rw [rankOf_succ] at hr
    by_cases ha : a ∈ t
    · rw [if_pos ha] at hr
      by_cases hra : r = Transform.rankOf t a
      · exact ⟨a, ha, by omega, hra.symm⟩
      · obtain ⟨b, hb1, hb2, hb3⟩ := ih (by omega)
        exact ⟨b, hb1, by omega, hb3⟩
    · rw [if_neg ha] at hr
      obtain ⟨b, hb1, hb2, hb3⟩ := ih (by omega)
      exact ⟨b, hb1, by omega, hb3⟩

theorem sentinelOf_mem (t : List Nat) (hne : t ≠ []) : sentinelOf t ∈ t := by
  have := Transform.sentPos_getD t _ (isSentPos_last t hne)
  rw [← this.2]; exact Transform.getD_mem t _ this.1

theorem isSentPos_iff_getD (t : List Nat) (x : Nat) (hx : x < t.length) :
    IsSentPos t x ↔ t.getD x 0 = sentinelOf t := by
  unfold IsSentPos
  rw [List.getD_eq_getElem?_getD, List.getElem?_eq_getElem hx]; simp

theorem rkAfter_last (t : List Nat) : Transform.rkAfter t (t.length - 1) = 0 := by
  unfold Transform.rkAfter
  rw [List.drop_eq_nil_of_le (by omega)]; simp

/-- every member of the text below which there is no other member has rank 0; hence a symbol of positive rank
is not the (minimal) sentinel -/
theorem ne_sentinel_of_rank_pos (t : List Nat) (hmin : ∀ p, p < t.length → sentinelOf t ≤ t.getD p 0)
    (b : Nat) (hr : 0 < Transform.rankOf t b) : b ≠ sentinelOf t := by
  intro e
  obtain ⟨b', hb1, hb2, _⟩ := exists_rankOf_eq t b 0 hr
  obtain ⟨p, hp, hpe⟩ := exists_getD_of_mem t b' hb1
  have := hmin p hp
  omega

/-- `transform_text` hands SA-IS a text it accepts: non-empty, last symbol (0) is the unique minimum, dense alphabet -/
theorem valid_transformText (t : List Nat) (hne : t ≠ [])
    (hmin : ∀ p, p < t.length → sentinelOf t ≤ t.getD p 0) : Valid (Transform.transformText t) := by
  have hlen := Transform.length_transformText t
  have hpos : 0 < t.length := List.length_pos_iff.mpr hne
  have hsm := sentinelOf_mem t hne
  have hcnt : 0 < t.count (sentinelOf t) := List.count_pos_iff.mpr hsm
  have hlast := isSentPos_last t hne
  -- values of the transformed text
  have hsentVal : ∀ p, IsSentPos t p → (Transform.transformText t).getD p 0 = Transform.rkAfter t p := by
    intro p hp
    rw [Transform.transformText_getD t p (Transform.sentPos_getD t p hp).1, if_pos hp]
  have hmemT : ∀ p, p < t.length → (Transform.transformText t).getD p 0 ∈ Transform.transformText t := by
    intro p hp
    exact Transform.getD_mem _ p (by omega)
  -- small values are sentinel ranks
  have hsmall : ∀ c, c < t.count (sentinelOf t) → c ∈ Transform.transformText t := by
    intro c hc
    obtain ⟨p, hp, hpe⟩ := exists_sentPos_rkAfter t c hc
    rw [← hpe, ← hsentVal p hp]
    exact hmemT p (Transform.sentPos_getD t p hp).1
  -- large values are shifted symbol ranks
  have hlarge : ∀ b, b ∈ t → 0 < Transform.rankOf t b →
      Transform.rankOf t b + (t.count (sentinelOf t) - 1) ∈ Transform.transformText t := by
    intro b hb hr
    obtain ⟨q, hq, hqe⟩ := exists_getD_of_mem t b hb
    have hns : ¬ IsSentPos t q := by
      intro hs
      have := (isSentPos_iff_getD t q hq).mp hs
      exact ne_sentinel_of_rank_pos t hmin b hr (by omega)
    have := Transform.transformText_getD t q hq
    rw [if_neg hns, hqe] at this
    rw [← this]
    exact hmemT q hq
  refine ⟨by omega, ?_, ?_⟩
  · intro i hi
    rw [hlen] at hi ⊢
    unfold sym
    rw [hsentVal _ hlast, rkAfter_last, Transform.transformText_getD t i (by omega)]
    by_cases hs : IsSentPos t i
    · rw [if_pos hs]
      have := Transform.rkAfter_strict t i (t.length - 1) hlast (by omega)
      rw [rkAfter_last] at this
      exact this
    · rw [if_neg hs]
      have h1 := hmin i (by omega)
      have h2 : t.getD i 0 ≠ sentinelOf t := fun e => hs ((isSentPos_iff_getD t i (by omega)).mpr e)
      have := Transform.rankOf_strict t (sentinelOf t) (t.getD i 0) (by omega) hsm
      omega
  · intro c x hx hcx
    by_cases hc : c < t.count (sentinelOf t)
    · exact hsmall c hc
    · obtain ⟨p, hp, hpe⟩ := exists_getD_of_mem _ x hx
      rw [hlen] at hp
      rw [Transform.transformText_getD t p hp] at hpe
      by_cases hs : IsSentPos t p
      · rw [if_pos hs] at hpe
        have hb := (Transform.sentinelOrder_rkAfter t hne).bound p hs
        omega
      · rw [if_neg hs] at hpe
        -- c = r + (count - 1) with 1 ≤ r ≤ rankOf t (t.getD p 0)
        have ha := Transform.getD_mem t p hp
        by_cases hr : c - (t.count (sentinelOf t) - 1) = Transform.rankOf t (t.getD p 0)
        · have := hlarge _ ha (by omega)
          have e : Transform.rankOf t (t.getD p 0) + (t.count (sentinelOf t) - 1) = c := by omega
          rw [e] at this; exact this
        · obtain ⟨b, hb1, _, hb3⟩ :=
            exists_rankOf_eq t (t.getD p 0) (c - (t.count (sentinelOf t) - 1)) (by omega)
          have := hlarge b hb1 (by omega)
          have e : Transform.rankOf t b + (t.count (sentinelOf t) - 1) = c := by omega
          rw [e] at this; exact this

end RbV.Sais
