import RbV.Lemmas.RankSelectModel
/-!
C17 [B] — the superblock table is sorted w.r.t. the `Ord` of `SuperblockRank`, and what follows for
`superblocks.binary_search(&SuperblockRank::First(j))`.

`select_x` calls the standard library's `binary_search`.  The translated body (`RbV/Gen/SrcRankSelect.lean`) has an
abstract function `bsearch` in its place; `BSearchOk` states the *documented* contract of `<[T]>::binary_search` followed
by `Ok(i) | Err(i) => i` (std documentation: on a slice sorted by `Ord`, `Ok(i)` = index of *a* matching element, `Err(i)`
= index where the key could be inserted keeping the order).  `bsearch_eq_searchIdx`: on the table `fn superblocks` builds,
every function with that contract returns the mirror model's `searchIdx` (number of entries below the key) for a key
`First(j)` — because the table is sorted (`superblocks_sorted`) and holds at most one `First` entry per rank value
(`superblocks_first_unique`).  Core Lean only.
-/
namespace RbV.Lemmas.RankSelectSorted
open RbV.Model.RankSelect RbV.Lemmas.RankSelectModel

/-- documented contract of `xs.binary_search(&key)` read through `Ok(i) | Err(i) => i`, for the order `lt` -/
def BSearchOk {σ : Type} (lt : σ → σ → Bool) (bs : List σ → σ → Nat) : Prop :=
  ∀ (l : List σ) (key : σ),
    (∀ (a b : Nat) (_ : a < b) (hb : b < l.length), lt l[b] (l[a]'(by omega)) = false) →
    (∃ h : bs l key < l.length, l[bs l key] = key) ∨
    (bs l key ≤ l.length ∧ (∀ (i : Nat) (h : i < l.length), i < bs l key → lt l[i] key = true) ∧
      (∀ (i : Nat) (h : i < l.length), bs l key ≤ i → lt key l[i] = true))

theorem lt_iff (a b : SbRank) : a.lt b = true ↔
    a.val < b.val ∨ (a.val = b.val ∧ (match a, b with | .first _, .some _ => true | _, _ => false) = true) := by
  unfold SbRank.lt
  rw [Bool.or_eq_true, Bool.and_eq_true, decide_eq_true_iff, beq_iff_eq]
  cases a <;> cases b <;> exact Iff.rfl

/-! ### constructors of the table: `First` exactly when the rank differs from the previous entry -/

/-- invariant of the `superblocks` loop about constructors -/
structure CInv (st : SbState) : Prop where
  last : st.last = (st.out.getLast?).map SbRank.val
  ctor : ∀ (m : Nat) (h : m + 1 < st.out.length) (r : Nat), st.out[m + 1] = SbRank.first r →
    (st.out[m]'(by omega)).val ≠ r

theorem cinv_step (t : Bool) (s : Nat) (gb : Nat → List Bool) (st : SbState) (block : Nat) (h : CInv st) :
    CInv (sbStep t s gb st block) := by
  obtain ⟨hlast, hctor⟩ := h
  unfold sbStep
  by_cases hz : st.i % s = 0
  · simp only [hz, if_true]
    refine ⟨by simp only [List.getLast?_append, List.getLast?_singleton, Option.or_some, Option.map_some, Option.some_or]
               split <;> rfl, ?_⟩
    intro m hm r hr
    simp only [List.length_append, List.length_singleton] at hm
    by_cases hm' : m + 1 < st.out.length
    · rw [List.getElem_append_left hm'] at hr
      rw [List.getElem_append_left (by omega)]
      exact hctor m hm' r hr
    · have hme : m + 1 = st.out.length := by omega
      have hr' : (if some st.rank ≠ st.last then SbRank.first st.rank else SbRank.some st.rank) = SbRank.first r := by
        rw [← hr]
        simp [hme]
      rw [List.getElem_append_left (by omega)]
      split at hr'
      · rename_i hne
        have hrr : st.rank = r := by cases hr'; rfl
        rw [hlast] at hne
        have hl : st.out.getLast? = some (st.out[m]'(by omega)) := by
          rw [List.getLast?_eq_getElem?]
          have : st.out.length - 1 = m := by omega
          rw [this, List.getElem?_eq_getElem]
        rw [hl] at hne
        intro he
        apply hne
        simp [he, hrr]
      · cases hr'
  · simp only [hz, if_false]
    exact ⟨hlast, hctor⟩

theorem cinv_fold (t : Bool) (s : Nat) (gb : Nat → List Bool) (L : List Nat) (st : SbState) (h : CInv st) :
    CInv (L.foldl (sbStep t s gb) st) := by
  induction L generalizing st with
  | nil => exact h
  | cons x xs ih => exact ih _ (cinv_step t s gb st x h)

theorem superblocks_ctor (t : Bool) (n s : Nat) (gb : Nat → List Bool) (m : Nat)
    (h : m + 1 < (superblocks t n s gb).length) (r : Nat) (hr : (superblocks t n s gb)[m + 1] = SbRank.first r) :
    ((superblocks t n s gb)[m]'(by omega)).val ≠ r := by
  have := cinv_fold t s gb (List.range ((n + 7) / 8)) {} ⟨rfl, by intro m h; simp at h⟩
  exact this.ctor m h r hr

/-! ### values of the table are non-decreasing -/

theorem runRank_mono (t : Bool) (bits : List Bool) {B B' : Nat} (h : B ≤ B') : runRank t bits B ≤ runRank t bits B' := by
  obtain ⟨d, rfl⟩ := Nat.exists_eq_add_of_le h
  induction d with
  | zero => exact Nat.le_refl _
  | succ d ih =>
    have := runRank_succ t bits (B + d)
    have := ih (by omega)
    rw [show B + (d + 1) = B + d + 1 by omega]
    omega

theorem first_lt_false (e : SbRank) (j : Nat) (h : SbRank.lt (.first j) e = true) : e.lt (.first j) = false := by
  rw [lt_first_false]
  rw [lt_iff] at h
  cases e <;> simp [SbRank.val] at h ⊢ <;> omega

/-- general form: a list sorted by `SbRank.lt` in which a `First` entry is strictly above everything before it -/
theorem bsearch_eq_searchIdx_of (sbs : List SbRank)
    (hsorted : ∀ (a b : Nat) (_ : a < b) (hb : b < sbs.length), SbRank.lt sbs[b] (sbs[a]'(by omega)) = false)
    (hfirst : ∀ (a b : Nat) (_ : a < b) (hb : b < sbs.length) (r : Nat), sbs[b] = SbRank.first r →
      (sbs[a]'(by omega)).val < r)
    (bs : List SbRank → SbRank → Nat) (hbs : BSearchOk SbRank.lt bs) (j : Nat) :
    bs sbs (.first j) = searchIdx sbs (.first j) := by
  have hc := hbs sbs (.first j) hsorted
  generalize bs sbs (.first j) = r at hc
  symm
  unfold searchIdx
  rcases hc with ⟨hlt, heq⟩ | ⟨hle, hbelow, habove⟩
  · apply takeWhile_length_eq _ (.first 0) sbs r (by omega)
    · intro m hm
      rw [List.getD_eq_getElem?_getD, List.getElem?_eq_getElem (by omega), Option.getD_some, lt_first]
      exact hfirst m r hm hlt j heq
    · intro _
      rw [List.getD_eq_getElem?_getD, List.getElem?_eq_getElem hlt, Option.getD_some, heq, lt_first_false]
      exact Nat.le_refl _
  · apply takeWhile_length_eq _ (.first 0) sbs r hle
    · intro m hm
      rw [List.getD_eq_getElem?_getD, List.getElem?_eq_getElem (by omega), Option.getD_some]
      exact hbelow m (by omega) hm
    · intro hlt
      rw [List.getD_eq_getElem?_getD, List.getElem?_eq_getElem hlt, Option.getD_some]
      exact first_lt_false _ j (habove r hlt (Nat.le_refl _))

section table
variable (t : Bool) (bits : List Bool) (k : Nat) (hk : 1 ≤ k)
include hk

theorem sbs_val (m : Nat) (h : m < (superblocks t bits.length (k * 32) (getBlock bits)).length) :
    ((superblocks t bits.length (k * 32) (getBlock bits))[m]).val = runRank t bits (m * (4 * k)) := by
  obtain ⟨-, -, h3⟩ := superblocks_inv t bits k hk
  have := h3 m h
  rwa [List.getD_eq_getElem?_getD, List.getElem?_eq_getElem h] at this

theorem sbs_val_mono (a b : Nat) (hab : a ≤ b) (hb : b < (superblocks t bits.length (k * 32) (getBlock bits)).length) :
    ((superblocks t bits.length (k * 32) (getBlock bits))[a]'(by omega)).val
      ≤ ((superblocks t bits.length (k * 32) (getBlock bits))[b]).val := by
  rw [sbs_val t bits k hk a (by omega), sbs_val t bits k hk b hb]
  exact runRank_mono t bits (Nat.mul_le_mul_right _ hab)

/-- a `First` entry is strictly above everything before it -/
theorem sbs_first_gt (a b : Nat) (hab : a < b) (hb : b < (superblocks t bits.length (k * 32) (getBlock bits)).length)
    (r : Nat) (hr : (superblocks t bits.length (k * 32) (getBlock bits))[b] = SbRank.first r) :
    ((superblocks t bits.length (k * 32) (getBlock bits))[a]'(by omega)).val < r := by
  obtain ⟨c, rfl⟩ : ∃ c, b = c + 1 := ⟨b - 1, by omega⟩
  have h1 := superblocks_ctor t bits.length (k * 32) (getBlock bits) c hb r hr
  have h2 := sbs_val_mono t bits k hk a c (by omega) (by omega)
  have h3 := sbs_val_mono t bits k hk c (c + 1) (by omega) hb
  rw [hr] at h3
  have h4 : (SbRank.first r).val = r := rfl
  rw [h4] at h3
  omega

/-- the table is sorted w.r.t. the `Ord` of `SuperblockRank` -/
theorem superblocks_sorted (a b : Nat) (hab : a < b)
    (hb : b < (superblocks t bits.length (k * 32) (getBlock bits)).length) :
    SbRank.lt ((superblocks t bits.length (k * 32) (getBlock bits))[b])
      ((superblocks t bits.length (k * 32) (getBlock bits))[a]'(by omega)) = false := by
  have hm := sbs_val_mono t bits k hk a b (by omega) hb
  have hf := sbs_first_gt t bits k hk a b hab hb
  generalize (superblocks t bits.length (k * 32) (getBlock bits))[b] = y at hm hf
  generalize (superblocks t bits.length (k * 32) (getBlock bits))[a]'(by omega) = x at hm hf
  rw [← Bool.not_eq_true, lt_iff]
  cases y with
  | first r =>
    have h1 := hf r rfl
    cases x <;> simp [SbRank.val] at h1 ⊢ <;> omega
  | some r =>
    cases x <;> simp [SbRank.val] at hm ⊢ <;> omega

/-- **the std call in `select_x`**: on the table built by `fn superblocks`, every function with the documented contract of
`binary_search` returns, for the key `First(j)`, the number of entries below the key -/
theorem bsearch_eq_searchIdx (bs : List SbRank → SbRank → Nat) (hbs : BSearchOk SbRank.lt bs) (j : Nat) :
    bs (superblocks t bits.length (k * 32) (getBlock bits)) (.first j)
      = searchIdx (superblocks t bits.length (k * 32) (getBlock bits)) (.first j) :=
  bsearch_eq_searchIdx_of _ (superblocks_sorted t bits k hk) (sbs_first_gt t bits k hk) bs hbs j

end table

/-! ### the contract is satisfiable: the linear search `searchIdx` has it -/

theorem takeWhile_spec {α : Type} (f : α → Bool) (l : List α) :
    (∀ (i : Nat) (h : i < l.length), i < (l.takeWhile f).length → f l[i] = true) ∧
    (∀ h : (l.takeWhile f).length < l.length, f l[(l.takeWhile f).length] = false) := by
  induction l with
  | nil => exact ⟨fun i h => by simp at h, fun h => by simp at h⟩
  | cons x xs ih =>
    by_cases hx : f x = true
    · simp only [List.takeWhile_cons, hx, if_true, List.length_cons]
      refine ⟨?_, ?_⟩
      · intro i h hi
        cases i with
        | zero => simpa using hx
        | succ i => simpa using ih.1 i (by simpa using h) (by omega)
      · intro h
        simpa using ih.2 (by omega)
    · simp only [List.takeWhile_cons, hx, List.length_nil]
      refine ⟨fun i h hi => by simp at hi, fun h => by simpa using hx⟩

theorem lt_trichotomy (a b : SbRank) (h1 : a.lt b = false) (h2 : b.lt a = false) : a = b := by
  rw [← Bool.not_eq_true, lt_iff] at h1 h2
  cases a <;> cases b <;> simp [SbRank.val] at h1 h2 ⊢ <;> omega

theorem lt_of_lt_of_not_lt (a b c : SbRank) (h1 : a.lt b = true) (h2 : c.lt b = false) : a.lt c = true := by
  rw [← Bool.not_eq_true, lt_iff] at h2
  rw [lt_iff] at h1 ⊢
  cases a <;> cases b <;> cases c <;> simp [SbRank.val] at h1 h2 ⊢ <;> omega

/-- non-vacuity of `BSearchOk`: "number of leading entries below the key" satisfies the contract on every sorted list -/
theorem searchIdx_ok : BSearchOk SbRank.lt searchIdx := by
  intro l key hs
  unfold searchIdx
  obtain ⟨h1, h2⟩ := takeWhile_spec (fun e => e.lt key) l
  have hle := length_takeWhile_le (fun e => e.lt key) l
  generalize (l.takeWhile (fun e => e.lt key)).length = r at h1 h2 hle
  by_cases hr : r < l.length
  · have hnot := h2 hr
    by_cases hk : key.lt l[r] = true
    · right
      refine ⟨by omega, fun i h hi => h1 i h hi, ?_⟩
      intro i h hi
      by_cases hir : i = r
      · subst hir; exact hk
      · exact lt_of_lt_of_not_lt key l[r] l[i] hk (hs r i (by omega) h)
    · left
      exact ⟨hr, lt_trichotomy _ _ hnot (by simpa using hk)⟩
  · right
    exact ⟨by omega, fun i h hi => h1 i h hi, fun i h hi => by omega⟩

end RbV.Lemmas.RankSelectSorted
