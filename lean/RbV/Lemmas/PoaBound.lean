import RbV.Lemmas.PoaHistory
/-!
# Node growth of one align-and-add step of the model is bounded by the query length

The traceback emits at most `|query|` operations that consume a query symbol: each of them moves one column
to the left, and in column 0 of a computed row only `Del(None)` is stored.  (Rows are computed for every node
because `topo` visits every node of a DAG.)  With `addAlignment_grows` (one new node per consuming operation at
most) this bounds the growth per addition; `Grows` composes along histories.
-/
namespace RbV.Poa.Model
open RbV.NW RbV.Poa

theorem consuming_cons (op : POp) (r : List POp) : consuming (op :: r) = opCost op + consuming r := by
  simp [consuming]

theorem traceLoop_consuming (es : WEdges) (t : Table) (n : Nat) (ht : TableOK es t)
    (hcol : ∀ v, v < n → ((t.rows.getD v []).getD 0 ⟨0, .m none⟩).op = .d none)
    (hedge : ∀ v, ∀ p ∈ inN es v, p < n) :
    ∀ (f i j : Nat) (acc : List POp), i ≤ n → consuming (traceLoop t f i j acc) ≤ consuming acc + j := by
  intro f
  induction f with
  | zero => intro i j acc _; simp [traceLoop]
  | succ f ih =>
    intro i j acc hi
    cases i with
    | zero =>
      by_cases hj : j = 0
      · subst hj; simp [traceLoop]
      · have hcell : t.cell 0 j = t.r0.getD j ⟨0, .m none⟩ := by simp [Table.cell]
        rcases ht.r0 j with hop | hop
        · have hs : traceLoop t (f + 1) 0 j acc = traceLoop t f 0 (j - 1) (.m none :: acc) := by
            rw [traceLoop_succ t f 0 j acc (by omega), hcell, hop]; rfl
          rw [hs]
          have := ih 0 (j - 1) (.m none :: acc) (by omega)
          rw [consuming_cons] at this
          simp only [opCost] at this
          omega
        · have hs : traceLoop t (f + 1) 0 j acc = traceLoop t f 0 (j - 1) (.i none :: acc) := by
            rw [traceLoop_succ t f 0 j acc (by omega), hcell, hop]; rfl
          rw [hs]
          have := ih 0 (j - 1) (.i none :: acc) (by omega)
          rw [consuming_cons] at this
          simp only [opCost] at this
          omega
    | succ v =>
      have hcell : t.cell (v + 1) j = (t.rows.getD v []).getD j ⟨0, .m none⟩ := by simp [Table.cell]
      have hrow := ht.rows v j
      rw [← hcell] at hrow
      rcases hrow with hop | ⟨hj, hop⟩ | ⟨hj, hop | ⟨p, hp, hop | hop⟩⟩
      · have hj : 0 < j := by
          apply Nat.pos_of_ne_zero
          intro h0
          subst h0
          have := hcol v (by omega)
          rw [← hcell, hop] at this
          exact absurd this (by simp)
        have hs : traceLoop t (f + 1) (v + 1) j acc = traceLoop t f 0 (j - 1) (.m none :: acc) := by
          rw [traceLoop_succ t f (v + 1) _ acc (by omega), hop]; rfl
        rw [hs]
        have := ih 0 (j - 1) (.m none :: acc) (by omega)
        rw [consuming_cons] at this
        simp only [opCost] at this
        omega
      · subst hj
        have hs : traceLoop t (f + 1) (v + 1) 0 acc = traceLoop t f v 0 (.d none :: acc) := by
          rw [traceLoop_succ t f (v + 1) _ acc (by omega), hop]; rfl
        rw [hs]
        have := ih v 0 (.d none :: acc) (by omega)
        rw [consuming_cons] at this
        simp only [opCost] at this
        omega
      · have hs : traceLoop t (f + 1) (v + 1) j acc = traceLoop t f (v + 1) (j - 1) (.i (some v) :: acc) := by
          rw [traceLoop_succ t f (v + 1) _ acc (by omega), hop]; rfl
        rw [hs]
        have := ih (v + 1) (j - 1) (.i (some v) :: acc) hi
        rw [consuming_cons] at this
        simp only [opCost] at this
        omega
      · have hs : traceLoop t (f + 1) (v + 1) j acc = traceLoop t f (p + 1) (j - 1) (.m (some (p, v)) :: acc) := by
          rw [traceLoop_succ t f (v + 1) _ acc (by omega), hop]; rfl
        rw [hs]
        have := ih (p + 1) (j - 1) (.m (some (p, v)) :: acc) (hedge v p hp)
        rw [consuming_cons] at this
        simp only [opCost] at this
        omega
      · have hs : traceLoop t (f + 1) (v + 1) j acc = traceLoop t f (p + 1) j (.d (some (p, v + 1)) :: acc) := by
          rw [traceLoop_succ t f (v + 1) _ acc (by omega), hop]; rfl
        rw [hs]
        have := ih (p + 1) j (.d (some (p, v + 1)) :: acc) (hedge v p hp)
        rw [consuming_cons] at this
        simp only [opCost] at this
        omega

/-- every node `topo` lists has its row computed: column 0 holds `Del(None)` -/
theorem dpRows_col0 (sc : Sc) (labels : List Nat) (es : WEdges) (query : List Nat) (v : Nat)
    (hv : v < labels.length) (hin : v ∈ topo labels.length es) :
    ((((dpRows sc labels es query).rows).getD v []).getD 0 ⟨0, .m none⟩).op = .d none := by
  simp only [dpRows]
  have key : ∀ (order : List Nat) (rows : Array (List Cell)), rows.size = labels.length →
      (v ∈ order ∨ ((rows.getD v []).getD 0 ⟨0, .m none⟩).op = .d none) →
      (((order.foldl (fun (rows : Array (List Cell)) v =>
          rows.setIfInBounds v (nodeRow sc query (row0 sc.gap query.length) v (labels.getD v 0)
            ((inN es v).map fun p => (p, rows.getD p [])))) rows).getD v []).getD 0 ⟨0, .m none⟩).op = .d none := by
    intro order
    induction order with
    | nil => intro rows _ h; simpa using h
    | cons u order ih =>
      intro rows hs h
      simp only [List.foldl_cons]
      apply ih _ (by simpa using hs)
      by_cases hu : v = u
      · right
        subst hu
        rw [getD_setIfInBounds]
        simp only [true_and, hs, hv, if_true]
        rw [nodeRow_eq]
        rfl
      · rcases h with h | h
        · rcases List.mem_cons.mp h with h | h
          · exact absurd h hu
          · exact Or.inl h
        · right
          rw [getD_setIfInBounds]
          simp only [hu, false_and, if_false]
          exact h
  exact key _ _ (by simp) (Or.inl hin)

theorem getLastD_mem_cons : ∀ (r : List Nat) (a : Nat), r.getLastD a ∈ a :: r := by
  intro r
  induction r with
  | nil => intro a; simp
  | cons b r ih => intro a; simp only [List.getLastD_cons]; exact List.mem_cons_of_mem _ (ih b)

theorem alignAdd_node_growth (sc : Sc) (g : G) (q : List Nat) (hg : Dag g) :
    (alignAdd sc g q).labels.length ≤ g.labels.length + q.length := by
  have hn : 0 < g.labels.length := by
    cases h : g.labels with
    | nil => exact absurd h hg.ne
    | cons a r => simp
  obtain ⟨vis, h1, _, hmem, _⟩ := topo_spec g.labels.length g.es hg.wf hg.acyclic
  have hall : ∀ v, v < g.labels.length → v ∈ topo g.labels.length g.es := by
    intro v hv; rw [h1]; simpa using (hmem v).mpr hv
  have hlast : (dpRows sc g.labels g.es q).last + 1 ≤ g.labels.length := by
    simp only [dpRows, h1]
    cases h : vis.reverse with
    | nil => simp only [List.getLastD_nil]; omega
    | cons a r =>
      have h2 : (a :: r).getLastD 0 ∈ vis.reverse := by
        rw [h, List.getLastD_cons]
        exact getLastD_mem_cons r a
      have h3 := (hmem _).mp (List.mem_reverse.mp h2)
      omega
  have hcons := traceLoop_consuming g.es (dpRows sc g.labels g.es q) g.labels.length (dpRows_tableOK sc g.labels g.es q)
    (fun v hv => dpRows_col0 sc g.labels g.es q v hv (hall v hv))
    (fun v p hp => by
      obtain ⟨w, hw⟩ := (mem_inN g.es v p).mp hp
      exact (hg.wf _ hw).1)
    ((g.labels.length + 2) * (q.length + 2)) ((dpRows sc g.labels g.es q).last + 1) q.length [] hlast
  have := (addAlignment_grows g (globalAlign sc g.labels g.es q).2 q).2
  simp only [alignAdd]
  simp only [globalAlign] at this ⊢
  simp only [consuming, List.map_nil, List.sum_nil, Nat.zero_add] at hcons
  simp only [consuming] at this
  omega

/-! ## `Grows` along histories -/

theorem alignAdd_grows (sc : Sc) (g : G) (q : List Nat) : Grows g (alignAdd sc g q) := by
  unfold alignAdd addAlignment
  exact (foldl_addStep_grows _ q _ { g := g, prev := (topo g.labels.length g.es).headD 0 }).1

theorem foldl_alignAdd_grows : ∀ (steps : List (Sc × List Nat)) (g : G),
    Grows g (steps.foldl (fun g s => alignAdd s.1 g s.2) g) := by
  intro steps
  induction steps with
  | nil => intro g; exact Grows.refl g
  | cons s r ih => intro g; exact (alignAdd_grows s.1 g s.2).trans (ih _)

theorem history_grows (x : List Nat) (steps more : List (Sc × List Nat)) :
    Grows (history x steps) (history x (steps ++ more)) := by
  unfold history
  rw [List.foldl_append]
  exact foldl_alignAdd_grows more _

theorem foldl_alignAdd_node_count : ∀ (steps : List (Sc × List Nat)) (g : G), Dag g →
    (steps.foldl (fun g s => alignAdd s.1 g s.2) g).labels.length ≤
      g.labels.length + (steps.map fun s => s.2.length).sum := by
  intro steps
  induction steps with
  | nil => intro g _; simp
  | cons s r ih =>
    intro g hg
    have h1 := ih _ (alignAdd_dag s.1 g s.2 hg)
    have h2 := alignAdd_node_growth s.1 g s.2 hg
    simp only [List.foldl_cons, List.map_cons, List.sum_cons]
    omega

theorem history_node_count (x : List Nat) (hx : x ≠ []) (steps : List (Sc × List Nat)) :
    (history x steps).labels.length ≤ x.length + (steps.map fun s => s.2.length).sum :=
  foldl_alignAdd_node_count steps _ (chainG_dag x hx)

end RbV.Poa.Model
