import RbV.Lemmas.SaisPlace
import RbV.Lemmas.SaisLPass
import RbV.Lemmas.SaisSPass
/-
`calc_pos` as a whole (C03 (d), (e)): for every arrangement of the LMS positions in `lms_pos` the result contains
every position exactly once; and it is sorted in any relation that satisfies the induced-sorting axioms and in which
`lms_pos` was sorted.
-/
namespace RbV.Sais
open RbV

theorem calcPosRun_pos (t : List Nat) (ty : List Bool) (lms : List Nat) :
    (calcPosRun t ty lms).pos =
      (forDown t.length (sStep t ty)
        ((forUp t.length (lStep t ty t.length)
          ((placeLms t lms (List.replicate t.length t.length) (bEnd0 t)).1, initBucketStart t)).1, bEnd0 t)).1 := rfl

/-- only the last position carries symbol 0 -/
theorem eq_last_of_sym_zero {t : List Nat} (hv : Valid t) (p : Nat) (hp : p < t.length) (h0 : sym t p = 0) :
    p = t.length - 1 := by
  apply Classical.byContradiction
  intro hne
  have := hv.lastMin p (by omega)
  omega

theorem larea_lt_length (t : List Nat) (i : Nat) (h : inLArea t i) : i < t.length := by
  obtain ⟨c, _, h1, h2⟩ := h
  have := cntLt_succ_split t c
  have := cntLt_le_length t (c + 1)
  omega

/-- **Induced sorting** (`calc_pos`).  `RL` is the relation for the L pass, `RS` for the S pass. -/
theorem induced_sort (t : List Nat) (hv : Valid t) (h2 : 2 ≤ t.length) (RL RS : Nat → Nat → Prop)
    (hRL : IndRel t RL) (hsL : StepL t RL) (hRS : IndRel t RS) (hsS : StepS t RS)
    (hLS : ∀ x y, x < t.length → y < t.length → isS (tyOf t) x = false → isS (tyOf t) y = false → RL x y → RS x y)
    (lms : List Nat) (hl : LmsList t lms) (hinit : lms.Pairwise (fun p q => sym t p = sym t q → RL p q)) :
    SDone t RS (calcPosRun t (tyOf t) lms).pos := by
  rw [calcPosRun_pos]
  have hp := placeLms_spec t hv RL hRL lms hl hinit
  generalize (placeLms t lms (List.replicate t.length t.length) (bEnd0 t)).1 = pos0 at hp
  have hd := lPass_spec t hv RL hRL hsL pos0 hp
  generalize (forUp t.length (lStep t (tyOf t) t.length) (pos0, initBucketStart t)).1 = posL at hd
  apply sPass_spec t hv RS hRS hsS posL
  have hdef : ∀ i, inLArea t i → posL.getD i 0 < t.length ∧ isS (tyOf t) (posL.getD i 0) = false := by
    intro i ⟨c, hc, h1, h2⟩
    have := (mem_Lset t c _).mp (hd.larea c hc i h1 h2)
    exact ⟨this.1, this.2.2⟩
  refine ⟨hd.len, hd.larea, ?_, ?_, ?_⟩
  · intro i j hij hi hj
    have := larea_lt_length t j hj
    exact hd.inj i j hij this (by have := (hdef i hi).1; omega) (by have := (hdef j hj).1; omega)
  · intro i j hij hi hj
    have hjn := larea_lt_length t j hj
    have h1 := hdef i hi
    have h2' := hdef j hj
    exact hLS _ _ h1.1 h2'.1 h1.2 h2'.2 (hd.sorted i j hij hjn (by omega) (by omega))
  · -- slot 0
    obtain ⟨i, hi, he⟩ := hp.all (t.length - 1) (isLms_last hv h2)
    have ha := hp.area i hi (by rw [he]; omega)
    rw [he, sym_last_zero hv] at ha
    obtain ⟨_, hb, hlo⟩ := ha
    unfold inBkt at hb
    rw [cntLt_one hv] at hb
    have hi0 : i = 0 := by omega
    subst hi0
    rw [cntLt_zero] at hlo
    have hK : 0 < maxSucc t := by
      have := sym_lt_maxSucc (t := t) (t.length - 1) (by omega); omega
    rw [hd.sarea 0 hK 0 (by rw [cntLt_zero]; omega) (by rw [cntLt_one hv]; omega)]
    exact he

/-- the only valid text of length 1 -/
theorem valid_length_one {t : List Nat} (hv : Valid t) (h1 : t.length = 1) : t = [0] := by
  match t, h1 with
  | [a], _ =>
    have := sym_last_zero hv
    simp [sym] at this
    rw [this]

/-- the LMS positions in text order are an admissible `lms_pos` -/
theorem lmsList_lmsBelow (t : List Nat) : LmsList t (lmsBelow (tyOf t) t.length) := by
  refine ⟨List.Nodup.sublist List.filter_sublist List.nodup_range, ?_⟩
  intro p
  unfold lmsBelow
  rw [List.mem_filter, List.mem_range]
  constructor
  · exact fun h => h.2
  · exact fun h => ⟨lt_of_isLms p h, h⟩

theorem sdone_perm {t : List Nat} {R : Nat → Nat → Prop} {pos : List Nat} (h : SDone t R pos) :
    pos.Perm (List.range t.length) := by
  have := perm_range_of_inj pos (by rw [h.len]; exact h.lt) (by rw [h.len]; exact h.inj)
  rw [h.len] at this; exact this

/-- **C03 (d), the induced-sort part**: for every arrangement of the LMS positions, `calc_pos` places every position
exactly once. -/
theorem calcPos_perm (t : List Nat) (hv : Valid t) (lms : List Nat) (hl : LmsList t lms) :
    (calcPosRun t (tyOf t) lms).pos.Perm (List.range t.length) := by
  by_cases h2 : 2 ≤ t.length
  · have := induced_sort t hv h2 (fun _ _ => True) (fun _ _ => True) (indRel_true t) (fun _ _ _ _ _ _ _ _ => trivial)
      (indRel_true t) (fun _ _ _ _ _ _ _ _ => trivial) (fun _ _ _ _ _ _ _ => trivial) lms hl
      (List.pairwise_of_forall (fun _ _ _ => trivial))
    exact sdone_perm this
  · have h1 : t.length = 1 := by have := hv.pos; omega
    have ht := valid_length_one hv h1
    subst ht
    have hlms : lms = [] := by
      apply List.eq_nil_iff_forall_not_mem.mpr
      intro p hp
      have := (hl.mem p).mp hp
      have hlt := lt_of_isLms p this
      rw [isLms_iff] at this
      simp at hlt
      omega
    subst hlms
    decide

end RbV.Sais
