import RbV.Lemmas.SaisKeys
/-
The label sequence produced by the naming loop of `sort_lms_suffixes`, as a pure function of the scanned LMS positions.
-/
namespace RbV.Sais
open RbV

/-- labels of the scanned LMS positions: `prev`, current `label`, remaining positions -/
def labelsGo (eq : Nat → Nat → Bool) : Option Nat → Nat → List Nat → List Nat
  | _, _, [] => []
  | none, lab, q :: r => lab :: labelsGo eq (some q) lab r
  | some p, lab, q :: r =>
    (if !eq p q then lab + 1 else lab) :: labelsGo eq (some q) (if !eq p q then lab + 1 else lab) r

/-- labels given to `qs` (scanned in this order), starting with label 0 -/
def labels (eq : Nat → Nat → Bool) (qs : List Nat) : List Nat := labelsGo eq none 0 qs

end RbV.Sais
