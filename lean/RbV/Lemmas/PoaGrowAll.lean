import RbV.Lemmas.PoaModes
import RbV.Lemmas.PoaBound
/-!
# Node growth ≤ |query| for every mode of the model

The traceback over the tables of `custom` / `global_banded` emits at most `j` query-consuming operations from
column `j`: a consuming operation moves one column to the left, column 0 never holds one, and a `Yclip` jumps
to a column not to the right of its own.
-/
namespace RbV.Poa.Model
open RbV.NW RbV.Poa

/-- column 0 holds no query-consuming operation; `Yclip(c, _)` in column `j` has `c ≤ j` -/
structure ColsOK (opAt : Nat → Nat → POp) : Prop where
  col0 : ∀ i, 0 < i → opCost (opAt i 0) = 0
  yclip : ∀ i j c d, opAt i j = .y c d → c ≤ j

theorem traceF_consuming (opAt : Nat → Nat → POp) (h : ColsOK opAt) :
    ∀ (f i j : Nat) (acc : List POp), consuming (traceF opAt f i j acc) ≤ consuming acc + j := by
  intro f
  induction f with
  | zero => intro i j acc; simp [traceF]
  | succ f ih =>
    intro i j acc
    by_cases hij : i = 0 ∧ j = 0
    · simp [traceF, hij]
    · rw [traceF_succ opAt f i j acc hij]
      by_cases hj : j = 0
      · -- column 0 (then `i > 0`): the operation consumes nothing
        subst hj
        have hi : 0 < i := by omega
        have hc := h.col0 i hi
        generalize hop : opAt i 0 = op at hc ⊢
        cases op with
        | m pq => simp [opCost] at hc
        | i p => simp [opCost] at hc
        | d pq =>
          cases pq with
          | none =>
            have := ih (i - 1) 0 (.d none :: acc)
            simpa [traceNextF, consuming_cons, opCost] using this
          | some pq =>
            obtain ⟨p, q⟩ := pq
            have := ih (p + 1) 0 (.d (some (p, q)) :: acc)
            simpa [traceNextF, consuming_cons, opCost] using this
        | x r =>
          have := ih r 0 (.x r :: acc)
          simpa [traceNextF, consuming_cons, opCost] using this
        | y c d =>
          have hy := h.yclip i 0 c d hop
          have := ih i c (.y c d :: acc)
          simp only [traceNextF, consuming_cons, opCost] at this ⊢
          omega
      · generalize hop : opAt i j = op
        cases op with
        | m pq =>
          cases pq with
          | none =>
            have := ih 0 (j - 1) (.m none :: acc)
            simp only [traceNextF, consuming_cons, opCost] at this ⊢
            omega
          | some pq =>
            obtain ⟨p, q⟩ := pq
            have := ih (p + 1) (j - 1) (.m (some (p, q)) :: acc)
            simp only [traceNextF, consuming_cons, opCost] at this ⊢
            omega
        | i p =>
          cases p with
          | none =>
            have := ih i (j - 1) (.i none :: acc)
            simp only [traceNextF, consuming_cons, opCost] at this ⊢
            omega
          | some p =>
            have := ih (p + 1) (j - 1) (.i (some p) :: acc)
            simp only [traceNextF, consuming_cons, opCost] at this ⊢
            omega
        | d pq =>
          cases pq with
          | none =>
            have := ih (i - 1) j (.d none :: acc)
            simp only [traceNextF, consuming_cons, opCost] at this ⊢
            omega
          | some pq =>
            obtain ⟨p, q⟩ := pq
            have := ih (p + 1) j (.d (some (p, q)) :: acc)
            simp only [traceNextF, consuming_cons, opCost] at this ⊢
            omega
        | x r =>
          have := ih r j (.x r :: acc)
          simp only [traceNextF, consuming_cons, opCost] at this ⊢
          omega
        | y c d =>
          have hy := h.yclip i j c d hop
          have := ih i c (.y c d :: acc)
          simp only [traceNextF, consuming_cons, opCost] at this ⊢
          omega

/-! ## the tables of `global_banded` and `custom` satisfy `ColsOK` -/

/-- `get 0` of a row whose first cell (if it starts in column 0) is `Del(None)`/`Xclip(0)` consumes nothing -/
theorem get0_cost (cells : List Cell) (start stop : Nat)
    (h : start = 0 → ∀ c0 rest, cells = c0 :: rest → opCost c0.op = 0) :
    opCost (({ cells := cells, start := start, stop := stop } : BRow).get 0).op = 0 := by
  simp only [BRow.get]
  split
  · rename_i hc
    simp only [Bool.and_eq_true, decide_eq_true_eq, Nat.le_zero_eq] at hc
    cases cells with
    | nil => simp at hc
    | cons c0 rest => simpa using h hc.1.1 c0 rest rfl
  · rfl

theorem emptyRow_get0 (n : Nat) : opCost ((emptyRow n).get 0).op = 0 := get0_cost [] 0 (n + 1) (fun _ c0 rest h => by simp at h)

theorem cmax_c0_cost (a b : Int) : opCost (cmax (⟨a, .d none⟩ : Cell) ⟨b, .x 0⟩).op = 0 := by
  rcases cmax_c0_op a b with h | h <;> rw [h] <;> rfl

theorem bNodeRow_get0 (sc : Sc) (xclip : Int) (query : List Nat) (r0 : BRow) (v r : Nat) (preds : List (Nat × BRow))
    (start end_ : Nat) : opCost ((bNodeRow sc xclip query r0 v r preds start end_).get 0).op = 0 := by
  simp only [bNodeRow]
  apply get0_cost
  intro hs c0 rest hc
  simp only [hs, if_true, List.cons.injEq] at hc
  rw [← hc.1]
  exact cmax_c0_cost _ _

theorem cNodeRow_get0 (sc : Sc) (xp : Int) (query : List Nat) (r0 : BRow) (v r : Nat) (preds : List (Nat × BRow)) :
    opCost ((cNodeRow sc xp query r0 v r preds).get 0).op = 0 := by
  simp only [cNodeRow]
  apply get0_cost
  intro _ c0 rest hc
  simp only [List.cons.injEq] at hc
  rw [← hc.1]
  exact cmax_c0_cost _ _

/-- a row that is good for a "last node" different from its own node holds no `Yclip` -/
theorem rowGood_noY (es : WEdges) (v : Nat) (row : BRow) (h : RowGood es (v + 1) v row) (j c d : Nat) :
    (row.get j).op ≠ .y c d := by
  intro e
  have := h j
  rw [e] at this
  rcases this with h | h | ⟨_, h⟩ | ⟨_, h | h | ⟨p, _, h | h⟩⟩ | ⟨hv, _⟩
  all_goals first | (exact absurd h (by simp)) | omega

theorem bRow0_yclip (gap yclip : Int) (n j c d : Nat) (h : ((bRow0 gap yclip n).get j).op = .y c d) : c ≤ j := by
  rcases bRow0_op gap yclip n j with h1 | h1 | ⟨c', h1⟩
  · rw [h1] at h; simp at h
  · rw [h1] at h; simp at h
  · rw [h1] at h
    simp only [POp.y.injEq] at h
    omega

theorem bandedRows_get0 (sc : Sc) (xclip yclip : Int) (labels : List Nat) (es : WEdges) (query : List Nat) (bw : Nat) :
    ∀ u, opCost (((bandedRows sc xclip yclip labels es query bw).rows.getD u (emptyRow query.length)).get 0).op = 0 := by
  simp only [bandedRows]
  generalize topo labels.length es = order
  have key : ∀ (order : List Nat) (st : BState),
      (∀ u, opCost ((st.rows.getD u (emptyRow query.length)).get 0).op = 0) →
      ∀ u, opCost (((order.foldl (bStep sc xclip labels es query bw (bRow0 sc.gap yclip query.length)) st).rows.getD u
        (emptyRow query.length)).get 0).op = 0 := by
    intro order
    induction order with
    | nil => intro st h; exact h
    | cons v order ih =>
      intro st h
      simp only [List.foldl_cons]
      apply ih
      intro u
      simp only [bStep]
      rw [getD_setIfInBounds]
      split
      · exact bNodeRow_get0 _ _ _ _ _ _ _ _ _
      · exact h u
  apply key
  intro u
  have : (Array.replicate labels.length (emptyRow query.length)).getD u (emptyRow query.length) = emptyRow query.length := by
    simp only [Array.getD_eq_getD_getElem?, Array.getElem?_replicate]
    split <;> rfl
  rw [this]
  exact emptyRow_get0 _

theorem bandedTable_colsOK (sc : Sc) (xclip yclip : Int) (labels : List Nat) (es : WEdges) (query : List Nat) (bw : Nat) :
    ColsOK (fun i j => ((bandedTable sc xclip yclip labels es query bw).cell i j).op) := by
  constructor
  · intro i hi
    have : i ≠ 0 := by omega
    simp only [BTable.cell, bandedTable, this, if_false]
    exact bandedRows_get0 sc xclip yclip labels es query bw (i - 1)
  · intro i j c d h
    cases i with
    | zero =>
      simp only [BTable.cell, bandedTable, if_true] at h
      exact bRow0_yclip _ _ _ _ _ _ h
    | succ v =>
      simp only [BTable.cell, bandedTable, Nat.succ_ne_zero, if_false, Nat.add_sub_cancel] at h
      exact absurd h (rowGood_noY es v _ (bandedRows_good sc xclip yclip labels es query bw (v + 1) v) j c d)

theorem customRows_get0 (sc : Sc) (xp : Int) (labels : List Nat) (es : WEdges) (query : List Nat) (r0 : BRow) :
    ∀ (order : List Nat) (st : CState),
      (∀ u, opCost ((st.rows.getD u (emptyRow query.length)).get 0).op = 0) →
      ∀ u, opCost (((order.foldl (cStep sc xp labels es query r0) st).rows.getD u (emptyRow query.length)).get 0).op = 0 := by
  intro order
  induction order with
  | nil => intro st h; exact h
  | cons v order ih =>
    intro st h
    simp only [List.foldl_cons]
    apply ih
    intro u
    simp only [cStep]
    rw [getD_setIfInBounds]
    split
    · exact cNodeRow_get0 _ _ _ _ _ _ _
    · exact h u

theorem replicate_emptyRow_getD (m n u : Nat) :
    (Array.replicate m (emptyRow n)).getD u (emptyRow n) = emptyRow n := by
  simp only [Array.getD_eq_getD_getElem?, Array.getElem?_replicate]
  split <;> rfl

theorem get_inband (cells : List Cell) (n j : Nat) (hj : j < n + 1) (hne : cells ≠ []) :
    (({ cells := cells, start := 0, stop := n + 1 } : BRow).get j) = cells.getD j mcell := by
  simp [BRow.get, hj, hne]

theorem get_outband (cells : List Cell) (n j : Nat) (hj : ¬ j < n + 1) :
    (({ cells := cells, start := 0, stop := n + 1 } : BRow).get j).op = .i none := by
  have h0 : j ≠ 0 := by omega
  have h1 : n + 1 ≤ j := by omega
  simp [BRow.get, hj, h0, h1]

theorem customTable_colsOK (sc : Sc) (xp xs yp ys : Int) (labels : List Nat) (es : WEdges) (query : List Nat) :
    ColsOK (fun i j => ((customTable sc xp xs yp ys labels es query).cell i j).op) := by
  -- facts about the rows before suffix clipping
  generalize hL : (topo labels.length es).getLastD 0 = L
  have hinit0 : ∀ u, opCost (((Array.replicate labels.length (emptyRow query.length)).getD u (emptyRow query.length)).get 0).op = 0 := by
    intro u; rw [replicate_emptyRow_getD]; exact emptyRow_get0 _
  have hrows0 := customRows_get0 sc xp labels es query (bRow0 sc.gap yp query.length) (topo labels.length es)
    { rows := Array.replicate labels.length (emptyRow query.length),
      maxcol := List.replicate (query.length + 1) ((0 : Int), 0) } hinit0
  have hrowsY : ∀ v, RowGood es (v + 1) v (((topo labels.length es).foldl
      (cStep sc xp labels es query (bRow0 sc.gap yp query.length))
      { rows := Array.replicate labels.length (emptyRow query.length),
        maxcol := List.replicate (query.length + 1) ((0 : Int), 0) }).rows.getD v (emptyRow query.length)) := by
    intro v
    exact customRows_good sc xp labels es query (bRow0 sc.gap yp query.length) (v + 1) (topo labels.length es) _
      (by intro u; rw [replicate_emptyRow_getD]; exact emptyRow_good es (v + 1) u query.length) v
  generalize hst : (topo labels.length es).foldl (cStep sc xp labels es query (bRow0 sc.gap yp query.length))
    { rows := Array.replicate labels.length (emptyRow query.length),
      maxcol := List.replicate (query.length + 1) ((0 : Int), 0) } = st at hrows0 hrowsY
  -- the last row after suffix clipping
  obtain ⟨h1, h2, h3⟩ := xSuffix_spec xs (L + 1) st.maxcol
    ((List.range (query.length + 1)).map (st.rows.getD L (emptyRow query.length)).get) 0 (0, 0)
  have horig : ∀ k, k < query.length + 1 →
      (((List.range (query.length + 1)).map (st.rows.getD L (emptyRow query.length)).get).getD k mcell) =
        (st.rows.getD L (emptyRow query.length)).get k := by
    intro k hk
    simp [List.getD_eq_getElem?_getD, hk]
  -- unfold the table once and for all
  have hcell : ∀ v j, ((customTable sc xp xs yp ys labels es query).cell (v + 1) j) =
      ((st.rows.setIfInBounds L
        { cells :=
            if (xSuffix xs (L + 1) 0 st.maxcol ((List.range (query.length + 1)).map (st.rows.getD L (emptyRow query.length)).get) (0, 0)).2.2 ≠ query.length
            then setAt (xSuffix xs (L + 1) 0 st.maxcol ((List.range (query.length + 1)).map (st.rows.getD L (emptyRow query.length)).get) (0, 0)).1 query.length
              (cmax ((xSuffix xs (L + 1) 0 st.maxcol ((List.range (query.length + 1)).map (st.rows.getD L (emptyRow query.length)).get) (0, 0)).1.getD query.length mcell)
                ⟨(xSuffix xs (L + 1) 0 st.maxcol ((List.range (query.length + 1)).map (st.rows.getD L (emptyRow query.length)).get) (0, 0)).2.1 + ys,
                 .y (xSuffix xs (L + 1) 0 st.maxcol ((List.range (query.length + 1)).map (st.rows.getD L (emptyRow query.length)).get) (0, 0)).2.2 query.length⟩)
            else (xSuffix xs (L + 1) 0 st.maxcol ((List.range (query.length + 1)).map (st.rows.getD L (emptyRow query.length)).get) (0, 0)).1,
          start := 0, stop := query.length + 1 }).getD v (emptyRow query.length)).get j := by
    intro v j
    simp only [BTable.cell, customTable, Nat.succ_ne_zero, if_false, Nat.add_sub_cancel, hL, hst]
  generalize hx : xSuffix xs (L + 1) 0 st.maxcol
    ((List.range (query.length + 1)).map (st.rows.getD L (emptyRow query.length)).get) (0, 0) = X at h1 h2 h3 hcell
  obtain ⟨cells1, mir⟩ := X
  simp only [List.length_map, List.length_range] at h1 h3
  simp only at h1 h2 h3 hcell
  have hmir : mir.2 ≤ query.length := by rcases h3 with h | h <;> omega
  -- operations of the clipped row
  have hc1 : ∀ k, k < query.length + 1 →
      (cells1.getD k mcell).op = ((st.rows.getD L (emptyRow query.length)).get k).op ∨ ∃ x, (cells1.getD k mcell).op = .x x := by
    intro k hk
    rcases h2 k with h | h
    · left; rw [h, horig k hk]
    · right; exact h
  have hc2 : ∀ k, k < query.length + 1 →
      let c2 := (if mir.2 ≠ query.length then setAt cells1 query.length
        (cmax (cells1.getD query.length mcell) ⟨mir.1 + ys, .y mir.2 query.length⟩) else cells1).getD k mcell
      c2.op = ((st.rows.getD L (emptyRow query.length)).get k).op ∨ (∃ x, c2.op = .x x) ∨
        (k = query.length ∧ 0 < query.length ∧ c2.op = .y mir.2 query.length) := by
    intro k hk
    by_cases hm : mir.2 ≠ query.length
    · simp only [hm, ne_eq, not_false_eq_true, if_true, setAt]
      rw [getD_set_cell]
      split
      · rename_i hkn
        rcases cmax_op (cells1.getD query.length mcell) ⟨mir.1 + ys, .y mir.2 query.length⟩ with h | h
        · obtain ⟨hk1, _⟩ := hkn
          subst hk1
          rw [h]
          rcases hc1 _ hk with h' | h'
          · left; exact h'
          · right; left; exact h'
        · right; right; exact ⟨hkn.1, by omega, h⟩
      · rcases hc1 k hk with h' | h'
        · left; exact h'
        · right; left; exact h'
    · have hm' : mir.2 = query.length := by
        apply Classical.byContradiction; intro h; exact hm h
      simp only [hm', ne_eq, not_true_eq_false, if_false]
      rcases hc1 k hk with h' | h'
      · left; exact h'
      · right; left; exact h'
  have hlen2 : (if mir.2 ≠ query.length then setAt cells1 query.length
        (cmax (cells1.getD query.length mcell) ⟨mir.1 + ys, .y mir.2 query.length⟩) else cells1) ≠ [] := by
    intro e
    have : (if mir.2 ≠ query.length then setAt cells1 query.length
        (cmax (cells1.getD query.length mcell) ⟨mir.1 + ys, .y mir.2 query.length⟩) else cells1).length = query.length + 1 := by
      split
      · simp [setAt, h1]
      · exact h1
    rw [e] at this
    simp at this
  constructor
  · intro i hi
    obtain ⟨v, rfl⟩ : ∃ v, i = v + 1 := ⟨i - 1, by omega⟩
    show opCost (((customTable sc xp xs yp ys labels es query).cell (v + 1) 0)).op = 0
    rw [hcell v 0, getD_setIfInBounds]
    split
    · rw [get_inband _ _ 0 (by omega) hlen2]
      rcases hc2 0 (by omega) with h | ⟨x, h⟩ | ⟨_, _, h⟩
      · rw [h]; exact hrows0 L
      · rw [h]; rfl
      · omega
    · exact hrows0 v
  · intro i j c d h
    cases i with
    | zero =>
      simp only [BTable.cell, customTable, if_true] at h
      exact bRow0_yclip _ _ _ _ _ _ h
    | succ v =>
      have h' : ((customTable sc xp xs yp ys labels es query).cell (v + 1) j).op = .y c d := h
      rw [hcell v j, getD_setIfInBounds] at h'
      split at h'
      · by_cases hj : j < query.length + 1
        · rw [get_inband _ _ j hj hlen2] at h'
          rcases hc2 j hj with h2' | ⟨x, h2'⟩ | ⟨hjn, _, h2'⟩
          · rw [h2'] at h'
            exact absurd h' (rowGood_noY es L _ (hrowsY L) j c d)
          · rw [h2'] at h'; simp at h'
          · rw [h2'] at h'
            simp only [POp.y.injEq] at h'
            omega
        · rw [get_outband _ _ j hj] at h'
          simp at h'
      · exact absurd h' (rowGood_noY es v _ (hrowsY v) j c d)

/-- **node growth ≤ |query|** for every mode, every graph (acyclic or not), every scoring and clip penalties -/
theorem stepAdd_node_growth (sc : Sc) (cl : Clips) (g : G) (mode : Mode) (q : List Nat) :
    (stepAdd sc cl g mode q).labels.length ≤ g.labels.length + q.length := by
  have hgrow := (addAlignment_grows g (stepOps sc cl g mode q) q).2
  have hcons : consuming (stepOps sc cl g mode q) ≤ q.length := by
    have hc : ∀ xp xs yp ys, consuming (customAlign sc xp xs yp ys g.labels g.es q).2 ≤ q.length := by
      intro xp xs yp ys
      have := traceF_consuming _ (customTable_colsOK sc xp xs yp ys g.labels g.es q)
        ((g.labels.length + 3) * ((customTable sc xp xs yp ys g.labels g.es q).n + 3))
        ((customTable sc xp xs yp ys g.labels g.es q).last + 1) (customTable sc xp xs yp ys g.labels g.es q).n []
      have hn : (customTable sc xp xs yp ys g.labels g.es q).n = q.length := rfl
      simp only [consuming, List.map_nil, List.sum_nil, Nat.zero_add] at this
      simp only [customAlign, BTable.ops, consuming]
      rw [hn] at this
      rw [hn]
      exact this
    cases mode with
    | global => exact hc _ _ _ _
    | semiglobal => exact hc _ _ _ _
    | «local» => exact hc _ _ _ _
    | custom => exact hc _ _ _ _
    | banded bw =>
      have := traceF_consuming _ (bandedTable_colsOK sc cl.xp cl.yp g.labels g.es q bw)
        ((g.labels.length + 3) * ((bandedTable sc cl.xp cl.yp g.labels g.es q bw).n + 3))
        ((bandedTable sc cl.xp cl.yp g.labels g.es q bw).last + 1) (bandedTable sc cl.xp cl.yp g.labels g.es q bw).n []
      have hn : (bandedTable sc cl.xp cl.yp g.labels g.es q bw).n = q.length := rfl
      simp only [consuming, List.map_nil, List.sum_nil, Nat.zero_add] at this
      simp only [stepOps, BTable.ops, consuming]
      rw [hn] at this
      rw [hn]
      exact this
  unfold stepAdd
  omega

theorem historyM_node_count (x : List Nat) (steps : List HStep) :
    (historyM x steps).labels.length ≤ x.length + (steps.map fun s => s.2.2.2.length).sum := by
  unfold historyM
  have key : ∀ (steps : List HStep) (g : G),
      (steps.foldl (fun g s => stepAdd s.1 s.2.1 g s.2.2.1 s.2.2.2) g).labels.length ≤
        g.labels.length + (steps.map fun s => s.2.2.2.length).sum := by
    intro steps
    induction steps with
    | nil => intro g; simp
    | cons s r ih =>
      intro g
      have h1 := ih (stepAdd s.1 s.2.1 g s.2.2.1 s.2.2.2)
      have h2 := stepAdd_node_growth s.1 s.2.1 g s.2.2.1 s.2.2.2
      simp only [List.foldl_cons, List.map_cons, List.sum_cons]
      omega
  exact key steps (chainG x)

end RbV.Poa.Model
