import RbV.Model.PoaCustom
import RbV.Lemmas.PoaTrace
/-!
# The traceback over any *local* table names nodes in increasing rank

Generalisation of `traceLoop_bodyB` (`PoaTrace.lean`) to `traceF` and to the cells that the clipping modes and
`global_banded` add: `Xclip(0)` anywhere (prefix clip: drop to row 0 in the same column), `Yclip(0, _)` in row 0,
`Ins(None)` in a node's row (what `Traceback::get` answers in front of a band), and in the *last* row
`Xclip(r)` / `Yclip(c, _)` (suffix clips).  The suffix clips jump to an arbitrary row; this is harmless because
the operations emitted before (= after, in forward order) a cell of the last row can only be
`Ins(Some(last))` and clips: the last row has no successor row (`rk` is maximal there), so that part of the
list is accepted by `bodyB` from every state (`TInvX.last`).
-/
namespace RbV.Poa.Model
open RbV.NW RbV.Poa

/-- what the operation stored in cell `(v+1, j)` may be; `L` = node of the last row -/
def RowOpX (es : WEdges) (L v j : Nat) (op : POp) : Prop :=
  op = .m none ∨ op = .x 0 ∨ (j = 0 ∧ op = .d none) ∨
  (0 < j ∧ (op = .i (some v) ∨ op = .i none ∨ ∃ p ∈ inN es v, op = .m (some (p, v)) ∨ op = .d (some (p, v + 1)))) ∨
  (v = L ∧ ((∃ r, op = .x r) ∨ (0 < j ∧ ∃ c d, op = .y c d)))

structure OpsOK (es : WEdges) (L : Nat) (opAt : Nat → Nat → POp) : Prop where
  r0 : ∀ j, opAt 0 j = .m none ∨ opAt 0 j = .i none ∨ ∃ c, opAt 0 j = .y 0 c
  rows : ∀ v j, RowOpX es L v j (opAt (v + 1) j)

def traceNextF (opAt : Nat → Nat → POp) (f i j : Nat) (acc : List POp) (op : POp) : List POp :=
    match op with
    | .m (some (p, _)) => traceF opAt f (p + 1) (j - 1) (op :: acc)
    | .d (some (p, _)) => traceF opAt f (p + 1) j (op :: acc)
    | .i (some p) => traceF opAt f (p + 1) (j - 1) (op :: acc)
    | .m none => traceF opAt f 0 (j - 1) (op :: acc)
    | .d none => traceF opAt f (i - 1) j (op :: acc)
    | .i none => traceF opAt f i (j - 1) (op :: acc)
    | .x r => traceF opAt f r j (op :: acc)
    | .y r _ => traceF opAt f i r (op :: acc)

theorem traceF_succ (opAt : Nat → Nat → POp) (f i j : Nat) (acc : List POp) (hij : ¬(i = 0 ∧ j = 0)) :
    traceF opAt (f + 1) i j acc = traceNextF opAt f i j acc (opAt i j) := by
  rw [traceF]
  simp only [Bool.and_eq_true, decide_eq_true_eq, hij, if_false]
  rfl

theorem traceF_length_ge (opAt : Nat → Nat → POp) : ∀ (f i j : Nat) (acc : List POp),
    acc.length ≤ (traceF opAt f i j acc).length := by
  intro f
  induction f with
  | zero => intro i j acc; simp [traceF]
  | succ f ih =>
    intro i j acc
    simp only [traceF]
    split
    · exact Nat.le_refl _
    · split <;> (refine Nat.le_trans ?_ (ih _ _ _); simp)

/-- `traceLoop` on a `Table` is `traceF` on its cell operations -/
theorem traceLoop_eq_traceF (t : Table) : ∀ (f i j : Nat) (acc : List POp),
    traceLoop t f i j acc = traceF (fun i j => (t.cell i j).op) f i j acc := by
  intro f
  induction f with
  | zero => intro i j acc; rfl
  | succ f ih =>
    intro i j acc
    by_cases hij : i = 0 ∧ j = 0
    · simp [traceLoop, traceF, hij]
    · rw [traceLoop_succ t f i j acc hij, traceF_succ _ f i j acc hij]
      generalize (t.cell i j).op = op
      cases op with
      | m pq =>
        cases pq with
        | none => exact ih _ _ _
        | some pq => obtain ⟨p, q⟩ := pq; exact ih _ _ _
      | d pq =>
        cases pq with
        | none => exact ih _ _ _
        | some pq => obtain ⟨p, q⟩ := pq; exact ih _ _ _
      | i p =>
        cases p with
        | none => exact ih _ _ _
        | some p => exact ih _ _ _
      | x r => exact ih _ _ _
      | y a b => exact ih _ _ _

structure TInvX (rk : Nat → Nat) (n0 head K L i j : Nat) (acc : List POp) : Prop where
  base : bodyB rk n0 head (rk head) false acc = true
  row0 : i = 0 → 0 < j → ∀ b, b + acc.length < K → bodyB rk n0 head b true acc = true
  row : ∀ v, i = v + 1 → 0 < j → ∀ b nc, b + acc.length < rk v + K → bodyB rk n0 head b nc acc = true
  last : i = L + 1 → 0 < j → ∀ b nc, bodyB rk n0 head b nc acc = true

theorem tinvX_free {rk : Nat → Nat} {n0 head K L i j : Nat} {acc : List POp}
    (h : ∀ b nc, bodyB rk n0 head b nc acc = true) : TInvX rk n0 head K L i j acc :=
  ⟨h _ _, fun _ _ b _ => h b true, fun _ _ _ b nc _ => h b nc, fun _ _ b nc => h b nc⟩

theorem traceF_bodyB (es : WEdges) (opAt : Nat → Nat → POp) (rk : Nat → Nat) (n0 head K L : Nat)
    (ht : OpsOK es L opAt) (hK : K ≤ rk head) (hmin : ∀ v, rk head ≤ rk v) (hmax : ∀ v, rk v ≤ rk L)
    (hedge : ∀ v, ∀ p ∈ inN es v, rk p + K ≤ rk v ∧ v < n0) :
    ∀ (f i j : Nat) (acc : List POp), TInvX rk n0 head K L i j acc → (traceF opAt f i j acc).length < K →
      bodyB rk n0 head (rk head) false (traceF opAt f i j acc) = true := by
  intro f
  induction f with
  | zero => intro i j acc h _; simpa [traceF] using h.base
  | succ f ih =>
    intro i j acc h hlen
    have hKpos : acc.length < K := Nat.lt_of_le_of_lt (traceF_length_ge opAt (f + 1) i j acc) hlen
    cases i with
    | zero =>
      by_cases hj : j = 0
      · subst hj; simpa [traceF] using h.base
      · have toRow0 : ∀ op, (op = .m none) → TInvX rk n0 head K L 0 (j - 1) (op :: acc) := by
          intro op hop
          subst hop
          refine ⟨by simpa [bodyB] using h.base, ?_, fun v hv => by omega, fun hL _ => ?_⟩
          · intro _ _ b hb
            simp only [bodyB, Bool.and_eq_true, decide_eq_true_eq]
            simp only [List.length_cons] at hb
            exact ⟨by omega, h.base⟩
          · omega
        rcases ht.r0 j with hop | hop | ⟨c, hop⟩
        · have hs : traceF opAt (f + 1) 0 j acc = traceF opAt f 0 (j - 1) (.m none :: acc) := by
            rw [traceF_succ opAt f 0 j acc (by omega), hop]; rfl
          rw [hs] at hlen ⊢
          exact ih _ _ _ (toRow0 _ rfl) hlen
        · have hs : traceF opAt (f + 1) 0 j acc = traceF opAt f 0 (j - 1) (.i none :: acc) := by
            rw [traceF_succ opAt f 0 j acc (by omega), hop]; rfl
          rw [hs] at hlen ⊢
          have hl := traceF_length_ge opAt f 0 (j - 1) (.i none :: acc)
          simp only [List.length_cons] at hl
          refine ih _ _ _ ⟨?_, ?_, fun v hv => by omega, fun hL _ => by omega⟩ hlen
          · simp only [bodyB]
            exact h.row0 rfl (by omega) 0 (by omega)
          · intro _ _ b hb
            simp only [bodyB]
            simp only [List.length_cons] at hb
            exact h.row0 rfl (by omega) (b + 1) (by omega)
        · have hs : traceF opAt (f + 1) 0 j acc = traceF opAt f 0 0 (.y 0 c :: acc) := by
            rw [traceF_succ opAt f 0 j acc (by omega), hop]; rfl
          rw [hs] at hlen ⊢
          exact ih _ _ _ ⟨by simpa [bodyB] using h.base, fun _ h0 => by omega, fun v hv => by omega,
            fun hL _ => by omega⟩ hlen
    | succ v =>
      have hne : ¬(v + 1 = 0 ∧ j = 0) := by omega
      rcases ht.rows v j with hop | hop | ⟨hj, hop⟩ | ⟨hj, hop | hop | ⟨p, hp, hop | hop⟩⟩ | ⟨hvL, hop⟩
      · -- `Match(None)`: drop to row 0, one column to the left
        have hs : traceF opAt (f + 1) (v + 1) j acc = traceF opAt f 0 (j - 1) (.m none :: acc) := by
          rw [traceF_succ opAt f (v + 1) j acc hne, hop]; rfl
        rw [hs] at hlen ⊢
        refine ih _ _ _ ⟨by simpa [bodyB] using h.base, ?_, fun w hw => by omega, fun hL _ => by omega⟩ hlen
        intro _ _ b hb
        simp only [bodyB, Bool.and_eq_true, decide_eq_true_eq]
        simp only [List.length_cons] at hb
        exact ⟨by omega, h.base⟩
      · -- `Xclip(0)`: drop to row 0 in the same column
        have hs : traceF opAt (f + 1) (v + 1) j acc = traceF opAt f 0 j (.x 0 :: acc) := by
          rw [traceF_succ opAt f (v + 1) j acc hne, hop]; rfl
        rw [hs] at hlen ⊢
        refine ih _ _ _ ⟨by simpa [bodyB] using h.base, ?_, fun w hw => by omega, fun hL _ => by omega⟩ hlen
        intro _ hj b hb
        simp only [bodyB]
        simp only [List.length_cons] at hb
        exact h.row v rfl hj b true (by omega)
      · -- column 0: `Del(None)`
        subst hj
        have hs : traceF opAt (f + 1) (v + 1) 0 acc = traceF opAt f v 0 (.d none :: acc) := by
          rw [traceF_succ opAt f (v + 1) 0 acc hne, hop]; rfl
        rw [hs] at hlen ⊢
        exact ih _ _ _ ⟨by simpa [bodyB] using h.base, fun _ h0 => by omega, fun w _ h0 => by omega,
          fun _ h0 => by omega⟩ hlen
      · -- `Ins(Some v)`: same row
        have hs : traceF opAt (f + 1) (v + 1) j acc = traceF opAt f (v + 1) (j - 1) (.i (some v) :: acc) := by
          rw [traceF_succ opAt f (v + 1) j acc hne, hop]; rfl
        rw [hs] at hlen ⊢
        have hl := traceF_length_ge opAt f (v + 1) (j - 1) (.i (some v) :: acc)
        simp only [List.length_cons] at hl
        have := hmin v
        refine ih _ _ _ ⟨?_, fun h0 => by omega, ?_, ?_⟩ hlen
        · simp only [bodyB]
          exact h.row v rfl hj _ _ (by omega)
        · intro w hw _ b nc hb
          have : w = v := by omega
          subst this
          simp only [bodyB]
          simp only [List.length_cons] at hb
          exact h.row w rfl hj _ _ (by omega)
        · intro hL _ b nc
          simp only [bodyB]
          exact h.last hL hj _ _
      · -- `Ins(None)` inside a row (in front of a band): same row
        have hs : traceF opAt (f + 1) (v + 1) j acc = traceF opAt f (v + 1) (j - 1) (.i none :: acc) := by
          rw [traceF_succ opAt f (v + 1) j acc hne, hop]; rfl
        rw [hs] at hlen ⊢
        have hl := traceF_length_ge opAt f (v + 1) (j - 1) (.i none :: acc)
        simp only [List.length_cons] at hl
        refine ih _ _ _ ⟨?_, fun h0 => by omega, ?_, ?_⟩ hlen
        · simp only [bodyB]
          exact h.row v rfl hj _ _ (by omega)
        · intro w hw _ b nc hb
          have : w = v := by omega
          subst this
          simp only [List.length_cons] at hb
          cases nc with
          | false => simp only [bodyB]; exact h.row w rfl hj _ _ (by omega)
          | true => simp only [bodyB]; exact h.row w rfl hj _ _ (by omega)
        · intro hL _ b nc
          cases nc with
          | false => simp only [bodyB]; exact h.last hL hj _ _
          | true => simp only [bodyB]; exact h.last hL hj _ _
      · -- `Match(Some((p, v)))`
        have hs : traceF opAt (f + 1) (v + 1) j acc = traceF opAt f (p + 1) (j - 1) (.m (some (p, v)) :: acc) := by
          rw [traceF_succ opAt f (v + 1) j acc hne, hop]; rfl
        rw [hs] at hlen ⊢
        have hl := traceF_length_ge opAt f (p + 1) (j - 1) (.m (some (p, v)) :: acc)
        simp only [List.length_cons] at hl
        have := hmin p
        obtain ⟨he1, he2⟩ := hedge v p hp
        refine ih _ _ _ ⟨?_, fun h0 => by omega, ?_, ?_⟩ hlen
        · simp only [bodyB, Bool.and_eq_true, decide_eq_true_eq]
          exact ⟨⟨he2, by omega⟩, h.row v rfl hj _ _ (by omega)⟩
        · intro w hw _ b nc hb
          have : w = p := by omega
          subst this
          simp only [List.length_cons] at hb
          simp only [bodyB, Bool.and_eq_true, decide_eq_true_eq]
          exact ⟨⟨he2, by omega⟩, h.row v rfl hj _ _ (by omega)⟩
        · intro hL _
          have : p = L := by omega
          subst this
          have := hmax v
          omega
      · -- `Del(Some((p, v+1)))`
        have hs : traceF opAt (f + 1) (v + 1) j acc = traceF opAt f (p + 1) j (.d (some (p, v + 1)) :: acc) := by
          rw [traceF_succ opAt f (v + 1) j acc hne, hop]; rfl
        rw [hs] at hlen ⊢
        obtain ⟨he1, he2⟩ := hedge v p hp
        refine ih _ _ _ ⟨by simpa [bodyB] using h.base, fun h0 => by omega, ?_, ?_⟩ hlen
        · intro w hw _ b nc hb
          have : w = p := by omega
          subst this
          simp only [List.length_cons] at hb
          simp only [bodyB]
          exact h.row v rfl hj _ _ (by omega)
        · intro hL _
          have : p = L := by omega
          subst this
          have := hmax v
          omega
      · -- suffix clips in the last row
        subst hvL
        rcases hop with ⟨r, hop⟩ | ⟨hj, c, d, hop⟩
        · have hs : traceF opAt (f + 1) (v + 1) j acc = traceF opAt f r j (.x r :: acc) := by
            rw [traceF_succ opAt f (v + 1) j acc hne, hop]; rfl
          rw [hs] at hlen ⊢
          by_cases hj : 0 < j
          · exact ih _ _ _ (tinvX_free (fun b nc => by simp only [bodyB]; exact h.last rfl hj b nc)) hlen
          · exact ih _ _ _ ⟨by simpa [bodyB] using h.base, fun _ h0 => by omega, fun w _ h0 => by omega,
              fun _ h0 => by omega⟩ hlen
        · have hs : traceF opAt (f + 1) (v + 1) j acc = traceF opAt f (v + 1) c (.y c d :: acc) := by
            rw [traceF_succ opAt f (v + 1) j acc hne, hop]; rfl
          rw [hs] at hlen ⊢
          exact ih _ _ _ (tinvX_free (fun b nc => by simp only [bodyB]; exact h.last rfl hj b nc)) hlen

end RbV.Poa.Model
