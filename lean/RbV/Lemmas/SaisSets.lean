import RbV.Lemmas.SaisTypes
/-
Buckets as index ranges, the sets of L-type / S-type positions of one symbol, and the relation axioms used by the
induced-sorting proofs.
-/
namespace RbV.Sais
open RbV

/-- L-type positions with symbol `c` -/
def Lset (t : List Nat) (c : Nat) : List Nat :=
  (List.range t.length).filter (fun p => sym t p == c && !isS (tyOf t) p)

/-- S-type positions with symbol `c` -/
def Sset (t : List Nat) (c : Nat) : List Nat :=
  (List.range t.length).filter (fun p => sym t p == c && isS (tyOf t) p)

theorem mem_Lset (t : List Nat) (c p : Nat) : p ∈ Lset t c ↔ p < t.length ∧ sym t p = c ∧ isS (tyOf t) p = false := by
  simp [Lset]

theorem mem_Sset (t : List Nat) (c p : Nat) : p ∈ Sset t c ↔ p < t.length ∧ sym t p = c ∧ isS (tyOf t) p = true := by
  simp [Sset]

theorem nodup_Lset (t : List Nat) (c : Nat) : (Lset t c).Nodup := List.Nodup.sublist List.filter_sublist List.nodup_range
theorem nodup_Sset (t : List Nat) (c : Nat) : (Sset t c).Nodup := List.Nodup.sublist List.filter_sublist List.nodup_range

theorem count_eq_filter_range (l : List Nat) (c : Nat) :
    l.count c = ((List.range l.length).filter (fun p => l.getD p 0 == c)).length := by
  induction l with
  | nil => simp
  | cons a l ih =>
    rw [List.length_cons, List.range_succ_eq_map, List.filter_cons, List.filter_map, List.count_cons, ih]
    have : ((fun p => (a :: l).getD p 0 == c) ∘ Nat.succ) = (fun p => l.getD p 0 == c) := by
      funext p; simp
    rw [this]
    by_cases h : a = c
    · subst h; simp
    · simp [h]

theorem length_filter_split {α : Type} (l : List α) (p q : α → Bool) :
    (l.filter p).length = (l.filter (fun x => p x && !q x)).length + (l.filter (fun x => p x && q x)).length := by
  induction l with
  | nil => simp
  | cons a l ih =>
    simp only [List.filter_cons]
    cases hp : p a <;> cases hq : q a <;> simp [ih] <;> omega

/-- bucket `c` = its L-type positions followed by its S-type positions -/
theorem cntLt_succ_split (t : List Nat) (c : Nat) :
    cntLt t (c + 1) = cntLt t c + (Lset t c).length + (Sset t c).length := by
  rw [cntLt_succ, count_eq_filter_range,
    length_filter_split (List.range t.length) (fun p => t.getD p 0 == c) (fun p => isS (tyOf t) p)]
  unfold Lset Sset sym
  omega

/-- index `i` lies in bucket `c` -/
def inBkt (t : List Nat) (c i : Nat) : Prop := cntLt t c ≤ i ∧ i < cntLt t (c + 1)

theorem exists_bkt_aux (t : List Nat) (i k : Nat) (h : i < cntLt t k) : ∃ c, c < k ∧ inBkt t c i := by
  induction k with
  | zero => rw [cntLt_zero] at h; omega
  | succ k ih =>
    by_cases hk : i < cntLt t k
    · obtain ⟨c, hc, hb⟩ := ih hk
      exact ⟨c, by omega, hb⟩
    · exact ⟨k, by omega, ⟨by omega, h⟩⟩

/-- every index belongs to exactly one bucket -/
theorem exists_bkt (t : List Nat) (i : Nat) (h : i < t.length) : ∃ c, c < maxSucc t ∧ inBkt t c i :=
  exists_bkt_aux t i (maxSucc t) (by rw [cntLt_maxSucc t _ (Nat.le_refl _)]; exact h)

theorem bkt_unique (t : List Nat) (c d i : Nat) (hc : inBkt t c i) (hd : inBkt t d i) : c = d := by
  unfold inBkt at hc hd
  apply Classical.byContradiction
  intro hne
  rcases Nat.lt_or_gt_of_ne hne with h | h
  · have := cntLt_mono t (c + 1) d (by omega); omega
  · have := cntLt_mono t (d + 1) c (by omega); omega

theorem bkt_lt_of_sym_lt (t : List Nat) (c d i j : Nat) (hc : inBkt t c i) (hd : inBkt t d j) (h : c < d) : i < j := by
  unfold inBkt at hc hd
  have := cntLt_mono t (c + 1) d (by omega); omega

theorem bkt_le_of_lt (t : List Nat) (c d i j : Nat) (hc : inBkt t c i) (hd : inBkt t d j) (h : i < j) : c ≤ d := by
  apply Classical.byContradiction
  intro hn
  have := bkt_lt_of_sym_lt t d c j i hd hc (by omega); omega

theorem cntLt_le_length (t : List Nat) (c : Nat) : cntLt t c ≤ t.length := by
  unfold cntLt; exact List.countP_le_length

theorem inBkt_lt_length (t : List Nat) (c i : Nat) (h : inBkt t c i) : i < t.length := by
  have := cntLt_le_length t (c + 1); unfold inBkt at h; omega

/-- axioms on a relation between positions under which induced sorting produces an `R`-sorted array:
a smaller first symbol wins; among equal first symbols L-type comes before S-type. -/
structure IndRel (t : List Nat) (R : Nat → Nat → Prop) : Prop where
  ofSym : ∀ x y, x < t.length → y < t.length → sym t x < sym t y → R x y
  ofLS : ∀ x y, x < t.length → y < t.length → sym t x = sym t y → isS (tyOf t) x = false → isS (tyOf t) y = true → R x y

/-- two L-type positions with the same symbol are ordered like their successors -/
def StepL (t : List Nat) (R : Nat → Nat → Prop) : Prop :=
  ∀ x y, x < t.length → y < t.length → sym t x = sym t y → isS (tyOf t) x = false → isS (tyOf t) y = false →
    R (x + 1) (y + 1) → R x y

/-- two S-type positions (not the last one) with the same symbol are ordered like their successors -/
def StepS (t : List Nat) (R : Nat → Nat → Prop) : Prop :=
  ∀ x y, x + 1 < t.length → y + 1 < t.length → sym t x = sym t y → isS (tyOf t) x = true → isS (tyOf t) y = true →
    R (x + 1) (y + 1) → R x y

theorem indRel_true (t : List Nat) : IndRel t (fun _ _ => True) := ⟨fun _ _ _ _ _ => trivial, fun _ _ _ _ _ _ _ => trivial⟩

end RbV.Sais
