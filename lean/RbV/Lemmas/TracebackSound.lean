import RbV.Model.MyersTraceback
import RbV.Lemmas.UkkonenEq
/-!
The decision rule of the Myers traceback, applied to the Sellers matrix, always produces a valid labelled alignment of
the whole pattern with `t[start..stop]` whose number of non-match operations is the matrix value (C10 [B]).
Core Lean only.
-/
namespace RbV.Model.MyersTraceback
open RbV.EditDist
open RbV.Model.Ukkonen (cell cell_zero cell_nil cell_succ cell_diag fe_cons_pat_le fe_le_cons_pat nth newCol_low newCol_zero
  newCol_length nth_range)

/-! ### labelled alignments compose -/

theorem acost_del_cons (eqv : Nat → Nat → Bool) (p : List Nat) (b : Nat) (s : List Nat) (r : List Op) :
    acost eqv p (b :: s) (.del :: r) = (acost eqv p s r).map (· + 1) := by
  cases p <;> simp [acost]

theorem acost_append (eqv : Nat → Nat → Bool) : ∀ (o1 : List Op) (p1 s1 : List Nat) (v1 : Nat)
    (o2 : List Op) (p2 s2 : List Nat) (v2 : Nat),
    acost eqv p1 s1 o1 = some v1 → acost eqv p2 s2 o2 = some v2 →
    acost eqv (p1 ++ p2) (s1 ++ s2) (o1 ++ o2) = some (v2 + v1) := by
  intro o1
  induction o1 with
  | nil =>
    intro p1 s1 v1 o2 p2 s2 v2 h1 h2
    cases p1 <;> cases s1 <;> simp [acost] at h1
    subst h1; simpa using h2
  | cons o r ih =>
    intro p1 s1 v1 o2 p2 s2 v2 h1 h2
    cases o with
    | mat =>
      cases p1 with
      | nil => cases s1 <;> simp [acost] at h1
      | cons a p =>
        cases s1 with
        | nil => simp [acost] at h1
        | cons b s =>
          simp only [acost] at h1
          split at h1
          · rename_i he
            have := ih p s v1 o2 p2 s2 v2 h1 h2
            simp only [List.cons_append, acost, he, if_true, this]
          · simp at h1
    | sub =>
      cases p1 with
      | nil => cases s1 <;> simp [acost] at h1
      | cons a p =>
        cases s1 with
        | nil => simp [acost] at h1
        | cons b s =>
          simp only [acost] at h1
          split at h1
          · simp at h1
          · rename_i he
            cases h' : acost eqv p s r with
            | none => simp [h'] at h1
            | some u =>
              simp [h'] at h1
              have := ih p s u o2 p2 s2 v2 h' h2
              simp only [List.cons_append, acost, he, this, Option.map_some]
              simp; omega
    | ins =>
      cases p1 with
      | nil => cases s1 <;> simp [acost] at h1
      | cons a p =>
        simp only [acost] at h1
        cases h' : acost eqv p s1 r with
        | none => simp [h'] at h1
        | some u =>
          simp [h'] at h1
          have := ih p s1 u o2 p2 s2 v2 h' h2
          simp only [List.cons_append, acost, this, Option.map_some]
          simp; omega
    | del =>
      cases s1 with
      | nil => cases p1 <;> simp [acost] at h1
      | cons b s =>
        rw [acost_del_cons] at h1
        cases h' : acost eqv p1 s r with
        | none => simp [h'] at h1
        | some u =>
          simp [h'] at h1
          have := ih p1 s u o2 p2 s2 v2 h' h2
          simp only [List.cons_append]
          rw [acost_del_cons, this]
          simp; omega

/-! ### the walk on a matrix that satisfies the recurrence -/

/-- what the walk needs to know about the matrix `D` of pattern `p` against text `t` -/
structure IsSellers (eqv : Nat → Nat → Bool) (p t : List Nat) (D : Nat → Nat → Nat) : Prop where
  row0 : ∀ j, D 0 j = 0
  col0 : ∀ i, i ≤ p.length → D i 0 = i
  recur : ∀ i j, (hi : i < p.length) → (hj : j < t.length) →
    D (i + 1) (j + 1) = min (unitW eqv p[i] t[j] + D i j) (min (1 + D i (j + 1)) (1 + D (i + 1) j))
  diag : ∀ i j, i < p.length → j < t.length → D i j ≤ D (i + 1) (j + 1)
  vlow : ∀ i j, i < p.length → j ≤ t.length → D i j ≤ D (i + 1) j + 1

theorem take_drop_succ (t : List Nat) (j s : Nat) (hj : j < t.length) (hs : s ≤ j) :
    (t.take (j + 1)).drop s = (t.take j).drop s ++ [t[j]] := by
  rw [List.take_succ_eq_append_getElem hj, List.drop_append_of_le_length (by simp; omega)]

theorem walkF_sound (eqv : Nat → Nat → Bool) (p t : List Nat) (D : Nat → Nat → Nat) (hD : IsSellers eqv p t D) :
    ∀ (fuel i j : Nat), i ≤ p.length → j ≤ t.length → i + j ≤ fuel →
      (walkF D fuel i j).1 ≤ j ∧
      acost eqv (p.take i) ((t.take j).drop (walkF D fuel i j).1) (walkF D fuel i j).2.reverse = some (D i j) := by
  intro fuel
  induction fuel with
  | zero =>
    intro i j hi hj hf
    have : i = 0 := by omega
    have : j = 0 := by omega
    subst_vars
    simp [walkF, acost, hD.row0]
  | succ fuel ih =>
    intro i j hi hj hf
    cases i with
    | zero => simp [walkF, acost, hD.row0]
    | succ i =>
      have hip : i < p.length := by omega
      have htake : p.take (i + 1) = p.take i ++ [p[i]] := List.take_succ_eq_append_getElem hip
      simp only [walkF]
      by_cases h1 : j ≥ 1 ∧ D i (j - 1) + 1 = D (i + 1) j
      · -- Subst
        rw [if_pos h1]
        obtain ⟨hj1, hval⟩ := h1
        obtain ⟨j', rfl⟩ : ∃ j', j = j' + 1 := ⟨j - 1, by omega⟩
        simp only [Nat.add_sub_cancel] at hval ⊢
        have hjt : j' < t.length := by omega
        obtain ⟨r1, r2⟩ := ih i j' (by omega) (by omega) (by omega)
        have hrec := hD.recur i j' hip hjt
        have hne : eqv p[i] t[j'] = false := by
          cases he : eqv p[i] t[j']
          · rfl
          · simp only [unitW, he, if_true] at hrec; omega
        refine ⟨by omega, ?_⟩
        rw [htake, take_drop_succ t j' _ hjt r1, List.reverse_cons]
        have hlast : acost eqv [p[i]] [t[j']] [Op.sub] = some 1 := by simp [acost, hne]
        rw [acost_append eqv _ _ _ _ _ _ _ _ r2 hlast, ← hval]
        congr 1; omega
      · rw [if_neg h1]
        by_cases h2 : D i j + 1 = D (i + 1) j
        · -- Ins
          rw [if_pos h2]
          obtain ⟨r1, r2⟩ := ih i j (by omega) hj (by omega)
          refine ⟨r1, ?_⟩
          rw [htake, List.reverse_cons]
          have hlast : acost eqv [p[i]] [] [Op.ins] = some 1 := by simp [acost]
          have := acost_append eqv _ _ _ _ _ _ _ _ r2 hlast
          simp only [List.append_nil] at this
          rw [this, ← h2]
          congr 1; omega
        · rw [if_neg h2]
          -- j = 0 is impossible here: column 0 is 0,1,2,…
          have hjpos : j ≥ 1 := by
            apply Nat.pos_of_ne_zero
            intro h0; subst h0
            have := hD.col0 (i + 1) (by omega)
            have := hD.col0 i (by omega)
            omega
          obtain ⟨j', rfl⟩ : ∃ j', j = j' + 1 := ⟨j - 1, by omega⟩
          have hjt : j' < t.length := by omega
          have hrec := hD.recur i j' hip hjt
          have hdiag := hD.diag i j' hip hjt
          have hvl := hD.vlow i j' hip (by omega)
          simp only [Nat.add_sub_cancel] at h1 ⊢
          by_cases h3 : j' + 1 ≥ 1 ∧ D (i + 1) j' + 1 = D i j'
          · -- Del
            rw [if_pos h3]
            obtain ⟨r1, r2⟩ := ih (i + 1) j' (by omega) (by omega) (by omega)
            refine ⟨by omega, ?_⟩
            rw [take_drop_succ t j' _ hjt r1, List.reverse_cons]
            have hlast : acost eqv [] [t[j']] [Op.del] = some 1 := by simp [acost]
            have := acost_append eqv _ _ _ _ _ _ _ _ r2 hlast
            simp only [List.append_nil] at this
            rw [this]
            congr 1
            have := h3.2
            omega
          · -- Match
            rw [if_neg h3]
            obtain ⟨r1, r2⟩ := ih i j' (by omega) (by omega) (by omega)
            have h1' : D i j' + 1 ≠ D (i + 1) (j' + 1) := fun h => h1 ⟨by omega, h⟩
            have h3' : D (i + 1) j' + 1 ≠ D i j' := fun h => h3 ⟨by omega, h⟩
            have heq : eqv p[i] t[j'] = true := by
              cases he : eqv p[i] t[j']
              · simp only [unitW, he, Bool.false_eq_true, if_false] at hrec; omega
              · rfl
            have hval : D (i + 1) (j' + 1) = D i j' := by
              simp only [unitW, heq, if_true] at hrec; omega
            refine ⟨by omega, ?_⟩
            rw [htake, take_drop_succ t j' _ hjt r1, List.reverse_cons]
            have hlast : acost eqv [p[i]] [t[j']] [Op.mat] = some 0 := by simp [acost, heq]
            rw [acost_append eqv _ _ _ _ _ _ _ _ r2 hlast, hval]
            simp

/-! ### the computed matrix is the Sellers matrix -/

open RbV.Model.Ukkonen (lastRow_cell) in
/-- a column list holds the true cells after the text prefix `u` -/
def ColExact (w : Nat → Nat → Nat) (p u : List Nat) (col : List Nat) : Prop :=
  col.length = p.length + 1 ∧ ∀ i, i ≤ p.length → nth col i = cell w p u i

theorem natNext_exact (w : Nat → Nat → Nat) (p u : List Nat) (c : Nat) (col : List Nat)
    (h : ColExact w p u col) : ColExact w p (u ++ [c]) (natNext w p c col) := by
  obtain ⟨hl, hx⟩ := h
  refine ⟨newCol_length w p c ⟨col, col, 0⟩ p.length hl hl (Nat.le_refl _), ?_⟩
  intro i
  induction i with
  | zero => intro _; unfold natNext; rw [newCol_zero, cell_zero]
  | succ i ih =>
    intro hi
    have hip : i < p.length := by omega
    unfold natNext at ih ⊢
    rw [newCol_low w p c ⟨col, col, 0⟩ p.length hl (Nat.le_refl _) i hip, ih (by omega)]
    simp only
    rw [hx (i + 1) hi, hx i (by omega), cell_succ w p u c i hip, RbV.Model.Ukkonen.nth_getElem p i hip]
    omega

theorem allCols_exact (w : Nat → Nat → Nat) (p : List Nat) : ∀ (t u : List Nat) (col : List Nat),
    ColExact w p u col → ∀ j, j ≤ t.length →
      ∃ cj, (allCols w p col t)[j]? = some cj ∧ ColExact w p (u ++ t.take j) cj := by
  intro t
  induction t with
  | nil => intro u col h j hj; have : j = 0 := by simpa using hj
           subst this; exact ⟨col, by simp [allCols], by simpa using h⟩
  | cons c t ih =>
    intro u col h j hj
    cases j with
    | zero => exact ⟨col, by simp [allCols], by simpa using h⟩
    | succ j =>
      obtain ⟨cj, h1, h2⟩ := ih (u ++ [c]) _ (natNext_exact w p u c col h) j (by simpa using hj)
      refine ⟨cj, by simpa [allCols] using h1, ?_⟩
      simpa [List.take_succ_cons, List.append_assoc] using h2

theorem Dm_matrix (w : Nat → Nat → Nat) (p t : List Nat) (i j : Nat) (hi : i ≤ p.length) (hj : j ≤ t.length) :
    Dm (matrix w p t) i j = cell w p (t.take j) i := by
  have h0 : ColExact w p [] (List.range (p.length + 1)) := by
    refine ⟨by simp, ?_⟩
    intro i hi
    rw [nth_range _ _ (by omega), cell_nil w p i hi]
  obtain ⟨cj, h1, h2⟩ := allCols_exact w p t [] _ h0 j hj
  unfold Dm matrix
  simp only [List.getD_eq_getElem?_getD, h1, Option.getD_some]
  simp only [List.nil_append] at h2
  have := h2.2 i hi
  unfold nth at this
  exact this

theorem Dm_row0 (w : Nat → Nat → Nat) (p t : List Nat) (j : Nat) : Dm (matrix w p t) 0 j = 0 := by
  by_cases hj : j ≤ t.length
  · rw [Dm_matrix w p t 0 j (by omega) hj, cell_zero]
  · unfold Dm
    have hlen : ∀ (t col : List Nat), (allCols w p col t).length = t.length + 1 := by
      intro t
      induction t with
      | nil => intro col; simp [allCols]
      | cons c t ih => intro col; simp [allCols, ih]
    have : (matrix w p t).length ≤ j := by unfold matrix; rw [hlen]; omega
    simp only [List.getD_eq_getElem?_getD, List.getElem?_eq_none this]
    simp

theorem isSellers_matrix (eqv : Nat → Nat → Bool) (p t : List Nat) :
    IsSellers eqv p t (Dm (matrix (unitW eqv) p t)) := by
  refine ⟨Dm_row0 _ p t, ?_, ?_, ?_, ?_⟩
  · intro i hi
    rw [Dm_matrix _ p t i 0 hi (by omega)]
    simp [cell_nil _ p i hi]
  · intro i j hi hj
    rw [Dm_matrix _ p t (i + 1) (j + 1) (by omega) (by omega), Dm_matrix _ p t i j (by omega) (by omega),
      Dm_matrix _ p t i (j + 1) (by omega) (by omega), Dm_matrix _ p t (i + 1) j (by omega) (by omega),
      List.take_succ_eq_append_getElem hj, cell_succ _ p _ _ i hi]
  · intro i j hi hj
    rw [Dm_matrix _ p t (i + 1) (j + 1) (by omega) (by omega), Dm_matrix _ p t i j (by omega) (by omega),
      List.take_succ_eq_append_getElem hj]
    exact cell_diag _ p _ _ i hi
  · intro i j hi hj
    rw [Dm_matrix _ p t (i + 1) j (by omega) hj, Dm_matrix _ p t i j (by omega) hj]
    unfold cell
    rw [List.take_succ_eq_append_getElem hi]
    simp only [List.reverse_append, List.reverse_cons, List.reverse_nil, List.nil_append, List.singleton_append]
    have := fe_le_cons_pat (unitW eqv) p[i] (List.take i p).reverse (List.take j t).reverse
    omega

/-- **the traceback rule is sound**: for every end position the walk yields a start and a labelled alignment of the
whole pattern with `t[start..stop]` whose number of non-match operations is the Sellers value at that end -/
theorem traceback_sound (eqv : Nat → Nat → Bool) (p t : List Nat) (stop : Nat) (hs : stop ≤ t.length) :
    (traceback (unitW eqv) p t stop).1 ≤ stop ∧
    acost eqv p ((t.take stop).drop (traceback (unitW eqv) p t stop).1) (traceback (unitW eqv) p t stop).2 =
      some (cell (unitW eqv) p (t.take stop) p.length) := by
  have := walkF_sound eqv p t _ (isSellers_matrix eqv p t) (p.length + stop) p.length stop (Nat.le_refl _) hs
    (Nat.le_refl _)
  rw [Dm_matrix _ p t p.length stop (Nat.le_refl _) hs, List.take_length] at this
  exact this

/-- … so the predicted hit passes the acceptance test of C10 whenever its distance is within `k` -/
theorem traceback_checkHit (eqv : Nat → Nat → Bool) (p t : List Nat) (k stop : Nat) (h1 : 1 ≤ stop)
    (hs : stop ≤ t.length) (hk : cell (unitW eqv) p (t.take stop) p.length ≤ k) :
    checkHit eqv p t k ⟨(traceback (unitW eqv) p t stop).1, stop, cell (unitW eqv) p (t.take stop) p.length,
      (traceback (unitW eqv) p t stop).2⟩ = true := by
  obtain ⟨a, b⟩ := traceback_sound eqv p t stop hs
  have hrow := RbV.Model.Ukkonen.lastRow_cell (unitW eqv) p t (stop - 1) (by omega)
  have e : stop - 1 + 1 = stop := by omega
  rw [e] at hrow
  unfold checkHit checkHitRow
  simp only [a, h1, hs, b, hrow, hk, decide_true, Bool.and_self, beq_self_eq_true]

end RbV.Model.MyersTraceback
