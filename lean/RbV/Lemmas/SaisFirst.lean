import RbV.Lemmas.SaisInduce
import RbV.Lemmas.SaisRel
import RbV.Lemmas.SaisLmsEq
import RbV.Lemmas.SaisLabels
import RbV.Lemmas.SaisNaming
/-
The first call of `calc_pos` (on the LMS positions in text order) sorts all positions by their typed LMS substring;
consequences for the naming loop: the reduced text compares like the LMS substrings and is itself a text that
`Sais::construct` accepts (C03 (f), first half).
-/
namespace RbV.Sais
open RbV

/-- `pos` after the first call of `calc_pos` -/
def pos1 (t : List Nat) : List Nat := (calcPosRun t (tyOf t) (lmsBelow (tyOf t) t.length)).pos

/-- the LMS positions in the order in which `pos1` lists them -/
def qs1 (t : List Nat) : List Nat := (pos1 t).filter (isLms (tyOf t))

/-- the labels given to them by the naming loop -/
def labs1 (t : List Nat) : List Nat := labels (lmsSubEq t (tyOf t)) (qs1 t)

theorem first_pass (t : List Nat) (hv : Valid t) (h2 : 2 ≤ t.length) : SDone t (leKey t) (pos1 t) := by
  refine induced_sort t hv h2 (leKeyL t) (leKey t) (indRel_keyL t hv) (stepL_keyL t hv) (indRel_key t hv)
    (stepS_key t hv) (fun x y _ _ hx hy h => leKey_of_leKeyL t x y hx hy h) _ (lmsList_lmsBelow t) ?_
  have h0 : (lmsBelow (tyOf t) t.length).Pairwise (fun _ _ => True) := List.pairwise_of_forall (fun _ _ => trivial)
  refine h0.imp_of_mem ?_
  intro p q hp hq _ hs
  rw [mem_lmsBelow] at hp hq
  exact leKeyL_lms t p q hp.2 hq.2 hs

theorem pairwise_of_sdone {t : List Nat} {R : Nat → Nat → Prop} {pos : List Nat} (h : SDone t R pos) :
    pos.Pairwise R := by
  rw [List.pairwise_iff_getElem]
  intro i j hi hj hij
  have := h.sorted i j hij (by rw [← h.len]; exact hj)
  rw [List.getD_eq_getElem?_getD, List.getD_eq_getElem?_getD, List.getElem?_eq_getElem hi,
    List.getElem?_eq_getElem hj] at this
  simpa using this

theorem pos1_nodup (t : List Nat) (hv : Valid t) (h2 : 2 ≤ t.length) : (pos1 t).Nodup :=
  ((sdone_perm (first_pass t hv h2)).nodup_iff).mpr List.nodup_range

theorem mem_pos1 (t : List Nat) (hv : Valid t) (h2 : 2 ≤ t.length) (p : Nat) : p ∈ pos1 t ↔ p < t.length := by
  rw [(sdone_perm (first_pass t hv h2)).mem_iff, List.mem_range]

theorem qs1_nodup (t : List Nat) (hv : Valid t) (h2 : 2 ≤ t.length) : (qs1 t).Nodup :=
  List.Nodup.sublist List.filter_sublist (pos1_nodup t hv h2)

theorem mem_qs1 (t : List Nat) (hv : Valid t) (h2 : 2 ≤ t.length) (p : Nat) :
    p ∈ qs1 t ↔ isLms (tyOf t) p = true := by
  unfold qs1
  rw [List.mem_filter, mem_pos1 t hv h2]
  exact ⟨fun h => h.2, fun h => ⟨lt_of_isLms p h, h⟩⟩

theorem qs1_sorted (t : List Nat) (hv : Valid t) (h2 : 2 ≤ t.length) :
    (qs1 t).Pairwise (fun p q => ¬ lexLt (key t q) (key t p)) :=
  List.Pairwise.sublist List.filter_sublist (pairwise_of_sdone (first_pass t hv h2))

theorem qs1_perm (t : List Nat) (hv : Valid t) (h2 : 2 ≤ t.length) : (qs1 t).Perm (lmsBelow (tyOf t) t.length) := by
  rw [List.perm_ext_iff_of_nodup (qs1_nodup t hv h2) (nodup_lmsBelow _ _)]
  intro p
  rw [mem_qs1 t hv h2, mem_lmsBelow]
  exact ⟨fun h => ⟨lt_of_isLms p h, h⟩, fun h => h.2⟩

theorem length_qs1 (t : List Nat) (hv : Valid t) (h2 : 2 ≤ t.length) :
    (qs1 t).length = (lmsBelow (tyOf t) t.length).length := (qs1_perm t hv h2).length_eq

theorem qs1_eq (t : List Nat) (hv : Valid t) (h2 : 2 ≤ t.length) (p q : Nat) (hp : p ∈ qs1 t) (hq : q ∈ qs1 t)
    (hne : p ≠ q) : lmsSubEq t (tyOf t) p q = true ↔ key t p = key t q :=
  lmsSubEq_iff t hv p q ((mem_qs1 t hv h2 p).mp hp) ((mem_qs1 t hv h2 q).mp hq) hne

/-- labels compare like typed LMS substrings -/
theorem labs1_spec (t : List Nat) (hv : Valid t) (h2 : 2 ≤ t.length) (a b : Nat) (ha : a < (qs1 t).length)
    (hb : b < (qs1 t).length) :
    ((labs1 t).getD a 0 < (labs1 t).getD b 0 ↔ lexLt (key t ((qs1 t).getD a 0)) (key t ((qs1 t).getD b 0))) ∧
    ((labs1 t).getD a 0 = (labs1 t).getD b 0 ↔ key t ((qs1 t).getD a 0) = key t ((qs1 t).getD b 0)) :=
  labels_spec (key t) _ (qs1 t) (qs1_nodup t hv h2) (qs1_eq t hv h2) (qs1_sorted t hv h2) a b ha hb

/-! ### the reduced text -/

/-- `reduced_text_pos` after the first loop of `calc_lms_pos` -/
def RedPosOk (t : List Nat) (redPos : List Nat) : Prop :=
  ∀ q, isLms (tyOf t) q = true → redPos.getD q 0 = rho (tyOf t) q

/-- the reduced text written by the naming loop -/
def red1 (t : List Nat) (redPos : List Nat) : List Nat :=
  redOf redPos (List.replicate (lmsBelow (tyOf t) t.length).length 0) (qs1 t) (labs1 t)

theorem length_red1 (t : List Nat) (redPos : List Nat) : (red1 t redPos).length = (lmsBelow (tyOf t) t.length).length := by
  unfold red1; rw [length_redOf]; simp

theorem qs1_getD_lms (t : List Nat) (hv : Valid t) (h2 : 2 ≤ t.length) (a : Nat) (ha : a < (qs1 t).length) :
    isLms (tyOf t) ((qs1 t).getD a 0) = true := (mem_qs1 t hv h2 _).mp (getD_mem_of_lt _ a ha)

theorem red1_getD (t : List Nat) (hv : Valid t) (h2 : 2 ≤ t.length) (redPos : List Nat) (hr : RedPosOk t redPos)
    (a : Nat) (ha : a < (qs1 t).length) :
    (red1 t redPos).getD (rho (tyOf t) ((qs1 t).getD a 0)) 0 = (labs1 t).getD a 0 := by
  have hl := fun a ha => qs1_getD_lms t hv h2 a ha
  rw [← hr _ (hl a ha)]
  unfold red1
  apply redOf_getD _ _ _ _ a ha (length_labels _ _)
  · intro a b hab hb
    rw [hr _ (hl a (by omega)), hr _ (hl b hb)]
    intro he
    have := rho_inj (tyOf t) t.length _ _ (lt_of_isLms _ (hl a (by omega))) (lt_of_isLms _ (hl b hb))
      (hl a (by omega)) (hl b hb) he
    have := nodup_getD_inj _ (qs1_nodup t hv h2) a b (by omega) hb this
    omega
  · intro a ha
    rw [hr _ (hl a ha), List.length_replicate]
    exact rho_lt (tyOf t) _ t.length (lt_of_isLms _ (hl a ha)) (hl a ha)

/-- every index of the reduced text belongs to a scanned LMS position -/
theorem exists_qs1_index (t : List Nat) (hv : Valid t) (h2 : 2 ≤ t.length) (j : Nat)
    (hj : j < (lmsBelow (tyOf t) t.length).length) :
    ∃ a, a < (qs1 t).length ∧ (qs1 t).getD a 0 = (lmsBelow (tyOf t) t.length).getD j 0 ∧
      rho (tyOf t) ((qs1 t).getD a 0) = j := by
  have hm := getD_mem_of_lt _ j hj
  have := (qs1_perm t hv h2).mem_iff.mpr hm
  obtain ⟨a, ha, he⟩ := exists_getD_of_mem _ _ this
  exact ⟨a, ha, he, by rw [he]; exact rho_getD _ _ j hj⟩

/-- **the reduced text compares like the typed LMS substrings** -/
theorem red1_ord (t : List Nat) (hv : Valid t) (h2 : 2 ≤ t.length) (redPos : List Nat) (hr : RedPosOk t redPos)
    (a b : Nat) (ha : a < (red1 t redPos).length) (hb : b < (red1 t redPos).length) :
    ((red1 t redPos).getD a 0 < (red1 t redPos).getD b 0 ↔
      lexLt (key t ((lmsBelow (tyOf t) t.length).getD a 0)) (key t ((lmsBelow (tyOf t) t.length).getD b 0))) ∧
    ((red1 t redPos).getD a 0 = (red1 t redPos).getD b 0 ↔
      key t ((lmsBelow (tyOf t) t.length).getD a 0) = key t ((lmsBelow (tyOf t) t.length).getD b 0)) := by
  rw [length_red1] at ha hb
  obtain ⟨a', ha', hea, hra⟩ := exists_qs1_index t hv h2 a ha
  obtain ⟨b', hb', heb, hrb⟩ := exists_qs1_index t hv h2 b hb
  have h1 := red1_getD t hv h2 redPos hr a' ha'
  have h2' := red1_getD t hv h2 redPos hr b' hb'
  rw [hra] at h1; rw [hrb] at h2'
  rw [h1, h2', ← hea, ← heb]
  exact labs1_spec t hv h2 a' b' ha' hb'

theorem lmsBelow_last (t : List Nat) (hv : Valid t) (h2 : 2 ≤ t.length) :
    lmsBelow (tyOf t) t.length = lmsBelow (tyOf t) (t.length - 1) ++ [t.length - 1] := by
  have : t.length = (t.length - 1) + 1 := by omega
  conv => lhs; rw [this]
  rw [lmsBelow_succ, if_pos (isLms_last hv h2)]

theorem rho_last (t : List Nat) (hv : Valid t) (h2 : 2 ≤ t.length) :
    rho (tyOf t) (t.length - 1) + 1 = (lmsBelow (tyOf t) t.length).length := by
  rw [lmsBelow_last t hv h2]; unfold rho; simp

theorem getD_lmsBelow_last (t : List Nat) (hv : Valid t) (h2 : 2 ≤ t.length) :
    (lmsBelow (tyOf t) t.length).getD ((lmsBelow (tyOf t) t.length).length - 1) 0 = t.length - 1 := by
  have := getD_rho (tyOf t) (t.length - 1) t.length (by omega) (isLms_last hv h2)
  have h := rho_last t hv h2
  have e : (lmsBelow (tyOf t) t.length).length - 1 = rho (tyOf t) (t.length - 1) := by omega
  rw [e]; exact this

/-- the key of the last position is the smallest -/
theorem key_last_lt (t : List Nat) (hv : Valid t) (q : Nat) (hq : q + 1 < t.length) :
    lexLt (key t (t.length - 1)) (key t q) := by
  obtain ⟨r1, h1⟩ := key_head t (t.length - 1)
  obtain ⟨r2, h2⟩ := key_head t q
  rw [h1, h2, lexLt_cons]
  left
  exact enc_lt_of_sym_lt t _ _ (hv.lastMin q hq)

/-- there are fewer LMS positions than positions -/
theorem length_lmsBelow_lt (ty : List Bool) (k : Nat) (hk : 0 < k) : (lmsBelow ty k).length < k := by
  induction k with
  | zero => omega
  | succ k ih =>
    rw [lmsBelow_succ]
    by_cases h0 : k = 0
    · subst h0
      have : isLms ty 0 = false := by simp [isLms]
      rw [this]; simp [lmsBelow]
    · have := ih (by omega)
      split
      · simp; omega
      · omega

/-- **the reduced text is a text `Sais::construct` accepts** -/
theorem valid_red1 (t : List Nat) (hv : Valid t) (h2 : 2 ≤ t.length) (redPos : List Nat) (hr : RedPosOk t redPos)
    (hm : 1 < (lmsBelow (tyOf t) t.length).length) : Valid (red1 t redPos) := by
  have hlen := length_red1 t redPos
  have hq := length_qs1 t hv h2
  refine ⟨by omega, ?_, ?_⟩
  · intro i hi
    unfold sym
    have := (red1_ord t hv h2 redPos hr ((red1 t redPos).length - 1) i (by omega) (by omega)).1
    rw [this, hlen, getD_lmsBelow_last t hv h2]
    apply key_last_lt t hv
    -- the `i`-th LMS position is not the last one
    have hi' : i < (lmsBelow (tyOf t) t.length).length := by omega
    have hm' := getD_mem_of_lt _ i hi'
    rw [mem_lmsBelow] at hm'
    apply Classical.byContradiction
    intro hc
    have he : (lmsBelow (tyOf t) t.length).getD i 0 = t.length - 1 := by omega
    have := rho_getD (tyOf t) t.length i hi'
    rw [he] at this
    have := rho_last t hv h2
    omega
  · intro c x hx hcx
    obtain ⟨j, hj, he⟩ := exists_getD_of_mem _ x hx
    rw [hlen] at hj
    obtain ⟨a, ha, _, hra⟩ := exists_qs1_index t hv h2 j hj
    have h1 := red1_getD t hv h2 redPos hr a ha
    rw [hra, he] at h1
    have hne : qs1 t ≠ [] := by
      intro e; rw [e] at ha; simp at ha
    have hle := labels_le_last (lmsSubEq t (tyOf t)) (qs1 t) a ha
    obtain ⟨a', ha', hv'⟩ := labels_dense (lmsSubEq t (tyOf t)) (qs1 t) c hne (by unfold labs1 at h1; omega)
    have h3 := red1_getD t hv h2 redPos hr a' ha'
    unfold labs1 at h3
    rw [hv'] at h3
    rw [← h3]
    apply getD_mem_of_lt
    rw [hlen]
    exact rho_lt (tyOf t) _ t.length (lt_of_isLms _ (qs1_getD_lms t hv h2 a' ha')) (qs1_getD_lms t hv h2 a' ha')

end RbV.Sais
