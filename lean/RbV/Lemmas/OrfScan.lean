import RbV.Spec.Orf
import RbV.Model.OrfScan
/-! Refinement of the ORF mirror model (C20 [B]): the sliding-window state machine of `orf.rs` reports exactly the
open reading frames that are more than `minLen + 2` long, each once.  Core Lean only. -/
namespace RbV.Lemmas.OrfScan
open RbV.Orf RbV.Model.OrfScan

/-! ## state plumbing -/

theorem get_set_same (st : State) (off : Nat) (l : List Nat) (h : off < 3) : (st.set off l).get off = l := by
  rcases (by omega : off = 0 ∨ off = 1 ∨ off = 2) with rfl | rfl | rfl <;> simp [State.get, State.set]

theorem get_set_other (st : State) (off f : Nat) (l : List Nat) (ho : off < 3) (hf : f < 3) (hne : f ≠ off) :
    (st.set off l).get f = st.get f := by
  rcases (by omega : off = 0 ∨ off = 1 ∨ off = 2) with rfl | rfl | rfl <;>
  rcases (by omega : f = 0 ∨ f = 1 ∨ f = 2) with rfl | rfl | rfl <;> simp_all [State.get, State.set]

theorem set_codon (st : State) (off : Nat) (l : List Nat) : (st.set off l).codon = st.codon := by
  unfold State.set; split <;> (try split) <;> rfl

theorem set_out (st : State) (off : Nat) (l : List Nat) : (st.set off l).out = st.out := by
  unfold State.set; split <;> (try split) <;> rfl

/-! ## codons by index -/

theorem codonAt_eq (seq : List Nat) (k : Nat) (h : k + 3 ≤ seq.length) :
    codonAt seq k = [seq[k]'(by omega), seq[k + 1]'(by omega), seq[k + 2]'(by omega)] := by
  unfold codonAt
  apply List.ext_getElem
  · simp; omega
  · intro i h1 h2
    simp only [List.length_cons, List.length_nil] at h2
    rcases (by omega : i = 0 ∨ i = 1 ∨ i = 2) with rfl | rfl | rfl <;> simp

/-- takeWhile of an antitone predicate on an ascending list is a filter -/
theorem mem_takeWhile_sorted (p : Nat → Bool) : ∀ (l : List Nat), l.Pairwise (· < ·) →
    (∀ a b, a < b → p b = true → p a = true) → ∀ x, x ∈ l.takeWhile p ↔ x ∈ l ∧ p x = true := by
  intro l
  induction l with
  | nil => intro _ _ x; simp
  | cons a t ih =>
    intro hs hp x
    rw [List.pairwise_cons] at hs
    by_cases ha : p a = true
    · simp only [List.takeWhile_cons, ha, if_true, List.mem_cons]
      rw [ih hs.2 hp x]
      constructor
      · rintro (rfl | ⟨h1, h2⟩)
        · exact ⟨Or.inl rfl, ha⟩
        · exact ⟨Or.inr h1, h2⟩
      · rintro ⟨rfl | h1, h2⟩
        · exact Or.inl rfl
        · exact Or.inr ⟨h1, h2⟩
    · simp only [List.takeWhile_cons, ha, Bool.false_eq_true, if_false, List.not_mem_nil, false_iff, List.mem_cons]
      rintro ⟨rfl | h1, h2⟩
      · exact ha h2
      · exact ha (hp a x (hs.1 x h1) h2)

theorem takeWhile_sublist_nodup (p : Nat → Bool) (l : List Nat) (h : l.Nodup) : (l.takeWhile p).Nodup :=
  (List.takeWhile_sublist p).nodup h

section
variable (seq : List Nat) (starts stops : List (List Nat)) (minLen : Nat)

/-- a start codon whose last symbol has index `i` -/
def StartEnd (i : Nat) : Prop := 2 ≤ i ∧ i < seq.length ∧ codonAt seq (i - 2) ∈ starts
/-- a stop codon whose last symbol has index `j` -/
def StopEnd (j : Nat) : Prop := 2 ≤ j ∧ j < seq.length ∧ codonAt seq (j - 2) ∈ stops

/-- after `n` symbols: the start codon ending at `i` is still waiting for its stop codon in frame `f` -/
def Pending (n i f : Nat) : Prop :=
  i < n ∧ (i + 1) % 3 = f ∧ StartEnd seq starts i ∧ ∀ j, i < j → j < n → (j + 1) % 3 = f → ¬ StopEnd seq stops j

/-- what has been reported after `n` symbols -/
def Good (n : Nat) (t : Nat × Nat × Nat) : Prop :=
  IsOrf seq starts stops t.1 t.2.1 ∧ t.2.1 ≤ n ∧ minLen + 2 < t.2.1 - t.1 ∧ t.2.2 = t.1 % 3

/-- the window after `n` symbols -/
def Window (n : Nat) (w : List Nat) : Prop :=
  (n < 3 → w = seq.take n) ∧ (3 ≤ n → w = codonAt seq (n - 3))

structure Inv (n : Nat) (st : State) : Prop where
  win : Window seq n st.codon
  pend : ∀ f, f < 3 → ∀ i, i ∈ st.get f ↔ Pending seq starts stops n i f
  sorted : ∀ f, f < 3 → (st.get f).Pairwise (· < ·)
  out : ∀ t, t ∈ st.out ↔ Good seq starts stops minLen n t
  nodup : st.out.Nodup

/-- a pending start and a stop codon ending at `n` in its frame make an open reading frame, and conversely -/
theorem pending_stop_iff (n i : Nat) (hn : n < seq.length) (hstop : StopEnd seq stops n) :
    Pending seq starts stops n i ((n + 1) % 3) ↔ (2 ≤ i ∧ IsOrf seq starts stops (i - 2) (n + 1)) := by
  unfold Pending StartEnd IsOrf
  unfold StopEnd at hstop
  constructor
  · rintro ⟨h1, h2, ⟨h3, h4, h5⟩, h6⟩
    refine ⟨h3, by omega, by omega, by omega, h5, ?_, ?_⟩
    · have : n + 1 - 3 = n - 2 := by omega
      rw [this]; exact hstop.2.2
    · intro k hk1 hk2 hk3 hk
      refine h6 (k + 2) (by omega) (by omega) (by omega) ⟨by omega, by omega, ?_⟩
      have : k + 2 - 2 = k := by omega
      rw [this]; exact hk
  · rintro ⟨h3, g1, g2, g3, g4, g5, g6⟩
    refine ⟨by omega, by omega, ⟨h3, by omega, g4⟩, ?_⟩
    intro j hj1 hj2 hj3 hj
    exact g6 (j - 2) (by omega) (by omega) (by omega) hj.2.2

end

section
variable {seq : List Nat} {starts stops : List (List Nat)} {minLen : Nat}

/-- the window after one more symbol -/
theorem window_step {n : Nat} {w : List Nat} (hn : n < seq.length) (hw : Window seq n w) :
    Window seq (n + 1) ((if w.length ≥ 3 then w.drop 1 else w) ++ [seq[n]]) := by
  constructor
  · intro h3
    have hw1 := hw.1 (by omega)
    subst hw1
    have hl : (seq.take n).length = n := by simp; omega
    have : ¬ (seq.take n).length ≥ 3 := by omega
    simp only [this, if_false]
    rw [List.take_succ_eq_append_getElem hn]
  · intro h3
    by_cases h2 : n < 3
    · have hw1 := hw.1 h2
      subst hw1
      have hl : (seq.take n).length = n := by simp; omega
      have : ¬ (seq.take n).length ≥ 3 := by omega
      simp only [this, if_false]
      have hn2 : n = 2 := by omega
      subst hn2
      rw [codonAt_eq seq 0 (by omega)]
      apply List.ext_getElem
      · simp; omega
      · intro i h1 h2'
        simp only [List.length_cons, List.length_nil] at h2'
        rcases (by omega : i = 0 ∨ i = 1 ∨ i = 2) with rfl | rfl | rfl <;> simp [List.getElem_append]
    · have hw2 := hw.2 (by omega)
      subst hw2
      rw [codonAt_eq seq (n - 3) (by omega), codonAt_eq seq (n + 1 - 3) (by omega)]
      have e1 : n - 3 + 1 = n + 1 - 3 := by omega
      have e2 : n - 3 + 2 = n + 1 - 3 + 1 := by omega
      have e3 : n = n + 1 - 3 + 2 := by omega
      simp only [List.length_cons, List.length_nil, ge_iff_le, Nat.le_refl, if_true, List.drop_succ_cons,
        List.drop_zero, List.cons_append, List.nil_append, Nat.reduceAdd]
      congr 1
      · congr 1
      · congr 1
        · congr 1
        · congr 1
          congr 1


/-- membership of the window in a set of three-symbol codons -/
theorem window_mem_iff {n : Nat} {w : List Nat} (cs : List (List Nat)) (hn : n < seq.length)
    (hw : Window seq (n + 1) w) (h3 : ∀ c ∈ cs, c.length = 3) :
    w ∈ cs ↔ (2 ≤ n ∧ n < seq.length ∧ codonAt seq (n - 2) ∈ cs) := by
  by_cases h2 : 2 ≤ n
  · have := hw.2 (by omega)
    have e : n + 1 - 3 = n - 2 := by omega
    rw [e] at this
    subst this
    exact ⟨fun h => ⟨h2, hn, h⟩, fun h => h.2.2⟩
  · have := hw.1 (by omega)
    subst this
    constructor
    · intro h
      have := h3 _ h
      simp at this
      omega
    · intro h; omega

/-- the emitted reading frames of one flush -/
def emitted (minLen n : Nat) (sp : List Nat) : List (Nat × Nat × Nat) :=
  (sp.takeWhile fun s => decide (n + 1 - s > minLen)).map fun s => (s - 2, n + 1, (n + 1) % 3)

theorem step_fields (st : State) (n nuc : Nat) :
    let codon' := (if st.codon.length ≥ 3 then st.codon.drop 1 else st.codon) ++ [nuc]
    let off := (n + 1) % 3
    let sp := if starts.contains codon' then st.get off ++ [n] else st.get off
    let st2 := step starts stops minLen st n nuc
    st2.codon = codon' ∧ (∀ f, f < 3 → f ≠ off → st2.get f = st.get f) ∧
    (stops.contains codon' = true → st2.get off = [] ∧ st2.out = st.out ++ emitted minLen n sp) ∧
    (stops.contains codon' = false → st2.get off = sp ∧ st2.out = st.out) := by
  intro codon' off sp st2
  have hoff : off < 3 := Nat.mod_lt _ (by decide)
  have hget : ∀ f, ({ st with codon := codon' } : State).get f = st.get f := fun f => rfl
  have hstep : st2 = (if (!sp.isEmpty && stops.contains codon') = true then
      { (({ st with codon := codon' } : State).set off []) with out := st.out ++ emitted minLen n sp }
      else ({ st with codon := codon' } : State).set off sp) := rfl
  by_cases hc : (!sp.isEmpty && stops.contains codon') = true
  · have hst2 : st2 = { (({ st with codon := codon' } : State).set off []) with
        out := st.out ++ emitted minLen n sp } := by
      rw [hstep, if_pos hc]
    simp only [Bool.and_eq_true] at hc
    refine ⟨?_, ?_, ?_, ?_⟩
    · rw [hst2]; exact set_codon _ _ _
    · intro f hf hne
      rw [hst2]
      show (({ st with codon := codon' } : State).set off []).get f = _
      rw [get_set_other _ _ _ _ hoff hf hne]; rfl
    · intro _
      rw [hst2]
      exact ⟨get_set_same _ _ _ hoff, rfl⟩
    · intro h; rw [h] at hc; exact absurd hc.2 (by simp)
  · have hst2 : st2 = ({ st with codon := codon' } : State).set off sp := by
      rw [hstep, if_neg hc]
    refine ⟨?_, ?_, ?_, ?_⟩
    · rw [hst2]; exact set_codon _ _ _
    · intro f hf hne
      rw [hst2, get_set_other _ _ _ _ hoff hf hne]; rfl
    · intro hs
      have hemp : sp = [] := by
        simp only [hs, Bool.and_true, Bool.not_eq_true', Bool.not_eq_false] at hc
        exact List.isEmpty_iff.mp hc
      rw [hst2, get_set_same _ _ _ hoff, set_out, hemp]
      exact ⟨rfl, by simp [emitted]⟩
    · intro _
      rw [hst2, get_set_same _ _ _ hoff, set_out]
      exact ⟨rfl, rfl⟩


theorem pending_other {n i f : Nat} (hne : f ≠ (n + 1) % 3) :
    Pending seq starts stops (n + 1) i f ↔ Pending seq starts stops n i f := by
  unfold Pending
  constructor
  · rintro ⟨h1, h2, h3, h4⟩
    have : i ≠ n := by intro e; subst e; exact hne h2.symm
    exact ⟨by omega, h2, h3, fun j a b c => h4 j a (by omega) c⟩
  · rintro ⟨h1, h2, h3, h4⟩
    refine ⟨by omega, h2, h3, ?_⟩
    intro j a b c
    by_cases e : j = n
    · subst e; exact absurd c.symm hne
    · exact h4 j a (by omega) c

theorem pending_same_nostop {n i : Nat} (hns : ¬ StopEnd seq stops n) :
    Pending seq starts stops (n + 1) i ((n + 1) % 3) ↔
      (Pending seq starts stops n i ((n + 1) % 3) ∨ (i = n ∧ StartEnd seq starts n)) := by
  unfold Pending
  constructor
  · rintro ⟨h1, h2, h3, h4⟩
    by_cases e : i = n
    · subst e; exact Or.inr ⟨rfl, h3⟩
    · exact Or.inl ⟨by omega, h2, h3, fun j a b c => h4 j a (by omega) c⟩
  · rintro (⟨h1, h2, h3, h4⟩ | ⟨rfl, h3⟩)
    · refine ⟨by omega, h2, h3, ?_⟩
      intro j a b c
      by_cases e : j = n
      · subst e; exact hns
      · exact h4 j a (by omega) c
    · exact ⟨by omega, rfl, h3, fun j a b _ => by omega⟩

theorem good_step_nostop {n : Nat} (hns : ¬ StopEnd seq stops n) (t : Nat × Nat × Nat) :
    Good seq starts stops minLen (n + 1) t ↔ Good seq starts stops minLen n t := by
  unfold Good
  constructor
  · rintro ⟨h1, h2, h3, h4⟩
    refine ⟨h1, ?_, h3, h4⟩
    by_cases e : t.2.1 = n + 1
    · exfalso
      apply hns
      unfold IsOrf at h1
      rw [e] at h1
      refine ⟨by omega, by omega, ?_⟩
      have : n - 2 = n + 1 - 3 := by omega
      rw [this]; exact h1.2.2.2.2.1
    · omega
  · rintro ⟨h1, h2, h3, h4⟩
    exact ⟨h1, by omega, h3, h4⟩

theorem mem_emitted {n : Nat} {sp : List Nat} (hsort : sp.Pairwise (· < ·)) (t : Nat × Nat × Nat) :
    t ∈ emitted minLen n sp ↔ ∃ s, s ∈ sp ∧ n + 1 - s > minLen ∧ t = (s - 2, n + 1, (n + 1) % 3) := by
  unfold emitted
  simp only [List.mem_map]
  constructor
  · rintro ⟨s, hs, rfl⟩
    rw [mem_takeWhile_sorted _ sp hsort (by
      intro a b hab hb
      simp only [decide_eq_true_eq] at hb ⊢
      omega)] at hs
    exact ⟨s, hs.1, by simpa using hs.2, rfl⟩
  · rintro ⟨s, hs, hlen, rfl⟩
    refine ⟨s, ?_, rfl⟩
    rw [mem_takeWhile_sorted _ sp hsort (by
      intro a b hab hb
      simp only [decide_eq_true_eq] at hb ⊢
      omega)]
    exact ⟨hs, by simpa using hlen⟩

theorem good_step_stop {n : Nat} {sp : List Nat} (hn : n < seq.length) (hstop : StopEnd seq stops n)
    (hsp : ∀ i, i ∈ sp ↔ Pending seq starts stops n i ((n + 1) % 3)) (hsort : sp.Pairwise (· < ·))
    (t : Nat × Nat × Nat) :
    Good seq starts stops minLen (n + 1) t ↔
      (Good seq starts stops minLen n t ∨ t ∈ emitted minLen n sp) := by
  rw [mem_emitted hsort]
  unfold Good
  constructor
  · rintro ⟨h1, h2, h3, h4⟩
    by_cases e : t.2.1 = n + 1
    · right
      have hio := h1
      unfold IsOrf at hio
      refine ⟨t.1 + 2, ?_, by omega, ?_⟩
      · rw [hsp, pending_stop_iff seq starts stops n (t.1 + 2) hn hstop]
        refine ⟨by omega, ?_⟩
        have : t.1 + 2 - 2 = t.1 := by omega
        rw [this, ← e]; exact h1
      · have e2 : t.2.2 = (n + 1) % 3 := by rw [h4]; omega
        have : t.1 + 2 - 2 = t.1 := by omega
        rw [this]
        obtain ⟨a, b, c⟩ := t
        simp only at e e2 ⊢
        rw [e, e2]
    · left; exact ⟨h1, by omega, h3, h4⟩
  · rintro (⟨h1, h2, h3, h4⟩ | ⟨s, hs, hlen, rfl⟩)
    · exact ⟨h1, by omega, h3, h4⟩
    · rw [hsp, pending_stop_iff seq starts stops n s hn hstop] at hs
      have hio := hs.2
      unfold IsOrf at hio
      exact ⟨hs.2, by simp, by simp only; omega, by simp only; omega⟩


theorem emitted_nodup {n : Nat} {sp : List Nat} (hsort : sp.Pairwise (· < ·)) (h2 : ∀ s ∈ sp, 2 ≤ s) :
    (emitted minLen n sp).Nodup := by
  unfold emitted
  have hsub := List.takeWhile_sublist (fun s => decide (n + 1 - s > minLen)) (l := sp)
  have hp : (sp.takeWhile fun s => decide (n + 1 - s > minLen)).Pairwise (· < ·) := hsort.sublist hsub
  have hp2 : (sp.takeWhile fun s => decide (n + 1 - s > minLen)).Pairwise (fun a b => a < b ∧ 2 ≤ a) := by
    apply List.Pairwise.imp_of_mem _ hp
    intro a b ha _ hab
    exact ⟨hab, h2 a (hsub.subset ha)⟩
  unfold List.Nodup
  apply List.Pairwise.map _ _ hp2
  intro a b ⟨hab, ha⟩ e
  have := congrArg Prod.fst e
  simp only at this
  omega

/-- one loop iteration preserves the invariant -/
theorem step_inv (h3s : ∀ c ∈ starts, c.length = 3) (h3p : ∀ c ∈ stops, c.length = 3)
    (hd : ∀ c ∈ starts, c ∉ stops) {n : Nat} {st : State} (hn : n < seq.length)
    (inv : Inv seq starts stops minLen n st) :
    Inv seq starts stops minLen (n + 1) (step starts stops minLen st n seq[n]) := by
  obtain ⟨hc, hother, hstopF, hnostopF⟩ := step_fields (starts := starts) (stops := stops) (minLen := minLen) st n seq[n]
  have hw' := window_step hn inv.win
  have hoff : (n + 1) % 3 < 3 := Nat.mod_lt _ (by decide)
  have hstart_iff := window_mem_iff starts hn hw' h3s
  have hstop_iff := window_mem_iff stops hn hw' h3p
  by_cases hs : StopEnd seq stops n
  · have hcs : stops.contains ((if st.codon.length ≥ 3 then st.codon.drop 1 else st.codon) ++ [seq[n]]) = true := by
      rw [List.contains_iff_mem]; exact hstop_iff.mpr hs
    have hnst : ¬ StartEnd seq starts n := fun h => hd _ h.2.2 hs.2.2
    have hcst : starts.contains ((if st.codon.length ≥ 3 then st.codon.drop 1 else st.codon) ++ [seq[n]]) = false := by
      cases hb : starts.contains ((if st.codon.length ≥ 3 then st.codon.drop 1 else st.codon) ++ [seq[n]]) with
      | false => rfl
      | true => exact absurd (hstart_iff.mp (List.contains_iff_mem.mp hb)) hnst
    obtain ⟨hg, ho⟩ := hstopF hcs
    simp only [hcst, Bool.false_eq_true, if_false] at ho
    refine ⟨?_, ?_, ?_, ?_, ?_⟩
    · rw [hc]; exact hw'
    · intro f hf i
      by_cases hfo : f = (n + 1) % 3
      · subst hfo
        rw [hg]
        simp only [List.not_mem_nil, false_iff]
        rintro ⟨h1, h2, h3, h4⟩
        by_cases e : i = n
        · subst e; exact hnst h3
        · exact h4 n (by omega) (by omega) rfl hs
      · rw [hother f hf hfo, pending_other hfo]; exact inv.pend f hf i
    · intro f hf
      by_cases hfo : f = (n + 1) % 3
      · subst hfo; rw [hg]; exact List.Pairwise.nil
      · rw [hother f hf hfo]; exact inv.sorted f hf
    · intro t
      rw [ho, List.mem_append, inv.out t]
      exact (good_step_stop hn hs (inv.pend _ hoff) (inv.sorted _ hoff) t).symm
    · rw [ho, List.nodup_append]
      refine ⟨inv.nodup, emitted_nodup (inv.sorted _ hoff) ?_, ?_⟩
      · intro s hs'
        exact ((inv.pend _ hoff s).mp hs').2.2.1.1
      · intro a ha b hb e
        subst e
        have h1 := ((inv.out a).mp ha).2.1
        obtain ⟨s, _, _, rfl⟩ := (mem_emitted (inv.sorted _ hoff) a).mp hb
        simp only at h1
        omega
  · have hcs : stops.contains ((if st.codon.length ≥ 3 then st.codon.drop 1 else st.codon) ++ [seq[n]]) = false := by
      cases hb : stops.contains ((if st.codon.length ≥ 3 then st.codon.drop 1 else st.codon) ++ [seq[n]]) with
      | false => rfl
      | true => exact absurd (hstop_iff.mp (List.contains_iff_mem.mp hb)) hs
    obtain ⟨hg, ho⟩ := hnostopF hcs
    have hmem : ∀ i, i ∈ (if starts.contains ((if st.codon.length ≥ 3 then st.codon.drop 1 else st.codon) ++ [seq[n]])
          then st.get ((n + 1) % 3) ++ [n] else st.get ((n + 1) % 3)) ↔
        (Pending seq starts stops n i ((n + 1) % 3) ∨ (i = n ∧ StartEnd seq starts n)) := by
      intro i
      by_cases hb : starts.contains ((if st.codon.length ≥ 3 then st.codon.drop 1 else st.codon) ++ [seq[n]]) = true
      · have hst := hstart_iff.mp (List.contains_iff_mem.mp hb)
        simp only [hb, if_true, List.mem_append, List.mem_singleton, inv.pend _ hoff i]
        constructor
        · rintro (h | h)
          · exact Or.inl h
          · exact Or.inr ⟨h, hst⟩
        · rintro (h | ⟨h, _⟩)
          · exact Or.inl h
          · exact Or.inr h
      · have hnst : ¬ StartEnd seq starts n := fun h => hb (List.contains_iff_mem.mpr (hstart_iff.mpr h))
        simp only [hb, Bool.false_eq_true, if_false, inv.pend _ hoff i]
        constructor
        · exact Or.inl
        · rintro (h | ⟨_, h⟩)
          · exact h
          · exact absurd h hnst
    refine ⟨?_, ?_, ?_, ?_, ?_⟩
    · rw [hc]; exact hw'
    · intro f hf i
      by_cases hfo : f = (n + 1) % 3
      · subst hfo
        rw [hg, hmem i, pending_same_nostop hs]
      · rw [hother f hf hfo, pending_other hfo]; exact inv.pend f hf i
    · intro f hf
      by_cases hfo : f = (n + 1) % 3
      · subst hfo
        rw [hg]
        by_cases hb : starts.contains ((if st.codon.length ≥ 3 then st.codon.drop 1 else st.codon) ++ [seq[n]]) = true
        · simp only [hb, if_true]
          rw [List.pairwise_append]
          refine ⟨inv.sorted _ hoff, List.pairwise_singleton _ _, ?_⟩
          intro a ha b hb'
          simp only [List.mem_singleton] at hb'
          subst hb'
          exact ((inv.pend _ hoff a).mp ha).1
        · simp only [hb, Bool.false_eq_true, if_false]
          exact inv.sorted _ hoff
      · rw [hother f hf hfo]; exact inv.sorted f hf
    · intro t
      rw [ho, good_step_nostop hs t]; exact inv.out t
    · rw [ho]; exact inv.nodup

theorem init_inv : Inv seq starts stops minLen 0 State.init := by
  refine ⟨⟨fun _ => by simp [State.init], fun h => by omega⟩, ?_, ?_, ?_, List.nodup_nil⟩
  · intro f hf i
    have : State.init.get f = [] := by
      rcases (by omega : f = 0 ∨ f = 1 ∨ f = 2) with rfl | rfl | rfl <;> rfl
    rw [this]
    simp only [List.not_mem_nil, false_iff]
    rintro ⟨h, _⟩; omega
  · intro f hf
    have : State.init.get f = [] := by
      rcases (by omega : f = 0 ∨ f = 1 ∨ f = 2) with rfl | rfl | rfl <;> rfl
    rw [this]; exact List.Pairwise.nil
  · intro t
    simp only [State.init, List.not_mem_nil, false_iff]
    rintro ⟨h, h2, _⟩
    unfold IsOrf at h
    omega

theorem run_inv (h3s : ∀ c ∈ starts, c.length = 3) (h3p : ∀ c ∈ stops, c.length = 3)
    (hd : ∀ c ∈ starts, c ∉ stops) : ∀ (rest pre : List Nat) (st : State), seq = pre ++ rest →
    Inv seq starts stops minLen pre.length st →
    Inv seq starts stops minLen seq.length (run starts stops minLen st pre.length rest) := by
  intro rest
  induction rest with
  | nil =>
    intro pre st hseq inv
    have : seq.length = pre.length := by rw [hseq]; simp
    rw [this]; exact inv
  | cons c rest' ih =>
    intro pre st hseq inv
    have hn : pre.length < seq.length := by rw [hseq]; simp
    have hget : seq[pre.length] = c := by
      simp only [hseq, List.getElem_append_right (Nat.le_refl _), Nat.sub_self, List.getElem_cons_zero]
    have hstep := step_inv h3s h3p hd hn inv
    rw [hget] at hstep
    have := ih (pre ++ [c]) (step starts stops minLen st pre.length c) (by rw [hseq]; simp) (by
      simpa using hstep)
    simpa [run] using this

end

end RbV.Lemmas.OrfScan
