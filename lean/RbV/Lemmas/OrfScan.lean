import RbV.Spec.Orf
import RbV.Model.OrfScan
/-! Refinement lemmas for the ORF mirror model (C20 [B]) — see `Thm/C20.lean`. -/
namespace RbV.Lemmas.OrfScan
end RbV.Lemmas.OrfScan
