import RbV.Model.Bom
/-!
# The factor-oracle theorem for the mirror model of `BOM::new`

`Bom.build p` runs the online oracle construction on `w = p.reverse`.  We prove that after every round the pair
`(table, suff)` satisfies the invariant `Inv u T suff` (`u` = the prefix of `w` processed so far):

* `suff[q] = some q'` implies `q' < q`, and every state `1..n` has a supply state;
* the inner transitions `j --u[j]--> j+1` exist;
* every table entry `q --a--> r` has `q < r ≤ n`, and `r = q+1` only for `a = u[q]`;
* **supply clause**: if `q --a--> r` and `S(q) = q'`, then `q'` has an `a`-transition too, and its target lies on
  the suffix path `r, S(r), S(S(r)), …` of `r`.

From the supply clause alone one gets, by induction on `j`, that every suffix of `u[0..j)` is accepted from state 0
and ends in a state on the suffix path of `j` — hence every factor of `w` is accepted (Allauzen–Crochemore–Raffinot,
"the oracle accepts at least the factors").  The entry clause is `monotoneB`.
Core Lean only.
-/
namespace RbV.Bom

/-! ### suffix paths -/

/-- `OnPath suff q r`: `r` lies on the suffix path `q, S(q), S(S(q)), …` -/
inductive OnPath (suff : List (Option Nat)) : Nat → Nat → Prop
  | refl (q : Nat) : OnPath suff q q
  | step (q q' r : Nat) : suff[q]? = some (some q') → OnPath suff q' r → OnPath suff q r

theorem OnPath.trans {suff : List (Option Nat)} {q r s : Nat} (h1 : OnPath suff q r) (h2 : OnPath suff r s) :
    OnPath suff q s := by
  induction h1 with
  | refl _ => exact h2
  | step q q' r hq _ ih => exact OnPath.step q q' s hq (ih h2)

theorem OnPath.append {suff : List (Option Nat)} {q r : Nat} (x : List (Option Nat)) (h : OnPath suff q r) :
    OnPath (suff ++ x) q r := by
  induction h with
  | refl _ => exact OnPath.refl _
  | step q q' r hq _ ih =>
    refine OnPath.step q q' r ?_ ih
    have : q < suff.length := (List.getElem?_eq_some_iff.mp hq).1
    rw [List.getElem?_append_left this]; exact hq

/-! ### `delta` and table updates -/

theorem delta_eq_some {T : Table} {q a r : Nat} (h : delta T q a = some r) :
    ∃ l, T[q]? = some l ∧ lookup l a = some r := by
  unfold delta at h
  cases hT : T[q]? with
  | none => simp [hT] at h
  | some l => exact ⟨l, rfl, by simpa [hT] using h⟩

theorem delta_of_getElem? {T : Table} {q a : Nat} {l : List (Nat × Nat)} (h : T[q]? = some l) :
    delta T q a = lookup l a := by
  unfold delta; rw [h]

theorem delta_lt_length {T : Table} {q a r : Nat} (h : delta T q a = some r) : q < T.length := by
  obtain ⟨l, hl, _⟩ := delta_eq_some h
  exact (List.getElem?_eq_some_iff.mp hl).1

theorem delta_none_of_ge {T : Table} {q a : Nat} (h : T.length ≤ q) : delta T q a = none := by
  unfold delta; rw [List.getElem?_eq_none h]

theorem delta_append_left (T X : Table) {q : Nat} (a : Nat) (h : q < T.length) :
    delta (T ++ X) q a = delta T q a := by
  unfold delta; rw [List.getElem?_append_left h]

theorem getElem?_tinsert (T : Table) (k a i q : Nat) :
    (tinsert T k a i)[q]? = if q = k then (T[q]?).map (fun l => (a, i) :: l) else T[q]? := by
  unfold tinsert
  by_cases h : q = k
  · subst h; simp
  · rw [List.getElem?_modify_ne _ _ (fun e => h e.symm)]; simp [h]

theorem length_tinsert (T : Table) (k a i : Nat) : (tinsert T k a i).length = T.length := by
  unfold tinsert; simp

theorem delta_tinsert_self (T : Table) (k a i : Nat) (hk : k < T.length) :
    delta (tinsert T k a i) k a = some i := by
  unfold delta
  rw [getElem?_tinsert]
  simp [List.getElem?_eq_getElem hk, lookup]

theorem delta_tinsert_other (T : Table) (k a i q b : Nat) (h : q ≠ k ∨ b ≠ a) :
    delta (tinsert T k a i) q b = delta T q b := by
  unfold delta
  rw [getElem?_tinsert]
  by_cases hq : q = k
  · subst hq
    have hb : ¬ a = b := by
      rcases h with h | h
      · exact absurd rfl h
      · exact fun e => h e.symm
    cases hT : T[q]? with
    | none => simp
    | some l => simp [lookup, hb]
  · simp [hq]

theorem getD_none_eq_some {o : Option (Option Nat)} {x : Nat} (h : o.getD none = some x) : o = some (some x) := by
  cases o with
  | none => simp at h
  | some v => simpa using h

/-! ### the invariant -/

/-- invariant of the construction after the prefix `u` of the reversed pattern has been processed -/
structure Inv (u : List Nat) (T : Table) (suff : List (Option Nat)) : Prop where
  lenT : T.length = u.length
  lenS : suff.length = u.length + 1
  sDef : ∀ q, 0 < q → q ≤ u.length → ∃ q', suff[q]? = some (some q')
  sLt : ∀ q q' : Nat, suff[q]? = some (some q') → q' < q
  inner : ∀ j a, u[j]? = some a → delta T j a = some (j + 1)
  entries : ∀ q l e, T[q]? = some l → e ∈ l → q < e.2 ∧ e.2 ≤ u.length ∧ (e.2 = q + 1 → u[q]? = some e.1)
  supply : ∀ q q' a r, suff[q]? = some (some q') → delta T q a = some r →
    ∃ r', delta T q' a = some r' ∧ OnPath suff r r'

/-- loop invariant of the `while let Some(k_) = k` loop of the round that appends `a` (new state `u.length + 1`) -/
structure Mid (u : List Nat) (a : Nat) (suff : List (Option Nat)) (T : Table) (k : Option Nat) : Prop where
  lenT : T.length = u.length
  inner : ∀ j b, u[j]? = some b → delta T j b = some (j + 1)
  entries : ∀ q l e, T[q]? = some l → e ∈ l → q < e.2 ∧ e.2 ≤ u.length + 1 ∧ (e.2 = q + 1 → u[q]? = some e.1)
  fresh : ∀ k_, k = some k_ → k_ < u.length ∧ ∀ q, q ≤ k_ → ∀ b r, delta T q b = some r → r ≤ u.length
  supply : ∀ q q' b r, suff[q]? = some (some q') → delta T q b = some r →
    (∃ r', delta T q' b = some r' ∧ OnPath suff r r') ∨ (b = a ∧ r = u.length + 1 ∧ k = some q')
  top : ∀ q', suff[u.length]? = some (some q') → delta T q' a = some (u.length + 1) ∨ k = some q'

theorem Inv.delta_bounds {u : List Nat} {T : Table} {suff : List (Option Nat)} (h : Inv u T suff)
    {q a r : Nat} (hd : delta T q a = some r) : q < r ∧ r ≤ u.length ∧ (r = q + 1 → u[q]? = some a) := by
  obtain ⟨l, hl, hlk⟩ := delta_eq_some hd
  exact h.entries q l (a, r) hl (lookup_mem l a r hlk)

theorem mid_init {u : List Nat} {T : Table} {suff : List (Option Nat)} (a : Nat) (h : Inv u T suff) :
    Mid u a suff T ((suff[u.length]?).getD none) where
  lenT := h.lenT
  inner := h.inner
  entries := by
    intro q l e hl he
    have := h.entries q l e hl he
    exact ⟨this.1, by omega, this.2.2⟩
  fresh := by
    intro k_ hk
    have hk' := getD_none_eq_some hk
    refine ⟨h.sLt _ _ hk', ?_⟩
    intro q _ b r hd
    exact (h.delta_bounds hd).2.1
  supply := by
    intro q q' b r hs hd
    exact Or.inl (h.supply q q' b r hs hd)
  top := by
    intro q' hs
    right; rw [hs]; rfl

theorem mid_step {u : List Nat} {a : Nat} {suff : List (Option Nat)} {T : Table} {k_ : Nat}
    (hsLt : ∀ q q' : Nat, suff[q]? = some (some q') → q' < q)
    (hM : Mid u a suff T (some k_)) (hno : delta T k_ a = none) :
    Mid u a suff (tinsert T k_ a (u.length + 1)) ((suff[k_]?).getD none) := by
  have hk : k_ < u.length := (hM.fresh k_ rfl).1
  have hkT : k_ < T.length := by rw [hM.lenT]; exact hk
  -- transitions that existed before are unchanged
  have hpres : ∀ q b r, delta T q b = some r → delta (tinsert T k_ a (u.length + 1)) q b = some r := by
    intro q b r hd
    rw [delta_tinsert_other]; exact hd
    by_cases hq : q = k_
    · right; intro hb; subst hq; subst hb; rw [hno] at hd; exact absurd hd (by simp)
    · left; exact hq
  refine ⟨?_, ?_, ?_, ?_, ?_, ?_⟩
  · rw [length_tinsert]; exact hM.lenT
  · intro j b hj
    exact hpres j b _ (hM.inner j b hj)
  · intro q l e hl he
    rw [getElem?_tinsert] at hl
    by_cases hq : q = k_
    · subst hq
      simp only [if_true] at hl
      cases hT : T[q]? with
      | none => simp [hT] at hl
      | some l0 =>
        simp only [hT, Option.map_some, Option.some.injEq] at hl
        subst hl
        rcases List.mem_cons.mp he with he | he
        · subst he
          exact ⟨by simp; omega, by simp, by intro h'; simp at h'; omega⟩
        · exact hM.entries q l0 e hT he
    · simp only [hq, if_false] at hl
      exact hM.entries q l e hl he
  · intro q' hq'
    have hs := getD_none_eq_some hq'
    have hlt := hsLt _ _ hs
    refine ⟨by omega, ?_⟩
    intro q hq b r hd
    rw [delta_tinsert_other _ _ _ _ _ _ (Or.inl (by omega))] at hd
    exact (hM.fresh k_ rfl).2 q (by omega) b r hd
  · intro q q' b r hs hd
    by_cases hqb : q = k_ ∧ b = a
    · obtain ⟨hq, hb⟩ := hqb
      subst hq; subst hb
      rw [delta_tinsert_self T q b _ hkT] at hd
      right
      refine ⟨rfl, by simpa using hd.symm, ?_⟩
      rw [hs]; rfl
    · have hne : q ≠ k_ ∨ b ≠ a := by
        by_cases hq : q = k_
        · right; exact fun hb => hqb ⟨hq, hb⟩
        · left; exact hq
      rw [delta_tinsert_other _ _ _ _ _ _ hne] at hd
      rcases hM.supply q q' b r hs hd with ⟨r', hr', hp⟩ | ⟨hb, hr, hk'⟩
      · left; exact ⟨r', hpres _ _ _ hr', hp⟩
      · left
        have hq' : q' = k_ := by simpa using hk'.symm
        subst hq'; subst hb; subst hr
        exact ⟨u.length + 1, delta_tinsert_self T q' b _ hkT, OnPath.refl _⟩
  · intro q' hs
    rcases hM.top q' hs with h | h
    · left; exact hpres _ _ _ h
    · left
      have hq' : q' = k_ := by simpa using h.symm
      subst hq'
      exact delta_tinsert_self T q' a _ hkT

theorem climb_spec (u : List Nat) (a : Nat) (suff : List (Option Nat))
    (hsLt : ∀ q q' : Nat, suff[q]? = some (some q') → q' < q) :
    ∀ (fuel : Nat) (T : Table) (k : Option Nat), Mid u a suff T k → (∀ k_, k = some k_ → k_ < fuel) →
      ∃ T' k', climb suff a (u.length + 1) fuel T k = (T', k') ∧ Mid u a suff T' k' ∧
        (∀ k_, k' = some k_ → ∃ s, delta T' k_ a = some s) := by
  intro fuel
  induction fuel with
  | zero =>
    intro T k hM hf
    cases k with
    | none => exact ⟨T, none, by simp [climb], hM, by simp⟩
    | some k_ => exact absurd (hf k_ rfl) (by omega)
  | succ fuel ih =>
    intro T k hM hf
    cases k with
    | none => exact ⟨T, none, by simp [climb], hM, by simp⟩
    | some k_ =>
      cases hd : delta T k_ a with
      | some s =>
        refine ⟨T, some k_, by simp [climb, hd], hM, ?_⟩
        intro k' hk'
        have : k' = k_ := by simpa using hk'.symm
        subst this
        exact ⟨s, hd⟩
      | none =>
        have hM' := mid_step hsLt hM hd
        have hf' : ∀ k', (suff[k_]?).getD none = some k' → k' < fuel := by
          intro k' hk'
          have := hsLt _ _ (getD_none_eq_some hk')
          have := hf k_ rfl
          omega
        obtain ⟨T', k', hc, hM'', hs⟩ := ih _ _ hM' hf'
        exact ⟨T', k', by simp [climb, hd, hc], hM'', hs⟩

theorem lookup_single {a i b r : Nat} (h : lookup [(a, i)] b = some r) : b = a ∧ r = i := by
  simp only [lookup] at h
  split at h
  · rename_i hb; simp at h; exact ⟨hb.symm, h.symm⟩
  · simp at h

/-- one round of the construction preserves the invariant -/
theorem addLetter_inv {u : List Nat} {T : Table} {suff : List (Option Nat)} (a : Nat) (h : Inv u T suff) :
    Inv (u ++ [a]) (addLetter (T, suff) a).1 (addLetter (T, suff) a).2 := by
  have hfuel : ∀ k_, (suff[u.length]?).getD none = some k_ → k_ < T.length + 1 + 1 := by
    intro k_ hk
    have := h.sLt _ _ (getD_none_eq_some hk)
    have := h.lenT
    omega
  obtain ⟨T', k', hc, hM, hs⟩ := climb_spec u a suff h.sLt (T.length + 1 + 1) T _ (mid_init a h) hfuel
  have e1 : T.length + 1 - 1 = u.length := by rw [h.lenT]; omega
  -- the value stored in suff[i]
  obtain ⟨s, hslt, hsk, hadd⟩ : ∃ s, s ≤ u.length ∧ (∀ k_, k' = some k_ → delta T' k_ a = some s) ∧
      addLetter (T, suff) a = (T' ++ [[(a, u.length + 1)]], suff ++ [some s]) := by
    cases k' with
    | none =>
      refine ⟨0, by omega, by simp, ?_⟩
      simp only [addLetter]
      rw [e1, h.lenT] at *
      rw [hc]
    | some k_ =>
      obtain ⟨s, hs'⟩ := hs k_ rfl
      refine ⟨s, ?_, ?_, ?_⟩
      · exact (hM.fresh k_ rfl).2 k_ (Nat.le_refl _) a s hs'
      · intro k2 hk2
        have : k2 = k_ := by simpa using hk2.symm
        subst this; exact hs'
      · simp only [addLetter]
        rw [e1, h.lenT] at *
        rw [hc]
        simp only [hs', Option.getD_some]
  rw [hadd]
  simp only []
  have hlenT' : T'.length = u.length := hM.lenT
  have hlenS : suff.length = u.length + 1 := h.lenS
  have hnew : (suff ++ [some s])[u.length + 1]? = some (some s) := by
    rw [List.getElem?_append_right (by omega)]; simp [hlenS]
  have hold : ∀ q, q ≤ u.length → (suff ++ [some s])[q]? = suff[q]? := by
    intro q hq
    rw [List.getElem?_append_left (by omega)]
  have hTlast : (T' ++ [[(a, u.length + 1)]])[u.length]? = some [(a, u.length + 1)] := by
    rw [List.getElem?_append_right (by omega)]; simp [hlenT']
  have hpathS : OnPath (suff ++ [some s]) (u.length + 1) s :=
    OnPath.step _ s s hnew (OnPath.refl _)
  refine ⟨?_, ?_, ?_, ?_, ?_, ?_, ?_⟩
  · simp [hlenT']
  · simp [hlenS]
  · intro q hq0 hq
    simp only [List.length_append, List.length_cons, List.length_nil] at hq
    by_cases hq' : q ≤ u.length
    · rw [hold q hq']; exact h.sDef q hq0 hq'
    · have : q = u.length + 1 := by omega
      subst this; exact ⟨s, hnew⟩
  · intro q q' hs'
    by_cases hq' : q ≤ u.length
    · rw [hold q hq'] at hs'; exact h.sLt q q' hs'
    · by_cases hq2 : q = u.length + 1
      · subst hq2; rw [hnew] at hs'
        have : s = q' := by simpa using hs'
        omega
      · rw [List.getElem?_eq_none (by simp; omega)] at hs'; simp at hs'
  · intro j b hj
    by_cases hj' : j < u.length
    · rw [List.getElem?_append_left hj'] at hj
      rw [delta_append_left _ _ _ (by omega)]
      exact hM.inner j b hj
    · have hjl : j < (u ++ [a]).length := (List.getElem?_eq_some_iff.mp hj).1
      simp only [List.length_append, List.length_cons, List.length_nil] at hjl
      have : j = u.length := by omega
      subst this
      rw [List.getElem?_append_right (Nat.le_refl _)] at hj
      simp at hj
      subst hj
      rw [delta_of_getElem? hTlast]; simp [lookup]
  · intro q l e hl he
    simp only [List.length_append, List.length_cons, List.length_nil]
    by_cases hq : q < u.length
    · rw [List.getElem?_append_left (by omega)] at hl
      have := hM.entries q l e hl he
      refine ⟨this.1, by omega, ?_⟩
      intro he2
      rw [List.getElem?_append_left hq]; exact this.2.2 he2
    · have hql : q < (T' ++ [[(a, u.length + 1)]]).length := (List.getElem?_eq_some_iff.mp hl).1
      simp only [List.length_append, List.length_cons, List.length_nil] at hql
      have : q = u.length := by omega
      subst this
      rw [hTlast] at hl
      have : l = [(a, u.length + 1)] := by simpa using hl.symm
      subst this
      have : e = (a, u.length + 1) := by simpa using he
      subst this
      refine ⟨by simp, by simp, ?_⟩
      intro _
      rw [List.getElem?_append_right (Nat.le_refl _)]; simp
  · intro q q' b r hs' hd
    have hqT := delta_lt_length hd
    simp only [List.length_append, List.length_cons, List.length_nil] at hqT
    rw [hold q (by omega)] at hs'
    have hq'lt : q' < q := h.sLt q q' hs'
    by_cases hq : q < u.length
    · rw [delta_append_left _ _ _ (by omega)] at hd
      rcases hM.supply q q' b r hs' hd with ⟨r', hr', hp⟩ | ⟨hb, hr, hk'⟩
      · refine ⟨r', ?_, hp.append _⟩
        rw [delta_append_left _ _ _ (by omega)]; exact hr'
      · subst hb; subst hr
        refine ⟨s, ?_, hpathS⟩
        rw [delta_append_left _ _ _ (by omega)]; exact hsk q' hk'
    · have : q = u.length := by omega
      subst this
      rw [delta_of_getElem? hTlast] at hd
      obtain ⟨hb, hr⟩ := lookup_single hd
      subst hb; subst hr
      rcases hM.top q' hs' with h1 | h1
      · refine ⟨u.length + 1, ?_, OnPath.refl _⟩
        rw [delta_append_left _ _ _ (by omega)]; exact h1
      · refine ⟨s, ?_, hpathS⟩
        rw [delta_append_left _ _ _ (by omega)]; exact hsk q' h1

theorem inv_init : Inv [] [] [none] where
  lenT := rfl
  lenS := rfl
  sDef := by intro q h0 h1; simp at h1; omega
  sLt := by
    intro q q' h
    cases q with
    | zero => simp at h
    | succ q => simp at h
  inner := by intro j a h; simp at h
  entries := by intro q l e h; simp at h
  supply := by intro q q' a r _ h; simp [delta] at h

theorem foldl_inv : ∀ (l u : List Nat) (st : Table × List (Option Nat)), Inv u st.1 st.2 →
    Inv (u ++ l) (l.foldl addLetter st).1 (l.foldl addLetter st).2 := by
  intro l
  induction l with
  | nil => intro u st h; simpa using h
  | cons a l ih =>
    intro u st h
    simp only [List.foldl_cons]
    have := ih (u ++ [a]) (addLetter st a) (addLetter_inv (T := st.1) (suff := st.2) a h)
    simpa using this

/-- the table built for `p` satisfies the invariant for the whole reversed pattern -/
theorem build_inv (p : List Nat) : ∃ suff, Inv p.reverse (build p) suff := by
  have := foldl_inv p.reverse [] ([], [none]) inv_init
  exact ⟨_, by simpa [build] using this⟩

/-! ### consequences of the invariant -/

theorem Inv.path_zero {u : List Nat} {T : Table} {suff : List (Option Nat)} (h : Inv u T suff) :
    ∀ q, q ≤ u.length → OnPath suff q 0 := by
  intro q
  induction q using Nat.strongRecOn with
  | _ q ih =>
    intro hq
    by_cases h0 : q = 0
    · subst h0; exact OnPath.refl _
    · obtain ⟨q', hq'⟩ := h.sDef q (by omega) hq
      have := h.sLt q q' hq'
      exact OnPath.step q q' 0 hq' (ih q' this (by omega))

/-- the supply clause along a whole suffix path -/
theorem Inv.path_step {u : List Nat} {T : Table} {suff : List (Option Nat)} (h : Inv u T suff)
    {j q : Nat} (hp : OnPath suff j q) : ∀ {a r : Nat}, delta T j a = some r →
      ∃ r', delta T q a = some r' ∧ OnPath suff r r' := by
  induction hp with
  | refl j => intro a r hd; exact ⟨r, hd, OnPath.refl _⟩
  | step j j' q hs _ ih =>
    intro a r hd
    obtain ⟨r1, hr1, hp1⟩ := h.supply j j' a r hs hd
    obtain ⟨r', hr', hp'⟩ := ih hr1
    exact ⟨r', hr', hp1.trans hp'⟩

theorem runT_append (T : Table) : ∀ (x y : List Nat) (q q' : Nat), runT T q x = some q' →
    runT T q (x ++ y) = runT T q' y := by
  intro x
  induction x with
  | nil => intro y q q' h; simp [runT] at h; subst h; rfl
  | cons c x ih =>
    intro y q q' h
    simp only [runT, List.cons_append] at h ⊢
    cases hd : delta T q c with
    | none => simp [hd] at h
    | some q1 =>
      simp only [hd] at h ⊢
      exact ih y q1 q' h

/-- every suffix of the prefix `u[0..j)` is accepted from state 0 and ends on the suffix path of state `j` -/
theorem Inv.accepts_suffix {u : List Nat} {T : Table} {suff : List (Option Nat)} (h : Inv u T suff) :
    ∀ j, j ≤ u.length → ∀ x y, u.take j = x ++ y → ∃ q, runT T 0 y = some q ∧ OnPath suff j q := by
  intro j
  induction j with
  | zero =>
    intro _ x y hxy
    simp only [List.take_zero] at hxy
    have : y = [] := (List.append_eq_nil_iff.mp hxy.symm).2
    subst this
    exact ⟨0, rfl, OnPath.refl _⟩
  | succ j ih =>
    intro hj x y hxy
    rcases List.eq_nil_or_concat y with hy | ⟨y', b, hy⟩
    · subst hy
      exact ⟨0, rfl, h.path_zero (j + 1) hj⟩
    · subst hy
      rw [List.take_add_one, List.getElem?_eq_getElem (by omega), List.concat_eq_append, ← List.append_assoc] at hxy
      simp only [Option.toList_some] at hxy
      obtain ⟨h1, h2⟩ := List.append_inj' hxy rfl
      have hb : u[j]? = some b := by
        rw [List.getElem?_eq_getElem (by omega)]
        simpa using h2
      obtain ⟨q, hq, hp⟩ := ih (by omega) x y' h1
      have hin := h.inner j b hb
      obtain ⟨r', hr', hp'⟩ := h.path_step hp hin
      refine ⟨r', ?_, hp'⟩
      rw [List.concat_eq_append, runT_append T y' [b] 0 q hq]
      simp [runT, hr']

/-- every factor of `u` is accepted from state 0 -/
theorem Inv.accepts_factor {u : List Nat} {T : Table} {suff : List (Option Nat)} (h : Inv u T suff)
    (x y z : List Nat) (hu : u = x ++ y ++ z) : runT T 0 y ≠ none := by
  have hlen : (x ++ y).length ≤ u.length := by rw [hu]; simp
  have htake : u.take (x ++ y).length = x ++ y := by rw [hu]; exact List.take_left' rfl
  obtain ⟨q, hq, _⟩ := h.accepts_suffix _ hlen x y htake
  rw [hq]; simp

/-! ### the two table conditions hold for every pattern -/

/-- **Factor-oracle theorem** (Allauzen–Crochemore–Raffinot) for the mirror model of `BOM::new`: the oracle built
for `p` accepts every factor of `p` read backwards. -/
theorem build_complete (p : List Nat) : completeB (build p) p = true := by
  rw [completeB_iff]
  obtain ⟨suff, h⟩ := build_inv p
  intro o l hol
  apply h.accepts_factor ((p.drop o).drop l).reverse _ (p.take o).reverse
  have : p = p.take o ++ ((p.drop o).take l ++ (p.drop o).drop l) := by
    rw [List.take_append_drop, List.take_append_drop]
  conv => lhs; rw [this]
  simp [List.reverse_append, List.append_assoc]

/-- every transition of the built table goes strictly upwards, at most to state `m`, and a transition `q → q+1`
is labelled with the `q`-th symbol of the reversed pattern. -/
theorem build_monotone (p : List Nat) : monotoneB (build p) p.reverse = true := by
  obtain ⟨suff, h⟩ := build_inv p
  unfold monotoneB
  simp only [List.all_eq_true, List.mem_range]
  intro q hq e he
  rw [List.getElem?_eq_getElem hq] at he
  simp only [Option.getD_some] at he
  have := h.entries q _ e (List.getElem?_eq_getElem hq) he
  unfold entryOk
  simp only [Bool.and_eq_true, Bool.or_eq_true, decide_eq_true_eq, beq_iff_eq]
  refine ⟨⟨this.1, this.2.1⟩, ?_⟩
  by_cases he2 : e.2 = q + 1
  · right; exact this.2.2 he2
  · left; exact he2

/-- **BOM is exact**: construction and search of the mirror model together return exactly the occurrence list,
for every non-empty pattern and every text. -/
theorem findAll_eq_occurrences (p t : List Nat) (hp : 0 < p.length) : findAll p t = occurrences p t :=
  findAll_eq_occurrences_of_table p t hp (build_complete p) (build_monotone p)

/-! ### the construction takes no panicking branch -/

theorem climbS_eq (u : List Nat) (a : Nat) (suff : List (Option Nat))
    (hsLt : ∀ q q' : Nat, suff[q]? = some (some q') → q' < q) (hlenS : suff.length = u.length + 1) :
    ∀ (fuel : Nat) (T : Table) (k : Option Nat), Mid u a suff T k → (∀ k_, k = some k_ → k_ < fuel) →
      climbS suff a (u.length + 1) fuel T k = some (climb suff a (u.length + 1) fuel T k) := by
  intro fuel
  induction fuel with
  | zero =>
    intro T k hM hf
    cases k with
    | none => simp [climbS, climb]
    | some k_ => exact absurd (hf k_ rfl) (by omega)
  | succ fuel ih =>
    intro T k hM hf
    cases k with
    | none => simp [climbS, climb]
    | some k_ =>
      have hk : k_ < u.length := (hM.fresh k_ rfl).1
      have hkT : k_ < T.length := by rw [hM.lenT]; exact hk
      have hkS : k_ < suff.length := by omega
      have hT : T[k_]? = some T[k_] := List.getElem?_eq_getElem hkT
      have hS : suff[k_]? = some suff[k_] := List.getElem?_eq_getElem hkS
      have hdl : delta T k_ a = lookup T[k_] a := delta_of_getElem? hT
      simp only [climbS, climb, hT, hS, hdl]
      cases hl : lookup T[k_] a with
      | some s => simp
      | none =>
        simp only [Option.isSome_none, Bool.false_eq_true, if_false, Option.getD_some]
        have hd : delta T k_ a = none := by rw [hdl, hl]
        have hM' := mid_step hsLt hM hd
        rw [hS] at hM'
        simp only [Option.getD_some] at hM'
        apply ih _ _ hM'
        intro k' hk'
        have h1 : suff[k_]? = some (some k') := by rw [hS, hk']
        have := hsLt _ _ h1
        have := hf k_ rfl
        omega

theorem addLetterS_eq {u : List Nat} {T : Table} {suff : List (Option Nat)} (a : Nat) (h : Inv u T suff) :
    addLetterS (T, suff) a = some (addLetter (T, suff) a) := by
  have hfuel : ∀ k_, (suff[u.length]?).getD none = some k_ → k_ < u.length + 1 + 1 := by
    intro k_ hk
    have := h.sLt _ _ (getD_none_eq_some hk)
    omega
  obtain ⟨k0, hS⟩ : ∃ k0, suff[u.length]? = some k0 :=
    ⟨_, List.getElem?_eq_getElem (by have := h.lenS; omega)⟩
  have hinit := mid_init a h
  have hcS := climbS_eq u a suff h.sLt h.lenS (u.length + 1 + 1) T _ hinit hfuel
  obtain ⟨T', k', hc, hM, hs⟩ := climb_spec u a suff h.sLt (u.length + 1 + 1) T _ hinit hfuel
  rw [hc] at hcS
  rw [hS] at hcS hc
  simp only [Option.getD_some] at hcS hc
  simp only [addLetterS, addLetter, h.lenT, Nat.add_sub_cancel, hS, Option.getD_some, hcS, hc]
  cases k' with
  | none => rfl
  | some k_ =>
    obtain ⟨s, hs'⟩ := hs k_ rfl
    simp [hs']

theorem foldlS_eq : ∀ (l u : List Nat) (st : Table × List (Option Nat)), Inv u st.1 st.2 →
    l.foldl (fun st a => st.bind (addLetterS · a)) (some st) = some (l.foldl addLetter st) := by
  intro l
  induction l with
  | nil => intro u st _; rfl
  | cons a l ih =>
    intro u st h
    simp only [List.foldl_cons, Option.bind_some]
    rw [addLetterS_eq (T := st.1) (suff := st.2) a h]
    exact ih (u ++ [a]) (addLetter st a) (addLetter_inv (T := st.1) (suff := st.2) a h)

/-- the construction never takes a panicking branch of `BOM::new` (no out-of-bounds `table[k_]` / `suff[k_]`,
`unwrap` only on a present transition) and the model's fuel suffices -/
theorem buildS_eq_build (p : List Nat) : buildS p = some (build p) := by
  unfold buildS build
  rw [foldlS_eq p.reverse [] ([], [none]) inv_init]
  rfl

/-! ### the search with the text indexed as in the Rust code -/

theorem scanS_none (T : Table) (t : List Nat) (window m : Nat) :
    ∀ (fuel j : Nat), scanS T t window m fuel j none = some (none, j) := by
  intro fuel j
  cases fuel with
  | zero => simp [scanS]
  | succ fuel => simp [scanS]

theorem scanS_eq (T : Table) (t : List Nat) (window m : Nat) (hw : m ≤ window) (hn : window ≤ t.length) :
    ∀ (fuel r q : Nat), r ≤ m → m + 1 ≤ r + fuel →
      scanS T t window m fuel (r + 1) (some q) =
        some ((scanBack T ((((t.take window).reverse).take m).drop r) q r).1,
              (scanBack T ((((t.take window).reverse).take m).drop r) q r).2 + 1) := by
  intro fuel
  induction fuel with
  | zero => intro r q hr hf; omega
  | succ fuel ih =>
    intro r q hr hf
    have hbl := back_length t window m hw hn
    by_cases hrm : r < m
    · have hlt : r < (((t.take window).reverse).take m).length := by rw [hbl]; exact hrm
      have hidx : window - (r + 1) < t.length := by omega
      have hc : t[window - (r + 1)]? = some t[window - (r + 1)] := List.getElem?_eq_getElem hidx
      have hb : (((t.take window).reverse).take m)[r] = t[window - (r + 1)] := by
        have h1 := back_getElem? t window m r hw hn hrm
        rw [List.getElem?_eq_getElem hlt] at h1
        have e : window - 1 - r = window - (r + 1) := by omega
        rw [e, hc] at h1
        simpa using h1
      rw [List.drop_eq_getElem_cons hlt, hb]
      have h1 : r + 1 ≤ m := hrm
      have h2 : ¬ window < r + 1 := by omega
      simp only [scanS, h1, if_true, h2, if_false, hc, scanBack]
      cases hd : delta T q t[window - (r + 1)] with
      | none => simp [scanS_none]
      | some q' => exact ih (r + 1) q' hrm (by omega)
    · have : r = m := by omega
      subst this
      have h1 : ¬ r + 1 ≤ r := by omega
      rw [List.drop_of_length_le (by omega)]
      simp [scanS, h1, scanBack]

theorem scanBack_le (T : Table) : ∀ (back : List Nat) (q r : Nat), (scanBack T back q r).2 ≤ r + back.length := by
  intro back q r
  rcases scanBack_spec T back q r with ⟨q', h, _⟩ | ⟨l, hl, h, _⟩
  · rw [h]; exact Nat.le_refl _
  · rw [h]; simp only; omega

theorem searchS_eq (T : Table) (m : Nat) (t : List Nat) :
    ∀ (fuel window : Nat), m ≤ window → t.length + 1 ≤ window + fuel →
      searchS T m t fuel window = some (search T m t fuel window) := by
  intro fuel
  induction fuel with
  | zero =>
    intro window hw hf
    have : ¬ window ≤ t.length := by omega
    simp [searchS, search, this]
  | succ fuel ih =>
    intro window hw hf
    by_cases hn : window ≤ t.length
    · have hs := scanS_eq T t window m hw hn (m + 1) 0 0 (by omega) (by omega)
      simp only [List.drop_zero, Nat.zero_add] at hs
      have hle := scanBack_le T (((t.take window).reverse).take m) 0 0
      rw [back_length t window m hw hn] at hle
      simp only [searchS, search, hn, if_true, hs]
      generalize scanBack T (((t.take window).reverse).take m) 0 0 = sb at hle ⊢
      obtain ⟨q, r⟩ := sb
      simp only at hle ⊢
      have h1 : ¬ (window < m ∨ m + 2 < r + 1) := by omega
      have e : m + 2 - (r + 1) = m + 1 - r := by omega
      simp only [h1, if_false, e]
      rw [ih (window + (m + 1 - r)) (by omega) (by omega)]
    · simp [searchS, search, hn]

/-- the index-literal model takes no panicking branch and computes the same list -/
theorem findAllS_eq_findAll (p t : List Nat) : findAllS p t = some (findAll p t) := by
  unfold findAllS findAll
  rw [buildS_eq_build]
  exact searchS_eq (build p) p.length t (t.length + 1) p.length (Nat.le_refl _) (by omega)

theorem findAllS_eq_occurrences (p t : List Nat) (hp : 0 < p.length) : findAllS p t = some (occurrences p t) := by
  rw [findAllS_eq_findAll, findAll_eq_occurrences p t hp]

end RbV.Bom
