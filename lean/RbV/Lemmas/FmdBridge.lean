import RbV.Lemmas.SmemsFmd
import RbV.Lemmas.SortedBridge
/-!
# C03's checker implies the sortedness hypothesis of the C06 theorems on every FMD text

In `fmdText seqs` the sentinel `$` (36) is the last symbol and the smallest one, so `checkSA_sortedAllB` applies.
-/
namespace RbV.SmemModel
open RbV RbV.FMDModel RbV.FMDSym RbV.LF

theorem fmd_sentinel_min (seqs : List (List Nat)) (hne : seqs ≠ [])
    (hseqs : ∀ s ∈ seqs, ∀ c ∈ s, isDna c = true) :
    ∀ p, p < (fmdText seqs).length → sentinelOf (fmdText seqs) ≤ (fmdText seqs).getD p 0 := by
  intro p hp
  have hpos := fmd_length_pos seqs hne
  have hT : fmdText seqs ≠ [] := fun h => by rw [h] at hpos; simp at hpos
  rw [LFMulti.sentinelOf_eq _ hT, fmd_last seqs hne]
  rcases fmd_symbols seqs hseqs _ (FMDModel.getD_mem _ p hp) with h | h
  · omega
  · exact Nat.le_of_lt (dna_gt _ h)

/-- every array C03's checker accepts for an FMD text passes `LF.sortedAllB` -/
theorem sortedAllB_of_checkSA_fmd (seqs : List (List Nat)) (sa : List Nat) (hne : seqs ≠ [])
    (hseqs : ∀ s ∈ seqs, ∀ c ∈ s, isDna c = true) (hc : checkSA (fmdText seqs) sa = true) :
    sortedAllB (fmdText seqs) sa = true :=
  SortedBridge.checkSA_sortedAllB _ sa hc (fmd_sentinel_min seqs hne hseqs)

end RbV.SmemModel
