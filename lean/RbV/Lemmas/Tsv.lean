import RbV.Model.Tsv
import RbV.Lemmas.Csv
/-! Helper lemmas for the round-trip theorems of C13 (`Thm/C13.lean`). Core Lean only. -/
namespace RbV.Tsv

/-! ## splitOn / join / render -/

theorem splitOn_ne_nil (sep : Nat) (s : List Nat) : splitOn sep s ≠ [] := by
  induction s with
  | nil => simp [splitOn]
  | cons c r ih =>
    unfold splitOn
    by_cases h : c = sep
    · simp [h]
    · simp only [h, if_false]
      cases hs : splitOn sep r with
      | nil => simp [consFirst]
      | cons p ps => simp [consFirst]

theorem splitOn_cons_ne (sep c : Nat) (r : List Nat) (h : c ≠ sep) :
    splitOn sep (c :: r) = consFirst c (splitOn sep r) := by
  rw [splitOn]
  simp only [h, if_false]

theorem splitOn_no_sep (sep : Nat) (l : List Nat) (h : sep ∉ l) : splitOn sep l = [l] := by
  induction l with
  | nil => simp [splitOn]
  | cons c r ih =>
    have hc : c ≠ sep := by
      intro e; apply h; simp [e]
    have hr : sep ∉ r := by
      intro e; apply h; simp [e]
    rw [splitOn_cons_ne sep c r hc, ih hr, consFirst]

theorem splitOn_append_sep (sep : Nat) (l rest : List Nat) (h : sep ∉ l) :
    splitOn sep (l ++ sep :: rest) = l :: splitOn sep rest := by
  induction l with
  | nil => simp [splitOn]
  | cons c r ih =>
    have hc : c ≠ sep := by
      intro e; apply h; simp [e]
    have hr : sep ∉ r := by
      intro e; apply h; simp [e]
    rw [List.cons_append, splitOn_cons_ne sep c _ hc, ih hr, consFirst]

theorem splitOn_join (sep : Nat) : ∀ (ps : List (List Nat)), ps ≠ [] → (∀ p ∈ ps, sep ∉ p) →
    splitOn sep (join sep ps) = ps := by
  intro ps
  induction ps with
  | nil => intro h; exact absurd rfl h
  | cons p rest ih =>
    intro _ hp
    cases rest with
    | nil =>
      simp only [join]
      exact splitOn_no_sep sep p (hp p (by simp))
    | cons q r =>
      simp only [join]
      rw [splitOn_append_sep sep p _ (hp p (by simp))]
      rw [ih (by simp) (fun x hx => hp x (by simp [hx]))]

theorem splitOn_render : ∀ (ls : List (List Nat)), (∀ l ∈ ls, LF ∉ l) →
    splitOn LF (render ls) = ls ++ [[]] := by
  intro ls
  induction ls with
  | nil => intro _; simp [render, splitOn]
  | cons l rest ih =>
    intro h
    simp only [render]
    rw [splitOn_append_sep LF l _ (h l (by simp))]
    rw [ih (fun x hx => h x (by simp [hx]))]
    simp

/-! ## decimal numbers -/

theorem toDec_ne_nil (n : Nat) : toDec n ≠ [] := by
  unfold toDec
  by_cases h : n < 10
  · simp [h]
  · simp [h]

theorem toDec_digits (n : Nat) : ∀ c ∈ toDec n, 48 ≤ c ∧ c ≤ 57 := by
  induction n using Nat.strongRecOn with
  | _ n ih =>
    intro c hc
    unfold toDec at hc
    by_cases h : n < 10
    · simp only [h, if_true, List.mem_singleton] at hc
      omega
    · simp only [h, if_false, List.mem_append, List.mem_singleton] at hc
      rcases hc with hc | hc
      · exact ih (n / 10) (by omega) c hc
      · omega

theorem digitsVal_append (acc : Nat) (a b : List Nat) :
    digitsVal acc (a ++ b) = digitsVal (digitsVal acc a) b := by
  simp [digitsVal, List.foldl_append]

theorem digitsVal_toDec (n : Nat) : digitsVal 0 (toDec n) = n := by
  induction n using Nat.strongRecOn with
  | _ n ih =>
    unfold toDec
    by_cases h : n < 10
    · simp [h, digitsVal]
    · simp only [h, if_false]
      rw [digitsVal_append, ih (n / 10) (by omega)]
      simp only [digitsVal, List.foldl_cons, List.foldl_nil]
      omega

theorem toDec_all_isDigit (n : Nat) : (toDec n).all isDigit = true := by
  rw [List.all_eq_true]
  intro c hc
  have := toDec_digits n c hc
  simp [isDigit, this.1, this.2]

theorem parseDec_toDec (n : Nat) : parseDec (toDec n) = some n := by
  unfold parseDec
  have h1 : (toDec n).isEmpty = false := by
    cases h : toDec n with
    | nil => exact absurd h (toDec_ne_nil n)
    | cons _ _ => rfl
  simp [h1, toDec_all_isDigit, digitsVal_toDec]

theorem readU64_toDec (n : Nat) (h : n < 2 ^ 64) : readU64 (toDec n) = .ok n := by
  unfold readU64
  rw [parseDec_toDec]
  simp [h]

theorem toDec_no (n : Nat) (c : Nat) (hc : c < 48) : c ∉ toDec n := by
  intro h
  have := toDec_digits n c h
  omega

end RbV.Tsv

namespace RbV.Tsv

/-! ## joined fields -/

theorem mem_join (sep : Nat) : ∀ (ps : List (List Nat)) (c : Nat), c ∈ join sep ps → c = sep ∨ ∃ p ∈ ps, c ∈ p := by
  intro ps
  induction ps with
  | nil => intro c h; simp [join] at h
  | cons p rest ih =>
    intro c h
    cases rest with
    | nil =>
      simp only [join] at h
      exact Or.inr ⟨p, by simp, h⟩
    | cons q r =>
      simp only [join, List.mem_append, List.mem_cons] at h
      rcases h with h | h | h
      · exact Or.inr ⟨p, by simp, h⟩
      · exact Or.inl h
      · rcases ih c h with h' | ⟨x, hx, hc⟩
        · exact Or.inl h'
        · exact Or.inr ⟨x, by simp [hx], hc⟩

theorem withCount_uniform {α : Type} (parse : List (List Nat) → Res α) (rs : List (List (List Nat))) (n : Nat)
    (h : ∀ r ∈ rs, r.length = n) : withCount parse rs = rs.map parse := by
  unfold withCount
  cases rs with
  | nil => rfl
  | cons r0 rest =>
    simp only
    apply List.map_congr_left
    intro r hr
    have h1 := h r hr
    have h2 := h r0 (by simp)
    simp [h1, h2]

/-! ## BED -/

/-- a BED record of the domain: `k` auxiliary columns, coordinates fit `u64`, and the written line is not taken
for a comment (the chromosome name does not start with `#` — unless it also contains TAB, `"`, CR or LF, in which case
the writer quotes it).  Every other byte content of the text columns is allowed. -/
structure BedOk (k : Nat) (r : BedRec) : Prop where
  cols : r.aux.length = k
  chromHash : hashStart (bedFields r) = false
  startRange : r.start < 2 ^ 64
  stopRange : r.stop < 2 ^ 64

theorem parseBedFields_bedFields (r : BedRec) (h1 : r.start < 2 ^ 64) (h2 : r.stop < 2 ^ 64) :
    parseBedFields (bedFields r) = .ok r := by
  unfold bedFields parseBedFields
  simp only [readU64_toDec _ h1, readU64_toDec _ h2]

end RbV.Tsv

namespace RbV.Tsv

/-! ## attribute column -/

theorem takeWhile_append_stop (p : Nat → Bool) : ∀ (a b : List Nat), (∀ c ∈ a, p c = true) →
    (∀ c, b.head? = some c → p c = false) → (a ++ b).takeWhile p = a ∧ (a ++ b).dropWhile p = b := by
  intro a
  induction a with
  | nil =>
    intro b _ hb
    cases b with
    | nil => simp
    | cons c r =>
      have := hb c (by simp)
      simp [List.takeWhile_cons, List.dropWhile_cons, this]
  | cons x xs ih =>
    intro b ha hb
    have hx := ha x (by simp)
    have := ih b (fun c hc => ha c (by simp [hc])) hb
    simp [List.takeWhile_cons, List.dropWhile_cons, hx, this.1, this.2]

theorem dropWhile_id (p : Nat → Bool) (s : List Nat) (h : ∀ c, s.head? = some c → p c = false) :
    s.dropWhile p = s := by
  cases s with
  | nil => rfl
  | cons c r =>
    have := h c (by simp)
    simp [List.dropWhile_cons, this]

theorem takeWhile_nil_of_head (p : Nat → Bool) (s : List Nat) (h : ∀ c, s.head? = some c → p c = false) :
    s.takeWhile p = [] := by
  cases s with
  | nil => rfl
  | cons c r =>
    have := h c (by simp)
    simp [List.takeWhile_cons, this]

theorem trimBoth_id (p : Nat → Bool) (s : List Nat) (h1 : ∀ c, s.head? = some c → p c = false)
    (h2 : ∀ c, s.getLast? = some c → p c = false) : trimBoth p s = s := by
  unfold trimBoth
  rw [dropWhile_id p s h1, dropWhile_id p s.reverse (by rw [List.head?_reverse]; exact h2), List.reverse_reverse]

/-- no quote character at either end -/
def NoQuoteEnds (s : List Nat) : Prop :=
  (∀ c, s.head? = some c → c ≠ 39 ∧ c ≠ 34) ∧ (∀ c, s.getLast? = some c → c ≠ 39 ∧ c ≠ 34)

theorem trimQuotes_id (s : List Nat) (h : NoQuoteEnds s) : trimQuotes s = s := by
  unfold trimQuotes
  rw [trimBoth_id isQuote1 s (fun c hc => by simp [isQuote1, (h.1 c hc).1])
    (fun c hc => by simp [isQuote1, (h.2 c hc).1])]
  exact trimBoth_id isQuote2 s (fun c hc => by simp [isQuote2, (h.1 c hc).2])
    (fun c hc => by simp [isQuote2, (h.2 c hc).2])

/-- a key or a raw value as the regular expression sees it: non-empty, only key/value symbols -/
structure TokOk (d : Dialect) (t : List Nat) : Prop where
  ne : t ≠ []
  kv : ∀ c ∈ t, isKV d c = true

theorem isKV_delim (d : Dialect) : isKV d d.delim = false := by simp [isKV]
theorem isKV_term (d : Dialect) : isKV d d.term = false := by simp [isKV]

/-- the regular expression finds a written segment and stops right after it -/
theorem matchAt_seg (d : Dialect) (k raw tail more : List Nat) (hk : TokOk d k) (hks : k.head? ≠ some SPACE)
    (hr : TokOk d raw) (ht : (tail = [] ∧ more = []) ∨ tail = d.term :: more) :
    matchAt d (k ++ d.delim :: (raw ++ tail)) = some (k, raw, more) := by
  have hsp : ∀ c, (k ++ d.delim :: (raw ++ tail)).head? = some c → isSpace c = false := by
    intro c hc
    cases k with
    | nil => exact absurd rfl hk.ne
    | cons a t =>
      simp only [List.cons_append, List.head?_cons, Option.some.injEq] at hc hks
      subst hc
      simp only [isSpace, beq_eq_false_iff_ne, ne_eq]
      exact fun e => hks (by rw [e])
  have h1 := takeWhile_nil_of_head isSpace _ hsp
  have h2 := dropWhile_id isSpace _ hsp
  have h3 := takeWhile_append_stop (isKV d) k (d.delim :: (raw ++ tail)) hk.kv
    (fun c hc => by simp only [List.head?_cons, Option.some.injEq] at hc; subst hc; exact isKV_delim d)
  have htail : ∀ c, tail.head? = some c → isKV d c = false := by
    intro c hc
    rcases ht with ⟨h, _⟩ | h
    · subst h; simp at hc
    · subst h
      simp only [List.head?_cons, Option.some.injEq] at hc
      subst hc; exact isKV_term d
  have h4 := takeWhile_append_stop (isKV d) raw tail hr.kv htail
  have hkne : k.isEmpty = false := by
    cases k with
    | nil => exact absurd rfl hk.ne
    | cons _ _ => rfl
  have hrne : raw.isEmpty = false := by
    cases raw with
    | nil => exact absurd rfl hr.ne
    | cons _ _ => rfl
  unfold matchAt
  simp only [h1, h2, h3.1, h3.2, hkne, Bool.not_false, if_true, Bool.false_eq_true, if_false, h4.1, h4.2, hrne]
  rcases ht with ⟨h, hm⟩ | h
  · subst h; subst hm; rfl
  · subst h; simp

theorem scan_nil (d : Dialect) (fuel : Nat) : scan d fuel [] = [] := by
  cases fuel <;> rfl

theorem renderSeg_length (d : Dialect) (s : List Nat × List Nat) :
    (renderSeg d s).length = s.1.length + 1 + s.2.length := by
  simp [renderSeg]; omega

theorem join_cons_cons (sep : Nat) (p q : List Nat) (r : List (List Nat)) :
    join sep (p :: q :: r) = p ++ sep :: join sep (q :: r) := rfl

theorem scan_step (d : Dialect) (k raw J : List Nat) (fuel : Nat) (hk : TokOk d k)
    (hks : k.head? ≠ some SPACE) (hr : TokOk d raw) :
    scan d (fuel + 1) (k ++ d.delim :: (raw ++ d.term :: J)) = (k, raw) :: scan d fuel J := by
  have hm := matchAt_seg d k raw (d.term :: J) J hk hks hr (Or.inr rfl)
  cases hkk : k with
  | nil => exact absurd hkk hk.ne
  | cons a t =>
    rw [hkk] at hm
    simp only [List.cons_append] at hm ⊢
    simp only [scan, hm]

theorem scan_last (d : Dialect) (k raw : List Nat) (fuel : Nat) (hk : TokOk d k)
    (hks : k.head? ≠ some SPACE) (hr : TokOk d raw) :
    scan d (fuel + 1) (k ++ d.delim :: raw) = [(k, raw)] := by
  have hm := matchAt_seg d k raw [] [] hk hks hr (Or.inl ⟨rfl, rfl⟩)
  cases hkk : k with
  | nil => exact absurd hkk hk.ne
  | cons a t =>
    rw [hkk] at hm
    simp only [List.cons_append, List.append_nil] at hm ⊢
    simp only [scan, hm, scan_nil]

/-- the scanner returns exactly the written segments -/
theorem scan_segments (d : Dialect) : ∀ (segs : List (List Nat × List Nat)),
    (∀ s ∈ segs, TokOk d s.1 ∧ s.1.head? ≠ some SPACE ∧ TokOk d s.2) →
    ∀ fuel, (join d.term (segs.map (renderSeg d))).length < fuel →
      scan d fuel (join d.term (segs.map (renderSeg d))) = segs := by
  intro segs
  induction segs with
  | nil => intro _ fuel _; simp [join, scan_nil]
  | cons s rest ih =>
    intro hs fuel hf
    obtain ⟨hk, hks, hr⟩ := hs s (by simp)
    cases fuel with
    | zero => omega
    | succ fuel =>
      cases rest with
      | nil =>
        simp only [List.map_cons, List.map_nil, join]
        exact scan_last d s.1 s.2 fuel hk hks hr
      | cons s2 r2 =>
        rw [List.map_cons, List.map_cons, join_cons_cons] at hf ⊢
        have h1 : renderSeg d s ++ d.term :: join d.term (renderSeg d s2 :: r2.map (renderSeg d))
            = s.1 ++ d.delim :: (s.2 ++ d.term :: join d.term (renderSeg d s2 :: r2.map (renderSeg d))) := by
          simp [renderSeg]
        rw [h1] at hf ⊢
        rw [scan_step d s.1 s.2 _ fuel hk hks hr]
        have := ih (fun x hx => hs x (by simp [hx])) fuel (by
          rw [List.map_cons]
          simp only [List.length_cons, List.length_append] at hf
          omega)
        rw [List.map_cons] at this
        rw [this]

end RbV.Tsv

namespace RbV.Tsv

/-! ## attribute column: parse ∘ write -/

structure DialectOk (d : Dialect) : Prop where
  vdelimKV : d.repeatKeys = false → isKV d d.vdelim = true

theorem gff3_ok : DialectOk gff3 := ⟨by decide⟩

theorem gff2_ok : DialectOk gff2 := ⟨by decide⟩

/-- an attribute key of the domain: non-empty, free of the dialect's delimiters and TAB, not starting with a blank,
no quote character at either end -/
structure KeyOk (d : Dialect) (k : List Nat) : Prop where
  tok : TokOk d k
  noSpace : k.head? ≠ some SPACE
  noQuote : NoQuoteEnds k

/-- an attribute value of the domain -/
structure ValOk (d : Dialect) (v : List Nat) : Prop where
  tok : TokOk d v
  noVdelim : d.vdelim ∉ v
  noQuote : NoQuoteEnds v

def AttrsOk (d : Dialect) (g : List (List Nat × List (List Nat))) : Prop :=
  ∀ kv ∈ g, KeyOk d kv.1 ∧ kv.2 ≠ [] ∧ ∀ v ∈ kv.2, ValOk d v

theorem join_ne_nil (sep : Nat) (p : List Nat) (rest : List (List Nat)) (h : p ≠ []) : join sep (p :: rest) ≠ [] := by
  cases rest with
  | nil => simpa [join] using h
  | cons q r =>
    cases p with
    | nil => exact absurd rfl h
    | cons a t => simp [join]

theorem rawJoin_ok (d : Dialect) (hd : DialectOk d) (hrep : d.repeatKeys = false) (vs : List (List Nat))
    (hne : vs ≠ []) (hv : ∀ v ∈ vs, ValOk d v) : TokOk d (join d.vdelim vs) := by
  constructor
  · cases vs with
    | nil => exact absurd rfl hne
    | cons v rest => exact join_ne_nil _ v rest (hv v (by simp)).tok.ne
  · intro c hc
    rcases mem_join _ _ _ hc with h | ⟨p, hp, hcp⟩
    · rw [h]; exact hd.vdelimKV hrep
    · exact (hv p hp).tok.kv c hcp

theorem segments_ok (d : Dialect) (hd : DialectOk d) (g : List (List Nat × List (List Nat))) (hg : AttrsOk d g) :
    ∀ s ∈ segments d g, TokOk d s.1 ∧ s.1.head? ≠ some SPACE ∧ TokOk d s.2 := by
  intro s hs
  unfold segments at hs
  obtain ⟨kv, hkv, hmem⟩ := List.mem_flatMap.mp hs
  obtain ⟨hk, hne, hv⟩ := hg kv hkv
  by_cases hrep : d.repeatKeys = true
  · simp only [hrep, if_true, List.mem_map] at hmem
    obtain ⟨v, hvm, rfl⟩ := hmem
    exact ⟨hk.tok, hk.noSpace, (hv v hvm).tok⟩
  · have hrep' : d.repeatKeys = false := by simpa using hrep
    simp only [hrep', Bool.false_eq_true, if_false, List.mem_singleton] at hmem
    subst hmem
    exact ⟨hk.tok, hk.noSpace, rawJoin_ok d hd hrep' kv.2 hne hv⟩

/-- what the reader makes of one scanned segment -/
def unpack (d : Dialect) (kv : List Nat × List Nat) : List (List Nat × List Nat) :=
  (splitOn d.vdelim kv.2).map fun v => (trimQuotes kv.1, trimQuotes v)

theorem unpack_segment (d : Dialect) (k : List Nat) (vs : List (List Nat)) (hk : KeyOk d k) (hne : vs ≠ [])
    (hv : ∀ v ∈ vs, ValOk d v) :
    ((if d.repeatKeys then vs.map fun v => (k, v) else [(k, join d.vdelim vs)]).flatMap (unpack d))
      = vs.map fun v => (k, v) := by
  by_cases hrep : d.repeatKeys = true
  · simp only [hrep, if_true]
    clear hne
    induction vs with
    | nil => rfl
    | cons v rest ih =>
      have hvv := hv v (by simp)
      simp only [List.map_cons, List.flatMap_cons]
      rw [ih (fun x hx => hv x (by simp [hx]))]
      simp only [unpack, splitOn_no_sep _ _ hvv.noVdelim, List.map_cons, List.map_nil,
        trimQuotes_id _ hk.noQuote, trimQuotes_id _ hvv.noQuote, List.singleton_append]
  · have hrep' : d.repeatKeys = false := by simpa using hrep
    simp only [hrep', Bool.false_eq_true, if_false, List.flatMap_cons, List.flatMap_nil, List.append_nil]
    simp only [unpack]
    rw [splitOn_join _ vs hne (fun p hp => (hv p hp).noVdelim)]
    apply List.map_congr_left
    intro v hvm
    rw [trimQuotes_id _ hk.noQuote, trimQuotes_id _ (hv v hvm).noQuote]

theorem parseAttrs_writeAttrs (d : Dialect) (hd : DialectOk d) (g : List (List Nat × List (List Nat)))
    (hg : AttrsOk d g) : parseAttrs d (writeAttrs d g) = flatPairs g := by
  unfold parseAttrs writeAttrs
  rw [scan_segments d (segments d g) (segments_ok d hd g hg) _ (Nat.lt_succ_self _)]
  show (segments d g).flatMap (unpack d) = flatPairs g
  unfold segments flatPairs
  induction g with
  | nil => rfl
  | cons kv rest ih =>
    obtain ⟨hk, hne, hv⟩ := hg kv (by simp)
    simp only [List.flatMap_cons, List.flatMap_append]
    rw [ih (fun x hx => hg x (by simp [hx]))]
    rw [unpack_segment d kv.1 kv.2 hk hne hv]

end RbV.Tsv

namespace RbV.Tsv

/-! ## GFF record line -/

/-- a GFF record of the domain: the written line is not taken for a comment (see `BedOk`), coordinates fit `u64`,
phase ∈ {`.`,0,1,2}, attributes of the domain.  seqname, source, type, score and strand are arbitrary byte strings. -/
structure GffOk (d : Dialect) (r : GffRec) : Prop where
  seqHash : hashStart (gffFields d r) = false
  startRange : r.start < 2 ^ 64
  stopRange : r.stop < 2 ^ 64
  phaseRange : ∀ n, r.phase = some n → n < 3
  attrsOk : AttrsOk d r.attrs

theorem toDec_small (n : Nat) (h : n < 10) : toDec n = [48 + n] := by
  unfold toDec; simp [h]

theorem readPhase_phaseStr (p : Option Nat) (h : ∀ n, p = some n → n < 3) : readPhase (phaseStr p) = .ok p := by
  cases p with
  | none => simp [readPhase, phaseStr]
  | some n =>
    have hn := h n rfl
    have hd : toDec n = [48 + n] := toDec_small n (by omega)
    unfold readPhase phaseStr
    have hne : toDec n ≠ [46] := by
      rw [hd]; simp; omega
    simp only [hne, if_false, parseDec_toDec, if_true, hn]

theorem parseGffFields_gffFields {d : Dialect} (hd : DialectOk d) {r : GffRec} (h : GffOk d r) :
    parseGffFields d (gffFields d r) = .ok r.asRead := by
  unfold gffFields parseGffFields
  simp only [readU64_toDec _ h.startRange, readU64_toDec _ h.stopRange, readPhase_phaseStr _ h.phaseRange,
    parseAttrs_writeAttrs d hd _ h.attrsOk, GffRec.asRead]

theorem valuesOf_map_same (k : List Nat) : ∀ (vs : List (List Nat)), valuesOf (vs.map fun v => (k, v)) k = vs := by
  intro vs
  induction vs with
  | nil => rfl
  | cons v t iht =>
    unfold valuesOf at iht ⊢
    simp only [List.map_cons, List.filterMap_cons, if_true]
    rw [iht]

/-- the multimap view: all values of a key, in order, from a key ↦ values list with distinct keys -/
theorem valuesOf_flatPairs : ∀ (g : List (List Nat × List (List Nat))), (g.map (·.1)).Nodup →
    ∀ k vs, (k, vs) ∈ g → valuesOf (flatPairs g) k = vs := by
  intro g
  induction g with
  | nil => intro _ k vs h; simp at h
  | cons kv rest ih =>
    intro hnd k vs hmem
    simp only [List.map_cons, List.nodup_cons] at hnd
    have hsplit : valuesOf (flatPairs (kv :: rest)) k
        = valuesOf (kv.2.map fun v => (kv.1, v)) k ++ valuesOf (flatPairs rest) k := by
      simp [valuesOf, flatPairs, List.filterMap_append]
    rw [hsplit]
    rcases List.mem_cons.mp hmem with h | h
    · subst h
      have h1 : valuesOf (vs.map fun v => (k, v)) k = vs := valuesOf_map_same k vs
      have h2 : valuesOf (flatPairs rest) k = [] := by
        unfold valuesOf flatPairs
        rw [List.filterMap_eq_nil_iff]
        intro p hp
        obtain ⟨kv', hkv', hp'⟩ := List.mem_flatMap.mp hp
        obtain ⟨v, _, rfl⟩ := List.mem_map.mp hp'
        have : kv'.1 ≠ k := by
          intro e
          apply hnd.1
          rw [← e]
          exact List.mem_map.mpr ⟨kv', hkv', rfl⟩
        simp [this]
      rw [h1, h2, List.append_nil]
    · have hne : kv.1 ≠ k := by
        intro e
        apply hnd.1
        rw [e]
        exact List.mem_map.mpr ⟨(k, vs), h, rfl⟩
      have h1 : valuesOf (kv.2.map fun v => (kv.1, v)) k = [] := by
        unfold valuesOf
        rw [List.filterMap_eq_nil_iff]
        intro p hp
        obtain ⟨v, _, rfl⟩ := List.mem_map.mp hp
        simp [hne]
      rw [h1, List.nil_append]
      exact ih hnd.2 k vs h

end RbV.Tsv

namespace RbV.Tsv

/-! ## what follows a line break never changes what was read before it -/

theorem consFirst_append (c : Nat) (xs ys : List (List Nat)) (h : xs ≠ []) :
    consFirst c (xs ++ ys) = consFirst c xs ++ ys := by
  cases xs with
  | nil => exact absurd rfl h
  | cons p ps => simp [consFirst]

theorem splitOn_append_sep' (sep : Nat) (a b : List Nat) :
    splitOn sep (a ++ sep :: b) = splitOn sep a ++ splitOn sep b := by
  induction a with
  | nil => simp [splitOn]
  | cons c r ih =>
    by_cases hc : c = sep
    · subst hc
      rw [List.cons_append]
      rw [show splitOn c (c :: (r ++ c :: b)) = [] :: splitOn c (r ++ c :: b) by rw [splitOn]; simp]
      rw [show splitOn c (c :: r) = [] :: splitOn c r by rw [splitOn]; simp]
      rw [ih]; rfl
    · rw [List.cons_append, splitOn_cons_ne sep c _ hc, splitOn_cons_ne sep c r hc, ih,
        consFirst_append c _ _ (splitOn_ne_nil sep r)]

theorem withCount_prefix {α : Type} (parse : List (List Nat) → Res α) (r1 r2 : List (List (List Nat))) :
    (withCount parse (r1 ++ r2)).take (withCount parse r1).length = withCount parse r1 := by
  cases r1 with
  | nil => simp [withCount]
  | cons r0 t =>
    simp only [withCount, List.cons_append, List.map_cons, List.map_append, List.length_cons, List.length_map]
    rw [List.take_succ_cons]
    congr 1
    rw [List.take_append_of_le_length (by simp)]
    rw [List.take_of_length_le (by simp)]

end RbV.Tsv
