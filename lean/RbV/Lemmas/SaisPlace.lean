import RbV.Lemmas.SaisInduceSpec
/-
The first phase of `calc_pos`: "insert LMS positions to the end of their buckets" (`placeLms`) establishes `Placed`.
-/
namespace RbV.Sais
open RbV

/-! ### number of already placed positions per symbol -/

/-- number of elements of `D` with symbol `c` -/
def dcnt (t : List Nat) (D : List Nat) (c : Nat) : Nat := (D.filter (fun p => sym t p == c)).length

theorem dcnt_nil (t : List Nat) (c : Nat) : dcnt t [] c = 0 := rfl

theorem dcnt_append (t D E : List Nat) (c : Nat) : dcnt t (D ++ E) c = dcnt t D c + dcnt t E c := by
  unfold dcnt; rw [List.filter_append, List.length_append]

theorem dcnt_single_eq (t : List Nat) (p c : Nat) (h : sym t p = c) : dcnt t [p] c = 1 := by
  simp [dcnt, h]

theorem dcnt_single_ne (t : List Nat) (p c : Nat) (h : sym t p ≠ c) : dcnt t [p] c = 0 := by
  simp [dcnt, h]

theorem dcnt_snoc_eq (t D : List Nat) (p c : Nat) (h : sym t p = c) : dcnt t (D ++ [p]) c = dcnt t D c + 1 := by
  rw [dcnt_append, dcnt_single_eq t p c h]

theorem dcnt_snoc_ne (t D : List Nat) (p c : Nat) (h : sym t p ≠ c) : dcnt t (D ++ [p]) c = dcnt t D c := by
  rw [dcnt_append, dcnt_single_ne t p c h]; rfl

theorem dcnt_snoc_le (t D : List Nat) (p c : Nat) : dcnt t D c ≤ dcnt t (D ++ [p]) c := by
  rw [dcnt_append]; omega

/-- LMS positions with symbol `c` fit into the S-area of bucket `c` -/
theorem dcnt_le_Sset (t L : List Nat) (c : Nat) (hnd : L.Nodup) (hlms : ∀ p ∈ L, isLms (tyOf t) p = true) :
    dcnt t L c ≤ (Sset t c).length := by
  unfold dcnt
  apply nodup_subset_length_le _ _ (List.Nodup.sublist List.filter_sublist hnd)
  intro x hx
  rw [List.mem_filter] at hx
  rw [mem_Sset]
  have hl := hlms x hx.1
  exact ⟨lt_of_isLms x hl, by simpa using hx.2, ((isLms_iff _ _).mp hl).2.1⟩

/-! ### the loop invariant -/

/-- state `st = (pos, bucket_end)` after the positions `D` have been placed -/
structure PInv (t : List Nat) (R : Nat → Nat → Prop) (D : List Nat) (st : List Nat × List Nat) : Prop where
  lenP : st.1.length = t.length
  lenB : st.2.length = maxSucc t
  bend : ∀ c, c < maxSucc t → dcnt t D c < cntLt t (c + 1) → st.2.getD c 0 = cntLt t (c + 1) - 1 - dcnt t D c
  undef : ∀ c i, inBkt t c i → i + dcnt t D c < cntLt t (c + 1) → st.1.getD i 0 = t.length
  defd : ∀ c i, inBkt t c i → cntLt t (c + 1) ≤ i + dcnt t D c → st.1.getD i 0 ∈ D ∧ sym t (st.1.getD i 0) = c
  all : ∀ p, p ∈ D → ∃ i, i < t.length ∧ st.1.getD i 0 = p
  inj : ∀ i j, i < j → j < t.length → st.1.getD i 0 ≠ t.length → st.1.getD j 0 ≠ t.length →
    st.1.getD i 0 ≠ st.1.getD j 0
  sorted : ∀ i j, i < j → j < t.length → st.1.getD i 0 ≠ t.length → st.1.getD j 0 ≠ t.length →
    sym t (st.1.getD i 0) = sym t (st.1.getD j 0) → R (st.1.getD i 0) (st.1.getD j 0)

/-- a defined entry was placed, into the filled part of its bucket -/
theorem PInv.of_def {t : List Nat} {R : Nat → Nat → Prop} {D : List Nat} {st : List Nat × List Nat}
    (h : PInv t R D st) (i : Nat) (hi : i < t.length) (hd : st.1.getD i 0 ≠ t.length) :
    ∃ c, inBkt t c i ∧ cntLt t (c + 1) ≤ i + dcnt t D c ∧ st.1.getD i 0 ∈ D ∧ sym t (st.1.getD i 0) = c := by
  obtain ⟨c, _, hb⟩ := exists_bkt t i hi
  by_cases hlt : i + dcnt t D c < cntLt t (c + 1)
  · exact absurd (h.undef c i hb hlt) hd
  · have := h.defd c i hb (by omega)
    exact ⟨c, hb, by omega, this.1, this.2⟩

theorem placeStep_eq (t : List Nat) (st : List Nat × List Nat) (p : Nat) :
    placeStep t st p =
      (st.1.set (st.2.getD (sym t p) 0) p, st.2.set (sym t p) (wrapSub1 (st.2.getD (sym t p) 0))) := rfl

theorem pinv_init (t : List Nat) (R : Nat → Nat → Prop) (hv : Valid t) :
    PInv t R [] (List.replicate t.length t.length, bEnd0 t) := by
  have hne : t ≠ [] := by
    intro h; have := hv.pos; rw [h] at this; simp at this
  have hbe : bEnd0 t = (List.range (maxSucc t)).map (fun c => cntLt t (c + 1) - 1) :=
    initBucketEnd_eq t hne hv.dense
  refine ⟨by simp, by rw [hbe]; simp, ?_, ?_, ?_, ?_, ?_, ?_⟩
  · intro c hc _
    show (bEnd0 t).getD c 0 = _
    rw [hbe, dcnt_nil]
    simp [List.getD_eq_getElem?_getD, hc]
  · intro c i hb _
    exact getD_replicate _ _ _ _ (inBkt_lt_length t c i hb)
  · intro c i hb hge
    rw [dcnt_nil] at hge; unfold inBkt at hb; omega
  · intro p hp; simp at hp
  · intro i j hij hj hdi
    exact absurd (getD_replicate _ _ _ _ (by omega)) hdi
  · intro i j hij hj hdi
    exact absurd (getD_replicate _ _ _ _ (by omega)) hdi

/-- one placement preserves the invariant -/
theorem placeStep_inv (t : List Nat) (R : Nat → Nat → Prop) (D : List Nat) (st : List Nat × List Nat) (p : Nat)
    (h : PInv t R D st) (hD : ∀ q, q ∈ D → q < t.length) (hpD : p ∉ D) (hp : p < t.length)
    (hR : ∀ q, q ∈ D → sym t p = sym t q → R p q)
    (hcnt : dcnt t D (sym t p) + 1 ≤ (Sset t (sym t p)).length) :
    PInv t R (D ++ [p]) (placeStep t st p) := by
  obtain ⟨pos, be⟩ := st
  have hlenP : pos.length = t.length := h.lenP
  have hlenB : be.length = maxSucc t := h.lenB
  have hbend : ∀ c, c < maxSucc t → dcnt t D c < cntLt t (c + 1) →
      be.getD c 0 = cntLt t (c + 1) - 1 - dcnt t D c := h.bend
  have hundef : ∀ c i, inBkt t c i → i + dcnt t D c < cntLt t (c + 1) → pos.getD i 0 = t.length := h.undef
  have hdefd : ∀ c i, inBkt t c i → cntLt t (c + 1) ≤ i + dcnt t D c →
      pos.getD i 0 ∈ D ∧ sym t (pos.getD i 0) = c := h.defd
  have hall : ∀ q, q ∈ D → ∃ i, i < t.length ∧ pos.getD i 0 = q := h.all
  have hinj : ∀ i j, i < j → j < t.length → pos.getD i 0 ≠ t.length → pos.getD j 0 ≠ t.length →
      pos.getD i 0 ≠ pos.getD j 0 := h.inj
  have hsorted : ∀ i j, i < j → j < t.length → pos.getD i 0 ≠ t.length → pos.getD j 0 ≠ t.length →
      sym t (pos.getD i 0) = sym t (pos.getD j 0) → R (pos.getD i 0) (pos.getD j 0) := h.sorted
  have hof : ∀ i, i < t.length → pos.getD i 0 ≠ t.length →
      ∃ c, inBkt t c i ∧ cntLt t (c + 1) ≤ i + dcnt t D c ∧ pos.getD i 0 ∈ D ∧ sym t (pos.getD i 0) = c :=
    h.of_def
  clear h
  have hc : sym t p < maxSucc t := sym_lt_maxSucc p hp
  have hsplit := cntLt_succ_split t (sym t p)
  have hle := cntLt_le_length t (sym t p + 1)
  have hbe := hbend _ hc (by omega)
  rw [placeStep_eq]
  show PInv t R (D ++ [p]) (pos.set (be.getD (sym t p) 0) p, be.set (sym t p) (wrapSub1 (be.getD (sym t p) 0)))
  have hs1 : ∀ c', sym t p = c' → dcnt t (D ++ [p]) c' = dcnt t D c' + 1 := fun c' => dcnt_snoc_eq t D p c'
  have hs0 : ∀ c', sym t p ≠ c' → dcnt t (D ++ [p]) c' = dcnt t D c' := fun c' => dcnt_snoc_ne t D p c'
  have hsl : ∀ c', dcnt t D c' ≤ dcnt t (D ++ [p]) c' := fun c' => dcnt_snoc_le t D p c'
  generalize hcp : sym t p = c at *
  generalize hee : be.getD c 0 = e at *
  have hen : e < t.length := by omega
  have heB : inBkt t c e := by unfold inBkt; omega
  have hpe : pos.getD e 0 = t.length := hundef c e heB (by omega)
  have hs1c := hs1 c rfl
  refine ⟨?_, ?_, ?_, ?_, ?_, ?_, ?_, ?_⟩
  · show (pos.set e p).length = t.length
    rw [List.length_set]; exact hlenP
  · show (be.set c (wrapSub1 e)).length = maxSucc t
    rw [List.length_set]; exact hlenB
  · intro c' hc' hlt
    show (be.set c (wrapSub1 e)).getD c' 0 = _
    by_cases hcc : c = c'
    · subst hcc
      rw [getD_set_eq _ _ _ _ (by omega)]
      unfold wrapSub1
      rw [if_neg (by omega)]; omega
    · rw [getD_set_ne _ _ _ _ _ hcc, hs0 c' hcc]
      rw [hs0 c' hcc] at hlt
      exact hbend c' hc' hlt
  · intro c' i hb hlt
    show (pos.set e p).getD i 0 = t.length
    by_cases hie : e = i
    · subst hie
      have := bkt_unique t c' c e hb heB
      subst this
      omega
    · rw [getD_set_ne _ _ _ _ _ hie]
      have := hsl c'
      exact hundef c' i hb (by omega)
  · intro c' i hb hge
    show (pos.set e p).getD i 0 ∈ D ++ [p] ∧ sym t ((pos.set e p).getD i 0) = c'
    by_cases hie : e = i
    · subst hie
      have := bkt_unique t c' c e hb heB
      subst this
      rw [getD_set_eq _ _ _ _ (by omega)]
      exact ⟨by simp, hcp⟩
    · rw [getD_set_ne _ _ _ _ _ hie]
      by_cases hcc : c = c'
      · subst hcc
        have := hdefd c i hb (by omega)
        exact ⟨List.mem_append_left _ this.1, this.2⟩
      · rw [hs0 c' hcc] at hge
        have := hdefd c' i hb hge
        exact ⟨List.mem_append_left _ this.1, this.2⟩
  · intro q hq
    rw [List.mem_append] at hq
    rcases hq with hq | hq
    · obtain ⟨i, hi, hiq⟩ := hall q hq
      refine ⟨i, hi, ?_⟩
      show (pos.set e p).getD i 0 = q
      have hie : e ≠ i := by
        intro hie; subst hie
        have := hD q hq
        omega
      rw [getD_set_ne _ _ _ _ _ hie]; exact hiq
    · rw [List.mem_singleton] at hq
      subst hq
      exact ⟨e, hen, getD_set_eq _ _ _ _ (by omega)⟩
  · intro i j hij hj
    show (pos.set e p).getD i 0 ≠ t.length → (pos.set e p).getD j 0 ≠ t.length →
      (pos.set e p).getD i 0 ≠ (pos.set e p).getD j 0
    by_cases hei : e = i
    · subst hei
      rw [getD_set_eq _ _ _ _ (by omega), getD_set_ne _ _ _ _ _ (by omega : e ≠ j)]
      intro _ hdj heq
      obtain ⟨_, _, _, hm, _⟩ := hof j hj hdj
      exact hpD (heq ▸ hm)
    · by_cases hej : e = j
      · subst hej
        rw [getD_set_eq _ _ _ _ (by omega), getD_set_ne _ _ _ _ _ hei]
        intro hdi _ heq
        obtain ⟨_, _, _, hm, _⟩ := hof i (by omega) hdi
        exact hpD (heq ▸ hm)
      · rw [getD_set_ne _ _ _ _ _ hei, getD_set_ne _ _ _ _ _ hej]
        exact hinj i j hij hj
  · intro i j hij hj
    show (pos.set e p).getD i 0 ≠ t.length → (pos.set e p).getD j 0 ≠ t.length →
      sym t ((pos.set e p).getD i 0) = sym t ((pos.set e p).getD j 0) →
      R ((pos.set e p).getD i 0) ((pos.set e p).getD j 0)
    by_cases hei : e = i
    · subst hei
      rw [getD_set_eq _ _ _ _ (by omega), getD_set_ne _ _ _ _ _ (by omega : e ≠ j)]
      intro _ hdj heq
      obtain ⟨_, _, _, hm, _⟩ := hof j hj hdj
      exact hR _ hm (by rw [← heq, hcp])
    · by_cases hej : e = j
      · subst hej
        rw [getD_set_eq _ _ _ _ (by omega), getD_set_ne _ _ _ _ _ hei]
        intro hdi _ heq
        exfalso
        obtain ⟨c', hb', hge', _, hs'⟩ := hof i (by omega) hdi
        have : c' = c := by rw [← hs', heq, hcp]
        subst this
        omega
      · rw [getD_set_ne _ _ _ _ _ hei, getD_set_ne _ _ _ _ _ hej]
        exact hsorted i j hij hj

/-- the loop: from the state after `D`, folding over `rest`, to the state after `D ++ rest = L` -/
theorem placeFold_inv (t : List Nat) (R : Nat → Nat → Prop) (L : List Nat)
    (hlms : ∀ p, p ∈ L → isLms (tyOf t) p = true) (hnd : L.Nodup)
    (hpw : L.Pairwise (fun q p => sym t p = sym t q → R p q)) :
    ∀ (rest D : List Nat) (st : List Nat × List Nat), D ++ rest = L → PInv t R D st →
      PInv t R L (rest.foldl (placeStep t) st) := by
  intro rest
  induction rest with
  | nil =>
    intro D st hDL h
    rw [List.append_nil] at hDL; subst hDL; exact h
  | cons p rest ih =>
    intro D st hDL h
    rw [List.foldl_cons]
    apply ih (D ++ [p]) _ (by rw [List.append_assoc]; exact hDL)
    subst hDL
    have hnd' := hnd
    rw [List.nodup_append] at hnd
    rw [List.pairwise_append] at hpw
    apply placeStep_inv t R D st p h
    · intro q hq; exact lt_of_isLms q (hlms q (by simp [hq]))
    · intro hpD; exact hnd.2.2 p hpD p (by simp) rfl
    · exact lt_of_isLms p (hlms p (by simp))
    · intro q hq; exact hpw.2.2 q hq p (by simp)
    · have h1 := dcnt_le_Sset t (D ++ p :: rest) (sym t p) hnd' hlms
      have h2 : dcnt t (D ++ p :: rest) (sym t p) = dcnt t D (sym t p) + (1 + dcnt t rest (sym t p)) := by
        rw [dcnt_append, show p :: rest = [p] ++ rest from rfl, dcnt_append, dcnt_single_eq t p _ rfl]
      omega

/-- "insert LMS positions to the end of their buckets": afterwards every LMS position sits exactly once in the S-area
of its own bucket, in the order of `lms` within a bucket; everything else is undefined (`n`). -/
theorem placeLms_spec (t : List Nat) (hv : Valid t) (R : Nat → Nat → Prop) (hR : IndRel t R)
    (lms : List Nat) (hl : LmsList t lms)
    (hinit : lms.Pairwise (fun p q => sym t p = sym t q → R p q)) :
    Placed t R (placeLms t lms (List.replicate t.length t.length) (bEnd0 t)).1 := by
  have hlms : ∀ p, p ∈ lms.reverse → isLms (tyOf t) p = true := by
    intro p hp; rw [List.mem_reverse] at hp; exact (hl.mem p).mp hp
  have hnd : lms.reverse.Nodup := by
    have := hl.nodup
    unfold List.Nodup at this ⊢
    rw [List.pairwise_reverse]
    exact this.imp (fun h => Ne.symm h)
  have hpw : lms.reverse.Pairwise (fun q p => sym t p = sym t q → R p q) := by
    rw [List.pairwise_reverse]; exact hinit
  have h := placeFold_inv t R lms.reverse hlms hnd hpw lms.reverse [] _ (List.nil_append _) (pinv_init t R hv)
  unfold placeLms
  generalize List.foldl (placeStep t) (List.replicate t.length t.length, bEnd0 t) lms.reverse = st at h ⊢
  have hofd := h.of_def
  refine ⟨h.lenP, ?_, h.inj, ?_, ?_⟩
  · intro i hi hd
    obtain ⟨c, hb, hge, hm, hs⟩ := hofd i hi hd
    have hcnt := dcnt_le_Sset t lms.reverse c hnd hlms
    have hsplit := cntLt_succ_split t c
    rw [hs]
    exact ⟨hlms _ hm, hb, by omega⟩
  · intro p hp
    exact h.all p (by rw [List.mem_reverse]; exact (hl.mem p).mpr hp)
  · intro i j hij hj hdi hdj
    obtain ⟨ci, hbi, _, hmi, hsi⟩ := hofd i (by omega) hdi
    obtain ⟨cj, hbj, _, hmj, hsj⟩ := hofd j hj hdj
    have hle := bkt_le_of_lt t ci cj i j hbi hbj hij
    by_cases heq : ci = cj
    · exact h.sorted i j hij hj hdi hdj (by rw [hsi, hsj, heq])
    · exact hR.ofSym _ _ (lt_of_isLms _ (hlms _ hmi)) (lt_of_isLms _ (hlms _ hmj)) (by rw [hsi, hsj]; omega)

end RbV.Sais
