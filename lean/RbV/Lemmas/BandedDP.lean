import RbV.Model.BandedDP
import RbV.Ref.Banded
/-! Lemmas about the mirror of banded `compute_alignment` (`RbV/Model/BandedDP.lean`): the traceback `loop` with the
fuel the model gives it can only fail to stop at a step that makes no progress, and such a step is a `usize` underflow
or a zero-length clip that is repeated forever. -/
namespace RbV.Model.BandedDP
open RbV.Align
open RbV.Model.PairwiseFill (Tb Table TbState tbStep tbLoop)

/-- measure of the traceback loop: twice the remaining symbols, plus one when the layer to be processed is not the S
field of the current cell (a zero-length clip moves from such a layer to the S field of the same cell) -/
def mu (T : Table) (st : TbState) : Nat := 2 * (st.i + st.j) + (if st.layer = T.tS st.i st.j then 0 else 1)

/-- states the loop passes through -/
inductive Reach (T : Table) : TbState → TbState → Prop
  | refl (st : TbState) : Reach T st st
  | step {a b c : TbState} : tbStep T a = some b → Reach T b c → Reach T a c

/-- a state in which the Rust text does not make progress: `i -= …` / `j -= …` would underflow (`usize`: a panic), or
the clip about to be taken has length 0 and leads back to the same layer of the same cell (the `loop` never ends: this
is how the banded aligner hung on empty sequences before /repo commit e62cffb) -/
def Stall (T : Table) (st : TbState) : Prop :=
  match st.layer with
  | .start => False
  | .ins => st.i = 0
  | .del => st.j = 0
  | .mat => st.i = 0 ∨ st.j = 0
  | .subst => st.i = 0 ∨ st.j = 0
  | .xpre => st.i = 0 ∧ T.tS 0 st.j = .xpre
  | .xsuf => (T.lx st.j = 0 ∨ st.i = 0) ∧ T.tS st.i st.j = .xsuf
  | .ypre => st.j = 0 ∧ T.tS st.i 0 = .ypre
  | .ysuf => (T.ly st.i = 0 ∨ st.j = 0) ∧ T.tS st.i st.j = .ysuf

instance (T : Table) (st : TbState) : Decidable (Stall T st) := by unfold Stall; split <;> infer_instance

/-- every step from a state that is not a `Stall` decreases the measure -/
theorem step_decreases (T : Table) (st st' : TbState) (h : tbStep T st = some st') (hs : ¬ Stall T st) :
    mu T st' < mu T st := by
  obtain ⟨i, j, layer, ops, xs, ys, xe, ye⟩ := st
  cases layer <;> simp only [tbStep, Option.some.injEq, reduceCtorEq] at h <;> subst h <;>
    simp only [Stall] at hs <;> simp only [mu]
  all_goals (try split) <;> (try split) <;> (try omega)
  all_goals first
    | omega
    | (by_cases hi : i = 0 <;> by_cases hj : j = 0 <;> by_cases hl : T.lx j = 0 <;> by_cases hl' : T.ly i = 0 <;>
        simp_all <;> omega)

theorem Reach.trans_step {T : Table} {a b c : TbState} (h1 : Reach T a b) (h2 : tbStep T b = some c) : Reach T a c := by
  induction h1 with
  | refl st => exact .step h2 (.refl _)
  | step hs _ ih => exact .step hs (ih h2)

/-- if the loop does not stop although the fuel exceeds the measure, a `Stall` state is reached -/
theorem stall_of_tbLoop_none (T : Table) : ∀ (fuel : Nat) (st : TbState), tbLoop T fuel st = none → mu T st < fuel →
    ∃ st1, Reach T st st1 ∧ Stall T st1 := by
  intro fuel
  induction fuel with
  | zero => intro st _ h; omega
  | succ fuel ih =>
    intro st hn hmu
    unfold tbLoop at hn
    split at hn
    · simp at hn
    · rename_i st' hst'
      by_cases hs : Stall T st
      · exact ⟨st, .refl _, hs⟩
      · have := step_decreases T st st' hst' hs
        obtain ⟨st1, hr, hs1⟩ := ih st' hn (by omega)
        exact ⟨st1, .step hst' hr, hs1⟩

/-- the fuel `tbFuel m n` exceeds the measure of the initial state -/
theorem mu_init_lt_fuel (T : Table) (m n : Nat) (ops : List AOp) (a b c d : Nat) (l : Tb) :
    mu T ⟨m, n, l, ops, a, b, c, d⟩ < tbFuel m n := by
  unfold mu tbFuel
  simp only
  split <;> omega

theorem isSentinel_false_of_xlen (o : Out) (h : o.xlen ≠ 0) : isSentinel o = false := by
  unfold isSentinel; cases hx : o.xlen == 0 <;> simp_all

theorem isSentinel_false_of_ylen (o : Out) (h : o.ylen ≠ 0) : isSentinel o = false := by
  unfold isSentinel; cases hx : o.ylen == 0 <;> simp_all

theorem isSentinel_false_of_score (o : Out) (h : o.score ≠ minScore) : isSentinel o = false := by
  unfold isSentinel; cases hx : o.score == minScore <;> simp_all

theorem degenerate_lens (sc : Sc) (cl : Clip) (m n : Nat) :
    (degenerate sc cl m n).xlen = m ∧ (degenerate sc cl m n).ylen = n := by
  unfold degenerate
  simp only
  repeat' split
  all_goals exact ⟨rfl, rfl⟩

/-- the table and the initial state of the traceback `loop` of the mirror -/
def tbTable (sc : Sc) (cl : Clip) (x y : List Nat) (b : Band.Band) : Table :=
  (fill sc cl x.toArray y.toArray b.ranges.toArray).table x.length y.length

def tbInit (sc : Sc) (cl : Clip) (x y : List Nat) (b : Band.Band) : TbState :=
  ⟨x.length, y.length, (tbTable sc cl x y b).tS x.length y.length, [], 0, 0, x.length, y.length⟩

end RbV.Model.BandedDP
