import RbV.Lemmas.FillWit
/-!
Soundness side of the refinement proof of `Model/PairwiseFill.lean`, part 2: the column invariant.

`MIN_SCORE` is an ordinary integer in the code, used as "no alignment ends here" (`I[·][0]`, `D[0][·]`, a freshly reset
`S[curr][i]`, the empty trackers).  Such a value may be carried along (`MIN_SCORE + gap_extend`, …, even
`MIN_SCORE + w`), so a cell either holds *junk* — a value `≤ MIN_SCORE + (i + j)·W`, `W` a bound on the substitution
scores that occur — or is justified by a witness (`FillWit.lean`): `JW`.  Both alternatives are closed under every
transition of the DP, hence under the loop bodies: `cs_all` (every cell of every column), `p1_all`, `p2_all` (the two
post-loops), `score_jw` (the reported score).  That junk cannot be the *final* score is the business of the
completeness side together with the `Sane` hypothesis (`FillFinal.lean`).
-/
namespace RbV.Model.PairwiseFill
open RbV.Align

/-- junk bound after `k` steps -/
def jb (W : Int) (k : Nat) : Int := minScore + (k : Int) * W

theorem jb_mono {W : Int} (hW : 0 ≤ W) {k k' : Nat} (h : k ≤ k') : jb W k ≤ jb W k' := by
  unfold jb
  have := Int.mul_le_mul_of_nonneg_right (Int.ofNat_le.mpr h) hW
  omega

theorem jb_succ (W : Int) (k : Nat) : jb W (k + 1) = jb W k + W := by
  unfold jb; push_cast; rw [Int.add_mul]; omega

/-- the side conditions of the refinement: non-positive gap and clip penalties, `W ≥ 0` bounds the substitution
scores of the symbol pairs that occur -/
structure Hyp (sc : Sc) (cl : Clip) (x y : List Nat) (W : Int) : Prop where
  go : sc.go ≤ 0
  ge : sc.ge ≤ 0
  xp : cl.xp ≤ 0
  xs : cl.xs ≤ 0
  yp : cl.yp ≤ 0
  ys : cl.ys ≤ 0
  W0 : 0 ≤ W
  wle : ∀ i j, i < x.length → j < y.length → sc.w (x.getD i 0) (y.getD j 0) ≤ W

section
variable (sc : Sc) (cl : Clip) (x y : List Nat) (W : Int)

/-- junk or witnessed -/
def JW (L : St) (i j : Nat) (v : Int) : Prop := v ≤ jb W (i + j) ∨ Wit sc cl x y L i j v

variable {sc cl x y W}

theorem jw_min (hW : 0 ≤ W) (L : St) (i j : Nat) : JW sc cl x y W L i j minScore := by
  left
  have := jb_mono hW (Nat.zero_le (i + j))
  simp [jb] at this ⊢
  omega

theorem jw_wit {L : St} {i j : Nat} {v : Int} (h : Wit sc cl x y L i j v) : JW sc cl x y W L i j v := Or.inr h

theorem jw_mono {L : St} {i j : Nat} {v v' : Int} (h : JW sc cl x y W L i j v) (hv : v' ≤ v) :
    JW sc cl x y W L i j v' := by
  rcases h with h | h
  · left; omega
  · right; exact wit_mono h hv

theorem jw_none {L : St} {i j : Nat} {v : Int} (h : JW sc cl x y W L i j v) : JW sc cl x y W .none i j v := by
  rcases h with h | h
  · left; exact h
  · right; exact wit_none h

theorem jw_cast_i {L : St} {i i' j : Nat} {v : Int} (e : i = i') (h : JW sc cl x y W L i j v) :
    JW sc cl x y W L i' j v := e ▸ h

theorem jw_cast_j {L : St} {i j j' : Nat} {v : Int} (e : j = j') (h : JW sc cl x y W L i j v) :
    JW sc cl x y W L i j' v := e ▸ h

theorem jw_max {L : St} {i j : Nat} {a b : Int} (ha : JW sc cl x y W L i j a) (hb : JW sc cl x y W L i j b) :
    JW sc cl x y W L i j (max a b) := by
  rcases Int.le_total a b with h | h
  · rw [Int.max_eq_right h]; exact hb
  · rw [Int.max_eq_left h]; exact ha

theorem jw_ins_open (H : Hyp sc cl x y W) {L : St} {i j : Nat} {v : Int} (h : JW sc cl x y W L i j v)
    (hi : i < x.length) : JW sc cl x y W .ins (i + 1) j (v + sc.go + sc.ge) := by
  rcases h with h | h
  · left
    have := jb_mono H.W0 (show i + j ≤ i + 1 + j by omega)
    have := H.go; have := H.ge
    omega
  · right; exact wit_ins_open H.go h hi

theorem jw_ins_ext (H : Hyp sc cl x y W) {i j : Nat} {v : Int} (h : JW sc cl x y W .ins i j v)
    (hi : i < x.length) : JW sc cl x y W .ins (i + 1) j (v + sc.ge) := by
  rcases h with h | h
  · left
    have := jb_mono H.W0 (show i + j ≤ i + 1 + j by omega)
    have := H.ge
    omega
  · right; exact wit_ins_ext h hi

theorem jw_del_open (H : Hyp sc cl x y W) {L : St} {i j : Nat} {v : Int} (h : JW sc cl x y W L i j v)
    (hj : j < y.length) : JW sc cl x y W .del i (j + 1) (v + sc.go + sc.ge) := by
  rcases h with h | h
  · left
    have := jb_mono H.W0 (show i + j ≤ i + (j + 1) by omega)
    have := H.go; have := H.ge
    omega
  · right; exact wit_del_open H.go h hj

theorem jw_del_ext (H : Hyp sc cl x y W) {i j : Nat} {v : Int} (h : JW sc cl x y W .del i j v)
    (hj : j < y.length) : JW sc cl x y W .del i (j + 1) (v + sc.ge) := by
  rcases h with h | h
  · left
    have := jb_mono H.W0 (show i + j ≤ i + (j + 1) by omega)
    have := H.ge
    omega
  · right; exact wit_del_ext h hj

theorem jw_diag (H : Hyp sc cl x y W) {L : St} {i j : Nat} {v : Int} (h : JW sc cl x y W L i j v)
    (hi : i < x.length) (hj : j < y.length) :
    JW sc cl x y W .none (i + 1) (j + 1) (v + sc.w (x.getD i 0) (y.getD j 0)) := by
  rcases h with h | h
  · left
    have h1 := jb_succ W (i + j)
    have h2 := jb_mono H.W0 (show i + j + 1 ≤ i + 1 + (j + 1) by omega)
    have := H.wle i j hi hj
    omega
  · right; exact wit_diag h hi hj

theorem jw_xsuf (H : Hyp sc cl x y W) {L : St} {i j : Nat} {v : Int} (h : JW sc cl x y W L i j v)
    (hi : i < x.length) : JW sc cl x y W .none x.length j (v + cl.xs) := by
  rcases h with h | h
  · left
    have := jb_mono H.W0 (show i + j ≤ x.length + j by omega)
    have := H.xs
    omega
  · right; exact wit_xsuf h hi

theorem jw_ysuf (H : Hyp sc cl x y W) {L : St} {i j : Nat} {v : Int} (h : JW sc cl x y W L i j v)
    (hj : j ≤ y.length) : JW sc cl x y W .none i y.length (v + cl.ys) := by
  rcases h with h | h
  · left
    have := jb_mono H.W0 (show i + j ≤ i + y.length by omega)
    have := H.ys
    omega
  · right; exact wit_ysuf H.ys h

/-! ### closed-form candidates -/

/-- `gap_open + gap_extend * i`: insert the first `i` symbols of `x` -/
theorem wit_all_ins (H : Hyp sc cl x y W) (i : Nat) (hi : i + 1 ≤ x.length) :
    Wit sc cl x y .ins (i + 1) 0 (sc.go + sc.ge * ((i : Int) + 1)) := by
  have h0 : Wit sc cl x y .none 0 0 (pre cl 0 0) := wit_pre (Nat.zero_le _) (Nat.zero_le _)
  have := wit_ins_chain H.go h0 i (by omega)
  simp only [Nat.zero_add] at this
  exact wit_mono this (by simp [pre])

/-- `xclip_prefix + gap_open + gap_extend`: clip `i ≥ 1` symbols, insert one -/
theorem wit_clip_ins (H : Hyp sc cl x y W) (i : Nat) (hi : i + 1 + 1 ≤ x.length) :
    Wit sc cl x y .ins (i + 1 + 1) 0 (cl.xp + sc.go + sc.ge) := by
  have h0 : Wit sc cl x y .none (i + 1) 0 (pre cl (i + 1) 0) := wit_pre (by omega) (Nat.zero_le _)
  have := wit_ins_open H.go h0 (by omega)
  exact wit_mono this (by simp [pre])

theorem jw_iv0 (H : Hyp sc cl x y W) (i : Nat) (hi : i + 1 ≤ x.length) :
    JW sc cl x y W .ins (i + 1) 0 (iv0 sc cl (i + 1)) := by
  unfold iv0
  split
  · have := wit_all_ins H i hi
    have e : i = 0 := by omega
    subst e
    exact jw_wit (wit_mono this (by simp))
  · rename_i hne
    obtain ⟨k, rfl⟩ : ∃ k, i = k + 1 := ⟨i - 1, by omega⟩
    refine jw_max (jw_wit (wit_mono (wit_all_ins H (k + 1) hi) ?_)) (jw_wit (wit_clip_ins H k hi))
    push_cast; omega

theorem wit_all_del (H : Hyp sc cl x y W) (j : Nat) (hj : j + 1 ≤ y.length) :
    Wit sc cl x y .del 0 (j + 1) (sc.go + sc.ge * ((j : Int) + 1)) := by
  have h0 : Wit sc cl x y .none 0 0 (pre cl 0 0) := wit_pre (Nat.zero_le _) (Nat.zero_le _)
  have := wit_del_chain H.go h0 j (by omega)
  simp only [Nat.zero_add] at this
  exact wit_mono this (by simp [pre])

theorem wit_clip_del (H : Hyp sc cl x y W) (j : Nat) (hj : j + 1 + 1 ≤ y.length) :
    Wit sc cl x y .del 0 (j + 1 + 1) (cl.yp + sc.go + sc.ge) := by
  have h0 : Wit sc cl x y .none 0 (j + 1) (pre cl 0 (j + 1)) := wit_pre (Nat.zero_le _) (by omega)
  have := wit_del_open H.go h0 (by omega)
  exact wit_mono this (by simp [pre])

theorem jw_dv0 (H : Hyp sc cl x y W) (j : Nat) (hj : j + 1 ≤ y.length) :
    JW sc cl x y W .del 0 (j + 1) (dv0 sc cl (j + 1)) := by
  unfold dv0
  split
  · have := wit_all_del H j hj
    have e : j = 0 := by omega
    subst e
    exact jw_wit (wit_mono this (by simp))
  · rename_i hne
    obtain ⟨k, rfl⟩ : ∃ k, j = k + 1 := ⟨j - 1, by omega⟩
    refine jw_max (jw_wit (wit_mono (wit_all_del H (k + 1) hj) ?_)) (jw_wit (wit_clip_del H k hj))
    push_cast; omega

/-- `xclip_score`: clip `x[0..i]`, then clip or delete `y[0..j]` -/
theorem jw_xclip (H : Hyp sc cl x y W) (i j : Nat) (hi : i + 1 ≤ x.length) (hj : j + 1 ≤ y.length) :
    JW sc cl x y W .none (i + 1) (j + 1) (cl.xp + max cl.yp (sc.go + sc.ge * (((j + 1 : Nat) : Int)))) := by
  have e : cl.xp + max cl.yp (sc.go + sc.ge * (((j + 1 : Nat) : Int))) =
      max (cl.xp + cl.yp) (cl.xp + sc.go + sc.ge * ((j : Int) + 1)) := by push_cast; omega
  rw [e]
  refine jw_max (jw_wit (wit_mono (wit_pre (i := i + 1) (j := j + 1) (by omega) (by omega)) (by simp [pre]))) ?_
  have h0 : Wit sc cl x y .none (i + 1) 0 (pre cl (i + 1) 0) := wit_pre (by omega) (Nat.zero_le _)
  have := wit_del_chain H.go h0 j (by omega)
  simp only [Nat.zero_add] at this
  exact jw_wit (wit_none (wit_mono this (by simp [pre])))

/-- `yclip_score`: clip `y[0..j]`, insert `x[0..i]` -/
theorem jw_yclip (H : Hyp sc cl x y W) (i j : Nat) (hi : i + 1 ≤ x.length) (hj : j + 1 ≤ y.length) :
    JW sc cl x y W .none (i + 1) (j + 1) (cl.yp + sc.go + sc.ge * (((i + 1 : Nat) : Int))) := by
  have h0 : Wit sc cl x y .none 0 (j + 1) (pre cl 0 (j + 1)) := wit_pre (Nat.zero_le _) (by omega)
  have := wit_ins_chain H.go h0 i (by omega)
  simp only [Nat.zero_add] at this
  exact jw_wit (wit_none (wit_mono this (by simp [pre])))

/-! ### the cell invariant -/

variable (sc cl x y W)

/-- what is known about row `i` of column `j` (`sn` lives in column `n`, `xm` in row `m`) -/
structure CS (j i : Nat) (r : Row) : Prop where
  S : JW sc cl x y W .none i j r.s
  I : JW sc cl x y W .ins i j r.i
  D : JW sc cl x y W .del i j r.d
  Sn : JW sc cl x y W .none i y.length r.sn
  Xm : JW sc cl x y W .none x.length j r.xm

variable {sc cl x y W}

theorem cs_row00 (H : Hyp sc cl x y W) : CS sc cl x y W 0 0 (row00 cl x y) := by
  have h0 : Wit sc cl x y .none 0 0 0 := wit_mono (wit_pre (Nat.zero_le _) (Nat.zero_le _)) (by simp [pre])
  refine ⟨jw_wit h0, jw_min H.W0 _ _ _, jw_min H.W0 _ _ _, ?_, ?_⟩
  · have := jw_ysuf (W := W) H (jw_wit h0) (Nat.zero_le _)
    simpa [row00] using this
  · simp only [row00]
    split
    · rename_i hm; rw [hm]; exact jw_wit h0
    · exact jw_min H.W0 _ _ _

theorem cs_step0 (H : Hyp sc cl x y W) (i : Nat) (hi : i + 1 ≤ x.length) (r : Row)
    (hr : CS sc cl x y W 0 i r) : CS sc cl x y W 0 (i + 1) (step0 sc cl x y (i + 1) r) := by
  rw [step0_eq]
  have hiv := jw_iv0 H i hi
  have hxp : JW sc cl x y W .none (i + 1) 0 cl.xp :=
    jw_wit (wit_mono (wit_pre (i := i + 1) (j := 0) (by omega) (Nat.zero_le _)) (by simp [pre]))
  have hbase : JW sc cl x y W .none (i + 1) 0 (if i + 1 = x.length then r.xm else minScore) := by
    split
    · rename_i hm; exact jw_cast_i hm.symm hr.Xm
    · exact jw_min H.W0 _ _ _
  have hs2 := jw_max hxp (jw_max (jw_none hiv) hbase)
  refine ⟨hs2, hiv, jw_min H.W0 _ _ _, jw_max (jw_ysuf H hs2 (Nat.zero_le _)) (jw_min H.W0 _ _ _), ?_⟩
  dsimp only
  by_cases hm : i + 1 = x.length
  · rw [if_pos hm]; exact jw_cast_i hm hs2
  · rw [if_neg hm]; exact jw_max (jw_xsuf H hs2 (by omega)) hr.Xm

theorem cs_rowJ0 (H : Hyp sc cl x y W) (j : Nat) (hj : j + 1 ≤ y.length) (p0 : Row)
    (hp : CS sc cl x y W j 0 p0) : CS sc cl x y W (j + 1) 0 (rowJ0 sc cl x y (j + 1) p0) := by
  rw [rowJ0_eq]
  have hdv := jw_dv0 H j hj
  have hyp : JW sc cl x y W .none 0 (j + 1) cl.yp :=
    jw_wit (wit_mono (wit_pre (i := 0) (j := j + 1) (Nat.zero_le _) (by omega)) (by simp [pre]))
  have hs0 := jw_max (jw_none hdv) hyp
  have hs0' : JW sc cl x y W .none 0 (j + 1)
      (if j + 1 = y.length ∧ p0.sn > max (dv0 sc cl (j + 1)) cl.yp then p0.sn else max (dv0 sc cl (j + 1)) cl.yp) := by
    split
    · rename_i hc; have := hp.Sn; rw [← hc.1] at this; exact this
    · exact hs0
  refine ⟨hs0', jw_min H.W0 _ _ _, hdv, ?_, ?_⟩
  · dsimp only
    split
    · exact hp.Sn
    · exact jw_max (jw_ysuf H hs0 hj) hp.Sn
  · dsimp only
    split
    · rename_i hm; rw [hm]; exact hs0'
    · exact jw_min H.W0 _ _ _

theorem cs_stepJ (H : Hyp sc cl x y W) (j i : Nat) (hj : j + 1 ≤ y.length) (hi : i + 1 ≤ x.length)
    (prev : List Row) (r : Row)
    (hp1 : CS sc cl x y W j i (prev.getD i default)) (hp : CS sc cl x y W j (i + 1) (prev.getD (i + 1) default))
    (hr : CS sc cl x y W (j + 1) i r) :
    CS sc cl x y W (j + 1) (i + 1) (stepJ sc cl x y (j + 1) prev (i + 1) r) := by
  rw [stepJ_eq]
  have hbi : JW sc cl x y W .ins (i + 1) (j + 1) (bestI sc r) :=
    jw_max (jw_ins_ext H hr.I (by omega)) (jw_ins_open H hr.S (by omega))
  have hbd : JW sc cl x y W .del (i + 1) (j + 1) (bestD sc (prev.getD (i + 1) default)) :=
    jw_max (jw_del_ext H hp.D (by omega)) (jw_del_open H hp.S (by omega))
  have hb0 : JW sc cl x y W .none (i + 1) (j + 1) (if i + 1 = x.length then r.xm else minScore) := by
    split
    · rename_i hm; have := hr.Xm; rw [← hm] at this; exact this
    · exact jw_min H.W0 _ _ _
  have hb5 : JW sc cl x y W .none (i + 1) (j + 1) (bestS sc cl x y (j + 1) prev (i + 1) r) := by
    unfold bestS
    refine jw_max (jw_yclip H i j hi hj) (jw_max (jw_xclip H i j hi hj) (jw_max (jw_none hbd) (jw_max (jw_none hbi)
      (jw_max ?_ hb0))))
    simp only [Nat.add_sub_cancel]
    exact jw_diag H hp1.S (by omega) (by omega)
  have hxm2 : JW sc cl x y W .none x.length (j + 1)
      (max (bestS sc cl x y (j + 1) prev (i + 1) r + cl.xs)
        (if i + 1 = x.length then bestS sc cl x y (j + 1) prev (i + 1) r else r.xm)) := by
    by_cases hm : i + 1 = x.length
    · rw [if_pos hm]
      have : JW sc cl x y W .none x.length (j + 1) (bestS sc cl x y (j + 1) prev (i + 1) r) := by
        rw [← hm]; exact hb5
      exact jw_max (jw_mono this (by have := H.xs; omega)) this
    · rw [if_neg hm]
      exact jw_max (jw_xsuf H hb5 (by omega)) hr.Xm
  have hs : JW sc cl x y W .none (i + 1) (j + 1)
      (if i + 1 = x.length then
        max (bestS sc cl x y (j + 1) prev (i + 1) r + cl.xs)
          (if i + 1 = x.length then bestS sc cl x y (j + 1) prev (i + 1) r else r.xm)
       else bestS sc cl x y (j + 1) prev (i + 1) r) := by
    by_cases hm : i + 1 = x.length
    · rw [if_pos hm]
      have := hxm2
      rw [← hm] at this
      rw [hm] at this ⊢
      exact this
    · rw [if_neg hm]; exact hb5
  exact ⟨hs, hbi, hbd, jw_max (jw_ysuf H hs hj) hp.Sn, hxm2⟩

/-- **column invariant, soundness side**: every cell of every column is junk or witnessed -/
theorem cs_all (H : Hyp sc cl x y W) : ∀ j, j ≤ y.length → ∀ i, i ≤ x.length →
    CS sc cl x y W j i (cell sc cl x y j i) := by
  intro j
  induction j with
  | zero =>
    intro _ i
    induction i with
    | zero => intro _; rw [cell_zero_zero]; exact cs_row00 H
    | succ i ih => intro hi; rw [cell_zero_succ _ _ _ _ _ hi]; exact cs_step0 H i hi _ (ih (by omega))
  | succ j ihj =>
    intro hj i
    induction i with
    | zero => intro _; rw [cell_succ_zero]; exact cs_rowJ0 H j hj _ (ihj (by omega) 0 (Nat.zero_le _))
    | succ i ih =>
      intro hi
      rw [cell_succ_succ _ _ _ _ _ _ hi]
      exact cs_stepJ H j i hj hi _ _ (ihj (by omega) i (by omega)) (ihj (by omega) (i + 1) hi) (ih (by omega))

/-! ### the post-loops -/

variable (sc cl x y W)

structure PS (i : Nat) (p : PSt) : Prop where
  S : JW sc cl x y W .none i y.length p.s
  Xm : JW sc cl x y W .none x.length y.length p.xm

variable {sc cl x y W}

theorem ps_post1Step (H : Hyp sc cl x y W) (col : List Row) (i : Nat) (hi : i ≤ x.length) (p : PSt)
    (hc : CS sc cl x y W y.length i (col.getD i default))
    (hxm : JW sc cl x y W .none x.length y.length p.xm) : PS sc cl x y W i (post1Step cl x col i p) := by
  rw [post1Step_eq]
  dsimp only
  by_cases hm : i = x.length
  · subst hm
    simp only [if_true]
    have h2 := jw_max hc.Sn hxm
    have h3 := jw_max (jw_mono h2 (show max (col.getD x.length default).sn p.xm + cl.xs ≤ _ by have := H.xs; omega)) h2
    exact ⟨h3, h3⟩
  · simp only [if_neg hm]
    have hs1 := jw_max hc.Sn hc.S
    exact ⟨hs1, jw_max (jw_xsuf H hs1 (by omega)) hxm⟩

theorem p1_all (H : Hyp sc cl x y W) : ∀ i, i ≤ x.length →
    PS sc cl x y W i ((post1 cl x (colAt sc cl x y y.length)).getD i default) := by
  have hc := cs_all H y.length (Nat.le_refl _)
  intro i
  induction i with
  | zero =>
    intro _
    rw [post1_getD_zero]
    exact ps_post1Step H _ 0 (Nat.zero_le _) _ (hc 0 (Nat.zero_le _)) (hc x.length (Nat.le_refl _)).Xm
  | succ i ih =>
    intro hi
    rw [post1_getD_succ _ _ _ _ hi]
    exact ps_post1Step H _ (i + 1) hi _ (hc (i + 1) hi) (ih (by omega)).Xm

theorem ps_post2Step (H : Hyp sc cl x y W) (s1 : List PSt) (i : Nat) (hi : i + 1 ≤ x.length) (p : PSt)
    (h1 : PS sc cl x y W (i + 1) (s1.getD (i + 1) default)) (hp : PS sc cl x y W i p) :
    PS sc cl x y W (i + 1) (post2Step sc cl x s1 (i + 1) p) := by
  unfold post2Step
  have hss : JW sc cl x y W .none (i + 1) y.length (p.s + sc.go + sc.ge) := jw_none (jw_ins_open H hp.S (by omega))
  dsimp only
  by_cases hm : i + 1 = x.length
  · simp only [if_pos hm, upd_eq_max]
    split
    · have h2 : JW sc cl x y W .none x.length y.length (p.s + sc.go + sc.ge) := by rw [← hm]; exact hss
      have h3 := jw_max (jw_mono h2 (show p.s + sc.go + sc.ge + cl.xs ≤ _ by have := H.xs; omega)) h2
      refine ⟨?_, h3⟩
      rw [hm]; exact h3
    · refine ⟨?_, hp.Xm⟩
      rw [hm]; exact hp.Xm
  · simp only [if_neg hm, upd_eq_max]
    split
    · exact ⟨hss, jw_max (jw_xsuf H hss (by omega)) hp.Xm⟩
    · exact ⟨h1.S, hp.Xm⟩

theorem p2_all (H : Hyp sc cl x y W) : ∀ i, i ≤ x.length →
    PS sc cl x y W i ((post2 sc cl x (post1 cl x (colAt sc cl x y y.length))).getD i default) := by
  have h1 := p1_all H
  intro i
  induction i with
  | zero =>
    intro _
    rw [post2_getD_zero]
    exact ⟨(h1 0 (Nat.zero_le _)).S, (h1 x.length (Nat.le_refl _)).Xm⟩
  | succ i ih =>
    intro hi
    rw [post2_getD_succ _ _ _ _ _ hi]
    exact ps_post2Step H _ i hi _ (h1 (i + 1) hi) (ih (by omega))

/-- the reported score is junk or the value of a real alignment -/
theorem score_jw (H : Hyp sc cl x y W) :
    JW sc cl x y W .none x.length y.length (fill sc cl x y).score := by
  rw [fill_score]
  exact (p2_all H x.length (Nat.le_refl _)).Xm

end

end RbV.Model.PairwiseFill
