import RbV.Model.UniWs
/-!
# Without lead bytes of non-ASCII white space the Unicode text functions are the ASCII ones  (C11)
-/
namespace RbV.Fastx

theorem uws2_nolead {b0 : Nat} (h : isUwsLead b0 = false) (b1 : Nat) : uws2 b0 b1 = false := by
  simp only [isUwsLead, Bool.or_eq_false_iff, beq_eq_false_iff_ne] at h
  simp [uws2, h.1.1.1]

theorem uws3_nolead {b0 : Nat} (h : isUwsLead b0 = false) (b1 b2 : Nat) : uws3 b0 b1 b2 = false := by
  simp only [isUwsLead, Bool.or_eq_false_iff, beq_eq_false_iff_ne] at h
  simp [uws3, h.1.1.2, h.1.2, h.2]

theorem allWsU_eq (l : Bytes) (h : NoUws l) : allWsU l = l.all isWs := by
  induction l with
  | nil => rfl
  | cons b r ih =>
    have hb := h b (by simp)
    have ih' := ih fun x hx => h x (List.mem_cons_of_mem _ hx)
    unfold allWsU
    cases hw : isWs b with
    | true => simp only [if_true, List.all_cons, hw, Bool.true_and, ih']
    | false =>
      simp only [Bool.false_eq_true, if_false, List.all_cons, hw, Bool.false_and]
      cases r with
      | nil => rfl
      | cons b1 r1 =>
        simp only [uws2_nolead hb, Bool.false_eq_true, if_false]
        cases r1 with
        | nil => rfl
        | cons b2 r2 => simp [uws3_nolead hb]

theorem trimEnd_eq_nil_iff (l : Bytes) : trimEnd l = [] ↔ l.all isWs = true := by
  induction l with
  | nil => simp [trimEnd]
  | cons b r ih =>
    simp only [trimEnd, List.all_cons, Bool.and_eq_true]
    constructor
    · intro h
      split at h
      · rename_i hc
        simp only [Bool.and_eq_true, List.isEmpty_iff] at hc
        exact ⟨hc.2, ih.mp hc.1⟩
      · cases h
    · intro ⟨h1, h2⟩
      simp [ih.mpr h2, h1]

theorem trimEndU_eq (l : Bytes) (h : NoUws l) : trimEndU l = trimEnd l := by
  induction l with
  | nil => rfl
  | cons b r ih =>
    have ih' := ih fun x hx => h x (List.mem_cons_of_mem _ hx)
    unfold trimEndU
    rw [allWsU_eq _ h]
    cases hall : (b :: r).all isWs with
    | true => simp [(trimEnd_eq_nil_iff _).mpr hall]
    | false =>
      simp only [Bool.false_eq_true, if_false, ih']
      simp only [List.all_cons] at hall
      simp only [trimEnd]
      split
      · rename_i hc
        simp only [Bool.and_eq_true, List.isEmpty_iff] at hc
        have := (trimEnd_eq_nil_iff r).mp hc.1
        simp [hc.2, this] at hall
      · rfl

theorem wsLenU_eq (b : Nat) (r : Bytes) (hb : isUwsLead b = false) :
    wsLenU (b :: r) = if isWs b then 1 else 0 := by
  unfold wsLenU
  by_cases hw : isWs b = true
  · simp only [hw, if_true]
  · simp only [hw, if_false]
    cases r with
    | nil => rfl
    | cons b1 r1 =>
      simp only [uws2_nolead hb, Bool.false_eq_true, if_false]
      cases r1 with
      | nil => rfl
      | cons b2 r2 => simp [uws3_nolead hb]

theorem splitWsU_eq (l : Bytes) (h : NoUws l) : splitWsU l = splitn2 isWs l := by
  induction l with
  | nil => rfl
  | cons b r ih =>
    have hb := h b (by simp)
    have ih' := ih fun x hx => h x (List.mem_cons_of_mem _ hx)
    unfold splitWsU
    rw [wsLenU_eq b r hb]
    cases hw : isWs b with
    | true => simp [splitn2, List.takeWhile, List.dropWhile, hw]
    | false =>
      simp only [Bool.false_eq_true, if_false, if_true, ih']
      simp [splitn2, List.takeWhile, List.dropWhile, hw]

theorem NoUws.tail {l : Bytes} (h : NoUws l) : NoUws l.tail := fun b hb => h b (List.mem_of_mem_tail hb)

theorem trimEnd_subset (l : Bytes) : ∀ b ∈ trimEnd l, b ∈ l := by
  induction l with
  | nil => simp [trimEnd]
  | cons c r ih =>
    intro b hb
    simp only [trimEnd] at hb
    split at hb
    · cases hb
    · rcases List.mem_cons.mp hb with rfl | hb'
      · simp
      · exact List.mem_cons_of_mem _ (ih b hb')

theorem faHeaderU_eq (l : Bytes) (h : NoUws l) : faHeaderU l = faHeader l := by
  unfold faHeaderU faHeader
  rw [trimEndU_eq _ h.tail]
  exact splitWsU_eq _ fun b hb => h.tail b (trimEnd_subset _ b hb)

theorem fqHeaderU_eq (l : Bytes) (h : NoUws l) : fqHeaderU l = fqHeader l := by
  unfold fqHeaderU fqHeader
  rw [trimEndU_eq _ h.tail]

/-- `T` computes on the line `l` what the list models compute -/
def Txt.AgreesOn (T : Txt) (l : Bytes) : Prop := T.trim l = trimEnd l ∧ T.faHdr l = faHeader l ∧ T.fqHdr l = fqHeader l

theorem Txt.ascii_agrees (l : Bytes) : Txt.ascii.AgreesOn l := ⟨rfl, rfl, rfl⟩

theorem Txt.unicode_agrees (l : Bytes) (h : NoUws l) : Txt.unicode.AgreesOn l :=
  ⟨trimEndU_eq l h, faHeaderU_eq l h, fqHeaderU_eq l h⟩

end RbV.Fastx
