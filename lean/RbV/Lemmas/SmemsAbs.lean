import RbV.Lemmas.SmemsLoop
/-!
# Correctness of the string-level sweep from two laws of occurrence counts (C06)

`c b e` stands for the number of occurrences of `pattern[b..e)`.  All the sweep needs to know about it:

* `anti`   — a substring occurs at least as often as any string containing it;
* `closed` — if `pattern[b..e)` and its extension `pattern[b..e')` occur equally often (every occurrence of the shorter
             is followed by the rest), the same holds after prepending `pattern[b'..b)` to both.

`smems_abs_correct`: under these laws the string-level sweep started at `i` returns exactly the pairs `(b, len)` that
are supermaximal in the sense of `c` (`AbsSmem`), cover `i` and have `len ≥ l`.
-/
namespace RbV.SmemModel
open RbV

structure CountLaws (c : Nat → Nat → Nat) (m : Nat) : Prop where
  anti : ∀ b' b e e', b' ≤ b → b < e → e ≤ e' → e' ≤ m → c b' e' ≤ c b e
  closed : ∀ b' b e e', b' ≤ b → b < e → e ≤ e' → e' ≤ m → c b e = c b e' → c b' e = c b' e'

/-- supermaximal in terms of the counts: occurs, and neither one-symbol extension exists-and-occurs -/
def AbsSmem (c : Nat → Nat → Nat) (m b len : Nat) : Prop :=
  0 < len ∧ b + len ≤ m ∧ c b (b + len) ≠ 0 ∧ (b = 0 ∨ c (b - 1) (b + len) = 0) ∧
  (b + len = m ∨ c b (b + len + 1) = 0)

@[simp] theorem strOps_size (c : Nat → Nat → Nat) (p : Nat × Nat) : (strOps c).size p = c p.1 p.2 := rfl
@[simp] theorem strOps_bwd (c : Nat → Nat → Nat) (p : Nat × Nat) (a : Nat) : (strOps c).bwd p a = (p.1 - 1, p.2) := rfl
@[simp] theorem strOps_fwd (c : Nat → Nat → Nat) (p : Nat × Nat) (a : Nat) : (strOps c).fwd p a = (p.1, p.2 + 1) := rfl
@[simp] theorem strOps_init (c : Nat → Nat → Nat) (i a : Nat) : (strOps c).initWith i a = (i, i + 1) := rfl

/-! ### facts about `dedup` -/

section dedup
variable {ι : Type} (ops : Ops ι)

theorem dedup_size_ne : ∀ (xs : List (ι × Nat)) (last : Int), ∀ x ∈ dedup ops last xs, ops.size x.1 ≠ 0
  | [], _, x, hx => by simp [dedup] at hx
  | (f, ml) :: rest, last, x, hx => by
    unfold dedup at hx
    split at hx
    · rename_i hp
      rw [List.mem_cons] at hx
      rcases hx with rfl | hx
      · simp only [Bool.and_eq_true, bne_iff_ne, ne_eq] at hp
        exact hp.1
      · exact dedup_size_ne rest _ x hx
    · exact dedup_size_ne rest _ x hx

/-- every non-empty interval is kept or has the size of a kept interval that stands before it -/
theorem dedup_repr (x : ι × Nat) (l2 : List (ι × Nat)) (hx : ops.size x.1 ≠ 0) :
    ∀ (l1 : List (ι × Nat)) (last : Int),
      (ops.size x.1 : Int) = last ∨
      ∃ y ∈ dedup ops last (l1 ++ x :: l2), ops.size y.1 = ops.size x.1 ∧ (y = x ∨ y ∈ l1)
  | [], last => by
    by_cases h : (ops.size x.1 : Int) = last
    · exact Or.inl h
    · right
      refine ⟨x, ?_, rfl, Or.inl rfl⟩
      obtain ⟨f, ml⟩ := x
      simp only [List.nil_append, dedup]
      have hp : (ops.size f != 0 && (ops.size f : Int) != last) = true := by
        simp only [Bool.and_eq_true, bne_iff_ne, ne_eq]; exact ⟨hx, h⟩
      rw [if_pos hp]; simp
  | z :: l1, last => by
    obtain ⟨f, ml⟩ := z
    simp only [List.cons_append, dedup]
    by_cases hp : (ops.size f != 0 && (ops.size f : Int) != last) = true
    · rw [if_pos hp]
      right
      rcases dedup_repr x l2 hx l1 (ops.size f) with h | ⟨y, hy, hs, hyx⟩
      · refine ⟨(f, ml), by simp, ?_, Or.inr (by simp)⟩
        have : ops.size x.1 = ops.size f := by omega
        exact this.symm
      · refine ⟨y, List.mem_cons_of_mem _ hy, hs, ?_⟩
        rcases hyx with h | h
        · exact Or.inl h
        · exact Or.inr (List.mem_cons_of_mem _ h)
    · rw [if_neg hp]
      rcases dedup_repr x l2 hx l1 last with h | ⟨y, hy, hs, hyx⟩
      · exact Or.inl h
      · right
        refine ⟨y, hy, hs, ?_⟩
        rcases hyx with h | h
        · exact Or.inl h
        · exact Or.inr (List.mem_cons_of_mem _ h)

end dedup

/-! ### the invariant of the backward sweep -/

section abs
variable {c : Nat → Nat → Nat} {m : Nat} (hc : CountLaws c m) (i l : Nat)

/-- the candidate list at the start of round `k = kk - 1`: intervals `(kk, e)` with their lengths, `e` decreasing;
every occurring `pattern[kk..e)` (`e > i`) is represented by a candidate `e' ≥ e` with the same count -/
structure Inv (c : Nat → Nat → Nat) (m i kk : Nat) (prev : List ((Nat × Nat) × Nat)) : Prop where
  shape : ∀ x ∈ prev, x.1.1 = kk ∧ i < x.1.2 ∧ x.1.2 ≤ m ∧ x.2 = x.1.2 - kk ∧ c kk x.1.2 ≠ 0
  sorted : (prev.map (·.1.2)).Pairwise (· ≥ ·)
  complete : ∀ e, i < e → e ≤ m → c kk e ≠ 0 → ∃ x ∈ prev, e ≤ x.1.2 ∧ c kk e = c kk x.1.2

variable {i}

theorem Inv.mls_sorted {kk : Nat} {prev : List ((Nat × Nat) × Nat)} (h : Inv c m i kk prev) :
    (prev.map (·.2)).Pairwise (· ≥ ·) := by
  have hs := h.sorted
  rw [List.pairwise_map] at hs ⊢
  refine hs.imp_of_mem ?_
  intro a b ha hb hab
  have h1 := h.shape a ha
  have h2 := h.shape b hb
  omega

theorem Inv.head_max {kk : Nat} {x : (Nat × Nat) × Nat} {rest : List ((Nat × Nat) × Nat)}
    (h : Inv c m i kk (x :: rest)) : ∀ y ∈ x :: rest, y.1.2 ≤ x.1.2 := by
  intro y hy
  have hs := h.sorted
  simp only [List.map_cons, List.pairwise_cons] at hs
  rw [List.mem_cons] at hy
  rcases hy with rfl | hy
  · exact Nat.le_refl _
  · exact hs.1 _ (List.mem_map_of_mem (f := fun z : (Nat × Nat) × Nat => z.1.2) hy)

/-- the first candidate cannot be extended to the right -/
theorem Inv.head_rmax {kk : Nat} {x : (Nat × Nat) × Nat} {rest : List ((Nat × Nat) × Nat)}
    (h : Inv c m i kk (x :: rest)) : x.1.2 = m ∨ c kk (x.1.2 + 1) = 0 := by
  have hx := h.shape x (by simp)
  by_cases h1 : x.1.2 = m
  · exact Or.inl h1
  · right
    apply Classical.byContradiction
    intro h2
    obtain ⟨y, hy, hle, _⟩ := h.complete (x.1.2 + 1) (by omega) (by omega) h2
    have := h.head_max y hy
    omega

include hc in
/-- a right-maximal occurring `pattern[kk..e)` is the first candidate -/
theorem Inv.smem_is_head {kk : Nat} {prev : List ((Nat × Nat) × Nat)} (h : Inv c m i kk prev) (hk : kk ≤ i)
    (e : Nat) (hie : i < e) (hem : e ≤ m) (hce : c kk e ≠ 0) (hr : e = m ∨ c kk (e + 1) = 0) :
    ∃ rest, prev = ((kk, e), e - kk) :: rest := by
  obtain ⟨y, hy, hle, heq⟩ := h.complete e hie hem hce
  have hys := h.shape y hy
  have hye : y.1.2 = e := by
    apply Classical.byContradiction
    intro hne
    have hlt : e + 1 ≤ y.1.2 := by omega
    rcases hr with hr | hr
    · omega
    · have := hc.anti kk kk (e + 1) y.1.2 (Nat.le_refl _) (by omega) hlt hys.2.2.1
      omega
  cases prev with
  | nil => simp at hy
  | cons x rest =>
    refine ⟨rest, ?_⟩
    have hxs := h.shape x (by simp)
    have hmax := h.head_max y hy
    have hxe : x.1.2 = e := by
      apply Classical.byContradiction
      intro hne
      have hlt : e + 1 ≤ x.1.2 := by omega
      rcases hr with hr | hr
      · omega
      · have := hc.anti kk kk (e + 1) x.1.2 (Nat.le_refl _) (by omega) hlt hxs.2.2.1
        omega
    obtain ⟨⟨xb, xe⟩, xml⟩ := x
    simp only at hxs hxe
    obtain ⟨h1, _, _, h4, _⟩ := hxs
    subst h1; subst hxe; subst h4
    rfl

include hc in
/-- one round of the sweep keeps the invariant -/
theorem Inv.step {kk : Nat} {prev : List ((Nat × Nat) × Nat)} (h : Inv c m i (kk + 1) prev) (hk : kk + 1 ≤ i)
    (a : Nat) : Inv c m i kk (dedup (strOps c) (-1) (ext (strOps c) a prev)) := by
  have hsub := dedup_sublist (strOps c) (ext (strOps c) a prev) (-1)
  -- elements of the extended list
  have hext : ∀ y ∈ ext (strOps c) a prev, ∃ x ∈ prev, y = ((kk, x.1.2), x.2 + 1) := by
    intro y hy
    simp only [ext, List.mem_map] at hy
    obtain ⟨x, hx, rfl⟩ := hy
    refine ⟨x, hx, ?_⟩
    have := (h.shape x hx).1
    simp only [strOps_bwd, this, Nat.add_sub_cancel]
  have hes : (ext (strOps c) a prev).map (·.1.2) = prev.map (·.1.2) := by
    simp [ext, List.map_map, Function.comp_def]
  have hsorted_ext : ((ext (strOps c) a prev).map (·.1.2)).Pairwise (· ≥ ·) := by rw [hes]; exact h.sorted
  refine ⟨?_, hsorted_ext.sublist (hsub.map _), ?_⟩
  · intro y hy
    have hsz := dedup_size_ne (strOps c) _ _ y hy
    obtain ⟨x, hx, rfl⟩ := hext y (hsub.subset hy)
    have hxs := h.shape x hx
    simp only [strOps_size] at hsz
    exact ⟨rfl, hxs.2.1, hxs.2.2.1, by simp only; omega, hsz⟩
  · intro e hie hem hce
    have hce1 : c (kk + 1) e ≠ 0 := by
      have := hc.anti kk (kk + 1) e e (by omega) (by omega) (Nat.le_refl _) hem
      omega
    obtain ⟨x, hx, hle, heq⟩ := h.complete e hie hem hce1
    have hxs := h.shape x hx
    have heq' : c kk e = c kk x.1.2 := hc.closed kk (kk + 1) e x.1.2 (by omega) (by omega) hle hxs.2.2.1 heq
    -- the extension of `x` in the extended list
    have hx' : ((kk, x.1.2), x.2 + 1) ∈ ext (strOps c) a prev := by
      simp only [ext, List.mem_map]
      refine ⟨x, hx, ?_⟩
      simp only [strOps_bwd, hxs.1, Nat.add_sub_cancel]
    obtain ⟨l1, l2, hsplit⟩ := List.append_of_mem hx'
    have hnz : (strOps c).size ((kk, x.1.2), x.2 + 1).1 ≠ 0 := by
      simp only [strOps_size]; omega
    rcases dedup_repr (strOps c) ((kk, x.1.2), x.2 + 1) l2 hnz l1 (-1) with hneg | ⟨y, hy, hs, hyx⟩
    · omega
    · rw [← hsplit] at hy
      refine ⟨y, hy, ?_, ?_⟩
      · rcases hyx with rfl | hyl
        · exact hle
        · -- `y` stands before the extension of `x`, so its end is not smaller
          rw [hsplit, List.map_append, List.map_cons, List.pairwise_append] at hsorted_ext
          have := hsorted_ext.2.2 y.1.2 (List.mem_map_of_mem (f := fun z : (Nat × Nat) × Nat => z.1.2) hyl)
            x.1.2 (by simp)
          omega
      · obtain ⟨x0, _, hy0⟩ := hext y (hsub.subset hy)
        subst hy0
        simp only [strOps_size] at hs
        simp only
        omega

/-! ### what a round reports, and the whole backward sweep -/

include hc in
theorem report_mem {kk : Nat} {prev : List ((Nat × Nat) × Nat)} (h : Inv c m i kk prev) (hk : kk ≤ i) (a : Nat)
    (x : Hit (Nat × Nat)) :
    x ∈ report (strOps c) a kk l prev ↔
      (x.iv = (kk, kk + x.len) ∧ x.pos = kk ∧ AbsSmem c m kk x.len ∧ i < kk + x.len ∧ l ≤ x.len) := by
  constructor
  · intro hx
    cases prev with
    | nil => simp [report] at hx
    | cons y rest =>
      obtain ⟨iv, ml⟩ := y
      simp only [report] at hx
      split at hx
      · rename_i hcond
        simp only [List.mem_singleton] at hx
        subst hx
        have hs := h.shape (iv, ml) (by simp)
        have hr := h.head_rmax
        simp only [strOps_size, strOps_bwd] at hcond
        simp only at hs hr ⊢
        obtain ⟨h1, h2, h3, h4, h5⟩ := hs
        have he : kk + ml = iv.2 := by omega
        refine ⟨?_, trivial, ⟨by omega, by omega, ?_, ?_, ?_⟩, by omega, hcond.2⟩
        · rw [he, ← h1]
        · rw [he]; exact h5
        · rw [he]
          rcases hcond.1 with h0 | h0
          · right; rw [← h1]; exact h0
          · left; exact h0
        · rw [he]; exact hr
      · simp at hx
  · rintro ⟨h1, h2, ⟨g1, g2, g3, g4, g5⟩, h4, h5⟩
    obtain ⟨rest, hp⟩ := h.smem_is_head hc hk (kk + x.len) h4 g2 g3 g5
    rw [hp]
    simp only [report]
    have hcond : ((strOps c).size ((strOps c).bwd (kk, kk + x.len) a) = 0 ∨ kk = 0) ∧ l ≤ kk + x.len - kk := by
      simp only [strOps_size, strOps_bwd]
      refine ⟨?_, by omega⟩
      rcases g4 with g4 | g4
      · exact Or.inr g4
      · exact Or.inl g4
    rw [if_pos hcond]
    simp only [List.mem_singleton]
    obtain ⟨xiv, xpos, xlen⟩ := x
    simp only at h1 h2 ⊢
    subst h1; subst h2
    congr 1
    omega

include hc in
/-- the backward sweep from round `kk - 1` downwards reports exactly the supermaximal matches that start at a
position `≤ kk`, cover `i` and have length `≥ l` -/
theorem outerSpec_mem (pat : List Nat) :
    ∀ (kk : Nat) (prev : List ((Nat × Nat) × Nat)) (ms : List (Hit (Nat × Nat))), kk ≤ i → Inv c m i kk prev →
      ∀ x, x ∈ outerSpec (strOps c) pat l kk prev ms ↔
        (x ∈ ms ∨ (x.iv = (x.pos, x.pos + x.len) ∧ x.pos ≤ kk ∧ AbsSmem c m x.pos x.len ∧ i < x.pos + x.len ∧
          l ≤ x.len))
  | 0, prev, ms, hk, h, x => by
    simp only [outerSpec, List.mem_append, report_mem hc l h hk 36 x]
    constructor
    · rintro (h1 | ⟨h1, h2, h3, h4, h5⟩)
      · exact Or.inl h1
      · right; rw [h2]; exact ⟨h1, Nat.le_refl _, h3, h4, h5⟩
    · rintro (h1 | ⟨h1, h2, h3, h4, h5⟩)
      · exact Or.inl h1
      · right
        have : x.pos = 0 := by omega
        rw [this] at h1 h3 h4; exact ⟨h1, this, h3, h4, h5⟩
  | kk + 1, prev, ms, hk, h, x => by
    have hstep := h.step hc hk (pat.getD kk 0)
    have hrep := report_mem hc l h hk (pat.getD kk 0) x
    simp only [outerSpec]
    split
    · rename_i hemp
      have hnil : dedup (strOps c) (-1) (ext (strOps c) (pat.getD kk 0) prev) = [] := List.isEmpty_iff.mp hemp
      rw [hnil] at hstep
      simp only [List.mem_append, hrep]
      constructor
      · rintro (h1 | ⟨h1, h2, h3, h4, h5⟩)
        · exact Or.inl h1
        · right; rw [h2]; exact ⟨h1, Nat.le_refl _, h3, h4, h5⟩
      · rintro (h1 | ⟨h1, h2, h3, h4, h5⟩)
        · exact Or.inl h1
        · right
          by_cases hp : x.pos = kk + 1
          · rw [hp] at h1 h3 h4; exact ⟨h1, hp, h3, h4, h5⟩
          · -- a match starting further left would have a candidate in the (empty) next list
            exfalso
            obtain ⟨g1, g2, g3, _, _⟩ := h3
            have := hc.anti x.pos kk (x.pos + x.len) (x.pos + x.len) (by omega) (by omega) (Nat.le_refl _) g2
            obtain ⟨y, hy, _⟩ := hstep.complete (x.pos + x.len) h4 g2 (by omega)
            simp at hy
    · rw [outerSpec_mem pat kk _ _ (by omega) hstep x]
      simp only [List.mem_append, hrep]
      constructor
      · rintro ((h1 | ⟨h1, h2, h3, h4, h5⟩) | ⟨h1, h2, h3⟩)
        · exact Or.inl h1
        · right; rw [h2]; exact ⟨h1, Nat.le_refl _, h3, h4, h5⟩
        · right; exact ⟨h1, by omega, h3⟩
      · rintro (h1 | ⟨h1, h2, h3, h4, h5⟩)
        · exact Or.inl (Or.inl h1)
        · by_cases hp : x.pos = kk + 1
          · left; right; rw [hp] at h1 h3 h4; exact ⟨h1, hp, h3, h4, h5⟩
          · right; exact ⟨h1, by omega, h3, h4, h5⟩

end abs

/-! ### the forward phase -/

section fwd
variable {c : Nat → Nat → Nat} {m : Nat} (hc : CountLaws c m) {i : Nat}

/-- the list built so far by the forward loop standing at `(i, e)` -/
structure FInv (c : Nat → Nat → Nat) (i e : Nat) (curr : List ((Nat × Nat) × Nat)) : Prop where
  shape : ∀ x ∈ curr, x.1.1 = i ∧ i < x.1.2 ∧ x.1.2 < e ∧ x.2 = x.1.2 - i
  sorted : (curr.map (·.1.2)).Pairwise (· ≤ ·)
  cover : ∀ e', i < e' → e' < e → (∃ x ∈ curr, x.1.2 = e') ∨ c i e' = c i (e' + 1)

/-- the list after the forward phase (before `reverse`): ends of the right extensions of `pattern[i..i+1)` at which
the count drops, then the longest occurring extension `emax` -/
structure FRes (c : Nat → Nat → Nat) (m i emax : Nat) (L : List ((Nat × Nat) × Nat)) : Prop where
  shape : ∀ x ∈ L, x.1.1 = i ∧ i < x.1.2 ∧ x.1.2 ≤ emax ∧ x.2 = x.1.2 - i
  sorted : (L.map (·.1.2)).Pairwise (· ≤ ·)
  cover : ∀ e', i < e' → e' < emax → (∃ x ∈ L, x.1.2 = e') ∨ c i e' = c i (e' + 1)
  last : ∃ x ∈ L, x.1.2 = emax
  bound : i < emax ∧ emax ≤ m ∧ c i emax ≠ 0 ∧ (emax = m ∨ c i (emax + 1) = 0)

theorem fres_snoc {e : Nat} {curr : List ((Nat × Nat) × Nat)} (h : FInv c i e curr) (hie : i < e) (hem : e ≤ m)
    (hce : c i e ≠ 0) (hr : e = m ∨ c i (e + 1) = 0) : FRes c m i e (curr ++ [((i, e), e - i)]) := by
  refine ⟨?_, ?_, ?_, ⟨((i, e), e - i), by simp, rfl⟩, hie, hem, hce, hr⟩
  · intro x hx
    rw [List.mem_append, List.mem_singleton] at hx
    rcases hx with hx | hx
    · have := h.shape x hx; omega
    · subst hx; dsimp only; omega
  · rw [List.map_append, List.pairwise_append]
    refine ⟨h.sorted, by simp, ?_⟩
    intro a ha b hb
    simp only [List.map_cons, List.map_nil, List.mem_singleton] at hb
    obtain ⟨x, hx, rfl⟩ := List.mem_map.mp ha
    have := h.shape x hx; omega
  · intro e' h1 h2
    rcases h.cover e' h1 h2 with ⟨x, hx, he⟩ | h3
    · exact Or.inl ⟨x, List.mem_append_left _ hx, he⟩
    · exact Or.inr h3

theorem fwdLoop_str_cons (a : Nat) (rest : List Nat) (e ml : Nat) (curr : List ((Nat × Nat) × Nat)) :
    fwdLoop (strOps c) (a :: rest) (i, e) ml curr =
      if c i (e + 1) = 0 then ((if c i e ≠ c i (e + 1) then curr ++ [((i, e), ml)] else curr), (i, e), ml)
      else fwdLoop (strOps c) rest (i, e + 1) (ml + 1) (if c i e ≠ c i (e + 1) then curr ++ [((i, e), ml)] else curr) :=
  rfl

theorem fwd_spec : ∀ (rest : List Nat) (e : Nat) (curr : List ((Nat × Nat) × Nat)),
    rest.length = m - e → i < e → e ≤ m → c i e ≠ 0 → FInv c i e curr →
    ∃ emax, FRes c m i emax ((fwdLoop (strOps c) rest (i, e) (e - i) curr).1 ++
      [((fwdLoop (strOps c) rest (i, e) (e - i) curr).2.1, (fwdLoop (strOps c) rest (i, e) (e - i) curr).2.2)])
  | [], e, curr, hlen, hie, hem, hce, h => by
    simp only [fwdLoop]
    simp only [List.length_nil] at hlen
    exact ⟨e, fres_snoc h hie hem hce (Or.inl (by omega))⟩
  | a :: rest, e, curr, hlen, hie, hem, hce, h => by
    simp only [List.length_cons] at hlen
    rw [fwdLoop_str_cons]
    by_cases h0 : c i (e + 1) = 0
    · rw [if_pos h0]
      have hne : c i e ≠ c i (e + 1) := by omega
      rw [if_pos hne]
      refine ⟨e, ?_⟩
      have h1 := fres_snoc h hie hem hce (Or.inr h0)
      refine ⟨?_, ?_, ?_, ⟨((i, e), e - i), by simp, rfl⟩, h1.bound⟩
      · intro x hx
        rw [List.mem_append, List.mem_singleton] at hx
        rcases hx with hx | rfl
        · exact h1.shape x hx
        · dsimp only; omega
      · rw [List.map_append, List.pairwise_append]
        refine ⟨h1.sorted, by simp, ?_⟩
        intro a ha b hb
        simp only [List.map_cons, List.map_nil, List.mem_singleton] at hb
        obtain ⟨x, hx, rfl⟩ := List.mem_map.mp ha
        have := h1.shape x hx; omega
      · intro e' g1 g2
        rcases h1.cover e' g1 g2 with ⟨x, hx, he⟩ | h3
        · exact Or.inl ⟨x, List.mem_append_left _ hx, he⟩
        · exact Or.inr h3
    · rw [if_neg h0]
      have hml : e - i + 1 = e + 1 - i := by omega
      rw [hml]
      apply fwd_spec rest (e + 1) _ (by omega) (by omega) (by omega) h0
      by_cases hne : c i e ≠ c i (e + 1)
      · rw [if_pos hne]
        refine ⟨?_, ?_, ?_⟩
        · intro x hx
          rw [List.mem_append, List.mem_singleton] at hx
          rcases hx with hx | rfl
          · have := h.shape x hx; omega
          · dsimp only; omega
        · rw [List.map_append, List.pairwise_append]
          refine ⟨h.sorted, by simp, ?_⟩
          intro a ha b hb
          simp only [List.map_cons, List.map_nil, List.mem_singleton] at hb
          obtain ⟨x, hx, rfl⟩ := List.mem_map.mp ha
          have := h.shape x hx; omega
        · intro e' g1 g2
          by_cases hee : e' = e
          · subst hee; exact Or.inl ⟨((i, e'), e' - i), by simp, rfl⟩
          · rcases h.cover e' g1 (by omega) with ⟨x, hx, he⟩ | h3
            · exact Or.inl ⟨x, List.mem_append_left _ hx, he⟩
            · exact Or.inr h3
      · rw [if_neg hne]
        refine ⟨?_, h.sorted, ?_⟩
        · intro x hx
          have := h.shape x hx; omega
        · intro e' g1 g2
          by_cases hee : e' = e
          · subst hee; right; omega
          · exact h.cover e' g1 (by omega)

include hc in
/-- after the forward phase the invariant of the backward sweep holds at `kk = i` -/
theorem inv_of_fres {emax : Nat} {L : List ((Nat × Nat) × Nat)} (h : FRes c m i emax L) :
    Inv c m i i L.reverse := by
  obtain ⟨hb1, hb2, hb3, hb4⟩ := h.bound
  refine ⟨?_, ?_, ?_⟩
  · intro x hx
    rw [List.mem_reverse] at hx
    have hs := h.shape x hx
    have := hc.anti i i x.1.2 emax (Nat.le_refl _) hs.2.1 hs.2.2.1 hb2
    exact ⟨hs.1, hs.2.1, by omega, hs.2.2.2, by omega⟩
  · rw [List.map_reverse, List.pairwise_reverse]
    exact h.sorted.imp (fun hab => hab)
  · intro e hie hem hce
    have hle : e ≤ emax := by
      apply Classical.byContradiction
      intro hgt
      rcases hb4 with hb4 | hb4
      · omega
      · have := hc.anti i i (emax + 1) e (Nat.le_refl _) (by omega) (by omega) hem
        omega
    -- climb from `e` to the next recorded end
    have key : ∀ d e, emax - e = d → i < e → e ≤ emax → c i e ≠ 0 →
        ∃ x ∈ L, e ≤ x.1.2 ∧ c i e = c i x.1.2 := by
      intro d
      induction d with
      | zero =>
        intro e hd h1 h2 _
        obtain ⟨x, hx, he⟩ := h.last
        exact ⟨x, hx, by omega, by rw [he]; congr 1; omega⟩
      | succ d ih =>
        intro e hd h1 h2 h3
        rcases h.cover e h1 (by omega) with ⟨x, hx, he⟩ | heq
        · exact ⟨x, hx, by omega, by rw [he]⟩
        · obtain ⟨x, hx, hle, hcx⟩ := ih (e + 1) (by omega) (by omega) (by omega) (by omega)
          exact ⟨x, hx, by omega, by omega⟩
    obtain ⟨x, hx, h1, h2⟩ := key (emax - e) e rfl hie hle hce
    exact ⟨x, List.mem_reverse.mpr hx, h1, h2⟩

theorem forwardPhase_str (pat : List Nat) (i : Nat) :
    forwardPhase (strOps c) pat i =
      ((fwdLoop (strOps c) (pat.drop (i + 1)) (i, i + 1) (if c i (i + 1) ≠ 0 then 1 else 0) []).1 ++
        [((fwdLoop (strOps c) (pat.drop (i + 1)) (i, i + 1) (if c i (i + 1) ≠ 0 then 1 else 0) []).2.1,
          (fwdLoop (strOps c) (pat.drop (i + 1)) (i, i + 1) (if c i (i + 1) ≠ 0 then 1 else 0) []).2.2)]).reverse :=
  rfl

include hc in
theorem forwardPhase_inv (pat : List Nat) (hm : pat.length = m) (hi : i < m) (h0 : c i (i + 1) ≠ 0) :
    Inv c m i i (forwardPhase (strOps c) pat i) := by
  rw [forwardPhase_str, if_pos h0]
  have hF : FInv c i (i + 1) [] := ⟨by simp, by simp, fun e' h1 h2 => by omega⟩
  obtain ⟨emax, hres⟩ := fwd_spec (pat.drop (i + 1)) (i + 1) [] (by rw [List.length_drop, hm]) (by omega)
    (by omega) h0 hF
  have e1 : i + 1 - i = 1 := by omega
  rw [e1] at hres
  exact inv_of_fres hc hres

include hc in
/-- `pattern[i]` does not occur: the candidate list is the single (empty) start interval with length 0 -/
theorem forwardPhase_dead (pat : List Nat) (hm : pat.length = m) (hi : i < m) (h0 : c i (i + 1) = 0) :
    forwardPhase (strOps c) pat i = [((i, i + 1), 0)] := by
  have : ¬ c i (i + 1) ≠ 0 := by omega
  rw [forwardPhase_str, if_neg this]
  cases hd : pat.drop (i + 1) with
  | nil => simp [fwdLoop]
  | cons a rest =>
    have hlen : (pat.drop (i + 1)).length = m - (i + 1) := by rw [List.length_drop, hm]
    rw [hd, List.length_cons] at hlen
    have h2 : c i (i + 1 + 1) = 0 := by
      have := hc.anti i i (i + 1) (i + 1 + 1) (Nat.le_refl _) (by omega) (by omega) (by omega)
      omega
    simp [fwdLoop, h0, h2]

include hc in
theorem forwardPhase_mls_sorted (pat : List Nat) (hm : pat.length = m) (hi : i < m) :
    ((forwardPhase (strOps c) pat i).map (·.2)).Pairwise (· ≥ ·) := by
  by_cases h0 : c i (i + 1) = 0
  · rw [forwardPhase_dead hc pat hm hi h0]; simp
  · exact (forwardPhase_inv hc pat hm hi h0).mls_sorted

include hc in
/-- `pattern[i]` does not occur: nothing is reported (for `l ≥ 1`) -/
theorem smems_dead (pat : List Nat) (hm : pat.length = m) (hi : i < m) (l : Nat) (hl : 1 ≤ l)
    (h0 : c i (i + 1) = 0) : smems (strOps c) pat i l = [] := by
  have hfp := forwardPhase_dead hc pat hm hi h0
  unfold smems
  rw [hfp, outer_eq_spec _ _ _ _ _ _ _ (by omega) (by simp)]
  have hnl : ¬ l ≤ 0 := by omega
  cases i with
  | zero => simp [outerSpec, report, hnl]
  | succ k =>
    have h2 : c k (k + 1 + 1) = 0 := by
      have := hc.anti k (k + 1) (k + 1 + 1) (k + 1 + 1) (by omega) (by omega) (Nat.le_refl _) (by omega)
      omega
    simp [outerSpec, report, hnl, ext, dedup, h2]

include hc in
/-- **the string-level sweep is correct**: started at `i < |pattern|` with `l ≥ 1` it returns exactly the
supermaximal matches (in the sense of the counts) covering `i` of length `≥ l`, each with its own interval -/
theorem smems_abs_correct (pat : List Nat) (hm : pat.length = m) (hi : i < m) (l : Nat) (hl : 1 ≤ l)
    (x : Hit (Nat × Nat)) :
    x ∈ smems (strOps c) pat i l ↔
      (x.iv = (x.pos, x.pos + x.len) ∧ x.pos ≤ i ∧ AbsSmem c m x.pos x.len ∧ i < x.pos + x.len ∧ l ≤ x.len) := by
  by_cases h0 : c i (i + 1) = 0
  · rw [smems_dead hc pat hm hi l hl h0]
    simp only [List.not_mem_nil, false_iff]
    rintro ⟨_, h2, ⟨g1, g2, g3, _, _⟩, h4, _⟩
    have := hc.anti x.pos i (i + 1) (x.pos + x.len) h2 (by omega) (by omega) g2
    omega
  · have hinv := forwardPhase_inv hc pat hm hi h0
    unfold smems
    rw [outer_eq_spec _ _ _ _ _ _ _ (by omega) hinv.mls_sorted,
      outerSpec_mem hc l pat i _ [] (Nat.le_refl _) hinv x]
    simp

end fwd

end RbV.SmemModel
