import RbV.Lemmas.SmemsLoop
/-!
# Correctness of the string-level sweep from two laws of occurrence counts (C06)

`c b e` stands for the number of occurrences of `pattern[b..e)`.  All the sweep needs to know about it:

* `anti`   — a substring occurs at least as often as any string containing it;
* `closed` — if `pattern[b..e)` and its extension `pattern[b..e')` occur equally often (every occurrence of the shorter
             is followed by the rest), the same holds after prepending `pattern[b'..b)` to both.

`smems_abs_correct`: under these laws the string-level sweep started at `i` returns exactly the pairs `(b, len)` that
are supermaximal in the sense of `c` (`AbsSmem`), cover `i` and have `len ≥ l`.
-/
namespace RbV.SmemModel
open RbV

structure CountLaws (c : Nat → Nat → Nat) (m : Nat) : Prop where
  anti : ∀ b' b e e', b' ≤ b → b < e → e ≤ e' → e' ≤ m → c b' e' ≤ c b e
  closed : ∀ b' b e e', b' ≤ b → b < e → e ≤ e' → e' ≤ m → c b e = c b e' → c b' e = c b' e'

/-- supermaximal in terms of the counts: occurs, and neither one-symbol extension exists-and-occurs -/
def AbsSmem (c : Nat → Nat → Nat) (m b len : Nat) : Prop :=
  0 < len ∧ b + len ≤ m ∧ c b (b + len) ≠ 0 ∧ (b = 0 ∨ c (b - 1) (b + len) = 0) ∧
  (b + len = m ∨ c b (b + len + 1) = 0)

@[simp] theorem strOps_size (c : Nat → Nat → Nat) (p : Nat × Nat) : (strOps c).size p = c p.1 p.2 := rfl
@[simp] theorem strOps_bwd (c : Nat → Nat → Nat) (p : Nat × Nat) (a : Nat) : (strOps c).bwd p a = (p.1 - 1, p.2) := rfl
@[simp] theorem strOps_fwd (c : Nat → Nat → Nat) (p : Nat × Nat) (a : Nat) : (strOps c).fwd p a = (p.1, p.2 + 1) := rfl
@[simp] theorem strOps_init (c : Nat → Nat → Nat) (i a : Nat) : (strOps c).initWith i a = (i, i + 1) := rfl

/-! ### facts about `dedup` -/

section dedup
variable {ι : Type} (ops : Ops ι)

theorem dedup_size_ne : ∀ (xs : List (ι × Nat)) (last : Int), ∀ x ∈ dedup ops last xs, ops.size x.1 ≠ 0
  | [], _, x, hx => by simp [dedup] at hx
  | (f, ml) :: rest, last, x, hx => by
    unfold dedup at hx
    split at hx
    · rename_i hp
      rw [List.mem_cons] at hx
      rcases hx with rfl | hx
      · simp only [Bool.and_eq_true, bne_iff_ne, ne_eq] at hp
        exact hp.1
      · exact dedup_size_ne rest _ x hx
    · exact dedup_size_ne rest _ x hx

/-- every non-empty interval is kept or has the size of a kept interval that stands before it -/
theorem dedup_repr (x : ι × Nat) (l2 : List (ι × Nat)) (hx : ops.size x.1 ≠ 0) :
    ∀ (l1 : List (ι × Nat)) (last : Int),
      (ops.size x.1 : Int) = last ∨
      ∃ y ∈ dedup ops last (l1 ++ x :: l2), ops.size y.1 = ops.size x.1 ∧ (y = x ∨ y ∈ l1)
  | [], last => by
    by_cases h : (ops.size x.1 : Int) = last
    · exact Or.inl h
    · right
      refine ⟨x, ?_, rfl, Or.inl rfl⟩
      obtain ⟨f, ml⟩ := x
      simp only [List.nil_append, dedup]
      have hp : (ops.size f != 0 && (ops.size f : Int) != last) = true := by
        simp only [Bool.and_eq_true, bne_iff_ne, ne_eq]; exact ⟨hx, h⟩
      rw [if_pos hp]; simp
  | z :: l1, last => by
    obtain ⟨f, ml⟩ := z
    simp only [List.cons_append, dedup]
    by_cases hp : (ops.size f != 0 && (ops.size f : Int) != last) = true
    · rw [if_pos hp]
      right
      rcases dedup_repr x l2 hx l1 (ops.size f) with h | ⟨y, hy, hs, hyx⟩
      · refine ⟨(f, ml), by simp, ?_, Or.inr (by simp)⟩
        have : ops.size x.1 = ops.size f := by omega
        exact this.symm
      · refine ⟨y, List.mem_cons_of_mem _ hy, hs, ?_⟩
        rcases hyx with h | h
        · exact Or.inl h
        · exact Or.inr (List.mem_cons_of_mem _ h)
    · rw [if_neg hp]
      rcases dedup_repr x l2 hx l1 last with h | ⟨y, hy, hs, hyx⟩
      · exact Or.inl h
      · right
        refine ⟨y, hy, hs, ?_⟩
        rcases hyx with h | h
        · exact Or.inl h
        · exact Or.inr (List.mem_cons_of_mem _ h)

end dedup

/-! ### the invariant of the backward sweep -/

section abs
variable {c : Nat → Nat → Nat} {m : Nat} (hc : CountLaws c m) (i l : Nat)

/-- the candidate list at the start of round `k = kk - 1`: intervals `(kk, e)` with their lengths, `e` decreasing;
every occurring `pattern[kk..e)` (`e > i`) is represented by a candidate `e' ≥ e` with the same count -/
structure Inv (c : Nat → Nat → Nat) (m i kk : Nat) (prev : List ((Nat × Nat) × Nat)) : Prop where
  shape : ∀ x ∈ prev, x.1.1 = kk ∧ i < x.1.2 ∧ x.1.2 ≤ m ∧ x.2 = x.1.2 - kk ∧ c kk x.1.2 ≠ 0
  sorted : (prev.map (·.1.2)).Pairwise (· ≥ ·)
  complete : ∀ e, i < e → e ≤ m → c kk e ≠ 0 → ∃ x ∈ prev, e ≤ x.1.2 ∧ c kk e = c kk x.1.2

variable {i}

theorem Inv.mls_sorted {kk : Nat} {prev : List ((Nat × Nat) × Nat)} (h : Inv c m i kk prev) :
    (prev.map (·.2)).Pairwise (· ≥ ·) := by
  have hs := h.sorted
  rw [List.pairwise_map] at hs ⊢
  refine hs.imp_of_mem ?_
  intro a b ha hb hab
  have h1 := h.shape a ha
  have h2 := h.shape b hb
  omega

theorem Inv.head_max {kk : Nat} {x : (Nat × Nat) × Nat} {rest : List ((Nat × Nat) × Nat)}
    (h : Inv c m i kk (x :: rest)) : ∀ y ∈ x :: rest, y.1.2 ≤ x.1.2 := by
  intro y hy
  have hs := h.sorted
  simp only [List.map_cons, List.pairwise_cons] at hs
  rw [List.mem_cons] at hy
  rcases hy with rfl | hy
  · exact Nat.le_refl _
  · exact hs.1 _ (List.mem_map_of_mem (f := fun z : (Nat × Nat) × Nat => z.1.2) hy)

/-- the first candidate cannot be extended to the right -/
theorem Inv.head_rmax {kk : Nat} {x : (Nat × Nat) × Nat} {rest : List ((Nat × Nat) × Nat)}
    (h : Inv c m i kk (x :: rest)) : x.1.2 = m ∨ c kk (x.1.2 + 1) = 0 := by
  have hx := h.shape x (by simp)
  by_cases h1 : x.1.2 = m
  · exact Or.inl h1
  · right
    apply Classical.byContradiction
    intro h2
    obtain ⟨y, hy, hle, _⟩ := h.complete (x.1.2 + 1) (by omega) (by omega) h2
    have := h.head_max y hy
    omega

include hc in
/-- a right-maximal occurring `pattern[kk..e)` is the first candidate -/
theorem Inv.smem_is_head {kk : Nat} {prev : List ((Nat × Nat) × Nat)} (h : Inv c m i kk prev) (hk : kk ≤ i)
    (e : Nat) (hie : i < e) (hem : e ≤ m) (hce : c kk e ≠ 0) (hr : e = m ∨ c kk (e + 1) = 0) :
    ∃ rest, prev = ((kk, e), e - kk) :: rest := by
  obtain ⟨y, hy, hle, heq⟩ := h.complete e hie hem hce
  have hys := h.shape y hy
  have hye : y.1.2 = e := by
    apply Classical.byContradiction
    intro hne
    have hlt : e + 1 ≤ y.1.2 := by omega
    rcases hr with hr | hr
    · omega
    · have := hc.anti kk kk (e + 1) y.1.2 (Nat.le_refl _) (by omega) hlt hys.2.2.1
      omega
  cases prev with
  | nil => simp at hy
  | cons x rest =>
    refine ⟨rest, ?_⟩
    have hxs := h.shape x (by simp)
    have hmax := h.head_max y hy
    have hxe : x.1.2 = e := by
      apply Classical.byContradiction
      intro hne
      have hlt : e + 1 ≤ x.1.2 := by omega
      rcases hr with hr | hr
      · omega
      · have := hc.anti kk kk (e + 1) x.1.2 (Nat.le_refl _) (by omega) hlt hxs.2.2.1
        omega
    obtain ⟨⟨xb, xe⟩, xml⟩ := x
    simp only at hxs hxe
    obtain ⟨h1, _, _, h4, _⟩ := hxs
    subst h1; subst hxe; subst h4
    rfl

include hc in
/-- one round of the sweep keeps the invariant -/
theorem Inv.step {kk : Nat} {prev : List ((Nat × Nat) × Nat)} (h : Inv c m i (kk + 1) prev) (hk : kk + 1 ≤ i)
    (a : Nat) : Inv c m i kk (dedup (strOps c) (-1) (ext (strOps c) a prev)) := by
  have hsub := dedup_sublist (strOps c) (ext (strOps c) a prev) (-1)
  -- elements of the extended list
  have hext : ∀ y ∈ ext (strOps c) a prev, ∃ x ∈ prev, y = ((kk, x.1.2), x.2 + 1) := by
    intro y hy
    simp only [ext, List.mem_map] at hy
    obtain ⟨x, hx, rfl⟩ := hy
    refine ⟨x, hx, ?_⟩
    have := (h.shape x hx).1
    simp only [strOps_bwd, this, Nat.add_sub_cancel]
  have hes : (ext (strOps c) a prev).map (·.1.2) = prev.map (·.1.2) := by
    simp [ext, List.map_map, Function.comp_def]
  have hsorted_ext : ((ext (strOps c) a prev).map (·.1.2)).Pairwise (· ≥ ·) := by rw [hes]; exact h.sorted
  refine ⟨?_, hsorted_ext.sublist (hsub.map _), ?_⟩
  · intro y hy
    have hsz := dedup_size_ne (strOps c) _ _ y hy
    obtain ⟨x, hx, rfl⟩ := hext y (hsub.subset hy)
    have hxs := h.shape x hx
    simp only [strOps_size] at hsz
    exact ⟨rfl, hxs.2.1, hxs.2.2.1, by simp only; omega, hsz⟩
  · intro e hie hem hce
    have hce1 : c (kk + 1) e ≠ 0 := by
      have := hc.anti kk (kk + 1) e e (by omega) (by omega) (Nat.le_refl _) hem
      omega
    obtain ⟨x, hx, hle, heq⟩ := h.complete e hie hem hce1
    have hxs := h.shape x hx
    have heq' : c kk e = c kk x.1.2 := hc.closed kk (kk + 1) e x.1.2 (by omega) (by omega) hle hxs.2.2.1 heq
    -- the extension of `x` in the extended list
    have hx' : ((kk, x.1.2), x.2 + 1) ∈ ext (strOps c) a prev := by
      simp only [ext, List.mem_map]
      refine ⟨x, hx, ?_⟩
      simp only [strOps_bwd, hxs.1, Nat.add_sub_cancel]
    obtain ⟨l1, l2, hsplit⟩ := List.append_of_mem hx'
    have hnz : (strOps c).size ((kk, x.1.2), x.2 + 1).1 ≠ 0 := by
      simp only [strOps_size]; omega
    rcases dedup_repr (strOps c) ((kk, x.1.2), x.2 + 1) l2 hnz l1 (-1) with hneg | ⟨y, hy, hs, hyx⟩
    · omega
    · rw [← hsplit] at hy
      refine ⟨y, hy, ?_, ?_⟩
      · rcases hyx with rfl | hyl
        · exact hle
        · -- `y` stands before the extension of `x`, so its end is not smaller
          rw [hsplit, List.map_append, List.map_cons, List.pairwise_append] at hsorted_ext
          have := hsorted_ext.2.2 y.1.2 (List.mem_map_of_mem (f := fun z : (Nat × Nat) × Nat => z.1.2) hyl)
            x.1.2 (by simp)
          omega
      · obtain ⟨x0, _, hy0⟩ := hext y (hsub.subset hy)
        subst hy0
        simp only [strOps_size] at hs
        simp only
        omega

/-! ### what a round reports, and the whole backward sweep -/

include hc in
theorem report_mem {kk : Nat} {prev : List ((Nat × Nat) × Nat)} (h : Inv c m i kk prev) (hk : kk ≤ i) (a : Nat)
    (x : Hit (Nat × Nat)) :
    x ∈ report (strOps c) a kk l prev ↔
      (x.iv = (kk, kk + x.len) ∧ x.pos = kk ∧ AbsSmem c m kk x.len ∧ i < kk + x.len ∧ l ≤ x.len) := by
  constructor
  · intro hx
    cases prev with
    | nil => simp [report] at hx
    | cons y rest =>
      obtain ⟨iv, ml⟩ := y
      simp only [report] at hx
      split at hx
      · rename_i hcond
        simp only [List.mem_singleton] at hx
        subst hx
        have hs := h.shape (iv, ml) (by simp)
        have hr := h.head_rmax
        simp only [strOps_size, strOps_bwd] at hcond
        simp only at hs hr ⊢
        obtain ⟨h1, h2, h3, h4, h5⟩ := hs
        have he : kk + ml = iv.2 := by omega
        refine ⟨?_, trivial, ⟨by omega, by omega, ?_, ?_, ?_⟩, by omega, hcond.2⟩
        · rw [he, ← h1]
        · rw [he]; exact h5
        · rw [he]
          rcases hcond.1 with h0 | h0
          · right; rw [← h1]; exact h0
          · left; exact h0
        · rw [he]; exact hr
      · simp at hx
  · rintro ⟨h1, h2, ⟨g1, g2, g3, g4, g5⟩, h4, h5⟩
    obtain ⟨rest, hp⟩ := h.smem_is_head hc hk (kk + x.len) h4 g2 g3 g5
    rw [hp]
    simp only [report]
    have hcond : ((strOps c).size ((strOps c).bwd (kk, kk + x.len) a) = 0 ∨ kk = 0) ∧ l ≤ kk + x.len - kk := by
      simp only [strOps_size, strOps_bwd]
      refine ⟨?_, by omega⟩
      rcases g4 with g4 | g4
      · exact Or.inr g4
      · exact Or.inl g4
    rw [if_pos hcond]
    simp only [List.mem_singleton]
    obtain ⟨xiv, xpos, xlen⟩ := x
    simp only at h1 h2 ⊢
    subst h1; subst h2
    congr 1
    omega

include hc in
/-- the backward sweep from round `kk - 1` downwards reports exactly the supermaximal matches that start at a
position `≤ kk`, cover `i` and have length `≥ l` -/
theorem outerSpec_mem (pat : List Nat) :
    ∀ (kk : Nat) (prev : List ((Nat × Nat) × Nat)) (ms : List (Hit (Nat × Nat))), kk ≤ i → Inv c m i kk prev →
      ∀ x, x ∈ outerSpec (strOps c) pat l kk prev ms ↔
        (x ∈ ms ∨ (x.iv = (x.pos, x.pos + x.len) ∧ x.pos ≤ kk ∧ AbsSmem c m x.pos x.len ∧ i < x.pos + x.len ∧
          l ≤ x.len))
  | 0, prev, ms, hk, h, x => by
    simp only [outerSpec, List.mem_append, report_mem hc l h hk 36 x]
    constructor
    · rintro (h1 | ⟨h1, h2, h3, h4, h5⟩)
      · exact Or.inl h1
      · right; rw [h2]; exact ⟨h1, Nat.le_refl _, h3, h4, h5⟩
    · rintro (h1 | ⟨h1, h2, h3, h4, h5⟩)
      · exact Or.inl h1
      · right
        have : x.pos = 0 := by omega
        rw [this] at h1 h3 h4; exact ⟨h1, this, h3, h4, h5⟩
  | kk + 1, prev, ms, hk, h, x => by
    have hstep := h.step hc hk (pat.getD kk 0)
    have hrep := report_mem hc l h hk (pat.getD kk 0) x
    simp only [outerSpec]
    split
    · rename_i hemp
      have hnil : dedup (strOps c) (-1) (ext (strOps c) (pat.getD kk 0) prev) = [] := List.isEmpty_iff.mp hemp
      rw [hnil] at hstep
      simp only [List.mem_append, hrep]
      constructor
      · rintro (h1 | ⟨h1, h2, h3, h4, h5⟩)
        · exact Or.inl h1
        · right; rw [h2]; exact ⟨h1, Nat.le_refl _, h3, h4, h5⟩
      · rintro (h1 | ⟨h1, h2, h3, h4, h5⟩)
        · exact Or.inl h1
        · right
          by_cases hp : x.pos = kk + 1
          · rw [hp] at h1 h3 h4; exact ⟨h1, hp, h3, h4, h5⟩
          · -- a match starting further left would have a candidate in the (empty) next list
            exfalso
            obtain ⟨g1, g2, g3, _, _⟩ := h3
            have := hc.anti x.pos kk (x.pos + x.len) (x.pos + x.len) (by omega) (by omega) (Nat.le_refl _) g2
            obtain ⟨y, hy, _⟩ := hstep.complete (x.pos + x.len) h4 g2 (by omega)
            simp at hy
    · rw [outerSpec_mem pat kk _ _ (by omega) hstep x]
      simp only [List.mem_append, hrep]
      constructor
      · rintro ((h1 | ⟨h1, h2, h3, h4, h5⟩) | ⟨h1, h2, h3⟩)
        · exact Or.inl h1
        · right; rw [h2]; exact ⟨h1, Nat.le_refl _, h3, h4, h5⟩
        · right; exact ⟨h1, by omega, h3⟩
      · rintro (h1 | ⟨h1, h2, h3, h4, h5⟩)
        · exact Or.inl (Or.inl h1)
        · by_cases hp : x.pos = kk + 1
          · left; right; rw [hp] at h1 h3 h4; exact ⟨h1, hp, h3, h4, h5⟩
          · right; exact ⟨h1, by omega, h3, h4, h5⟩

end abs

end RbV.SmemModel
