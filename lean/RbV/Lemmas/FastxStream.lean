import RbV.Model.FastxStream
import RbV.Lemmas.BufLines
import RbV.Lemmas.UniWs
/-!
# The stateful FASTA/FASTQ readers over the `BufReader` model compute the list models  (C11)

* [A] `parseFastaVia T c sched file = parseFastaU T file`, `parseFastqVia T c sched file = parseFastqU T file` for every
  capacity ≥ 1, every admissible schedule and **every** byte string (UTF-8 errors included).
* [B] when every line is valid UTF-8 the `…U` models are the plain list models of `Fasta.lean` / `Fastq.lean`.
-/
namespace RbV.Fastx
open RbV.BufLines

variable (T : Txt)

theorem splitLines_eq_nil_iff (f : Bytes) : splitLines f = [] ↔ f = [] := by
  constructor
  · intro h
    cases f with
    | nil => rfl
    | cons b r => rw [splitLines_eq_firstLine _ (by simp)] at h; cases h
  · rintro rfl; rfl

/-- what one `read_line` does, in terms of the lines still to come -/
theorem readLineStr_cases (c : Nat) (sched : Nat → Nat) (hc : 1 ≤ c) (hs : Admissible sched) (rd : St) :
    (rd.pending = [] ∧ (readLineStr c sched rd).1 = some [] ∧ (readLineStr c sched rd).2.pending = []) ∨
    (∃ l, l ≠ [] ∧ splitLines rd.pending = l :: splitLines (readLineStr c sched rd).2.pending ∧
       (readLineStr c sched rd).1 = if validUtf8 l then some l else none) := by
  have hsp := readLine_spec c sched hc hs rd
  by_cases hp : rd.pending = []
  · left
    refine ⟨hp, ?_, ?_⟩
    · simp [readLineStr, hsp.1, hp, firstLine, validUtf8]
    · simp [readLineStr, hsp.2, hp, firstLine]
  · right
    refine ⟨(firstLine rd.pending).1, ?_, ?_, ?_⟩
    · intro h; exact hp ((firstLine_fst_eq_nil _).mp h)
    · rw [splitLines_eq_firstLine _ hp]; simp [readLineStr, hsp.2]
    · simp [readLineStr, hsp.1]

/-- the same, for a call whose result is known -/
theorem readLineStr_eq_cases (c : Nat) (sched : Nat → Nat) (hc : 1 ≤ c) (hs : Admissible sched) (rd : St)
    (o : Option Bytes) (rd' : St) (h : readLineStr c sched rd = (o, rd')) :
    (rd.pending = [] ∧ o = some [] ∧ rd'.pending = []) ∨
    (∃ l, l ≠ [] ∧ splitLines rd.pending = l :: splitLines rd'.pending ∧
       o = if validUtf8 l then some l else none) := by
  have := readLineStr_cases c sched hc hs rd
  rw [h] at this
  exact this

/-- the reader state `r` stands for the lines `ls` still to be parsed -/
def FaRep (r : FaReader) (ls : List Bytes) : Prop :=
  validUtf8 r.line = true ∧ ls = (if r.line = [] then [] else [r.line]) ++ splitLines r.rd.pending

theorem faLoop_spec (c : Nat) (sched : Nat → Nat) (hc : 1 ≤ c) (hs : Admissible sched) (rd : St) (seq : Bytes) :
    match faSeqU T (splitLines rd.pending) with
    | none => (faLoop T c sched rd seq).1 = none
    | some p => ∃ line, (faLoop T c sched rd seq).1 = some (seq ++ p.1, line) ∧
        FaRep { rd := (faLoop T c sched rd seq).2, line := line } p.2 := by
  fun_induction faLoop T c sched rd seq with
  | case1 rd seq rd' h =>
    rcases readLineStr_eq_cases c sched hc hs rd _ _ h with ⟨_, h2, _⟩ | ⟨l, hl, hsp, ho⟩
    · cases h2
    · have hv : validUtf8 l = false := by
        cases hv : validUtf8 l with
        | false => rfl
        | true => simp [hv] at ho
      simp [hsp, faSeqU, hv]
  | case2 rd seq l rd' h hc2 =>
    rcases readLineStr_eq_cases c sched hc hs rd _ _ h with ⟨hp, h2, hp'⟩ | ⟨l', hl, hsp, ho⟩
    · simp only [Option.some.injEq] at h2
      subst h2
      simp [hp, splitLines, faSeqU, FaRep, validUtf8, hp']
    · have hv : validUtf8 l' = true ∧ l = l' := by
        cases hv : validUtf8 l' with
        | false => simp [hv] at ho
        | true => simpa [hv] using ho
      obtain ⟨hv, rfl⟩ := hv
      have hst : startsWith l 62 = true := by
        cases l with
        | nil => exact absurd rfl hl
        | cons b t => simpa using hc2
      simp [hsp, faSeqU, hv, hst, FaRep, hl]
  | case3 rd seq l rd' h hc3 ih =>
    rcases readLineStr_eq_cases c sched hc hs rd _ _ h with ⟨hp, h2, hp'⟩ | ⟨l', hl, hsp, ho⟩
    · simp only [Option.some.injEq] at h2
      subst h2
      simp at hc3
    · have hv : validUtf8 l' = true ∧ l = l' := by
        cases hv : validUtf8 l' with
        | false => simp [hv] at ho
        | true => simpa [hv] using ho
      obtain ⟨hv, rfl⟩ := hv
      have hst : startsWith l 62 = false := by
        simp only [Bool.or_eq_true, not_or] at hc3
        simpa using hc3.2
      rw [hsp]
      simp only [faSeqU, hv, hst]
      cases hq : faSeqU T (splitLines rd'.pending) with
      | none => rw [hq] at ih; simpa using ih
      | some p =>
        rw [hq] at ih
        obtain ⟨line, h1, h2⟩ := ih
        exact ⟨line, by simpa using h1, h2⟩

/-- the outcome of one `Reader::read` in terms of the lines still to come -/
def FaReadSpec (T : Txt) (out : FaOut × FaReader) : List Bytes → Prop
  | [] => out.1 = .record { id := [], desc := none, seq := [] }
  | l :: rest =>
    if validUtf8 l = false then out.1 = .utf8
    else if startsWith l 62 = false then out.1 = .err
    else match faSeqU T rest with
      | none => out.1 = .utf8
      | some p => out.1 = .record { id := (T.faHdr l).1, desc := (T.faHdr l).2, seq := p.1 } ∧ FaRep out.2 p.2

theorem faFromHeader_spec (c : Nat) (sched : Nat → Nat) (hc : 1 ≤ c) (hs : Admissible sched) (r : FaReader)
    (hv : validUtf8 r.line = true) :
    FaReadSpec T (faFromHeader T c sched r) (r.line :: splitLines r.rd.pending) := by
  unfold FaReadSpec faFromHeader
  simp only [hv, Bool.true_eq_false, if_false]
  by_cases hst : startsWith r.line 62 = true
  · simp only [hst, Bool.not_true, Bool.false_eq_true, if_false, Bool.true_eq_false]
    have := faLoop_spec T c sched hc hs r.rd []
    cases hq : faSeqU T (splitLines r.rd.pending) with
    | none =>
      rw [hq] at this
      simp only at this ⊢
      split
      · rfl
      · rename_i heq; rw [heq] at this; cases this
    | some p =>
      rw [hq] at this
      obtain ⟨line, h1, h2⟩ := this
      simp only
      split
      · rename_i heq; rw [heq] at h1; cases h1
      · rename_i sq l rd' heq
        rw [heq] at h1 h2
        simp only [Option.some.injEq, Prod.mk.injEq, List.nil_append] at h1
        obtain ⟨rfl, rfl⟩ := h1
        exact ⟨rfl, h2⟩
  · have hst' : startsWith r.line 62 = false := by simpa using hst
    simp [hst']

theorem faReadS_spec (c : Nat) (sched : Nat → Nat) (hc : 1 ≤ c) (hs : Admissible sched) (r : FaReader)
    (ls : List Bytes) (hr : FaRep r ls) : FaReadSpec T (faReadS T c sched r) ls := by
  obtain ⟨hv, hls⟩ := hr
  unfold faReadS
  by_cases hl : r.line = []
  · simp only [hl, List.isEmpty_nil, if_true, List.nil_append] at hls ⊢
    rcases readLineStr_cases c sched hc hs r.rd with ⟨hp, h2, hp'⟩ | ⟨l, hne, hsp, ho⟩
    · rw [hp] at hls
      subst hls
      split
      · rename_i heq; rw [heq] at h2; cases h2
      · rename_i l rd' heq
        rw [heq] at h2
        simp only [Option.some.injEq] at h2
        subst h2
        simp [FaReadSpec, splitLines]
    · rw [hsp] at hls
      subst hls
      split
      · rename_i rd' heq
        rw [heq] at ho
        have hv' : validUtf8 l = false := by
          cases hv' : validUtf8 l with
          | false => rfl
          | true => simp [hv'] at ho
        simp [FaReadSpec, hv']
      · rename_i l' rd' heq
        rw [heq] at ho hsp ⊢
        have hv' : validUtf8 l = true ∧ l' = l := by
          cases hv' : validUtf8 l with
          | false => simp [hv'] at ho
          | true => simpa [hv'] using ho
        obtain ⟨hv', rfl⟩ := hv'
        have : l'.isEmpty = false := by cases l' with
          | nil => exact absurd rfl hne
          | cons => rfl
        simp only [this, Bool.false_eq_true, if_false]
        exact faFromHeader_spec T c sched hc hs { rd := rd', line := l' } hv'
  · have : r.line.isEmpty = false := by cases hr : r.line with
      | nil => exact absurd hr hl
      | cons => rfl
    simp only [this, Bool.false_eq_true, if_false]
    simp only [hl, if_false, List.singleton_append] at hls
    subst hls
    exact faFromHeader_spec T c sched hc hs r hv

theorem faRecordsU_cons (l : Bytes) (rest : List Bytes) :
    faRecordsU T (l :: rest) =
      if validUtf8 l = false then [.utf8]
      else if startsWith l 62 = false then [.item .err]
      else match faSeqU T rest with
        | none => [.utf8]
        | some p =>
          if ({ id := (T.faHdr l).1, desc := (T.faHdr l).2, seq := p.1 } : FaRec).isEmpty then []
          else .item (.ok { id := (T.faHdr l).1, desc := (T.faHdr l).2, seq := p.1 }) :: faRecordsU T p.2 := by
  rw [faRecordsU]
  cases hv : validUtf8 l <;> cases hst : startsWith l 62 <;> simp only [Bool.not_true, Bool.not_false, if_true,
    if_false, Bool.false_eq_true, Bool.true_eq_false]
  split <;> rename_i heq <;> rw [heq]

theorem faDrain_spec (c : Nat) (sched : Nat → Nat) (hc : 1 ≤ c) (hs : Admissible sched) (fuel : Nat) :
    ∀ (r : FaReader) (ls : List Bytes), FaRep r ls → ls.length < fuel →
      (faDrain T c sched fuel r).1 = faRecordsU T ls := by
  induction fuel with
  | zero => intro r ls _ h; omega
  | succ fuel ih =>
    intro r ls hr hlen
    have hsp := faReadS_spec T c sched hc hs r ls hr
    unfold faDrain
    cases hrd : faReadS T c sched r with
    | mk out r' =>
    rw [hrd] at hsp
    cases ls with
    | nil =>
      simp only [FaReadSpec] at hsp
      subst hsp
      simp [FaRec.isEmpty, faRecordsU]
    | cons l rest =>
      simp only [FaReadSpec] at hsp
      rw [faRecordsU_cons]
      cases hv : validUtf8 l with
      | false => simp only [hv, if_true] at hsp ⊢; subst hsp; rfl
      | true =>
        cases hst : startsWith l 62 with
        | false => simp only [hv, hst, if_true, if_false, Bool.true_eq_false] at hsp ⊢; subst hsp; rfl
        | true =>
          simp only [hv, hst, if_false, Bool.true_eq_false] at hsp ⊢
          cases hq : faSeqU T rest with
          | none => rw [hq] at hsp; simp only at hsp ⊢; subst hsp; rfl
          | some p =>
            rw [hq] at hsp
            simp only at hsp ⊢
            obtain ⟨h1, h2⟩ := hsp
            subst h1
            have hlen' := faSeqU_length_le T rest p hq
            simp only [List.length_cons] at hlen
            simp only
            split
            · rfl
            · rw [ih _ p.2 h2 (by omega)]

/-- `Records` ends: at most one `next` call per line still to come, plus two -/
theorem faNextCalls_spec (c : Nat) (sched : Nat → Nat) (hc : 1 ≤ c) (hs : Admissible sched) (fuel : Nat) :
    ∀ (r : FaReader) (ls : List Bytes), FaRep r ls → ls.length < fuel →
      ∃ n, faNextCalls T c sched fuel r = some n ∧ n ≤ ls.length + 2 := by
  induction fuel with
  | zero => intro r ls _ h; omega
  | succ fuel ih =>
    intro r ls hr hlen
    have hsp := faReadS_spec T c sched hc hs r ls hr
    unfold faNextCalls
    cases hrd : faReadS T c sched r with
    | mk out r' =>
    rw [hrd] at hsp
    cases ls with
    | nil =>
      simp only [FaReadSpec] at hsp
      subst hsp
      exact ⟨1, by simp [FaRec.isEmpty], by omega⟩
    | cons l rest =>
      simp only [FaReadSpec] at hsp
      cases hv : validUtf8 l with
      | false => simp only [hv, if_true] at hsp; subst hsp; exact ⟨2, rfl, by simp⟩
      | true =>
        cases hst : startsWith l 62 with
        | false =>
          simp only [hv, hst, if_true, if_false, Bool.true_eq_false] at hsp; subst hsp; exact ⟨2, rfl, by simp⟩
        | true =>
          simp only [hv, hst, if_false, Bool.true_eq_false] at hsp
          cases hq : faSeqU T rest with
          | none => rw [hq] at hsp; simp only at hsp; subst hsp; exact ⟨2, rfl, by simp⟩
          | some p =>
            rw [hq] at hsp
            simp only at hsp
            obtain ⟨h1, h2⟩ := hsp
            subst h1
            have hlen' := faSeqU_length_le T rest p hq
            simp only [List.length_cons] at hlen ⊢
            split
            · exact ⟨1, rfl, by omega⟩
            · obtain ⟨n, hn, hle⟩ := ih _ p.2 h2 (by omega)
              exact ⟨n + 1, by simp [hn], by omega⟩

/-! ## FASTQ -/

theorem valid_of_some {l l' : Bytes} (ho : some l = if validUtf8 l' = true then some l' else none) :
    validUtf8 l' = true ∧ l = l' := by
  cases hv : validUtf8 l' with
  | false => simp [hv] at ho
  | true => simpa [hv] using ho

theorem invalid_of_none {l' : Bytes} (ho : (none : Option Bytes) = if validUtf8 l' = true then some l' else none) :
    validUtf8 l' = false := by
  cases hv : validUtf8 l' with
  | false => rfl
  | true => simp [hv] at ho

theorem fqSeqLoop_spec (c : Nat) (sched : Nat → Nat) (hc : 1 ≤ c) (hs : Admissible sched) (rd : St) (seq : Bytes)
    (n : Nat) :
    match fqSeqU T (splitLines rd.pending) with
    | .error r => (fqSeqLoop T c sched rd seq n).1 = none ∧ splitLines (fqSeqLoop T c sched rd seq n).2.pending = r
    | .ok p => (fqSeqLoop T c sched rd seq n).1 = some (seq ++ p.1, n + p.2.1) ∧
        splitLines (fqSeqLoop T c sched rd seq n).2.pending = p.2.2.tail := by
  fun_induction fqSeqLoop T c sched rd seq n with
  | case1 rd seq n rd' h =>
    rcases readLineStr_eq_cases c sched hc hs rd _ _ h with ⟨_, h2, _⟩ | ⟨l, hl, hsp, ho⟩
    · cases h2
    · have hv := invalid_of_none ho
      simp [hsp, fqSeqU, hv]
  | case2 rd seq n l rd' h hc2 =>
    rcases readLineStr_eq_cases c sched hc hs rd _ _ h with ⟨hp, h2, hp'⟩ | ⟨l', hl, hsp, ho⟩
    · simp only [Option.some.injEq] at h2
      subst h2
      simp [hp, hp', splitLines, fqSeqU]
    · obtain ⟨hv, rfl⟩ := valid_of_some ho
      have hst : startsWith l 43 = true := by
        cases l with
        | nil => exact absurd rfl hl
        | cons b t => simpa using hc2
      simp [hsp, fqSeqU, hv, hst]
  | case3 rd seq n l rd' h hc3 ih =>
    rcases readLineStr_eq_cases c sched hc hs rd _ _ h with ⟨hp, h2, hp'⟩ | ⟨l', hl, hsp, ho⟩
    · simp only [Option.some.injEq] at h2
      subst h2
      simp at hc3
    · obtain ⟨hv, rfl⟩ := valid_of_some ho
      have hst : startsWith l 43 = false := by
        simp only [Bool.or_eq_true, not_or] at hc3
        simpa using hc3.2
      rw [hsp]
      simp only [fqSeqU, hv, hst]
      cases hq : fqSeqU T (splitLines rd'.pending) with
      | error r => rw [hq] at ih; simpa using ih
      | ok p =>
        rw [hq] at ih
        obtain ⟨h1, h2⟩ := ih
        refine ⟨?_, h2⟩
        simp only [h1, List.append_assoc, Option.some.injEq, Prod.mk.injEq, true_and]
        omega

theorem fqQualLoop_spec (c : Nat) (sched : Nat → Nat) (hc : 1 ≤ c) (hs : Admissible sched) (n : Nat) :
    ∀ (rd : St) (q : Bytes),
    match fqQualU T n (splitLines rd.pending) with
    | .error r => (fqQualLoop T c sched n rd q).1 = none ∧ splitLines (fqQualLoop T c sched n rd q).2.pending = r
    | .ok p => (fqQualLoop T c sched n rd q).1 = some (q ++ p.1) ∧
        splitLines (fqQualLoop T c sched n rd q).2.pending = p.2 := by
  induction n with
  | zero => intro rd q; simp [fqQualU, fqQualLoop]
  | succ n ih =>
    intro rd q
    unfold fqQualLoop
    cases hrd : readLineStr c sched rd with
    | mk o rd' =>
    rcases readLineStr_eq_cases c sched hc hs rd _ _ hrd with ⟨hp, h2, hp'⟩ | ⟨l', hl, hsp, ho⟩
    · subst h2
      have := ih rd' (q ++ T.trim [])
      rw [hp', splitLines] at this
      simpa [hp, splitLines, fqQualU, T.trim_nil] using this
    · rw [hsp]
      cases hv : validUtf8 l' with
      | false =>
        simp only [hv, Bool.false_eq_true, if_false] at ho
        subst ho
        simp [fqQualU, hv]
      | true =>
        simp only [hv, if_true] at ho
        subst ho
        simp only [fqQualU, hv, Bool.not_true, Bool.false_eq_true, if_false]
        have := ih rd' (q ++ T.trim l')
        cases hq : fqQualU T n (splitLines rd'.pending) with
        | error r => rw [hq] at this; simpa using this
        | ok p => rw [hq] at this; simpa using this

/-- an item of the list model as an outcome of `read` -/
def SItem.toFqOut : SItem FqItem → FqOut
  | .item i => .item i
  | .utf8 => .utf8

theorem fqReadS_spec (c : Nat) (sched : Nat → Nat) (hc : 1 ≤ c) (hs : Admissible sched) (rd : St) :
    match splitLines rd.pending with
    | [] => (fqReadS T c sched rd).1 = .eof ∧ (fqReadS T c sched rd).2.pending = []
    | l :: rest => (fqReadS T c sched rd).1 = (fqReadU T l rest).1.toFqOut ∧
        splitLines (fqReadS T c sched rd).2.pending = (fqReadU T l rest).2 := by
  unfold fqReadS
  cases hrd : readLineStr c sched rd with
  | mk o rd1 =>
  rcases readLineStr_eq_cases c sched hc hs rd _ _ hrd with ⟨hp, h2, hp'⟩ | ⟨l, hl, hsp, ho⟩
  · subst h2
    simp [hp, splitLines, hp']
  · rw [hsp]
    simp only
    cases hv : validUtf8 l with
    | false =>
      simp only [hv, Bool.false_eq_true, if_false] at ho
      subst ho
      simp [fqReadU, hv, SItem.toFqOut]
    | true =>
      simp only [hv, if_true] at ho
      subst ho
      have hne : l.isEmpty = false := by
        cases l with
        | nil => exact absurd rfl hl
        | cons => rfl
      simp only [hne, Bool.false_eq_true, if_false]
      cases hst : startsWith l 64 with
      | false => simp [fqReadU, hv, hst, SItem.toFqOut]
      | true =>
        simp only [fqReadU, hv, hst, Bool.not_true, Bool.false_eq_true, if_false]
        have h1 := fqSeqLoop_spec T c sched hc hs rd1 [] 0
        cases hq : fqSeqU T (splitLines rd1.pending) with
        | error r =>
          rw [hq] at h1
          cases hl1 : fqSeqLoop T c sched rd1 [] 0 with
          | mk o2 rd2 =>
          rw [hl1] at h1
          obtain ⟨h1a, h1b⟩ := h1
          simp only at h1a h1b
          subst h1a
          simp [SItem.toFqOut, h1b]
        | ok p =>
          rw [hq] at h1
          cases hl1 : fqSeqLoop T c sched rd1 [] 0 with
          | mk o2 rd2 =>
          rw [hl1] at h1
          obtain ⟨h1a, h1b⟩ := h1
          simp only [List.nil_append, Nat.zero_add] at h1a h1b
          subst h1a
          simp only
          have h2 := fqQualLoop_spec T c sched hc hs p.2.1 rd2 []
          rw [h1b] at h2
          cases hq2 : fqQualU T p.2.1 p.2.2.tail with
          | error r =>
            rw [hq2] at h2
            cases hl2 : fqQualLoop T c sched p.2.1 rd2 [] with
            | mk o3 rd3 =>
            rw [hl2] at h2
            obtain ⟨h2a, h2b⟩ := h2
            simp only at h2a h2b
            subst h2a
            simp [SItem.toFqOut, h2b]
          | ok q =>
            rw [hq2] at h2
            cases hl2 : fqQualLoop T c sched p.2.1 rd2 [] with
            | mk o3 rd3 =>
            rw [hl2] at h2
            obtain ⟨h2a, h2b⟩ := h2
            simp only [List.nil_append] at h2a h2b
            subst h2a
            simp only
            cases hqe : q.1.isEmpty <;> simp [SItem.toFqOut, h2b]

theorem fqRecordsU_cons (l : Bytes) (rest : List Bytes) :
    fqRecordsU T (l :: rest) = (fqReadU T l rest).1 :: fqRecordsU T (fqReadU T l rest).2 := by
  rw [fqRecordsU]

theorem fqDrain_spec (c : Nat) (sched : Nat → Nat) (hc : 1 ≤ c) (hs : Admissible sched) (fuel : Nat) :
    ∀ (rd : St), (splitLines rd.pending).length < fuel →
      (fqDrain T c sched fuel rd).1 = fqRecordsU T (splitLines rd.pending) := by
  induction fuel with
  | zero => intro rd h; omega
  | succ fuel ih =>
    intro rd hlen
    have hsp := fqReadS_spec T c sched hc hs rd
    unfold fqDrain
    cases hrd : fqReadS T c sched rd with
    | mk out rd' =>
    rw [hrd] at hsp
    cases hls : splitLines rd.pending with
    | nil =>
      rw [hls] at hsp
      simp only at hsp
      rw [hsp.1]
      simp [fqRecordsU]
    | cons l rest =>
      rw [hls] at hsp hlen
      simp only at hsp
      obtain ⟨h1, h2⟩ := hsp
      have hle := fqReadU_length_le T l rest
      simp only [List.length_cons] at hlen
      have hih := ih rd' (by rw [h2]; omega)
      rw [fqRecordsU_cons, h1]
      cases hit : (fqReadU T l rest).1 with
      | item i => simp [SItem.toFqOut, hih, h2]
      | utf8 => simp [SItem.toFqOut, hih, h2]

/-- `fastq::Records` ends: at most one `next` call per line, plus one -/
theorem fqNextCalls_spec (c : Nat) (sched : Nat → Nat) (hc : 1 ≤ c) (hs : Admissible sched) (fuel : Nat) :
    ∀ (rd : St), (splitLines rd.pending).length < fuel →
      ∃ n, fqNextCalls T c sched fuel rd = some n ∧ n ≤ (splitLines rd.pending).length + 1 := by
  induction fuel with
  | zero => intro rd h; omega
  | succ fuel ih =>
    intro rd hlen
    have hsp := fqReadS_spec T c sched hc hs rd
    unfold fqNextCalls
    cases hrd : fqReadS T c sched rd with
    | mk out rd' =>
    rw [hrd] at hsp
    cases hls : splitLines rd.pending with
    | nil =>
      rw [hls] at hsp
      simp only at hsp
      rw [hsp.1]
      exact ⟨1, rfl, by omega⟩
    | cons l rest =>
      rw [hls] at hsp hlen
      simp only at hsp
      obtain ⟨h1, h2⟩ := hsp
      have hle := fqReadU_length_le T l rest
      simp only [List.length_cons] at hlen ⊢
      obtain ⟨n, hn, hnle⟩ := ih rd' (by rw [h2]; omega)
      rw [h2] at hnle
      rw [h1]
      cases hit : (fqReadU T l rest).1 with
      | item i => exact ⟨n + 1, by simp [SItem.toFqOut, hn], by omega⟩
      | utf8 => exact ⟨n + 1, by simp [SItem.toFqOut, hn], by omega⟩

/-! ## [A] the stateful readers compute the list models with the UTF-8 check -/

theorem splitLines_length_le (f : Bytes) : (splitLines f).length ≤ f.length := by
  induction f with
  | nil => simp [splitLines]
  | cons b r ih =>
    unfold splitLines
    split
    · simp only [List.length_cons]; omega
    · split <;> rename_i heq <;> rw [heq] at ih <;> simp only [List.length_cons, List.length_nil] at ih ⊢ <;> omega

theorem parseFastaVia_eq (c : Nat) (sched : Nat → Nat) (hc : 1 ≤ c) (hs : Admissible sched) (file : Bytes) :
    parseFastaVia T c sched file = parseFastaU T file := by
  unfold parseFastaVia parseFastaU
  apply faDrain_spec T c sched hc hs
  · exact ⟨rfl, by simp [init, St.pending]⟩
  · have := splitLines_length_le file; omega

theorem parseFastqVia_eq (c : Nat) (sched : Nat → Nat) (hc : 1 ≤ c) (hs : Admissible sched) (file : Bytes) :
    parseFastqVia T c sched file = parseFastqU T file := by
  unfold parseFastqVia parseFastqU
  have h := fqDrain_spec T c sched hc hs (file.length + 1) (init file)
  simp only [init, St.pending, List.nil_append] at h
  apply h
  have := splitLines_length_le file; omega

/-! ## [B] on lines that are valid UTF-8 and on which `T` agrees with the ASCII text functions, the `…U` models are
the plain list models -/

/-- every line is valid UTF-8 and `T` computes on it what the list models compute -/
def AllValid (ls : List Bytes) : Prop := ∀ l ∈ ls, validUtf8 l = true ∧ T.AgreesOn l

variable {T}

theorem AllValid.tail {l : Bytes} {ls : List Bytes} (h : AllValid T (l :: ls)) : AllValid T ls :=
  fun x hx => h x (List.mem_cons_of_mem _ hx)

theorem faSeq_subset (ls : List Bytes) : ∀ x ∈ (faSeq ls).2, x ∈ ls := by
  induction ls with
  | nil => simp [faSeq]
  | cons l ls ih =>
    unfold faSeq
    split
    · intro x hx; exact hx
    · intro x hx; exact List.mem_cons_of_mem _ (ih x hx)

theorem faSeqU_valid (ls : List Bytes) (h : AllValid T ls) : faSeqU T ls = some (faSeq ls) := by
  induction ls with
  | nil => rfl
  | cons l ls ih =>
    obtain ⟨hv, ha⟩ := h l (by simp)
    unfold faSeqU faSeq
    simp only [hv, Bool.not_true, Bool.false_eq_true, if_false]
    split
    · rfl
    · rw [ih h.tail, ha.1]; rfl

theorem faRecordsU_valid (ls : List Bytes) (h : AllValid T ls) : faRecordsU T ls = (faRecords ls).map .item := by
  fun_induction faRecords ls with
  | case1 => simp [faRecordsU]
  | case2 l ls hst =>
    obtain ⟨hv, ha⟩ := h l (by simp)
    have hst' : startsWith l 62 = false := by simpa using hst
    simp [faRecordsU_cons, hv, hst']
  | case3 l ls hst hd sr r he =>
    obtain ⟨hv, ha⟩ := h l (by simp)
    have hst' : startsWith l 62 = true := by simpa using hst
    have he' : ({ id := (faHeader l).1, desc := (faHeader l).2, seq := (faSeq ls).1 } : FaRec).isEmpty = true := he
    simp [faRecordsU_cons, hv, hst', faSeqU_valid ls h.tail, ha.2.1, he']
  | case4 l ls hst hd sr r he ih =>
    obtain ⟨hv, ha⟩ := h l (by simp)
    have hst' : startsWith l 62 = true := by simpa using hst
    have he' : ({ id := (faHeader l).1, desc := (faHeader l).2, seq := (faSeq ls).1 } : FaRec).isEmpty = false := by
      simpa using he
    have hsub : AllValid T (faSeq ls).2 := fun x hx => h x (List.mem_cons_of_mem _ (faSeq_subset ls x hx))
    have := ih hsub
    simp only [faRecordsU_cons, hv, hst', faSeqU_valid ls h.tail, ha.2.1, he', Bool.true_eq_false, if_false,
      Bool.false_eq_true, List.map_cons]
    rw [this]

theorem fqSeq_subset (ls : List Bytes) : ∀ x ∈ (fqSeq ls).2.2, x ∈ ls := by
  induction ls with
  | nil => simp [fqSeq]
  | cons l ls ih =>
    unfold fqSeq
    split
    · intro x hx; exact hx
    · intro x hx; exact List.mem_cons_of_mem _ (ih x hx)

theorem fqQual_subset (n : Nat) (ls : List Bytes) : ∀ x ∈ (fqQual n ls).2, x ∈ ls := by
  induction n generalizing ls with
  | zero => simp [fqQual]
  | succ n ih =>
    cases ls with
    | nil => simpa [fqQual] using ih []
    | cons l ls => intro x hx; simp only [fqQual] at hx; exact List.mem_cons_of_mem _ (ih ls x hx)

theorem fqSeqU_valid (ls : List Bytes) (h : AllValid T ls) : fqSeqU T ls = .ok (fqSeq ls) := by
  induction ls with
  | nil => rfl
  | cons l ls ih =>
    obtain ⟨hv, ha⟩ := h l (by simp)
    unfold fqSeqU fqSeq
    simp only [hv, Bool.not_true, Bool.false_eq_true, if_false]
    split
    · rfl
    · rw [ih h.tail, ha.1]

theorem fqQualU_valid (n : Nat) (ls : List Bytes) (h : AllValid T ls) : fqQualU T n ls = .ok (fqQual n ls) := by
  induction n generalizing ls with
  | zero => rfl
  | succ n ih =>
    cases ls with
    | nil => simpa [fqQualU, fqQual] using ih [] h
    | cons l ls =>
      obtain ⟨hv, ha⟩ := h l (by simp)
      simp only [fqQualU, fqQual, hv, Bool.not_true, Bool.false_eq_true, if_false]
      rw [ih ls h.tail, ha.1]

theorem fqRead_subset (l : Bytes) (ls : List Bytes) : ∀ x ∈ (fqRead l ls).2, x ∈ ls := by
  intro x hx
  have h1 : ∀ y ∈ (fqQual (fqSeq ls).2.1 (fqSeq ls).2.2.tail).2, y ∈ ls := fun y hy =>
    fqSeq_subset ls y (List.mem_of_mem_tail (fqQual_subset _ _ y hy))
  unfold fqRead at hx
  split at hx
  · exact hx
  · simp only at hx
    split at hx <;> exact h1 x hx

theorem fqReadU_valid (l : Bytes) (ls : List Bytes) (h : AllValid T (l :: ls)) :
    fqReadU T l ls = (.item (fqRead l ls).1, (fqRead l ls).2) := by
  obtain ⟨hv, ha⟩ := h l (by simp)
  have hq : AllValid T (fqSeq ls).2.2.tail := fun x hx => h.tail x (fqSeq_subset ls x (List.mem_of_mem_tail hx))
  unfold fqReadU fqRead
  simp only [hv, Bool.not_true, Bool.false_eq_true, if_false, fqSeqU_valid ls h.tail, fqQualU_valid _ _ hq, ha.2.2]
  split
  · rfl
  · split <;> rfl

theorem fqRecordsU_valid (ls : List Bytes) (h : AllValid T ls) : fqRecordsU T ls = (fqRecords ls).map .item := by
  fun_induction fqRecords ls with
  | case1 => simp [fqRecordsU]
  | case2 l ls ih =>
    have hsub : AllValid T (fqRead l ls).2 := fun x hx => h.tail x (fqRead_subset l ls x hx)
    rw [fqRecordsU_cons, fqReadU_valid l ls h]
    simp only [List.map_cons]
    rw [ih hsub]

/-- the bytes of a line are bytes of the file -/
theorem mem_of_mem_splitLines (f : Bytes) : ∀ l ∈ splitLines f, ∀ b ∈ l, b ∈ f := by
  induction f with
  | nil => intro l hl; cases hl
  | cons c r ih =>
    intro l hl b hb
    unfold splitLines at hl
    split at hl
    · rcases List.mem_cons.mp hl with rfl | hl'
      · rename_i hc; subst hc; simp only [List.mem_singleton] at hb; simp [hb]
      · exact List.mem_cons_of_mem _ (ih l hl' b hb)
    · split at hl
      · simp only [List.mem_singleton] at hl
        subst hl
        simp only [List.mem_singleton] at hb; simp [hb]
      · rename_i l0 ls0 heq
        rcases List.mem_cons.mp hl with rfl | hl'
        · rcases List.mem_cons.mp hb with rfl | hb'
          · simp
          · exact List.mem_cons_of_mem _ (ih l0 (by rw [heq]; simp) b hb')
        · exact List.mem_cons_of_mem _ (ih l (by rw [heq]; simp [hl']) b hb)

end RbV.Fastx
