import RbV.Lemmas.FillBasic
/-!
The columns of `Model/PairwiseFill.lean` read cell by cell: `cell j i` is row `i` of column `j`; the recurrences that
tie a cell to its neighbours (`cell_zero_succ`, `cell_succ_zero`, `cell_succ_succ`), and the loop bodies with every
`if a > b` written as `max` (`step0_eq`, `rowJ0_eq`, `stepJ_eq`, `post1Step_eq`, `post2Step_eq`).
-/
namespace RbV.Model.PairwiseFill
open RbV.Align

section
variable (sc : Sc) (cl : Clip) (x y : List Nat)

/-- row `i` of column `j` -/
def cell (j i : Nat) : Row := (colAt sc cl x y j).getD i default

theorem cell_zero_zero : cell sc cl x y 0 0 = row00 cl x y := by
  simp only [cell, colAt, col0, iter_getD_zero]

theorem cell_zero_succ (i : Nat) (hi : i + 1 ≤ x.length) :
    cell sc cl x y 0 (i + 1) = step0 sc cl x y (i + 1) (cell sc cl x y 0 i) := by
  simp only [cell, colAt, col0]
  rw [iter_getD_succ _ _ _ _ _ hi]

theorem cell_succ_zero (j : Nat) :
    cell sc cl x y (j + 1) 0 = rowJ0 sc cl x y (j + 1) (cell sc cl x y j 0) := by
  simp only [cell, colAt, colStep, iter_getD_zero]

theorem cell_succ_succ (j i : Nat) (hi : i + 1 ≤ x.length) :
    cell sc cl x y (j + 1) (i + 1) =
      stepJ sc cl x y (j + 1) (colAt sc cl x y j) (i + 1) (cell sc cl x y (j + 1) i) := by
  simp only [cell, colAt, colStep]
  rw [iter_getD_succ _ _ _ _ _ hi]

/-! ### the loop bodies in `max` form -/

/-- `I[0][i]` -/
def iv0 (i : Nat) : Int :=
  if i = 1 then sc.go + sc.ge else max (sc.go + sc.ge * (i : Int)) (cl.xp + sc.go + sc.ge)

theorem step0_eq (i : Nat) (r : Row) : step0 sc cl x y i r =
    let s2 := max cl.xp (max (iv0 sc cl i) (if i = x.length then r.xm else minScore))
    ⟨s2, iv0 sc cl i, minScore, max (s2 + cl.ys) minScore, if i = x.length then s2 else max (s2 + cl.xs) r.xm,
      (step0 sc cl x y i r).t⟩ := by
  refine Row.ext ?_ ?_ ?_ ?_ ?_ rfl <;> simp only [step0, iv0, upd_eq_max, ite_gt_eq_max]

/-- `D[j][0]` -/
def dv0 (j : Nat) : Int :=
  if j = 1 then sc.go + sc.ge else max (sc.go + sc.ge * (j : Int)) (cl.yp + sc.go + sc.ge)

theorem rowJ0_eq (j : Nat) (p0 : Row) : rowJ0 sc cl x y j p0 =
    let s0 := max (dv0 sc cl j) cl.yp
    let s0' := if j = y.length ∧ p0.sn > s0 then p0.sn else s0
    ⟨s0', minScore, dv0 sc cl j, if j = y.length ∧ p0.sn > s0 then p0.sn else max (s0 + cl.ys) p0.sn,
      if x.length = 0 then s0' else minScore, (rowJ0 sc cl x y j p0).t⟩ := by
  refine Row.ext ?_ ?_ ?_ ?_ ?_ rfl <;> simp only [rowJ0, dv0, upd_eq_max, ite_gt_eq_max] <;> rfl

/-- `best_i_score` -/
def bestI (r : Row) : Int := max (r.i + sc.ge) (r.s + sc.go + sc.ge)
/-- `best_d_score` (`pr` = same row of the previous column) -/
def bestD (pr : Row) : Int := max (pr.d + sc.ge) (pr.s + sc.go + sc.ge)

/-- `best_s_score` before it is stored: all six candidates -/
def bestS (j : Nat) (prev : List Row) (i : Nat) (r : Row) : Int :=
  max (cl.yp + sc.go + sc.ge * (i : Int))
    (max (cl.xp + max cl.yp (sc.go + sc.ge * (j : Int)))
      (max (bestD sc (prev.getD i default))
        (max (bestI sc r)
          (max ((prev.getD (i - 1) default).s + sc.w (x.getD (i - 1) 0) (y.getD (j - 1) 0))
            (if i = x.length then r.xm else minScore)))))

theorem stepJ_eq (j : Nat) (prev : List Row) (i : Nat) (r : Row) : stepJ sc cl x y j prev i r =
    let b5 := bestS sc cl x y j prev i r
    let xm2 := max (b5 + cl.xs) (if i = x.length then b5 else r.xm)
    let s := if i = x.length then xm2 else b5
    ⟨s, bestI sc r, bestD sc (prev.getD i default), max (s + cl.ys) (prev.getD i default).sn, xm2,
      (stepJ sc cl x y j prev i r).t⟩ := by
  refine Row.ext ?_ ?_ ?_ ?_ ?_ rfl <;> simp only [stepJ, bestS, bestI, bestD, upd_eq_max, ite_gt_eq_max]

theorem post1Step_eq (col : List Row) (i : Nat) (p : PSt) : post1Step cl x col i p =
    let r := col.getD i default
    let s1 := max r.sn (if i = x.length then p.xm else r.s)
    let xm2 := max (s1 + cl.xs) (if i = x.length then s1 else p.xm)
    ⟨if i = x.length then xm2 else s1, xm2, (post1Step cl x col i p).iv, (post1Step cl x col i p).ts,
      (post1Step cl x col i p).ti, (post1Step cl x col i p).sm, (post1Step cl x col i p).lx⟩ := by
  refine PSt.ext ?_ ?_ rfl rfl rfl rfl rfl <;> simp only [post1Step, upd_eq_max]

theorem post1_getD_zero (col : List Row) :
    (post1 cl x col).getD 0 default = post1Step cl x col 0 (p1init x col) := by
  simp only [post1, iter_getD_zero]

theorem post1_getD_succ (col : List Row) (i : Nat) (hi : i + 1 ≤ x.length) :
    (post1 cl x col).getD (i + 1) default = post1Step cl x col (i + 1) ((post1 cl x col).getD i default) := by
  simp only [post1]
  rw [iter_getD_succ _ _ _ _ _ hi]

theorem post2_getD_zero (s1 : List PSt) :
    (post2 sc cl x s1).getD 0 default = p2init x s1 := by
  simp only [post2, iter_getD_zero]

theorem post2_getD_succ (s1 : List PSt) (i : Nat) (hi : i + 1 ≤ x.length) :
    (post2 sc cl x s1).getD (i + 1) default =
      post2Step sc cl x s1 (i + 1) ((post2 sc cl x s1).getD i default) := by
  simp only [post2]
  rw [iter_getD_succ _ _ _ _ _ hi]

/-- the one-pass list of all columns holds the columns -/
theorem allCols_getD (j : Nat) (hj : j ≤ y.length) : (allCols sc cl x y).getD j [] = colAt sc cl x y j := by
  induction j with
  | zero => simp only [allCols, iter_getD_zero, colAt]
  | succ j ih =>
    simp only [allCols] at ih ⊢
    rw [iter_getD_succ _ _ _ _ _ hj, ih (by omega), colAt]

theorem fill_score : (fill sc cl x y).score =
    ((post2 sc cl x (post1 cl x (colAt sc cl x y y.length))).getD x.length default).xm := by
  simp only [fill, allCols_getD sc cl x y y.length (Nat.le_refl _)]

end

end RbV.Model.PairwiseFill
