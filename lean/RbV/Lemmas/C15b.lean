import RbV.Lemmas.C15
/-! C15, continued: n-ary sum, cumulative sum, `ln(1 - exp p)`, subtraction, checked construction, PHRED factors. -/
namespace RbV.C15
open Real

/-! ## `ln_sum_exp` -/

/-- the finite entries of a list (Rust: entries `!= ln_zero`) -/
def finites (l : List LP) : List ℝ := l.filterMap id

theorem sum_lin_eq (l : List LP) : (l.map lin).sum = ((finites l).map exp).sum := by
  induction l with
  | nil => simp [finites]
  | cons a t ih =>
    cases a with
    | none => simpa [finites, lin] using ih
    | some x => simpa [finites, lin] using ih

/-- maximum of the non-empty list `x :: xs` -/
noncomputable def lmax (x : ℝ) (xs : List ℝ) : ℝ := xs.foldr max x

theorem le_lmax (x : ℝ) (xs : List ℝ) : ∀ y ∈ x :: xs, y ≤ lmax x xs := by
  induction xs with
  | nil => intro y hy; simp only [List.mem_singleton] at hy; simp [lmax, hy]
  | cons z zs ih =>
    intro y hy
    simp only [lmax, List.foldr_cons]
    rcases List.mem_cons.mp hy with rfl | hy
    · exact le_trans (ih _ (List.mem_cons_self ..)) (le_max_right _ _)
    · rcases List.mem_cons.mp hy with rfl | hy
      · exact le_max_left _ _
      · exact le_trans (ih _ (List.mem_cons_of_mem _ hy)) (le_max_right _ _)

theorem lmax_mem (x : ℝ) (xs : List ℝ) : lmax x xs ∈ x :: xs := by
  induction xs with
  | nil => simp [lmax]
  | cons z zs ih =>
    simp only [lmax, List.foldr_cons]
    rcases max_choice z (zs.foldr max x) with h | h
    · rw [h]; simp
    · rw [h]
      rcases List.mem_cons.mp ih with h' | h'
      · simp only [lmax] at h'; rw [h']; simp
      · exact List.mem_cons_of_mem _ (List.mem_cons_of_mem _ h')

/-- `LogProb::ln_sum_exp`: all entries `ln 0` (or none at all) → `ln 0`; otherwise
`pmax + ln_1p(Σ_{i ≠ imax, pᵢ ≠ ln 0} E(pᵢ - pmax))` where `imax` is the first position of the maximum
(`List.erase` removes the first occurrence). -/
noncomputable def lnSumExp (E : ℝ → ℝ) (l : List LP) : LP :=
  match finites l with
  | [] => none
  | x :: xs =>
    some (lmax x xs + log (1 + (((x :: xs).erase (lmax x xs)).map fun y => E (y - lmax x xs)).sum))

theorem tail_bound {E δ} (h : ApproxExp E δ) (hδ : δ < 1) (M : ℝ) (R : List ℝ) (hR : ∀ y ∈ R, y ≤ M) :
    0 ≤ (R.map fun y => E (y - M)).sum ∧
    |exp M * (R.map fun y => E (y - M)).sum - (R.map exp).sum| ≤ δ * (R.map exp).sum := by
  induction R with
  | nil => simp
  | cons y R ih =>
    have hy : y - M ≤ 0 := sub_nonpos.mpr (hR y (List.mem_cons_self ..))
    obtain ⟨ih0, ih1⟩ := ih (fun z hz => hR z (List.mem_cons_of_mem _ hz))
    have hE := h.pos hδ hy
    refine ⟨by simp only [List.map_cons, List.sum_cons]; linarith, ?_⟩
    simp only [List.map_cons, List.sum_cons]
    have hexp : exp y = exp M * exp (y - M) := by rw [← exp_add]; ring_nf
    have h1 := h _ hy
    have h2 : |exp M * (E (y - M) - exp (y - M))| ≤ δ * exp y := by
      rw [abs_mul, abs_of_pos (exp_pos _), hexp]
      calc exp M * |E (y - M) - exp (y - M)| ≤ exp M * (δ * exp (y - M)) :=
            mul_le_mul_of_nonneg_left h1 (exp_pos _).le
        _ = δ * (exp M * exp (y - M)) := by ring
    have heq : exp M * (E (y - M) + (R.map fun y => E (y - M)).sum) - (exp y + (R.map exp).sum)
        = exp M * (E (y - M) - exp (y - M)) + (exp M * (R.map fun y => E (y - M)).sum - (R.map exp).sum) := by
      rw [hexp]; ring
    rw [heq]
    calc _ ≤ |exp M * (E (y - M) - exp (y - M))| + |exp M * (R.map fun y => E (y - M)).sum - (R.map exp).sum| :=
          abs_add_le _ _
      _ ≤ δ * exp y + δ * (R.map exp).sum := add_le_add h2 ih1
      _ = δ * (exp y + (R.map exp).sum) := by ring

theorem lnSumExp_error {E δ} (h : ApproxExp E δ) (hδ : δ < 1) (l : List LP) :
    |lin (lnSumExp E l) - (l.map lin).sum| ≤ δ * (l.map lin).sum := by
  have hδ0 := h.delta_nonneg
  rw [sum_lin_eq]
  unfold lnSumExp
  cases hf : finites l with
  | nil => simp [lin]
  | cons x xs =>
    simp only
    have hmem := lmax_mem x xs
    have hperm := List.perm_cons_erase hmem
    have hsum : ((x :: xs).map exp).sum = exp (lmax x xs) + (((x :: xs).erase (lmax x xs)).map exp).sum := by
      rw [(hperm.map exp).sum_eq]; simp
    have hR : ∀ y ∈ (x :: xs).erase (lmax x xs), y ≤ lmax x xs :=
      fun y hy => le_lmax x xs y (List.mem_of_mem_erase hy)
    obtain ⟨h0, h1⟩ := tail_bound h hδ (lmax x xs) _ hR
    have hpos : 0 < 1 + (((x :: xs).erase (lmax x xs)).map fun y => E (y - lmax x xs)).sum := by linarith
    rw [hsum]
    simp only [lin]
    rw [exp_add, exp_log hpos]
    have hT : 0 ≤ (((x :: xs).erase (lmax x xs)).map exp).sum :=
      List.sum_nonneg (by intro a ha; obtain ⟨y, _, rfl⟩ := List.mem_map.mp ha; exact (exp_pos y).le)
    have heq : ∀ (m S T : ℝ), m * (1 + S) - (m + T) = m * S - T := by intro m S T; ring
    rw [heq]
    calc _ ≤ δ * (((x :: xs).erase (lmax x xs)).map exp).sum := h1
      _ ≤ δ * (exp (lmax x xs) + (((x :: xs).erase (lmax x xs)).map exp).sum) :=
          mul_le_mul_of_nonneg_left (by linarith [exp_pos (lmax x xs)]) hδ0

theorem lnSumExp_exact (l : List LP) : lin (lnSumExp exp l) = (l.map lin).sum := by
  have := lnSumExp_error approxExp_exp (by norm_num) l
  simp only [zero_mul, abs_nonpos_iff, sub_eq_zero] at this
  exact this

/-! ## `ln_cumsum_exp` -/

/-- `Iterator::scan` with `scan_ln_add_exp`, started in state `s` -/
noncomputable def lnCumsumFrom (E : ℝ → ℝ) : LP → List LP → List LP
  | _, [] => []
  | s, p :: ps => lnAddExp E s p :: lnCumsumFrom E (lnAddExp E s p) ps

noncomputable def lnCumsumExp (E : ℝ → ℝ) (l : List LP) : List LP := lnCumsumFrom E none l

theorem lnCumsumFrom_error {E δ} (h : ApproxExp E δ) (hδ : δ < 1) (ps : List LP) :
    ∀ (s : LP) (T : ℝ), 0 ≤ T → |lin s - T| ≤ δ * T → ∀ (k : ℕ) (r : LP), (lnCumsumFrom E s ps)[k]? = some r →
      |lin r - (T + ((ps.take (k + 1)).map lin).sum)| ≤ δ * (T + ((ps.take (k + 1)).map lin).sum) := by
  have hδ0 := h.delta_nonneg
  induction ps with
  | nil => intro s T _ _ k r hr; simp [lnCumsumFrom] at hr
  | cons p ps ih =>
    intro s T hT hs k r hr
    have hp := lin_nonneg p
    have hstep : |lin (lnAddExp E s p) - (T + lin p)| ≤ δ * (T + lin p) := by
      have h1 := lnAddExp_error h hδ s p
      have h2 : δ * min (lin s) (lin p) ≤ δ * lin p := mul_le_mul_of_nonneg_left (min_le_right _ _) hδ0
      have : lin (lnAddExp E s p) - (T + lin p) = (lin (lnAddExp E s p) - (lin s + lin p)) + (lin s - T) := by ring
      rw [this]
      calc _ ≤ |lin (lnAddExp E s p) - (lin s + lin p)| + |lin s - T| := abs_add_le _ _
        _ ≤ δ * lin p + δ * T := add_le_add (le_trans h1 h2) hs
        _ = δ * (T + lin p) := by ring
    cases k with
    | zero =>
      simp only [lnCumsumFrom, List.getElem?_cons_zero, Option.some.injEq] at hr
      subst hr
      simpa using hstep
    | succ k =>
      simp only [lnCumsumFrom, List.getElem?_cons_succ] at hr
      have := ih (lnAddExp E s p) (T + lin p) (by linarith) hstep k r hr
      simpa [List.take_succ_cons, add_assoc] using this

/-- every entry of the cumulative sum is within `δ ·` (exact prefix sum) of the exact prefix sum -/
theorem lnCumsumExp_error {E δ} (h : ApproxExp E δ) (hδ : δ < 1) (l : List LP) (k : ℕ) (r : LP)
    (hr : (lnCumsumExp E l)[k]? = some r) :
    |lin r - ((l.take (k + 1)).map lin).sum| ≤ δ * ((l.take (k + 1)).map lin).sum := by
  have := lnCumsumFrom_error h hδ l none 0 le_rfl (by simp [lin]) k r hr
  simpa using this

theorem lnCumsumExp_exact (l : List LP) (k : ℕ) (r : LP) (hr : (lnCumsumExp exp l)[k]? = some r) :
    lin r = ((l.take (k + 1)).map lin).sum := by
  have := lnCumsumExp_error approxExp_exp (by norm_num) l k r hr
  simp only [zero_mul, abs_nonpos_iff, sub_eq_zero] at this
  exact this

/-! ## `ln_1m_exp`, `ln_one_minus_exp`, `ln_sub_exp` -/

/-- `ln_1m_exp(p)` for finite `p ≤ 0`: `p < -0.693 → ln_1p(-E p)`, else `ln(-exp_m1 p)` (`= ln 0` at `p = 0`) -/
noncomputable def ln1mExp (E : ℝ → ℝ) (x : ℝ) : LP :=
  if x < -0.693 then some (log (1 + -(E x)))
  else if x = 0 then none
  else some (log (-(exp x - 1)))

theorem exp_neg_switch_le : exp (-0.693) ≤ 1 / 1.693 := by
  have h2 : exp (-0.693) * exp 0.693 = 1 := by rw [← exp_add]; norm_num
  have h3 : (0.693 : ℝ) + 1 ≤ exp 0.693 := add_one_le_exp _
  have h4 := mul_le_mul_of_nonneg_left h3 (exp_pos (-0.693)).le
  rw [h2] at h4
  rw [le_div_iff₀ (by norm_num)]
  linarith

theorem ln1mExp_error {E δ} (h : ApproxExp E δ) (hδ : δ ≤ 1 / 2) {x : ℝ} (hx : x ≤ 0) :
    |lin (ln1mExp E x) - (1 - exp x)| ≤ δ * exp x := by
  have hδ0 := h.delta_nonneg
  unfold ln1mExp
  split
  · -- fast branch
    rename_i hlt
    have hup := h.upper hx
    have h1 : exp x < exp (-0.693) := exp_lt_exp.mpr hlt
    have h2 := exp_neg_switch_le
    have hE : E x < 1 := by
      have : (1 + δ) * exp x ≤ (3 / 2) * exp x := mul_le_mul_of_nonneg_right (by linarith) (exp_pos x).le
      have : (3 / 2 : ℝ) * (1 / 1.693) < 1 := by norm_num
      nlinarith [exp_pos x]
    have hpos : 0 < 1 + -(E x) := by linarith
    simp only [lin, exp_log hpos]
    have : 1 + -(E x) - (1 - exp x) = -(E x - exp x) := by ring
    rw [this, abs_neg]
    exact h x hx
  · split
    · rename_i _ h0
      subst h0
      simp only [lin, exp_zero, sub_self, abs_zero, mul_one]
      exact hδ0
    · rename_i _ hne
      have hlt : x < 0 := lt_of_le_of_ne hx hne
      have hpos : 0 < -(exp x - 1) := by have := exp_lt_exp.mpr hlt; rw [exp_zero] at this; linarith
      simp only [lin, exp_log hpos]
      have : -(exp x - 1) - (1 - exp x) = 0 := by ring
      rw [this, abs_zero]
      exact mul_nonneg hδ0 (exp_pos x).le

theorem ln1mExp_exact {x : ℝ} (hx : x ≤ 0) : lin (ln1mExp exp x) = 1 - exp x := by
  have := ln1mExp_error approxExp_exp (by norm_num) hx
  simp only [zero_mul, abs_nonpos_iff, sub_eq_zero] at this
  exact this

/-- `LogProb::ln_one_minus_exp` (`ln 0 ↦ ln 1`: `fastexp(-inf) = 0`, `ln_1p(-0) = 0`) -/
noncomputable def lnOneMinusExp (E : ℝ → ℝ) : LP → LP
  | none => some 0
  | some x => ln1mExp E x

theorem lnOneMinusExp_error {E δ} (h : ApproxExp E δ) (hδ : δ ≤ 1 / 2) (a : LP) (ha : lin a ≤ 1) :
    |lin (lnOneMinusExp E a) - (1 - lin a)| ≤ δ * lin a := by
  cases a with
  | none => simp [lnOneMinusExp, lin]
  | some x =>
    have hx : x ≤ 0 := by
      by_contra hc
      have : 1 < exp x := by have := exp_lt_exp.mpr (not_le.mp hc); rwa [exp_zero] at this
      simp only [lin] at ha; linarith
    exact ln1mExp_error h hδ hx

noncomputable def addLP (a : ℝ) : LP → LP
  | none => none
  | some y => some (a + y)

theorem lin_addLP (a : ℝ) (y : LP) : lin (addLP a y) = exp a * lin y := by
  cases y with
  | none => simp [addLP, lin]
  | some y => simp [addLP, lin, exp_add]

/-- `LogProb::ln_sub_exp` (`relative_eq!(p0, p1)` modelled as `p0 = p1`; the case `self = ln 0 < other` violates the
`assert!(p0 >= p1)` and is mapped to `ln 0`) -/
noncomputable def lnSubExp (E : ℝ → ℝ) : LP → LP → LP
  | a, none => a
  | none, some _ => none
  | some a, some b => if a = b then none else addLP a (ln1mExp E (b - a))

theorem lnSubExp_error {E δ} (h : ApproxExp E δ) (hδ : δ ≤ 1 / 2) (a b : LP) (hab : lin b ≤ lin a) :
    |lin (lnSubExp E a b) - (lin a - lin b)| ≤ δ * lin b := by
  have hδ0 := h.delta_nonneg
  cases b with
  | none => simp [lnSubExp, lin]
  | some b =>
    cases a with
    | none =>
      simp only [lin] at hab
      exact absurd hab (not_le.mpr (exp_pos b))
    | some a =>
      have hba : b ≤ a := exp_le_exp.mp hab
      simp only [lnSubExp]
      split
      · rename_i he
        subst he
        simp only [lin, sub_self, abs_zero]
        exact mul_nonneg hδ0 (exp_pos _).le
      · have hx : b - a ≤ 0 := sub_nonpos.mpr hba
        have h1 := ln1mExp_error h hδ hx
        rw [lin_addLP]
        have hla : lin (some a) = exp a := rfl
        have hlb : lin (some b) = exp b := rfl
        rw [hla, hlb]
        have hexp : exp b = exp a * exp (b - a) := by rw [← exp_add]; ring_nf
        have : exp a * lin (ln1mExp E (b - a)) - (exp a - exp b)
            = exp a * (lin (ln1mExp E (b - a)) - (1 - exp (b - a))) := by rw [hexp]; ring
        rw [this, abs_mul, abs_of_pos (exp_pos _), hexp]
        calc exp a * |lin (ln1mExp E (b - a)) - (1 - exp (b - a))| ≤ exp a * (δ * exp (b - a)) :=
              mul_le_mul_of_nonneg_left h1 (exp_pos _).le
          _ = δ * (exp a * exp (b - a)) := by ring

theorem lnSubExp_exact (a b : LP) (hab : lin b ≤ lin a) : lin (lnSubExp exp a b) = lin a - lin b := by
  have := lnSubExp_error approxExp_exp (by norm_num) a b hab
  simp only [zero_mul, abs_nonpos_iff, sub_eq_zero] at this
  exact this

/-! ## checked construction, scale factors -/

/-- `Prob::checked` -/
noncomputable def checked (p : ℝ) : Option ℝ := if 0 ≤ p ∧ p ≤ 1 then some p else none

/- the scale literals of `src/stats/probs/mod.rs` (`LOG_TO_PHRED_FACTOR`, `PHRED_TO_LOG_FACTOR`) are no longer copied
here: they are extracted from the source on every run (`RbV/Gen/Scales.lean`) and defined over the extracted values in
`RbV/Lemmas/C15Gen.lean`. -/

end RbV.C15
